(* Model of the tree algorithms of cmd/go-art/tree.tmpl (= trees.go) and
   collation.go: Search, Insert (four paths), Delete (two paths), minimum,
   maximum, with the helper routines of tree.go (checkPrefix, prefixMismatch
   with its optimistic re-read of the minimum leaf, longestCommonPrefix).

   Mutation through *ref becomes "return the new subtree".  The iterative descent
   becomes recursion on explicit fuel; running out of fuel is the distinguished
   result *Fuel, which the theorems exclude.  A byte index past the end of a key
   is a modelled panic, never a default byte.

   A leaf carries both key forms: gk = getKey() (what equality is decided on:
   the terminated key for generated trees, the original bytes for collation
   trees) and tk = getTransformKey() (what the descent follows).  Values are Z.
   Definitions only; see Proofs/TreeFacts.v. *)
From GoArt Require Export Base.Bytes Model.Node.
Open Scope N_scope.

Inductive tree : Type :=
| Leaf (gk tk : list N) (v : Z)
| Inner (n : rnode tree).

Definition is_leaf (t : tree) : bool := match t with Leaf _ _ _ => true | Inner _ => false end.

(* height and number of nodes: fuel that is always enough for walks over the tree *)
Fixpoint theight (t : tree) : nat :=
  match t with
  | Leaf _ _ _ => 1%nat
  | Inner n =>
    S (match n with
       | N4 _ _ _ ch | N16 _ _ _ ch => list_max (map theight ch)
       | N48 _ _ _ slots | N256 _ _ slots =>
           list_max (map (fun o => match o with Some c => theight c | None => 0%nat end) slots)
       end)
  end.
Fixpoint tsize (t : tree) : nat :=
  match t with
  | Leaf _ _ _ => 1%nat
  | Inner n =>
    S (match n with
       | N4 _ _ _ ch | N16 _ _ _ ch => list_sum (map tsize ch)
       | N48 _ _ _ slots | N256 _ _ slots =>
           list_sum (map (fun o => match o with Some c => tsize c | None => 0%nat end) slots)
       end)
  end.

(* ---- helpers of tree.go ---- *)

(* number of leading positions (at most n) on which a and b agree *)
Fixpoint lcpn (n : nat) (a b : list N) : nat :=
  match n, a, b with
  | S n', x :: a', y :: b' => if x =? y then S (lcpn n' a' b') else 0%nat
  | _, _, _ => 0%nat
  end.

Definition pl_cap (h : hdr) : nat := Nat.min maxPrefixLen (prefixLen h).

(* (n *node).checkPrefix(key, depth) *)
Definition checkPrefix (h : hdr) (key : list N) (depth : nat) : nat :=
  lcpn (Nat.min (pl_cap h) (length key - depth)) (prefix h) (skipn depth key).

(* longestCommonPrefix(key, other, depth) *)
Definition longestCommonPrefix (key other : list N) (depth : nat) : nat :=
  lcpn (Nat.min (length key) (length other) - depth) (skipn depth key) (skipn depth other).

(* minimum / maximum leaf below t: the loops of tree.go on fuel *)
Fixpoint minleaf (fuel : nat) (t : tree) : option tree :=
  match fuel with
  | O => None
  | S f =>
    match t with
    | Leaf _ _ _ => Some t
    | Inner n => match nfirst n with Some c => minleaf f c | None => None end
    end
  end.
Fixpoint maxleaf (fuel : nat) (t : tree) : option tree :=
  match fuel with
  | O => None
  | S f =>
    match t with
    | Leaf _ _ _ => Some t
    | Inner n => match nlast n with Some c => maxleaf f c | None => None end
    end
  end.
Definition minimum (t : tree) : option tree := minleaf (theight t) t.
Definition maximum (t : tree) : option tree := maxleaf (theight t) t.

Definition leaf_tk (t : tree) : list N := match t with Leaf _ tk _ => tk | Inner _ => [] end.
Definition leaf_gk (t : tree) : list N := match t with Leaf gk _ _ => gk | Inner _ => [] end.

(* prefixMismatch(n, key, depth): the inline bytes first, then, when the
   compressed path is longer than the inline limit, the minimum leaf's key *)
Definition prefixMismatch (n : rnode tree) (key : list N) (depth : nat) : nat :=
  let h := nhdr n in
  let maxCmp := Nat.min (pl_cap h) (length key - depth) in
  let idx := lcpn maxCmp (prefix h) (skipn depth key) in
  if (idx <? maxCmp)%nat then idx
  else if (maxPrefixLen <? prefixLen h)%nat then
    let leafKey := match minimum (Inner n) with Some l => leaf_tk l | None => [] end in
    let maxCmp2 := (Nat.min (length leafKey) (length key) - depth)%nat in
    (idx + lcpn (maxCmp2 - idx) (skipn (depth + idx) leafKey) (skipn (depth + idx) key))%nat
  else idx.

(* Go's copy(dst, src) on slices/arrays *)
Definition copy_into (dst src : list N) : list N :=
  let n := Nat.min (length dst) (length src) in firstn n src ++ skipn n dst.

(* ---- Search ---- *)
Inductive sres := SFound (v : Z) | SAbsent | SFuel.

Fixpoint search (fuel : nat) (t : tree) (gk tk : list N) (depth : nat) : sres :=
  match fuel with
  | O => SFuel
  | S f =>
    match t with
    | Leaf lgk _ v => if beq lgk gk then SFound v else SAbsent
    | Inner n =>
      let h := nhdr n in
      if negb (prefixLen h =? 0)%nat && negb (checkPrefix h tk depth =? pl_cap h)%nat then SAbsent
      else
        let depth := (depth + prefixLen h)%nat in
        match nth_error tk depth with
        | None => SAbsent                         (* depth >= len(keyS) *)
        | Some b =>
          match nfind n b with
          | None => SAbsent
          | Some c => search f c gk tk (S depth)
          end
        end
    end
  end.

(* ---- Delete ---- *)

(* node4.deleteChild's tail: a node4 left with one child is replaced by that
   child; an inner child inherits the merged compressed path *)
Definition collapse (n : rnode tree) : tree :=
  match n with
  | N4 h len keys ch =>
    if len =? 1 then
      match ch with
      | Leaf gk tk v :: _ => Leaf gk tk v
      | Inner cn :: _ =>
        let ch_h := nhdr cn in
        let p0 := prefixLen h in
        (* if prefix < maxPrefixLen { n4.prefix[prefix] = getAtPos(keys,0); prefix++ } *)
        let '(pfx, p1) :=
          if (p0 <? maxPrefixLen)%nat then (set_at p0 (getAtPos keys 0) (prefix h), S p0)
          else (prefix h, p0) in
        (* if prefix < maxPrefixLen { copy(n4.prefix[prefix:], child.prefix[:]); prefix += min(child.prefixLen, max-prefix) } *)
        let '(pfx, p2) :=
          if (p1 <? maxPrefixLen)%nat then
            (firstn p1 pfx ++ copy_into (skipn p1 pfx) (prefix ch_h),
             (p1 + Nat.min (prefixLen ch_h) (maxPrefixLen - p1))%nat)
          else (pfx, p1) in
        let hi := Nat.min maxPrefixLen p2 in
        Inner (nset_hdr cn (mkHdr (prefixLen ch_h + p0 + 1) (copy_into (prefix ch_h) (firstn hi pfx))))
      | [] => Inner n
      end
    else Inner n
  | _ => Inner n
  end.

Definition del_child (n : rnode tree) (b : N) : tree :=
  match n with
  | N4 _ _ _ _ => collapse (ndel n b)
  | _ => Inner (ndel n b)
  end.

Inductive dres := DDone (t' : tree) | DAbsent | DFuel.

(* delete below an inner node (the root-leaf case is in Model/Api.v) *)
Fixpoint delete_in (fuel : nat) (t : tree) (gk tk : list N) (depth : nat) : dres :=
  match fuel with
  | O => DFuel
  | S f =>
    match t with
    | Leaf _ _ _ => DAbsent
    | Inner n =>
      let h := nhdr n in
      if negb (prefixLen h =? 0)%nat && negb (checkPrefix h tk depth =? pl_cap h)%nat then DAbsent
      else
        let depth := (depth + prefixLen h)%nat in
        match nth_error tk depth with
        | None => DAbsent
        | Some b =>
          match nfind n b with
          | None => DAbsent
          | Some (Leaf lgk _ _) => if beq lgk gk then DDone (del_child n b) else DAbsent
          | Some (Inner _ as c) =>
            match delete_in f c gk tk (S depth) with
            | DDone c' => DDone (Inner (nreplace n b c'))
            | r => r
            end
          end
        end
    end
  end.

(* ---- Insert ---- *)
(* result: new subtree and whether a key was added (size++) *)
Inductive ires := IDone (t' : tree) (added : bool) | IPanic | IFuel.

Definition new4 (h : hdr) : rnode tree := empty4 h.

Fixpoint insert (fuel : nat) (t : tree) (gk tk : list N) (v : Z) (depth : nat) : ires :=
  match fuel with
  | O => IFuel
  | S f =>
    match t with
    | Leaf lgk ltk lv =>
      if beq gk lgk then IDone (Leaf lgk ltk v) false
      else
        (* leaf split *)
        let lp := longestCommonPrefix ltk tk depth in
        let nn := new4 (mkHdr lp (copy_into (prefix hdr0) (skipn depth tk))) in
        let sp := (depth + lp)%nat in
        let nn := match nth_error ltk sp with Some b => nadd nn b t | None => nn end in
        let nn := match nth_error tk sp with Some b => nadd nn b (Leaf gk tk v) | None => nn end in
        IDone (Inner nn) true
    | Inner n =>
      let h := nhdr n in
      let pdiff := if (prefixLen h =? 0)%nat then 0%nat else prefixMismatch n tk depth in
      if negb (prefixLen h =? 0)%nat && (pdiff <? prefixLen h)%nat then
        (* compressed-path split *)
        let nn := new4 (mkHdr pdiff (prefix h)) in
        let r :=
          if (prefixLen h <=? maxPrefixLen)%nat then
            match nth_error (prefix h) pdiff with
            | None => None
            | Some b =>
              let lo := S pdiff in
              Some (nadd nn b (Inner (nset_hdr n (mkHdr (prefixLen h - lo)
                                                  (copy_into (prefix h) (skipn lo (prefix h)))))))
            end
          else
            let leafKey := match minimum t with Some l => leaf_tk l | None => [] end in
            match nth_error leafKey (depth + pdiff) with
            | None => None
            | Some b =>
              let lo := (depth + pdiff + 1)%nat in
              Some (nadd nn b (Inner (nset_hdr n (mkHdr (prefixLen h - (pdiff + 1))
                                                  (copy_into (prefix h) (skipn lo leafKey))))))
            end in
        match r with
        | None => IPanic
        | Some nn =>
          match nth_error tk (depth + pdiff) with
          | None => IDone (Inner nn) false          (* key exhausted: nothing stored *)
          | Some b => IDone (Inner (nadd nn b (Leaf gk tk v))) true
          end
        end
      else
        let depth := (depth + prefixLen h)%nat in
        match nth_error tk depth with
        | None => IDone t false                      (* key exhausted: nothing stored *)
        | Some b =>
          match nfind n b with
          | Some c =>
            match insert f c gk tk v (S depth) with
            | IDone c' added => IDone (Inner (nreplace n b c')) added
            | r => r
            end
          | None => IDone (Inner (nadd n b (Leaf gk tk v))) true
          end
        end
    end
  end.
