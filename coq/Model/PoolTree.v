(* Pool-aware model of the whole tree (C12 at tree level).

   Model/Tree.v builds every node from scratch and never recycles.  Here the
   same control flow (Insert: overwrite / leaf split / compressed-path split /
   descend-and-add; Delete: descend, deleteChild, node4 collapse onto the last
   child) runs over RAW nodes (Model/Pool.v: every array cell, stale contents
   included) and a SHARED pool whose Get is decided by an adversarial oracle:

     * every new node4 of Insert is taken from the pool (xnew4: two header
       fields written, the rest of the acquired node shows through);
     * adding a child is xadd (grow = Get + partial writes + clear + Put of the
       old node), removing one is xdel (shrink likewise);
     * the node4 left with one child is replaced by that child, whose header is
       rewritten IN PLACE, and goes, cleared, into the pool (xdel4 of
       Model/Pool.v releases it; xcollapse reads it as it is when it is read);
     * a replaced child is written back into the slot it was found in
       (xreplace), header rewrites are field writes (xset_hdr);
     * lookups read the raw storage (xfind).

   Read-only helpers that do not touch the pool and only look at leaves
   (prefixMismatch with its optimistic re-read of the minimum leaf; the
   queries Minimum ... Prefix of the API) are evaluated on the abstraction
   tabs : xtree -> tree (occupied cells only, Model/Pool.xabs at every node).

   As in Model/Tree.v a node is a value, not an address: in the compressed-path
   split the Go code links the old node under the new node4 and THEN rewrites
   the old node's header through the pointer; here the header is rewritten
   first and the rewritten node is linked (same final contents).

   The oracle of one operation is the list of answers to the Gets it performs,
   consumed in order (Model/Pool.nxt / tail); xadd_gets / xdel_gets count the
   Gets of one addChild / deleteChild.

   On top: any number of trees of any kinds over ONE pool (mstate, mevent,
   mstep, mrun), outputs tagged with the tree they belong to, and the run of one
   tree alone over a private, always empty pool (xalone).

   Definitions only, all executable; see Proofs/PoolTreeFacts.v. *)
From GoArt Require Export Base.Bytes Model.Node4 Model.Node16 Model.Node Model.Tree Model.Iter Model.Api.
From GoArt Require Export Model.Pool.
Open Scope N_scope.

(* ---- raw trees ---- *)
Inductive xtree : Type :=
| XLeaf (gk tk : list N) (v : Z)
| XInner (n : xnode xtree).

(* children of a raw node mapped cell by cell (nil stays nil) *)
Section Map.
Context {C D : Type} (f : C -> D).
Definition omap (o : option C) : option D := match o with Some c => Some (f c) | None => None end.
Definition xmap (n : xnode C) : xnode D :=
  match n with
  | X4 h keys ch => X4 h keys (map omap ch)
  | X16 h keys ch => X16 h keys (map omap ch)
  | X48 h idx ch => X48 h idx (map omap ch)
  | X256 h ch => X256 h (map omap ch)
  end.
(* the same on the nodes of Model/Node.v *)
Definition rmap (n : rnode C) : rnode D :=
  match n with
  | N4 h len keys ch => N4 h len keys (map f ch)
  | N16 h len keys ch => N16 h len keys (map f ch)
  | N48 h len idx slots => N48 h len idx (map omap slots)
  | N256 h len slots => N256 h len (map omap slots)
  end.
End Map.

(* the tree of Model/Tree.v a raw tree stands for: occupied cells only, at every node *)
Fixpoint tabs (t : xtree) : tree :=
  match t with
  | XLeaf gk tk v => Leaf gk tk v
  | XInner n => Inner (xabs (xmap tabs n))
  end.
Definition nabs (n : xnode xtree) : rnode tree := xabs (xmap tabs n).

(* ---- raw reads and in-place writes of one node ---- *)
Section Raw.
Context {C : Type}.

(* children[i] as a reference: nil (or out of range) is None *)
Definition slot (l : list (option C)) (i : nat) : option C :=
  match nth_error l i with Some s => s | None => None end.

(* (ref *nodeRef).findChild(b) on the raw storage *)
Definition xfind (n : xnode C) (b : N) : option C :=
  match n with
  | X4 h keys ch =>
      (* if i := searchNode4(n4.keys, b); i != -1 && i < int(n4.childrenLen) { return &n4.children[i] } *)
      let i := searchNode4 keys b in
      if negb (i =? -1)%Z && (i <? Z.of_N (xlen h))%Z then slot ch (Z.to_nat i) else None
  | X16 h keys ch =>
      (* if idx := searchNode16(&n16.keys, n16.childrenLen, b); idx != -1 { return &n16.children[idx] } *)
      let i := searchNode16 keys (xlen h) b in
      if (i =? -1)%Z then None else slot ch (Z.to_nat i)
  | X48 h idx ch =>
      (* i := n48.keys[b]; if i != 0 { return &n48.children[i-1] } *)
      let i := nth (N.to_nat b) idx 0 in
      if i =? 0 then None else slot ch (N.to_nat (i - 1))
  | X256 h ch =>
      (* if n256.children[b].pointer != nil { return &n256.children[b] } *)
      slot ch (N.to_nat b)
  end.

(* *child = c, where child is the slot findChild(b) returned: the cell is overwritten in place *)
Definition xreplace (n : xnode C) (b : N) (c : C) : xnode C :=
  match n with
  | X4 h keys ch =>
      let i := searchNode4 keys b in
      if negb (i =? -1)%Z && (i <? Z.of_N (xlen h))%Z then X4 h keys (set_at (Z.to_nat i) (Some c) ch) else n
  | X16 h keys ch =>
      let i := searchNode16 keys (xlen h) b in
      if (i =? -1)%Z then n else X16 h keys (set_at (Z.to_nat i) (Some c) ch)
  | X48 h idx ch =>
      let i := nth (N.to_nat b) idx 0 in
      if i =? 0 then n else X48 h idx (set_at (N.to_nat (i - 1)) (Some c) ch)
  | X256 h ch => X256 h (set_at (N.to_nat b) (Some c) ch)
  end.

(* node.prefixLen = pl; copy(node.prefix[:], ...) = px : two field writes into the embedded header *)
Definition xset_hdr (n : xnode C) (pl : nat) (px : list N) : xnode C :=
  let w h := w_prefix px (w_plen pl h) in
  match n with
  | X4 h keys ch => X4 (w h) keys ch
  | X16 h keys ch => X16 (w h) keys ch
  | X48 h idx ch => X48 (w h) idx ch
  | X256 h ch => X256 (w h) ch
  end.

(* number of Gets one addChild performs (nested grows included; the acquired node inherits the counter) *)
Definition xadd_gets (n : xnode C) : nat :=
  let g48 (l : N) := if l <? maxNode48 then 0%nat else 1%nat in
  let g16 (l : N) := if l <? maxNode16 then 0%nat else S (g48 l) in
  match n with
  | X4 h _ _ => if xlen h <? maxNode4 then 0%nat else S (g16 (xlen h))
  | X16 h _ _ => g16 (xlen h)
  | X48 h _ _ => g48 (xlen h)
  | X256 _ _ => 0%nat
  end.
(* number of Gets one deleteChild performs *)
Definition xdel_gets (n : xnode C) : nat :=
  match n with
  | X4 _ _ _ => 0%nat
  | X16 h _ _ => if u8 (xlen h + 255) =? shrink16 then 1%nat else 0%nat
  | X48 h _ _ => if u8 (xlen h + 255) =? shrink48 then 1%nat else 0%nat
  | X256 h _ => if u8 (xlen h + 255) =? shrink256 then 1%nat else 0%nat
  end.
End Raw.

Definition xpool := @pool xtree.

(* ---- Search: no pool ---- *)
Fixpoint xsearch (fuel : nat) (t : xtree) (gk tk : list N) (depth : nat) : sres :=
  match fuel with
  | O => SFuel
  | S f =>
    match t with
    | XLeaf lgk _ v => if beq lgk gk then SFound v else SAbsent
    | XInner n =>
      let h := xabs_hdr (xh n) in
      if negb (prefixLen h =? 0)%nat && negb (checkPrefix h tk depth =? pl_cap h)%nat then SAbsent
      else
        let depth := (depth + prefixLen h)%nat in
        match nth_error tk depth with
        | None => SAbsent
        | Some b =>
          match xfind n b with
          | None => SAbsent
          | Some c => xsearch f c gk tk (S depth)
          end
        end
    end
  end.

(* ---- Insert ---- *)
Inductive xires := XIDone (t' : xtree) (added : bool) | XIPanic | XIFuel.

Fixpoint xinsert (fuel : nat) (t : xtree) (gk tk : list N) (v : Z) (depth : nat)
                 (os : list choice) (p : xpool) : xires * list choice * xpool :=
  match fuel with
  | O => (XIFuel, os, p)
  | S f =>
    match t with
    | XLeaf lgk ltk lv =>
      if beq gk lgk then (XIDone (XLeaf lgk ltk v) false, os, p)      (* nl.value = val *)
      else
        (* leaf split: newNode := nodePools[nodeKind4].Get(); newNode.prefixLen = longestPrefix;
           copy(newNode.prefix[:], keyS[depth:]) *)
        let lp := longestCommonPrefix ltk tk depth in
        let g := xnew4 lp (skipn depth tk) os p in
        let os1 := tl os in
        let sp := (depth + lp)%nat in
        (* if splitPrefix < len(leafKey) { newNode.addChild(ref, leafKey[splitPrefix], n) } *)
        let a1 := match nth_error ltk sp with
                  | Some b => (xadd (fst g) b t os1 (snd g), skipn (xadd_gets (fst g)) os1)
                  | None => (g, os1)
                  end in
        (* if splitPrefix < len(keyS) { newNode.addChild(ref, keyS[splitPrefix], leafRef) } *)
        let n1 := fst (fst a1) in
        let os2 := snd a1 in
        let a2 := match nth_error tk sp with
                  | Some b => (xadd n1 b (XLeaf gk tk v) os2 (snd (fst a1)), skipn (xadd_gets n1) os2)
                  | None => (fst a1, os2)
                  end in
        (XIDone (XInner (fst (fst a2))) true, snd a2, snd (fst a2))
    | XInner n =>
      let h := xh n in
      let pdiff := if (xplen h =? 0)%nat then 0%nat else prefixMismatch (nabs n) tk depth in
      if negb (xplen h =? 0)%nat && (pdiff <? xplen h)%nat then
        (* compressed-path split: newNode := nodePools[nodeKind4].Get();
           newNode.prefixLen = prefixDiff; newNode.prefix = node.prefix *)
        let g := xnew4 pdiff (xprefix h) os p in
        let os1 := tl os in
        (* the branch byte of the old node and the old node with its header rewritten in place *)
        let r :=
          if (xplen h <=? maxPrefixLen)%nat then
            match nth_error (xprefix h) pdiff with
            | None => None
            | Some b =>
              let lo := S pdiff in
              Some (b, xset_hdr n (xplen h - lo) (copy_into (xprefix h) (skipn lo (xprefix h))))
            end
          else
            let leafKey := match minimum (tabs t) with Some l => leaf_tk l | None => [] end in
            match nth_error leafKey (depth + pdiff) with
            | None => None
            | Some b =>
              let lo := (depth + pdiff + 1)%nat in
              Some (b, xset_hdr n (xplen h - (pdiff + 1)) (copy_into (xprefix h) (skipn lo leafKey)))
            end in
        match r with
        | None => (XIPanic, os1, snd g)
        | Some (b, n') =>
          (* newNode.addChild(ref, b, n) *)
          let a1 := xadd (fst g) b (XInner n') os1 (snd g) in
          let os2 := skipn (xadd_gets (fst g)) os1 in
          match nth_error tk (depth + pdiff) with
          | None => (XIDone (XInner (fst a1)) false, os2, snd a1)
          | Some b2 =>
            (* newNode.addChild(ref, keyS[depth+prefixDiff], leafRef) *)
            let a2 := xadd (fst a1) b2 (XLeaf gk tk v) os2 (snd a1) in
            (XIDone (XInner (fst a2)) true, skipn (xadd_gets (fst a1)) os2, snd a2)
          end
        end
      else
        let depth := (depth + xplen h)%nat in
        match nth_error tk depth with
        | None => (XIDone t false, os, p)
        | Some b =>
          match xfind n b with
          | Some c =>
            let r := xinsert f c gk tk v (S depth) os p in
            match fst (fst r) with
            | XIDone c' added => (XIDone (XInner (xreplace n b c')) added, snd (fst r), snd r)
            | _ => r
            end
          | None =>
            (* ref.addChild(keyS[depth], leafRef) *)
            let a := xadd n b (XLeaf gk tk v) os p in
            (XIDone (XInner (fst a)) true, skipn (xadd_gets n) os, snd a)
          end
        end
    end
  end.

(* ---- Delete ---- *)

(* node4.deleteChild's tail on the node as xdel4 returns it (one child left: its cleared
   carcass is already in the pool): child := n4.children[0]; an inner child gets the merged
   compressed path written into its own header; *ref = child *)
Definition xcollapse (n : xnode xtree) : xtree :=
  match n with
  | X4 h keys ch =>
    if xlen h =? 1 then
      match ch with
      | Some (XLeaf gk tk v) :: _ => XLeaf gk tk v
      | Some (XInner cn) :: _ =>
        let chh := xh cn in
        let p0 := xplen h in
        let '(pfx, p1) :=
          if (p0 <? maxPrefixLen)%nat then (set_at p0 (getAtPos keys 0) (xprefix h), S p0)
          else (xprefix h, p0) in
        let '(pfx, p2) :=
          if (p1 <? maxPrefixLen)%nat then
            (firstn p1 pfx ++ copy_into (skipn p1 pfx) (xprefix chh),
             (p1 + Nat.min (xplen chh) (maxPrefixLen - p1))%nat)
          else (pfx, p1) in
        let hi := Nat.min maxPrefixLen p2 in
        XInner (xset_hdr cn (xplen chh + p0 + 1) (copy_into (xprefix chh) (firstn hi pfx)))
      | _ => XInner n
      end
    else XInner n
  | _ => XInner n
  end.

Definition xdel_child (n : xnode xtree) (b : N) (os : list choice) (p : xpool) : xtree * xpool :=
  let r := xdel n b os p in
  match n with
  | X4 _ _ _ => (xcollapse (fst r), snd r)
  | _ => (XInner (fst r), snd r)
  end.

Inductive xdres := XDDone (t' : xtree) | XDAbsent | XDFuel.

Fixpoint xdelete_in (fuel : nat) (t : xtree) (gk tk : list N) (depth : nat)
                    (os : list choice) (p : xpool) : xdres * list choice * xpool :=
  match fuel with
  | O => (XDFuel, os, p)
  | S f =>
    match t with
    | XLeaf _ _ _ => (XDAbsent, os, p)
    | XInner n =>
      let h := xabs_hdr (xh n) in
      if negb (prefixLen h =? 0)%nat && negb (checkPrefix h tk depth =? pl_cap h)%nat then (XDAbsent, os, p)
      else
        let depth := (depth + prefixLen h)%nat in
        match nth_error tk depth with
        | None => (XDAbsent, os, p)
        | Some b =>
          match xfind n b with
          | None => (XDAbsent, os, p)
          | Some (XLeaf lgk _ _) =>
            if beq lgk gk then
              let r := xdel_child n b os p in (XDDone (fst r), skipn (xdel_gets n) os, snd r)
            else (XDAbsent, os, p)
          | Some (XInner _ as c) =>
            let r := xdelete_in f c gk tk (S depth) os p in
            match fst (fst r) with
            | XDDone c' => (XDDone (XInner (xreplace n b c')), snd (fst r), snd r)
            | _ => r
            end
          end
        end
    end
  end.

(* ---- the API over a pool ---- *)
Record xstate := mkXstate { xroot : option xtree; xsize : Z }.
Definition xinit : xstate := mkXstate None 0.
Definition sabs (st : xstate) : Api.state :=
  mkState (match xroot st with Some t => Some (tabs t) | None => None end) (xsize st).

Definition xdo_insert (st : xstate) (gk tk : list N) (v : Z) (os : list choice) (p : xpool)
  : xstate * out * xpool :=
  match xroot st with
  | None => (mkXstate (Some (XLeaf gk tk v)) (xsize st + 1), OUnit, p)
  | Some t =>
    let r := xinsert (key_fuel tk) t gk tk v 0 os p in
    match fst (fst r) with
    | XIDone t' added => (mkXstate (Some t') (if added then xsize st + 1 else xsize st), OUnit, snd r)
    | XIPanic => (st, OPanic, snd r)
    | XIFuel => (st, OFuel, snd r)
    end
  end.

Definition xdo_search (st : xstate) (gk tk : list N) : out :=
  match xroot st with
  | None => OAbsent
  | Some t =>
    match xsearch (key_fuel tk) t gk tk 0 with
    | SFound v => OFound v
    | SAbsent => OAbsent
    | SFuel => OFuel
    end
  end.

Definition xdo_delete (st : xstate) (gk tk : list N) (os : list choice) (p : xpool)
  : xstate * out * xpool :=
  match xroot st with
  | None => (st, OBool false, p)
  | Some (XLeaf lgk _ _) =>
    if beq lgk gk then (mkXstate None (xsize st - 1), OBool true, p) else (st, OBool false, p)
  | Some t =>
    let r := xdelete_in (key_fuel tk) t gk tk 0 os p in
    match fst (fst r) with
    | XDDone t' => (mkXstate (Some t') (xsize st - 1), OBool true, snd r)
    | XDAbsent => (st, OBool false, snd r)
    | XDFuel => (st, OFuel, snd r)
    end
  end.

(* one method call on one tree; the queries neither change the tree nor touch the pool and are
   evaluated by Model/Api.step on the abstracted state *)
Definition xstep (k : Api.kind) (st : xstate) (o : op) (os : list choice) (p : xpool)
  : xstate * out * xpool :=
  match o with
  | Insert a v => xdo_insert st (fst (transform k a)) (snd (transform k a)) v os p
  | Search a => (st, xdo_search st (fst (transform k a)) (snd (transform k a)), p)
  | Delete a => xdo_delete st (fst (transform k a)) (snd (transform k a)) os p
  | _ => (st, snd (Api.step k (sabs st) o), p)
  end.

(* ---- many trees of any kinds over one pool ---- *)
Record mstate := mkMstate { trees : nat -> Api.kind * xstate; mpool : xpool }.
Inductive mevent :=
| MOp (tid : nat) (o : op) (os : list choice)     (* a method call on tree tid, with the pool's answers *)
| MDrop (i : nat).                                (* sync.Pool forgets a released node *)

Definition tupd (ts : nat -> Api.kind * xstate) (tid : nat) (x : Api.kind * xstate) : nat -> Api.kind * xstate :=
  fun j => if Nat.eqb j tid then x else ts j.

Definition mstep (m : mstate) (e : mevent) : mstate * list (nat * out) :=
  match e with
  | MOp tid o os =>
    let k := fst (trees m tid) in
    let r := xstep k (snd (trees m tid)) o os (mpool m) in
    (mkMstate (tupd (trees m) tid (k, fst (fst r))) (snd r), [(tid, snd (fst r))])
  | MDrop i => (mkMstate (trees m) (drop i (mpool m)), [])
  end.

Fixpoint mrun (evs : list mevent) (m : mstate) : mstate * list (nat * out) :=
  match evs with
  | [] => (m, [])
  | e :: evs' =>
    let r := mstep m e in
    let r' := mrun evs' (fst r) in
    (fst r', snd r ++ snd r')
  end.

Definition kind_of (m : mstate) (tid : nat) : Api.kind := fst (trees m tid).
Definition outputs_of (tid : nat) (l : list (nat * out)) : list out :=
  map snd (filter (fun x => Nat.eqb (fst x) tid) l).
Fixpoint ops_of (tid : nat) (evs : list mevent) : list op :=
  match evs with
  | [] => []
  | MOp t o _ :: evs' => if Nat.eqb t tid then o :: ops_of tid evs' else ops_of tid evs'
  | MDrop _ :: evs' => ops_of tid evs'
  end.

(* one tree alone: a private pool that is empty at every operation, every Get answered by a new node *)
Fixpoint xalone (k : Api.kind) (st : xstate) (ops : list op) : xstate * list out :=
  match ops with
  | [] => (st, [])
  | o :: ops' =>
    let r := xstep k st o [] [] in
    let r' := xalone k (fst (fst r)) ops' in
    (fst r', snd (fst r) :: snd r')
  end.
