(* Model of the public Tree interface for each kind of tree: key
   transformation (terminator, codecs, collation pairs, compound schemas), the
   per-kind Range bound normalisation and Prefix, restoreKey, the size counter.
   One  step : kind -> state -> op -> state * out  and  run = fold_left.
   Definitions only; see Proofs/ApiFacts.v. *)
From GoArt Require Export Base.Bytes Model.Keys Model.Node Model.Tree Model.Iter.
Open Scope N_scope.

Inductive kind :=
| KAlpha
| KUnsigned (w : nat) | KSigned (w : nat) | KFloat (w : nat)
| KCollation
| KCompound (s : list ftype)
(* a compound tree over an arbitrary user codec (BinaryComparableKey: Transform / Restore);
   the caller's key is an opaque byte string  AB u *)
| KCodec (enc : list N -> list N) (dec : list N -> list N).

(* keys as the caller sees them *)
Inductive akey :=
| AB (l : list N)                 (* byte string *)
| AU (x : N) | AS (x : Z) | AF (bits : N)
| AC (orig col : list N)          (* collation: original bytes, and the sort key the collator computed *)
| AT (vs : list fval).            (* compound tuple *)

Record state := mkState { root : option tree; size : Z }.
Definition init : state := mkState None 0.

(* (getKey form, getTransformKey form) *)
Definition transform (k : kind) (a : akey) : list N * list N :=
  match k, a with
  | KAlpha, AB l => (l ++ [0], l ++ [0])
  | KUnsigned w, AU x => (enc_u w x, enc_u w x)
  | KSigned w, AS x => (enc_s w x, enc_s w x)
  | KFloat w, AF b => (enc_f w b, enc_f w b)
  | KCollation, AC o c => (o, c)
  | KCompound s, AT vs => (enc_tuple s vs, enc_tuple s vs)
  | KCodec enc dec, AB u => (enc u, enc u)
  | _, _ => ([], [])
  end.

Definition restore (k : kind) (l : tree) : akey :=
  match k with
  | KAlpha => AB (removelast (leaf_gk l))
  | KUnsigned w => AU (dec_u w (leaf_gk l))
  | KSigned w => AS (dec_s w (leaf_gk l))
  | KFloat w => AF (dec_f w (leaf_gk l))
  | KCollation => AC (leaf_gk l) (leaf_tk l)
  | KCompound s => AT (dec_tuple s (leaf_gk l))
  | KCodec enc dec => AB (dec (leaf_gk l))
  end.

Definition leaf_v (l : tree) : Z := match l with Leaf _ _ v => v | Inner _ => 0%Z end.
Definition restore_kv (k : kind) (l : tree) : akey * Z := (restore k l, leaf_v l).

(* the consumer used by the correspondence runs: refuses at call number m *)
Definition stop_ans (stop : option nat) : nat -> bool :=
  fun i => match stop with None => true | Some m => negb (i =? m)%nat end.

Inductive op :=
| Insert (k : akey) (v : Z)
| Search (k : akey)
| Delete (k : akey)
| Minimum | Maximum | Size
| All (stop : option nat) | Backward (stop : option nat)
| TopK (n : N) (stop : option nat) | BottomK (n : N) (stop : option nat)
| Range (a b : akey) (stop : option nat)
| Prefix (p : akey) (stop : option nat).

Inductive out :=
| OUnit
| OFound (v : Z) | OAbsent
| OBool (b : bool)
| OKV (k : akey) (v : Z) | ONone
| OSize (z : Z)
| OSeq (l : list (akey * Z)) (calls : nat)
| OPanic | OFuel.

Definition key_fuel (tk : list N) : nat := S (S (length tk)).

(* ---- the three updates ---- *)
Definition do_insert (st : state) (gk tk : list N) (v : Z) : state * out :=
  match root st with
  | None => (mkState (Some (Leaf gk tk v)) (size st + 1), OUnit)
  | Some t =>
    match insert (key_fuel tk) t gk tk v 0 with
    | IDone t' added => (mkState (Some t') (if added then size st + 1 else size st), OUnit)
    | IPanic => (st, OPanic)
    | IFuel => (st, OFuel)
    end
  end.

Definition do_search (st : state) (gk tk : list N) : out :=
  match root st with
  | None => OAbsent
  | Some t =>
    match search (key_fuel tk) t gk tk 0 with
    | SFound v => OFound v
    | SAbsent => OAbsent
    | SFuel => OFuel
    end
  end.

Definition do_delete (st : state) (gk tk : list N) : state * out :=
  match root st with
  | None => (st, OBool false)
  | Some (Leaf lgk _ _) =>
    if beq lgk gk then (mkState None (size st - 1), OBool true) else (st, OBool false)
  | Some t =>
    match delete_in (key_fuel tk) t gk tk 0 with
    | DDone t' => (mkState (Some t') (size st - 1), OBool true)
    | DAbsent => (st, OBool false)
    | DFuel => (st, OFuel)
    end
  end.

(* ---- sequences ---- *)
Definition seq_out (k : kind) (r : wres) : out :=
  match status r with
  | WFuel => OFuel
  | _ => OSeq (map (restore_kv k) (delivered r)) (calls r)
  end.

Definition opt_min (st : state) : option tree :=
  match root st with None => None | Some t => minimum t end.
Definition opt_max (st : state) : option tree :=
  match root st with None => None | Some t => maximum t end.

Definition akey_bytes (a : akey) : list N :=
  match a with AB l => l | AC o _ => o | _ => [] end.

Definition do_range (k : kind) (st : state) (a b : akey) (ans : nat -> bool) : out :=
  match k with
  | KAlpha =>
    match root st with
    | None => OSeq [] 0
    | Some t =>
      let s := akey_bytes a in
      let e := akey_bytes b in
      let e := if (length e =? 0)%nat
               then match maximum t with Some l => akey_bytes (restore k l) | None => [] end
               else e in
      let '(s, e) := match lex_cmp s e with Gt => (e, s) | _ => (s, e) end in
      let sk := s ++ [0] in
      let ek := e ++ [0] in
      seq_out k (run_range (root st) sk ek sk ek ans)
    end
  | KUnsigned _ | KSigned _ | KFloat _ =>
    (* the bounds are ordered and compared in their encoded form (bytes.Compare) *)
    let sk := fst (transform k a) in
    let ek := fst (transform k b) in
    match lex_cmp sk ek with
    | Eq =>
      (* func(yield) { val, ok := t.Search(start); if !ok {return}; if !yield(start, val) {return} } *)
      match do_search st sk (snd (transform k a)) with
      | OFound v => OSeq [(a, v)] 1
      | OAbsent => OSeq [] 0
      | o => o
      end
    | Gt => seq_out k (run_range (root st) ek sk ek sk ans)
    | Lt => seq_out k (run_range (root st) sk ek sk ek ans)
    end
  | KCompound _ | KCodec _ _ =>
    match root st with
    | None => OSeq [] 0
    | Some t =>
      let sk := fst (transform k a) in
      let ek := fst (transform k b) in
      let ek := if (length ek =? 0)%nat
                then match maximum t with Some l => fst (transform k (restore k l)) | None => [] end
                else ek in
      let '(sk, ek) := match lex_cmp sk ek with Gt => (ek, sk) | _ => (sk, ek) end in
      seq_out k (run_range (root st) sk ek sk ek ans)
    end
  | KCollation =>
    match root st with
    | None => OSeq [] 0
    | Some t =>
      let b := match b with
               | AC o _ => if (length o =? 0)%nat
                           then match maximum t with Some l => restore k l | None => b end
                           else b
               | _ => b end in
      let '(a, b) := match lex_cmp (akey_bytes a) (akey_bytes b) with Gt => (b, a) | _ => (a, b) end in
      let '(sg, st_) := transform k a in
      let '(eg, et) := transform k b in
      seq_out k (run_range (root st) sg eg st_ et ans)
    end
  end.

Definition do_prefix (k : kind) (st : state) (p : akey) (ans : nat -> bool) : out :=
  match k with
  | KAlpha =>
    let pb := akey_bytes p in
    if (length pb =? 0)%nat then seq_out k (run_all (root st) ans)
    else
      let sub := match root st with
                 | None => None
                 | Some t => lcparent (S (S (length pb))) t pb 0
                 end in
      match root st, sub with
      | Some _, None => OFuel
      | _, _ => seq_out k (run_filter sub (fun l => has_prefix (akey_bytes (restore k l)) pb) ans)
      end
  | KCollation =>
    let pb := akey_bytes p in
    if (length pb =? 0)%nat then seq_out k (run_all (root st) ans)
    else seq_out k (run_filter (root st) (fun l => has_prefix (leaf_gk l) pb) ans)
  | _ => OPanic     (* panic("") in the instantiations without HasPrefix *)
  end.

Definition step (k : kind) (st : state) (o : op) : state * out :=
  match o with
  | Insert a v => let '(gk, tk) := transform k a in do_insert st gk tk v
  | Search a => let '(gk, tk) := transform k a in (st, do_search st gk tk)
  | Delete a => let '(gk, tk) := transform k a in do_delete st gk tk
  | Minimum => (st, match opt_min st with Some l => OKV (restore k l) (leaf_v l) | None => ONone end)
  | Maximum => (st, match opt_max st with Some l => OKV (restore k l) (leaf_v l) | None => ONone end)
  | Size => (st, OSize (size st))
  | All stop => (st, seq_out k (run_all (root st) (stop_ans stop)))
  | Backward stop => (st, seq_out k (run_backward (root st) (stop_ans stop)))
  | TopK n stop => (st, seq_out k (run_bounded (run_backward (root st)) n (stop_ans stop)))
  | BottomK n stop => (st, seq_out k (run_bounded (run_all (root st)) n (stop_ans stop)))
  | Range a b stop => (st, do_range k st a b (stop_ans stop))
  | Prefix p stop => (st, do_prefix k st p (stop_ans stop))
  end.

Fixpoint run (k : kind) (st : state) (ops : list op) : state * list out :=
  match ops with
  | [] => (st, [])
  | o :: ops' =>
    let '(st', x) := step k st o in
    let '(st'', xs) := run k st' ops' in
    (st'', x :: xs)
  end.
