(* Word-level transliteration of node4.go: the SWAR routines on the packed
   uint32 key word of a node4. uint32 values are N with the wrap written out
   (mod 2^32). Go ints returned by the routines are Z (-1 = not found).
   Definitions only; the lane-level meaning is proved in Proofs/Node4Facts.v. *)
From GoArt Require Export Base.Bytes.
Open Scope N_scope.

Definition M32 : N := 0x100000000.
Definition u32 (x : N) : N := x mod M32.
Definition sub32 (a b : N) : N := (a + M32 - b mod M32) mod M32.   (* a - b on uint32 *)
Definition add32 (a b : N) : N := (a + b) mod M32.
Definition mul32 (a b : N) : N := (a * b) mod M32.
Definition not32 (a : N) : N := N.lxor (u32 a) 0xFFFFFFFF.          (* ^a *)
Definition shl32 (a s : N) : N := (N.shiftl a s) mod M32.           (* a << s, s may be >= 32 *)
Definition shr32 (a s : N) : N := N.shiftr (u32 a) s.               (* a >> s *)

Definition ones01 : N := 0x01010101.
Definition lo7BitsMask : N := 0x7F7F7F7F.    (* uint32(0x1010101) * 0x7F *)
Definition hiBitMask : N := 0x80808080.      (* uint32(0x1010101) * 0x80 *)

(* bits.TrailingZeros32 for a non-zero argument *)
Fixpoint tz_pos (p : positive) : N :=
  match p with
  | xO p' => 1 + tz_pos p'
  | _ => 0
  end.
Definition tz (x : N) : N := match x with N0 => 32 | Npos p => tz_pos p end.

Definition searchNode4 (keys b : N) : Z :=
  let bitMask := mul32 ones01 b in
  let xor1 := N.lxor keys bitMask in
  let isMatch := N.land (N.land (sub32 xor1 ones01) (not32 xor1)) hiBitMask in
  if isMatch =? 0 then (-1)%Z
  else (Z.of_N (shr32 (mul32 (N.land (sub32 isMatch 1) ones01) ones01) 24) - 1)%Z.

Definition insertPosNode4 (keys b : N) : Z :=
  let bitMask := mul32 ones01 b in
  let t0 := N.lxor
              (N.lor (sub32 (N.lor keys hiBitMask) (N.land bitMask (not32 hiBitMask)))
                     (N.lxor keys bitMask))
              (N.lor keys (not32 bitMask)) in
  let t1 := N.land t0 hiBitMask in
  let t2 := sub32 (add32 t1 t1) (shr32 t1 7) in
  let t2 := not32 t2 in
  if t2 =? 0 then (-1)%Z else Z.of_N (N.shiftr (tz t2) 3).

Definition getAtPos (keys : N) (pos : N) : N :=
  N.land ((shr32 keys (N.shiftl pos 3)) mod 256) 0xFF.

Definition setAtPos (keys : N) (pos : N) (b : N) : N :=
  let bitPos := N.shiftl pos 3 in
  let keys := N.land keys (not32 (shl32 0xFF bitPos)) in
  N.lor keys (shl32 b bitPos).

Definition shiftLeftClear (keys : N) (pos : N) : N :=
  let bitPos := N.shiftl pos 3 in
  let mask := shl32 0xFFFFFFFF bitPos in
  let backup := N.land keys mask in
  let keys := N.land keys (not32 mask) in
  let backup := shl32 backup 8 in
  N.lor keys backup.

Definition shiftRightClear (keys : N) (pos : N) : N :=
  let bitPos := N.shiftl pos 3 in
  let mask := shl32 0xFFFFFFFF bitPos in
  let backup := N.land keys mask in
  let keys := N.land keys (not32 (shr32 mask 8)) in
  let backup := shr32 backup 8 in
  N.lor keys backup.

Definition construct (a b c d : N) : N :=
  N.lor (N.lor (N.lor (shl32 d 24) (shl32 c 16)) (shl32 b 8)) a.

Definition deconstruct (keys : N) : list N :=
  [ N.land (keys mod 256) 0xFF;
    (N.land (shr32 keys 8) 0xFF) mod 256;
    (N.land (shr32 keys 16) 0xFF) mod 256;
    (N.land (shr32 keys 24) 0xFF) mod 256 ].

(* ---- the lane view used by the specifications ---- *)
Definition lane (keys : N) (i : nat) : N := (keys / 256 ^ N.of_nat i) mod 256.
Definition lanes (keys : N) : list N := [lane keys 0; lane keys 1; lane keys 2; lane keys 3].
Definition pack4 (l : list N) : N :=
  nth 0 l 0 + 256 * nth 1 l 0 + 65536 * nth 2 l 0 + 16777216 * nth 3 l 0.

(* scalar references *)
Fixpoint find_first (f : N -> bool) (l : list N) (i : Z) : Z :=
  match l with
  | [] => (-1)%Z
  | x :: l' => if f x then i else find_first f l' (i + 1)%Z
  end.
