(* Hand-written vocabulary of the REGENERATED translation Gen/NodeGen.v
   (go/cmd/srcfacts/translate_node.go): node.go's four inner node types, their
   clear / addChild / deleteChild and the dispatchers on *nodeRef.
   This file is the TRUSTED reading of the Go idioms; it is kept small and every
   definition states the Go construct it stands for.  Proofs/TranslateNodeFacts.v
   proves that the regenerated definitions built from this vocabulary are the
   hand-written models Model/Pool.v (xclear xadd4 .. xadd256 xdel4 .. xdel256 xadd
   xdel) and Model/PoolTree.v (xfind xdel_child).

   Representation (the one of Model/Pool.v):
     *node4 / *node16 / *node48 / *node256   a VALUE  xnode C  holding every array
                                   cell; a write through the pointer rebinds the
                                   variable (one Coq variable per Go pointer variable)
     the embedded struct node      xhdr  (childrenLen, prefixLen, prefix)
     [n]byte                       list N           (length n: Pool.shape_ok)
     [n]nodeRef                    list (option C)  (a nil pointer is None)
     a nodeRef value               option C
     a nodeRef PARAMETER (child)   C : the callers pass a reference to an existing
                                   leaf or node, never the zero nodeRef
     uint8, uint32, byte           N, the wrap of + and - written out (add8 sub8,
                                   add32 sub32 of Model/Node4.v);  prefixLen is a
                                   uint32 in Go and a nat in Pool.xhdr: it is read
                                   as N.of_nat and written as N.to_nat
     int                           Z, unbounded (as in Gen/Node4Gen.v); an int used
                                   as an index is passed as Z.to_nat (a negative
                                   index panics in Go)
   Also used, from the models, with the Go meaning their own comments state:
     Node.set_at i v a             a[i] = v          (nth i a d is the read a[i];
                                   an index out of range panics in Go, not modelled)
     Pool.gcopy lo src dst         copy(dst[lo:], src): the elements of src that fit
                                   are written from index lo on, the rest of dst is
                                   kept.  src is a VALUE (skipn / firstn of the
                                   array as it is before the copy), which is Go's
                                   memmove semantics for overlapping slices.
                                   copy(dst[lo:hi], src) is gcopy lo (firstn (hi-lo) src) dst
                                   (hi <= len dst, else Go panics).
     skipn lo a / firstn hi a      the slices a[lo:] / a[:hi] read as values
     Pool.get (Pool.nxt os) K p    nodePools[nodeKindK].Get().( *nodeK): the oracle's
                                   next answer decides which released node (or a new
                                   one) is handed out; the answer is consumed (tl os)
     Pool.put n p                  nodePools[nodeKindK].Put(n)
     Pool.xkind n                  the tag of the nodeRef pointing at n
     Pool.xhdr0                    the composite literal node{}
     searchNode4 insertPosNode4 getAtPos setAtPos shiftLeftClear shiftRightClear
     construct deconstruct (Model/Node4.v), searchNode16 insertPosNode16
     (Model/Node16.v): the MODELS of the routines of node4.go / node16_other.go,
     which Gen/Node4Gen.v, Gen/Node16Gen.v and Proofs/TranslateFacts.v tie to the
     source; an int position argument is passed as Z.to_N, a *uint32 in/out
     argument &n.keys is a read of the field followed by a write of the result. *)
From GoArt Require Export Base.Bytes Model.Node4 Model.Node16 Model.GoArith Model.Node Model.Pool Model.PoolTree.
Open Scope N_scope.

(* a + b, a - b on uint8 (operands below 256): wrap modulo 256.
   x++ is add8 x 1, x-- is sub8 x 1. *)
Definition add8 (a b : N) : N := (a + b) mod 256.
Definition sub8 (a b : N) : N := (a + 256 - b) mod 256.

(* for cond(s) { s = body(s) }  for a loop that is known to stop (or to panic) within
   `fuel` iterations: the state after the loop; after `fuel` iterations with the
   condition still true the state reached is returned.  The translator emits it only
   for  for a[v] ... { v++ }  with v starting at 0 and fuel = len(a): the Go loop
   panics (index out of range) exactly when the fuel runs out, and the value
   returned then is len(a). *)
Fixpoint go_while {S : Type} (fuel : nat) (cond : S -> bool) (body : S -> S) (s : S) : S :=
  match fuel with
  | O => s
  | Datatypes.S f => if cond s then go_while f cond body (body s) else s
  end.

Section GoNode.
Context {C : Type}.

(* x.pointer != nil  for a nodeRef value x *)
Definition not_nil (x : option C) : bool := match x with Some _ => true | None => false end.

(* ---- the fields of a node, read through a pointer n of type *nodeK ---- *)
(* n.childrenLen (uint8), n.prefixLen (uint32), n.prefix ([maxPrefixLen]byte): promoted from the embedded node *)
Definition f_childrenLen (n : xnode C) : N := xlen (xh n).
Definition f_prefixLen (n : xnode C) : N := N.of_nat (xplen (xh n)).
Definition f_prefix (n : xnode C) : list N := xprefix (xh n).
(* n.children ([4] / [16] / [48] / [256]nodeRef) *)
Definition f_children (n : xnode C) : list (option C) := xch n.
(* n4.keys (uint32) *)
Definition f_keys4 (n : xnode C) : N := xword n.
(* n16.keys ([16]byte), n48.keys ([256]byte) *)
Definition f_keysB (n : xnode C) : list N := xbytes n.

(* ---- field writes through the pointer: the other fields keep their contents ---- *)
(* n.node = h   (the whole embedded struct; n.node = node{} is s_node xhdr0 n) *)
Definition s_node (h : xhdr) (n : xnode C) : xnode C :=
  match n with
  | X4 _ k c => X4 h k c
  | X16 _ k c => X16 h k c
  | X48 _ k c => X48 h k c
  | X256 _ c => X256 h c
  end.
(* the three fields of a struct node value h *)
Definition h_childrenLen (h : xhdr) : N := xlen h.
Definition h_prefixLen (h : xhdr) : N := N.of_nat (xplen h).
Definition h_prefix (h : xhdr) : list N := xprefix h.
Definition hs_childrenLen (v : N) (h : xhdr) : xhdr := w_len v h.
Definition hs_prefixLen (v : N) (h : xhdr) : xhdr := w_plen (N.to_nat v) h.
Definition hs_prefix (v : list N) (h : xhdr) : xhdr := w_prefix v h.
(* n.childrenLen = v;  n.prefixLen = v;  n.prefix = v (array assignment: a copy of all elements) *)
Definition s_childrenLen (v : N) (n : xnode C) : xnode C := s_node (hs_childrenLen v (xh n)) n.
Definition s_prefixLen (v : N) (n : xnode C) : xnode C := s_node (hs_prefixLen v (xh n)) n.
Definition s_prefix (v : list N) (n : xnode C) : xnode C := s_node (hs_prefix v (xh n)) n.
(* n.children = v  (also: the array after an element write, a copy or a clear) *)
Definition s_children (v : list (option C)) (n : xnode C) : xnode C :=
  match n with
  | X4 h k _ => X4 h k v
  | X16 h k _ => X16 h k v
  | X48 h k _ => X48 h k v
  | X256 h _ => X256 h v
  end.
(* n4.keys = v: only a node4 has a uint32 field keys (the translator emits it only for a *node4) *)
Definition s_keys4 (v : N) (n : xnode C) : xnode C :=
  match n with X4 h _ c => X4 h v c | _ => n end.
(* n16.keys = v, n48.keys = v: only a node16 / node48 has a byte array keys *)
Definition s_keysB (v : list N) (n : xnode C) : xnode C :=
  match n with X16 h _ c => X16 h v c | X48 h _ c => X48 h v c | _ => n end.

(* ---- a nodeRef value x (child := n4.children[0]) and the node it points to ----
   The child type is abstract: is_leaf / hdr_of / with_hdr say what a C is.
   x.tag == nodeKindLeaf: the zero nodeRef has tag nodeKind4, not a leaf *)
Definition cell_is_leaf (is_leaf : C -> bool) (x : option C) : bool :=
  match x with Some c => is_leaf c | None => false end.
(* *x.node(): the embedded header of the inner node x points to.  x.node() of a nil
   reference is a nil pointer and reading through it panics in Go: not modelled (xhdr0) *)
Definition cell_hdr (hdr_of : C -> xhdr) (x : option C) : xhdr :=
  match x with Some c => hdr_of c | None => xhdr0 end.
(* *x.node() = h: a write through the pointer x.node().  In Go the node written is
   shared by every nodeRef that points to it; here x is a value and only x sees the
   write (the translator refuses to read the cell x was copied from afterwards) *)
Definition cell_set_hdr (with_hdr : C -> xhdr -> C) (h : xhdr) (x : option C) : option C :=
  match x with Some c => Some (with_hdr c h) | None => None end.
End GoNode.

(* ---- the child type of Model/PoolTree.v: C = xtree ---- *)
(* nodeRef{pointer: unsafe.Pointer(n), tag: nodeKindK} *)
Definition xt_inner (n : xnode xtree) : xtree := XInner n.
Definition xt_is_leaf (t : xtree) : bool := match t with XLeaf _ _ _ => true | XInner _ => false end.
(* child.node() is only used under child.tag != nodeKindLeaf *)
Definition xt_hdr_of (t : xtree) : xhdr := match t with XInner n => xh n | XLeaf _ _ _ => xhdr0 end.
Definition xt_with_hdr (t : xtree) (h : xhdr) : xtree :=
  match t with XInner n => XInner (s_node h n) | XLeaf _ _ _ => t end.
