(* Vocabulary of Gen/Bindings.v (go/cmd/srcfacts/bindings.go): the TRUSTED reading of Go's conversions between
   the byte-string key types. A string, a []byte and a value of a type parameter K constrained to them are all
   the sequence of their bytes (list N); `[]byte(s)`, `string(b)` and `K(b)` copy that sequence, so as values
   they are the identity — whether the copy shares memory with its operand is not a question this value-level
   reading answers (C13's aliasing facts are stated over Gen/SrcFacts.v instead). *)
From GoArt Require Export Base.Bytes.
From Coq Require Import String.

Definition bytes_conv (b : list byte) : list byte := b.
Definition bytes_clone (b : list byte) : list byte := b.

(* What a function outside the translated fragment is defined as: not a function, so the theorems about it do
   not type-check. *)
Inductive untranslated : Set := UNSUPPORTED (why : string).
