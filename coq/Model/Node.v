(* Model of node.go: the four inner-node layouts as raw storage, polymorphic in
   the child type C, with find / add (grow 4->16->48->256) / delete (shrink
   16->4 at 3, 48->16 at 12, 256->48 at 37).  The thresholds and capacities come
   from the regenerated Gen/Params.v.

   Raw state kept: the node4 key word with whatever is left in unoccupied lanes,
   all sixteen key bytes of a node16, the 256-entry index and the 48 slots of a
   node48, all ten inline prefix bytes, the 8-bit fan-out counter (mod 256).
   Not kept: stale child references in unoccupied node4/node16 slots (children
   lists hold the occupied slots only).

   A node handed out by the pool is assumed zeroed here (Model/Pool.v discharges
   that assumption).  Definitions only; see Proofs/NodeFacts.v. *)
From GoArt Require Export Base.Bytes Model.Node4 Model.Node16 Gen.Params.
Open Scope N_scope.

Record hdr := mkHdr { prefixLen : nat; prefix : list N (* always 10 bytes *) }.
Definition hdr0 : hdr := mkHdr 0 (repeat 0 maxPrefixLen).

Inductive rnode (C : Type) : Type :=
| N4 (h : hdr) (len : N) (keys : N) (ch : list C)
| N16 (h : hdr) (len : N) (keys : list N) (ch : list C)
| N48 (h : hdr) (len : N) (idx : list N) (slots : list (option C))
| N256 (h : hdr) (len : N) (slots : list (option C)).
Arguments N4 {C}. Arguments N16 {C}. Arguments N48 {C}. Arguments N256 {C}.

Section Ops.
Context {C : Type}.

Definition nhdr (n : rnode C) : hdr :=
  match n with N4 h _ _ _ | N16 h _ _ _ | N48 h _ _ _ | N256 h _ _ => h end.
Definition nset_hdr (n : rnode C) (h : hdr) : rnode C :=
  match n with
  | N4 _ l k c => N4 h l k c
  | N16 _ l k c => N16 h l k c
  | N48 _ l i s => N48 h l i s
  | N256 _ l s => N256 h l s
  end.
Definition nlen (n : rnode C) : N :=
  match n with N4 _ l _ _ | N16 _ l _ _ | N48 _ l _ _ | N256 _ l _ => l end.
Definition nkind (n : rnode C) : N :=
  match n with N4 _ _ _ _ => 4 | N16 _ _ _ _ => 16 | N48 _ _ _ _ => 48 | N256 _ _ _ => 256 end.

Definition u8 (x : N) : N := x mod 256.

(* list helpers (Go's copy-shift idioms on the occupied part) *)
Fixpoint insert_at {A} (i : nat) (x : A) (l : list A) : list A :=
  match i, l with
  | O, _ => x :: l
  | S i', y :: l' => y :: insert_at i' x l'
  | S _, [] => [x]
  end.
Fixpoint remove_at {A} (i : nat) (l : list A) : list A :=
  match i, l with
  | O, _ :: l' => l'
  | S i', y :: l' => y :: remove_at i' l'
  | _, [] => []
  end.
Fixpoint set_at {A} (i : nat) (x : A) (l : list A) : list A :=
  match i, l with
  | O, _ :: l' => x :: l'
  | S i', y :: l' => y :: set_at i' x l'
  | _, [] => []
  end.
(* copy(keys[lo+1:], keys[lo:]) on a fixed-size array: shift right by one from lo, last element falls off *)
Definition shift_right_from {A} (lo : nat) (l : list A) : list A :=
  firstn (length l) (firstn (S lo) l ++ skipn lo l).
(* copy(keys[pos:], keys[pos+1:]): shift left by one onto pos, last element stays *)
Definition shift_left_onto {A} (pos : nat) (l : list A) : list A :=
  firstn pos l ++ skipn (S pos) l ++ skipn (length l - 1) l.

(* ---- find ---- *)
Definition nfind (n : rnode C) (b : N) : option C :=
  match n with
  | N4 _ len keys ch =>
      let i := searchNode4 keys b in
      if (negb (i =? -1)%Z) && (i <? Z.of_N len)%Z then nth_error ch (Z.to_nat i) else None
  | N16 _ len keys ch =>
      let i := searchNode16 keys len b in
      if (i =? -1)%Z then None else nth_error ch (Z.to_nat i)
  | N48 _ _ idx slots =>
      let i := nth (N.to_nat b) idx 0 in
      if i =? 0 then None
      else match nth_error slots (N.to_nat (i - 1)) with Some c => c | None => None end
  | N256 _ _ slots =>
      match nth_error slots (N.to_nat b) with Some c => c | None => None end
  end.

(* children in slot / byte order, with their branch bytes *)
Fixpoint enum_idx (idx : list N) (slots : list (option C)) (b : N) : list (N * C) :=
  match idx with
  | [] => []
  | i :: idx' =>
      (if i =? 0 then []
       else match nth_error slots (N.to_nat (i - 1)) with
            | Some (Some c) => [(b, c)]
            | _ => []
            end) ++ enum_idx idx' slots (b + 1)
  end.
Fixpoint enum_slots (slots : list (option C)) (b : N) : list (N * C) :=
  match slots with
  | [] => []
  | s :: slots' =>
      (match s with Some c => [(b, c)] | None => [] end) ++ enum_slots slots' (b + 1)
  end.
Definition nenum (n : rnode C) : list (N * C) :=
  match n with
  | N4 _ len keys ch => combine (firstn (N.to_nat len) (lanes keys)) ch
  | N16 _ len keys ch => combine (firstn (N.to_nat len) keys) ch
  | N48 _ _ idx slots => enum_idx idx slots 0
  | N256 _ _ slots => enum_slots slots 0
  end.
Definition nchildren (n : rnode C) : list C := map snd (nenum n).

(* first free slot of a node48: for children[pos].pointer != nil { pos++ } *)
Fixpoint first_free (slots : list (option C)) (i : nat) : nat :=
  match slots with
  | None :: _ => i
  | Some _ :: s' => first_free s' (S i)
  | [] => i
  end.

(* ---- add, with growth ---- *)
Definition add256 (h : hdr) (len : N) (slots : list (option C)) (b : N) (c : C) : rnode C :=
  N256 h (u8 (len + 1)) (set_at (N.to_nat b) (Some c) slots).

Definition add48 (h : hdr) (len : N) (idx : list N) (slots : list (option C)) (b : N) (c : C) : rnode C :=
  if len <? maxNode48 then
    let pos := first_free slots 0 in
    N48 h (u8 (len + 1)) (set_at (N.to_nat b) (u8 (N.of_nat pos + 1)) idx) (set_at pos (Some c) slots)
  else
    let slots256 :=
      map (fun i => if i =? 0 then None
                    else match nth_error slots (N.to_nat (i - 1)) with Some s => s | None => None end) idx in
    add256 h len slots256 b c.

Definition add16 (h : hdr) (len : N) (keys : list N) (ch : list C) (b : N) (c : C) : rnode C :=
  if len <? maxNode16 then
    let i := insertPosNode16 keys len b in
    if (i =? -1)%Z then
      N16 h (u8 (len + 1)) (set_at (N.to_nat len) b keys) (ch ++ [c])
    else
      let i := Z.to_nat i in
      N16 h (u8 (len + 1)) (set_at i b (shift_right_from i keys)) (insert_at i c ch)
  else
    (* grow: slots[:len] = children, idx[keys[i]] = i+1 *)
    let slots := map Some (firstn (N.to_nat len) ch) ++ repeat None (48 - N.to_nat len) in
    let idx :=
      fold_left (fun idx ik => set_at (N.to_nat (snd ik)) (u8 (N.of_nat (fst ik) + 1)) idx)
                (combine (seq 0 (N.to_nat len)) (firstn (N.to_nat len) keys))
                (repeat 0 256%nat) in
    add48 h len idx slots b c.

Definition add4 (h : hdr) (len : N) (keys : N) (ch : list C) (b : N) (c : C) : rnode C :=
  if len <? maxNode4 then
    let i := insertPosNode4 keys b in
    if (i =? -1)%Z then
      N4 h (u8 (len + 1)) (setAtPos keys len b) (ch ++ [c])
    else
      let keys := shiftLeftClear keys (Z.to_N i) in
      N4 h (u8 (len + 1)) (setAtPos keys (Z.to_N i) b) (insert_at (Z.to_nat i) c ch)
  else
    add16 h len (deconstruct keys ++ repeat 0 12%nat) ch b c.

Definition nadd (n : rnode C) (b : N) (c : C) : rnode C :=
  match n with
  | N4 h len keys ch => add4 h len keys ch b c
  | N16 h len keys ch => add16 h len keys ch b c
  | N48 h len idx slots => add48 h len idx slots b c
  | N256 h len slots => add256 h len slots b c
  end.

(* ---- delete of a present byte, with shrinking (the node4 collapse onto its
   last child needs the child's header and lives in Model/Tree.v) ---- *)
Definition ndel (n : rnode C) (b : N) : rnode C :=
  match n with
  | N4 h len keys ch =>
      let i := searchNode4 keys b in
      if (i =? -1)%Z then n
      else N4 h (u8 (len + 255)) (shiftRightClear keys (Z.to_N (i + 1))) (remove_at (Z.to_nat i) ch)
  | N16 h len keys ch =>
      let pos := Z.to_nat (searchNode16 keys len b) in
      let keys' := shift_left_onto pos keys in
      let ch' := remove_at pos ch in
      let len' := u8 (len + 255) in
      if len' =? shrink16 then
        N4 h len' (construct (nth 0 keys' 0) (nth 1 keys' 0) (nth 2 keys' 0) (nth 3 keys' 0)) ch'
      else N16 h len' keys' ch'
  | N48 h len idx slots =>
      let pos := nth (N.to_nat b) idx 0 in
      let idx' := set_at (N.to_nat b) 0 idx in
      let slots' := set_at (N.to_nat (pos - 1)) None slots in
      let len' := u8 (len + 255) in
      if len' =? shrink48 then
        let en := enum_idx idx' slots' 0 in
        N16 h len' (map fst en ++ repeat 0 (16 - length en)) (map snd en)
      else N48 h len' idx' slots'
  | N256 h len slots =>
      let slots' := set_at (N.to_nat b) None slots in
      let len' := u8 (len + 255) in
      if len' =? shrink256 then
        let en := enum_slots slots' 0 in
        let idx :=
          fold_left (fun idx ib => set_at (N.to_nat (snd ib)) (u8 (N.of_nat (fst ib) + 1)) idx)
                    (combine (seq 0 (length en)) (map fst en))
                    (repeat 0 256%nat) in
        N48 h len' idx (map (fun bc => Some (snd bc)) en ++ repeat None (48 - length en))
      else N256 h len' slots'
  end.

(* replace the child registered under b (the tree code writes through a pointer
   into the parent's slot) *)
Definition nreplace (n : rnode C) (b : N) (c : C) : rnode C :=
  match n with
  | N4 h len keys ch =>
      let i := searchNode4 keys b in
      if (negb (i =? -1)%Z) && (i <? Z.of_N len)%Z then N4 h len keys (set_at (Z.to_nat i) c ch) else n
  | N16 h len keys ch =>
      let i := searchNode16 keys len b in
      if (i =? -1)%Z then n else N16 h len keys (set_at (Z.to_nat i) c ch)
  | N48 h len idx slots =>
      let i := nth (N.to_nat b) idx 0 in
      if i =? 0 then n else N48 h len idx (set_at (N.to_nat (i - 1)) (Some c) slots)
  | N256 h len slots => N256 h len (set_at (N.to_nat b) (Some c) slots)
  end.

(* first / last child: minimum() and maximum() of tree.go at one node *)
Definition nfirst (n : rnode C) : option C :=
  match n with
  | N4 _ _ _ ch | N16 _ _ _ ch => nth_error ch 0
  | _ => match nenum n with [] => None | (_, c) :: _ => Some c end
  end.
Definition nlast (n : rnode C) : option C :=
  match n with
  | N4 _ len _ ch | N16 _ len _ ch => nth_error ch (N.to_nat (u8 (len + 255)))
  | _ => match rev (nenum n) with [] => None | (_, c) :: _ => Some c end
  end.

(* an empty node4 as the pool hands it out *)
Definition empty4 (h : hdr) : rnode C := N4 h 0 0 [].

End Ops.
