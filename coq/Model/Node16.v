(* Model of the two node16 routines as node16_other.go writes them (and as
   node16_amd64.s computes them: compare all sixteen lanes, movemask, and with
   (1 << len) - 1, trailing zero count). keys is the raw 16-byte array, stale
   tail included. Definitions only; see Proofs/Node16Facts.v. *)
From GoArt Require Export Base.Bytes Model.Node4.
Open Scope N_scope.

Fixpoint bitfield (f : N -> bool) (keys : list N) (i : N) : N :=
  match keys with
  | [] => 0
  | k :: keys' => N.lor (if f k then N.shiftl 1 i else 0) (bitfield f keys' (i + 1))
  end.

Definition lanemask (len : N) : N := N.shiftl 1 len - 1.

Definition searchNode16 (keys : list N) (len b : N) : Z :=
  let bf := N.land (bitfield (fun k => k =? b) (firstn 16 keys) 0) (lanemask len) in
  if bf =? 0 then (-1)%Z else Z.of_N (tz bf).

Definition insertPosNode16 (keys : list N) (len b : N) : Z :=
  let bf := N.land (bitfield (fun k => b <? k) (firstn 16 keys) 0) (lanemask len) in
  if bf =? 0 then (-1)%Z else Z.of_N (tz bf).
