(* Hand-written primitives used by the REGENERATED translations Gen/Node4Gen.v and
   Gen/Node16Gen.v (go/cmd/srcfacts/translate.go) in addition to the uint32
   primitives of Model/Node4.v (u32 sub32 add32 mul32 not32 shl32 shr32 tz M32).

   Why this file exists: node16_other.go computes in Go `int` and `uint`, which
   Model/Node4.v has no vocabulary for, and the translator needs a value that
   an untranslatable function can be defined as.

   Representation chosen by the translator:
     uint8 / uint32 / uint      N   (wrap written out: mod 256, the *32 primitives, mod 2^64)
     int                        Z   UNBOUNDED: no wrap is modelled for int. The
                                    theorems of Proofs/TranslateFacts.v carry
                                    hypotheses (pos < 4, len <= 16) under which
                                    every int value stays below 2^17, so this
                                    agrees with both the 64-bit and the 32-bit int.
     shift counts               a Go shift count is unsigned or a non-negative
                                    int (a negative count panics): an int count
                                    c is passed to the N primitives as Z.to_N c. *)
From GoArt Require Export Base.Bytes Model.Node4.
From Coq Require Import String.
Open Scope N_scope.

(* uint(e) for e an int: two's complement, 64-bit uint *)
Definition uint_of_int (z : Z) : N := Z.to_N (z mod 0x10000000000000000)%Z.
(* uint32(e) / byte(e) for e an int *)
Definition u32_of_int (z : Z) : N := Z.to_N (z mod 0x100000000)%Z.
Definition u8_of_int (z : Z) : N := Z.to_N (z mod 256)%Z.

(* bits.TrailingZeros on a uint. The value at 0 is bits.UintSize (64 here, 32 on
   a 32-bit platform); both routines of node16_other.go call it under `!= 0`. *)
Definition tz_uint (x : N) : N := match x with N0 => 64 | Npos p => tz_pos p end.

(* What a function outside the translated fragment is defined as: not a
   function, so its equivalence theorem does not even type-check. *)
Inductive untranslated : Set := UNSUPPORTED (why : string).
