(* Hand-written primitives used by the REGENERATED translations Gen/Node4Gen.v and
   Gen/Node16Gen.v (go/cmd/srcfacts/translate.go) in addition to the uint32
   primitives of Model/Node4.v (u32 sub32 add32 mul32 not32 shl32 shr32 tz M32).

   Why this file exists: node16_other.go computes in Go `int` and `uint`, which
   Model/Node4.v has no vocabulary for, and the translator needs a value that
   an untranslatable function can be defined as.

   Representation chosen by the translator:
     uint8 / uint32 / uint      N   (wrap written out: mod 256, the *32 primitives, mod 2^64)
     int                        Z   UNBOUNDED: no wrap is modelled for int. The
                                    theorems of Proofs/TranslateFacts.v carry
                                    hypotheses (pos < 4, len <= 16) under which
                                    every int value stays below 2^17, so this
                                    agrees with both the 64-bit and the 32-bit int.
     shift counts               a Go shift count is unsigned or a non-negative
                                    int (a negative count panics): an int count
                                    c is passed to the N primitives as Z.to_N c. *)
From GoArt Require Export Base.Bytes Model.Node4.
From Coq Require Import String.
Open Scope N_scope.

(* uint(e) for e an int: two's complement, 64-bit uint *)
Definition uint_of_int (z : Z) : N := Z.to_N (z mod 0x10000000000000000)%Z.
(* uint32(e) / byte(e) for e an int *)
Definition u32_of_int (z : Z) : N := Z.to_N (z mod 0x100000000)%Z.
Definition u8_of_int (z : Z) : N := Z.to_N (z mod 256)%Z.

(* bits.TrailingZeros on a uint. The value at 0 is bits.UintSize (64 here, 32 on
   a 32-bit platform); both routines of node16_other.go call it under `!= 0`. *)
Definition tz_uint (x : N) : N := match x with N0 => 64 | Npos p => tz_pos p end.

(* What a function outside the translated fragment is defined as: not a
   function, so its equivalence theorem does not even type-check. *)
Inductive untranslated : Set := UNSUPPORTED (why : string).

(* ================================================================== *)
(* Vocabulary of Gen/KeysGen.v (go/cmd/srcfacts/translate_keys.go): the
   numeric codecs of keys.go. This is the TRUSTED reading of the Go idioms.

   Representation: uintW is an N below 2^W; intW is a Z in
   [-2^(W-1), 2^(W-1)); a float32 / float64 IS its IEEE-754 bit pattern (an N
   below 2^32 / 2^64); []byte is list N. The width argument w of the
   primitives is the width in BITS of the Go operand type. Operands are
   assumed in range (the theorems of Proofs/TranslateKeysFacts.v bound the
   inputs; every primitive returns a value in range). *)

(* uintW(x) for x of a wider unsigned type: truncation *)
Definition wrapw (w x : N) : N := x mod 2 ^ w.
(* a + b, a - b, a * b on uintW: wrap modulo 2^W *)
Definition addw (w a b : N) : N := (a + b) mod 2 ^ w.
Definition subw (w a b : N) : N := (a + 2 ^ w - b) mod 2 ^ w.
Definition mulw (w a b : N) : N := (a * b) mod 2 ^ w.
(* ^a on uintW *)
Definition notw (w a : N) : N := N.lxor a (N.ones w).
(* a << s on uintW: bits shifted beyond the width are lost, s >= W gives 0;
   a >> s on uintW: logical shift *)
Definition shlw (w a s : N) : N := N.shiftl a s mod 2 ^ w.
Definition shrw (w a s : N) : N := N.shiftr a s.

(* the unsafe read  * ( *uintW)(unsafe.Pointer(&x))  of an intW x, and the conversion uintW(x):
   the two's complement bits of x *)
Definition bits_of_int (w : N) (z : Z) : N := Z.to_N (z mod 2 ^ Z.of_N w).
(* the unsafe read  * ( *intW)(unsafe.Pointer(&u))  of a uintW u, and the conversion intW(u):
   the bits read as a two's complement number (top bit set: u - 2^W) *)
Definition int_of_bits (w : N) (u : N) : Z :=
  if u <? 2 ^ (w - 1) then Z.of_N u else (Z.of_N u - 2 ^ Z.of_N w)%Z.
(* -x on intW: two's complement negation, wraps (-MinIntW = MinIntW) *)
Definition negw (w : N) (z : Z) : Z := int_of_bits w (bits_of_int w (- z)).

(* encoding/binary (binary.go), type bigEndian:
     func (bigEndian) PutUint16(b []byte, v uint16) { _ = b[1]; b[0] = byte(v >> 8); b[1] = byte(v) }
     func (bigEndian) PutUint32(b []byte, v uint32) { _ = b[3]; b[0] = byte(v >> 24); ...; b[3] = byte(v) }
     func (bigEndian) PutUint64(b []byte, v uint64) { _ = b[7]; b[0] = byte(v >> 56); ...; b[7] = byte(v) }
   be_put_uintNN b v is the slice b after the call: its first NN/8 bytes
   overwritten, the others kept. A b shorter than NN/8 panics in Go (not
   modelled: the translated code calls it on make([]byte, NN/8)). *)
Definition be_put_uint16 (b : list N) (v : N) : list N :=
  [N.shiftr v 8 mod 256; v mod 256] ++ skipn 2 b.
Definition be_put_uint32 (b : list N) (v : N) : list N :=
  [N.shiftr v 24 mod 256; N.shiftr v 16 mod 256; N.shiftr v 8 mod 256; v mod 256] ++ skipn 4 b.
Definition be_put_uint64 (b : list N) (v : N) : list N :=
  [N.shiftr v 56 mod 256; N.shiftr v 48 mod 256; N.shiftr v 40 mod 256; N.shiftr v 32 mod 256;
   N.shiftr v 24 mod 256; N.shiftr v 16 mod 256; N.shiftr v 8 mod 256; v mod 256] ++ skipn 8 b.
(*   func (bigEndian) Uint16(b []byte) uint16 { _ = b[1]; return uint16(b[1]) | uint16(b[0])<<8 }
     func (bigEndian) Uint32(b []byte) uint32 { _ = b[3]; return uint32(b[3]) | uint32(b[2])<<8 | uint32(b[1])<<16 | uint32(b[0])<<24 }
     func (bigEndian) Uint64(b []byte) uint64 { _ = b[7]; return uint64(b[7]) | uint64(b[6])<<8 | ... | uint64(b[0])<<56 }
   (the elements are bytes, so no shift leaves the width; a short b panics in Go) *)
Definition be_uint16 (b : list N) : N :=
  N.lor (nth 1 b 0) (N.shiftl (nth 0 b 0) 8).
Definition be_uint32 (b : list N) : N :=
  N.lor (N.lor (N.lor (nth 3 b 0) (N.shiftl (nth 2 b 0) 8)) (N.shiftl (nth 1 b 0) 16)) (N.shiftl (nth 0 b 0) 24).
Definition be_uint64 (b : list N) : N :=
  N.lor (N.lor (N.lor (N.lor (N.lor (N.lor (N.lor (nth 7 b 0) (N.shiftl (nth 6 b 0) 8)) (N.shiftl (nth 5 b 0) 16))
    (N.shiftl (nth 4 b 0) 24)) (N.shiftl (nth 3 b 0) 32)) (N.shiftl (nth 2 b 0) 40)) (N.shiftl (nth 1 b 0) 48))
    (N.shiftl (nth 0 b 0) 56).

(* IEEE-754 binary32 / binary64 bit patterns: sign (1 bit) | exponent (8 / 11 bits) | mantissa (23 / 52 bits) *)
Definition f_mant (w : N) : N := if w =? 32 then 23 else 52.
Definition f_expo (w : N) : N := if w =? 32 then 8 else 11.
(* math.Inf(1), math.Inf(-1) (converted to the float type of width w):
   exponent all ones, mantissa 0, sign 0 / 1 *)
Definition f_pinf (w : N) : N := N.shiftl (N.ones (f_expo w)) (f_mant w).
Definition f_ninf (w : N) : N := N.lor (f_pinf w) (N.shiftl 1 (w - 1)).
(* math.NaN() is math.Float64frombits(0x7FF8000000000001) (math/bits.go: uvnan);
   float32(math.NaN()) is the quiet NaN with the payload truncated to 23 bits, 0x7FC00000 *)
Definition f_nan (w : N) : N := if w =? 32 then 0x7FC00000 else 0x7FF8000000000001.
(* math.IsInf(f, 1), math.IsInf(f, -1), math.IsNaN(f) on the bit pattern of f
   (NaN: exponent all ones and mantissa non-zero). For f = float64(x) with x a
   float32 they are the float32 predicates on x: the conversion is exact, it maps
   +Inf / -Inf / NaN / finite to +Inf / -Inf / NaN / finite. *)
Definition f_is_pinf (w x : N) : bool := x =? f_pinf w.
Definition f_is_ninf (w x : N) : bool := x =? f_ninf w.
Definition f_is_nan (w x : N) : bool :=
  (N.land (N.shiftr x (f_mant w)) (N.ones (f_expo w)) =? N.ones (f_expo w)) &&
  negb (N.land x (N.ones (f_mant w)) =? 0).
