(* Classification of the regenerated source facts (Gen/WriteFacts.v, Gen/SrcFacts.v,
   Gen/Layouts.v): what is reachable from which API method, which writes are allowed on a
   read path, what counts as shared package-level state, which fields must be scanned by
   the collector.  Everything here is executable; the obligations over the regenerated
   tables are in Proofs/StaticFacts.v and are discharged by computation.

   TRUSTED: this classification and the extractor (go/cmd/srcfacts/writes.go).  The tables
   themselves are re-read from /repo on every run. *)
From Coq Require Import List String Ascii NArith Bool.
From GoArt Require Import Gen.SrcFacts Gen.WriteFacts Gen.Layouts.
Import ListNotations.
Open Scope string_scope.

(* ------------------------------------------------------------------ strings *)

Definition mem (s : string) (l : list string) : bool := existsb (String.eqb s) l.

Fixpoint dedup (l : list string) : list string :=
  match l with
  | [] => []
  | x :: r => if mem x r then dedup r else x :: dedup r
  end.

(* ------------------------------------------------------------------ call graph *)

(* qualified names of the functions whose simple name is m: name-based resolution, an
   edge (f, m) reaches EVERY function or method called m (covers interface calls such as
   t.bck.Transform and method values such as t.restoreKey) *)
Definition named (m : string) : list string :=
  map fst (filter (fun p => String.eqb (snd p) m) functions).

(* direct successors of the function with qualified name q *)
Definition callees (q : string) : list string :=
  flat_map (fun e => if String.eqb (fst e) q then named (snd e) else []) call_edges.

Fixpoint reach_aux (fuel : nat) (seen frontier : list string) : list string :=
  match fuel with
  | O => seen
  | S k =>
      match frontier with
      | [] => seen
      | _ =>
          let nxt := dedup (filter (fun q => negb (mem q seen)) (flat_map callees frontier)) in
          reach_aux k (List.app seen nxt) nxt
      end
  end.

(* functions reachable from the (qualified) roots in at most fuel rounds of breadth-first
   expansion; with fuel = length functions this is the full closure (each productive round
   adds a new function; Proofs/StaticFacts.reachable_closed re-checks it by computation) *)
Definition reach (roots : list string) (fuel : nat) : list string :=
  reach_aux fuel (dedup roots) (dedup roots).

Definition closed (l : list string) : bool :=
  forallb (fun f => forallb (fun g => mem g l) (callees f)) l.

(* the read-only API (interface Tree[K, V] minus Insert and Delete) *)
Definition read_api : list string :=
  ["Search"; "Minimum"; "Maximum"; "Size"; "All"; "Backward"; "Prefix"; "Range"; "TopK"; "BottomK"].
Definition write_api : list string := ["Insert"; "Delete"].

Definition roots_of (api : list string) : list string :=
  map fst (filter (fun p => mem (snd p) api) functions).

Definition roots : list string := roots_of read_api.
Definition insert_roots : list string := roots_of write_api.

Definition reachable_fns : list string := reach roots (List.length functions).
Definition write_reachable_fns : list string := reach insert_roots (List.length functions).

(* ------------------------------------------------------------------ writes *)

Definition write_site : Type := (string * string * string * N)%type.  (* file, function, location, line *)
Definition fn_of (w : write_site) : string := let '(_, f, _, _) := w in f.
Definition loc_of (w : write_site) : string := let '(_, _, l, _) := w in l.

(* The only writes allowed on a read path.  Each entry: (function, written location).

   1. *CollationOrderKey[K].Transform writes cok.src (and would write cok.buf): the codec
      object of a collation tree remembers the last key it was given (Restore returns it)
      and owns the collator's scratch buffer.  Both are per-tree codec scratch, not part of
      the node graph: no node, leaf, key array or the size counter is reachable from them,
      so a VerifDump before/after is unaffected (C15).  They ARE a write shared between
      concurrent readers of one collation tree, which is why C16 excludes collation trees
      from the concurrent-reader claim.  The name-based call graph makes this function
      reachable from the Search/Prefix/Range of EVERY kind (they all call a `Transform`);
      only collationSortedTree really calls it.

   No other exception is needed on the unchanged code. *)
Definition allowed_writes : list (string * string) :=
  [("*CollationOrderKey[K].Transform", "cok.src");
   ("*CollationOrderKey[K].Transform", "cok.buf")].

Definition allowed_write (w : write_site) : bool :=
  existsb (fun a => String.eqb (fst a) (fn_of w) && String.eqb (snd a) (loc_of w)) allowed_writes.

Definition on_read_path (w : write_site) : bool := mem (fn_of w) reachable_fns.

(* the writes that violate "query paths do not write" — the replay material when the theorem breaks *)
Definition offending_writes : list write_site :=
  filter (fun w => on_read_path w && negb (allowed_write w)) heap_writes.

(* ------------------------------------------------------------------ package-level state *)

Definition pkg_var : Type := (string * string * string)%type.   (* file, name, declared type *)
Definition typ (v : pkg_var) : string := snd v.
Definition var_name (v : pkg_var) : string := snd (fst v).
Definition var_file (v : pkg_var) : string := fst (fst v).

(* sync.Pool or a fixed-size array [N]sync.Pool (not a slice, map or pointer) *)
Definition is_pool_type (t : string) : bool :=
  String.eqb t "sync.Pool" ||
  match t with
  | String "["%char rest =>
      match index 0 "]" rest with
      | Some (S n) => String.eqb (substring (S (S n)) (String.length rest - S (S n)) rest) "sync.Pool"
      | _ => false
      end
  | _ => false
  end.

(* the stringer-generated index table of nodekind_string.go: initialised once, only read
   by nodeKind.String (pkgvar_writes = [] covers "never assigned") *)
Definition is_readonly_table (v : pkg_var) : bool :=
  String.eqb (var_file v) "nodekind_string.go" && String.eqb (var_name v) "_nodeKind_index".

(* ------------------------------------------------------------------ layouts (C18) *)

Definition field_row : Type := (string * string * N * N)%type.    (* field, kind, offset, size *)

Definition fields_of (ty : string) : list field_row :=
  flat_map (fun r => let '(t, f, k, o, s) := r in if String.eqb t ty then [(f, k, o, s)] else [])
           layout_fields.

Definition type_info (ty : string) : option (N * N) :=
  match filter (fun r => String.eqb (fst (fst r)) ty) layout_types with
  | r :: _ => Some (snd (fst r), snd r)
  | [] => None
  end.

Definition field_info (ty f : string) : option field_row :=
  match filter (fun r => let '(n, _, _, _) := r in String.eqb n f) (fields_of ty) with
  | r :: _ => Some r
  | [] => None
  end.

Definition row_eqb (a b : field_row) : bool :=
  let '(f1, k1, o1, s1) := a in
  let '(f2, k2, o2, s2) := b in
  String.eqb f1 f2 && String.eqb k1 k2 && N.eqb o1 o2 && N.eqb s1 s2.

Fixpoint rows_eqb (a b : list field_row) : bool :=
  match a, b with
  | [], [] => true
  | x :: a', y :: b' => row_eqb x y && rows_eqb a' b'
  | _, _ => false
  end.

Definition info_eqb (a b : option (N * N)) : bool :=
  match a, b with
  | Some (s1, a1), Some (s2, a2) => N.eqb s1 s2 && N.eqb a1 a2
  | _, _ => false
  end.

(* reflect kinds the collector scans as pointers *)
Definition scanned_kind (k : string) : bool := String.eqb k "unsafe.Pointer" || String.eqb k "ptr".

(* the value types the hook instantiates the leaves at: pointer-free, pointer, pointer-rich
   (string), zero-size, 200-byte *)
Definition probes : list string := ["[int]"; "[*int]"; "[string]"; "[struct{}]"; "[big]"].

Definition leaf_families : list string :=
  ["alphaLeafNode"; "unsignedLeafNode"; "signedLeafNode"; "floatLeafNode"; "compoundLeafNode"].
Definition node_structs : list string := ["node4"; "node16"; "node48"; "node256"].

(* every field through which a node, a leaf or key bytes are reached *)
Definition reaching_fields : list (string * string) :=
  ("nodeRef", "pointer") ::
  flat_map (fun p => List.app (map (fun fam => (fam ++ p, "key")) (List.app leaf_families ["collateLeafNode"]))
                              [("collateLeafNode" ++ p, "colKey")]) probes.

Definition field_scanned (tf : string * string) : bool :=
  match field_info (fst tf) (snd tf) with
  | Some (_, k, _, _) => scanned_kind k
  | None => false
  end.

Definition no_uintptr : bool :=
  forallb (fun r => let '(_, _, k, _, _) := r in negb (String.eqb k "uintptr")) layout_fields.

(* for the probe p, the leaf types of all five template instantiations coincide with the
   unsigned one (the range scan of signed/float trees reads leaves through it) *)
Definition leaves_coincide (p : string) : bool :=
  let ref := fields_of ("unsignedLeafNode" ++ p) in
  negb (Nat.eqb (List.length ref) 0) &&
  forallb (fun fam => rows_eqb (fields_of (fam ++ p)) ref
                      && info_eqb (type_info (fam ++ p)) (type_info ("unsignedLeafNode" ++ p)))
          leaf_families.

(* `node` is the first field, at offset 0, and `children` sits at node4's offset *)
Definition header_first (s : string) : bool :=
  match fields_of s with
  | (f, k, o, _) :: _ => String.eqb f "node" && String.eqb k "struct" && N.eqb o 0
  | [] => false
  end.

Definition children_aligned (s : string) : bool :=
  match field_info s "children", field_info "node4" "children", field_info s "node" with
  | Some (_, _, o, _), Some (_, _, o4, _), Some (_, _, _, hs) => N.eqb o o4 && N.leb hs o
  | _, _, _ => false
  end.
