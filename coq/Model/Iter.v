(* Model of the explicit-stack traversals of tree.go: all, backward, filter,
   rangeScan (one machine, four instantiations), lowestCommonParent, and the
   bounded wrappers topK / bottomK.

   The stack is a list with its head on top; entries carry the number of key
   bytes consumed on the path to them (only rangeScan looks at it).  The consumer
   (Go's yield) is a function  ans : nat -> bool  giving its answer to the i-th
   call, so every deterministic consumer is covered.  Fuel = number of nodes;
   running out is the distinguished status WFuel, which the theorems exclude.
   Definitions only; see Proofs/IterFacts.v. *)
From GoArt Require Export Base.Bytes Model.Node Model.Tree.
Open Scope N_scope.

Inductive lact := Deliver | Skip | Break.
Inductive wstatus := WDone | WStopped | WBroke | WFuel.

Record wres := mkWres { delivered : list tree; calls : nat; status : wstatus }.

Section Walk.
Variable leaf_act : tree -> lact.
(* None = subtree pruned; Some l = entries to push, first = next to be popped *)
Variable expand : rnode tree -> nat -> option (list (tree * nat)).

Fixpoint walk (fuel : nat) (stack : list (tree * nat)) (ans : nat -> bool)
              (i : nat) (acc : list tree) : wres :=
  match fuel with
  | O => mkWres (rev acc) i WFuel
  | S f =>
    match stack with
    | [] => mkWres (rev acc) i WDone
    | (t, d) :: st =>
      match t with
      | Leaf _ _ _ =>
        match leaf_act t with
        | Skip => walk f st ans i acc
        | Break => mkWres (rev acc) i WBroke
        | Deliver =>
          if ans i then walk f st ans (S i) (t :: acc)
          else mkWres (rev (t :: acc)) (S i) WStopped
        end
      | Inner n =>
        match expand n d with
        | None => walk f st ans i acc
        | Some es => walk f (es ++ st) ans i acc
        end
      end
    end
  end.
End Walk.

Definition with_depth (d : nat) (l : list tree) : list (tree * nat) := map (fun t => (t, d)) l.

(* all(): children pushed last-to-first, so the first child is popped first *)
Definition expand_fwd (n : rnode tree) (d : nat) : option (list (tree * nat)) :=
  Some (with_depth 0 (nchildren n)).
(* backward(): children pushed first-to-last *)
Definition expand_bwd (n : rnode tree) (d : nat) : option (list (tree * nat)) :=
  Some (with_depth 0 (rev (nchildren n))).

Definition walk_fuel (t : tree) : nat := S (tsize t).

Definition run_all (root : option tree) (ans : nat -> bool) : wres :=
  match root with
  | None => mkWres [] 0 WDone
  | Some t => walk (fun _ => Deliver) expand_fwd (walk_fuel t) [(t, 0%nat)] ans 0 []
  end.
Definition run_backward (root : option tree) (ans : nat -> bool) : wres :=
  match root with
  | None => mkWres [] 0 WDone
  | Some t => walk (fun _ => Deliver) expand_bwd (walk_fuel t) [(t, 0%nat)] ans 0 []
  end.
(* filter(root, predicate, restore): pred is evaluated on the leaf *)
Definition run_filter (root : option tree) (pred : tree -> bool) (ans : nat -> bool) : wres :=
  match root with
  | None => mkWres [] 0 WDone
  | Some t => walk (fun l => if pred l then Deliver else Skip) expand_fwd (walk_fuel t) [(t, 0%nat)] ans 0 []
  end.

(* rangeScan(root, start, end, transformStart, transformEnd, restore) *)
Definition range_search (tstart tend : list N) : list N :=
  firstn (longestCommonPrefix tstart tend 0) tstart.

Definition expand_range (search : list N) (n : rnode tree) (d : nat) : option (list (tree * nat)) :=
  let h := nhdr n in
  let pruned :=
    if (0 <? prefixLen h)%nat && (d <? length search)%nat then
      let cap := Nat.min (length search - d) maxPrefixLen in
      (* longestCommonPrefix(prefix[:min(10,prefixLen)], search[d:d+cap], 0) == 0 *)
      (lcpn (Nat.min (pl_cap h) cap) (prefix h) (skipn d search) =? 0)%nat
    else false in
  if pruned then None
  else Some (with_depth (d + prefixLen h + 1) (nchildren n)).

Definition range_leaf_act (gstart gend : list N) (l : tree) : lact :=
  match lex_cmp (leaf_gk l) gstart with
  | Lt => Skip
  | _ => match lex_cmp (leaf_gk l) gend with
         | Gt => Break
         | _ => Deliver
         end
  end.

Definition run_range (root : option tree) (gstart gend tstart tend : list N) (ans : nat -> bool) : wres :=
  match root with
  | None => mkWres [] 0 WDone
  | Some t =>
    walk (range_leaf_act gstart gend) (expand_range (range_search tstart tend))
         (walk_fuel t) [(t, 0%nat)] ans 0 []
  end.

(* lowestCommonParent(root, prefix): the single descent the prefix determines *)
Fixpoint lcparent (fuel : nat) (t : tree) (p : list N) (depth : nat) : option tree :=
  match fuel with
  | O => None
  | S f =>
    match t with
    | Leaf _ _ _ => Some t
    | Inner n =>
      let h := nhdr n in
      if negb (prefixLen h =? 0)%nat && (prefixMismatch n p depth <? prefixLen h)%nat then Some t
      else
        let depth := (depth + prefixLen h)%nat in
        match nth_error p depth with
        | None => Some t
        | Some b =>
          match nfind n b with
          | None => Some t
          | Some c => lcparent f c p (S depth)
          end
        end
    end
  end.

(* topK / bottomK: the wrapper closure with its per-iteration counter
       remaining := k; if remaining == 0 {return}
       for key, val := range inner { if remaining == 0 {return}; if !yield(key,val) {break}; remaining-- }
   Seen from the inner scan the loop body is a consumer: on element i it answers
   false WITHOUT forwarding when i >= k, and otherwise forwards to the outer
   consumer and repeats its answer.  So the inner scan may "deliver" one element
   more than the outer consumer ever sees. *)
Fixpoint takeN {A} (k : N) (l : list A) : list A :=
  match l with
  | [] => []
  | x :: l' => if k =? 0 then [] else x :: takeN (k - 1) l'
  end.

Definition run_bounded (inner : (nat -> bool) -> wres) (k : N) (ans : nat -> bool) : wres :=
  if k =? 0 then mkWres [] 0 WDone
  else
    let r := inner (fun i => (N.of_nat i <? k) && ans i) in
    mkWres (takeN k (delivered r))
           (if N.of_nat (calls r) <=? k then calls r else N.to_nat k)
           (status r).
