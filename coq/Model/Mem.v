(* C13 — a small executable model of Go byte slices, `append`, `bytes.Clone`, and of the
   key-building step of the byte-string tree (trees.go, alphaSortedTree) and of the
   collation tree (keys.go CollationOrderKey.Transform, collation.go createLeaf).
   Definitions only; the lemmas are in Proofs/MemFacts.v.

   What is modelled (Go spec, "Appending to and copying slices", "Slice expressions"):
     - a slice value is (pointer into a backing array, len, cap); several slices may share one array;
     - s[:len(s):len(s)] keeps pointer and length and sets cap := len;
     - append(s, b) with len(s) < cap(s) WRITES b into the shared backing array at index len(s) and
       returns a slice of the same array; with len(s) = cap(s) it allocates a new array, copies, and
       leaves the old array untouched.  How much spare capacity the new array gets is not fixed by
       the spec (runtime.growslice + size classes): it is the parameter `g` below, and every
       theorem is for all `g`;
     - bytes.Clone(s), []byte(string(s)), []byte(aString): a new array holding a copy;
     - []byte(k) for k of type []byte is the identity: AlphabeticalOrderKey.Transform hands the
       caller's slice (pointer, len AND cap) to the tree code. *)
(* String first: List (re-exported by Base.Bytes) must win for `length`, `concat`, ... *)
From Coq Require Import Strings.String.
From GoArt Require Import Base.Bytes.
Open Scope N_scope.

(* ---------- heap of byte arrays; array id = index; arrays are never freed or moved ---------- *)
Definition heap := list (list N).

Record slice := mkSlice { arr : nat; off : nat; len : nat; cap : nat }.

(* the nil slice: no array at all (any id that is not allocated), len = cap = 0 *)
Definition nil_slice (h : heap) : slice := mkSlice (length h) 0 0 0.

Fixpoint set_nth {A : Type} (l : list A) (i : nat) (x : A) : list A :=
  match l, i with
  | [], _ => []
  | _ :: t, O => x :: t
  | y :: t, S i' => y :: set_nth t i' x
  end.

(* a[o : o+n] *)
Definition window (a : list N) (o n : nat) : list N := firstn n (skipn o a).

(* well-formed slice value: len <= cap, and the whole capacity lies inside an allocated array
   (a slice with off = cap = 0 may point nowhere: Go's nil slice) *)
Definition slice_ok (h : heap) (s : slice) : Prop :=
  (len s <= cap s)%nat /\
  match nth_error h (arr s) with
  | Some a => (off s + cap s <= length a)%nat
  | None => off s = 0%nat /\ cap s = 0%nat
  end.

Definition slice_okb (h : heap) (s : slice) : bool :=
  (len s <=? cap s)%nat &&
  match nth_error h (arr s) with
  | Some a => (off s + cap s <=? length a)%nat
  | None => (off s =? 0)%nat && (cap s =? 0)%nat
  end.

(* the bytes s[0:len(s)] *)
Definition read (h : heap) (s : slice) : list N :=
  match nth_error h (arr s) with
  | Some a => window a (off s) (len s)
  | None => []
  end.

(* the bytes s[0:cap(s)]: what s[:cap(s)] would show, i.e. everything reachable through s *)
Definition read_cap (h : heap) (s : slice) : list N :=
  match nth_error h (arr s) with
  | Some a => window a (off s) (cap s)
  | None => []
  end.

(* s[:len(s):len(s)] *)
Definition slice3 (s : slice) : slice := mkSlice (arr s) (off s) (len s) (len s).

(* s[lo:hi]  (Go requires lo <= hi <= cap(s)) *)
Definition reslice (s : slice) (lo hi : nat) : slice :=
  mkSlice (arr s) (off s + lo) (hi - lo) (cap s - lo).

(* s[:0]  (collate.Buffer.Reset: b.key = b.key[:0]) *)
Definition reset (s : slice) : slice := mkSlice (arr s) (off s) 0 (cap s).

(* append(s, b).  g n = spare capacity the runtime adds when it must allocate room for n bytes. *)
Definition append1 (g : nat -> nat) (h : heap) (s : slice) (b : N) : heap * slice :=
  if (len s <? cap s)%nat then
    match nth_error h (arr s) with
    | Some a =>
        (* in place: the write lands in the shared backing array, beyond len(s) *)
        (set_nth h (arr s) (set_nth a (off s + len s) b),
         mkSlice (arr s) (off s) (S (len s)) (cap s))
    | None => (h, s)   (* impossible for slice_ok slices *)
    end
  else
    (* grow: a new array (fresh id), the old one is not touched *)
    let n := S (len s) in
    (h ++ [read h s ++ b :: repeat 0 (g n)], mkSlice (length h) 0 n (n + g n)).

(* append(s, bs...) one byte at a time *)
Fixpoint append_many (g : nat -> nat) (h : heap) (s : slice) (bs : list N) : heap * slice :=
  match bs with
  | [] => (h, s)
  | b :: bs' => let '(h1, s1) := append1 g h s b in append_many g h1 s1 bs'
  end.

(* bytes.Clone(s) = append([]byte{}, s...);  []byte(string(s));  []byte(aString) *)
Definition clone (g : nat -> nat) (h : heap) (s : slice) : heap * slice :=
  (h ++ [read h s ++ repeat 0 (g (len s))], mkSlice (length h) 0 (len s) (len s + g (len s))).

(* the caller (or anybody) replaces the contents of array id *)
Definition overwrite (h : heap) (id : nat) (bytes : list N) : heap := set_nth h id bytes.

(* every array that existed in h has exactly the same contents in h': ALL its bytes, so also the
   bytes of a caller's buffer beyond the length of the slice that was passed *)
Definition old_arrays_unchanged (h h' : heap) : Prop :=
  forall id, (id < length h)%nat -> nth_error h' id = nth_error h id.
Definition arrays_unchanged (ids : list nat) (h h' : heap) : Prop :=
  forall id, In id ids -> nth_error h' id = nth_error h id.
(* the same with one exception (the collator's private buffer) *)
Definition old_arrays_unchanged_except (x : nat) (h h' : heap) : Prop :=
  forall id, (id < length h)%nat -> id <> x -> nth_error h' id = nth_error h id.

(* ---------- the key-building step `keyS = append(X, '\x00')` by the shape of X ---------- *)
(* shape is the third component of Gen.SrcFacts.append_sites; arg is the slice Transform returned
   (for []byte keys: the caller's own slice) *)
Definition build_key (g : nat -> nat) (shape : String.string) (h : heap) (arg : slice)
  : option (heap * slice) :=
  if String.eqb shape "slice3" then Some (append1 g h (slice3 arg) 0)
  else if (String.eqb shape "ident" || String.eqb shape "slice")%bool then Some (append1 g h arg 0)
  else if (String.eqb shape "fresh" || String.eqb shape "call")%bool then
    let '(h1, c) := clone g h arg in Some (append1 g h1 c 0)
  else None.   (* "other": nothing is known *)

(* which append sites build a terminated key of the byte-string tree *)
Fixpoint contains (sub s : String.string) : bool :=
  (String.prefix sub s ||
   match s with
   | String.EmptyString => false
   | String.String _ s' => contains sub s'
   end)%bool.

Definition key_methods : list String.string :=
  [".Insert"; ".Search"; ".Delete"; ".Range"]%string.
Definition key_vars : list String.string := ["keyS"; "startKey"; "endKey"]%string.

Definition is_key_site (fn txt : String.string) : bool :=
  (contains "alphaSortedTree" fn && existsb (fun m => contains m fn) key_methods &&
   existsb (fun v => contains v txt) key_vars)%bool.

(* ---------- the byte-string tree seen from memory: which slices the leaves hold ---------- *)
(* createLeaf stores unsafe.SliceData(keyS) and len(keyS): the leaf ALIASES whatever build_key
   returned.  mowned = arrays allocated inside library calls (never handed to the caller by the
   operations modelled here). *)
Record mstate := mkM { mheap : heap; mleaves : list slice; mowned : list nat }.

Inductive call :=
| CInsert (k : slice)
| CSearch (k : slice)
| CDelete (k : slice)
| CRange (a b : slice).

Definition new_ids (h h' : heap) : list nat := seq (length h) (length h' - length h).

Definition contents (st : mstate) : list (list N) := map (read (mheap st)) (mleaves st).

Definition has_key (h : heap) (ls : list slice) (key : list N) : bool :=
  existsb (fun l => beq (read h l) key) ls.

Definition m_call (g : nat -> nat) (shape : String.string) (st : mstate) (c : call) : option mstate :=
  let h := mheap st in
  match c with
  | CInsert k =>
      match build_key g shape h k with
      | Some (h', key) =>
          Some (mkM h'
                    (if has_key h' (mleaves st) (read h' key) then mleaves st  (* nl.value = val *)
                     else key :: mleaves st)                                   (* createLeaf() *)
                    (mowned st ++ new_ids h h'))
      | None => None
      end
  | CSearch k =>
      match build_key g shape h k with
      | Some (h', _) => Some (mkM h' (mleaves st) (mowned st ++ new_ids h h'))
      | None => None
      end
  | CDelete k =>
      match build_key g shape h k with
      | Some (h', key) =>
          Some (mkM h' (filter (fun l => negb (beq (read h' l) (read h' key))) (mleaves st))
                    (mowned st ++ new_ids h h'))
      | None => None
      end
  | CRange a b =>
      match build_key g shape h a with
      | Some (h1, _) =>
          match build_key g shape h1 b with
          | Some (h2, _) => Some (mkM h2 (mleaves st) (mowned st ++ new_ids h h2))
          | None => None
          end
      | None => None
      end
  end.

(* the caller's moves between calls: write anything into any array the library does not own,
   allocate new arrays *)
Definition m_write (st : mstate) (id : nat) (bytes : list N) : mstate :=
  mkM (overwrite (mheap st) id bytes) (mleaves st) (mowned st).
Definition m_alloc (st : mstate) (bytes : list N) : mstate :=
  mkM (mheap st ++ [bytes]) (mleaves st) (mowned st).

(* pure counterparts on the set of stored (terminated) keys *)
Definition ins_key (key : list N) (ks : list (list N)) : list (list N) :=
  if existsb (fun x => beq x key) ks then ks else key :: ks.
Definition del_key (key : list N) (ks : list (list N)) : list (list N) :=
  filter (fun x => negb (beq x key)) ks.

(* ---------- the collation path ---------- *)
(* CollationOrderKey.Transform:
     b := []byte(string(k))                    -- a copy
     cok.buf.Reset()                           -- buf.key = buf.key[:0]
     return b, bytes.Clone(cok.c.Key(cok.buf, b))
   Collator.Key appends the sort key to buf.key and returns buf.key[kn:], a slice of the
   collator's buffer.  f = the sort-key function (bytes -> bytes), left abstract.
   Result: (heap, new value of buf.key, keyS, colKey).  createLeaf stores keyS and colKey. *)
Definition coll_key (g : nat -> nat) (f : list N -> list N) (h : heap) (buf : slice) (src : slice)
  : heap * slice * slice :=
  let kn := len buf in
  let '(h1, buf1) := append_many g h buf (f (read h src)) in
  (h1, buf1, reslice buf1 kn (len buf1)).

Definition coll_transform (g : nat -> nat) (f : list N -> list N) (h : heap) (buf : slice) (k : slice)
  : heap * slice * slice * slice :=
  let '(h1, keyS) := clone g h k in
  let '(h2, buf1, ck) := coll_key g f h1 (reset buf) keyS in
  let '(h3, colKey) := clone g h2 ck in
  (h3, buf1, keyS, colKey).

(* the same without bytes.Clone: the leaf would alias the collator's buffer *)
Definition coll_transform_noclone (g : nat -> nat) (f : list N -> list N) (h : heap) (buf : slice)
  (k : slice) : heap * slice * slice * slice :=
  let '(h1, keyS) := clone g h k in
  let '(h2, buf1, ck) := coll_key g f h1 (reset buf) keyS in
  (h2, buf1, keyS, ck).
