(* Model of pool.go + the pool-facing part of node.go: raw nodes with ALL their
   slots (stale contents included), a shared pool whose Get is decided by an
   adversarial oracle, clear() field by field as the regenerated
   Gen/SrcFacts.clear_bodies records it, and addChild / deleteChild of the four
   node types written the way the Go code performs them: take a node from the
   pool and WRITE SOME FIELDS into it.  Whatever the acquired node held in the
   cells that are not written shows through.

   Model/Node.v assumes that an acquired node is zero and never recycles; this
   file makes neither assumption.  Proofs/PoolFacts.v shows that the pool only
   ever holds zero nodes, that the oracle is therefore irrelevant, and that on
   zero acquisitions the operations below are those of Model/Node.v.

   What is modelled as a value: a node.  What is not modelled: addresses.  A
   node that is Put while something still points to it (use after release) is
   an aliasing bug a value model cannot express; the order "link the
   replacement, then clear and Put the old node" is transliterated but only its
   effect on the contents of the pool is visible here.

   Definitions only, all executable. *)
From GoArt Require Export Base.Bytes Model.Node4 Model.Node16 Model.Node Gen.Params.
From GoArt Require Gen.SrcFacts.
From Coq Require String.
Import String.StringSyntax.
Local Notation string := String.string.
Delimit Scope string_scope with string.
Open Scope N_scope.

(* ---- the embedded struct `node`: prefixLen uint32, childrenLen uint8, prefix [10]byte ---- *)
Record xhdr := mkXhdr { xlen : N (* childrenLen *); xplen : nat (* prefixLen *); xprefix : list N }.
Definition xhdr0 : xhdr := mkXhdr 0 0 (repeat 0 maxPrefixLen).          (* node{} *)
(* single field assignments into an existing header *)
Definition w_len (l : N) (h : xhdr) : xhdr := mkXhdr l (xplen h) (xprefix h).
Definition w_plen (pl : nat) (h : xhdr) : xhdr := mkXhdr (xlen h) pl (xprefix h).
Definition w_prefix (px : list N) (h : xhdr) : xhdr := mkXhdr (xlen h) (xplen h) px.
(* dst.childrenLen = src.childrenLen; dst.prefixLen = src.prefixLen; dst.prefix = src.prefix
   -- the three assignments every grow/shrink performs on the acquired node *)
Definition w_hdr (src dst : xhdr) : xhdr :=
  w_prefix (xprefix src) (w_plen (xplen src) (w_len (xlen src) dst)).

(* ---- raw nodes: every array cell, occupied or not; None is a nil pointer ---- *)
Inductive xnode (C : Type) : Type :=
| X4 (h : xhdr) (keys : N) (ch : list (option C))            (* keys uint32, children [4] *)
| X16 (h : xhdr) (keys : list N) (ch : list (option C))      (* keys [16]byte, children [16] *)
| X48 (h : xhdr) (idx : list N) (ch : list (option C))       (* keys [256]byte, children [48] *)
| X256 (h : xhdr) (ch : list (option C)).                    (* children [256] *)
Arguments X4 {C}. Arguments X16 {C}. Arguments X48 {C}. Arguments X256 {C}.

Inductive kind := K4 | K16 | K48 | K256.
Definition kind_eqb (a b : kind) : bool :=
  match a, b with K4, K4 | K16, K16 | K48, K48 | K256, K256 => true | _, _ => false end.
Definition kind_name (k : kind) : string :=
  match k with K4 => "node4" | K16 => "node16" | K48 => "node48" | K256 => "node256" end%string.

(* what one Get does: hand out a brand new node, or the i-th released node of the kind *)
Inductive choice := Fresh | Reuse (i : nat).

(* Go's copy(dst[off:], src): as many elements of src as fit are written from offset off *)
Definition gcopy {A} (off : nat) (src dst : list A) : list A :=
  firstn off dst ++ firstn (length dst - off) src ++ skipn (off + length src) dst.

Section Pool.
Context {C : Type}.

Definition xkind (n : xnode C) : kind :=
  match n with X4 _ _ _ => K4 | X16 _ _ _ => K16 | X48 _ _ _ => K48 | X256 _ _ => K256 end.
Definition xh (n : xnode C) : xhdr :=
  match n with X4 h _ _ | X16 h _ _ | X48 h _ _ | X256 h _ => h end.
Definition xch (n : xnode C) : list (option C) :=
  match n with X4 _ _ ch | X16 _ _ ch | X48 _ _ ch | X256 _ ch => ch end.
(* the byte array `keys` of a node16 / node48 *)
Definition xbytes (n : xnode C) : list N :=
  match n with X16 _ k _ | X48 _ k _ => k | _ => [] end.
(* the key word of a node4 *)
Definition xword (n : xnode C) : N := match n with X4 _ k _ => k | _ => 0 end.

(* new(nodeK) *)
Definition xzero (k : kind) : xnode C :=
  match k with
  | K4 => X4 xhdr0 0 (repeat None 4)
  | K16 => X16 xhdr0 (repeat 0 16%nat) (repeat None 16)
  | K48 => X48 xhdr0 (repeat 0 256%nat) (repeat None 48)
  | K256 => X256 xhdr0 (repeat None 256)
  end.

Definition all0 (l : list N) : bool := forallb (N.eqb 0) l.
Definition allnil (l : list (option C)) : bool :=
  forallb (fun o => match o with None => true | Some _ => false end) l.
Definition is_zero_hdr (h : xhdr) : bool :=
  (xlen h =? 0) && (xplen h =? 0)%nat && all0 (xprefix h) && (length (xprefix h) =? maxPrefixLen)%nat.
Definition is_zero (n : xnode C) : bool :=
  match n with
  | X4 h keys ch => is_zero_hdr h && (keys =? 0) && allnil ch && (length ch =? 4)%nat
  | X16 h keys ch =>
      is_zero_hdr h && all0 keys && (length keys =? 16)%nat && allnil ch && (length ch =? 16)%nat
  | X48 h idx ch =>
      is_zero_hdr h && all0 idx && (length idx =? 256)%nat && allnil ch && (length ch =? 48)%nat
  | X256 h ch => is_zero_hdr h && allnil ch && (length ch =? 256)%nat
  end.

(* the array types: lengths of the lists *)
Definition shape_ok (n : xnode C) : bool :=
  match n with
  | X4 _ _ ch => (length ch =? 4)%nat
  | X16 _ keys ch => (length keys =? 16)%nat && (length ch =? 16)%nat
  | X48 _ idx ch => (length idx =? 256)%nat && (length ch =? 48)%nat
  | X256 _ ch => (length ch =? 256)%nat
  end.

(* ---- clear(), field by field ----
   `n.node = node{}` assigns the zero struct, `n.keys = 0` the zero word,
   `clear(n.children[:])` / `clear(n.keys[:])` zero every element of the array
   (the arrays have their static sizes 4 / 16+16 / 48+256 / 256).
   Which of these a clear() body actually contains is NOT written here: it is
   the regenerated list Gen.SrcFacts.clear_bodies (node type, fields, fields
   that the body resets completely).  A field that is not in the list keeps
   whatever it held. *)
Definition has (f : string) (l : list string) : bool := existsb (String.eqb f) l.
Definition clear_with (resets : list string) (n : xnode C) : xnode C :=
  let h' h := if has "node"%string resets then xhdr0 else h in
  let cl {A} (z : A) (k : nat) (f : string) (l : list A) := if has f resets then repeat z k else l in
  match n with
  | X4 h keys ch =>
      X4 (h' h) (if has "keys"%string resets then 0 else keys) (cl None 4%nat "children"%string ch)
  | X16 h keys ch => X16 (h' h) (cl 0 16%nat "keys"%string keys) (cl None 16%nat "children"%string ch)
  | X48 h idx ch => X48 (h' h) (cl 0 256%nat "keys"%string idx) (cl None 48%nat "children"%string ch)
  | X256 h ch => X256 (h' h) (cl None 256%nat "children"%string ch)
  end.
Definition resets_of (k : kind) : list string :=
  match find (fun e : string * list string * list string => String.eqb (fst (fst e)) (kind_name k))
             Gen.SrcFacts.clear_bodies with
  | Some e => snd e
  | None => []
  end.
Definition xclear (n : xnode C) : xnode C := clear_with (resets_of (xkind n)) n.

(* ---- the pool ----
   nodePools is one sync.Pool per kind; here one multiset of released nodes,
   Get of kind k only ever sees the nodes of kind k.  sync.Pool may hand out
   any released node or none of them, and may drop released nodes at any time:
   the oracle (a `choice` per Get) and the `drop` steps cover every behaviour. *)
Definition pool := list (xnode C).

Fixpoint take_kind (k : kind) (i : nat) (p : pool) : option (xnode C * pool) :=
  match p with
  | [] => None
  | n :: p' =>
      if kind_eqb (xkind n) k then
        match i with
        | O => Some (n, p')
        | S i' => match take_kind k i' p' with Some r => Some (fst r, n :: snd r) | None => None end
        end
      else match take_kind k i p' with Some r => Some (fst r, n :: snd r) | None => None end
  end.

Definition get (o : choice) (k : kind) (p : pool) : xnode C * pool :=
  match o with
  | Fresh => (xzero k, p)
  | Reuse i => match take_kind k i p with Some r => r | None => (xzero k, p) end
  end.
Definition put (n : xnode C) (p : pool) : pool := n :: p.
Definition drop (i : nat) (p : pool) : pool := remove_at i p.

(* an operation performs at most one Get per level of growth; the oracle of an
   operation is the list of its answers, Fresh once it is exhausted *)
Definition nxt (os : list choice) : choice := hd Fresh os.

(* ---- loops of node.go that write into an acquired node ---- *)
Definition slot_at (slots : list (option C)) (j : N) : option C :=
  match nth_error slots (N.to_nat j) with Some s => s | None => None end.

(* node48.addChild, grow:  for i := 0; i < 256; i++ { if n48.keys[i] != 0 {
     n256.children[i] = n48.children[n48.keys[i]-1] } }
   cells of n256.children whose index byte is 0 are NOT written *)
Fixpoint grow48_loop (idx : list N) (slots : list (option C)) (dst : list (option C))
  : list (option C) :=
  match idx, dst with
  | i :: idx', d :: dst' =>
      (if i =? 0 then d else slot_at slots (i - 1)) :: grow48_loop idx' slots dst'
  | _, _ => dst
  end.

(* node16.addChild, grow:  for i := uint8(0); i < len; i++ { n48.keys[n16.keys[i]] = i + 1 }
   only the index bytes of the present keys are written *)
Definition grow16_idx (len : nat) (keys : list N) (dst : list N) : list N :=
  fold_left (fun idx (ik : nat * N) => set_at (N.to_nat (snd ik)) (u8 (N.of_nat (fst ik) + 1)) idx)
            (combine (seq 0 len) (firstn len keys)) dst.

(* node256.deleteChild, shrink:  pos := 0; for i := 0; i < 256; i++ {
     if n256.children[i].pointer != nil { n48.children[pos] = n256.children[i];
                                          n48.keys[i] = uint8(pos + 1); pos++ } }
   writes children[0..count) and the index bytes of the present keys only *)
Fixpoint shrink256_loop (src : list (option C)) (i : N) (pos : nat)
                        (idx : list N) (ch : list (option C)) : list N * list (option C) :=
  match src with
  | [] => (idx, ch)
  | None :: src' => shrink256_loop src' (i + 1) pos idx ch
  | Some c :: src' =>
      shrink256_loop src' (i + 1) (S pos)
        (set_at (N.to_nat i) (u8 (N.of_nat pos + 1)) idx) (set_at pos (Some c) ch)
  end.

(* node48.deleteChild, shrink:  children := 0; for i := 0; i < 256; i++ { pos = n48.keys[i];
     if pos != 0 { n16.keys[children] = uint8(i); n16.children[children] = n48.children[pos-1];
                   children++ } }
   writes keys[0..count) and children[0..count) only *)
Fixpoint shrink48_loop (idx : list N) (slots : list (option C)) (i : N) (k : nat)
                       (keys : list N) (ch : list (option C)) : list N * list (option C) :=
  match idx with
  | [] => (keys, ch)
  | pos :: idx' =>
      if pos =? 0 then shrink48_loop idx' slots (i + 1) k keys ch
      else shrink48_loop idx' slots (i + 1) (S k)
             (set_at k (u8 i) keys) (set_at k (slot_at slots (pos - 1)) ch)
  end.

(* ---- addChild ---- *)
(* node256.addChild: n256.childrenLen++; n256.children[b] = child *)
Definition xadd256 (h : xhdr) (ch : list (option C)) (b : N) (c : C) : xnode C :=
  X256 (w_len (u8 (xlen h + 1)) h) (set_at (N.to_nat b) (Some c) ch).

Definition xadd48 (h : xhdr) (idx : list N) (ch : list (option C)) (b : N) (c : C)
                  (os : list choice) (p : pool) : xnode C * pool :=
  if xlen h <? maxNode48 then
    (* pos := 0; for n48.children[pos].pointer != nil { pos++ } *)
    let pos := first_free ch 0 in
    (X48 (w_len (u8 (xlen h + 1)) h)
         (set_at (N.to_nat b) (u8 (N.of_nat pos + 1)) idx) (set_at pos (Some c) ch), p)
  else
    let g := get (nxt os) K256 p in
    let a := fst g in
    (* written into a: children (where the index byte is not 0), the three header fields *)
    let n256h := w_hdr h (xh a) in
    let n256ch := grow48_loop idx ch (xch a) in
    (* *ref = n256; n256.addChild(b, child); n48.clear(); Put(n48) *)
    (xadd256 n256h n256ch b c, put (xclear (X48 h idx ch)) (snd g)).

Definition xadd16 (h : xhdr) (keys : list N) (ch : list (option C)) (b : N) (c : C)
                  (os : list choice) (p : pool) : xnode C * pool :=
  if xlen h <? maxNode16 then
    let i := insertPosNode16 keys (xlen h) b in
    if (i =? -1)%Z then
      let idx := N.to_nat (xlen h) in
      (X16 (w_len (u8 (xlen h + 1)) h) (set_at idx b keys) (set_at idx (Some c) ch), p)
    else
      (* copy(keys[idx+1:], keys[idx:]); copy(children[idx+1:], children[idx:]) *)
      let idx := Z.to_nat i in
      (X16 (w_len (u8 (xlen h + 1)) h)
           (set_at idx b (shift_right_from idx keys))
           (set_at idx (Some c) (shift_right_from idx ch)), p)
  else
    let g := get (nxt os) K48 p in
    let a := fst g in
    let len := N.to_nat (xlen h) in
    (* copy(n48.children[:len], n16.children[:]): children[0..len) written, the rest is a's;
       keys[n16.keys[i]] = i+1 for i < len: the other 256-len index bytes are a's *)
    let n48ch := gcopy 0 (firstn len ch) (xch a) in
    let n48idx := grow16_idx len keys (xbytes a) in
    let n48h := w_hdr h (xh a) in
    (* *ref = n48; n48.addChild(ref, b, child); n16.clear(); Put(n16) *)
    let r := xadd48 n48h n48idx n48ch b c (tl os) (snd g) in
    (fst r, put (xclear (X16 h keys ch)) (snd r)).

Definition xadd4 (h : xhdr) (keys : N) (ch : list (option C)) (b : N) (c : C)
                 (os : list choice) (p : pool) : xnode C * pool :=
  if xlen h <? maxNode4 then
    let i := insertPosNode4 keys b in
    if (i =? -1)%Z then
      let idx := N.to_nat (xlen h) in
      (X4 (w_len (u8 (xlen h + 1)) h) (setAtPos keys (xlen h) b) (set_at idx (Some c) ch), p)
    else
      (* shiftLeftClear(&keys, idx); copy(children[idx+1:], children[idx:]) *)
      let idx := Z.to_nat i in
      (X4 (w_len (u8 (xlen h + 1)) h)
          (setAtPos (shiftLeftClear keys (Z.to_N i)) (Z.to_N i) b)
          (set_at idx (Some c) (shift_right_from idx ch)), p)
  else
    let g := get (nxt os) K16 p in
    let a := fst g in
    (* copy(n16.keys[:], deconstruct(n4.keys)): keys[0..4) written, keys[4..16) are a's;
       copy(n16.children[:], n4.children[:]): children[0..4) written, children[4..16) are a's *)
    let n16keys := gcopy 0 (deconstruct keys) (xbytes a) in
    let n16ch := gcopy 0 ch (xch a) in
    let n16h := w_hdr h (xh a) in
    (* *ref = n16; n16.addChild(ref, b, child); n4.clear(); Put(n4) *)
    let r := xadd16 n16h n16keys n16ch b c (tl os) (snd g) in
    (fst r, put (xclear (X4 h keys ch)) (snd r)).

Definition xadd (n : xnode C) (b : N) (c : C) (os : list choice) (p : pool) : xnode C * pool :=
  match n with
  | X4 h keys ch => xadd4 h keys ch b c os p
  | X16 h keys ch => xadd16 h keys ch b c os p
  | X48 h idx ch => xadd48 h idx ch b c os p
  | X256 h ch => (xadd256 h ch b c, p)
  end.

(* ---- deleteChild ---- *)
Definition xdel256 (h : xhdr) (ch : list (option C)) (b : N)
                   (os : list choice) (p : pool) : xnode C * pool :=
  (* n256.children[b].pointer = nil; n256.childrenLen-- *)
  let ch' := set_at (N.to_nat b) None ch in
  let h' := w_len (u8 (xlen h + 255)) h in
  if xlen h' =? shrink256 then
    let g := get (nxt os) K48 p in
    let a := fst g in
    let r := shrink256_loop ch' 0 0 (xbytes a) (xch a) in
    (* *ref = n48 ... n256.clear(); Put(n256) *)
    (X48 (w_hdr h' (xh a)) (fst r) (snd r), put (xclear (X256 h' ch')) (snd g))
  else (X256 h' ch', p).

Definition xdel48 (h : xhdr) (idx : list N) (ch : list (option C)) (b : N)
                  (os : list choice) (p : pool) : xnode C * pool :=
  (* pos := keys[b]; keys[b] = 0; children[pos-1].pointer = nil; childrenLen-- *)
  let pos := nth (N.to_nat b) idx 0 in
  let idx' := set_at (N.to_nat b) 0 idx in
  let ch' := set_at (N.to_nat (pos - 1)) None ch in
  let h' := w_len (u8 (xlen h + 255)) h in
  if xlen h' =? shrink48 then
    let g := get (nxt os) K16 p in
    let a := fst g in
    let r := shrink48_loop idx' ch' 0 0 (xbytes a) (xch a) in
    (X16 (w_hdr h' (xh a)) (fst r) (snd r), put (xclear (X48 h' idx' ch')) (snd g))
  else (X48 h' idx' ch', p).

Definition xdel16 (h : xhdr) (keys : list N) (ch : list (option C)) (b : N)
                  (os : list choice) (p : pool) : xnode C * pool :=
  (* pos := searchNode16(...); copy(keys[pos:], keys[pos+1:]); copy(children[pos:], children[pos+1:]);
     childrenLen--   (the last cell of both arrays keeps its old content) *)
  let pos := Z.to_nat (searchNode16 keys (xlen h) b) in
  let keys' := shift_left_onto pos keys in
  let ch' := shift_left_onto pos ch in
  let h' := w_len (u8 (xlen h + 255)) h in
  if xlen h' =? shrink16 then
    let g := get (nxt os) K4 p in
    let a := fst g in
    (* n4.keys = construct(keys[0..3]) (whole word); copy(n4.children[:], n16.children[:]) (all 4) *)
    let n4keys := construct (nth 0 keys' 0) (nth 1 keys' 0) (nth 2 keys' 0) (nth 3 keys' 0) in
    let n4ch := gcopy 0 ch' (xch a) in
    (X4 (w_hdr h' (xh a)) n4keys n4ch, put (xclear (X16 h' keys' ch')) (snd g))
  else (X16 h' keys' ch', p).

(* node4.deleteChild without the collapse onto the last child (which rewrites the
   child's header and lives in the tree layer): when one child remains the Go
   code reads children[0], the prefix and lane 0 out of the node, links the
   child in its place, and only then clears and releases the node.  Here the
   returned node is the node4 as it is when it is read (one child left), and the
   returned pool already contains its cleared carcass. *)
Definition xdel4 (h : xhdr) (keys : N) (ch : list (option C)) (b : N)
                 (os : list choice) (p : pool) : xnode C * pool :=
  let i := searchNode4 keys b in
  let n' :=
    if (i =? -1)%Z then X4 h keys ch
    else
      (* shiftRightClear(&keys, i+1); copy(children[i:], children[i+1:]); childrenLen-- *)
      X4 (w_len (u8 (xlen h + 255)) h) (shiftRightClear keys (Z.to_N (i + 1)))
         (shift_left_onto (Z.to_nat i) ch) in
  if xlen (xh n') =? 1 then (n', put (xclear n') p) else (n', p).

Definition xdel (n : xnode C) (b : N) (os : list choice) (p : pool) : xnode C * pool :=
  match n with
  | X4 h keys ch => xdel4 h keys ch b os p
  | X16 h keys ch => xdel16 h keys ch b os p
  | X48 h idx ch => xdel48 h idx ch b os p
  | X256 h ch => xdel256 h ch b os p
  end.

(* trees.go, Insert: newNode := nodePools[nodeKind4].Get() (a node4);
   newNode.prefixLen = pl; copy(newNode.prefix[:], src)   (leaf split: src = keyS[depth:], possibly
   shorter than the array;  prefix split: src = node.prefix, the whole array).
   childrenLen, keys and children are NOT written. *)
Definition xnew4 (pl : nat) (src : list N) (os : list choice) (p : pool) : xnode C * pool :=
  let g := get (nxt os) K4 p in
  let a := fst g in
  (X4 (w_prefix (gcopy 0 src (xprefix (xh a))) (w_plen pl (xh a))) (xword a) (xch a), snd g).

(* ---- abstraction to Model/Node.v: occupied cells only ---- *)
Fixpoint somes (l : list (option C)) : list C :=
  match l with
  | [] => []
  | Some c :: l' => c :: somes l'
  | None :: l' => somes l'
  end.
Definition xabs_hdr (h : xhdr) : hdr := mkHdr (xplen h) (xprefix h).
Definition xabs (n : xnode C) : rnode C :=
  match n with
  | X4 h keys ch => N4 (xabs_hdr h) (xlen h) keys (somes (firstn (N.to_nat (xlen h)) ch))
  | X16 h keys ch => N16 (xabs_hdr h) (xlen h) keys (somes (firstn (N.to_nat (xlen h)) ch))
  | X48 h idx ch => N48 (xabs_hdr h) (xlen h) idx ch
  | X256 h ch => N256 (xabs_hdr h) (xlen h) ch
  end.

(* the occupied cells of a node4 / node16 hold non-nil references *)
Definition occupied_ok (n : xnode C) : bool :=
  match n with
  | X4 h _ ch | X16 h _ ch =>
      forallb (fun o => match o with Some _ => true | None => false end) (firstn (N.to_nat (xlen h)) ch)
  | _ => true
  end.

(* ---- many nodes over one pool ----
   Any number of nodes (of any number of trees), identified by a nat; every
   event names the node it works on and carries the answers of the pool for
   the Gets it performs; between operations the pool may drop released nodes. *)
Inductive xop :=
| OpAdd (b : N) (c : C)
| OpDel (b : N)
| OpNew (pl : nat) (src : list N).      (* the node is replaced by a newly acquired node4 *)
Inductive event :=
| EvOp (id : nat) (o : xop) (os : list choice)
| EvDrop (i : nat).

Definition apply_op (n : xnode C) (o : xop) (os : list choice) (p : pool) : xnode C * pool :=
  match o with
  | OpAdd b c => xadd n b c os p
  | OpDel b => xdel n b os p
  | OpNew pl src => xnew4 pl src os p
  end.

Definition upd (st : nat -> xnode C) (id : nat) (n : xnode C) : nat -> xnode C :=
  fun j => if Nat.eqb j id then n else st j.

Fixpoint run (evs : list event) (st : nat -> xnode C) (p : pool) : (nat -> xnode C) * pool :=
  match evs with
  | [] => (st, p)
  | EvOp id o os :: evs' =>
      let r := apply_op (st id) o os p in run evs' (upd st id (fst r)) (snd r)
  | EvDrop i :: evs' => run evs' st (drop i p)
  end.

(* the history of one node, alone: its own operations, a private pool that is
   empty at every operation, every Get answered by a new node *)
Fixpoint alone (id : nat) (evs : list event) (n : xnode C) : xnode C :=
  match evs with
  | [] => n
  | EvOp id' o _ :: evs' =>
      if Nat.eqb id' id then alone id evs' (fst (apply_op n o [] [])) else alone id evs' n
  | EvDrop _ :: evs' => alone id evs' n
  end.

End Pool.
