(* Hand-written vocabulary of the REGENERATED Gen/MutGen.v (go/cmd/srcfacts/translate_mut.go): Delete and
   Insert of the six trees (trees.go, collation.go), which MUTATE THROUGH POINTERS.  The translation is
   heap-passing: every Go object lives at an address of an explicit heap and every statement is executed
   in the order of the source.  This file is the TRUSTED reading of the Go memory; it contains no tree
   algorithm: only what one pointer read, one pointer write, one allocation and one method call on a node
   stand for.  Proofs/TranslateMutFacts.v ties the regenerated definitions to the hand-written model
   Model/PoolTree.v (xdo_delete, xdo_insert).

     Go                                   here
     an allocated object                  hobj, at an address (addr = nat) of the heap:
                                            HLeaf gk tk v   a leaf struct: getKey(), getTransformKey(), value
                                            HNode n         a node4 / node16 / node48 / node256 with EVERY
                                                            array cell (Model/Pool.xnode, children = addresses)
     nodeRef {pointer, tag}               href = option addr: None is the nil pointer; the TAG IS NOT STORED:
                                          it is the constructor of the object the pointer points to (h_tag).
                                          The Go code keeps the two in step at every nodeRef it builds (the
                                          translator checks the tag constant of every composite literal
                                          against the static type of the pointer); the only place where Go
                                          leaves a stale tag (children[i].pointer = nil in node48/node256
                                          deleteChild) nothing reads it.  The tag of a nil reference is a
                                          stuck read (None -> MPanic); Go reads the zero tag nodeKind4 there.
     unsafe.Pointer                       href again
     *nodeRef                             slot: SNil (the nil pointer), SRoot (&t.root), SCell a i
                                          (&nK.children[i] of the node at address a)
     *node4 .. *node256, *node            the address of an HNode (checked where the pointer is made)
     *alphaLeafNode[V] .. (heap)          the address of an HLeaf (checked where the pointer is made)
     t.root, t.size                       the variables root : href, size : Z of the translated method
     nodePools[k]                         hpool = Pool.pool at C := addr: released nodes are VALUES.
                                          Get takes a value out (the oracle decides which, Pool.get) and the
                                          translation places it at a NEW address (alloc); Put adds the value
                                          of the released node to the pool and removes nothing from the heap:
                                          the carcass stays at its address, unreachable.
   ALIASING ASSUMPTION (the one DESIGN.md names "use after release is outside the value model"):
   addChild / deleteChild of node.go replace a node that grows or shrinks by a node taken from the pool and
   redirect *ref to it.  Here the node-level methods are NOT translated again: a call loads the node value,
   applies the REGENERATED value-level function of Gen/NodeGen.v (g_addChild, g_node4_addChild,
   g_deleteChild, g_findChild, proved equal to Pool.xadd / PoolTree.xdel_child / PoolTree.xfind in
   Proofs/TranslateNodeFacts.v) and stores the resulting node AT THE SAME ADDRESS; *ref keeps pointing to it.
   In Go the result of a grow / shrink is another object and the old one goes, cleared, to the pool; nothing
   but *ref and the pointer variable the method was called through points to the old one.  The callers in
   Insert do keep that variable (newNode) and call newNode.addChild a second time: if the first call grew
   the node (possible only when the pool hands out a node4 with childrenLen = 4, i.e. a non-zero pool), Go
   would write into the released carcass while this translation writes into the grown node.  The theorems
   assume a zero pool (PoolFacts.zero_pool, an invariant of every history), under which a new node4 never
   grows in these calls.
   The number of pool answers one addChild / deleteChild consumes is NOT returned by the value-level
   translations; it is the hand-written counter PoolTree.xadd_gets / xdel_gets.

   Results: mres R.  MDone h root size os p r: the method returns r with the heap, t.root, t.size, the rest
   of the oracle and the pool as given; MPanic: the Go code panics (index out of range, nil dereference,
   panic(..)) or reads something this model has no value for (see "stuck" above, and a nil child passed to
   addChild); MFuel: the iteration budget of the loop (the parameter fuel; not trusted) is used up. *)
From GoArt Require Export Base.Bytes Model.GoArith Model.Pool Model.PoolTree Model.GoNode Model.GoTree
  Gen.NodeGen Gen.TreeGen.
Open Scope N_scope.

Definition addr : Set := nat.
Definition href : Set := option addr.
Inductive hobj : Type :=
| HLeaf (gk tk : list N) (v : Z)
| HNode (n : xnode addr).
(* the heap: what is allocated where, and the next unused address (addresses are never reused) *)
Record heap : Type := mkHeap { cells : addr -> option hobj; next : addr }.
Definition hpool : Type := @Pool.pool addr.
Definition heap0 : heap := mkHeap (fun _ => None) O.

(* *p for p the address of an object; None: nothing was ever allocated there *)
Definition load (h : heap) (a : addr) : option hobj := cells h a.
(* *p = o: the object at a is replaced, nothing else changes *)
Definition store (h : heap) (a : addr) (o : hobj) : heap :=
  mkHeap (fun x => if Nat.eqb x a then Some o else cells h x) (next h).
(* new(T) / &T{..}: the object is placed at the next unused address *)
Definition alloc (h : heap) (o : hobj) : addr * heap :=
  (next h, mkHeap (fun x => if Nat.eqb x (next h) then Some o else cells h x) (S (next h))).

Inductive mres (R : Type) : Type :=
| MDone (h : heap) (root : href) (size : Z) (os : list choice) (p : hpool) (r : R)
| MPanic
| MFuel.
Arguments MDone {R}. Arguments MPanic {R}. Arguments MFuel {R}.

(* ---- nodeRef values ---- *)
(* x.pointer == nil *)
Definition href_is_nil (r : href) : bool := match r with None => true | Some _ => false end.
(* x.tag: the kind of the object x points to *)
Definition h_tag (h : heap) (r : href) : option gkind :=
  match r with
  | None => None
  | Some a =>
    match load h a with
    | Some (HLeaf _ _ _) => Some KindLeaf
    | Some (HNode n) =>
        Some (match xkind n with K4 => Kind4 | K16 => Kind16 | K48 => Kind48 | K256 => Kind256 end)
    | None => None
    end
  end.

(* ---- *nodeRef ---- *)
Inductive slot : Set := SNil | SRoot | SCell (a : addr) (i : nat).
(* s == nil *)
Definition slot_is_nil (s : slot) : bool := match s with SNil => true | _ => false end.
(* *s (also the base of s.pointer, s.tag, s.node(), s.findChild(..)); None: nil dereference, or not a cell *)
Definition slot_read (h : heap) (root : href) (s : slot) : option href :=
  match s with
  | SNil => None
  | SRoot => Some root
  | SCell a i => match load h a with Some (HNode n) => nth_error (xch n) i | _ => None end
  end.
(* *s = v: t.root is rebound, a cell of a children array is overwritten in place *)
Definition slot_write (h : heap) (root : href) (s : slot) (v : href) : option (heap * href) :=
  match s with
  | SNil => None
  | SRoot => Some (h, v)
  | SCell a i =>
    match load h a with
    | Some (HNode n) =>
        if (i <? length (xch n))%nat then Some (store h a (HNode (s_children (set_at i v (xch n)) n)), root)
        else None
    | _ => None
    end
  end.

(* ---- leaves ---- *)
(* ( *alphaLeafNode[V])(p) .. ( *collateLeafNode[V])(p): checked (Go reinterprets memory) *)
Definition h_cast_leaf (h : heap) (p : href) : option addr :=
  match p with
  | Some a => match load h a with Some (HLeaf _ _ _) => Some a | _ => None end
  | None => None
  end.
(* l.getKey(), l.getTransformKey() *)
Definition h_leaf_gk (h : heap) (l : addr) : list N := match load h l with Some (HLeaf gk _ _) => gk | _ => [] end.
Definition h_leaf_tk (h : heap) (l : addr) : list N := match load h l with Some (HLeaf _ tk _) => tk | _ => [] end.
(* l.value = v *)
Definition h_set_leaf_value (h : heap) (l : addr) (v : Z) : heap :=
  match load h l with Some (HLeaf gk tk _) => store h l (HLeaf gk tk v) | _ => h end.
(* &leafStruct{key: unsafe.SliceData(k), len: uint32(len(k)), [colKey: unsafe.SliceData(c), colKeyLen:
   uint32(len(c)),] value: v}: the struct keeps the data pointers and the uint32 lengths; getKey() is
   unsafe.Slice(key, len): the first len bytes of k (all of k when len(k) < 2^32) *)
Definition h_mk_leaf (k : list N) (klen : N) (c : list N) (clen : N) (v : Z) : hobj :=
  HLeaf (firstn (N.to_nat klen) k) (firstn (N.to_nat clen) c) v.

(* ---- the embedded header of an inner node, through a *node or a *nodeK ---- *)
(* x.node() = ( *node)(x.pointer), also the check behind a *nodeK variable: the object is an inner node *)
Definition h_ref_node (h : heap) (r : href) : option addr :=
  match r with
  | Some a => match load h a with Some (HNode _) => Some a | _ => None end
  | None => None
  end.
(* *node as a value (the argument of checkPrefix) *)
Definition h_hdr (h : heap) (a : addr) : xhdr := match load h a with Some (HNode n) => xh n | _ => xhdr0 end.
(* node.prefixLen, node.prefix *)
Definition h_prefixLen (h : heap) (a : addr) : N := N.of_nat (xplen (h_hdr h a)).
Definition h_prefix (h : heap) (a : addr) : list N := xprefix (h_hdr h a).
(* node.prefixLen = v; node.prefix = v (array assignment; copy(node.prefix[:], src) is
   h_set_prefix h a (gcopy 0 src (h_prefix h a))): writes THROUGH the pointer, seen by every nodeRef to a *)
Definition h_set_prefixLen (h : heap) (a : addr) (v : N) : heap :=
  match load h a with Some (HNode n) => store h a (HNode (s_prefixLen v n)) | _ => h end.
Definition h_set_prefix (h : heap) (a : addr) (v : list N) : heap :=
  match load h a with Some (HNode n) => store h a (HNode (s_prefix v n)) | _ => h end.
(* a[lo:] on a []byte / byte array: panics unless 0 <= lo <= len(a) *)
Definition slice_from (a : list N) (lo : Z) : option (list N) :=
  if ((lo <? 0) || (Z.of_nat (length a) <? lo))%Z then None else Some (skipn (Z.to_nat lo) a).

(* ---- findChild: a POINTER to a cell ----
   Gen/NodeGen.g_findChild returns the CONTENT of the cell the Go code returns a pointer to (nil and a pointer
   to a nil cell both None).  It is polymorphic in the cell type: run on the node whose non-nil cells are
   relabelled with their own INDEX it returns the index of that cell, from the same regenerated text. *)
Definition label_cells {C} (l : list (option C)) : list (option nat) :=
  map (fun ic : nat * option C => match snd ic with Some _ => Some (fst ic) | None => None end)
      (combine (seq 0 (length l)) l).
Definition relabel {C} (n : xnode C) : xnode nat :=
  match n with
  | X4 h k ch => X4 h k (label_cells ch)
  | X16 h k ch => X16 h k (label_cells ch)
  | X48 h k ch => X48 h k (label_cells ch)
  | X256 h ch => X256 h (label_cells ch)
  end.
(* x.findChild(b) for a nodeRef x: Some SNil is the result nil; None: x is nil or a leaf (Go panics) *)
Definition h_findChild (h : heap) (x : href) (b : N) : option slot :=
  match x with
  | None => None
  | Some a =>
    match load h a with
    | Some (HNode n) => Some (match g_findChild (relabel n) b with Some i => SCell a i | None => SNil end)
    | _ => None
    end
  end.

(* ---- addChild ---- *)
(* ref.addChild(b, child), ref a *nodeRef: the dispatcher g_addChild on the node *ref points to, stored back
   at the same address (see ALIASING ASSUMPTION).  child must not be nil (Gen/NodeGen.v: a child is a C). *)
Definition h_addChild (h : heap) (root : href) (ref : slot) (b : N) (child : href)
                      (os : list choice) (p : hpool) : option (heap * list choice * hpool) :=
  match slot_read h root ref, child with
  | Some (Some a), Some c =>
    match load h a with
    | Some (HNode n) =>
        let '(n', p') := g_addChild n b c os p in
        Some (store h a (HNode n'), skipn (xadd_gets n) os, p')
    | _ => None
    end
  | _, _ => None
  end.
(* n4.addChild(ref, b, child), n4 a *node4: Gen/NodeGen.v translated node4.addChild under the convention that
   ref points to the receiver (checked here) *)
Definition h_node4_addChild (h : heap) (root : href) (n4 : addr) (ref : slot) (b : N) (child : href)
                            (os : list choice) (p : hpool) : option (heap * list choice * hpool) :=
  match slot_read h root ref, child with
  | Some (Some a), Some c =>
    if Nat.eqb a n4 then
      match load h n4 with
      | Some (HNode n) =>
        match xkind n with
        | K4 => let '(n', p') := g_node4_addChild n b c os p in
                Some (store h n4 (HNode n'), skipn (xadd_gets n) os, p')
        | _ => None
        end
      | _ => None
      end
    else None
  | _, _ => None
  end.

(* ---- deleteChild ----
   g_deleteChild is parametric in what a child is (inner / is_leaf / hdr_of / with_hdr).  Here a child cell is
   CRef a (the reference as it is in the array), CHdr a hd (the same reference after "childNode.prefix = ..;
   childNode.prefixLen = .." wrote the header hd through child.node(): the write is carried out on the heap
   when the result is linked), CNode n (nodeRef{pointer: n, tag: kind of n}, the node the method ends with). *)
Inductive hcell : Type := CRef (a : addr) | CHdr (a : addr) (hd : xhdr) | CNode (n : xnode addr).
Definition cell_addr (c : hcell) : addr := match c with CRef a | CHdr a _ => a | CNode _ => O end.
Definition hc_inner (n : xnode hcell) : hcell := CNode (xmap cell_addr n).
(* child.tag == nodeKindLeaf *)
Definition hc_is_leaf (h : heap) (c : hcell) : bool :=
  match c with
  | CRef a => match load h a with Some (HLeaf _ _ _) => true | _ => false end
  | _ => false
  end.
(* *child.node() *)
Definition hc_hdr_of (h : heap) (c : hcell) : xhdr :=
  match c with CRef a => h_hdr h a | CHdr _ hd => hd | CNode n => xh n end.
(* *child.node() = hd *)
Definition hc_with_hdr (c : hcell) (hd : xhdr) : hcell :=
  match c with CRef a | CHdr a _ => CHdr a hd | CNode n => CNode (s_node hd n) end.

(* ref.deleteChild(b), ref a *nodeRef: the dispatcher g_deleteChild on the node *ref points to.  Its result is
   the final *ref: the node itself (stored back at the same address, *ref unchanged) or, after node4's
   collapse, the last child (its header rewritten in place when it is an inner node; *ref = child; the
   cleared node4 is in the pool and its carcass stays in the heap) *)
Definition h_deleteChild (h : heap) (root : href) (ref : slot) (b : N)
                         (os : list choice) (p : hpool) : option (heap * href * list choice * hpool) :=
  match slot_read h root ref with
  | Some (Some a) =>
    match load h a with
    | Some (HNode n) =>
      let '(r, p') := g_deleteChild hc_inner (hc_is_leaf h) (hc_hdr_of h) hc_with_hdr
                                    (xmap CRef n) b os (map (xmap CRef) p) in
      let os' := skipn (xdel_gets n) os in
      let p'' := map (xmap cell_addr) p' in
      match r with
      | Some (CNode n') => Some (store h a (HNode n'), root, os', p'')
      | Some (CRef c) =>
        match slot_write h root ref (Some c) with
        | Some (h', root') => Some (h', root', os', p'')
        | None => None
        end
      | Some (CHdr c hd) =>
        match load h c with
        | Some (HNode cn) =>
          match slot_write (store h c (HNode (s_node hd cn))) root ref (Some c) with
          | Some (h', root') => Some (h', root', os', p'')
          | None => None
          end
        | _ => None
        end
      | None => None
      end
    | _ => None
    end
  | _ => None
  end.

(* ---- the read-only helpers of tree.go that walk the tree (prefixMismatch, minimum) ----
   They are NOT translated again: the regenerated g_prefixMismatch / g_minimum of Gen/TreeGen.v run on the raw
   tree the heap holds below a reference (reify: every cell of every node followed, stale ones included; a
   dangling address or an exhausted budget reads as an empty leaf).  The budget is next h: a path of the tree
   visits pairwise different addresses, all below next h.  The leaf minimum returns is a VALUE
   (gref of Model/GoTree.v); the callers only read its transform key. *)
Fixpoint reify (fuel : nat) (h : heap) (a : addr) : xtree :=
  match fuel with
  | O => XLeaf [] [] 0%Z
  | S f =>
    match load h a with
    | Some (HLeaf gk tk v) => XLeaf gk tk v
    | Some (HNode n) => XInner (xmap (reify f h) n)
    | None => XLeaf [] [] 0%Z
    end
  end.
Definition h_reify (h : heap) (r : href) : gref :=
  match r with Some a => Some (reify (next h) h a) | None => None end.
(* prefixMismatch[V, L](n, key, depth), minimum[V](n) *)
Definition h_prefixMismatch (h : heap) (n : href) (key : list N) (depth : Z) : gres Z :=
  g_prefixMismatch (next h) (h_reify h n) key depth.
Definition h_minimum (h : heap) (n : href) : gres gref := g_minimum (next h) (h_reify h n).

(* the pool of the model (Model/PoolTree.xpool: released nodes with children of type xtree) as a pool of heap
   node values; released nodes are cleared, a cleared node has no child *)
Definition map_pool (p : xpool) : hpool := map (xmap (fun _ : xtree => O)) p.
