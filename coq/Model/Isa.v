(* Executable semantics of exactly the instructions node16_amd64.s and
   node16_arm64.s use, over the regenerated syntax of Gen/AsmAmd64.v and
   Gen/AsmArm64.v (Go assembler operand order: sources first, destination last).

   Modelling choices (checked against `go tool objdump` of the built code):
   * A machine state is a FLAT record. General registers hold 64-bit values as N
     (nothing assumes an initial content is < 2^64: every read that matters
     truncates). X/V registers are lists of sixteen byte lanes, lane 0 = least
     significant byte. The frame holds the three arguments and the result slot;
     the only memory is the 16-byte block at address mem_base, and a 16-byte load
     through a register that does not hold mem_base is an error (the error is
     recorded in err and the load is performed anyway, so that no conditional on
     a symbolic address ever encloses the whole state). The pointer argument is
     an opaque address (it is copied, compared with mem_base, never computed on).
   * Partial register writes are modelled as the hardware does them:
     amd64 MOVB (load or immediate) replaces the low byte and KEEPS bits 8..63;
     the 16-bit forms SALW/SUBW/ANDW/TZCNTW replace the low word and KEEP bits
     16..63; PMOVMSKB and MOVQ/MOVD write all 64 bits (PMOVMSKB zero-extends);
     MOVQ/MOVD reg -> X writes lanes 0..7 and ZEROES lanes 8..15 (Go's MOVD
     between a general register and an X register is the 64-bit MOVQ: objdump).
     arm64 MOVB from memory is LDRSB (sign-extends to 64 bits); FMOVD F0 -> R
     reads lanes 0..7; SHRN writes lanes 0..7 and zeroes lanes 8..15.
   * ZF is written by every modelled instruction that writes it on the hardware
     (SALW with non-zero count, SUBW, ANDW, CMPW, TZCNTW), not only by CMPW.
   * Anything outside the subset (IUnknown, an operand shape the subset does not
     have, CUnknown) sets the sticky flag err; result of an error state is -2,
     which no specification value equals. *)
From GoArt Require Export Base.Bytes Model.Node4 Model.Node16.
From GoArt Require Gen.AsmAmd64 Gen.AsmArm64.
Open Scope N_scope.

(* ------------------------------------------------------------------ *)
(* words, partial registers, byte lanes (shared by both machines) *)
(* ------------------------------------------------------------------ *)
(* truncation to 64 bits is written with land (= mod 2^64, N.land_ones / Z.land_ones): the
   exhaustive sweeps of Proofs/IsaFacts.v run these definitions 65,536 times *)
Definition W64 : N := 0x10000000000000000.
Definition u64 (x : N) : N := N.land x 0xFFFFFFFFFFFFFFFF.
Definition of_imm (z : Z) : N := Z.to_N (Z.land z 0xFFFFFFFFFFFFFFFF).   (* immediate as a 64-bit two's complement pattern *)
Definition signed64 (x : N) : Z :=
  let r := u64 x in if r <? 0x8000000000000000 then Z.of_N r else (Z.of_N r - 0x10000000000000000)%Z.

Definition low8 (x : N) : N := x mod 256.
Definition low16 (x : N) : N := x mod 65536.
Definition setlow8 (old v : N) : N := (old / 256) * 256 + v mod 256.
Definition setlow16 (old v : N) : N := (old / 65536) * 65536 + v mod 65536.

Definition byte_at (x : N) (i : N) : N := (N.shiftr x (8 * i)) mod 256.
Definition bytes8 (x : N) : list N :=
  [byte_at x 0; byte_at x 1; byte_at x 2; byte_at x 3; byte_at x 4; byte_at x 5; byte_at x 6; byte_at x 7].
Definition zeros8 : list N := [0; 0; 0; 0; 0; 0; 0; 0].
Fixpoint le_word (l : list N) : N :=          (* little-endian value of a byte list *)
  match l with [] => 0 | b :: l' => b mod 256 + 256 * le_word l' end.

Fixpoint map2 (f : N -> N -> N) (a b : list N) : list N :=
  match a, b with
  | x :: a', y :: b' => f x y :: map2 f a' b'
  | _, _ => []
  end.

Definition cmpeq_lane (a b : N) : N := if a =? b then 255 else 0.
Definition sbyte (x : N) : Z := if x <? 128 then Z.of_N x else (Z.of_N x - 256)%Z.
Definition cmpgt_lane (a b : N) : N := if (sbyte b <? sbyte a)%Z then 255 else 0.   (* a > b, SIGNED bytes *)
Definition cmphi_lane (a b : N) : N := if b <? a then 255 else 0.                   (* a > b, unsigned *)
(* PSHUFB, one destination lane: mask byte m selects lane (m mod 16) of the OLD destination, or 0 if bit 7 of m is set *)
Definition shuf_lane (dst : list N) (m : N) : N :=
  if N.testbit m 7 then 0 else nth (N.to_nat (m mod 16)) dst 0.
(* PMOVMSKB: bit i = bit 7 of lane i *)
Definition movemask (l : list N) : N := bitfield (fun x => N.testbit x 7) l 0.

Definition shl16 (x c : N) : N := (N.shiftl x c) mod 65536.
Definition sub16 (x y : N) : N := (x + 65536 - y mod 65536) mod 65536.
Definition tzcnt16 (x : N) : N := if x =? 0 then 16 else tz x.

(* ================================================================== *)
Module X86.
Import GoArt.Gen.AsmAmd64.

Record state := mkState {
  rax : N; rbx : N; rcx : N; rdx : N; rsi : N; rdi : N; r8 : N; r9 : N;
  r10 : N; r11 : N; r12 : N; r13 : N; r14 : N; r15 : N;
  x0 : list N; x1 : list N; x2 : list N; x3 : list N;
  zf : bool;
  arg_keys : N; arg_len : N; arg_b : N;      (* keys+0(FP) (a pointer), childrenLen+8(FP), b+9(FP) *)
  mem_base : N; mem : list N;                (* the sixteen bytes at address mem_base *)
  ret : N;                                   (* ret+16(FP) *)
  err : bool }.

Definition set_rax (v : N) (s : state) : state :=
  mkState v (rbx s) (rcx s) (rdx s) (rsi s) (rdi s) (r8 s) (r9 s) (r10 s) (r11 s) (r12 s) (r13 s) (r14 s) (r15 s) (x0 s) (x1 s) (x2 s) (x3 s) (zf s) (arg_keys s) (arg_len s) (arg_b s) (mem_base s) (mem s) (ret s) (err s).
Definition set_rbx (v : N) (s : state) : state :=
  mkState (rax s) v (rcx s) (rdx s) (rsi s) (rdi s) (r8 s) (r9 s) (r10 s) (r11 s) (r12 s) (r13 s) (r14 s) (r15 s) (x0 s) (x1 s) (x2 s) (x3 s) (zf s) (arg_keys s) (arg_len s) (arg_b s) (mem_base s) (mem s) (ret s) (err s).
Definition set_rcx (v : N) (s : state) : state :=
  mkState (rax s) (rbx s) v (rdx s) (rsi s) (rdi s) (r8 s) (r9 s) (r10 s) (r11 s) (r12 s) (r13 s) (r14 s) (r15 s) (x0 s) (x1 s) (x2 s) (x3 s) (zf s) (arg_keys s) (arg_len s) (arg_b s) (mem_base s) (mem s) (ret s) (err s).
Definition set_rdx (v : N) (s : state) : state :=
  mkState (rax s) (rbx s) (rcx s) v (rsi s) (rdi s) (r8 s) (r9 s) (r10 s) (r11 s) (r12 s) (r13 s) (r14 s) (r15 s) (x0 s) (x1 s) (x2 s) (x3 s) (zf s) (arg_keys s) (arg_len s) (arg_b s) (mem_base s) (mem s) (ret s) (err s).
Definition set_rsi (v : N) (s : state) : state :=
  mkState (rax s) (rbx s) (rcx s) (rdx s) v (rdi s) (r8 s) (r9 s) (r10 s) (r11 s) (r12 s) (r13 s) (r14 s) (r15 s) (x0 s) (x1 s) (x2 s) (x3 s) (zf s) (arg_keys s) (arg_len s) (arg_b s) (mem_base s) (mem s) (ret s) (err s).
Definition set_rdi (v : N) (s : state) : state :=
  mkState (rax s) (rbx s) (rcx s) (rdx s) (rsi s) v (r8 s) (r9 s) (r10 s) (r11 s) (r12 s) (r13 s) (r14 s) (r15 s) (x0 s) (x1 s) (x2 s) (x3 s) (zf s) (arg_keys s) (arg_len s) (arg_b s) (mem_base s) (mem s) (ret s) (err s).
Definition set_r8 (v : N) (s : state) : state :=
  mkState (rax s) (rbx s) (rcx s) (rdx s) (rsi s) (rdi s) v (r9 s) (r10 s) (r11 s) (r12 s) (r13 s) (r14 s) (r15 s) (x0 s) (x1 s) (x2 s) (x3 s) (zf s) (arg_keys s) (arg_len s) (arg_b s) (mem_base s) (mem s) (ret s) (err s).
Definition set_r9 (v : N) (s : state) : state :=
  mkState (rax s) (rbx s) (rcx s) (rdx s) (rsi s) (rdi s) (r8 s) v (r10 s) (r11 s) (r12 s) (r13 s) (r14 s) (r15 s) (x0 s) (x1 s) (x2 s) (x3 s) (zf s) (arg_keys s) (arg_len s) (arg_b s) (mem_base s) (mem s) (ret s) (err s).
Definition set_r10 (v : N) (s : state) : state :=
  mkState (rax s) (rbx s) (rcx s) (rdx s) (rsi s) (rdi s) (r8 s) (r9 s) v (r11 s) (r12 s) (r13 s) (r14 s) (r15 s) (x0 s) (x1 s) (x2 s) (x3 s) (zf s) (arg_keys s) (arg_len s) (arg_b s) (mem_base s) (mem s) (ret s) (err s).
Definition set_r11 (v : N) (s : state) : state :=
  mkState (rax s) (rbx s) (rcx s) (rdx s) (rsi s) (rdi s) (r8 s) (r9 s) (r10 s) v (r12 s) (r13 s) (r14 s) (r15 s) (x0 s) (x1 s) (x2 s) (x3 s) (zf s) (arg_keys s) (arg_len s) (arg_b s) (mem_base s) (mem s) (ret s) (err s).
Definition set_r12 (v : N) (s : state) : state :=
  mkState (rax s) (rbx s) (rcx s) (rdx s) (rsi s) (rdi s) (r8 s) (r9 s) (r10 s) (r11 s) v (r13 s) (r14 s) (r15 s) (x0 s) (x1 s) (x2 s) (x3 s) (zf s) (arg_keys s) (arg_len s) (arg_b s) (mem_base s) (mem s) (ret s) (err s).
Definition set_r13 (v : N) (s : state) : state :=
  mkState (rax s) (rbx s) (rcx s) (rdx s) (rsi s) (rdi s) (r8 s) (r9 s) (r10 s) (r11 s) (r12 s) v (r14 s) (r15 s) (x0 s) (x1 s) (x2 s) (x3 s) (zf s) (arg_keys s) (arg_len s) (arg_b s) (mem_base s) (mem s) (ret s) (err s).
Definition set_r14 (v : N) (s : state) : state :=
  mkState (rax s) (rbx s) (rcx s) (rdx s) (rsi s) (rdi s) (r8 s) (r9 s) (r10 s) (r11 s) (r12 s) (r13 s) v (r15 s) (x0 s) (x1 s) (x2 s) (x3 s) (zf s) (arg_keys s) (arg_len s) (arg_b s) (mem_base s) (mem s) (ret s) (err s).
Definition set_r15 (v : N) (s : state) : state :=
  mkState (rax s) (rbx s) (rcx s) (rdx s) (rsi s) (rdi s) (r8 s) (r9 s) (r10 s) (r11 s) (r12 s) (r13 s) (r14 s) v (x0 s) (x1 s) (x2 s) (x3 s) (zf s) (arg_keys s) (arg_len s) (arg_b s) (mem_base s) (mem s) (ret s) (err s).
Definition set_x0 (v : list N) (s : state) : state :=
  mkState (rax s) (rbx s) (rcx s) (rdx s) (rsi s) (rdi s) (r8 s) (r9 s) (r10 s) (r11 s) (r12 s) (r13 s) (r14 s) (r15 s) v (x1 s) (x2 s) (x3 s) (zf s) (arg_keys s) (arg_len s) (arg_b s) (mem_base s) (mem s) (ret s) (err s).
Definition set_x1 (v : list N) (s : state) : state :=
  mkState (rax s) (rbx s) (rcx s) (rdx s) (rsi s) (rdi s) (r8 s) (r9 s) (r10 s) (r11 s) (r12 s) (r13 s) (r14 s) (r15 s) (x0 s) v (x2 s) (x3 s) (zf s) (arg_keys s) (arg_len s) (arg_b s) (mem_base s) (mem s) (ret s) (err s).
Definition set_x2 (v : list N) (s : state) : state :=
  mkState (rax s) (rbx s) (rcx s) (rdx s) (rsi s) (rdi s) (r8 s) (r9 s) (r10 s) (r11 s) (r12 s) (r13 s) (r14 s) (r15 s) (x0 s) (x1 s) v (x3 s) (zf s) (arg_keys s) (arg_len s) (arg_b s) (mem_base s) (mem s) (ret s) (err s).
Definition set_x3 (v : list N) (s : state) : state :=
  mkState (rax s) (rbx s) (rcx s) (rdx s) (rsi s) (rdi s) (r8 s) (r9 s) (r10 s) (r11 s) (r12 s) (r13 s) (r14 s) (r15 s) (x0 s) (x1 s) (x2 s) v (zf s) (arg_keys s) (arg_len s) (arg_b s) (mem_base s) (mem s) (ret s) (err s).
Definition set_zf (v : bool) (s : state) : state :=
  mkState (rax s) (rbx s) (rcx s) (rdx s) (rsi s) (rdi s) (r8 s) (r9 s) (r10 s) (r11 s) (r12 s) (r13 s) (r14 s) (r15 s) (x0 s) (x1 s) (x2 s) (x3 s) v (arg_keys s) (arg_len s) (arg_b s) (mem_base s) (mem s) (ret s) (err s).
Definition set_arg_keys (v : N) (s : state) : state :=
  mkState (rax s) (rbx s) (rcx s) (rdx s) (rsi s) (rdi s) (r8 s) (r9 s) (r10 s) (r11 s) (r12 s) (r13 s) (r14 s) (r15 s) (x0 s) (x1 s) (x2 s) (x3 s) (zf s) v (arg_len s) (arg_b s) (mem_base s) (mem s) (ret s) (err s).
Definition set_arg_len (v : N) (s : state) : state :=
  mkState (rax s) (rbx s) (rcx s) (rdx s) (rsi s) (rdi s) (r8 s) (r9 s) (r10 s) (r11 s) (r12 s) (r13 s) (r14 s) (r15 s) (x0 s) (x1 s) (x2 s) (x3 s) (zf s) (arg_keys s) v (arg_b s) (mem_base s) (mem s) (ret s) (err s).
Definition set_arg_b (v : N) (s : state) : state :=
  mkState (rax s) (rbx s) (rcx s) (rdx s) (rsi s) (rdi s) (r8 s) (r9 s) (r10 s) (r11 s) (r12 s) (r13 s) (r14 s) (r15 s) (x0 s) (x1 s) (x2 s) (x3 s) (zf s) (arg_keys s) (arg_len s) v (mem_base s) (mem s) (ret s) (err s).
Definition set_mem_base (v : N) (s : state) : state :=
  mkState (rax s) (rbx s) (rcx s) (rdx s) (rsi s) (rdi s) (r8 s) (r9 s) (r10 s) (r11 s) (r12 s) (r13 s) (r14 s) (r15 s) (x0 s) (x1 s) (x2 s) (x3 s) (zf s) (arg_keys s) (arg_len s) (arg_b s) v (mem s) (ret s) (err s).
Definition set_mem (v : list N) (s : state) : state :=
  mkState (rax s) (rbx s) (rcx s) (rdx s) (rsi s) (rdi s) (r8 s) (r9 s) (r10 s) (r11 s) (r12 s) (r13 s) (r14 s) (r15 s) (x0 s) (x1 s) (x2 s) (x3 s) (zf s) (arg_keys s) (arg_len s) (arg_b s) (mem_base s) v (ret s) (err s).
Definition set_ret (v : N) (s : state) : state :=
  mkState (rax s) (rbx s) (rcx s) (rdx s) (rsi s) (rdi s) (r8 s) (r9 s) (r10 s) (r11 s) (r12 s) (r13 s) (r14 s) (r15 s) (x0 s) (x1 s) (x2 s) (x3 s) (zf s) (arg_keys s) (arg_len s) (arg_b s) (mem_base s) (mem s) v (err s).
Definition set_err (v : bool) (s : state) : state :=
  mkState (rax s) (rbx s) (rcx s) (rdx s) (rsi s) (rdi s) (r8 s) (r9 s) (r10 s) (r11 s) (r12 s) (r13 s) (r14 s) (r15 s) (x0 s) (x1 s) (x2 s) (x3 s) (zf s) (arg_keys s) (arg_len s) (arg_b s) (mem_base s) (mem s) (ret s) v.

Definition fail (s : state) : state := set_err true s.

Definition get (r : reg) (s : state) : N :=
  match r with
  | AX => rax s | BX => rbx s | CX => rcx s | DX => rdx s | SI => rsi s | DI => rdi s
  | R8 => r8 s | R9 => r9 s | R10 => r10 s | R11 => r11 s | R12 => r12 s | R13 => r13 s
  | R14 => r14 s | R15 => r15 s
  end.
Definition set (r : reg) (v : N) (s : state) : state :=
  match r with
  | AX => set_rax v s | BX => set_rbx v s | CX => set_rcx v s | DX => set_rdx v s
  | SI => set_rsi v s | DI => set_rdi v s
  | R8 => set_r8 v s | R9 => set_r9 v s | R10 => set_r10 v s | R11 => set_r11 v s
  | R12 => set_r12 v s | R13 => set_r13 v s | R14 => set_r14 v s | R15 => set_r15 v s
  end.
Definition getx (x : xreg) (s : state) : list N :=
  match x with X0 => x0 s | X1 => x1 s | X2 => x2 s | X3 => x3 s end.
Definition setx (x : xreg) (v : list N) (s : state) : state :=
  match x with X0 => set_x0 v s | X1 => set_x1 v s | X2 => set_x2 v s | X3 => set_x3 v s end.

(* frame accesses: only the widths the declaration gives the slots *)
Definition load64 (sl : slot) (s : state) : option N :=
  match sl with FP_keys_0 => Some (arg_keys s) | FP_ret_16 => Some (u64 (ret s)) | _ => None end.
Definition load8 (sl : slot) (s : state) : option N :=
  match sl with FP_childrenLen_8 => Some (low8 (arg_len s)) | FP_b_9 => Some (low8 (arg_b s)) | _ => None end.

(* the 16-bit read-modify-write forms: new low word, ZF := (new low word = 0) *)
Definition upd16 (d : reg) (v : N) (s : state) : state :=
  set_zf (low16 v =? 0) (set d (setlow16 (get d s) v) s).

Definition mov64 (ops : list operand) (s : state) : state :=      (* MOVQ and Go's MOVD *)
  match ops with
  | [Slot sl; Reg d] => match load64 sl s with Some v => set d v s | None => fail s end
  | [Imm z; Reg d] => set d (of_imm z) s
  | [Reg r; Reg d] => set d (u64 (get r s)) s
  | [Reg r; Xreg x] => setx x (bytes8 (get r s) ++ zeros8) s
  | [Reg r; Slot FP_ret_16] => set_ret (u64 (get r s)) s
  | _ => fail s
  end.

Definition step (i : instr) (s : state) : state :=
  match i with
  | IUnknown _ => fail s
  | Ins m ops =>
    match m with
    | MOVQ | MOVD => mov64 ops s
    | MOVB =>
      match ops with
      | [Slot sl; Reg d] => match load8 sl s with Some v => set d (setlow8 (get d s) v) s | None => fail s end
      | [Imm z; Reg d] => set d (setlow8 (get d s) (of_imm z)) s
      | _ => fail s
      end
    | PXOR => match ops with [Xreg a; Xreg d] => setx d (map2 N.lxor (getx d s) (getx a s)) s | _ => fail s end
    | VMOVDQU =>
      match ops with
      | [Mem r; Xreg d] => set_err (err s || negb (get r s =? mem_base s)) (setx d (mem s) s)
      | _ => fail s
      end
    | PSHUFB => match ops with [Xreg a; Xreg d] => setx d (map (shuf_lane (getx d s)) (getx a s)) s | _ => fail s end
    | PCMPEQB => match ops with [Xreg a; Xreg d] => setx d (map2 cmpeq_lane (getx d s) (getx a s)) s | _ => fail s end
    | PCMPGTB => match ops with [Xreg a; Xreg d] => setx d (map2 cmpgt_lane (getx d s) (getx a s)) s | _ => fail s end
    | PMOVMSKB => match ops with [Xreg a; Reg d] => set d (movemask (getx a s)) s | _ => fail s end
    | SALW =>                                (* count in CL, masked to 5 bits; count 0 leaves the flags *)
      match ops with
      | [Reg CX; Reg d] =>
        let c := N.land (low8 (rcx s)) 31 in
        let v := shl16 (low16 (get d s)) c in
        set_zf (if c =? 0 then zf s else (v =? 0)) (set d (setlow16 (get d s) v) s)
      | _ => fail s
      end
    | SUBW => match ops with [Imm z; Reg d] => upd16 d (sub16 (low16 (get d s)) (of_imm z)) s | _ => fail s end
    | ANDW => match ops with [Reg a; Reg d] => upd16 d (N.land (low16 (get d s)) (low16 (get a s))) s | _ => fail s end
    | CMPW => match ops with [Reg a; Imm z] => set_zf (low16 (get a s) =? low16 (of_imm z)) s | _ => fail s end
    | TZCNTW => match ops with [Reg a; Reg d] => upd16 d (tzcnt16 (low16 (get a s))) s | _ => fail s end
    | RET => match ops with [] => s | _ => fail s end
    end
  end.

Definition exec (l : list instr) (s : state) : state := fold_left (fun s i => step i s) l s.

Definition run (p : prog) (s : state) : state :=
  let s1 := exec (pre p) s in
  match jcc p with
  | CJEQ => if zf s1 then exec (taken p) s1 else exec (fall p) s1
  | CJNE => if zf s1 then exec (fall p) s1 else exec (taken p) s1
  | CUnknown _ => fail s1
  end.

Definition result (s : state) : Z := if err s then (-2)%Z else signed64 (ret s).

(* the frame and the memory block hold the arguments; every X register has sixteen
   lanes; everything else (register contents, flag, old result slot) is arbitrary *)
Definition loaded (s : state) (keys : list N) (len b : N) : Prop :=
  arg_keys s = mem_base s /\ mem s = keys /\ arg_len s = len /\ arg_b s = b /\
  err s = false /\
  length (x0 s) = 16%nat /\ length (x1 s) = 16%nat /\ length (x2 s) = 16%nat /\ length (x3 s) = 16%nat.

(* a canonical initial state for closed examples: all registers zero *)
Definition init (keys : list N) (len b : N) : state :=
  let z := repeat 0 16 in
  mkState 0 0 0 0 0 0 0 0 0 0 0 0 0 0 z z z z false 0x1000 len b 0x1000 keys 0 false.
End X86.

(* ================================================================== *)
Module Arm.
Import GoArt.Gen.AsmArm64.

Record state := mkState {
  r0 : N; r1 : N; r2 : N; r3 : N; r4 : N; r5 : N; r6 : N; r7 : N;
  v0 : list N; v1 : list N; v2 : list N; v3 : list N;
  arg_keys : N; arg_len : N; arg_b : N;
  mem_base : N; mem : list N;
  ret : N;
  err : bool }.

Definition set_r0 (v : N) (s : state) : state :=
  mkState v (r1 s) (r2 s) (r3 s) (r4 s) (r5 s) (r6 s) (r7 s) (v0 s) (v1 s) (v2 s) (v3 s) (arg_keys s) (arg_len s) (arg_b s) (mem_base s) (mem s) (ret s) (err s).
Definition set_r1 (v : N) (s : state) : state :=
  mkState (r0 s) v (r2 s) (r3 s) (r4 s) (r5 s) (r6 s) (r7 s) (v0 s) (v1 s) (v2 s) (v3 s) (arg_keys s) (arg_len s) (arg_b s) (mem_base s) (mem s) (ret s) (err s).
Definition set_r2 (v : N) (s : state) : state :=
  mkState (r0 s) (r1 s) v (r3 s) (r4 s) (r5 s) (r6 s) (r7 s) (v0 s) (v1 s) (v2 s) (v3 s) (arg_keys s) (arg_len s) (arg_b s) (mem_base s) (mem s) (ret s) (err s).
Definition set_r3 (v : N) (s : state) : state :=
  mkState (r0 s) (r1 s) (r2 s) v (r4 s) (r5 s) (r6 s) (r7 s) (v0 s) (v1 s) (v2 s) (v3 s) (arg_keys s) (arg_len s) (arg_b s) (mem_base s) (mem s) (ret s) (err s).
Definition set_r4 (v : N) (s : state) : state :=
  mkState (r0 s) (r1 s) (r2 s) (r3 s) v (r5 s) (r6 s) (r7 s) (v0 s) (v1 s) (v2 s) (v3 s) (arg_keys s) (arg_len s) (arg_b s) (mem_base s) (mem s) (ret s) (err s).
Definition set_r5 (v : N) (s : state) : state :=
  mkState (r0 s) (r1 s) (r2 s) (r3 s) (r4 s) v (r6 s) (r7 s) (v0 s) (v1 s) (v2 s) (v3 s) (arg_keys s) (arg_len s) (arg_b s) (mem_base s) (mem s) (ret s) (err s).
Definition set_r6 (v : N) (s : state) : state :=
  mkState (r0 s) (r1 s) (r2 s) (r3 s) (r4 s) (r5 s) v (r7 s) (v0 s) (v1 s) (v2 s) (v3 s) (arg_keys s) (arg_len s) (arg_b s) (mem_base s) (mem s) (ret s) (err s).
Definition set_r7 (v : N) (s : state) : state :=
  mkState (r0 s) (r1 s) (r2 s) (r3 s) (r4 s) (r5 s) (r6 s) v (v0 s) (v1 s) (v2 s) (v3 s) (arg_keys s) (arg_len s) (arg_b s) (mem_base s) (mem s) (ret s) (err s).
Definition set_v0 (v : list N) (s : state) : state :=
  mkState (r0 s) (r1 s) (r2 s) (r3 s) (r4 s) (r5 s) (r6 s) (r7 s) v (v1 s) (v2 s) (v3 s) (arg_keys s) (arg_len s) (arg_b s) (mem_base s) (mem s) (ret s) (err s).
Definition set_v1 (v : list N) (s : state) : state :=
  mkState (r0 s) (r1 s) (r2 s) (r3 s) (r4 s) (r5 s) (r6 s) (r7 s) (v0 s) v (v2 s) (v3 s) (arg_keys s) (arg_len s) (arg_b s) (mem_base s) (mem s) (ret s) (err s).
Definition set_v2 (v : list N) (s : state) : state :=
  mkState (r0 s) (r1 s) (r2 s) (r3 s) (r4 s) (r5 s) (r6 s) (r7 s) (v0 s) (v1 s) v (v3 s) (arg_keys s) (arg_len s) (arg_b s) (mem_base s) (mem s) (ret s) (err s).
Definition set_v3 (v : list N) (s : state) : state :=
  mkState (r0 s) (r1 s) (r2 s) (r3 s) (r4 s) (r5 s) (r6 s) (r7 s) (v0 s) (v1 s) (v2 s) v (arg_keys s) (arg_len s) (arg_b s) (mem_base s) (mem s) (ret s) (err s).
Definition set_arg_keys (v : N) (s : state) : state :=
  mkState (r0 s) (r1 s) (r2 s) (r3 s) (r4 s) (r5 s) (r6 s) (r7 s) (v0 s) (v1 s) (v2 s) (v3 s) v (arg_len s) (arg_b s) (mem_base s) (mem s) (ret s) (err s).
Definition set_arg_len (v : N) (s : state) : state :=
  mkState (r0 s) (r1 s) (r2 s) (r3 s) (r4 s) (r5 s) (r6 s) (r7 s) (v0 s) (v1 s) (v2 s) (v3 s) (arg_keys s) v (arg_b s) (mem_base s) (mem s) (ret s) (err s).
Definition set_arg_b (v : N) (s : state) : state :=
  mkState (r0 s) (r1 s) (r2 s) (r3 s) (r4 s) (r5 s) (r6 s) (r7 s) (v0 s) (v1 s) (v2 s) (v3 s) (arg_keys s) (arg_len s) v (mem_base s) (mem s) (ret s) (err s).
Definition set_mem_base (v : N) (s : state) : state :=
  mkState (r0 s) (r1 s) (r2 s) (r3 s) (r4 s) (r5 s) (r6 s) (r7 s) (v0 s) (v1 s) (v2 s) (v3 s) (arg_keys s) (arg_len s) (arg_b s) v (mem s) (ret s) (err s).
Definition set_mem (v : list N) (s : state) : state :=
  mkState (r0 s) (r1 s) (r2 s) (r3 s) (r4 s) (r5 s) (r6 s) (r7 s) (v0 s) (v1 s) (v2 s) (v3 s) (arg_keys s) (arg_len s) (arg_b s) (mem_base s) v (ret s) (err s).
Definition set_ret (v : N) (s : state) : state :=
  mkState (r0 s) (r1 s) (r2 s) (r3 s) (r4 s) (r5 s) (r6 s) (r7 s) (v0 s) (v1 s) (v2 s) (v3 s) (arg_keys s) (arg_len s) (arg_b s) (mem_base s) (mem s) v (err s).
Definition set_err (v : bool) (s : state) : state :=
  mkState (r0 s) (r1 s) (r2 s) (r3 s) (r4 s) (r5 s) (r6 s) (r7 s) (v0 s) (v1 s) (v2 s) (v3 s) (arg_keys s) (arg_len s) (arg_b s) (mem_base s) (mem s) (ret s) v.

Definition fail (s : state) : state := set_err true s.

Definition get (r : reg) (s : state) : N :=
  match r with
  | R0 => r0 s | R1 => r1 s | R2 => r2 s | R3 => r3 s | R4 => r4 s | R5 => r5 s | R6 => r6 s | R7 => r7 s
  end.
Definition set (r : reg) (v : N) (s : state) : state :=
  match r with
  | R0 => set_r0 v s | R1 => set_r1 v s | R2 => set_r2 v s | R3 => set_r3 v s
  | R4 => set_r4 v s | R5 => set_r5 v s | R6 => set_r6 v s | R7 => set_r7 v s
  end.
Definition getv (x : vreg) (s : state) : list N :=
  match x with V0 => v0 s | V1 => v1 s | V2 => v2 s | V3 => v3 s end.
Definition setv (x : vreg) (v : list N) (s : state) : state :=
  match x with V0 => set_v0 v s | V1 => set_v1 v s | V2 => set_v2 v s | V3 => set_v3 v s end.

Definition sext8 (v : N) : N := let v := v mod 256 in if v <? 128 then v else v + (W64 - 256).

(* SHRN #s to 8-bit lanes: element j is lanes 2j, 2j+1 read as a 16-bit value *)
Fixpoint shrn8 (sh : N) (l : list N) : list N :=
  match l with
  | lo :: hi :: l' => (N.shiftr (lo mod 256 + 256 * (hi mod 256)) sh) mod 256 :: shrn8 sh l'
  | _ => []
  end.

(* RBIT on 64 bits *)
Fixpoint rbit_aux (n : nat) (x acc : N) : N :=      (* shift the low n bits of x out at the bottom, into acc at the bottom *)
  match n with
  | O => acc
  | S n' => rbit_aux n' (N.div2 x) (2 * acc + (if N.odd x then 1 else 0))
  end.
Definition rbit64 (x : N) : N := rbit_aux 64 x 0.
Definition clz64 (x : N) : N := let x := u64 x in if x =? 0 then 64 else 63 - N.log2 x.
Definition asr64 (x k : N) : N := Z.to_N (Z.land (Z.shiftr (signed64 x) (Z.of_N k)) 0xFFFFFFFFFFFFFFFF).

Definition step (i : instr) (s : state) : state :=
  match i with
  | IUnknown _ => fail s
  | Ins m ops =>
    match m with
    | MOVD =>
      match ops with
      | [Slot FP_keys_0; Reg d] => set d (arg_keys s) s
      | [Imm z; Reg d] => set d (of_imm z) s
      | [Reg r; Reg d] => set d (u64 (get r s)) s
      | [Reg r; Slot FP_ret_16] => set_ret (u64 (get r s)) s
      | _ => fail s
      end
    | MOVB =>                                (* LDRSB *)
      match ops with
      | [Slot FP_childrenLen_8; Reg d] => set d (sext8 (arg_len s)) s
      | [Slot FP_b_9; Reg d] => set d (sext8 (arg_b s)) s
      | _ => fail s
      end
    | VLD1 =>
      match ops with
      | [Mem r; VecList [(d, B16)]] => set_err (err s || negb (get r s =? mem_base s)) (setv d (mem s) s)
      | _ => fail s
      end
    | VDUP => match ops with [Reg r; Vec d B16] => setv d (repeat (low8 (get r s)) 16) s | _ => fail s end
    | VCMEQ =>
      match ops with
      | [Vec vm B16; Vec vn B16; Vec vd B16] => setv vd (map2 cmpeq_lane (getv vn s) (getv vm s)) s
      | _ => fail s
      end
    | CMHI =>                                (* Vd := Vn >u Vm *)
      match ops with
      | [Vec vm B16; Vec vn B16; Vec vd B16] => setv vd (map2 cmphi_lane (getv vn s) (getv vm s)) s
      | _ => fail s
      end
    | SHRN =>
      match ops with
      | [Imm z; Vec vn H8; Vec vd B8] =>
        if ((1 <=? z) && (z <=? 8))%Z then setv vd (shrn8 (Z.to_N z) (getv vn s) ++ zeros8) s else fail s
      | _ => fail s
      end
    | FMOVD => match ops with [Freg v; Reg d] => set d (le_word (firstn 8 (getv v s))) s | _ => fail s end
    | AND => match ops with [Imm z; Reg n; Reg d] => set d (N.land (u64 (get n s)) (of_imm z)) s | _ => fail s end
    | RBIT => match ops with [Reg n; Reg d] => set d (rbit64 (get n s)) s | _ => fail s end
    | CLZ => match ops with [Reg n; Reg d] => set d (clz64 (get n s)) s | _ => fail s end
    | ASR =>
      match ops with
      | [Imm z; Reg d] => if ((0 <=? z) && (z <? 64))%Z then set d (asr64 (get d s) (Z.to_N z)) s else fail s
      | _ => fail s
      end
    | RET => match ops with [] => s | _ => fail s end
    end
  end.

Definition exec (l : list instr) (s : state) : state := fold_left (fun s i => step i s) l s.

Definition run (p : prog) (s : state) : state :=
  let s1 := exec (pre p) s in
  match jcc p with
  | CCBNZ r => if u64 (get r s1) =? 0 then exec (fall p) s1 else exec (taken p) s1
  | CCBZ r => if u64 (get r s1) =? 0 then exec (taken p) s1 else exec (fall p) s1
  | CUnknown _ => fail s1
  end.

Definition result (s : state) : Z := if err s then (-2)%Z else signed64 (ret s).

Definition loaded (s : state) (keys : list N) (len b : N) : Prop :=
  arg_keys s = mem_base s /\ mem s = keys /\ arg_len s = len /\ arg_b s = b /\
  err s = false.

Definition init (keys : list N) (len b : N) : state :=
  let z := repeat 0 16 in
  mkState 0 0 0 0 0 0 0 0 z z z z 0x1000 len b 0x1000 keys 0 false.
End Arm.
