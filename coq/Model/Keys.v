(* Model of keys.go: the order-preserving binary encodings.
   Machine integers are N/Z with the wrap written explicitly; a width is a
   number of bytes (1,2,4,8); floats are handled as IEEE-754 bit patterns.
   Definitions only; lemmas are in Proofs/KeysFacts.v. *)
From GoArt Require Export Base.Bytes.
Open Scope N_scope.

Definition wbits (w : nat) : N := 8 * N.of_nat w.
Definition wmod (w : nat) : N := 2 ^ wbits w.
Definition signbit (w : nat) : N := 2 ^ (wbits w - 1).

(* binary.BigEndian.PutUintNN *)
Fixpoint be_bytes (w : nat) (x : N) : list N :=
  match w with
  | O => []
  | S w' => be_bytes w' (x / 256) ++ [x mod 256]
  end.

(* binary.BigEndian.UintNN *)
Definition be_val (l : list N) : N := fold_left (fun a b => a * 256 + b) l 0.

(* ---- UnsignedBinaryKey ---- *)
Definition enc_u (w : nat) (x : N) : list N := be_bytes w x.
Definition dec_u (w : nat) (l : list N) : N := be_val l.

(* ---- SignedBinaryKey: two's complement bits with the sign bit flipped ---- *)
Definition twos (w : nat) (x : Z) : N := Z.to_N (x mod Z.of_N (wmod w)).
Definition untwos (w : nat) (u : N) : Z :=
  if u <? signbit w then Z.of_N u else (Z.of_N u - Z.of_N (wmod w))%Z.
Definition enc_s (w : nat) (x : Z) : list N := be_bytes w (N.lxor (twos w x) (signbit w)).
Definition dec_s (w : nat) (l : list N) : Z := untwos w (N.lxor (be_val l) (signbit w)).
Definition in_srange (w : nat) (x : Z) : Prop :=
  (- Z.of_N (signbit w) <= x < Z.of_N (signbit w))%Z.

(* ---- FloatBinaryKey, on bit patterns ---- *)
Definition mbits (w : nat) : N := match w with 4%nat => 23 | _ => 52 end.
Definition ebits (w : nat) : N := match w with 4%nat => 8 | _ => 11 end.
Definition fsign (w : nat) (b : N) : N := b / signbit w.
Definition fexp (w : nat) (b : N) : N := (b / 2 ^ mbits w) mod 2 ^ ebits w.
Definition fmant (w : nat) (b : N) : N := b mod 2 ^ mbits w.
Definition pinf_bits (w : nat) : N := (2 ^ ebits w - 1) * 2 ^ mbits w.
Definition ninf_bits (w : nat) : N := pinf_bits w + signbit w.
Definition is_nan (w : nat) (b : N) : bool :=
  (fexp w b =? 2 ^ ebits w - 1) && negb (fmant w b =? 0).
(* what K(math.NaN()) is in each width *)
Definition nan_bits (w : nat) : N :=
  match w with 4%nat => 0x7FC00000 | _ => 0x7FF8000000000001 end.

Definition fl_code (w : nat) (b : N) : N :=
  if b =? pinf_bits w then wmod w - 2
  else if b =? ninf_bits w then 1
  else if is_nan w b then 0
  else
    let mask2 := if fsign w b =? 1 then wmod w - 1 else signbit w in
    (N.lxor b mask2 + 2) mod wmod w.

Definition fl_uncode (w : nat) (c : N) : N :=
  if c =? wmod w - 2 then pinf_bits w
  else if c =? 1 then ninf_bits w
  else if c =? 0 then nan_bits w
  else if c =? 2 then 0
  else
    let i := (c + wmod w - 2) mod wmod w in
    let mask := N.lor ((i / signbit w + wmod w - 1) mod wmod w) (signbit w) in
    N.lxor i mask.

Definition enc_f (w : nat) (b : N) : list N := be_bytes w (fl_code w b).
Definition dec_f (w : nat) (l : list N) : N := fl_uncode w (be_val l).

(* The declared order on float bit patterns:
   NaN < -Inf < negatives < -0 < +0 < positives < +Inf, all NaNs one key.
   For non-NaN patterns this is IEEE-754 sign-magnitude order refined by -0 < +0. *)
Definition fl_lt (w : nat) (a b : N) : Prop :=
  match is_nan w a, is_nan w b with
  | true, true => False
  | true, false => True
  | false, true => False
  | false, false =>
      match fsign w a =? 1, fsign w b =? 1 with
      | true, false => True
      | false, true => False
      | false, false => a < b
      | true, true => b < a
      end
  end.
Definition fl_ltb (w : nat) (a b : N) : bool :=
  match is_nan w a, is_nan w b with
  | true, true => false
  | true, false => true
  | false, true => false
  | false, false =>
      match fsign w a =? 1, fsign w b =? 1 with
      | true, false => true
      | false, true => false
      | false, false => a <? b
      | true, true => b <? a
      end
  end.
Definition fl_samekey (w : nat) (a b : N) : Prop :=
  (is_nan w a = true /\ is_nan w b = true) \/ a = b.

(* ---- compound keys generated from a field schema (C09) ---- *)
Inductive ftype := TU (w : nat) | TS (w : nat) | TF (w : nat) | TStr.
Inductive fval := VU (x : N) | VS (x : Z) | VF (bits : N) | VStr (s : list N).

Definition width_ok (w : nat) : bool :=
  match w with 1%nat | 2%nat | 4%nat | 8%nat => true | _ => false end.
Definition fwidth_ok (w : nat) : bool :=
  match w with 4%nat | 8%nat => true | _ => false end.

Definition ftype_fixed (t : ftype) : bool :=
  match t with TU w | TS w => width_ok w | TF w => fwidth_ok w | TStr => false end.

(* 1..n fixed-width numeric fields, optionally followed by one string field *)
Fixpoint schema_ok (s : list ftype) : bool :=
  match s with
  | [] => false
  | [TStr] => true
  | [t] => ftype_fixed t
  | t :: s' => ftype_fixed t && schema_ok s'
  end.

Definition nul_free (s : list N) : bool := forallb (fun b => negb (b =? 0)) s.

Definition fval_ok (t : ftype) (v : fval) : bool :=
  match t, v with
  | TU w, VU x => x <? wmod w
  | TS w, VS x => (Z.leb (- Z.of_N (signbit w)) x && Z.ltb x (Z.of_N (signbit w)))%Z
  | TF w, VF b => b <? wmod w
  | TStr, VStr s => isbytes s && nul_free s
  | _, _ => false
  end.

Fixpoint tuple_ok (s : list ftype) (vs : list fval) : bool :=
  match s, vs with
  | [], [] => true
  | t :: s', v :: vs' => fval_ok t v && tuple_ok s' vs'
  | _, _ => false
  end.

Definition enc_field (v : fval) (t : ftype) : list N :=
  match t, v with
  | TU w, VU x => enc_u w x
  | TS w, VS x => enc_s w x
  | TF w, VF b => enc_f w b
  | TStr, VStr s => s ++ [0]
  | _, _ => []
  end.

Fixpoint enc_tuple (s : list ftype) (vs : list fval) : list N :=
  match s, vs with
  | t :: s', v :: vs' => enc_field v t ++ enc_tuple s' vs'
  | _, _ => []
  end.

Definition ftype_width (t : ftype) : nat :=
  match t with TU w | TS w | TF w => w | TStr => 0%nat end.

Fixpoint dec_tuple (s : list ftype) (l : list N) : list fval :=
  match s with
  | [] => []
  | TU w :: s' => VU (dec_u w (firstn w l)) :: dec_tuple s' (skipn w l)
  | TS w :: s' => VS (dec_s w (firstn w l)) :: dec_tuple s' (skipn w l)
  | TF w :: s' => VF (dec_f w (firstn w l)) :: dec_tuple s' (skipn w l)
  | TStr :: s' => VStr (removelast l) :: dec_tuple s' []
  end.

(* the order of one field, and the tuple-lexicographic order *)
Definition fval_lt (t : ftype) (a b : fval) : Prop :=
  match t, a, b with
  | TU _, VU x, VU y => x < y
  | TS _, VS x, VS y => (x < y)%Z
  | TF w, VF x, VF y => fl_lt w x y
  | TStr, VStr x, VStr y => lex_lt x y
  | _, _, _ => False
  end.
Definition fval_same (t : ftype) (a b : fval) : Prop :=
  match t, a, b with
  | TF w, VF x, VF y => fl_samekey w x y
  | _, _, _ => a = b
  end.
Fixpoint tuple_lt (s : list ftype) (a b : list fval) : Prop :=
  match s, a, b with
  | t :: s', x :: a', y :: b' =>
      fval_lt t x y \/ (fval_same t x y /\ tuple_lt s' a' b')
  | _, _, _ => False
  end.
Fixpoint tuple_same (s : list ftype) (a b : list fval) : Prop :=
  match s, a, b with
  | [], [], [] => True
  | t :: s', x :: a', y :: b' => fval_same t x y /\ tuple_same s' a' b'
  | _, _, _ => False
  end.
