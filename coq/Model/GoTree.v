(* Hand-written vocabulary of the REGENERATED Gen/TreeGen.v (go/cmd/srcfacts/translate_tree.go):
   the read-only descent code of tree.go, trees.go and collation.go read over the RAW trees of
   Model/PoolTree.v (xtree: every array cell of every node, stale contents included).
   This file is the TRUSTED reading of the Go memory the translated functions look at; it contains
   no algorithm: only what one field read, one array read and one pointer conversion stand for.

   The value model has no addresses: a pointer IS what it points to.

     Go                                   here
     nodeRef {pointer, tag}               gref = option xtree: None is a nil pointer; the tag is the
                                          constructor (ref_tag); the tag of a nil reference is not
                                          represented (ref_tag None = None: a stuck read)
     unsafe.Pointer, the leaf pointers    gref again (ref_pointer is the identity)
     *node4 *node16 *node48 *node256      xnode xtree, obtained from a pointer by a CHECKED conversion
                                          (cast_node4 ...): Go's unsafe conversion of a pointer to a
                                          node of another kind reinterprets memory; here it is stuck
     *node (the embedded header)          xhdr (Model/Pool.v); ref_node is stuck on nil and on a leaf
     n.prefixLen (uint32)                 N.of_nat (xplen h)   (hdr_prefixLen; the model keeps it unbounded)
     n.childrenLen (uint8)                xlen h
     n.prefix ([maxPrefixLen]byte)        xprefix h   (a list; the array length is the invariant
                                          length (xprefix h) = maxPrefixLen, part of Proofs/PoolFacts.xwf)
     n4.keys (uint32)                     xword n;   n16.keys / n48.keys ([16]byte / [256]byte): xbytes n
     nK.children ([4|16|48|256]nodeRef)   xch n   (array lengths: Model/Pool.shape_ok)
     a[i] on []byte / [n]byte             idx_bytes a i : option N     (None: index out of range, a Go panic)
     a[i] on [n]nodeRef                   idx_refs a i : option gref   (None: index out of range, a Go panic)
     leaf.getKey() leaf.getTransformKey() leaf.value
                                          xleaf_gk xleaf_tk xleaf_v of the XLeaf the pointer converts to
                                          (cast_leaf: stuck on nil, where Go panics at the first field
                                          read, and on an inner node)
     (V, bool) results                    Model/Tree.sres: (v, true) is SFound v, (zero value, false) is SAbsent
     V                                    Z (as in Model/Tree.v)
     int                                  Z, UNBOUNDED (no wrap modelled)

   Results. A translated function returns gres R, a translated loop lres R S:
     GRet r / LRet r   the function returns r (from inside the loop: the enclosing function returns)
     LDone s           the loop ends (condition false, or break) with its variables s
     GPanic / LPanic   the Go code panics here (index out of range, nil dereference, panic(...)),
                       or reads something this value model has no value for (see "stuck" above)
     GFuel / LFuel     a loop ran out of the iteration budget the translator gave it (never a Go behaviour)
   The theorems of Proofs/TranslateTreeFacts.v show that on the stated domains neither *Panic nor
   (with enough fuel) *Fuel is returned. *)
From GoArt Require Export Base.Bytes Model.GoArith Model.PoolTree.
Open Scope N_scope.

Inductive gres (R : Type) : Type := GRet (r : R) | GPanic | GFuel.
Arguments GRet {R}. Arguments GPanic {R}. Arguments GFuel {R}.
Inductive lres (R S : Type) : Type := LRet (r : R) | LDone (s : S) | LPanic | LFuel.
Arguments LRet {R S}. Arguments LDone {R S}. Arguments LPanic {R S}. Arguments LFuel {R S}.

(* nodeKind: the constants nodeKind4 ... nodeKindLeaf of node.go, by NAME *)
Inductive gkind : Set := Kind4 | Kind16 | Kind48 | Kind256 | KindLeaf.
Definition gkind_eqb (a b : gkind) : bool :=
  match a, b with
  | Kind4, Kind4 | Kind16, Kind16 | Kind48, Kind48 | Kind256, Kind256 | KindLeaf, KindLeaf => true
  | _, _ => false
  end.

Definition gref : Type := option xtree.

(* ref.pointer == nil *)
Definition ref_is_nil (r : gref) : bool := match r with None => true | Some _ => false end.
(* ref.pointer as a value *)
Definition ref_pointer (r : gref) : gref := r.
(* ref.tag *)
Definition ref_tag (r : gref) : option gkind :=
  match r with
  | None => None
  | Some (XLeaf _ _ _) => Some KindLeaf
  | Some (XInner (X4 _ _ _)) => Some Kind4
  | Some (XInner (X16 _ _ _)) => Some Kind16
  | Some (XInner (X48 _ _ _)) => Some Kind48
  | Some (XInner (X256 _ _)) => Some Kind256
  end.
(* ref.node() = ( *node)(ref.pointer): the header every inner node starts with *)
Definition ref_node (r : gref) : option xhdr :=
  match r with Some (XInner n) => Some (xh n) | _ => None end.
(* ( *node4)(p) ... ( *node256)(p) *)
Definition cast_node4 (p : gref) : option (xnode xtree) :=
  match p with Some (XInner (X4 _ _ _ as n)) => Some n | _ => None end.
Definition cast_node16 (p : gref) : option (xnode xtree) :=
  match p with Some (XInner (X16 _ _ _ as n)) => Some n | _ => None end.
Definition cast_node48 (p : gref) : option (xnode xtree) :=
  match p with Some (XInner (X48 _ _ _ as n)) => Some n | _ => None end.
Definition cast_node256 (p : gref) : option (xnode xtree) :=
  match p with Some (XInner (X256 _ _ as n)) => Some n | _ => None end.
(* ( *alphaLeafNode[V])(p), ( *collateLeafNode[V])(p), (L)(p) with L a leaf pointer type *)
Definition cast_leaf (p : gref) : option xtree :=
  match p with Some (XLeaf _ _ _ as l) => Some l | _ => None end.
Definition xleaf_gk (l : xtree) : list N := match l with XLeaf gk _ _ => gk | XInner _ => [] end.
Definition xleaf_tk (l : xtree) : list N := match l with XLeaf _ tk _ => tk | XInner _ => [] end.
Definition xleaf_v (l : xtree) : Z := match l with XLeaf _ _ v => v | XInner _ => 0%Z end.

(* node.prefixLen *)
Definition hdr_prefixLen (h : xhdr) : N := N.of_nat (xplen h).

(* a[i]: a negative or too large index is a Go panic *)
Definition idx_bytes (a : list N) (i : Z) : option N :=
  if (i <? 0)%Z then None else nth_error a (Z.to_nat i).
Definition idx_refs (a : list gref) (i : Z) : option gref :=
  if (i <? 0)%Z then None else nth_error a (Z.to_nat i).

(* ================================================================== *)
(* Vocabulary of Gen/IterGen.v (go/cmd/srcfacts/translate_iter.go): findChild, lowestCommonParent, the
   explicit-stack traversals all / backward / filter / rangeScan of tree.go and the wrappers topK / bottomK.

     Go                                   here
     []nodeRef, []struct{nodeRef; int}    list gref, list (gref * Z): a slice is the list of its elements (s[len(s)-1] is the
                                          LAST one), a nil slice is [], append(s, x) is s ++ [x]
     s[:hi], s[lo:hi]                     slice_to s hi, slice_from_to s lo hi : option.  None: out of range, a Go panic -- and also
                                          hi beyond len(s) but within the capacity, where Go exposes elements this model has no value for
     unsafe.Slice(&a[0], n), a an array   slice_to a n  (n beyond the array: Go reads the adjacent memory; stuck here)
     *nodeRef                             option gref: None is the nil pointer, Some r a pointer to a cell holding r.  &a[i] is a
                                          checked read, *p is stuck on nil; nothing translated writes through such a pointer
     bytes.Compare(a, b)                  bytes_compare a b : Z  (-1, 0, +1, from Base/Bytes.lex_cmp)
     uint                                 N below 2^64 (wrap written out with width 64)
     restore (a parameter func(unsafe.Pointer) (K, V))
                                          k, v := restore(p) binds k and v to the leaf p points to (cast_leaf p: stuck on nil and on an
                                          inner node); yield(k, v) and predicate(k, v) receive that leaf
     predicate (a parameter func(K, V) bool)   a function xtree -> bool of that leaf
     yield (the parameter of the returned closure)
                                          ans : nat -> bool, its answer to the i-th call (i from 0).  The translation threads two
                                          variables through the closure body: yi, the number of calls made so far, and yacc, the
                                          leaves passed so far, LAST FIRST
     a closure func(yield func(K, V) bool) run to its end: ires.
       IDone how calls acc                how = ByReturn (a return statement), ByBreak (the main loop was left by break and the end
                                          of the body reached), ByEnd (its condition failed and the end of the body was reached),
                                          ByFuel (the main loop used up the budget `fuel`: never a Go behaviour)
       IPanic / IFuel                     a Go panic or a stuck read / an inner loop out of the budget the translator gave it
     for k, v := range seq { body }       range_over (below) *)
Definition ptr_is_nil {A} (p : option A) : bool := match p with None => true | Some _ => false end.
Definition bytes_compare (a b : list N) : Z :=
  match lex_cmp a b with Lt => (-1)%Z | Eq => 0%Z | Gt => 1%Z end.
Definition slice_to {A} (s : list A) (hi : Z) : option (list A) :=
  if ((hi <? 0) || (Z.of_nat (length s) <? hi))%Z then None else Some (firstn (Z.to_nat hi) s).
Definition slice_from_to {A} (s : list A) (lo hi : Z) : option (list A) :=
  if ((lo <? 0) || (hi <? lo) || (Z.of_nat (length s) <? hi))%Z then None
  else Some (firstn (Z.to_nat (hi - lo)) (skipn (Z.to_nat lo) s)).
Definition idx_entries (a : list (gref * Z)) (i : Z) : option (gref * Z) :=
  if (i <? 0)%Z then None else nth_error a (Z.to_nat i).

Inductive iend : Set := ByReturn | ByBreak | ByEnd | ByFuel.
Inductive ires : Type := IDone (how : iend) (calls : nat) (acc : list xtree) | IPanic | IFuel.

(* `for k, v := range seq { body }` as the LAST statement of a closure func(yield ...), k and v used only as the
   arguments of that yield.  Go calls seq with the loop body as ITS yield: the body answers true when it runs to its
   end or executes continue, false when it executes break or return (then seq must not call it again).
     seq : (nat -> bool) -> ires     the iterator as a function of its consumer: IDone _ n acc = it called the consumer
                                     n times, with the elements rev acc
     step s y : bstep St             one run of the body started with the captured variables it assigns equal to s and
                                     y calls of the enclosing yield made so far: BNext / BBreak / BReturn with the
                                     values at its end; BPanic / BFuel as above
   The i-th run starts from the state the (i-1)-th left (range_pre); its answer is range_ans.  The closure ends
   (range_fold) ByBreak / ByReturn at the first run that ends so, else ByEnd when seq returns (ByFuel if seq ran out
   of fuel); the element of a run is passed on to the enclosing yield iff the run calls it (y grows). *)
Inductive bstep (St : Type) : Type :=
  BNext (s : St) (y : nat) | BBreak (s : St) (y : nat) | BReturn (s : St) (y : nat) | BPanic | BFuel.
Arguments BNext {St}. Arguments BBreak {St}. Arguments BReturn {St}. Arguments BPanic {St}. Arguments BFuel {St}.
Section Range.
Context {St : Type} (step : St -> nat -> bstep St).
Fixpoint range_pre (s0 : St) (y0 : nat) (i : nat) : option (St * nat) :=
  match i with
  | O => Some (s0, y0)
  | S i' => match range_pre s0 y0 i' with
            | Some (s, y) => match step s y with BNext s' y' => Some (s', y') | _ => None end
            | None => None
            end
  end.
Definition range_ans (s0 : St) (y0 : nat) (i : nat) : bool :=
  match range_pre s0 y0 i with
  | Some (s, y) => match step s y with BNext _ _ => true | _ => false end
  | None => false
  end.
Fixpoint range_fold (how : iend) (s : St) (y : nat) (out : list xtree) (els : list xtree) : ires :=
  match els with
  | [] => IDone (match how with ByFuel => ByFuel | _ => ByEnd end) y out
  | x :: els' =>
    let fwd (y' : nat) := if (y' =? y)%nat then out else x :: out in
    match step s y with
    | BNext s' y' => range_fold how s' y' (fwd y') els'
    | BBreak _ y' => IDone ByBreak y' (fwd y')
    | BReturn _ y' => IDone ByReturn y' (fwd y')
    | BPanic => IPanic
    | BFuel => IFuel
    end
  end.
Definition range_over (seq : (nat -> bool) -> ires) (s0 : St) (y0 : nat) (out0 : list xtree) : ires :=
  match seq (range_ans s0 y0) with
  | IDone how _ acc => range_fold how s0 y0 out0 (rev acc)
  | IPanic => IPanic
  | IFuel => IFuel
  end.
End Range.
