(* Hand-written vocabulary of the REGENERATED Gen/TreeGen.v (go/cmd/srcfacts/translate_tree.go):
   the read-only descent code of tree.go, trees.go and collation.go read over the RAW trees of
   Model/PoolTree.v (xtree: every array cell of every node, stale contents included).
   This file is the TRUSTED reading of the Go memory the translated functions look at; it contains
   no algorithm: only what one field read, one array read and one pointer conversion stand for.

   The value model has no addresses: a pointer IS what it points to.

     Go                                   here
     nodeRef {pointer, tag}               gref = option xtree: None is a nil pointer; the tag is the
                                          constructor (ref_tag); the tag of a nil reference is not
                                          represented (ref_tag None = None: a stuck read)
     unsafe.Pointer, the leaf pointers    gref again (ref_pointer is the identity)
     *node4 *node16 *node48 *node256      xnode xtree, obtained from a pointer by a CHECKED conversion
                                          (cast_node4 ...): Go's unsafe conversion of a pointer to a
                                          node of another kind reinterprets memory; here it is stuck
     *node (the embedded header)          xhdr (Model/Pool.v); ref_node is stuck on nil and on a leaf
     n.prefixLen (uint32)                 N.of_nat (xplen h)   (hdr_prefixLen; the model keeps it unbounded)
     n.childrenLen (uint8)                xlen h
     n.prefix ([maxPrefixLen]byte)        xprefix h   (a list; the array length is the invariant
                                          length (xprefix h) = maxPrefixLen, part of Proofs/PoolFacts.xwf)
     n4.keys (uint32)                     xword n;   n16.keys / n48.keys ([16]byte / [256]byte): xbytes n
     nK.children ([4|16|48|256]nodeRef)   xch n   (array lengths: Model/Pool.shape_ok)
     a[i] on []byte / [n]byte             idx_bytes a i : option N     (None: index out of range, a Go panic)
     a[i] on [n]nodeRef                   idx_refs a i : option gref   (None: index out of range, a Go panic)
     leaf.getKey() leaf.getTransformKey() leaf.value
                                          xleaf_gk xleaf_tk xleaf_v of the XLeaf the pointer converts to
                                          (cast_leaf: stuck on nil, where Go panics at the first field
                                          read, and on an inner node)
     (V, bool) results                    Model/Tree.sres: (v, true) is SFound v, (zero value, false) is SAbsent
     V                                    Z (as in Model/Tree.v)
     int                                  Z, UNBOUNDED (no wrap modelled)

   Results. A translated function returns gres R, a translated loop lres R S:
     GRet r / LRet r   the function returns r (from inside the loop: the enclosing function returns)
     LDone s           the loop ends (condition false, or break) with its variables s
     GPanic / LPanic   the Go code panics here (index out of range, nil dereference, panic(...)),
                       or reads something this value model has no value for (see "stuck" above)
     GFuel / LFuel     a loop ran out of the iteration budget the translator gave it (never a Go behaviour)
   The theorems of Proofs/TranslateTreeFacts.v show that on the stated domains neither *Panic nor
   (with enough fuel) *Fuel is returned. *)
From GoArt Require Export Base.Bytes Model.GoArith Model.PoolTree.
Open Scope N_scope.

Inductive gres (R : Type) : Type := GRet (r : R) | GPanic | GFuel.
Arguments GRet {R}. Arguments GPanic {R}. Arguments GFuel {R}.
Inductive lres (R S : Type) : Type := LRet (r : R) | LDone (s : S) | LPanic | LFuel.
Arguments LRet {R S}. Arguments LDone {R S}. Arguments LPanic {R S}. Arguments LFuel {R S}.

(* nodeKind: the constants nodeKind4 ... nodeKindLeaf of node.go, by NAME *)
Inductive gkind : Set := Kind4 | Kind16 | Kind48 | Kind256 | KindLeaf.
Definition gkind_eqb (a b : gkind) : bool :=
  match a, b with
  | Kind4, Kind4 | Kind16, Kind16 | Kind48, Kind48 | Kind256, Kind256 | KindLeaf, KindLeaf => true
  | _, _ => false
  end.

Definition gref : Type := option xtree.

(* ref.pointer == nil *)
Definition ref_is_nil (r : gref) : bool := match r with None => true | Some _ => false end.
(* ref.pointer as a value *)
Definition ref_pointer (r : gref) : gref := r.
(* ref.tag *)
Definition ref_tag (r : gref) : option gkind :=
  match r with
  | None => None
  | Some (XLeaf _ _ _) => Some KindLeaf
  | Some (XInner (X4 _ _ _)) => Some Kind4
  | Some (XInner (X16 _ _ _)) => Some Kind16
  | Some (XInner (X48 _ _ _)) => Some Kind48
  | Some (XInner (X256 _ _)) => Some Kind256
  end.
(* ref.node() = ( *node)(ref.pointer): the header every inner node starts with *)
Definition ref_node (r : gref) : option xhdr :=
  match r with Some (XInner n) => Some (xh n) | _ => None end.
(* ( *node4)(p) ... ( *node256)(p) *)
Definition cast_node4 (p : gref) : option (xnode xtree) :=
  match p with Some (XInner (X4 _ _ _ as n)) => Some n | _ => None end.
Definition cast_node16 (p : gref) : option (xnode xtree) :=
  match p with Some (XInner (X16 _ _ _ as n)) => Some n | _ => None end.
Definition cast_node48 (p : gref) : option (xnode xtree) :=
  match p with Some (XInner (X48 _ _ _ as n)) => Some n | _ => None end.
Definition cast_node256 (p : gref) : option (xnode xtree) :=
  match p with Some (XInner (X256 _ _ as n)) => Some n | _ => None end.
(* ( *alphaLeafNode[V])(p), ( *collateLeafNode[V])(p), (L)(p) with L a leaf pointer type *)
Definition cast_leaf (p : gref) : option xtree :=
  match p with Some (XLeaf _ _ _ as l) => Some l | _ => None end.
Definition xleaf_gk (l : xtree) : list N := match l with XLeaf gk _ _ => gk | XInner _ => [] end.
Definition xleaf_tk (l : xtree) : list N := match l with XLeaf _ tk _ => tk | XInner _ => [] end.
Definition xleaf_v (l : xtree) : Z := match l with XLeaf _ _ v => v | XInner _ => 0%Z end.

(* node.prefixLen *)
Definition hdr_prefixLen (h : xhdr) : N := N.of_nat (xplen h).

(* a[i]: a negative or too large index is a Go panic *)
Definition idx_bytes (a : list N) (i : Z) : option N :=
  if (i <? 0)%Z then None else nth_error a (Z.to_nat i).
Definition idx_refs (a : list gref) (i : Z) : option gref :=
  if (i <? 0)%Z then None else nth_error a (Z.to_nat i).
