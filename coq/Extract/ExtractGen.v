(* Extraction of the REGENERATED program next to the hand-written model, for the optional second
   correspondence: the step functions of Proofs/TranslateRunAllFacts.v execute the regenerated methods
   (Gen/MutGen.v, Gen/TreeGen.v, Gen/IterGen.v, Gen/ApiGen.v, Gen/NodeGen.v, Gen/KeysGen.v) on a heap state;
   the driver runs them beside the model and the implementation on the same commands.  This validates the
   translators' trusted vocabulary (Model/GoNode.v, GoTree.v, GoHeap.v, GoArith.v) against the RUNNING code.
   Built only when the whole development compiles (it imports the proof files that define the drivers);
   ExtrOcamlBasic only, as Extract.v. *)
From GoArt Require Import Base.Bytes Model.Keys Model.Node4 Model.Node16 Model.Node
  Model.Tree Model.Iter Model.Api Model.Pool Model.PoolTree Model.GoHeap
  Proofs.TranslateMutFacts Proofs.TranslateRunFacts Proofs.TranslateRunAllFacts.
Require Extraction.
Require Import ExtrOcamlBasic.
Extraction Language OCaml.
Extraction "genmodel.ml"
  step init root size
  enc_u dec_u enc_s dec_s enc_f dec_f enc_tuple dec_tuple is_nan schema_ok tuple_ok
  searchNode4 insertPosNode4 getAtPos setAtPos shiftLeftClear shiftRightClear construct deconstruct
  searchNode16 insertPosNode16
  nfind nadd ndel nenum nlen nkind empty4 hdr0
  xadd xdel xzero K4
  lex_cmp N.of_nat N.to_nat Z.of_N Z.to_N N.add N.mul N.div N.modulo N.compare Z.compare Z.add Z.opp Z.of_nat
  g_init g_alpha_step_all g_collation_step g_unsigned64_step g_signed64_step g_float64_step g_compound_step.
