(* Extraction of the executable model for the correspondence driver.
   ExtrOcamlBasic only (bool, option, unit, list, prod, sumbool, sumor map to
   OCaml's own types); nat, positive, N, Z stay the Coq datatypes. *)
From GoArt Require Import Base.Bytes Model.Keys Model.Node4 Model.Node16 Model.Node
  Model.Tree Model.Iter Model.Api Model.Pool.
Require Extraction.
Require Import ExtrOcamlBasic.
Extraction Language OCaml.
Extraction "model.ml"
  step init root size
  enc_u dec_u enc_s dec_s enc_f dec_f enc_tuple dec_tuple is_nan schema_ok tuple_ok
  searchNode4 insertPosNode4 getAtPos setAtPos shiftLeftClear shiftRightClear construct deconstruct
  searchNode16 insertPosNode16
  nfind nadd ndel nenum nlen nkind empty4 hdr0
  xadd xdel xzero K4
  lex_cmp N.of_nat N.to_nat Z.of_N Z.to_N N.add N.mul N.div N.modulo N.compare Z.compare Z.add Z.opp Z.of_nat.
