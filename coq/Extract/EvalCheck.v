(* Cross-check of the extraction: the operations the extracted model executed in a
   correspondence run, together with the outputs it printed, are evaluated again
   by the kernel's own evaluator (vm_compute) and compared.  Used by the thorough
   tier on a sample of the generated histories (bin/vprops.py: coq_eval). *)
From GoArt Require Import Base.Bytes Model.Keys Model.Api.
Open Scope N_scope.

Fixpoint list_eqb {A} (e : A -> A -> bool) (a b : list A) : bool :=
  match a, b with
  | [], [] => true
  | x :: a', y :: b' => e x y && list_eqb e a' b'
  | _, _ => false
  end.

Definition fval_eqb (a b : fval) : bool :=
  match a, b with
  | VU x, VU y => x =? y
  | VS x, VS y => (x =? y)%Z
  | VF x, VF y => x =? y
  | VStr x, VStr y => list_eqb N.eqb x y
  | _, _ => false
  end.

Definition akey_eqb (a b : akey) : bool :=
  match a, b with
  | AB x, AB y => list_eqb N.eqb x y
  | AU x, AU y => x =? y
  | AS x, AS y => (x =? y)%Z
  | AF x, AF y => x =? y
  | AC o c, AC o' c' => list_eqb N.eqb o o' && list_eqb N.eqb c c'
  | AT x, AT y => list_eqb fval_eqb x y
  | _, _ => false
  end.

Definition out_eqb (a b : out) : bool :=
  match a, b with
  | OUnit, OUnit | OAbsent, OAbsent | ONone, ONone | OPanic, OPanic | OFuel, OFuel => true
  | OFound x, OFound y => (x =? y)%Z
  | OBool x, OBool y => Bool.eqb x y
  | OKV k v, OKV k' v' => akey_eqb k k' && (v =? v')%Z
  | OSize x, OSize y => (x =? y)%Z
  | OSeq l c, OSeq l' c' =>
      list_eqb (fun p q => akey_eqb (fst p) (fst q) && (snd p =? snd q)%Z) l l' && (c =? c')%nat
  | _, _ => false
  end.

(* index of the first operation whose output differs from the recorded one *)
Fixpoint first_mismatch (k : kind) (st : state) (l : list (op * out)) (i : nat) : option nat :=
  match l with
  | [] => None
  | (o, x) :: l' =>
    let '(st', y) := step k st o in
    if out_eqb x y then first_mismatch k st' l' (S i) else Some i
  end.

Fixpoint mismatches (cases : list (kind * list (op * out))) (i : nat) : list (nat * nat) :=
  match cases with
  | [] => []
  | (k, l) :: cs =>
    match first_mismatch k init l 0 with
    | None => mismatches cs (S i)
    | Some j => (i, j) :: mismatches cs (S i)
    end
  end.

Definition total_ops (cases : list (kind * list (op * out))) : nat :=
  fold_left (fun a c => (a + length (snd c))%nat) cases 0%nat.
