(* Byte strings as lists of N (every element is meant to be < 256), the
   lexicographic order Go's bytes.Compare implements, prefixes. Definitions only;
   lemmas are in Proofs/BytesFacts.v. *)
From Coq Require Export List NArith ZArith Bool Lia.
Export ListNotations.
Open Scope N_scope.

Definition byte := N.
Definition bytes := list N.

Definition isbyte (b : N) : bool := b <? 256.
Definition isbytes (l : list N) : bool := forallb isbyte l.

(* bytes.Compare *)
Fixpoint lex_cmp (a b : list N) : comparison :=
  match a, b with
  | [], [] => Eq
  | [], _ :: _ => Lt
  | _ :: _, [] => Gt
  | x :: a', y :: b' =>
      match N.compare x y with
      | Eq => lex_cmp a' b'
      | c => c
      end
  end.

Definition lex_lt (a b : list N) : Prop := lex_cmp a b = Lt.
Definition lex_le (a b : list N) : Prop := lex_cmp a b <> Gt.
Definition lex_ltb (a b : list N) : bool := match lex_cmp a b with Lt => true | _ => false end.
Definition lex_leb (a b : list N) : bool := match lex_cmp a b with Gt => false | _ => true end.

(* bytes.Equal *)
Fixpoint beq (a b : list N) : bool :=
  match a, b with
  | [], [] => true
  | x :: a', y :: b' => (x =? y) && beq a' b'
  | _, _ => false
  end.

(* bytes.HasPrefix s p *)
Fixpoint has_prefix (s p : list N) : bool :=
  match p, s with
  | [], _ => true
  | y :: p', x :: s' => (x =? y) && has_prefix s' p'
  | _ :: _, [] => false
  end.

Definition is_prefix (p s : list N) : Prop := exists r, s = p ++ r.

(* no element of the list is a prefix of another element *)
Definition prefix_free (ks : list (list N)) : Prop :=
  forall a b, In a ks -> In b ks -> is_prefix a b -> a = b.

(* length of the longest common prefix of a and b *)
Fixpoint lcp (a b : list N) : nat :=
  match a, b with
  | x :: a', y :: b' => if x =? y then S (lcp a' b') else 0%nat
  | _, _ => 0%nat
  end.

(* Go's key[i] on a slice: None is an index-out-of-range panic *)
Definition at_ (l : list N) (i : nat) : option N := nth_error l i.
