(* Specification vocabulary of the iteration layer (I): what a push iterator
   delivers to a consumer that may refuse at any call. *)
From GoArt Require Export Base.Bytes Model.Node Model.Tree Model.Iter Spec.TreeSpec.
Open Scope N_scope.

(* consumer protocol on a list: elements are handed over one by one; the
   consumer's answer to call number i is ans i; the element on which it answers
   false is still delivered (it has been passed to yield), nothing after it is.
   Result: (delivered, number of calls made, whether the consumer refused). *)
Fixpoint consume {A} (ans : nat -> bool) (i : nat) (l : list A) : list A * nat * bool :=
  match l with
  | [] => ([], i, false)
  | x :: l' =>
    if ans i then
      let '(d, c, s) := consume ans (S i) l' in (x :: d, c, s)
    else ([x], S i, true)
  end.

(* the range scan's leaf filter on a list sorted by gk: skip below start, stop
   at the first element above end *)
Definition in_range (gstart gend : list N) (l : lrec) : bool :=
  lex_leb gstart (lgk l) && lex_leb (lgk l) gend.

(* result of a walk agrees with consuming the list ls: what is delivered, how
   often the consumer was called (so nothing is called after a refusal), and the
   machine did not run out of fuel *)
Definition walk_is (r : wres) (ans : nat -> bool) (ls : list lrec) : Prop :=
  delivered r = map to_leaf (fst (fst (consume ans 0 ls))) /\
  calls r = snd (fst (consume ans 0 ls)) /\
  status r <> WFuel.
