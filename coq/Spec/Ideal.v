(* The reference the API model is proved to refine (theorem (A)): an ordered
   finite map represented by the list of its leaf records (getKey form,
   transformed key, value), sorted bytewise by the transformed key, with every
   Tree method given as a plain list function: upsert / find / remove / head /
   last / length / take / reverse / filter.  Nothing here mentions nodes, paths,
   stacks, fuel or size classes.

   The only things mirrored from the code are the straight-line interface
   conventions of Range (open end, swapped bounds, equal numeric bounds answered
   by a lookup) and the consumer protocol (Spec/IterSpec.v: consume).
   The meaning of the byte order for each kind (numeric order, tuple order, ...)
   is the business of Proofs/KeysFacts.v and is attached in Properties/*.v. *)
From GoArt Require Export Base.Bytes Model.Keys Model.Node Model.Tree Model.Iter Model.Api
  Spec.TreeSpec Spec.IterSpec.
Open Scope N_scope.

Definition ideal_seq (k : kind) (ls : list lrec) (ans : nat -> bool) : out :=
  let r := consume ans 0 ls in
  OSeq (map (fun l => restore_kv k (to_leaf l)) (fst (fst r))) (snd (fst r)).

Definition ideal_kv (k : kind) (o : option lrec) : out :=
  match o with
  | Some l => OKV (restore k (to_leaf l)) (lv l)
  | None => ONone
  end.

Definition ideal_range (k : kind) (cs : list lrec) (a b : akey) (ans : nat -> bool) : out :=
  match k with
  | KAlpha =>
    match cs with
    | [] => OSeq [] 0
    | _ =>
      let s := akey_bytes a in
      let e := akey_bytes b in
      let e := if (length e =? 0)%nat
               then match hd_error (rev cs) with Some l => removelast (lgk l) | None => [] end
               else e in
      let '(s, e) := match lex_cmp s e with Gt => (e, s) | _ => (s, e) end in
      ideal_seq k (filter (in_range (s ++ [0]) (e ++ [0])) cs) ans
    end
  | KUnsigned _ | KSigned _ | KFloat _ =>
    let sk := fst (transform k a) in
    let ek := fst (transform k b) in
    match lex_cmp sk ek with
    | Eq =>
      match find_gk sk cs with
      | Some l => OSeq [(a, lv l)] 1
      | None => OSeq [] 0
      end
    | Gt => ideal_seq k (filter (in_range ek sk) cs) ans
    | Lt => ideal_seq k (filter (in_range sk ek) cs) ans
    end
  | KCompound _ | KCodec _ _ =>
    match cs with
    | [] => OSeq [] 0
    | _ =>
      let sk := fst (transform k a) in
      let ek := fst (transform k b) in
      let ek := if (length ek =? 0)%nat
                then match hd_error (rev cs) with
                     | Some l => fst (transform k (restore k (to_leaf l)))
                     | None => []
                     end
                else ek in
      let '(sk, ek) := match lex_cmp sk ek with Gt => (ek, sk) | _ => (sk, ek) end in
      ideal_seq k (filter (in_range sk ek) cs) ans
    end
  | KCollation => OPanic      (* Range of collation trees is outside the claim (C03) *)
  end.

Definition ideal_prefix (k : kind) (cs : list lrec) (p : akey) (ans : nat -> bool) : out :=
  match k with
  | KAlpha =>
    let pb := akey_bytes p in
    if (length pb =? 0)%nat then ideal_seq k cs ans
    else ideal_seq k (filter (fun l => has_prefix (removelast (lgk l)) pb) cs) ans
  | KCollation =>
    let pb := akey_bytes p in
    if (length pb =? 0)%nat then ideal_seq k cs ans
    else ideal_seq k (filter (fun l => has_prefix (lgk l) pb) cs) ans
  | _ => OPanic               (* panic("") in the instantiations without HasPrefix *)
  end.

Definition ideal_step (k : kind) (cs : list lrec) (o : op) : list lrec * out :=
  match o with
  | Insert a v => let '(gk, tk) := transform k a in (upsert gk tk v cs, OUnit)
  | Search a =>
    let '(gk, tk) := transform k a in
    (cs, match find_gk gk cs with Some l => OFound (lv l) | None => OAbsent end)
  | Delete a => let '(gk, tk) := transform k a in (remove_gk gk cs, OBool (mem_gk gk cs))
  | Minimum => (cs, ideal_kv k (hd_error cs))
  | Maximum => (cs, ideal_kv k (hd_error (rev cs)))
  | Size => (cs, OSize (Z.of_nat (length cs)))
  | All stop => (cs, ideal_seq k cs (stop_ans stop))
  | Backward stop => (cs, ideal_seq k (rev cs) (stop_ans stop))
  | TopK n stop => (cs, ideal_seq k (takeN n (rev cs)) (stop_ans stop))
  | BottomK n stop => (cs, ideal_seq k (takeN n cs) (stop_ans stop))
  | Range a b stop => (cs, ideal_range k cs a b (stop_ans stop))
  | Prefix p stop => (cs, ideal_prefix k cs p (stop_ans stop))
  end.

Fixpoint ideal_run (k : kind) (cs : list lrec) (ops : list op) : list lrec * list out :=
  match ops with
  | [] => (cs, [])
  | o :: ops' =>
    let '(cs', x) := ideal_step k cs o in
    let '(cs'', xs) := ideal_run k cs' ops' in
    (cs'', x :: xs)
  end.

(* ---- what a history has to satisfy (a boolean predicate) ---- *)
Definition kpair := (list N * list N)%type.

(* the key pairs a history inserts, and the ones it only probes with *)
Definition ins_keys (o : op) : list akey := match o with Insert a _ => [a] | _ => [] end.
Definition probe_keys (k : kind) (o : op) : list akey :=
  match o with
  | Search a | Delete a => [a]
  | Range a b _ => match k with KUnsigned _ | KSigned _ | KFloat _ => [a; b] | _ => [] end
  | _ => []
  end.
Definition ins_pairs (k : kind) (ops : list op) : list kpair := map (transform k) (flat_map ins_keys ops).
Definition probe_pairs (k : kind) (ops : list op) : list kpair :=
  map (transform k) (flat_map (probe_keys k) ops).

(* two inserted keys: the two forms determine each other, and the transformed
   keys are prefix-free *)
Definition pair_compat (p q : kpair) : bool := Bool.eqb (beq (fst p) (fst q)) (beq (snd p) (snd q)).
Definition pair_pfree (p q : kpair) : bool := negb (has_prefix (snd q) (snd p)) || beq (snd p) (snd q).
Definition ins_ok (ps : list kpair) : bool :=
  forallb (fun p => isbytes (snd p) && forallb (fun q => pair_compat p q && pair_pfree p q) ps) ps.
(* a probe: a byte string; an inserted key with the same getKey form has the same transformed key *)
Definition probe_ok (ins : list kpair) (p : kpair) : bool :=
  isbytes (snd p) && forallb (fun q => implb (beq (fst q) (fst p)) (beq (snd q) (snd p))) ins.
Definition op_ok (k : kind) (o : op) : bool :=
  match k, o with KCollation, Range _ _ _ => false | _, _ => true end.

Definition history_ok (k : kind) (ops : list op) : bool :=
  ins_ok (ins_pairs k ops) && forallb (probe_ok (ins_pairs k ops)) (probe_pairs k ops) &&
  forallb (op_ok k) ops.

(* the representation invariant of the API state *)
Definition rep (st : state) (cs : list lrec) : Prop :=
  match root st with
  | None => cs = []
  | Some t => WF 0 t /\ leaves t = cs
  end /\ size st = Z.of_nat (length cs).
