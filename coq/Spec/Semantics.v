(* What the byte-level reference of Spec/Ideal.v means in terms of the keys the
   caller sees: which keys are valid for a kind, when two keys are the same key,
   the declared order of each kind, and the history-level reading of a map
   ("the value of the latest Insert not followed by a Delete"). *)
From GoArt Require Export Base.Bytes Model.Keys Model.Api Spec.TreeSpec Spec.IterSpec Spec.Ideal.
Open Scope N_scope.

(* keys a tree of kind k can hold *)
Definition akey_ok (k : kind) (a : akey) : bool :=
  match k, a with
  | KAlpha, AB l => isbytes l && nul_free l
  | KUnsigned w, AU x => width_ok w && (x <? wmod w)
  | KSigned w, AS x =>
      width_ok w && (Z.leb (- Z.of_N (signbit w)) x && Z.ltb x (Z.of_N (signbit w)))%Z
  | KFloat w, AF b => fwidth_ok w && (b <? wmod w)
  | KCompound s, AT vs => schema_ok s && tuple_ok s vs
  | KCollation, AC o c => isbytes c
  | _, _ => false
  end.
(* keys a tree of kind k can be probed with (Search, Delete): byte strings may contain 0x00 *)
Definition aprobe_ok (k : kind) (a : akey) : bool :=
  match k, a with
  | KAlpha, AB l => isbytes l
  | _, _ => akey_ok k a
  end.

(* key identity: byte strings by content, numbers by value with all NaNs one key
   and -0 distinct from +0, collation keys by their original string, tuples field-wise *)
Definition akey_same (k : kind) (a b : akey) : Prop :=
  match k, a, b with
  | KAlpha, AB x, AB y => x = y
  | KUnsigned _, AU x, AU y => x = y
  | KSigned _, AS x, AS y => x = y
  | KFloat w, AF x, AF y => fl_samekey w x y
  | KCompound s, AT x, AT y => tuple_same s x y
  | KCollation, AC o _, AC o' _ => o = o'
  | _, _, _ => False
  end.

(* the declared order of each kind: bytewise for byte strings, numeric for integers,
   NaN < -Inf < ... < -0 < +0 < ... < +Inf for floats (fl_lt), tuple-lexicographic for
   compound keys, and for collation trees the bytewise order of the collator's sort keys *)
Definition akey_lt (k : kind) (a b : akey) : Prop :=
  match k, a, b with
  | KAlpha, AB x, AB y => lex_lt x y
  | KUnsigned _, AU x, AU y => x < y
  | KSigned _, AS x, AS y => (x < y)%Z
  | KFloat w, AF x, AF y => fl_lt w x y
  | KCompound s, AT x, AT y => tuple_lt s x y
  | KCollation, AC _ c, AC _ c' => lex_lt c c'
  | _, _, _ => False
  end.
Definition akey_le (k : kind) (a b : akey) : Prop := akey_lt k a b \/ akey_same k a b.

(* the key a stored record stands for *)
Definition key_of (k : kind) (l : lrec) : akey := restore k (to_leaf l).

(* ---- history-level reading of the map ---- *)
(* value bound to gk after the operations ops, starting from cur *)
Fixpoint hist_lookup (k : kind) (gk : list N) (ops : list op) (cur : option Z) : option Z :=
  match ops with
  | [] => cur
  | Insert a v :: ops' =>
      hist_lookup k gk ops' (if beq (fst (transform k a)) gk then Some v else cur)
  | Delete a :: ops' =>
      hist_lookup k gk ops' (if beq (fst (transform k a)) gk then None else cur)
  | _ :: ops' => hist_lookup k gk ops' cur
  end.

(* what an ideal map answers to the i-th operation, given the operations before it *)
Definition map_answer (k : kind) (before : list op) (o : op) : option out :=
  match o with
  | Insert _ _ => Some OUnit
  | Search a =>
      Some (match hist_lookup k (fst (transform k a)) before None with
            | Some v => OFound v
            | None => OAbsent
            end)
  | Delete a =>
      Some (OBool (match hist_lookup k (fst (transform k a)) before None with Some _ => true | None => false end))
  | _ => None
  end.

(* outputs of a run restricted to the three map operations, against map_answer *)
Fixpoint map_outputs_ok (k : kind) (before ops : list op) (outs : list out) : Prop :=
  match ops, outs with
  | [], [] => True
  | o :: ops', x :: outs' =>
      match map_answer k before o with Some y => x = y | None => True end /\
      map_outputs_ok k (before ++ [o]) ops' outs'
  | _, _ => False
  end.

(* number of distinct keys bound after ops *)
Definition bound_keys (k : kind) (ops : list op) : list (list N) :=
  nodup (list_eq_dec N.eq_dec)
        (filter (fun gk => match hist_lookup k gk ops None with Some _ => true | None => false end)
                (map fst (ins_pairs k ops))).

(* numeric range reading: the bounds the caller means *)
Definition between (k : kind) (lo hi x : akey) : Prop := akey_le k lo x /\ akey_le k x hi.
