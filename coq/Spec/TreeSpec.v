(* Specification vocabulary of the tree layer (T): the content of a tree as the
   in-order list of its leaves, the well-formedness invariant WF (the tree is the
   compressed radix tree of its key set, over raw nodes satisfying nwf), and the
   ideal map the tree is supposed to implement: a list of leaf records keyed by
   the getKey form, ordered bytewise by the transformed key. *)
From GoArt Require Export Base.Bytes Model.Node Model.Tree Spec.NodeSpec.
Open Scope N_scope.

(* a leaf record: (getKey form, transformed key, value) *)
Definition lrec := (list N * list N * Z)%type.
Definition lgk (l : lrec) : list N := fst (fst l).
Definition ltk (l : lrec) : list N := snd (fst l).
Definition lv (l : lrec) : Z := snd l.
Definition to_leaf (l : lrec) : tree := Leaf (lgk l) (ltk l) (lv l).

(* in-order leaves; fuel = height, see leaves_inner in Proofs/TreeBasics.v for
   the fuel-free equation *)
Fixpoint leaves_f (fuel : nat) (t : tree) : list lrec :=
  match fuel with
  | O => []
  | S f =>
    match t with
    | Leaf gk tk v => [(gk, tk, v)]
    | Inner n => flat_map (leaves_f f) (nchildren n)
    end
  end.
Definition leaves (t : tree) : list lrec := leaves_f (theight t) t.

(* WF d t: t hangs below d consumed key bytes and is a well-formed compressed
   radix tree: raw node invariant, at least two children, every leaf below shares
   the first d + prefixLen bytes (the compressed path), the inline bytes agree
   with that path on min(prefixLen, 10) positions, every leaf below the child
   registered under b has b at position d + prefixLen, children are WF one byte
   further down.  Stored keys are byte strings. *)
Inductive WF : nat -> tree -> Prop :=
| WF_leaf : forall d gk tk v, isbytes tk = true -> WF d (Leaf gk tk v)
| WF_inner : forall d n,
    nwf n ->
    (2 <= length (nenum n))%nat ->
    (exists q, length q = (d + prefixLen (nhdr n))%nat /\
       Forall (fun l => firstn (d + prefixLen (nhdr n)) (ltk l) = q) (leaves (Inner n)) /\
       firstn (Nat.min (prefixLen (nhdr n)) maxPrefixLen) (prefix (nhdr n)) =
       firstn (Nat.min (prefixLen (nhdr n)) maxPrefixLen) (skipn d q)) ->
    Forall (fun bc => WF (d + prefixLen (nhdr n) + 1) (snd bc) /\
                      Forall (fun l => nth_error (ltk l) (d + prefixLen (nhdr n)) = Some (fst bc))
                             (leaves (snd bc))) (nenum n) ->
    WF d (Inner n).

(* ---- the ideal map on leaf records ---- *)
Definition find_gk (gk : list N) (cs : list lrec) : option lrec :=
  find (fun l => beq (lgk l) gk) cs.
Definition mem_gk (gk : list N) (cs : list lrec) : bool :=
  existsb (fun l => beq (lgk l) gk) cs.

(* insertion at the position the transformed key determines *)
Fixpoint ins_tk (x : lrec) (cs : list lrec) : list lrec :=
  match cs with
  | [] => [x]
  | y :: cs' => if lex_ltb (ltk x) (ltk y) then x :: cs else y :: ins_tk x cs'
  end.
Definition set_v (gk : list N) (v : Z) (cs : list lrec) : list lrec :=
  map (fun l => if beq (lgk l) gk then (lgk l, ltk l, v) else l) cs.
Definition upsert (gk tk : list N) (v : Z) (cs : list lrec) : list lrec :=
  if mem_gk gk cs then set_v gk v cs else ins_tk (gk, tk, v) cs.
Definition remove_gk (gk : list N) (cs : list lrec) : list lrec :=
  filter (fun l => negb (beq (lgk l) gk)) cs.

(* what the history has to guarantee about a key (gk, tk) used with content cs:
   the two key forms determine each other (trivial for generated trees, where
   they are equal; for collation trees it says the collator is a function and
   tells the stored strings apart) *)
Definition compat (gk tk : list N) (cs : list lrec) : Prop :=
  forall l, In l cs -> (lgk l = gk <-> ltk l = tk).
(* the transformed key is neither a proper prefix of a stored one nor extends one *)
Definition pfree (tk : list N) (cs : list lrec) : Prop :=
  forall l, In l cs -> ltk l <> tk -> ~ is_prefix tk (ltk l) /\ ~ is_prefix (ltk l) tk.

(* every leaf of the tree agrees with tk on the first d bytes *)
Definition shares (d : nat) (tk : list N) (cs : list lrec) : Prop :=
  Forall (fun l => firstn d (ltk l) = firstn d tk) cs.
