(* Specification vocabulary of the node layer: association lists sorted by
   branch byte, and the representation invariant nwf of a raw node. *)
From GoArt Require Export Base.Bytes Model.Node4 Model.Node16 Model.Node.
From Coq Require Export Sorting.Sorted.
Open Scope N_scope.

Section Assoc.
Context {C : Type}.

Fixpoint assoc (b : N) (l : list (N * C)) : option C :=
  match l with
  | [] => None
  | (k, c) :: l' => if k =? b then Some c else assoc b l'
  end.

(* insertion of an absent byte at its sorted position *)
Fixpoint ins_sorted (b : N) (c : C) (l : list (N * C)) : list (N * C) :=
  match l with
  | [] => [(b, c)]
  | (k, x) :: l' => if b <? k then (b, c) :: l else (k, x) :: ins_sorted b c l'
  end.

Fixpoint rem_key (b : N) (l : list (N * C)) : list (N * C) :=
  match l with
  | [] => []
  | (k, x) :: l' => if k =? b then l' else (k, x) :: rem_key b l'
  end.

Fixpoint repl_key (b : N) (c : C) (l : list (N * C)) : list (N * C) :=
  match l with
  | [] => []
  | (k, x) :: l' => if k =? b then (k, c) :: l' else (k, x) :: repl_key b c l'
  end.

Definition keys_sorted (l : list (N * C)) : Prop :=
  StronglySorted N.lt (map fst l) /\ Forall (fun b => b < 256) (map fst l).

(* the thresholds the proofs need from the regenerated Gen/Params.v *)
Definition params_ok : Prop :=
  maxNode4 <= 4 /\ maxNode16 <= 16 /\ maxNode48 <= 48 /\ 3 <= shrink16 /\
  shrink16 <= maxNode4 /\ shrink16 < shrink48 /\ shrink48 <= maxNode16 /\
  maxNode4 < maxNode16 /\ maxNode16 < maxNode48 /\
  shrink48 < shrink256 /\ shrink256 <= maxNode48 /\ shrink256 < 255 /\
  (0 < maxPrefixLen)%nat.

(* representation invariant of one raw node *)
Definition nwf (n : rnode C) : Prop :=
  length (prefix (nhdr n)) = maxPrefixLen /\
  match n with
  | N4 _ len keys ch =>
      keys < M32 /\ len = N.of_nat (length ch) /\ len <= maxNode4 /\
      StronglySorted N.lt (firstn (length ch) (lanes keys)) /\
      (* all unoccupied lanes carry one common byte *)
      (exists s, forall i, (length ch <= i < 4)%nat -> lane keys i = s)
  | N16 _ len keys ch =>
      length keys = 16%nat /\ Forall (fun b => b < 256) keys /\
      len = N.of_nat (length ch) /\ shrink16 < len /\ len <= maxNode16 /\
      StronglySorted N.lt (firstn (length ch) keys)
  | N48 _ len idx slots =>
      length idx = 256%nat /\ length slots = 48%nat /\
      (* index and slots are inverse partial maps *)
      (forall b, (b < 256)%nat ->
         let i := nth b idx 0 in
         i = 0 \/ (1 <= i /\ i <= 48 /\ exists c, nth_error slots (N.to_nat (i - 1)) = Some (Some c))) /\
      (forall b1 b2, (b1 < 256)%nat -> (b2 < 256)%nat ->
         nth b1 idx 0 <> 0 -> nth b1 idx 0 = nth b2 idx 0 -> b1 = b2) /\
      (forall i c, nth_error slots i = Some (Some c) ->
         exists b, (b < 256)%nat /\ nth b idx 0 = N.of_nat i + 1) /\
      len = N.of_nat (length (enum_idx idx slots 0)) /\ shrink48 < len /\ len <= maxNode48
  | N256 _ len slots =>
      length slots = 256%nat /\
      len = u8 (N.of_nat (length (enum_slots slots 0))) /\
      shrink256 < N.of_nat (length (enum_slots slots 0))
  end.

End Assoc.
