(* C13 — key arguments are neither written to nor retained.
   Model/Mem.v: Go byte slices (pointer, len, cap) over a heap of arrays, append
   (in place when there is spare capacity, else a new array; the growth policy g is
   arbitrary), bytes.Clone, s[:len:len]; the key-building step
   `keyS = append(X, 0)` of the byte-string tree by the SHAPE of X as the regenerated
   table Gen/SrcFacts.append_sites records it; CollationOrderKey.Transform.
     - every key-building append site of the byte-string tree clips the capacity
       first (regenerated table), and all five sites are in the table;
     - with the clip no byte of any array that existed before the call changes
       (the caller's key and the spare capacity behind it included) and the stored
       key lives in an array allocated by the call: later writes to any caller
       array cannot change it;
     - call after call, interleaved with arbitrary caller writes and allocations,
       the stored keys are the pure function of the bytes read AT CALL TIME;
     - the collation path: both stored keys are clones, a later Transform (which
       reuses the collator's buffer) does not touch them;
     - not vacuous: without the clip the caller's array is written and the leaf
       follows the caller's buffer; without bytes.Clone the leaf's sort key is
       overwritten by the next Transform.
   Only property theorems here; proofs in Proofs/MemFacts.v. *)
(* String first: List (re-exported by Base.Bytes) must win for `length` *)
From Coq Require Import Strings.String.
From GoArt Require Import Base.Bytes Model.Mem Proofs.MemFacts.
From GoArt Require Gen.SrcFacts.   (* not imported: it opens string_scope *)
Open Scope N_scope.

(* ---------------- the regenerated table ---------------- *)
Theorem C13_key_append_sites_clip :
  forallb (fun e => let '(file, fn, shape, txt) := e in
                    negb (is_key_site fn txt) || String.eqb shape "slice3")
          SrcFacts.append_sites = true.
Proof. exact key_append_sites_clip. Qed.
Print Assumptions C13_key_append_sites_clip.

Theorem C13_key_append_sites_present :
  forallb (fun mv => let '(m, v) := mv in
             existsb (fun e => let '(file, fn, shape, txt) := e in
                        is_key_site fn txt && contains m fn && contains v txt)
                     SrcFacts.append_sites)
          [(".Insert", "keyS"); (".Search", "keyS"); (".Delete", "keyS");
           (".Range", "startKey"); (".Range", "endKey")]%string = true.
Proof. exact key_append_sites_present. Qed.
Print Assumptions C13_key_append_sites_present.

(* ---------------- the clipped append ---------------- *)
Theorem C13_build_key_slice3_no_write : forall g h arg, slice_ok h arg ->
  exists h' k, build_key g "slice3" h arg = Some (h', k) /\
    old_arrays_unchanged h h' /\                   (* all old arrays intact, whole capacity *)
    (length h <= arr k < length h')%nat /\         (* the key lives in a newly allocated array *)
    slice_ok h' k /\
    read h' k = read h arg ++ [0] /\
    read h' arg = read h arg /\ read_cap h' arg = read_cap h arg.
Proof. exact build_key_slice3_no_write. Qed.
Print Assumptions C13_build_key_slice3_no_write.

(* later scribbling over any array that existed before the call cannot change the stored key *)
Theorem C13_leaf_owns_key : forall g h arg h' k id bytes, slice_ok h arg ->
  build_key g "slice3" h arg = Some (h', k) -> (id < length h)%nat ->
  read (overwrite h' id bytes) k = read h' k.
Proof. exact leaf_owns_key. Qed.
Print Assumptions C13_leaf_owns_key.

(* table and semantics together: at every key-building site of the byte-string tree,
   as the source stands *)
Theorem C13_key_sites_no_write : forall file fn shape txt,
  In (file, fn, shape, txt) SrcFacts.append_sites -> is_key_site fn txt = true ->
  forall g h arg, slice_ok h arg ->
  exists h' k, build_key g shape h arg = Some (h', k) /\
    old_arrays_unchanged h h' /\ (length h <= arr k < length h')%nat /\
    read h' k = read h arg ++ [0] /\ read_cap h' arg = read_cap h arg /\
    forall id bytes, (id < length h)%nat -> read (overwrite h' id bytes) k = read h' k.
Proof. exact key_sites_no_write. Qed.
Print Assumptions C13_key_sites_no_write.

(* ---------------- the tree's leaves, call after call ---------------- *)
(* one API call, whatever its arguments alias (even the tree's own arrays) *)
Theorem C13_m_call_slice3 : forall g st c, m_inv st ->
  (forall a, In a (call_args c) -> slice_ok (mheap st) a) ->
  exists st', m_call g "slice3" st c = Some st' /\
    old_arrays_unchanged (mheap st) (mheap st') /\
    (forall a, In a (call_args c) ->
       read (mheap st') a = read (mheap st) a /\ read_cap (mheap st') a = read_cap (mheap st) a) /\
    m_inv st' /\
    contents st' = spec_call (mheap st) c (contents st).
Proof. exact m_call_slice3. Qed.
Print Assumptions C13_m_call_slice3.

(* any interleaving of API calls and of caller writes / allocations: the keys the
   leaves hold are exactly the pure history of byte values read at call time *)
Theorem C13_reach_contents : forall g st ks, reach g st ks -> contents st = ks /\ m_inv st.
Proof. exact reach_contents. Qed.
Print Assumptions C13_reach_contents.

(* ---------------- the collation path ---------------- *)
Theorem C13_coll_transform_spec : forall g f h buf k,
  slice_ok h buf -> (arr buf < length h)%nat -> slice_ok h k ->
  exists h' buf' keyS colKey, coll_transform g f h buf k = (h', buf', keyS, colKey) /\
    old_arrays_unchanged_except (arr buf) h h' /\
    (length h <= arr keyS < length h')%nat /\ (length h <= arr colKey < length h')%nat /\
    arr keyS <> arr colKey /\ arr keyS <> arr buf' /\ arr colKey <> arr buf' /\
    slice_ok h' buf' /\ (arr buf' < length h')%nat /\ slice_ok h' keyS /\ slice_ok h' colKey /\
    read h' keyS = read h k /\ read h' colKey = f (read h k).
Proof. exact coll_transform_spec. Qed.
Print Assumptions C13_coll_transform_spec.

Theorem C13_coll_leaf_owns_keys : forall g f h buf k h' buf' keyS colKey id bytes,
  slice_ok h buf -> (arr buf < length h)%nat -> slice_ok h k ->
  coll_transform g f h buf k = (h', buf', keyS, colKey) ->
  (id < length h)%nat \/ id = arr buf' ->
  read (overwrite h' id bytes) keyS = read h' keyS /\
  read (overwrite h' id bytes) colKey = read h' colKey.
Proof. exact coll_leaf_owns_keys. Qed.
Print Assumptions C13_coll_leaf_owns_keys.

Theorem C13_coll_second_transform_preserves_leaf : forall g f h buf k1 h1 buf1 keyS1 colKey1 k2,
  slice_ok h buf -> (arr buf < length h)%nat -> slice_ok h k1 ->
  coll_transform g f h buf k1 = (h1, buf1, keyS1, colKey1) -> slice_ok h1 k2 ->
  exists h2 buf2 keyS2 colKey2, coll_transform g f h1 buf1 k2 = (h2, buf2, keyS2, colKey2) /\
    read h2 keyS1 = read h k1 /\ read h2 colKey1 = f (read h k1) /\
    read h2 keyS2 = read h1 k2 /\ read h2 colKey2 = f (read h1 k2) /\
    old_arrays_unchanged_except (arr buf1) h1 h2.
Proof. exact coll_second_transform_preserves_leaf. Qed.
Print Assumptions C13_coll_second_transform_preserves_leaf.

(* ---------------- not vacuous ---------------- *)
(* without the clip a caller array changes and the key aliases it *)
Theorem C13_unclipped_append_writes_caller : forall g, exists h arg, slice_ok h arg /\
  exists h' k, build_key g "ident" h arg = Some (h', k) /\
    nth_error h' (arr arg) <> nth_error h (arr arg) /\ arr k = arr arg.
Proof. exact unclipped_append_writes_caller. Qed.
Print Assumptions C13_unclipped_append_writes_caller.

(* ... and the leaf built on it follows the caller's buffer *)
Theorem C13_unclipped_leaf_follows_caller : forall g, exists h arg, slice_ok h arg /\
  exists h' k bytes, build_key g "ident" h arg = Some (h', k) /\
    read (overwrite h' (arr arg) bytes) k <> read h' k.
Proof. exact unclipped_leaf_follows_caller. Qed.
Print Assumptions C13_unclipped_leaf_follows_caller.

(* in general: whenever the argument has spare capacity the unclipped append stores
   the terminator in the caller's array *)
Theorem C13_unclipped_append_writes_spare : forall g shape h arg a,
  shape = "ident"%string \/ shape = "slice"%string ->
  slice_ok h arg -> (len arg < cap arg)%nat -> nth_error h (arr arg) = Some a ->
  exists h' k, build_key g shape h arg = Some (h', k) /\
    nth_error h' (arr arg) = Some (set_nth a (off arg + len arg) 0) /\
    arr k = arr arg /\
    (nth_error a (off arg + len arg) <> Some 0 -> nth_error h' (arr arg) <> nth_error h (arr arg)).
Proof. exact unclipped_append_writes_spare. Qed.
Print Assumptions C13_unclipped_append_writes_spare.

(* without bytes.Clone the leaf's colKey is a slice of the collator's buffer and the
   next Transform overwrites it *)
Theorem C13_coll_noclone_leaf_clobbered :
  let g := fun _ : nat => 0%nat in
  let f := fun x : list N => x in
  let h := [[0; 0; 0; 0; 0; 0; 0; 0]; [97; 98]; [99; 100]] in
  let buf := mkSlice 0 0 0 8 in
  let '(h1, buf1, _, colKey1) := coll_transform_noclone g f h buf (mkSlice 1 0 2 2) in
  let '(h2, _, _, _) := coll_transform_noclone g f h1 buf1 (mkSlice 2 0 2 2) in
  read h1 colKey1 = [97; 98] /\ read h2 colKey1 = [99; 100].
Proof. exact coll_noclone_leaf_clobbered. Qed.
Print Assumptions C13_coll_noclone_leaf_clobbered.

(* ... and the code as it reads today returns copies for both results (REGENERATED from keys.go) *)
Theorem C13_collation_transform_copies :
  map snd SrcFacts.collation_transform_results = ["copy"; "copy"]%string.
Proof. exact collation_transform_copies. Qed.
Print Assumptions C13_collation_transform_copies.
