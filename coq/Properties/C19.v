(* C19 — the checked-in generated trees are what the generator produces.
   Gen/GenOut.v is regenerated on every run: `generated` is the gofmt-ed output of
   `go run cmd/go-art/main.go` executed on a scratch copy, `checked_in` is /repo's
   trees.go, both split into header + one chunk per template instantiation.
   The statement is closed, finite and decidable, so kernel evaluation proves it. *)
From Coq Require Import List String Bool.
From GoArt Require Import Gen.GenOut Gen.Params.
Import ListNotations.

Fixpoint lines_eqb (a b : list string) : bool :=
  match a, b with
  | [], [] => true
  | x :: a', y :: b' => String.eqb x y && lines_eqb a' b'
  | _, _ => false
  end.
Fixpoint chunks_eqb (a b : list (list string)) : bool :=
  match a, b with
  | [], [] => true
  | x :: a', y :: b' => lines_eqb x y && chunks_eqb a' b'
  | _, _ => false
  end.

Lemma lines_eqb_eq : forall a b, lines_eqb a b = true -> a = b.
Proof.
  induction a as [|x a IH]; destruct b as [|y b]; simpl; intros H; try discriminate; auto.
  apply andb_true_iff in H. destruct H as [H1 H2]. apply String.eqb_eq in H1. f_equal; auto.
Qed.
Lemma chunks_eqb_eq : forall a b, chunks_eqb a b = true -> a = b.
Proof.
  induction a as [|x a IH]; destruct b as [|y b]; simpl; intros H; try discriminate; auto.
  apply andb_true_iff in H. destruct H as [H1 H2]. apply lines_eqb_eq in H1. f_equal; auto.
Qed.

(* byte-for-byte: the generator ran, produced header + one chunk per instantiation of
   cmd/go-art/main.go, and every chunk equals the checked-in one *)
Theorem C19_checked_in_is_generated :
  generator_ran = true /\
  List.length generated = S (List.length instantiations) /\
  generated = checked_in.
Proof.
  split; [vm_compute; reflexivity|].
  split; [vm_compute; reflexivity|].
  apply chunks_eqb_eq. vm_compute. reflexivity.
Qed.
Print Assumptions C19_checked_in_is_generated.
