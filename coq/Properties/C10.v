(* C10 — a raw node driven by any legal sequence of child additions and removals
   from the empty node4 is a correct ordered byte -> child table through every grow
   and shrink, and the word-level routines (SWAR on the node4 key word, the node16
   bitfield scan) equal the plain scalar scans whatever the unoccupied lanes hold.
   Only property theorems here; proofs in Proofs/NodeSeqFacts.v, Proofs/NodeFacts.v,
   Proofs/Node4Facts.v. *)
From GoArt Require Import Base.Bytes Model.Node4 Model.Node16 Model.Node
  Spec.NodeSpec Proofs.Node4Facts Proofs.NodeFacts Proofs.NodeSeqFacts.
Open Scope N_scope.

Theorem C10_node_table : forall (C : Type) h (ops : list (nop C)),
  length (prefix h) = maxPrefixLen -> ops_ok [] ops ->
  let n := fold_left node_step ops (empty4 h) in
  let tab := fold_left tab_step ops [] in
  nwf n /\ nenum n = tab /\ nhdr n = h /\
  (forall b, b < 256 -> nfind n b = assoc b tab) /\
  StronglySorted N.lt (map fst (nenum n)).
Proof. exact @node_table. Qed.
Print Assumptions C10_node_table.

Theorem C10_node_table_probe_all : forall (C : Type) h (ops : list (nop C)),
  length (prefix h) = maxPrefixLen -> ops_ok [] ops ->
  map (nfind (fold_left node_step ops (empty4 h))) all_bytes =
  map (fun b => assoc b (fold_left tab_step ops [])) all_bytes.
Proof. exact @node_table_probe_all. Qed.
Print Assumptions C10_node_table_probe_all.

Theorem C10_swar_search4_scan : forall keys b, keys < M32 -> b < 256 ->
  searchNode4 keys b = find_first (fun x => x =? b) (lanes keys) 0.
Proof. exact swar_search4_scan. Qed.
Print Assumptions C10_swar_search4_scan.

(* NB: first lane >= b, not > b *)
Theorem C10_swar_insertpos4_scan : forall keys b, keys < M32 -> b < 256 ->
  insertPosNode4 keys b = find_first (fun x => b <=? x) (lanes keys) 0.
Proof. exact swar_insertpos4_scan. Qed.
Print Assumptions C10_swar_insertpos4_scan.

Theorem C10_vec_search16_scan : forall keys len b, length keys = 16%nat -> len <= 16 ->
  searchNode16 keys len b = find_first (fun x => x =? b) (firstn (N.to_nat len) keys) 0.
Proof. exact vec_search16_scan. Qed.
Print Assumptions C10_vec_search16_scan.

Theorem C10_vec_insertpos16_scan : forall keys len b, length keys = 16%nat -> len <= 16 ->
  insertPosNode16 keys len b = find_first (fun x => b <? x) (firstn (N.to_nat len) keys) 0.
Proof. exact vec_insertpos16_scan. Qed.
Print Assumptions C10_vec_insertpos16_scan.

(* the thresholds and capacities regenerated from node.go satisfy what the proofs need *)
Theorem C10_params_hold : params_ok.
Proof. exact params_hold. Qed.
Print Assumptions C10_params_hold.

(* ---- node.go regenerated: the translation of the current source (Gen/NodeGen.v, written by
   go/cmd/srcfacts/translate_node.go on every run in the vocabulary of Model/GoNode.v) is the
   hand-written raw-storage model (Model/Pool.v, Model/PoolTree.v) ---- *)
From GoArt Require Import Model.Pool Model.PoolTree Model.GoNode Gen.NodeGen Proofs.TranslateNodeFacts.

Theorem C10_regenerated_node48_addChild : forall (C : Type) h idx (ch : list (option C)) b c os p,
  Pool.shape_ok (X48 h idx ch) = true -> pool_shapes p -> xlen h < maxNode48 \/ bytes_lt idx ->
  g_node48_addChild (X48 h idx ch) b c os p = Pool.xadd48 h idx ch b c os p.
Proof. exact @gen_node48_addChild_eq. Qed.
Print Assumptions C10_regenerated_node48_addChild.

Theorem C10_regenerated_node16_deleteChild : forall (C : Type) h keys (ch : list (option C)) b os p,
  Pool.shape_ok (X16 h keys ch) = true -> pool_shapes p -> (0 <= searchNode16 keys (xlen h) b < 16)%Z ->
  g_node16_deleteChild (X16 h keys ch) b os p = Pool.xdel16 h keys ch b os p.
Proof. exact @gen_node16_deleteChild_eq. Qed.
Print Assumptions C10_regenerated_node16_deleteChild.

Theorem C10_regenerated_findChild : forall (C : Type) (n : xnode C) b, idx_bytes n ->
  g_findChild n b = PoolTree.xfind n b.
Proof. exact @gen_findChild_eq. Qed.
Print Assumptions C10_regenerated_findChild.
