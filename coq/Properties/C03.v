(* C03 — Range: answers as the reference (a filter of the sorted content between
   the normalised bounds, both inclusive), on every valid history and every
   consumer; what the byte filter means in the declared order; the bound
   normalisation per kind.  Range of collation trees is outside the claim.
   Only property theorems here; proofs in Proofs/PropFacts.v. *)
From GoArt Require Import Base.Bytes Model.Keys Model.Node Model.Tree Model.Api
  Spec.TreeSpec Spec.IterSpec Spec.Ideal Spec.Semantics Proofs.ApiFacts Proofs.PropFacts.
Open Scope N_scope.

Theorem C03_range_reference : forall k ops a b stop,
  history_ok k (ops ++ [Range a b stop]) = true ->
  snd (step k (st_of k ops) (Range a b stop)) = ideal_range k (cs_of k ops) a b (stop_ans stop).
Proof. exact range_reference. Qed.
Print Assumptions C03_range_reference.

Theorem C03_empty_tree : forall k a b stop, k <> KCollation ->
  exists l c, snd (step k init (Range a b stop)) = OSeq l c /\ l = [].
Proof. exact range_empty_tree. Qed.
Print Assumptions C03_empty_tree.

(* what the byte filter means: bounds inclusive, in the declared order *)
Theorem C03_in_range_meaning : forall k a b x v, k <> KCollation ->
  akey_ok k a = true -> akey_ok k b = true -> akey_ok k x = true ->
  (in_range (fst (transform k a)) (fst (transform k b))
            (fst (transform k x), snd (transform k x), v) = true <-> between k a b x).
Proof. exact in_range_meaning. Qed.
Print Assumptions C03_in_range_meaning.

(* bound normalisation of the numeric kinds: whichever way round, equal bounds included *)
Theorem C03_numeric_bounds : forall k cs a b ans, is_num k = true ->
  akey_ok k a = true -> akey_ok k b = true ->
  (akey_lt k a b -> ideal_range k cs a b ans =
     ideal_seq k (filter (in_range (fst (transform k a)) (fst (transform k b))) cs) ans) /\
  (akey_lt k b a -> ideal_range k cs a b ans =
     ideal_seq k (filter (in_range (fst (transform k b)) (fst (transform k a))) cs) ans) /\
  (akey_same k a b -> ideal_range k cs a b ans =
     match find_gk (fst (transform k a)) cs with
     | Some l => OSeq [(a, lv l)] 1
     | None => OSeq [] 0
     end).
Proof. exact numeric_bounds. Qed.
Print Assumptions C03_numeric_bounds.

(* byte strings: empty end bound = largest stored key; swapped bounds *)
Theorem C03_alpha_bounds : forall cs s e ans, cs <> [] ->
  ideal_range KAlpha cs (AB s) (AB e) ans =
  let e' := if (length e =? 0)%nat
            then match hd_error (rev cs) with Some l => removelast (lgk l) | None => [] end
            else e in
  let lo := match lex_cmp s e' with Gt => e' | _ => s end in
  let hi := match lex_cmp s e' with Gt => s | _ => e' end in
  ideal_seq KAlpha (filter (in_range (lo ++ [0]) (hi ++ [0])) cs) ans.
Proof. exact alpha_bounds. Qed.
Print Assumptions C03_alpha_bounds.

(* the regenerated tie: rangeScan() of tree.go (prologue and closure), translated from the Go AST on every run
   (Gen/IterGen.v), IS Model.Iter.walk with range_leaf_act and expand_range (range_search ts te) -- for every budget,
   every raw tree satisfying the invariant and all bounds: same calls, same delivered leaves, same status, no panic *)
From GoArt Require Import Model.Iter Model.PoolTree Proofs.PoolTreeFacts Model.GoTree Gen.IterGen Proofs.TranslateIterFacts.
Theorem C03_regenerated_rangeScan : forall fuel t gs ge ts te ans, xtwf t ->
  ires_abs (g_rangeScan fuel (Some t) gs ge ts te ans) =
  Some (walk (range_leaf_act gs ge) (expand_range (range_search ts te)) fuel [(tabs t, 0%nat)] ans 0 []).
Proof. exact gen_rangeScan_eq. Qed.
Print Assumptions C03_regenerated_rangeScan.

(* the regenerated tie: the Range METHODS of the trees (trees.go, one template; collation.go), translated from the Go AST
   on every run (Gen/ApiGen.v) over the regenerated rangeScan / maximum / Search, ARE Model.Api.do_range read on the raw
   state through sabs: the empty tree, the open end (re-read from the maximum leaf through the regenerated restoreKey),
   the swap, and for the numeric kinds the comparison of the ENCODED bounds with the equal-bounds lookup; the codec is
   a parameter, instantiated with the model's transform / restore (alpha: the identity codec, the terminator is added
   by the regenerated code); the budgets are the ones Model/Api.v gives (theight for maximum, walk_fuel for the scan,
   key_fuel for Search). kres_out reads what the consumer was called with the way Api.seq_out does. Hypotheses: the
   invariants every reachable state satisfies (TranslateApiFacts.state_hyps_reachable, alpha_keys_reachable). *)
From GoArt Require Import Model.Api Model.PoolTree Proofs.PoolTreeFacts Model.GoTree Gen.ApiGen Proofs.TranslateApiBase Proofs.TranslateApiRange.
Theorem C03_regenerated_alpha_Range : forall tr st a b ans fm fr, sinv st -> root_wf (sabs st) -> keys_ok nonempty_key st ->
  (forall t, xroot st = Some t -> fm = theight (tabs t) /\ fr = walk_fuel (tabs t)) ->
  kres_out AB (g_alpha_Range tr alpha_rs fm fr (xroot st) a b ans) = do_range KAlpha (sabs st) (AB a) (AB b) ans.
Proof. exact gen_alpha_range_eq. Qed.
Print Assumptions C03_regenerated_alpha_Range.
Theorem C03_regenerated_float_Range : forall w st a b ans fr, sinv st -> isbytes (snd (transform (KFloat w) a)) = true ->
  (forall t, xroot st = Some t -> fr = walk_fuel (tabs t)) ->
  kres_out idk (g_float_Range akey (mtr (KFloat w)) (mrs (KFloat w)) (key_fuel (snd (transform (KFloat w) a))) fr (xroot st) a b ans) =
  do_range (KFloat w) (sabs st) a b ans.
Proof. exact gen_float_range_eq. Qed.
Print Assumptions C03_regenerated_float_Range.
Theorem C03_regenerated_compound_Range : forall k st a b ans fm fr, is_cmp k = true -> sinv st -> root_wf (sabs st) ->
  (forall t, xroot st = Some t -> fm = theight (tabs t) /\ fr = walk_fuel (tabs t)) ->
  kres_out idk (g_compound_Range akey (mtr k) (mrs k) fm fr (xroot st) a b ans) = do_range k (sabs st) a b ans.
Proof. exact gen_compound_range_eq. Qed.
Print Assumptions C03_regenerated_compound_Range.
