(* C16 — the logic part of "concurrent readers are safe, trees are independent".
   The runtime part (race detector runs, evidence/C16.json) observes executions; what
   is PROVED here, on the source facts regenerated from /repo on every run
   (Gen/WriteFacts.v, Gen/SrcFacts.v; classification Model/Facts.v, trusted):
     - the only package-level state is the node pools (sync.Pool) and one read-only
       table; nothing assigns a package-level variable;
     - no function reachable from a read-only API method (Search, Minimum, Maximum,
       Size, All, Backward, Prefix, Range, TopK, BottomK; name-based call graph,
       closed under call edges) writes to the heap, except the codec scratch of the
       collation tree (cok.src / cok.buf) — which is why the concurrent-reader claim
       excludes collation trees; the exception is really used;
     - the write paths do write (the table is not trivially empty);
   and, on the pool model (Model/Pool.v): operations on different nodes / trees meet
   only in the pool, and the pool's behaviour is irrelevant — every node ends
   exactly as it ends alone, for every interleaving, oracle and drop.
   Only property theorems here; proofs in Proofs/StaticFacts.v, Proofs/PoolFacts.v. *)
From Coq Require Import List String NArith Bool.
From GoArt Require Import Gen.SrcFacts Gen.WriteFacts Gen.Layouts Model.Facts Proofs.StaticFacts.
From GoArt Require Model.Pool Proofs.PoolFacts.   (* not imported: qualified below *)
Import ListNotations.
Open Scope string_scope.

(* the only package-level state: the node pools, of type sync.Pool (or a fixed array of
   them), and the stringer index table; no package-level variable is ever assigned *)
Theorem C16_only_pools_are_shared :
  forallb (fun v => is_pool_type (typ v) || is_readonly_table v) Gen.SrcFacts.package_vars = true /\
  pkgvar_writes = [].
Proof. exact only_pools_are_shared. Qed.
Print Assumptions C16_only_pools_are_shared.

(* the reachable sets are closed under call edges, and every read-only method of every
   tree kind is a root (6 kinds x 10 methods) *)
Theorem C16_reachable_closed : closed reachable_fns = true /\ closed write_reachable_fns = true.
Proof. exact reachable_closed. Qed.
Print Assumptions C16_reachable_closed.

Theorem C16_read_roots_present :
  forallb (fun m => Nat.leb 6 (List.length (named m))) read_api = true /\
  forallb (fun r => mem r reachable_fns) roots = true.
Proof. exact read_roots_present. Qed.
Print Assumptions C16_read_roots_present.

(* no function reachable from a read-only API method writes to the heap (outside the
   allowed codec scratch) *)
Theorem C16_read_paths_do_not_write :
  forallb (fun w => negb (existsb (String.eqb (fn_of w)) reachable_fns) || allowed_write w)
          heap_writes = true.
Proof. exact read_paths_do_not_write. Qed.
Print Assumptions C16_read_paths_do_not_write.

(* the same fact as an empty list of offenders (what a replay prints when it breaks) *)
Theorem C16_no_offending_write : offending_writes = [].
Proof. exact no_offending_write. Qed.
Print Assumptions C16_no_offending_write.

(* sanity: Insert / Delete do reach writes, the node-level ones included *)
Theorem C16_write_paths_do_write :
  existsb (fun w => existsb (String.eqb (fn_of w)) write_reachable_fns) heap_writes = true.
Proof. exact write_paths_do_write. Qed.
Print Assumptions C16_write_paths_do_write.

Theorem C16_write_paths_reach_node_writes :
  forallb (fun f => mem f write_reachable_fns && existsb (fun w => String.eqb (fn_of w) f) heap_writes)
          ["*node4.addChild"; "*node16.addChild"; "*node48.addChild"; "*node256.addChild";
           "*node4.deleteChild"; "*node16.deleteChild"; "*node48.deleteChild"; "*node256.deleteChild";
           "setAtPos"; "shiftLeftClear"; "shiftRightClear"; "*node4.clear"] = true.
Proof. exact write_paths_reach_node_writes. Qed.
Print Assumptions C16_write_paths_reach_node_writes.

(* the allowed exception is not dead: the codec write exists and is on a read path *)
Theorem C16_allowed_exception_is_used :
  existsb (fun w => allowed_write w && on_read_path w) heap_writes = true.
Proof. exact allowed_exception_is_used. Qed.
Print Assumptions C16_allowed_exception_is_used.

(* trees (and nodes) that share nothing but the pool do not influence one another:
   ANY nodes, any events in any order, any answers of the pool, any drops — every node
   ends exactly as it ends alone with a private empty pool; the pool stays zero *)
Theorem C16_interleave_independent :
  forall (C : Type) evs (st : nat -> Pool.xnode C) p, PoolFacts.zero_pool p ->
  (forall id, fst (Pool.run evs st p) id = Pool.alone id evs (st id)) /\
  PoolFacts.zero_pool (snd (Pool.run evs st p)).
Proof. exact @PoolFacts.interleave_independent. Qed.
Print Assumptions C16_interleave_independent.
