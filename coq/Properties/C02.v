(* C02 — iteration delivers the whole content, each key once, with its current
   value, in the declared order of the kind (forward) or its reverse (backward),
   and keys come back in their original form.
   st_of / cs_of: see Proofs/PropFacts.v (state / reference content after a history).
   Only property theorems here; proofs in Proofs/PropFacts.v. *)
From GoArt Require Import Base.Bytes Model.Keys Model.Node Model.Tree Model.Api
  Spec.NodeSpec Spec.TreeSpec Spec.Ideal Spec.Semantics Proofs.PropFacts.
Open Scope N_scope.

(* All and Backward add no keys to a history, so one hypothesis suffices *)
Theorem C02_all_backward : forall k ops, history_ok k ops = true ->
  let cs := cs_of k ops in
  snd (step k (st_of k ops) (All None)) = OSeq (map (fun l => (key_of k l, lv l)) cs) (length cs) /\
  snd (step k (st_of k ops) (Backward None)) =
    OSeq (rev (map (fun l => (key_of k l, lv l)) cs)) (length cs).
Proof. exact all_backward. Qed.
Print Assumptions C02_all_backward.

(* the content is sorted, duplicate-free, and complete with current values *)
Theorem C02_content : forall k ops, history_ok k ops = true ->
  let cs := cs_of k ops in
  StronglySorted lex_lt (map ltk cs) /\ NoDup (map lgk cs) /\
  (forall gk, option_map lv (find_gk gk cs) = hist_lookup k gk ops None).
Proof. exact content. Qed.
Print Assumptions C02_content.

(* the byte order is the declared order, and keys come back in their original form *)
Theorem C02_declared_order : forall k ops, history_ok k ops = true ->
  (forall a v, In (Insert a v) ops -> akey_ok k a = true) ->
  exists keys,
    Forall2 (fun l a => akey_ok k a = true /\ (lgk l, ltk l) = transform k a /\
                        akey_same k (key_of k l) a) (cs_of k ops) keys /\
    StronglySorted (akey_lt k) keys.
Proof. exact declared_order. Qed.
Print Assumptions C02_declared_order.

(* the regenerated tie: the closures all() and backward() of tree.go return, translated from the Go AST on every run
   (Gen/IterGen.v) and run with the consumer ans, ARE the stack machine Model.Iter.walk of run_all / run_backward on
   the abstracted tree -- for EVERY budget: same calls, same delivered leaves, same status (ires_abs reads
   ByReturn / ByBreak / ByEnd / ByFuel as WStopped / WBroke / WDone / WFuel); in particular no panic.
   Hypothesis: the raw invariant xstep_sim runs under (TranslateTreeFacts.hyps_reachable) *)
From GoArt Require Import Model.Iter Model.PoolTree Proofs.PoolTreeFacts Model.GoTree Gen.IterGen Proofs.TranslateIterBase Proofs.TranslateIterAll Proofs.TranslateIterBackward.
Theorem C02_regenerated_all : forall fuel t ans, xtwf t ->
  ires_abs (g_all fuel (Some t) ans) = Some (walk (fun _ => Deliver) expand_fwd fuel [(tabs t, 0%nat)] ans 0 []).
Proof. exact gen_all_eq. Qed.
Print Assumptions C02_regenerated_all.
Theorem C02_regenerated_backward : forall fuel t ans, xtwf t ->
  ires_abs (g_backward fuel (Some t) ans) = Some (walk (fun _ => Deliver) expand_bwd fuel [(tabs t, 0%nat)] ans 0 []).
Proof. exact gen_backward_eq. Qed.
Print Assumptions C02_regenerated_backward.
