(* C02 — iteration delivers the whole content, each key once, with its current
   value, in the declared order of the kind (forward) or its reverse (backward),
   and keys come back in their original form.
   st_of / cs_of: see Proofs/PropFacts.v (state / reference content after a history).
   Only property theorems here; proofs in Proofs/PropFacts.v. *)
From GoArt Require Import Base.Bytes Model.Keys Model.Node Model.Tree Model.Api
  Spec.NodeSpec Spec.TreeSpec Spec.Ideal Spec.Semantics Proofs.PropFacts.
Open Scope N_scope.

(* All and Backward add no keys to a history, so one hypothesis suffices *)
Theorem C02_all_backward : forall k ops, history_ok k ops = true ->
  let cs := cs_of k ops in
  snd (step k (st_of k ops) (All None)) = OSeq (map (fun l => (key_of k l, lv l)) cs) (length cs) /\
  snd (step k (st_of k ops) (Backward None)) =
    OSeq (rev (map (fun l => (key_of k l, lv l)) cs)) (length cs).
Proof. exact all_backward. Qed.
Print Assumptions C02_all_backward.

(* the content is sorted, duplicate-free, and complete with current values *)
Theorem C02_content : forall k ops, history_ok k ops = true ->
  let cs := cs_of k ops in
  StronglySorted lex_lt (map ltk cs) /\ NoDup (map lgk cs) /\
  (forall gk, option_map lv (find_gk gk cs) = hist_lookup k gk ops None).
Proof. exact content. Qed.
Print Assumptions C02_content.

(* the byte order is the declared order, and keys come back in their original form *)
Theorem C02_declared_order : forall k ops, history_ok k ops = true ->
  (forall a v, In (Insert a v) ops -> akey_ok k a = true) ->
  exists keys,
    Forall2 (fun l a => akey_ok k a = true /\ (lgk l, ltk l) = transform k a /\
                        akey_same k (key_of k l) a) (cs_of k ops) keys /\
    StronglySorted (akey_lt k) keys.
Proof. exact declared_order. Qed.
Print Assumptions C02_declared_order.
