(* C18 — the logic part of "the collector sees everything the tree holds".
   The runtime part (GC stress runs, evidence/C18.json) observes executions; what is
   PROVED here is about the memory layouts `harness layouts` regenerates from /repo's
   current source with reflect/unsafe on every run (Gen/Layouts.v; classification
   Model/Facts.v, trusted):
     - every field through which nodes, leaves and key bytes are reached
       (nodeRef.pointer, the key of every leaf type, colKey of the collation leaf,
       for every probed value type) has a pointer kind the collector scans, and no
       probed field is a uintptr;
     - for each probed value type the alpha / unsigned / signed / float / compound
       leaf types have the same field list (names, kinds, offsets, sizes), size and
       alignment — the code reads leaves of one family through the type of another;
     - `node` is the first field (offset 0) of the four node structs and `children`
       follows the header at one and the same offset in all four — the code reads
       any node's header and children through a *node4.
   Only property theorems here; proofs in Proofs/StaticFacts.v (by computation on the
   regenerated tables). *)
From Coq Require Import List String NArith Bool.
From GoArt Require Import Gen.SrcFacts Gen.WriteFacts Gen.Layouts Model.Facts Proofs.StaticFacts.
Import ListNotations.
Open Scope string_scope.

Theorem C18_reaching_fields_are_scanned :
  forallb field_scanned reaching_fields = true /\ no_uintptr = true.
Proof. exact reaching_fields_are_scanned. Qed.
Print Assumptions C18_reaching_fields_are_scanned.

Theorem C18_template_leaves_coincide : forallb leaves_coincide probes = true.
Proof. exact template_leaves_coincide. Qed.
Print Assumptions C18_template_leaves_coincide.

Theorem C18_header_is_first_field :
  forallb (fun s => header_first s && children_aligned s) node_structs = true.
Proof. exact header_is_first_field. Qed.
Print Assumptions C18_header_is_first_field.
