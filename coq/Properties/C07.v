(* C07 — numeric key encodings are order isomorphisms with exact round trip.
   This file holds only the property theorems; each is closed by a lemma of
   Proofs/KeysFacts.v and followed by Print Assumptions. *)
From GoArt Require Import Base.Bytes Model.Keys Proofs.BytesFacts Proofs.KeysFacts.
Open Scope N_scope.

(* unsigned integers of w bytes, w arbitrary (the library uses 1,2,4,8) *)
Theorem C07_unsigned : forall w x y, x < wmod w -> y < wmod w ->
  length (enc_u w x) = w /\ isbytes (enc_u w x) = true /\
  (lex_lt (enc_u w x) (enc_u w y) <-> x < y) /\
  (enc_u w x = enc_u w y -> x = y) /\
  dec_u w (enc_u w x) = x.
Proof. exact enc_u_spec. Qed.
Print Assumptions C07_unsigned.

(* signed integers (two's complement) of w >= 1 bytes *)
Theorem C07_signed : forall w x y, (0 < w)%nat -> in_srange w x -> in_srange w y ->
  length (enc_s w x) = w /\ isbytes (enc_s w x) = true /\
  (lex_lt (enc_s w x) (enc_s w y) <-> (x < y)%Z) /\
  (enc_s w x = enc_s w y -> x = y) /\
  dec_s w (enc_s w x) = x.
Proof. exact enc_s_spec. Qed.
Print Assumptions C07_signed.

(* float32 / float64 bit patterns: every pattern, NaNs included *)
Theorem C07_float : forall w a b, (w = 4 \/ w = 8)%nat -> a < wmod w -> b < wmod w ->
  length (enc_f w a) = w /\ isbytes (enc_f w a) = true /\
  (lex_lt (enc_f w a) (enc_f w b) <-> fl_lt w a b) /\
  (enc_f w a = enc_f w b <-> fl_samekey w a b) /\
  (is_nan w a = false -> dec_f w (enc_f w a) = a) /\
  (is_nan w a = true -> is_nan w (dec_f w (enc_f w a)) = true).
Proof. exact enc_f_spec. Qed.
Print Assumptions C07_float.

(* the declared float order really is the chain
   NaN < -Inf < negative finite < -0 < +0 < positive finite < +Inf *)
Theorem C07_float_chain : forall w n x y, (w = 4 \/ w = 8)%nat ->
  is_nan w n = true -> n < wmod w ->
  (* x a negative finite non-zero pattern, y a positive finite non-zero one *)
  signbit w < x < ninf_bits w -> 0 < y < pinf_bits w ->
  fl_lt w n (ninf_bits w) /\ fl_lt w (ninf_bits w) x /\ fl_lt w x (signbit w) /\
  fl_lt w (signbit w) 0 /\ fl_lt w 0 y /\ fl_lt w y (pinf_bits w).
Proof. exact fl_lt_chain. Qed.
Print Assumptions C07_float_chain.

(* concatenations of fixed-length codes order tuples lexicographically *)
Theorem C07_concat : forall a a' b b' : list N, length a = length a' ->
  (lex_lt (a ++ b) (a' ++ b') <-> lex_lt a a' \/ (a = a' /\ lex_lt b b')).
Proof. exact lex_app_fixed. Qed.
Print Assumptions C07_concat.

(* non-vacuity: the hypotheses are met at the interesting corners *)
Example C07_corners :
  enc_f 8 0x8000000000000000 = [0x80;0;0;0;0;0;0;1] /\
  lex_lt (enc_f 8 0x8000000000000000) (enc_f 8 0) /\
  enc_f 4 0x7FC00001 = enc_f 4 0xFFFFFFFF /\
  lex_lt (enc_s 8 (-1)) (enc_s 8 0) /\
  dec_s 1 (enc_s 1 (-128)) = (-128)%Z.
Proof. vm_compute. repeat split; reflexivity. Qed.

(* ---- the declared float order is IEEE-754 comparison, as defined independently by Flocq ----
   Proofs/FlocqLink.v.  For bit patterns that are not NaN, fl_lt is IEEE "less than" on the decoded
   values, refined only by -0 < +0; the NaN patterns are exactly the ones Flocq decodes to a NaN.
   The first four statements are on Flocq's decoder binary_float_of_bits_aux and the standard
   library's SFcompare and are closed under the global context.  The b32/b64 forms mention
   b32_of_bits / b64_of_bits, which pack Flocq's validity proof (done over the reals), and therefore
   depend on four axioms DECLARED BY THE STANDARD LIBRARY (printed below and named in DESIGN.md §8):
   ClassicalDedekindReals.sig_not_dec, ClassicalDedekindReals.sig_forall_dec,
   FunctionalExtensionality.functional_extensionality_dep, Classical_Prop.classic. *)
From Flocq Require Import IEEE754.Binary IEEE754.Bits.
From Coq Require Import Floats.SpecFloat.
From GoArt Require Import Proofs.FlocqLink.

Theorem C07_float_order_is_ieee_sf_32 : forall a b : N,
  (a < 2 ^ 32)%N -> (b < 2 ^ 32)%N -> Keys.is_nan 4 a = false -> Keys.is_nan 4 b = false ->
  (fl_lt 4 a b <->
   SFcompare (FF2SF (binary_float_of_bits_aux 23 8 (Z.of_N a)))
             (FF2SF (binary_float_of_bits_aux 23 8 (Z.of_N b))) = Some Lt \/
   (a = 0x80000000 /\ b = 0)%N).
Proof. exact fl_lt_is_sf_lt_32. Qed.
Print Assumptions C07_float_order_is_ieee_sf_32.

Theorem C07_float_order_is_ieee_sf_64 : forall a b : N,
  (a < 2 ^ 64)%N -> (b < 2 ^ 64)%N -> Keys.is_nan 8 a = false -> Keys.is_nan 8 b = false ->
  (fl_lt 8 a b <->
   SFcompare (FF2SF (binary_float_of_bits_aux 52 11 (Z.of_N a)))
             (FF2SF (binary_float_of_bits_aux 52 11 (Z.of_N b))) = Some Lt \/
   (a = 0x8000000000000000 /\ b = 0)%N).
Proof. exact fl_lt_is_sf_lt_64. Qed.
Print Assumptions C07_float_order_is_ieee_sf_64.

Theorem C07_nan_is_ieee_nan_ff_32 : forall a : N,
  Keys.is_nan 4 a = is_nan_FF (binary_float_of_bits_aux 23 8 (Z.of_N a)).
Proof. exact is_nan_is_ff_nan_32. Qed.
Print Assumptions C07_nan_is_ieee_nan_ff_32.

Theorem C07_nan_is_ieee_nan_ff_64 : forall a : N,
  Keys.is_nan 8 a = is_nan_FF (binary_float_of_bits_aux 52 11 (Z.of_N a)).
Proof. exact is_nan_is_ff_nan_64. Qed.
Print Assumptions C07_nan_is_ieee_nan_ff_64.

Theorem C07_float_order_is_ieee_b32 : forall a b : N,
  (a < 2 ^ 32)%N -> (b < 2 ^ 32)%N -> Keys.is_nan 4 a = false -> Keys.is_nan 4 b = false ->
  (fl_lt 4 a b <->
   b32_compare (b32_of_bits (Z.of_N a)) (b32_of_bits (Z.of_N b)) = Some Lt \/
   (a = 0x80000000 /\ b = 0)%N).
Proof. exact fl_lt_is_ieee_lt_32. Qed.
Print Assumptions C07_float_order_is_ieee_b32.

Theorem C07_float_order_is_ieee_b64 : forall a b : N,
  (a < 2 ^ 64)%N -> (b < 2 ^ 64)%N -> Keys.is_nan 8 a = false -> Keys.is_nan 8 b = false ->
  (fl_lt 8 a b <->
   b64_compare (b64_of_bits (Z.of_N a)) (b64_of_bits (Z.of_N b)) = Some Lt \/
   (a = 0x8000000000000000 /\ b = 0)%N).
Proof. exact fl_lt_is_ieee_lt_64. Qed.
Print Assumptions C07_float_order_is_ieee_b64.

(* ---- the model of the numeric codecs is REGENERATED from keys.go on every run ----
   go/cmd/srcfacts/translate_keys.go re-type-checks the generic methods Transform / Restore of
   UnsignedBinaryKey, SignedBinaryKey and FloatBinaryKey at every concrete key type and writes them
   as Gallina definitions (Gen/KeysGen.v, over the Go-semantics vocabulary of Model/GoArith.v);
   Proofs/TranslateKeysFacts.v proves every one of them equal to the hand-written model the theorems
   above are about (28 statements: 1/2/4/8-byte integers, both bits.UintSize branches of uint / int,
   float32 / float64). Four representative ones are restated here: an edit of keys.go that changes
   what a codec computes breaks them. *)
From GoArt Require Import Gen.KeysGen Proofs.TranslateKeysFacts.

Theorem C07_regenerated_unsigned_transform_uint64 : forall k : N,
  (k < 2 ^ 64)%N -> g_unsigned_transform_uint64 k = enc_u 8 k.
Proof. exact gen_unsigned_transform_uint64_eq. Qed.
Print Assumptions C07_regenerated_unsigned_transform_uint64.

Theorem C07_regenerated_signed_transform_int64 : forall k : Z,
  (- 2 ^ 63 <= k < 2 ^ 63)%Z -> g_signed_transform_int64 k = enc_s 8 k.
Proof. exact gen_signed_transform_int64_eq. Qed.
Print Assumptions C07_regenerated_signed_transform_int64.

(* a float64 is its IEEE-754 bit pattern *)
Theorem C07_regenerated_float_transform_float64 : forall bits : N,
  (bits < 2 ^ 64)%N -> g_float_transform_float64 bits = enc_f 8 bits.
Proof. exact gen_float_transform_float64_eq. Qed.
Print Assumptions C07_regenerated_float_transform_float64.

Theorem C07_regenerated_float_restore_float64 : forall b : list N,
  length b = 8%nat -> isbytes b = true -> g_float_restore_float64 b = dec_f 8 b.
Proof. exact gen_float_restore_float64_eq. Qed.
Print Assumptions C07_regenerated_float_restore_float64.

(* the numeric trees run with THIS regenerated codec in the loop (codec, tree, iterators and nodes all regenerated) are
   the reference map on every history: Properties/C01.v, C01_regenerated_numeric_trees_codec_in_the_loop — a statement
   about the trees, kept out of this file so that this property's obligations are the codec's only *)

(* which codec each numeric tree holds (Gen/Bindings.v, regenerated from the struct declarations of trees.go): the
   unsigned / signed / float tree holds an UnsignedBinaryKey / SignedBinaryKey / FloatBinaryKey — the type whose
   regenerated Transform / Restore (Gen/KeysGen.v) the end-to-end theorem of that kind runs — and its constructor
   passes nothing, so the codec is that type's (stateless) zero value *)
From GoArt Require Import Proofs.BindingFacts.
From GoArt Require Gen.Bindings.
From Coq Require Import String.
Local Open Scope string_scope.
Theorem C07_tree_codec_bindings :
  map (fun s => (fst s, map snd (codec_fields (snd s)))) Bindings.tree_structs =
  [("alphaSortedTree", ["AlphabeticalOrderKey[K]"]);
   ("collationSortedTree", ["CollationOrderKey[K]"]);
   ("compoundSortedTree", ["BinaryComparableKey[K]"]);
   ("floatSortedTree", ["FloatBinaryKey[K]"]);
   ("signedSortedTree", ["SignedBinaryKey[K]"]);
   ("unsignedSortedTree", ["UnsignedBinaryKey[K]"])]%string.
Proof. exact tree_codec_bindings. Qed.
Print Assumptions C07_tree_codec_bindings.
Theorem C07_stateless_kinds_take_nothing :
  forallb (fun c => if existsb (String.eqb (ctor_tree c)) ["alphaSortedTree"; "unsignedSortedTree"; "signedSortedTree"; "floatSortedTree"]%string
                    then Nat.eqb (List.length (codec_fields (ctor_fields c))) 0 else true) Bindings.constructors = true.
Proof. exact stateless_kinds_take_nothing. Qed.
Print Assumptions C07_stateless_kinds_take_nothing.
