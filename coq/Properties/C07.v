(* C07 — numeric key encodings are order isomorphisms with exact round trip.
   This file holds only the property theorems; each is closed by a lemma of
   Proofs/KeysFacts.v and followed by Print Assumptions. *)
From GoArt Require Import Base.Bytes Model.Keys Proofs.BytesFacts Proofs.KeysFacts.
Open Scope N_scope.

(* unsigned integers of w bytes, w arbitrary (the library uses 1,2,4,8) *)
Theorem C07_unsigned : forall w x y, x < wmod w -> y < wmod w ->
  length (enc_u w x) = w /\ isbytes (enc_u w x) = true /\
  (lex_lt (enc_u w x) (enc_u w y) <-> x < y) /\
  (enc_u w x = enc_u w y -> x = y) /\
  dec_u w (enc_u w x) = x.
Proof. exact enc_u_spec. Qed.
Print Assumptions C07_unsigned.

(* signed integers (two's complement) of w >= 1 bytes *)
Theorem C07_signed : forall w x y, (0 < w)%nat -> in_srange w x -> in_srange w y ->
  length (enc_s w x) = w /\ isbytes (enc_s w x) = true /\
  (lex_lt (enc_s w x) (enc_s w y) <-> (x < y)%Z) /\
  (enc_s w x = enc_s w y -> x = y) /\
  dec_s w (enc_s w x) = x.
Proof. exact enc_s_spec. Qed.
Print Assumptions C07_signed.

(* float32 / float64 bit patterns: every pattern, NaNs included *)
Theorem C07_float : forall w a b, (w = 4 \/ w = 8)%nat -> a < wmod w -> b < wmod w ->
  length (enc_f w a) = w /\ isbytes (enc_f w a) = true /\
  (lex_lt (enc_f w a) (enc_f w b) <-> fl_lt w a b) /\
  (enc_f w a = enc_f w b <-> fl_samekey w a b) /\
  (is_nan w a = false -> dec_f w (enc_f w a) = a) /\
  (is_nan w a = true -> is_nan w (dec_f w (enc_f w a)) = true).
Proof. exact enc_f_spec. Qed.
Print Assumptions C07_float.

(* the declared float order really is the chain
   NaN < -Inf < negative finite < -0 < +0 < positive finite < +Inf *)
Theorem C07_float_chain : forall w n x y, (w = 4 \/ w = 8)%nat ->
  is_nan w n = true -> n < wmod w ->
  (* x a negative finite non-zero pattern, y a positive finite non-zero one *)
  signbit w < x < ninf_bits w -> 0 < y < pinf_bits w ->
  fl_lt w n (ninf_bits w) /\ fl_lt w (ninf_bits w) x /\ fl_lt w x (signbit w) /\
  fl_lt w (signbit w) 0 /\ fl_lt w 0 y /\ fl_lt w y (pinf_bits w).
Proof. exact fl_lt_chain. Qed.
Print Assumptions C07_float_chain.

(* concatenations of fixed-length codes order tuples lexicographically *)
Theorem C07_concat : forall a a' b b' : list N, length a = length a' ->
  (lex_lt (a ++ b) (a' ++ b') <-> lex_lt a a' \/ (a = a' /\ lex_lt b b')).
Proof. exact lex_app_fixed. Qed.
Print Assumptions C07_concat.

(* non-vacuity: the hypotheses are met at the interesting corners *)
Example C07_corners :
  enc_f 8 0x8000000000000000 = [0x80;0;0;0;0;0;0;1] /\
  lex_lt (enc_f 8 0x8000000000000000) (enc_f 8 0) /\
  enc_f 4 0x7FC00001 = enc_f 4 0xFFFFFFFF /\
  lex_lt (enc_s 8 (-1)) (enc_s 8 0) /\
  dec_s 1 (enc_s 1 (-128)) = (-128)%Z.
Proof. vm_compute. repeat split; reflexivity. Qed.
