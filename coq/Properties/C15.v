(* C15 — operations that report "nothing changed" change nothing: a Delete that
   reports false and every query return the state they were given, raw storage
   included; an Insert of a present key changes that key's value and nothing else
   (same raw tree after erasing values, same size).
   `erase` / `erase_state` (Proofs/PropFacts.v) set every stored value to 0 and keep
   everything else of the raw storage.
   Only property theorems here; proofs in Proofs/PropFacts.v. *)
From GoArt Require Import Base.Bytes Model.Keys Model.Node Model.Tree Model.Api
  Spec.NodeSpec Spec.TreeSpec Spec.Ideal Proofs.PropFacts.
Open Scope N_scope.

(* a Delete that reports false leaves the whole state, raw storage included, unchanged *)
Theorem C15_failed_delete_identity : forall k st a,
  snd (step k st (Delete a)) = OBool false -> fst (step k st (Delete a)) = st.
Proof. exact failed_delete_identity. Qed.
Print Assumptions C15_failed_delete_identity.

(* every query returns the state it was given *)
Theorem C15_queries_identity : forall k st q,
  match q with Insert _ _ | Delete _ => True | _ => fst (step k st q) = st end.
Proof. exact queries_identity. Qed.
Print Assumptions C15_queries_identity.

(* an Insert that reports "no key added" on a well-formed tree holding the key changes
   nothing but that key's value *)
Theorem C15_overwrite_value_only : forall fuel t gk tk v d t' l,
  WF d t -> In l (leaves t) -> ltk l = tk ->
  insert fuel t gk tk v d = IDone t' false -> erase t' = erase t.
Proof. exact overwrite_value_only. Qed.
Print Assumptions C15_overwrite_value_only.

(* the presence hypothesis cannot be dropped, even on a well-formed tree: a key that
   ends inside a compressed path makes insert split the path, store nothing and
   report "no key added" *)
Theorem C15_overwrite_needs_presence : exists fuel t gk tk v t',
  WF 0 t /\ insert fuel t gk tk v 0 = IDone t' false /\ erase t' <> erase t.
Proof. exact overwrite_needs_presence. Qed.
Print Assumptions C15_overwrite_needs_presence.

(* at the API: on a valid history, an Insert of a key the tree holds leaves the whole
   state unchanged up to that key's value *)
Theorem C15_overwrite_state : forall k ops a v, history_ok k (ops ++ [Insert a v]) = true ->
  mem_gk (fst (transform k a)) (cs_of k ops) = true ->
  erase_state (fst (step k (st_of k ops) (Insert a v))) = erase_state (st_of k ops).
Proof. exact overwrite_state. Qed.
Print Assumptions C15_overwrite_state.

(* the code-level counterpart, on the source facts regenerated from /repo on every run: no function
   reachable from a read-only API method writes to the heap (outside the collation codec's scratch) *)
From GoArt Require Import Gen.WriteFacts Model.Facts Proofs.StaticFacts.
Theorem C15_read_paths_do_not_write :
  forallb (fun w => negb (existsb (String.eqb (fn_of w)) reachable_fns) || allowed_write w)
          heap_writes = true.
Proof. exact StaticFacts.read_paths_do_not_write. Qed.
Print Assumptions C15_read_paths_do_not_write.
