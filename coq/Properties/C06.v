(* C06 — Size is the number of stored keys: the counter equals the cardinality of
   the content after every valid history, changes by +1 exactly on an Insert of a
   new key and by -1 exactly when Delete reports true, and a full iteration
   delivers that many entries.
   Only property theorems here; proofs in Proofs/PropFacts.v, Proofs/IdealFacts.v. *)
From GoArt Require Import Base.Bytes Model.Keys Model.Node Model.Tree Model.Api
  Spec.TreeSpec Spec.IterSpec Spec.Ideal Spec.Semantics Proofs.IdealFacts Proofs.PropFacts.
Open Scope N_scope.

Theorem C06_size_is_cardinality : forall k ops, history_ok k ops = true ->
  snd (step k (st_of k ops) Size) = OSize (Z.of_nat (length (cs_of k ops))) /\
  size (st_of k ops) = Z.of_nat (length (cs_of k ops)).
Proof. exact size_is_cardinality. Qed.
Print Assumptions C06_size_is_cardinality.

(* +1 exactly on a new key, -1 exactly when Delete returns true (= mem_gk), else unchanged *)
Theorem C06_size_steps : forall k cs o, NoDup (map lgk cs) ->
  let cs' := fst (ideal_step k cs o) in
  match o with
  | Insert a _ => length cs' = if mem_gk (fst (transform k a)) cs then length cs else S (length cs)
  | Delete a => length cs = if mem_gk (fst (transform k a)) cs then S (length cs') else length cs'
  | _ => cs' = cs
  end.
Proof. exact ideal_size_step. Qed.
Print Assumptions C06_size_steps.

Theorem C06_counts_all : forall k ops, history_ok k ops = true ->
  exists l, snd (step k (st_of k ops) (All None)) = OSeq l (length (cs_of k ops)) /\
            length l = length (cs_of k ops).
Proof. exact counts_all. Qed.
Print Assumptions C06_counts_all.

(* the regenerated Delete / Insert (Gen/MutGen.v, the heap-passing translation of trees.go / collation.go) keep t.size as
   the model does: Delete subtracts 1 exactly when it returns true; after Insert t.size is the model's counter *)
From GoArt Require Import Model.Pool Model.PoolTree Proofs.PoolFacts Model.GoHeap Gen.MutGen Proofs.TranslateMutFacts.
Theorem C06_regenerated_alpha_delete_size : forall h root ot F size keyS os pm,
  repr_root h root ot F -> zero_pool pm -> isbytes (keyS ++ [0]) = true -> match ot with Some t => xfit t | None => True end ->
  match g_alpha_delete (key_fuel (keyS ++ [0])) h root size keyS os (map_pool pm) with
  | MDone _ _ size' _ _ ret => size' = if ret then (size - 1)%Z else size
  | _ => True
  end.
Proof. exact gen_alpha_delete_size. Qed.
Print Assumptions C06_regenerated_alpha_delete_size.
Theorem C06_regenerated_collation_delete_size : forall h root ot F size keyS colKey os pm,
  repr_root h root ot F -> zero_pool pm -> isbytes colKey = true -> match ot with Some t => xfit t | None => True end ->
  match g_collation_delete (key_fuel colKey) h root size keyS colKey os (map_pool pm) with
  | MDone _ _ size' _ _ ret => size' = if ret then (size - 1)%Z else size
  | _ => True
  end.
Proof. exact gen_collation_delete_size. Qed.
Print Assumptions C06_regenerated_collation_delete_size.
Theorem C06_regenerated_alpha_insert_size : forall h root ot F size keyS val os pm,
  repr_root h root ot F -> hwf h -> zero_pool pm -> isbytes (keyS ++ [0]) = true ->
  N.of_nat (length (keyS ++ [0])) < M32 ->
  match ot with Some t => WF 0 (tabs t) /\ xfit32 t | None => True end ->
  match g_alpha_insert (key_fuel (keyS ++ [0])) h root size keyS val os (map_pool pm) with
  | MDone _ _ size' _ _ _ => size' = xsize (fst (fst (xdo_insert (mkXstate ot size) (keyS ++ [0]) (keyS ++ [0]) val os pm)))
  | _ => True
  end.
Proof. exact gen_alpha_insert_size. Qed.
Print Assumptions C06_regenerated_alpha_insert_size.
