(* C06 — Size is the number of stored keys: the counter equals the cardinality of
   the content after every valid history, changes by +1 exactly on an Insert of a
   new key and by -1 exactly when Delete reports true, and a full iteration
   delivers that many entries.
   Only property theorems here; proofs in Proofs/PropFacts.v, Proofs/IdealFacts.v. *)
From GoArt Require Import Base.Bytes Model.Keys Model.Node Model.Tree Model.Api
  Spec.TreeSpec Spec.IterSpec Spec.Ideal Spec.Semantics Proofs.IdealFacts Proofs.PropFacts.
Open Scope N_scope.

Theorem C06_size_is_cardinality : forall k ops, history_ok k ops = true ->
  snd (step k (st_of k ops) Size) = OSize (Z.of_nat (length (cs_of k ops))) /\
  size (st_of k ops) = Z.of_nat (length (cs_of k ops)).
Proof. exact size_is_cardinality. Qed.
Print Assumptions C06_size_is_cardinality.

(* +1 exactly on a new key, -1 exactly when Delete returns true (= mem_gk), else unchanged *)
Theorem C06_size_steps : forall k cs o, NoDup (map lgk cs) ->
  let cs' := fst (ideal_step k cs o) in
  match o with
  | Insert a _ => length cs' = if mem_gk (fst (transform k a)) cs then length cs else S (length cs)
  | Delete a => length cs = if mem_gk (fst (transform k a)) cs then S (length cs') else length cs'
  | _ => cs' = cs
  end.
Proof. exact ideal_size_step. Qed.
Print Assumptions C06_size_steps.

Theorem C06_counts_all : forall k ops, history_ok k ops = true ->
  exists l, snd (step k (st_of k ops) (All None)) = OSeq l (length (cs_of k ops)) /\
            length l = length (cs_of k ops).
Proof. exact counts_all. Qed.
Print Assumptions C06_counts_all.
