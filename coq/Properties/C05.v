(* C05 — Minimum / Maximum are the first / last element of the sorted content,
   none exactly on the empty tree; BottomK / TopK deliver the first / last
   min(n, size) elements, ascending / descending.
   Only property theorems here; proofs in Proofs/PropFacts.v. *)
From GoArt Require Import Base.Bytes Model.Keys Model.Node Model.Tree Model.Api
  Spec.TreeSpec Spec.IterSpec Spec.Ideal Spec.Semantics Proofs.PropFacts.
Open Scope N_scope.

Theorem C05_extremes : forall k ops q, (q = Minimum \/ q = Maximum) -> history_ok k ops = true ->
  snd (step k (st_of k ops) q) =
  match q with
  | Minimum => ideal_kv k (hd_error (cs_of k ops))
  | _ => ideal_kv k (hd_error (rev (cs_of k ops)))
  end.
Proof. exact extremes. Qed.
Print Assumptions C05_extremes.

Theorem C05_none_iff_empty : forall k ops, history_ok k ops = true ->
  (snd (step k (st_of k ops) Minimum) = ONone <-> cs_of k ops = []) /\
  (snd (step k (st_of k ops) Maximum) = ONone <-> cs_of k ops = []).
Proof. exact none_iff_empty. Qed.
Print Assumptions C05_none_iff_empty.

Theorem C05_bounded : forall k ops n stop, history_ok k ops = true ->
  snd (step k (st_of k ops) (BottomK n stop)) =
    ideal_seq k (firstn (N.to_nat (N.min n (N.of_nat (length (cs_of k ops))))) (cs_of k ops))
              (stop_ans stop) /\
  snd (step k (st_of k ops) (TopK n stop)) =
    ideal_seq k (firstn (N.to_nat (N.min n (N.of_nat (length (cs_of k ops))))) (rev (cs_of k ops)))
              (stop_ans stop).
Proof. exact bounded. Qed.
Print Assumptions C05_bounded.

(* the regenerated tie: minimum() / maximum() of tree.go, translated from the Go AST on every run
   (Gen/TreeGen.v), find the leaf Model.Tree.minleaf / maxleaf find: never nil, no panic, GFuel exactly when
   the model's fuel runs out (hypotheses: the invariants xstep_sim runs under, see hyps_reachable) *)
From GoArt Require Import Spec.TreeSpec Model.PoolTree Proofs.PoolTreeFacts Model.GoTree Gen.TreeGen Proofs.TranslateTreeFacts.
Theorem C05_regenerated_minimum : forall fuel t d, xtwf t -> WF d (tabs t) ->
  gres_map (option_map tabs) (g_minimum fuel (Some t)) =
  match minleaf fuel (tabs t) with Some l => GRet (Some l) | None => GFuel end.
Proof. exact gen_minimum_eq. Qed.
Print Assumptions C05_regenerated_minimum.
Theorem C05_regenerated_maximum : forall fuel t d, xtwf t -> WF d (tabs t) ->
  gres_map (option_map tabs) (g_maximum fuel (Some t)) =
  match maxleaf fuel (tabs t) with Some l => GRet (Some l) | None => GFuel end.
Proof. exact gen_maximum_eq. Qed.
Print Assumptions C05_regenerated_maximum.

(* the regenerated tie: the Minimum / Maximum METHODS, translated from the Go AST on every run (Gen/ApiGen.v) over the
   regenerated minimum / maximum and restoreKey, ARE the Minimum / Maximum cases of Model.Api.step on the raw state
   (the unsigned instance; TranslateApiFacts proves all six): (k, v, true) with the restored key, or (_, _, false) on
   the empty tree; no panic *)
From GoArt Require Import Model.Api Model.PoolTree Proofs.PoolTreeFacts Model.GoTree Gen.ApiGen Proofs.TranslateApiBase Proofs.TranslateApiWrap.
Theorem C05_regenerated_Minimum_Maximum : forall w st fm, sinv st -> root_wf (sabs st) ->
  (forall t, xroot st = Some t -> fm = theight (tabs t)) ->
  gopt_out idk (g_unsigned_Minimum akey (mtr (KUnsigned w)) (mrs (KUnsigned w)) fm (xroot st)) = snd (step (KUnsigned w) (sabs st) Minimum) /\
  gopt_out idk (g_unsigned_Maximum akey (mtr (KUnsigned w)) (mrs (KUnsigned w)) fm (xroot st)) = snd (step (KUnsigned w) (sabs st) Maximum).
Proof. exact (fun w st fm Hs Hw Hf => conj (gen_unsigned_minimum_eq w st fm Hs Hw Hf) (gen_unsigned_maximum_eq w st fm Hs Hw Hf)). Qed.
Print Assumptions C05_regenerated_Minimum_Maximum.
