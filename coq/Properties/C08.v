(* C08 — collation trees: keyed by the original string, ordered bytewise by the sort
   key the collator computed.  Under the conditions on the collator's output (sort keys
   are byte strings, determine and are determined by the original strings, are
   prefix-free; no Range) the tree refines the reference map, is an exact map, and its
   content is sorted by sort key; keys come back exactly as inserted.
   Only property theorems here; proofs in Proofs/PropFacts.v, Proofs/KeySemantics.v. *)
From GoArt Require Import Base.Bytes Model.Keys Model.Node Model.Tree Model.Api
  Spec.NodeSpec Spec.TreeSpec Spec.Ideal Spec.Semantics Proofs.PropFacts.
Open Scope N_scope.

Theorem C08_collation_map : forall ops,
  (forall p, In p (ins_pairs KCollation ops) -> isbytes (snd p) = true) ->
  (forall p q, In p (ins_pairs KCollation ops) -> In q (ins_pairs KCollation ops) ->
     (fst p = fst q <-> snd p = snd q)) ->
  (forall p q, In p (ins_pairs KCollation ops) -> In q (ins_pairs KCollation ops) ->
     is_prefix (snd p) (snd q) -> snd p = snd q) ->
  (forall p, In p (probe_pairs KCollation ops) -> isbytes (snd p) = true) ->
  (forall p q, In p (probe_pairs KCollation ops) -> In q (ins_pairs KCollation ops) ->
     fst q = fst p -> snd q = snd p) ->
  (forall a b s, ~ In (Range a b s) ops) ->
  outs KCollation ops = snd (ideal_run KCollation [] ops) /\
  map_outputs_ok KCollation [] ops (outs KCollation ops) /\
  (let cs := cs_of KCollation ops in
   StronglySorted lex_lt (map ltk cs) /\ NoDup (map lgk cs) /\
   (forall gk, option_map lv (find_gk gk cs) = hist_lookup KCollation gk ops None)).
Proof. exact collation_map. Qed.
Print Assumptions C08_collation_map.

(* keys come back exactly as inserted: original string and sort key *)
Theorem C08_keys_as_inserted : forall l, key_of KCollation l = AC (lgk l) (ltk l).
Proof. exact collation_keys_as_inserted. Qed.
Print Assumptions C08_keys_as_inserted.

(* the declared order is the byte order of the sort keys *)
Theorem C08_order : forall o c o' c',
  akey_lt KCollation (AC o c) (AC o' c') <-> lex_lt c c'.
Proof. exact collation_order. Qed.
Print Assumptions C08_order.

(* the regenerated collation tree END TO END (Proofs/TranslateRunAllFacts.v): the collator is a function col (the sort
   key of the model's key AC o c is c = col o); Insert / Delete are the regenerated heap-passing methods, Search and the
   queries the regenerated methods of Gen/TreeGen.v / Gen/ApiGen.v on the tree the heap holds.  On every history_ok
   history (which supplies that col tells the inserted strings apart and that no sort key is a prefix of another; it
   excludes Range) the outputs are those of the reference map, keys read as the original strings (forget_col) *)
From GoArt Require Import Spec.Ideal Proofs.PoolTreeFacts Model.GoHeap Proofs.TranslateMutFacts Proofs.TranslateApiFacts
  Proofs.TranslateRunFacts Proofs.TranslateRunAllFacts.
Theorem C08_regenerated_run_refines : forall col evs,
  Forall (col_op col) (map fst evs) -> history_ok KCollation (map fst evs) = true -> short_keys2 KCollation (map fst evs) ->
  g_collation_run col evs g_init = map (out_keymap forget_col) (snd (Api.run KCollation Api.init (map fst evs))) /\
  g_collation_run col evs g_init = map (out_keymap forget_col) (snd (ideal_run KCollation [] (map fst evs))).
Proof. exact gen_collation_run_refines. Qed.
Print Assumptions C08_regenerated_run_refines.

(* the collation tree's constructor and its option write the collator field only (Gen/Bindings.v, regenerated): the tree
   starts empty whatever collator is configured *)
From GoArt Require Import Proofs.BindingFacts.
From GoArt Require Gen.Bindings.
From Coq Require Import String.
Local Open Scope string_scope.
Theorem C08_collation_constructors_touch_the_collator_only :
  forallb (fun c => if String.eqb (ctor_tree c) "collationSortedTree"
                    then forallb (fun f => String.eqb (fst f) "cok") (ctor_fields c) else true) Bindings.constructors = true.
Proof. exact collation_constructors_touch_the_collator_only. Qed.
Print Assumptions C08_collation_constructors_touch_the_collator_only.
