(* C09 — compound trees generated from a field schema (1..n fixed-width numeric
   fields, optionally one trailing string field): for tuples matching the schema the
   tree refines the reference map and is an exact map; the order is the
   tuple-lexicographic order (tuple_lt), identity is field-wise (tuple_same), tuples
   come back field-wise the same; and the contract of the schema encoding itself.
   Only property theorems here; proofs in Proofs/PropFacts.v, Proofs/KeysFacts.v. *)
From GoArt Require Import Base.Bytes Model.Keys Model.Node Model.Tree Model.Api
  Spec.NodeSpec Spec.TreeSpec Spec.Ideal Spec.Semantics Proofs.KeysFacts Proofs.PropFacts.
Open Scope N_scope.

Theorem C09_compound_map : forall s ops, schema_ok s = true ->
  (forall a, In a (flat_map ins_keys ops) -> exists vs, a = AT vs /\ tuple_ok s vs = true) ->
  (forall a, In a (flat_map (probe_keys (KCompound s)) ops) ->
     exists vs, a = AT vs /\ tuple_ok s vs = true) ->
  outs (KCompound s) ops = snd (ideal_run (KCompound s) [] ops) /\
  map_outputs_ok (KCompound s) [] ops (outs (KCompound s) ops) /\
  (let cs := cs_of (KCompound s) ops in
   StronglySorted lex_lt (map ltk cs) /\ NoDup (map lgk cs) /\
   (forall gk, option_map lv (find_gk gk cs) = hist_lookup (KCompound s) gk ops None)).
Proof. exact compound_map. Qed.
Print Assumptions C09_compound_map.

(* the content is in tuple order, and the stored tuples come back field-wise the same *)
Theorem C09_compound_sorted : forall s ops, schema_ok s = true ->
  (forall a, In a (flat_map ins_keys ops) -> exists vs, a = AT vs /\ tuple_ok s vs = true) ->
  (forall a, In a (flat_map (probe_keys (KCompound s)) ops) ->
     exists vs, a = AT vs /\ tuple_ok s vs = true) ->
  exists keys,
    Forall2 (fun l a => akey_ok (KCompound s) a = true /\
                        (lgk l, ltk l) = transform (KCompound s) a /\
                        akey_same (KCompound s) (key_of (KCompound s) l) a)
            (cs_of (KCompound s) ops) keys /\
    StronglySorted (akey_lt (KCompound s)) keys.
Proof. exact compound_sorted. Qed.
Print Assumptions C09_compound_sorted.

(* order = tuple_lt, identity = tuple_same, validity = schema_ok and tuple_ok *)
Theorem C09_order_identity : forall s a b,
  (akey_lt (KCompound s) (AT a) (AT b) <-> tuple_lt s a b) /\
  (akey_same (KCompound s) (AT a) (AT b) <-> tuple_same s a b) /\
  (akey_ok (KCompound s) (AT a) = true <-> schema_ok s = true /\ tuple_ok s a = true).
Proof. exact compound_order_identity. Qed.
Print Assumptions C09_order_identity.

(* the encoding the tree uses: order, identity, round trip *)
Theorem C09_encoding : forall s a b v,
  schema_ok s = true -> tuple_ok s a = true -> tuple_ok s b = true ->
  transform (KCompound s) (AT a) = (enc_tuple s a, enc_tuple s a) /\
  (lex_lt (enc_tuple s a) (enc_tuple s b) <-> tuple_lt s a b) /\
  (enc_tuple s a = enc_tuple s b <-> tuple_same s a b) /\
  (exists a', restore (KCompound s) (Leaf (enc_tuple s a) (enc_tuple s a) v) = AT a' /\
              tuple_same s a' a).
Proof. exact compound_encoding. Qed.
Print Assumptions C09_encoding.

(* the schema contract itself *)
Theorem C09_schema_contract : forall s a b,
  schema_ok s = true -> tuple_ok s a = true -> tuple_ok s b = true ->
  isbytes (enc_tuple s a) = true /\
  (lex_lt (enc_tuple s a) (enc_tuple s b) <-> tuple_lt s a b) /\
  (enc_tuple s a = enc_tuple s b <-> tuple_same s a b) /\
  (is_prefix (enc_tuple s a) (enc_tuple s b) -> enc_tuple s a = enc_tuple s b) /\
  tuple_same s (dec_tuple s (enc_tuple s a)) a.
Proof. exact schema_contract. Qed.
Print Assumptions C09_schema_contract.
