(* C09 — compound trees generated from a field schema (1..n fixed-width numeric
   fields, optionally one trailing string field): for tuples matching the schema the
   tree refines the reference map and is an exact map; the order is the
   tuple-lexicographic order (tuple_lt), identity is field-wise (tuple_same), tuples
   come back field-wise the same; and the contract of the schema encoding itself.
   Second part: the same for an ARBITRARY user codec (kind  KCodec enc dec,  the
   compoundSortedTree instantiated with a user BinaryComparableKey) that is injective,
   prefix-free and order-preserving — the contract is the hypotheses of the theorems.
   Only property theorems here; proofs in Proofs/PropFacts.v, Proofs/KeysFacts.v,
   Proofs/CodecFacts.v. *)
From GoArt Require Import Base.Bytes Model.Keys Model.Node Model.Tree Model.Api
  Spec.NodeSpec Spec.TreeSpec Spec.Ideal Spec.Semantics Proofs.KeysFacts Proofs.PropFacts
  Proofs.CodecFacts.
From Coq Require Import Sorted.
Open Scope N_scope.

Theorem C09_compound_map : forall s ops, schema_ok s = true ->
  (forall a, In a (flat_map ins_keys ops) -> exists vs, a = AT vs /\ tuple_ok s vs = true) ->
  (forall a, In a (flat_map (probe_keys (KCompound s)) ops) ->
     exists vs, a = AT vs /\ tuple_ok s vs = true) ->
  outs (KCompound s) ops = snd (ideal_run (KCompound s) [] ops) /\
  map_outputs_ok (KCompound s) [] ops (outs (KCompound s) ops) /\
  (let cs := cs_of (KCompound s) ops in
   StronglySorted lex_lt (map ltk cs) /\ NoDup (map lgk cs) /\
   (forall gk, option_map lv (find_gk gk cs) = hist_lookup (KCompound s) gk ops None)).
Proof. exact compound_map. Qed.
Print Assumptions C09_compound_map.

(* the content is in tuple order, and the stored tuples come back field-wise the same *)
Theorem C09_compound_sorted : forall s ops, schema_ok s = true ->
  (forall a, In a (flat_map ins_keys ops) -> exists vs, a = AT vs /\ tuple_ok s vs = true) ->
  (forall a, In a (flat_map (probe_keys (KCompound s)) ops) ->
     exists vs, a = AT vs /\ tuple_ok s vs = true) ->
  exists keys,
    Forall2 (fun l a => akey_ok (KCompound s) a = true /\
                        (lgk l, ltk l) = transform (KCompound s) a /\
                        akey_same (KCompound s) (key_of (KCompound s) l) a)
            (cs_of (KCompound s) ops) keys /\
    StronglySorted (akey_lt (KCompound s)) keys.
Proof. exact compound_sorted. Qed.
Print Assumptions C09_compound_sorted.

(* order = tuple_lt, identity = tuple_same, validity = schema_ok and tuple_ok *)
Theorem C09_order_identity : forall s a b,
  (akey_lt (KCompound s) (AT a) (AT b) <-> tuple_lt s a b) /\
  (akey_same (KCompound s) (AT a) (AT b) <-> tuple_same s a b) /\
  (akey_ok (KCompound s) (AT a) = true <-> schema_ok s = true /\ tuple_ok s a = true).
Proof. exact compound_order_identity. Qed.
Print Assumptions C09_order_identity.

(* the encoding the tree uses: order, identity, round trip *)
Theorem C09_encoding : forall s a b v,
  schema_ok s = true -> tuple_ok s a = true -> tuple_ok s b = true ->
  transform (KCompound s) (AT a) = (enc_tuple s a, enc_tuple s a) /\
  (lex_lt (enc_tuple s a) (enc_tuple s b) <-> tuple_lt s a b) /\
  (enc_tuple s a = enc_tuple s b <-> tuple_same s a b) /\
  (exists a', restore (KCompound s) (Leaf (enc_tuple s a) (enc_tuple s a) v) = AT a' /\
              tuple_same s a' a).
Proof. exact compound_encoding. Qed.
Print Assumptions C09_encoding.

(* the schema contract itself *)
Theorem C09_schema_contract : forall s a b,
  schema_ok s = true -> tuple_ok s a = true -> tuple_ok s b = true ->
  isbytes (enc_tuple s a) = true /\
  (lex_lt (enc_tuple s a) (enc_tuple s b) <-> tuple_lt s a b) /\
  (enc_tuple s a = enc_tuple s b <-> tuple_same s a b) /\
  (is_prefix (enc_tuple s a) (enc_tuple s b) -> enc_tuple s a = enc_tuple s b) /\
  tuple_same s (dec_tuple s (enc_tuple s a)) a.
Proof. exact schema_contract. Qed.
Print Assumptions C09_schema_contract.

(* ------------------------------------------------------------------ *)
(* any user codec respecting the contract                              *)
(* ------------------------------------------------------------------ *)
(* enc = Transform, dec = Restore, valid = the keys the user means to store,
   ult = the user's (tuple-lexicographic) order.  The Range / extremes / iteration /
   Size statements of C02, C03, C05, C06 are generic in the kind and only need
   history_ok, so they apply to  KCodec enc dec  through C09_any_codec_history_ok
   (Range: the compound branch — encoded bounds compared bytewise, open end on an
   empty encoded end bound, swapped bounds; Prefix panics: no HasPrefix). *)

(* every history over valid keys satisfies the history predicate of theorem (A) *)
Theorem C09_any_codec_history_ok :
  forall (enc dec : list N -> list N) (valid : list N -> Prop) (ult : list N -> list N -> Prop),
  (forall u, valid u -> isbytes (enc u) = true) ->
  (forall u v, valid u -> valid v -> enc u = enc v -> u = v) ->
  (forall u v, valid u -> valid v -> is_prefix (enc u) (enc v) -> u = v) ->
  (forall u v, valid u -> valid v -> (lex_lt (enc u) (enc v) <-> ult u v)) ->
  (forall u, valid u -> dec (enc u) = u) ->
  forall ops,
  (forall a, In a (flat_map ins_keys ops) -> exists u, a = AB u /\ valid u) ->
  (forall a, In a (flat_map (probe_keys (KCodec enc dec)) ops) -> exists u, a = AB u /\ valid u) ->
  history_ok (KCodec enc dec) ops = true.
Proof. exact codec_history_ok. Qed.
Print Assumptions C09_any_codec_history_ok.

(* refinement of the reference, exact map, content sorted bytewise, one record per key *)
Theorem C09_any_codec_map :
  forall (enc dec : list N -> list N) (valid : list N -> Prop) (ult : list N -> list N -> Prop),
  (forall u, valid u -> isbytes (enc u) = true) ->
  (forall u v, valid u -> valid v -> enc u = enc v -> u = v) ->
  (forall u v, valid u -> valid v -> is_prefix (enc u) (enc v) -> u = v) ->
  (forall u v, valid u -> valid v -> (lex_lt (enc u) (enc v) <-> ult u v)) ->
  (forall u, valid u -> dec (enc u) = u) ->
  forall ops,
  (forall a, In a (flat_map ins_keys ops) -> exists u, a = AB u /\ valid u) ->
  (forall a, In a (flat_map (probe_keys (KCodec enc dec)) ops) -> exists u, a = AB u /\ valid u) ->
  outs (KCodec enc dec) ops = snd (ideal_run (KCodec enc dec) [] ops) /\
  map_outputs_ok (KCodec enc dec) [] ops (outs (KCodec enc dec) ops) /\
  StronglySorted lex_lt (map ltk (cs_of (KCodec enc dec) ops)) /\
  NoDup (map lgk (cs_of (KCodec enc dec) ops)).
Proof. exact codec_map. Qed.
Print Assumptions C09_any_codec_map.

(* the content is in the user's order, and the keys come back through the codec's decoding *)
Theorem C09_any_codec_order :
  forall (enc dec : list N -> list N) (valid : list N -> Prop) (ult : list N -> list N -> Prop),
  (forall u, valid u -> isbytes (enc u) = true) ->
  (forall u v, valid u -> valid v -> enc u = enc v -> u = v) ->
  (forall u v, valid u -> valid v -> is_prefix (enc u) (enc v) -> u = v) ->
  (forall u v, valid u -> valid v -> (lex_lt (enc u) (enc v) <-> ult u v)) ->
  (forall u, valid u -> dec (enc u) = u) ->
  forall ops,
  (forall a, In a (flat_map ins_keys ops) -> exists u, a = AB u /\ valid u) ->
  (forall a, In a (flat_map (probe_keys (KCodec enc dec)) ops) -> exists u, a = AB u /\ valid u) ->
  exists us,
    Forall2 (fun l u => valid u /\ lgk l = enc u /\ ltk l = enc u /\
                        key_of (KCodec enc dec) l = AB u)
            (cs_of (KCodec enc dec) ops) us /\
    StronglySorted ult us.
Proof. exact codec_order. Qed.
Print Assumptions C09_any_codec_order.

(* the contract is satisfiable by a codec no field schema describes: length-prefixed
   byte strings (one length byte, then the bytes), whose byte order is shortlex *)
Example C09_codec_example_contract :
  (forall u, lp_valid u -> isbytes (lp_enc u) = true) /\
  (forall u v, lp_valid u -> lp_valid v -> lp_enc u = lp_enc v -> u = v) /\
  (forall u v, lp_valid u -> lp_valid v -> is_prefix (lp_enc u) (lp_enc v) -> u = v) /\
  (forall u v, lp_valid u -> lp_valid v -> (lex_lt (lp_enc u) (lp_enc v) <-> lp_lt u v)) /\
  (forall u, lp_valid u -> lp_dec (lp_enc u) = u).
Proof. exact lp_contract. Qed.
Print Assumptions C09_codec_example_contract.

(* ... and the three theorems instantiated with it *)
Example C09_codec_example : forall ops,
  (forall a, In a (flat_map ins_keys ops) -> exists u, a = AB u /\ lp_valid u) ->
  (forall a, In a (flat_map (probe_keys (KCodec lp_enc lp_dec)) ops) ->
     exists u, a = AB u /\ lp_valid u) ->
  history_ok (KCodec lp_enc lp_dec) ops = true /\
  outs (KCodec lp_enc lp_dec) ops = snd (ideal_run (KCodec lp_enc lp_dec) [] ops) /\
  map_outputs_ok (KCodec lp_enc lp_dec) [] ops (outs (KCodec lp_enc lp_dec) ops) /\
  exists us,
    Forall2 (fun l u => lp_valid u /\ lgk l = lp_enc u /\ ltk l = lp_enc u /\
                        key_of (KCodec lp_enc lp_dec) l = AB u)
            (cs_of (KCodec lp_enc lp_dec) ops) us /\
    StronglySorted lp_lt us.
Proof. exact lp_codec_map. Qed.
Print Assumptions C09_codec_example.

(* the regenerated compound tree END TO END over ANY codec (Proofs/TranslateRunAllFacts.v): for k = KCompound schema or
   KCodec enc dec (the caller's own Transform / Restore), the regenerated Insert / Delete / Search and thin methods give
   on every history_ok history over all twelve operations the outputs of Model/Api.run = the reference map *)
From GoArt Require Import Spec.Ideal Model.GoHeap Proofs.TranslateMutFacts Proofs.TranslateApiFacts Proofs.TranslateRunFacts Proofs.TranslateRunAllFacts.
Theorem C09_regenerated_run_refines : forall k, is_cmp k = true -> forall evs,
  Forall cmp_op (map fst evs) -> history_ok k (map fst evs) = true -> short_keys2 k (map fst evs) ->
  g_compound_run k evs g_init = snd (Api.run k Api.init (map fst evs)) /\
  g_compound_run k evs g_init = snd (ideal_run k [] (map fst evs)).
Proof. exact gen_compound_run_refines. Qed.
Print Assumptions C09_regenerated_run_refines.

(* the compound tree's constructor stores the codec its caller passed and nothing else (Gen/Bindings.v, regenerated):
   the codec the theorems above quantify over is the one the caller chose *)
From GoArt Require Import Proofs.BindingFacts.
From GoArt Require Gen.Bindings.
From Coq Require Import String.
Local Open Scope string_scope.
Theorem C09_compound_constructor_stores_the_callers_codec :
  map (fun c => (ctor_fields c, ctor_stmts c)) (filter (fun c => String.eqb (ctor_tree c) "compoundSortedTree") Bindings.constructors) =
  [([("bck", "bck")], ["return-literal"])]%string.
Proof. exact compound_constructor_stores_the_callers_codec. Qed.
Print Assumptions C09_compound_constructor_stores_the_callers_codec.
