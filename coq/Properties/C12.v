(* C12 — recycled nodes never leak state.
   Model/Pool.v: raw nodes with ALL their cells, a shared pool whose Get is decided
   by an adversarial oracle (Fresh / Reuse i, plus arbitrary drops), clear() field by
   field as the regenerated Gen/SrcFacts.clear_bodies records it, addChild /
   deleteChild / the new node4 of Insert written as "take a node from the pool and
   write SOME fields into it".
     - clear() resets every field, so a released node is THE zero node;
     - a zero pool stays zero under every operation, every oracle, every drop;
     - out of a zero pool the oracle is irrelevant, and the raw operations are
       nadd / ndel / empty4 of Model/Node.v (which assumes fresh zero nodes);
     - any interleaving of any nodes of any trees over one pool: every node ends
       exactly as it ends alone;
     - the dirty_* examples: with ONE stale cell in a pooled node, or one field
       missing from clear(), the difference is observable (not vacuous);
     - at the API: a tree emptied by deletions IS the initial state and behaves as
       a new tree on every continuation.
   Only property theorems here; proofs in Proofs/PoolFacts.v, Proofs/PropFacts2.v. *)
From GoArt Require Import Base.Bytes Model.Keys Model.Node4 Model.Node16 Model.Node Model.Tree Model.Api
  Spec.NodeSpec Spec.TreeSpec Spec.Ideal Proofs.PropFacts Proofs.PropFacts2.
From GoArt Require Import Model.Pool Proofs.PoolFacts.   (* last: kind, run, get ... are the pool's below *)
From GoArt Require Gen.SrcFacts.
From Coq Require String.
Import String.StringSyntax.
Open Scope N_scope.

(* ---------------- clear() ---------------- *)
(* every struct field of every node type is among the fields its clear() resets
   (a statement about the regenerated table) *)
Theorem C12_clear_covers_fields :
  forallb (fun e : String.string * list String.string * list String.string =>
             let '(_, fields, resets) := e in
             forallb (fun f => existsb (String.eqb f) resets) fields)
          Gen.SrcFacts.clear_bodies = true.
Proof. exact clear_covers_fields. Qed.
Print Assumptions C12_clear_covers_fields.

(* clear() leaves THE zero node, whatever the node held *)
Theorem C12_xclear_zero : forall (C : Type) (n : xnode C), is_zero (xclear n) = true.
Proof. exact @xclear_zero. Qed.
Print Assumptions C12_xclear_zero.

(* ---------------- the pool only ever holds zero nodes ---------------- *)
Theorem C12_pool_zero_inv : forall (C : Type) (p : @pool C), zero_pool p ->
  (forall n b c os, zero_pool (snd (xadd n b c os p))) /\
  (forall n b os, zero_pool (snd (xdel n b os p))) /\
  (forall pl src os, zero_pool (snd (@xnew4 C pl src os p))) /\
  (forall i, zero_pool (drop i p)).
Proof. exact @pool_zero_inv. Qed.
Print Assumptions C12_pool_zero_inv.

(* ---------------- the answers of the pool do not matter ---------------- *)
Theorem C12_get_oracle_irrelevant : forall (C : Type) o k (p : @pool C), zero_pool p ->
  fst (get o k p) = xzero k.
Proof. exact @get_oracle_irrelevant. Qed.
Print Assumptions C12_get_oracle_irrelevant.

Theorem C12_xadd_oracle_irrelevant : forall (C : Type) (n : xnode C) b c os p, zero_pool p ->
  fst (xadd n b c os p) = fst (xadd n b c [] []).
Proof. exact @xadd_oracle_irrelevant. Qed.
Print Assumptions C12_xadd_oracle_irrelevant.

Theorem C12_xdel_oracle_irrelevant : forall (C : Type) (n : xnode C) b os p, zero_pool p ->
  fst (xdel n b os p) = fst (xdel n b [] []).
Proof. exact @xdel_oracle_irrelevant. Qed.
Print Assumptions C12_xdel_oracle_irrelevant.

Theorem C12_xnew4_oracle_irrelevant : forall (C : Type) pl src os (p : @pool C), zero_pool p ->
  fst (@xnew4 C pl src os p) = fst (@xnew4 C pl src [] []).
Proof. exact @xnew4_oracle_irrelevant. Qed.
Print Assumptions C12_xnew4_oracle_irrelevant.

(* ---------------- on zero acquisitions the raw operations are those of Model/Node.v ---------------- *)
(* addChild, all grow paths and the in-place paths; the raw invariant xwf is kept *)
Theorem C12_xadd_sim : forall (C : Type) (n : xnode C) b c os p, xwf n -> zero_pool p -> b < 256 ->
  assoc b (nenum (xabs n)) = None ->
  xabs (fst (xadd n b c os p)) = nadd (xabs n) b c /\ xwf (fst (xadd n b c os p)).
Proof. exact @xadd_sim. Qed.
Print Assumptions C12_xadd_sim.

(* deleteChild of a present byte, all shrink paths and the in-place paths *)
Theorem C12_xdel_sim : forall (C : Type) (n : xnode C) b os p, xwf n -> zero_pool p -> b < 256 ->
  assoc b (nenum (xabs n)) <> None ->
  xabs (fst (xdel n b os p)) = ndel (xabs n) b /\ xwf (fst (xdel n b os p)).
Proof. exact @xdel_sim. Qed.
Print Assumptions C12_xdel_sim.

(* the node4 the two split sites of Insert acquire and partially write *)
Theorem C12_xnew4_sim : forall (C : Type) pl src os (p : @pool C), zero_pool p ->
  xabs (fst (@xnew4 C pl src os p)) = empty4 (mkHdr pl (gcopy 0 src (repeat 0 maxPrefixLen))) /\
  xwf (fst (@xnew4 C pl src os p)).
Proof. exact @xnew4_sim. Qed.
Print Assumptions C12_xnew4_sim.

(* ... which is the `new4` of Model/Tree.v *)
Theorem C12_xnew4_is_new4 : forall pl src os (p : @pool GoArt.Model.Tree.tree), zero_pool p ->
  xabs (fst (xnew4 pl src os p)) =
  GoArt.Model.Tree.new4 (mkHdr pl (GoArt.Model.Tree.copy_into (prefix hdr0) src)).
Proof. exact xnew4_is_new4. Qed.
Print Assumptions C12_xnew4_is_new4.

(* ---------------- many nodes of many trees over one pool ---------------- *)
(* ANY nodes (no well-formedness needed), any events in any order, any answers of
   the pool, any drops: every node ends exactly as it ends alone with a private
   empty pool and only new nodes; and the pool is still zero *)
Theorem C12_interleave_independent : forall (C : Type) evs (st : nat -> xnode C) p, zero_pool p ->
  (forall id, fst (Pool.run evs st p) id = alone id evs (st id)) /\ zero_pool (snd (Pool.run evs st p)).
Proof. exact @interleave_independent. Qed.
Print Assumptions C12_interleave_independent.

(* a well-formed node whose own operations are legal goes through exactly the states
   Model/Node.v (no pool, nodes built from scratch) prescribes *)
Theorem C12_interleave_refines : forall (C : Type) evs (st : nat -> xnode C) p id, zero_pool p ->
  xwf (st id) -> valid id evs (xabs (st id)) ->
  xabs (fst (Pool.run evs st p) id) = nalone id evs (xabs (st id)) /\ xwf (fst (Pool.run evs st p) id).
Proof. exact @interleave_refines. Qed.
Print Assumptions C12_interleave_refines.

(* ---------------- not vacuous: one stale cell, or one forgotten field, shows ---------------- *)
(* node16 -> node48 into a pooled node with ONE stale index byte: byte 200 was never
   added, yet it is found *)
Theorem C12_dirty_node48_index_observable :
  xwf ex16 /\ 100 < 256 /\ assoc 100 (nenum (xabs ex16)) = None /\
  nfind (xabs (fst (xadd ex16 100 99%nat [Reuse 0] [dirty48_idx]))) 200 = Some 4%nat /\
  nfind (nadd (xabs ex16) 100 99%nat) 200 = None.
Proof. exact dirty_node48_index_observable. Qed.
Print Assumptions C12_dirty_node48_index_observable.

(* node48 -> node256 into a pooled node with stale slot 255: byte 255 was never added, yet it is found *)
Theorem C12_dirty_node256_observable :
  xwf ex48 /\ 100 < 256 /\ assoc 100 (nenum (xabs ex48)) = None /\
  nfind (xabs (fst (xadd ex48 100 99%nat [Reuse 0] [dirty256]))) 255 = Some 777%nat /\
  nfind (nadd (xabs ex48) 100 99%nat) 255 = None.
Proof. exact dirty_node256_observable. Qed.
Print Assumptions C12_dirty_node256_observable.

(* a new node4 out of a dirty node4: the "empty" node already has a child *)
Theorem C12_dirty_node4_observable :
  nfind (xabs (fst (xnew4 0 [] [Reuse 0] [dirty4]))) 0x41 = Some 777%nat /\
  nfind (@empty4 nat (mkHdr 0 (gcopy 0 [] (repeat 0 maxPrefixLen)))) 0x41 = None.
Proof. exact dirty_node4_observable. Qed.
Print Assumptions C12_dirty_node4_observable.

(* a clear() that forgot one field would put exactly such nodes into the pool *)
Theorem C12_partial_clear_is_dirty :
  is_zero (clear_with ["children"; "node"]%string ex48) = false /\
  is_zero (clear_with ["node"; "keys"]%string ex48) = false /\
  is_zero (clear_with ["children"; "keys"]%string ex48) = false /\
  is_zero (clear_with ["children"; "node"; "keys"]%string ex48) = true.
Proof. exact partial_clear_is_dirty. Qed.
Print Assumptions C12_partial_clear_is_dirty.

(* ---------------- at the API: a tree emptied by deletions is a new tree ---------------- *)
(* st_of / cs_of: API state / reference content after a history (Proofs/PropFacts.v) *)
Theorem C12_emptied_is_new : forall k ops, history_ok k ops = true -> cs_of k ops = [] ->
  st_of k ops = init.
Proof. exact emptied_is_new. Qed.
Print Assumptions C12_emptied_is_new.

Theorem C12_emptied_behaves_as_new : forall k ops ops', history_ok k ops = true -> cs_of k ops = [] ->
  snd (Api.run k (st_of k ops) ops') = snd (Api.run k init ops').
Proof. exact emptied_behaves_as_new. Qed.
Print Assumptions C12_emptied_behaves_as_new.

(* the hypothesis is met by histories that really insert and delete *)
Theorem C12_emptied_nonvacuous : exists ops,
  history_ok KAlpha ops = true /\ (length ops > 4)%nat /\ cs_of KAlpha ops = [] /\
  exists a v, In (Insert a v) ops.
Proof. exact emptied_nonvacuous. Qed.
Print Assumptions C12_emptied_nonvacuous.

(* pool discipline in the source, regenerated on every run: every Put is preceded by clear() of the same
   node, and the release / acquisition sites are exactly the modelled ones *)
From GoArt Require Import Gen.PoolSites Proofs.PoolSiteFacts.
Theorem C12_every_put_is_cleared : forallb put_cleared pool_puts = true.
Proof. exact PoolSiteFacts.every_put_is_cleared. Qed.
Print Assumptions C12_every_put_is_cleared.

(* a Get that finds nothing to recycle calls New: pool.go's New of the k-th pool is exactly `return new(nodeK)`,
   the zero node the model's `get Fresh k` hands out, and pool.go declares no other package-level variable *)
Theorem C12_pool_new_is_the_zero_node :
  pool_news = map (fun k => (Pool.kind_name k, true)) [Pool.K4; Pool.K16; Pool.K48; Pool.K256] /\
  pool_go_package_vars = 1%N.
Proof. exact pool_new_is_the_zero_node. Qed.
Print Assumptions C12_pool_new_is_the_zero_node.
Theorem C12_put_sites_are_the_modelled_ones :
  map put_fn pool_puts =
  ["*node4.addChild"; "*node4.deleteChild"; "*node16.addChild"; "*node16.deleteChild";
   "*node48.addChild"; "*node48.deleteChild"; "*node256.deleteChild"]%string.
Proof. exact PoolSiteFacts.put_sites_are_the_modelled_ones. Qed.
Print Assumptions C12_put_sites_are_the_modelled_ones.

(* ================= C12 at tree level: whole trees over one shared pool =================
   Model/PoolTree.v: the control flow of Model/Tree.v (Insert: overwrite / leaf split /
   compressed-path split / descend and add; Delete: descend, deleteChild, node4 collapse) over RAW
   nodes and a SHARED pool with an adversarial oracle: every new node4 comes out of the pool, grow /
   shrink / collapse release the old node (cleared) into it, replaced children and header rewrites
   are in-place writes.  tabs : xtree -> tree keeps the occupied cells only.  xtwf: the raw
   invariant xwf at every inner node.  Proofs in Proofs/PoolTreeFacts.v. *)
From GoArt Require Import Model.PoolTree Proofs.PoolTreeFacts.

(* ---- the pool-passing operations are those of Model/Tree.v, for every answer of the pool ---- *)
Theorem C12_xsearch_sim : forall fuel t gk tk d, xtwf t ->
  xsearch fuel t gk tk d = search fuel (tabs t) gk tk d.
Proof. exact xsearch_sim. Qed.
Print Assumptions C12_xsearch_sim.

(* Insert: on a tree that is WF (Spec/TreeSpec.v) below d consumed bytes, for a byte-string key that
   shares those d bytes with the leaves (at the root: d = 0, no condition) *)
Theorem C12_xinsert_sim : forall fuel t gk tk v d os p,
  zero_pool p -> xtwf t -> WF d (tabs t) -> isbytes tk = true ->
  shares d tk (leaves (tabs t)) -> (d <= length tk)%nat ->
  ires_abs (fst (fst (xinsert fuel t gk tk v d os p))) = insert fuel (tabs t) gk tk v d /\
  zero_pool (snd (xinsert fuel t gk tk v d os p)) /\
  ires_wf (fst (fst (xinsert fuel t gk tk v d os p))).
Proof. exact xinsert_sim. Qed.
Print Assumptions C12_xinsert_sim.

(* Delete: any raw-well-formed tree, any byte-string key *)
Theorem C12_xdelete_sim : forall fuel t gk tk d os p,
  zero_pool p -> xtwf t -> isbytes tk = true ->
  dres_abs (fst (fst (xdelete_in fuel t gk tk d os p))) = delete_in fuel (tabs t) gk tk d /\
  zero_pool (snd (xdelete_in fuel t gk tk d os p)) /\
  dres_wf (fst (fst (xdelete_in fuel t gk tk d os p))).
Proof. exact xdelete_sim. Qed.
Print Assumptions C12_xdelete_sim.

(* ---- out of a zero pool, the pool and its answers do not matter: ANY tree, ANY key, no invariant ---- *)
Theorem C12_xstep_oracle_irrelevant : forall k st o os p, zero_pool p ->
  fst (xstep k st o os p) = fst (xstep k st o [] []) /\ zero_pool (snd (xstep k st o os p)).
Proof. exact xstep_irr. Qed.
Print Assumptions C12_xstep_oracle_irrelevant.

(* ---- one method call of one tree over the shared pool = Api.step on the abstracted state ---- *)
Theorem C12_mstep_sim : forall m tid o os, zero_pool (mpool m) -> sinv (snd (trees m tid)) ->
  upd_ok (kind_of m tid) (sabs (snd (trees m tid))) o ->
  let m' := fst (mstep m (MOp tid o os)) in
  snd (mstep m (MOp tid o os)) = [(tid, snd (Api.step (kind_of m tid) (sabs (snd (trees m tid))) o))] /\
  sabs (snd (trees m' tid)) = fst (Api.step (kind_of m tid) (sabs (snd (trees m tid))) o) /\
  kind_of m' tid = kind_of m tid /\
  (forall j, j <> tid -> trees m' j = trees m j) /\
  zero_pool (mpool m') /\ sinv (snd (trees m' tid)).
Proof. exact mstep_sim. Qed.
Print Assumptions C12_mstep_sim.

(* ---- interleaving, unconditionally: ANY trees in ANY states, any kinds, any interleaving, any
   answers of the pool, any drops -- every tree gives the outputs and ends in the state it has
   alone over a private, always empty pool; the shared pool stays zero ---- *)
Theorem C12_trees_alone : forall evs m, zero_pool (mpool m) ->
  (forall tid, outputs_of tid (snd (mrun evs m)) =
               snd (xalone (kind_of m tid) (snd (trees m tid)) (ops_of tid evs))) /\
  (forall tid, snd (trees (fst (mrun evs m)) tid) =
               fst (xalone (kind_of m tid) (snd (trees m tid)) (ops_of tid evs))) /\
  (forall tid, kind_of (fst (mrun evs m)) tid = kind_of m tid) /\
  zero_pool (mpool (fst (mrun evs m))).
Proof. exact trees_alone. Qed.
Print Assumptions C12_trees_alone.

(* ---- MAIN: ... and those are the outputs of Model/Api.run on the tree's own operations, when the
   tree starts empty and ITS OWN history is history_ok; the other trees are arbitrary ---- *)
Theorem C12_trees_independent : forall evs m, zero_pool (mpool m) ->
  forall tid, snd (trees m tid) = xinit -> history_ok (kind_of m tid) (ops_of tid evs) = true ->
  outputs_of tid (snd (mrun evs m)) = snd (Api.run (kind_of m tid) Api.init (ops_of tid evs)).
Proof. exact trees_independent. Qed.
Print Assumptions C12_trees_independent.

(* the same under the weaker, semantic condition: along Api.run every update key is a byte string and
   every Insert meets a WF tree *)
Theorem C12_trees_independent_gen : forall evs m tid, zero_pool (mpool m) -> snd (trees m tid) = xinit ->
  wf_hist (kind_of m tid) Api.init (ops_of tid evs) ->
  outputs_of tid (snd (mrun evs m)) = snd (Api.run (kind_of m tid) Api.init (ops_of tid evs)) /\
  sabs (snd (trees (fst (mrun evs m)) tid)) = fst (Api.run (kind_of m tid) Api.init (ops_of tid evs)).
Proof. exact trees_independent_gen. Qed.
Print Assumptions C12_trees_independent_gen.

(* ---- not vacuous ---- *)
(* a node4 released by tree 0 (collapse) is handed to tree 1 (leaf split) by the pool *)
Theorem C12_trees_recycle_example :
  length (mpool (fst (mrun ex_evs0 ex_m0))) = 1%nat /\
  length (mpool (fst (mrun (ex_evs0 ++ ex_evs1) ex_m0))) = 0%nat /\
  length (mpool (fst (mrun (ex_evs0 ++ [MOp 1 (Insert (AB [120]) 3) []; MOp 1 (Insert (AB [121]) 4) [Fresh]]) ex_m0))) = 1%nat /\
  history_ok KAlpha (ops_of 0 (ex_evs0 ++ ex_evs1)) = true /\
  history_ok KAlpha (ops_of 1 (ex_evs0 ++ ex_evs1)) = true /\
  outputs_of 1 (snd (mrun (ex_evs0 ++ ex_evs1) ex_m0)) = [OUnit; OUnit; OAbsent].
Proof. exact trees_recycle_example. Qed.
Print Assumptions C12_trees_recycle_example.

(* over a pool holding ONE node4 with one stale cell the same tree finds a key it never inserted *)
Theorem C12_trees_dirty_observable :
  is_zero ex_dirty4 = false /\
  outputs_of 1 (snd (mrun ex_evs1 (mkMstate (fun _ => (KAlpha, xinit)) [ex_dirty4]))) = [OUnit; OUnit; OFound 777] /\
  snd (Api.run KAlpha Api.init (ops_of 1 ex_evs1)) = [OUnit; OUnit; OAbsent].
Proof. exact trees_dirty_observable. Qed.
Print Assumptions C12_trees_dirty_observable.

(* ---- node.go regenerated: clear() of the four node types and the shrinking deleteChild of a node256,
   as translated from the current source on every run (Gen/NodeGen.v), are the pool model's ---- *)
From GoArt Require Import Model.GoNode Gen.NodeGen Proofs.TranslateNodeFacts.

Theorem C12_regenerated_node4_clear : forall (C : Type) h keys (ch : list (option C)),
  g_node4_clear (X4 h keys ch) = Pool.xclear (X4 h keys ch).
Proof. exact @gen_node4_clear_eq. Qed.
Print Assumptions C12_regenerated_node4_clear.

Theorem C12_regenerated_node16_clear : forall (C : Type) h keys (ch : list (option C)),
  g_node16_clear (X16 h keys ch) = Pool.xclear (X16 h keys ch).
Proof. exact @gen_node16_clear_eq. Qed.
Print Assumptions C12_regenerated_node16_clear.

Theorem C12_regenerated_node48_clear : forall (C : Type) h idx (ch : list (option C)),
  g_node48_clear (X48 h idx ch) = Pool.xclear (X48 h idx ch).
Proof. exact @gen_node48_clear_eq. Qed.
Print Assumptions C12_regenerated_node48_clear.

Theorem C12_regenerated_node256_clear : forall (C : Type) h (ch : list (option C)),
  g_node256_clear (X256 h ch) = Pool.xclear (X256 h ch).
Proof. exact @gen_node256_clear_eq. Qed.
Print Assumptions C12_regenerated_node256_clear.

Theorem C12_regenerated_node256_deleteChild : forall (C : Type) h (ch : list (option C)) b os p,
  Pool.shape_ok (X256 h ch) = true -> pool_shapes p ->
  g_node256_deleteChild (X256 h ch) b os p = Pool.xdel256 h ch b os p.
Proof. exact @gen_node256_deleteChild_eq. Qed.
Print Assumptions C12_regenerated_node256_deleteChild.
