(* C01 — the tree is an exact ordered map: on every valid history each operation
   returns normally and answers exactly as the reference map (Spec/Ideal.v), whose
   Search / Delete answers are "the value of the latest Insert of that key not
   followed by a Delete" (Spec/Semantics.v: map_answer).  Key identity is the
   identity the caller means (akey_same).  Histories of valid keys are valid; byte
   strings containing 0x00 are outside the hypothesis and the model really fails
   there (known finding D2).
   Notation: st_of k ops / cs_of k ops / outs k ops = API state / reference content /
   outputs after running ops from the empty tree (Proofs/PropFacts.v).
   This file holds only the property theorems; the proofs are in Proofs/PropFacts.v,
   Proofs/KeySemantics.v. *)
From GoArt Require Import Base.Bytes Model.Keys Model.Node Model.Tree Model.Api
  Spec.TreeSpec Spec.Ideal Spec.Semantics Proofs.KeySemantics Proofs.PropFacts.
Open Scope N_scope.

Theorem C01_refines_reference : forall k ops, history_ok k ops = true ->
  outs k ops = snd (ideal_run k [] ops).
Proof. exact refines_reference. Qed.
Print Assumptions C01_refines_reference.

Theorem C01_exact_map : forall k ops, history_ok k ops = true ->
  map_outputs_ok k [] ops (outs k ops).
Proof. exact exact_map. Qed.
Print Assumptions C01_exact_map.

Theorem C01_returns_normally : forall k ops, history_ok k ops = true ->
  Forall2 (fun o x => match o with
                      | Insert _ _ | Search _ | Delete _ => x <> OPanic /\ x <> OFuel
                      | _ => True end) ops (outs k ops).
Proof. exact returns_normally. Qed.
Print Assumptions C01_returns_normally.

Theorem C01_key_identity : forall k a b, k <> KCollation ->
  akey_ok k a = true -> akey_ok k b = true ->
  (fst (transform k a) = fst (transform k b) <-> akey_same k a b).
Proof. exact transform_identity. Qed.
Print Assumptions C01_key_identity.

Theorem C01_key_identity_collation : forall o c o' c',
  fst (transform KCollation (AC o c)) = fst (transform KCollation (AC o' c')) <-> o = o'.
Proof. exact key_identity_collation. Qed.
Print Assumptions C01_key_identity_collation.

(* a history of valid keys (probes may contain 0x00) satisfies the hypothesis *)
Theorem C01_valid_histories : forall k ops, k <> KCollation ->
  (forall a, In a (flat_map ins_keys ops) -> akey_ok k a = true) ->
  (forall a, In a (flat_map (probe_keys k) ops) -> aprobe_ok k a = true) ->
  history_ok k ops = true.
Proof. exact history_ok_valid. Qed.
Print Assumptions C01_valid_histories.

(* collation trees: the sort keys are data supplied by the collator *)
Theorem C01_valid_histories_collation : forall ops,
  (forall p, In p (ins_pairs KCollation ops) -> isbytes (snd p) = true) ->
  (forall p q, In p (ins_pairs KCollation ops) -> In q (ins_pairs KCollation ops) ->
     (fst p = fst q <-> snd p = snd q)) ->
  (forall p q, In p (ins_pairs KCollation ops) -> In q (ins_pairs KCollation ops) ->
     is_prefix (snd p) (snd q) -> snd p = snd q) ->
  (forall p, In p (probe_pairs KCollation ops) -> isbytes (snd p) = true) ->
  (forall p q, In p (probe_pairs KCollation ops) -> In q (ins_pairs KCollation ops) ->
     fst q = fst p -> snd q = snd p) ->
  (forall a b s, ~ In (Range a b s) ops) ->
  history_ok KCollation ops = true.
Proof. exact history_ok_collation_split. Qed.
Print Assumptions C01_valid_histories_collation.

(* a prefix of a valid history is valid *)
Theorem C01_valid_prefix : forall k ops1 ops2,
  history_ok k (ops1 ++ ops2) = true -> history_ok k ops1 = true.
Proof. exact history_ok_prefix. Qed.
Print Assumptions C01_valid_prefix.

(* known finding D2: byte-string keys containing 0x00 are outside the hypothesis,
   and the model really fails there
   (witness: Insert "a" 1; Insert "a\x00" 2; Search "a" answers absent) *)
Theorem C01_alpha_nul_refuted : exists ops, ~ map_outputs_ok KAlpha [] ops (outs KAlpha ops).
Proof. exact alpha_nul_refuted. Qed.
Print Assumptions C01_alpha_nul_refuted.

(* non-vacuity: a valid history of 36 operations (25 inserts under one stem, then
   searches, deletes, an overwrite) ending in a tree whose root is a node48 *)
Example C01_nonvacuous : exists ops,
  history_ok KAlpha ops = true /\ (length ops > 20)%nat /\
  match root (st_of KAlpha ops) with Some (Inner n) => 16 <= nkind n | _ => False end /\
  outs KAlpha ops = snd (ideal_run KAlpha [] ops).
Proof. exact nonvacuous. Qed.

(* the known finding D14: collation strings the collator cannot tell apart (byte-identical sort keys) are
   outside history_ok, and the model — like the code — loses both keys there *)
From GoArt Require Import Proofs.FindingFacts.
Theorem C01_collation_equal_sortkeys_refuted :
  history_ok KCollation d14_ops = false /\
  ~ map_outputs_ok KCollation [] d14_ops (outs KCollation d14_ops) /\
  outs KCollation d14_ops = [OUnit; OUnit; OAbsent; OAbsent; OSize 2; OSeq [] 0].
Proof. exact collation_equal_sortkeys_refuted. Qed.
Print Assumptions C01_collation_equal_sortkeys_refuted.

(* the regenerated tie of the read-only descent: the Search methods of trees.go / collation.go, translated from
   the Go AST on every run (Gen/TreeGen.v, go/cmd/srcfacts/translate_tree.go; vocabulary Model/GoTree.v), ARE
   Model.Tree.search on the tree a raw tree stands for: no panic, GFuel exactly where the model reports SFuel *)
From GoArt Require Import Model.PoolTree Proofs.PoolTreeFacts Model.GoTree Gen.TreeGen Proofs.TranslateTreeFacts.
Theorem C01_regenerated_alpha_search : forall fuel t keyS, xtwf t -> isbytes keyS = true ->
  g_alpha_search fuel (Some t) keyS = gres_of_sres (Tree.search fuel (tabs t) keyS keyS 0).
Proof. exact gen_alpha_search_model. Qed.
Print Assumptions C01_regenerated_alpha_search.
Theorem C01_regenerated_collation_search : forall fuel t keyS colKey, xtwf t -> isbytes colKey = true ->
  g_collation_search fuel (Some t) keyS colKey = gres_of_sres (Tree.search fuel (tabs t) keyS colKey 0).
Proof. exact gen_collation_search_model. Qed.
Print Assumptions C01_regenerated_collation_search.

(* the regenerated tie of the MUTATING methods: Delete and Insert of trees.go / collation.go, translated statement by
   statement from the Go AST on every run into heap-passing functions (Gen/MutGen.v, go/cmd/srcfacts/translate_mut.go;
   vocabulary Model/GoHeap.v: explicit addresses, *nodeRef as slots, writes through pointers in source order), SIMULATE
   the pool-aware model Model/PoolTree.v on every heap that holds the model's raw tree (repr_root: every node at its own
   address, footprints of different children disjoint): same output, same t.size, same pool, and the resulting heap holds
   the model's resulting tree; no panic (Delete), panic exactly where the model reports one (Insert), MFuel exactly where
   the model reports OFuel *)
From GoArt Require Import Model.Pool Proofs.PoolFacts Model.GoHeap Gen.MutGen Proofs.TranslateMutFacts.
Theorem C01_regenerated_alpha_delete : forall h root ot F size keyS os pm,
  repr_root h root ot F -> zero_pool pm -> isbytes (keyS ++ [0]) = true -> match ot with Some t => xfit t | None => True end ->
  let m := xdo_delete (mkXstate ot size) (keyS ++ [0]) (keyS ++ [0]) os pm in
  match g_alpha_delete (key_fuel (keyS ++ [0])) h root size keyS os (map_pool pm) with
  | MDone h' root' size' os' p' ret =>
      snd (fst m) = OBool ret /\ size' = xsize (fst (fst m)) /\ p' = map_pool (snd m) /\ zero_pool (snd m) /\
      next h' = next h /\
      exists F', repr_root h' root' (xroot (fst (fst m))) F' /\ (forall x, F' x -> F x) /\
                 (forall x, ~ F x -> load h' x = load h x)
  | MPanic => False
  | MFuel => snd (fst m) = OFuel
  end.
Proof. exact gen_alpha_delete_sim. Qed.
Print Assumptions C01_regenerated_alpha_delete.
Theorem C01_regenerated_collation_delete : forall h root ot F size keyS colKey os pm,
  repr_root h root ot F -> zero_pool pm -> isbytes colKey = true -> match ot with Some t => xfit t | None => True end ->
  let m := xdo_delete (mkXstate ot size) keyS colKey os pm in
  match g_collation_delete (key_fuel colKey) h root size keyS colKey os (map_pool pm) with
  | MDone h' root' size' os' p' ret =>
      snd (fst m) = OBool ret /\ size' = xsize (fst (fst m)) /\ p' = map_pool (snd m) /\ zero_pool (snd m) /\
      next h' = next h /\
      exists F', repr_root h' root' (xroot (fst (fst m))) F' /\ (forall x, F' x -> F x) /\
                 (forall x, ~ F x -> load h' x = load h x)
  | MPanic => False
  | MFuel => snd (fst m) = OFuel
  end.
Proof. exact gen_collation_delete_sim. Qed.
Print Assumptions C01_regenerated_collation_delete.
Theorem C01_regenerated_alpha_insert : forall h root ot F size keyS val os pm,
  repr_root h root ot F -> hwf h -> zero_pool pm -> isbytes (keyS ++ [0]) = true ->
  N.of_nat (length (keyS ++ [0])) < M32 -> N.of_nat (length (keyS ++ [0])) < M32 ->
  match ot with Some t => WF 0 (tabs t) /\ xfit32 t | None => True end ->
  let m := xdo_insert (mkXstate ot size) (keyS ++ [0]) (keyS ++ [0]) val os pm in
  match g_alpha_insert (key_fuel (keyS ++ [0])) h root size keyS val os (map_pool pm) with
  | MDone h' root' size' os' p' _ =>
      snd (fst m) = OUnit /\ size' = xsize (fst (fst m)) /\ p' = map_pool (snd m) /\ zero_pool (snd m) /\ hwf h' /\
      exists F', repr_root h' root' (xroot (fst (fst m))) F' /\ (forall x, F' x -> F x \/ (next h <= x)%nat) /\
                 (forall x, (x < next h)%nat -> ~ F x -> load h' x = load h x)
  | MPanic => snd (fst m) = OPanic
  | MFuel => snd (fst m) = OFuel
  end.
Proof. exact gen_alpha_insert_sim. Qed.
Print Assumptions C01_regenerated_alpha_insert.
Theorem C01_regenerated_collation_insert : forall h root ot F size keyS colKey val os pm,
  repr_root h root ot F -> hwf h -> zero_pool pm -> isbytes colKey = true ->
  N.of_nat (length keyS) < M32 -> N.of_nat (length colKey) < M32 ->
  match ot with Some t => WF 0 (tabs t) /\ xfit32 t | None => True end ->
  let m := xdo_insert (mkXstate ot size) keyS colKey val os pm in
  match g_collation_insert (key_fuel colKey) h root size keyS colKey val os (map_pool pm) with
  | MDone h' root' size' os' p' _ =>
      snd (fst m) = OUnit /\ size' = xsize (fst (fst m)) /\ p' = map_pool (snd m) /\ zero_pool (snd m) /\ hwf h' /\
      exists F', repr_root h' root' (xroot (fst (fst m))) F' /\ (forall x, F' x -> F x \/ (next h <= x)%nat) /\
                 (forall x, (x < next h)%nat -> ~ F x -> load h' x = load h x)
  | MPanic => snd (fst m) = OPanic
  | MFuel => snd (fst m) = OFuel
  end.
Proof. exact gen_collation_insert_sim. Qed.
Print Assumptions C01_regenerated_collation_insert.
(* and by computation on whole histories (every path of both methods, every growth and shrink threshold, pool reuse) *)
Theorem C01_regenerated_insert_examples :
  g_run KAlpha g_init ex_alpha = x_run KAlpha xinit [] ex_alpha /\
  g_run KAlpha g_init ex_wide = x_run KAlpha xinit [] ex_wide /\
  g_run KCollation g_init ex_collation = x_run KCollation xinit [] ex_collation.
Proof. exact (conj ex_alpha_cosim (conj ex_wide_cosim ex_collation_cosim)). Qed.
Print Assumptions C01_regenerated_insert_examples.

(* the regenerated code END TO END (Proofs/TranslateRunFacts.v): a driver that executes Insert / Search / Delete calls on
   the byte-string tree by calling the regenerated g_alpha_insert / g_alpha_delete (heap-passing, Gen/MutGen.v) and
   g_alpha_search (Gen/TreeGen.v, on the tree the heap holds), from the empty heap and the empty pool, with ANY pool
   answers, gives on every history_ok history (keys shorter than 2^32 bytes) the outputs of Model/Api.run, i.e. of the
   reference map; and the uint32 hypotheses of the per-call theorems hold in every state such a history reaches *)
From GoArt Require Import Spec.Ideal Proofs.TranslateRunFacts.
Theorem C01_regenerated_run_refines : forall evs,
  Forall alpha_op (map fst evs) -> history_ok KAlpha (map fst evs) = true -> short_keys KAlpha (map fst evs) ->
  g_alpha_run evs g_init = snd (Api.run KAlpha Api.init (map fst evs)) /\
  g_alpha_run evs g_init = snd (ideal_run KAlpha [] (map fst evs)).
Proof. intros evs H1 H2 H3. split; [exact (gen_alpha_run_refines evs H1 H2 H3)|exact (gen_alpha_run_ideal evs H1 H2 H3)]. Qed.
Print Assumptions C01_regenerated_run_refines.
Theorem C01_regenerated_fit_reachable : forall k ops, history_ok k ops = true -> short_keys k ops ->
  forall t, xroot (fst (xalone k xinit ops)) = Some t -> xfit t /\ xfit32 t /\ short_leaves (tabs t).
Proof. exact fit_reachable. Qed.
Print Assumptions C01_regenerated_fit_reachable.

(* ... over ALL twelve operations of the public interface (Proofs/TranslateRunAllFacts.v): the nine queries are the
   regenerated thin methods of Gen/ApiGen.v run on the tree the heap holds, with budgets computed from that tree *)
From GoArt Require Import Proofs.TranslateRunAllFacts.
Theorem C01_regenerated_run_refines_all : forall evs,
  Forall alpha_op_all (map fst evs) -> history_ok KAlpha (map fst evs) = true -> short_keys KAlpha (map fst evs) ->
  g_alpha_run_all evs g_init = snd (Api.run KAlpha Api.init (map fst evs)) /\
  g_alpha_run_all evs g_init = snd (ideal_run KAlpha [] (map fst evs)).
Proof. exact gen_alpha_run_refines_all. Qed.
Print Assumptions C01_regenerated_run_refines_all.

(* codec + tree + nodes, ALL REGENERATED, in one loop (Proofs/TranslateRunAllFacts.v): the numeric trees run with the
   key bytes produced by the regenerated Transform of Gen/KeysGen.v (not the model's encoders) and the returned keys
   read back by the regenerated Restore, through the regenerated Insert / Delete / Search and thin methods, give on
   every history_ok history over all twelve operations the outputs of Model/Api.run = the reference map *)
Theorem C01_regenerated_numeric_trees_codec_in_the_loop : forall evs,
  (Forall unsigned64_op (map fst evs) -> history_ok (KUnsigned 8) (map fst evs) = true -> short_keys2 (KUnsigned 8) (map fst evs) ->
   g_unsigned64_run evs g_init = snd (Api.run (KUnsigned 8) Api.init (map fst evs)) /\
   g_unsigned64_run evs g_init = snd (ideal_run (KUnsigned 8) [] (map fst evs))) /\
  (Forall signed64_op (map fst evs) -> history_ok (KSigned 8) (map fst evs) = true -> short_keys2 (KSigned 8) (map fst evs) ->
   g_signed64_run evs g_init = snd (Api.run (KSigned 8) Api.init (map fst evs)) /\
   g_signed64_run evs g_init = snd (ideal_run (KSigned 8) [] (map fst evs))) /\
  (Forall float64_op (map fst evs) -> history_ok (KFloat 8) (map fst evs) = true -> short_keys2 (KFloat 8) (map fst evs) ->
   g_float64_run evs g_init = snd (Api.run (KFloat 8) Api.init (map fst evs)) /\
   g_float64_run evs g_init = snd (ideal_run (KFloat 8) [] (map fst evs))).
Proof.
  intros evs. split; [exact (gen_unsigned64_run_refines evs)|split; [exact (gen_signed64_run_refines evs)|exact (gen_float64_run_refines evs)]].
Qed.
Print Assumptions C01_regenerated_numeric_trees_codec_in_the_loop.


(* the glue around the translated methods, regenerated as Gen/Bindings.v (Proofs/BindingFacts.v): the codec the byte-string
   tree holds — AlphabeticalOrderKey.Transform / Restore of keys.go, translated — IS the pair (alpha_tr, alpha_rs) the
   end-to-end theorem above plugs into the regenerated methods; every constructor builds its tree with root and size at
   Go's zero value (nil, 0: the state g_init / Api.init every history starts from) and does nothing else; every kind of
   tree has one *)
From GoArt Require Import Proofs.BindingFacts.
From GoArt Require Proofs.TranslateApiBase.
From GoArt Require Gen.Bindings.
From Coq Require Import String.
Local Open Scope string_scope.
Theorem C01_regenerated_alpha_codec :
  (forall k, Bindings.g_alpha_transform k = alpha_tr k) /\ (forall b, Bindings.g_alpha_restore b = TranslateApiBase.alpha_rs b).
Proof. exact (conj gen_alpha_transform_eq gen_alpha_restore_eq). Qed.
Print Assumptions C01_regenerated_alpha_codec.
Theorem C01_constructors_build_empty_trees : forall c f,
  In c Bindings.constructors -> In f (ctor_fields c) ->
  (fst f = "root"%string -> snd f = "nodeRef{}"%string) /\ (fst f = "size"%string -> snd f = "0"%string).
Proof. exact constructors_leave_root_and_size_zero. Qed.
Print Assumptions C01_constructors_build_empty_trees.
Theorem C01_constructors_do_nothing_else : forallb ctor_ok Bindings.constructors = true.
Proof. exact constructors_build_empty_trees. Qed.
Print Assumptions C01_constructors_do_nothing_else.
Theorem C01_every_tree_kind_has_a_constructor :
  forallb (fun s => existsb (fun c => String.eqb (ctor_tree c) (fst s) && String.prefix "New" (ctor_name c)) Bindings.constructors)
          Bindings.tree_structs = true.
Proof. exact every_tree_kind_has_a_constructor. Qed.
Print Assumptions C01_every_tree_kind_has_a_constructor.
