(* C17 — the logic part of "memory is bounded by the content".
   The runtime part (heap measurements, evidence/C17.json) observes executions; what
   is PROVED here, on the model:
     - a well-formed tree has fewer inner nodes than leaves (every inner node has at
       least two children, every child at least one leaf);
     - after any valid history the tree holds exactly one leaf per stored key and
       fewer inner nodes than that; with no keys it holds nothing at all — the state
       is the initial state, and behaves like it (nothing retained);
     - the collation path (Model/Mem.v): after a Transform the leaf's two keys live in
       arrays of their own, and the collator's buffer holds the sort key of the LAST
       key only: it is reset on every call and does not accumulate.
   inner_count (Proofs/PropFacts2.v) = number of Inner nodes of a tree.
   Only property theorems here; proofs in Proofs/PropFacts2.v, Proofs/MemFacts.v. *)
From GoArt Require Import Base.Bytes Model.Keys Model.Node Model.Tree Model.Api
  Spec.TreeSpec Spec.Ideal Proofs.PropFacts Proofs.PropFacts2.
From GoArt Require Import Model.Mem Proofs.MemFacts.
Open Scope N_scope.

(* ---------------- the node graph ---------------- *)
Theorem C17_inner_count_leaf : forall gk tk v, inner_count (Leaf gk tk v) = 0%nat.
Proof. exact inner_count_leaf. Qed.
Print Assumptions C17_inner_count_leaf.

(* the fuel-free equation of inner_count *)
Theorem C17_inner_count_inner : forall n,
  inner_count (Inner n) = S (list_sum (map (fun bc => inner_count (snd bc)) (nenum n))).
Proof. exact inner_count_inner. Qed.
Print Assumptions C17_inner_count_inner.

Theorem C17_inner_nodes_bounded : forall d t, WF d t -> (inner_count t < length (leaves t))%nat.
Proof. exact inner_nodes_bounded. Qed.
Print Assumptions C17_inner_nodes_bounded.

(* st_of / cs_of: API state / reference content after a history (Proofs/PropFacts.v) *)
Theorem C17_state_bounded : forall k ops, history_ok k ops = true ->
  match root (st_of k ops) with
  | None => cs_of k ops = []
  | Some t => (inner_count t < length (cs_of k ops))%nat /\ length (leaves t) = length (cs_of k ops)
  end.
Proof. exact state_bounded. Qed.
Print Assumptions C17_state_bounded.

(* the bound is met: two keys, one inner node *)
Theorem C17_state_bounded_tight : exists ops t,
  history_ok KAlpha ops = true /\ root (st_of KAlpha ops) = Some t /\
  inner_count t = 1%nat /\ length (cs_of KAlpha ops) = 2%nat.
Proof. exact state_bounded_tight. Qed.
Print Assumptions C17_state_bounded_tight.

(* after all keys are deleted the state is the initial state: nothing is retained *)
Theorem C17_emptied_is_new : forall k ops, history_ok k ops = true -> cs_of k ops = [] ->
  st_of k ops = init.
Proof. exact emptied_is_new. Qed.
Print Assumptions C17_emptied_is_new.

Theorem C17_emptied_behaves_as_new : forall k ops ops', history_ok k ops = true -> cs_of k ops = [] ->
  snd (run k (st_of k ops) ops') = snd (run k init ops').
Proof. exact emptied_behaves_as_new. Qed.
Print Assumptions C17_emptied_behaves_as_new.

(* ---------------- the collation buffer ---------------- *)
(* after a Transform the leaf's keys live in their own arrays, distinct from the
   (possibly reallocated) buffer *)
Theorem C17_coll_transform_spec : forall g f h buf k,
  slice_ok h buf -> (arr buf < length h)%nat -> slice_ok h k ->
  exists h' buf' keyS colKey, coll_transform g f h buf k = (h', buf', keyS, colKey) /\
    old_arrays_unchanged_except (arr buf) h h' /\
    (length h <= arr keyS < length h')%nat /\ (length h <= arr colKey < length h')%nat /\
    arr keyS <> arr colKey /\ arr keyS <> arr buf' /\ arr colKey <> arr buf' /\
    slice_ok h' buf' /\ (arr buf' < length h')%nat /\ slice_ok h' keyS /\ slice_ok h' colKey /\
    read h' keyS = read h k /\ read h' colKey = f (read h k).
Proof. exact coll_transform_spec. Qed.
Print Assumptions C17_coll_transform_spec.

(* the buffer holds the sort key of the key just transformed and nothing else,
   whatever it held before *)
Theorem C17_coll_buffer_last_only : forall g f h buf k h' buf' keyS colKey,
  slice_ok h buf -> (arr buf < length h)%nat -> slice_ok h k ->
  coll_transform g f h buf k = (h', buf', keyS, colKey) ->
  read h' buf' = f (read h k) /\ len buf' = length (f (read h k)).
Proof. exact coll_buffer_last_only. Qed.
Print Assumptions C17_coll_buffer_last_only.

(* two Transforms in a row: the length of the buffer is that of the second sort key only *)
Theorem C17_coll_buffer_no_accumulation :
  forall g f h buf k1 h1 buf1 keyS1 colKey1 k2 h2 buf2 keyS2 colKey2,
  slice_ok h buf -> (arr buf < length h)%nat -> slice_ok h k1 ->
  coll_transform g f h buf k1 = (h1, buf1, keyS1, colKey1) -> slice_ok h1 k2 ->
  coll_transform g f h1 buf1 k2 = (h2, buf2, keyS2, colKey2) ->
  read h2 buf2 = f (read h1 k2) /\ len buf2 = length (f (read h1 k2)).
Proof. exact coll_buffer_no_accumulation. Qed.
Print Assumptions C17_coll_buffer_no_accumulation.
