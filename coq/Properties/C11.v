(* C11 — structural invariants: after every valid history the tree is the
   well-formed compressed radix tree of its key set (WF), its leaves are the
   reference content, its shape depends on the set of transformed keys only, and every
   node's recorded fan-out is its number of children mod 256 within its size class.
   Known finding D10: the 8-bit counter of a node holding all 256 children reads 0.
   Only property theorems here; proofs in Proofs/PropFacts.v, Proofs/ShapeFacts.v,
   Proofs/NodeFacts.v. *)
From GoArt Require Import Base.Bytes Model.Keys Model.Node Model.Tree Model.Api
  Spec.NodeSpec Spec.TreeSpec Spec.Ideal Proofs.NodeFacts Proofs.ShapeFacts Proofs.PropFacts.
Open Scope N_scope.

Theorem C11_wellformed : forall k ops, history_ok k ops = true ->
  match root (st_of k ops) with
  | None => cs_of k ops = [] /\ size (st_of k ops) = 0%Z
  | Some t => WF 0 t /\ leaves t = cs_of k ops /\ size (st_of k ops) = Z.of_nat (length (leaves t))
  end.
Proof. exact wellformed. Qed.
Print Assumptions C11_wellformed.

Theorem C11_shape_depends_on_keys_only : forall k1 k2 ops1 ops2 t1 t2,
  history_ok k1 ops1 = true -> history_ok k2 ops2 = true ->
  root (st_of k1 ops1) = Some t1 -> root (st_of k2 ops2) = Some t2 ->
  map ltk (cs_of k1 ops1) = map ltk (cs_of k2 ops2) -> shape_of t1 = shape_of t2.
Proof. exact shape_depends_on_keys_only. Qed.
Print Assumptions C11_shape_depends_on_keys_only.

(* recorded fan-out = children mod 256, fits the class *)
Theorem C11_fanout : forall (C : Type) (n : rnode C), nwf n ->
  nlen n = u8 (N.of_nat (length (nenum n))) /\ N.of_nat (length (nenum n)) <= nkind n.
Proof. exact @nlen_spec. Qed.
Print Assumptions C11_fanout.

(* known finding D10: the 8-bit counter of a node holding all 256 children reads 0 *)
Theorem C11_fanout_256_refuted : exists (n : rnode nat),
  nwf n /\ nlen n <> N.of_nat (length (nenum n)).
Proof. exact fanout_256_refuted. Qed.
Print Assumptions C11_fanout_256_refuted.
