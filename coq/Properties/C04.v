(* C04 — Prefix: answers as the reference (the stored keys whose original bytes
   start with the given bytes, in order; the empty prefix selects everything).
   Only property theorems here; proofs in Proofs/PropFacts.v. *)
From GoArt Require Import Base.Bytes Model.Keys Model.Node Model.Tree Model.Api
  Spec.TreeSpec Spec.IterSpec Spec.Ideal Spec.Semantics Proofs.PropFacts.
Open Scope N_scope.

Theorem C04_prefix_reference : forall k ops p stop,
  history_ok k (ops ++ [Prefix p stop]) = true ->
  snd (step k (st_of k ops) (Prefix p stop)) = ideal_prefix k (cs_of k ops) p (stop_ans stop).
Proof. exact prefix_reference. Qed.
Print Assumptions C04_prefix_reference.

Theorem C04_prefix_alpha : forall cs pb ans, ideal_prefix KAlpha cs (AB pb) ans =
  ideal_seq KAlpha (filter (fun l => has_prefix (akey_bytes (key_of KAlpha l)) pb) cs) ans.
Proof. exact prefix_alpha. Qed.
Print Assumptions C04_prefix_alpha.

Theorem C04_prefix_collation : forall cs o c ans, ideal_prefix KCollation cs (AC o c) ans =
  ideal_seq KCollation (filter (fun l => has_prefix (lgk l) o) cs) ans.
Proof. exact prefix_collation. Qed.
Print Assumptions C04_prefix_collation.

(* the filter looks at the original bytes: a stored key restores to the inserted string *)
Theorem C04_stored_original : forall k ops l, k = KAlpha -> history_ok k ops = true ->
  (forall a v, In (Insert a v) ops -> akey_ok k a = true) ->
  In l (cs_of k ops) -> exists x v, In (Insert (AB x) v) ops /\ key_of KAlpha l = AB x.
Proof. exact stored_original. Qed.
Print Assumptions C04_stored_original.
