(* C04 — Prefix: answers as the reference (the stored keys whose original bytes
   start with the given bytes, in order; the empty prefix selects everything).
   Only property theorems here; proofs in Proofs/PropFacts.v. *)
From GoArt Require Import Base.Bytes Model.Keys Model.Node Model.Tree Model.Api
  Spec.TreeSpec Spec.IterSpec Spec.Ideal Spec.Semantics Proofs.PropFacts.
Open Scope N_scope.

Theorem C04_prefix_reference : forall k ops p stop,
  history_ok k (ops ++ [Prefix p stop]) = true ->
  snd (step k (st_of k ops) (Prefix p stop)) = ideal_prefix k (cs_of k ops) p (stop_ans stop).
Proof. exact prefix_reference. Qed.
Print Assumptions C04_prefix_reference.

Theorem C04_prefix_alpha : forall cs pb ans, ideal_prefix KAlpha cs (AB pb) ans =
  ideal_seq KAlpha (filter (fun l => has_prefix (akey_bytes (key_of KAlpha l)) pb) cs) ans.
Proof. exact prefix_alpha. Qed.
Print Assumptions C04_prefix_alpha.

Theorem C04_prefix_collation : forall cs o c ans, ideal_prefix KCollation cs (AC o c) ans =
  ideal_seq KCollation (filter (fun l => has_prefix (lgk l) o) cs) ans.
Proof. exact prefix_collation. Qed.
Print Assumptions C04_prefix_collation.

(* the filter looks at the original bytes: a stored key restores to the inserted string *)
Theorem C04_stored_original : forall k ops l, k = KAlpha -> history_ok k ops = true ->
  (forall a v, In (Insert a v) ops -> akey_ok k a = true) ->
  In l (cs_of k ops) -> exists x v, In (Insert (AB x) v) ops /\ key_of KAlpha l = AB x.
Proof. exact stored_original. Qed.
Print Assumptions C04_stored_original.

(* the regenerated tie: lowestCommonParent() and filter() of tree.go, translated from the Go AST on every run
   (Gen/IterGen.v). lowestCommonParent stops at the node Model.Iter.lcparent stops at (no panic; the budget is enough
   as soon as it exceeds the height, because minimum() inside prefixMismatch gets the same budget); the closure of
   filter is Model.Iter.walk with the predicate deciding Deliver / Skip, for every budget *)
From GoArt Require Import Spec.TreeSpec Model.Iter Model.PoolTree Proofs.PoolTreeFacts Model.GoTree Gen.IterGen Proofs.TranslateIterFacts.
Theorem C04_regenerated_lowestCommonParent : forall fuel t p dd, xtwf t -> WF dd (tabs t) -> isbytes p = true ->
  (theight (tabs t) < fuel)%nat ->
  exists r, g_lowestCommonParent fuel (Some t) p = GRet (Some r) /\ lcparent fuel (tabs t) p 0 = Some (tabs r).
Proof. exact gen_lowestCommonParent_eq. Qed.
Print Assumptions C04_regenerated_lowestCommonParent.
Theorem C04_regenerated_filter : forall fuel t pr pred ans, (forall l, pr l = pred (tabs l)) -> xtwf t ->
  ires_abs (g_filter fuel (Some t) pr ans) =
  Some (walk (fun l => if pred l then Deliver else Skip) expand_fwd fuel [(tabs t, 0%nat)] ans 0 []).
Proof. exact gen_filter_eq. Qed.
Print Assumptions C04_regenerated_filter.

(* the regenerated tie: the Prefix METHODS, translated from the Go AST on every run (Gen/ApiGen.v) over the regenerated
   All / lowestCommonParent / filter, ARE Model.Api.do_prefix on the raw state: the empty prefix is All; the alpha tree
   filters the subtree lowestCommonParent selects on the RESTORED key (the predicate receives restoreKey's result:
   pred_restore), the collation tree filters the whole tree on the original bytes (the model's key AC o c also carries
   the sort key, which the Go side does not return: forget_col); budgets: the model's for All, any budget above the
   tree size for filter, above the height and the prefix length for lowestCommonParent *)
From GoArt Require Import Model.Api Model.PoolTree Proofs.PoolTreeFacts Model.GoTree Gen.ApiGen Proofs.TranslateApiBase Proofs.TranslateApiPrefix.
Theorem C04_regenerated_alpha_Prefix : forall tr st p ans fa ff fl, sinv st -> root_wf (sabs st) -> keys_ok nonempty_key st ->
  isbytes p = true ->
  (forall t, xroot st = Some t -> fa = walk_fuel (tabs t) /\ (tsize (tabs t) < ff)%nat /\
                                   (theight (tabs t) < fl)%nat /\ (length p + 2 <= fl)%nat) ->
  kres_out AB (g_alpha_Prefix tr alpha_rs fa ff fl (xroot st) p ans) = do_prefix KAlpha (sabs st) (AB p) ans.
Proof. exact gen_alpha_prefix_eq. Qed.
Print Assumptions C04_regenerated_alpha_Prefix.
Theorem C04_regenerated_collation_Prefix : forall col rs st p ans fa ff, sinv st ->
  (forall t, xroot st = Some t -> fa = walk_fuel (tabs t) /\ ff = walk_fuel (tabs t)) ->
  kres_out AB (g_collation_Prefix (col_tr col) rs fa ff (xroot st) p ans) =
  out_keymap forget_col (do_prefix KCollation (sabs st) (AC p (col p)) ans).
Proof. exact gen_collation_prefix_eq. Qed.
Print Assumptions C04_regenerated_collation_Prefix.
