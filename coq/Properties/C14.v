(* C14 — sequences can be abandoned early and iterated again.
   The consumer of a sequence is an ARBITRARY answer function ans : nat -> bool
   (its answer to call number i); `consume ans 0 ls` (Spec/IterSpec.v) is what a
   push iterator over the list ls owes such a consumer: the elements up to and
   including the one it refuses, one call per delivered element, none afterwards.
   walk_is r ans ls: the scan r delivered exactly that, made exactly that many
   calls, and did not run out of fuel.
     - the five scans meet the protocol for every consumer;
     - what "stop at call m" receives: the first m+1 elements, m+1 calls;
     - calls = deliveries for every consumer (no callback after a refusal);
     - a sequence operation returns the state it was given, so ranging over the
       same sequence again (with any stop) equals a first pass;
     - statically, on the regenerated source facts: no function literal returned as
       a sequence assigns to a variable it captures (no state carried between passes).
   Only property theorems here; proofs in Proofs/IterFacts.v, Proofs/RangeFacts.v,
   Proofs/PropFacts2.v, Proofs/StaticFacts.v. *)
From GoArt Require Import Base.Bytes Model.Keys Model.Node Model.Tree Model.Iter Model.Api
  Spec.TreeSpec Spec.IterSpec Spec.Ideal Proofs.IterFacts Proofs.RangeFacts
  Proofs.PropFacts Proofs.PropFacts2.
From GoArt Require Gen.SrcFacts Proofs.StaticFacts.   (* not imported: they open string_scope *)
Open Scope N_scope.

(* ---------------- the scans, for an arbitrary consumer ---------------- *)
Theorem C14_run_all_spec : forall d t ans, WF d t -> walk_is (run_all (Some t) ans) ans (leaves t).
Proof. exact run_all_spec. Qed.
Print Assumptions C14_run_all_spec.

Theorem C14_run_backward_spec : forall d t ans, WF d t ->
  walk_is (run_backward (Some t) ans) ans (rev (leaves t)).
Proof. exact run_backward_spec. Qed.
Print Assumptions C14_run_backward_spec.

Theorem C14_run_filter_spec : forall d t pred ans, WF d t ->
  walk_is (run_filter (Some t) pred ans) ans (filter (fun l => pred (to_leaf l)) (leaves t)).
Proof. exact run_filter_spec. Qed.
Print Assumptions C14_run_filter_spec.

Theorem C14_run_range_any : forall t gs ge ans,
  WF 0 t -> (forall l, In l (leaves t) -> lgk l = ltk l) ->
  walk_is (run_range (Some t) gs ge gs ge ans) ans (filter (in_range gs ge) (leaves t)).
Proof. exact run_range_any. Qed.
Print Assumptions C14_run_range_any.

(* TopK / BottomK: the bounded wrapper around any scan that meets the protocol *)
Theorem C14_run_bounded_spec : forall inner k ans ls,
  (forall a, walk_is (inner a) a ls) -> walk_is (run_bounded inner k ans) ans (takeN k ls).
Proof. exact run_bounded_spec. Qed.
Print Assumptions C14_run_bounded_spec.

(* ---------------- what the protocol delivers ---------------- *)
(* "stop at call m": exactly the first m+1 elements, exactly min(m+1, n) calls,
   refused iff there was an element number m *)
Theorem C14_consume_stop : forall (A : Type) (l : list A) m,
  consume (stop_ans (Some m)) 0 l =
  (firstn (S m) l, Nat.min (S m) (length l), (m <? length l)%nat).
Proof. exact @consume_stop. Qed.
Print Assumptions C14_consume_stop.

Theorem C14_consume_never : forall (A : Type) (l : list A),
  consume (stop_ans None) 0 l = (l, length l, false).
Proof. exact @consume_never. Qed.
Print Assumptions C14_consume_never.

Theorem C14_stop_anywhere : forall k ls m, ideal_seq k ls (stop_ans (Some m)) =
  OSeq (map (fun l => restore_kv k (to_leaf l)) (firstn (S m) ls)) (Nat.min (S m) (length ls)).
Proof. exact stop_anywhere. Qed.
Print Assumptions C14_stop_anywhere.

(* calls never exceed delivered elements: no callback after a refusal, for any consumer *)
Theorem C14_consume_calls : forall (A : Type) ans (l : list A) i,
  let '(d, c, s) := consume ans i l in c = (i + length d)%nat /\ (length d <= length l)%nat.
Proof. exact @consume_calls. Qed.
Print Assumptions C14_consume_calls.

(* the delivered elements are a prefix of the sequence, all of it unless the consumer
   refused; a refusal is the answer to the LAST call, every earlier answer was true *)
Theorem C14_consume_prefix : forall (A : Type) ans (l : list A) i,
  let '(d, c, s) := consume ans i l in
  d = firstn (length d) l /\ (s = false -> d = l) /\
  (s = true -> ans (c - 1)%nat = false) /\
  (forall j, (i <= j)%nat -> (S j < c)%nat -> ans j = true).
Proof. exact @consume_prefix. Qed.
Print Assumptions C14_consume_prefix.

(* ---------------- iterating again ---------------- *)
(* is_seq_op: All, Backward, TopK, BottomK, Range, Prefix *)
Theorem C14_seq_op_state : forall k st q, is_seq_op q = true -> fst (step k st q) = st.
Proof. exact seq_op_state. Qed.
Print Assumptions C14_seq_op_state.

(* a second pass (with any stop) equals a first pass on the same tree *)
Theorem C14_reiterate : forall k st q q', is_seq_op q = true -> is_seq_op q' = true ->
  snd (step k (fst (step k st q)) q') = snd (step k st q').
Proof. exact reiterate. Qed.
Print Assumptions C14_reiterate.

(* any number of sequence operations, each abandoned wherever its consumer likes,
   leave the state as it was: what follows answers as if they had not happened *)
Theorem C14_reiterate_run : forall k st qs ops, forallb is_seq_op qs = true ->
  fst (run k st qs) = st /\
  snd (run k st (qs ++ ops)) = snd (run k st qs) ++ snd (run k st ops).
Proof. exact reiterate_run. Qed.
Print Assumptions C14_reiterate_run.

(* ---------------- the static counterpart (regenerated source facts) ---------------- *)
Theorem C14_no_captured_mutation : Gen.SrcFacts.captured_mutations = [].
Proof. exact StaticFacts.no_captured_mutation. Qed.
Print Assumptions C14_no_captured_mutation.

(* the regenerated tie: the wrapper closure of topK() of tree.go, translated from the Go AST on every run
   (Gen/IterGen.v: the loop body as the consumer of the wrapped iterator, range_over of Model/GoTree.v), around an
   iterator with the four properties seq_ok (which the scans of this library have: walk_seq_ok): the outer consumer is
   called with the elements, and as often, as Model.Iter.run_bounded says; return at remaining == 0 and break after a
   refused element are both "stopped". k is a Go uint *)
From GoArt Require Import Model.Iter Model.PoolTree Model.GoTree Gen.IterGen Proofs.TranslateIterFacts.
Theorem C14_regenerated_topK : forall (all bwd : (nat -> bool) -> ires) (bwd' : (nat -> bool) -> wres) k ans,
  (0 < k)%N -> (k < 2 ^ 64)%N -> seq_ok bwd' -> (forall a, ires_abs (bwd a) = Some (bwd' a)) ->
  exists how c acc, g_topK all bwd k ans = IDone how c acc /\
    rev (map tabs acc) = delivered (run_bounded bwd' k ans) /\ c = calls (run_bounded bwd' k ans) /\
    bounded_status how (status (run_bounded bwd' k ans)).
Proof. exact gen_topK_eq. Qed.
Print Assumptions C14_regenerated_topK.
