(* Helper lemmas for Proofs/NodeFacts.v, part 2: the list idioms of Model/Node.v
   (set_at, insert_at, remove_at, the shifts), combine vs the association-list
   operations, and the nat-indexed reading of find_first. *)
From GoArt Require Import Base.Bytes Model.Node4 Model.Node16 Model.Node Spec.NodeSpec
  Proofs.NodeAuxAssoc.
From Coq Require Import ZifyN ZifyNat ZifyBool.
Ltac Zify.zify_post_hook ::= Z.div_mod_to_equations.
Open Scope N_scope.

Section ListGen.
Context {A : Type}.
Implicit Types (l : list A) (x d : A) (i j k n : nat).

Lemma length_set_at : forall i x l, length (set_at i x l) = length l.
Proof. induction i; destruct l; cbn [set_at length]; auto. Qed.

Lemma nth_error_set_at_eq : forall i x l, (i < length l)%nat -> nth_error (set_at i x l) i = Some x.
Proof. induction i; destruct l; cbn [set_at length nth_error]; intros; try lia; auto. apply IHi. lia. Qed.

Lemma nth_error_set_at_ne : forall i j x l, i <> j -> nth_error (set_at i x l) j = nth_error l j.
Proof.
  induction i; destruct l; destruct j; cbn [set_at nth_error]; intros; try lia; auto.
Qed.

Lemma nth_set_at_eq : forall i x d l, (i < length l)%nat -> nth i (set_at i x l) d = x.
Proof. induction i; destruct l; cbn [set_at length nth]; intros; try lia; auto. apply IHi. lia. Qed.

Lemma nth_set_at_ne : forall i j x d l, i <> j -> nth j (set_at i x l) d = nth j l d.
Proof.
  induction i; destruct l; destruct j; cbn [set_at nth]; intros; try lia; auto.
Qed.

Lemma set_at_app : forall i x l, (i < length l)%nat ->
  set_at i x l = firstn i l ++ x :: skipn (S i) l.
Proof.
  induction i; destruct l; cbn [set_at length firstn skipn app]; intros; try lia; auto.
  f_equal. apply IHi. lia.
Qed.

Lemma in_set_at : forall i x l y, In y (set_at i x l) -> y = x \/ In y l.
Proof.
  induction i; destruct l; cbn [set_at In]; intros y H; try tauto.
  - destruct H; auto.
  - destruct H as [H|H]; auto. apply IHi in H. tauto.
Qed.

Lemma insert_at_app : forall i x l, (i <= length l)%nat ->
  insert_at i x l = firstn i l ++ x :: skipn i l.
Proof.
  induction i; destruct l; cbn [insert_at length firstn skipn app]; intros; try lia; auto.
  f_equal. apply IHi. lia.
Qed.

Lemma insert_at_end : forall x l, insert_at (length l) x l = l ++ [x].
Proof. induction l; cbn [insert_at length app]; auto. f_equal. auto. Qed.

Lemma length_insert_at : forall i x l, (i <= length l)%nat -> length (insert_at i x l) = S (length l).
Proof.
  induction i; destruct l; cbn [insert_at length]; intros; try lia; auto.
  f_equal. apply IHi. lia.
Qed.

Lemma remove_at_app : forall i l, remove_at i l = firstn i l ++ skipn (S i) l.
Proof.
  induction i; destruct l; cbn [remove_at firstn skipn app]; auto. f_equal. apply IHi.
Qed.

Lemma length_remove_at : forall i l, (i < length l)%nat -> S (length (remove_at i l)) = length l.
Proof.
  induction i; destruct l; cbn [remove_at length]; intros; try lia; auto.
  f_equal. apply IHi. lia.
Qed.

Lemma nth_firstn_lt : forall n j l d, (j < n)%nat -> nth j (firstn n l) d = nth j l d.
Proof.
  induction n; intros j l d H; [lia|]. destruct l; cbn [firstn]; [reflexivity|].
  destruct j; cbn [nth]; [reflexivity|]. apply IHn. lia.
Qed.

Lemma nth_error_firstn_lt : forall n j l, (j < n)%nat -> nth_error (firstn n l) j = nth_error l j.
Proof.
  induction n; intros j l H; [lia|]. destruct l; cbn [firstn]; [reflexivity|].
  destruct j; cbn [nth_error]; [reflexivity|]. apply IHn. lia.
Qed.

Lemma nth_skipn_add : forall k j l d, nth j (skipn k l) d = nth (k + j) l d.
Proof.
  induction k; intros j l d; cbn [skipn plus]; [reflexivity|].
  destruct l; [destruct j; reflexivity|]. cbn [nth]. apply IHk.
Qed.

Lemma nth_error_nth_lt : forall j l d, (j < length l)%nat -> nth_error l j = Some (nth j l d).
Proof.
  induction j; destruct l; cbn [length nth_error nth]; intros; try lia; auto. apply IHj. lia.
Qed.

Lemma list_ext_nth : forall l1 l2 d, length l1 = length l2 ->
  (forall j, (j < length l1)%nat -> nth j l1 d = nth j l2 d) -> l1 = l2.
Proof.
  induction l1; destruct l2; cbn [length]; intros d HL H; try lia; auto.
  f_equal.
  - apply (H 0%nat). lia.
  - apply (IHl1 l2 d); [lia|]. intros j Hj. apply (H (S j)). lia.
Qed.

(* the occupied prefix of a fixed-size array after the three shifting idioms *)
Lemma arr_ins_prefix : forall i n x l, (i <= n)%nat -> (n < length l)%nat ->
  firstn (S n) (firstn (length l) (firstn i l ++ x :: skipn i l)) =
  firstn i (firstn n l) ++ x :: skipn i (firstn n l).
Proof.
  intros i n x l Hi Hn.
  rewrite firstn_firstn. replace (Nat.min (S n) (length l)) with (S n) by lia.
  rewrite firstn_app. rewrite firstn_length. replace (Nat.min i (length l)) with i by lia.
  rewrite (firstn_all2 (n:=S n)); [|rewrite firstn_length; lia].
  replace (S n - i)%nat with (S (n - i)) by lia. cbn [firstn].
  rewrite firstn_firstn. replace (Nat.min i n) with i by lia.
  rewrite skipn_firstn_comm. reflexivity.
Qed.

Lemma arr_set_prefix : forall n x l, (n < length l)%nat ->
  firstn (S n) (set_at n x l) = firstn n (firstn n l) ++ x :: skipn n (firstn n l).
Proof.
  intros n x l Hn. rewrite set_at_app by exact Hn.
  rewrite firstn_app. rewrite firstn_length. replace (Nat.min n (length l)) with n by lia.
  rewrite (firstn_all2 (n:=S n)); [|rewrite firstn_length; lia].
  replace (S n - n)%nat with 1%nat by lia. cbn [firstn].
  rewrite firstn_firstn. replace (Nat.min n n) with n by lia.
  rewrite skipn_all2; [reflexivity|]. rewrite firstn_length. lia.
Qed.

Lemma shift_right_set : forall i x l, (i < length l)%nat ->
  set_at i x (shift_right_from i l) = firstn (length l) (firstn i l ++ x :: skipn i l).
Proof.
  intros i x l Hi. unfold shift_right_from.
  apply (list_ext_nth _ _ x).
  - rewrite length_set_at. rewrite !firstn_length, !app_length, !firstn_length, skipn_length.
    cbn [length]. rewrite skipn_length. lia.
  - intros j Hj. rewrite length_set_at in Hj.
    rewrite firstn_length, app_length, firstn_length, skipn_length in Hj.
    destruct (Nat.eq_dec j i) as [->|Hne].
    + rewrite nth_set_at_eq.
      * rewrite nth_firstn_lt by lia. rewrite app_nth2; rewrite firstn_length; [|lia].
        replace (i - Nat.min i (length l))%nat with 0%nat by lia. reflexivity.
      * rewrite firstn_length, app_length, firstn_length, skipn_length. lia.
    + rewrite nth_set_at_ne by lia. rewrite !nth_firstn_lt by lia.
      destruct (Nat.lt_ge_cases j i) as [Hlt|Hge].
      * rewrite !app_nth1 by (rewrite firstn_length; lia).
        rewrite !nth_firstn_lt by lia. reflexivity.
      * rewrite !app_nth2 by (rewrite firstn_length; lia). rewrite !firstn_length.
        replace (j - Nat.min i (length l))%nat with (S (j - S i)) by lia.
        replace (j - Nat.min (S i) (length l))%nat with (j - S i)%nat by lia.
        cbn [nth]. rewrite !nth_skipn_add. reflexivity.
Qed.

Lemma length_shift_left_onto : forall k l, (k < length l)%nat ->
  length (shift_left_onto k l) = length l.
Proof.
  intros k l H. unfold shift_left_onto. rewrite !app_length, firstn_length, !skipn_length. lia.
Qed.

Lemma in_shift_left_onto : forall k l y, In y (shift_left_onto k l) -> In y l.
Proof.
  intros k l y H. unfold shift_left_onto in H. rewrite !in_app_iff in H.
  destruct H as [H|[H|H]].
  - rewrite <- (firstn_skipn k l). apply in_or_app. auto.
  - rewrite <- (firstn_skipn (S k) l). apply in_or_app. auto.
  - rewrite <- (firstn_skipn (length l - 1) l). apply in_or_app. auto.
Qed.

Lemma arr_del_prefix : forall k n l, (k < n)%nat -> (n <= length l)%nat ->
  firstn (n - 1) (shift_left_onto k l) = remove_at k (firstn n l).
Proof.
  intros k n l Hk Hn. unfold shift_left_onto. rewrite remove_at_app.
  rewrite app_assoc. rewrite firstn_app.
  replace (n - 1 - length (firstn k l ++ skipn (S k) l))%nat with 0%nat
    by (rewrite app_length, firstn_length, skipn_length; lia).
  cbn [firstn]. rewrite app_nil_r.
  rewrite firstn_app. rewrite firstn_length. replace (Nat.min k (length l)) with k by lia.
  rewrite (firstn_all2 (n:=(n-1)%nat)); [|rewrite firstn_length; lia].
  rewrite firstn_firstn. replace (Nat.min k n) with k by lia.
  rewrite skipn_firstn_comm. replace (n - S k)%nat with (n - 1 - k)%nat by lia. reflexivity.
Qed.

Lemma nth_shift_left_onto_hi : forall k j l d, (k <= j)%nat -> (S j < length l)%nat ->
  nth j (shift_left_onto k l) d = nth (S j) l d.
Proof.
  intros k j l d Hk Hj. unfold shift_left_onto.
  rewrite app_nth2; rewrite firstn_length; [|lia].
  replace (Nat.min k (length l)) with k by lia.
  rewrite app_nth1 by (rewrite skipn_length; lia).
  rewrite nth_skipn_add. f_equal. lia.
Qed.

Lemma nth_shift_left_onto_last : forall k l d, (k < length l)%nat ->
  nth (length l - 1) (shift_left_onto k l) d = nth (length l - 1) l d.
Proof.
  intros k l d Hk. unfold shift_left_onto.
  rewrite app_nth2; rewrite firstn_length; [|lia].
  replace (Nat.min k (length l)) with k by lia.
  rewrite app_nth2; rewrite skipn_length; [|lia].
  rewrite nth_skipn_add. f_equal. lia.
Qed.

End ListGen.

(* ---- combine against the association-list operations ---- *)
Section Comb.
Context {C : Type}.
Implicit Types (ks : list N) (ch : list C) (b : N) (c : C) (k j : nat).

Lemma map_fst_combine : forall ks ch, length ks = length ch -> map fst (combine ks ch) = ks.
Proof.
  induction ks; destruct ch; cbn [length combine map fst]; intros; try lia; auto.
  f_equal. apply IHks. lia.
Qed.

Lemma map_snd_combine : forall ks ch, length ks = length ch -> map snd (combine ks ch) = ch.
Proof.
  induction ks; destruct ch; cbn [length combine map snd]; intros; try lia; auto.
  f_equal. apply IHks. lia.
Qed.

Lemma combine_fst_snd : forall (l : list (N * C)), combine (map fst l) (map snd l) = l.
Proof. induction l as [|[k x] l IH]; cbn [map fst snd combine]; auto. f_equal. exact IH. Qed.

Lemma comb_none : forall ks ch b, length ks = length ch ->
  (assoc b (combine ks ch) = None <-> ~ In b ks).
Proof. intros. rewrite al_none_notin. rewrite map_fst_combine by assumption. tauto. Qed.

Lemma notin_nth : forall ks b, (forall j, (j < length ks)%nat -> nth j ks 0 <> b) <-> ~ In b ks.
Proof.
  intros ks b. split.
  - intros H Hin. apply (In_nth _ _ 0) in Hin. destruct Hin as (j & Hj & E). exact (H j Hj E).
  - intros H j Hj E. apply H. rewrite <- E. apply nth_In. exact Hj.
Qed.

Lemma comb_some : forall k ks ch b, length ks = length ch -> (k < length ks)%nat ->
  nth k ks 0 = b -> (forall j, (j < k)%nat -> nth j ks 0 <> b) ->
  assoc b (combine ks ch) = nth_error ch k.
Proof.
  induction k; intros ks ch b HL Hk E Hlt; destruct ks as [|x ks]; destruct ch as [|y ch];
    cbn [length] in *; try lia; cbn [combine assoc nth nth_error] in *.
  - subst. rewrite N.eqb_refl. reflexivity.
  - destruct (x =? b) eqn:Ex.
    + exfalso. apply (Hlt 0%nat); [lia|]. cbn. lia.
    + apply IHk; [lia|lia|exact E|]. intros j Hj. apply (Hlt (S j)). lia.
Qed.

Lemma comb_ins : forall k ks ch b c, length ks = length ch -> (k <= length ks)%nat ->
  (forall j, (j < k)%nat -> nth j ks 0 < b) -> ((k < length ks)%nat -> b < nth k ks 0) ->
  ins_sorted b c (combine ks ch) = combine (firstn k ks ++ b :: skipn k ks) (insert_at k c ch).
Proof.
  induction k; intros ks ch b c HL Hk Hlt Hgt; destruct ks as [|x ks]; destruct ch as [|y ch];
    cbn [length] in *; try lia; cbn [combine ins_sorted firstn skipn app insert_at nth] in *.
  - reflexivity.
  - assert (b < x) by (apply Hgt; lia). destruct (b <? x) eqn:E; [reflexivity|lia].
  - assert (x < b) by (apply (Hlt 0%nat); lia). destruct (b <? x) eqn:E; [lia|].
    f_equal. apply IHk; [lia|lia| |].
    + intros j Hj. apply (Hlt (S j)). lia.
    + intros H1. apply Hgt. lia.
Qed.

Lemma comb_rem : forall k ks ch b, length ks = length ch -> (k < length ks)%nat ->
  nth k ks 0 = b -> (forall j, (j < k)%nat -> nth j ks 0 <> b) ->
  rem_key b (combine ks ch) = combine (remove_at k ks) (remove_at k ch).
Proof.
  induction k; intros ks ch b HL Hk E Hlt; destruct ks as [|x ks]; destruct ch as [|y ch];
    cbn [length] in *; try lia; cbn [combine rem_key remove_at nth] in *.
  - subst. rewrite N.eqb_refl. reflexivity.
  - destruct (x =? b) eqn:Ex.
    + exfalso. apply (Hlt 0%nat); [lia|]. cbn. lia.
    + f_equal. apply IHk; [lia|lia|exact E|]. intros j Hj. apply (Hlt (S j)). lia.
Qed.

Lemma comb_repl : forall k ks ch b c, length ks = length ch -> (k < length ks)%nat ->
  nth k ks 0 = b -> (forall j, (j < k)%nat -> nth j ks 0 <> b) ->
  repl_key b c (combine ks ch) = combine ks (set_at k c ch).
Proof.
  induction k; intros ks ch b c HL Hk E Hlt; destruct ks as [|x ks]; destruct ch as [|y ch];
    cbn [length] in *; try lia; cbn [combine repl_key set_at nth] in *.
  - subst. rewrite N.eqb_refl. reflexivity.
  - destruct (x =? b) eqn:Ex.
    + exfalso. apply (Hlt 0%nat); [lia|]. cbn. lia.
    + f_equal. apply IHk; [lia|lia|exact E|]. intros j Hj. apply (Hlt (S j)). lia.
Qed.

End Comb.

(* ---- find_first read through nat positions ---- *)
Lemma ff_gen : forall f l i,
  (find_first f l i = (-1)%Z /\ forall j, (j < length l)%nat -> f (nth j l 0) = false) \/
  (exists k, find_first f l i = (i + Z.of_nat k)%Z /\ (k < length l)%nat /\ f (nth k l 0) = true /\
             forall j, (j < k)%nat -> f (nth j l 0) = false).
Proof.
  intros f. induction l as [|x l IH]; intros i; cbn [find_first length].
  - left. split; [reflexivity|]. intros j Hj. lia.
  - destruct (f x) eqn:E.
    + right. exists 0%nat. split; [lia|]. split; [lia|]. split; [exact E|]. intros j Hj. lia.
    + destruct (IH (i + 1)%Z) as [[E1 H]|(k & E1 & Hk & Hb & Hlt)].
      * left. split; [exact E1|]. intros j Hj. destruct j; [exact E|]. cbn [nth]. apply H. lia.
      * right. exists (S k). split; [lia|]. split; [lia|]. split; [exact Hb|].
        intros j Hj. destruct j; [exact E|]. cbn [nth]. apply Hlt. lia.
Qed.

Lemma ff_cases : forall f l,
  (find_first f l 0 = (-1)%Z /\ forall j, (j < length l)%nat -> f (nth j l 0) = false) \/
  (exists k, find_first f l 0 = Z.of_nat k /\ (k < length l)%nat /\ f (nth k l 0) = true /\
             forall j, (j < k)%nat -> f (nth j l 0) = false).
Proof. intros f l. exact (ff_gen f l 0%Z). Qed.

(* sortedness read through nth *)
Lemma ssorted_nth : forall (l : list N) i j, StronglySorted N.lt l ->
  (i < j)%nat -> (j < length l)%nat -> nth i l 0 < nth j l 0.
Proof.
  induction l as [|x l IH]; intros i j HS Hij Hj; cbn [length] in *; [lia|].
  apply StronglySorted_inv in HS. destruct HS as [HS Hx].
  destruct j; [lia|]. destruct i; cbn [nth].
  - rewrite Forall_forall in Hx. apply Hx. apply nth_In. lia.
  - apply IH; [exact HS|lia|lia].
Qed.
