(* The pruned range scan delivers exactly the stored keys between its bounds,
   and lowestCommonParent selects a subtree that contains every leaf whose
   transformed key starts with the given prefix. *)
From GoArt Require Import Base.Bytes Model.Node4 Model.Node16 Model.Node Model.Tree Model.Iter
  Spec.NodeSpec Spec.TreeSpec Spec.IterSpec Proofs.BytesFacts Proofs.Node4Facts Proofs.NodeAuxList
  Proofs.NodeAux48 Proofs.NodeAux48b Proofs.NodeFacts Proofs.TreeBasics.
From Coq Require Import ZifyN ZifyNat ZifyBool.
Ltac Zify.zify_post_hook ::= Z.div_mod_to_equations.
Open Scope N_scope.
Local Opaque maxNode4 maxNode16 maxNode48 shrink16 shrink48 shrink256 maxPrefixLen.

(* ================================================================== *)
(* small list facts                                                    *)
(* ================================================================== *)
Lemma filter_nil_all : forall {A} (f : A -> bool) l, (forall x, In x l -> f x = false) -> filter f l = [].
Proof.
  intros A f l. induction l as [|x l IH]; intros H; [reflexivity|].
  cbn [filter]. rewrite (H x) by (left; reflexivity). apply IH. intros y Hy. apply H. right. exact Hy.
Qed.

Lemma in_combine_nth : forall {A B} (ks : list A) (ch : list B) i c,
  nth_error ch i = Some c -> (length ch <= length ks)%nat -> exists k, In (k, c) (combine ks ch).
Proof.
  intros A B ks. induction ks as [|a ks IH]; intros ch i c H L.
  - destruct ch; [destruct i; discriminate|cbn [length] in L; lia].
  - destruct ch as [|c0 ch]; [destruct i; discriminate|]. destruct i as [|i]; cbn [nth_error] in H.
    + inversion H; subst. exists a. left. reflexivity.
    + cbn [length] in L. destruct (IH ch i c H) as [k Hk]; [lia|]. exists k. right. exact Hk.
Qed.

Lemma skipn_head_nth : forall {A} d (l : list A) x r, skipn d l = x :: r -> nth_error l d = Some x.
Proof.
  intros A d. induction d as [|d IH]; intros l x r H.
  - cbn [skipn] in H. subst l. reflexivity.
  - destruct l as [|y l]; [discriminate|]. cbn [skipn] in H. cbn [nth_error]. eapply IH. exact H.
Qed.

Lemma is_prefix_nth : forall (a k : list N) i x, is_prefix a k -> nth_error a i = Some x -> nth_error k i = Some x.
Proof.
  intros a k i x [r ->] H. rewrite nth_error_app1; [exact H|]. apply nth_error_Some. congruence.
Qed.

(* ================================================================== *)
(* find returns a registered child, whatever the byte                  *)
(* ================================================================== *)
Lemma nfind_child : forall (n : rnode tree) b c, nwf n -> nfind n b = Some c ->
  exists b', In (b', c) (nenum n).
Proof.
  pose proof (@params_hold) as P; unfold params_ok in P.
  destruct P as (Pm4 & Pm16 & Pm48 & Ps16lo & Ps16m4 & Ps16s48 & Ps48m16 & Pm4m16 & Pm16m48 &
                 Ps48s256 & Ps256m48 & Ps256 & Ppl).
  intros n b c Hwf H. destruct (b <? 256) eqn:Eb.
  - rewrite nfind_spec in H by (assumption || lia). exists b. apply assoc_in. exact H.
  - destruct n as [h len keys ch|h len keys ch|h len idx slots|h len slots]; cbn [nfind] in H.
    + destruct Hwf as (_ & Hk & Hl & Hm & _).
      destruct (_ && _); [|discriminate]. cbn [nenum]. eapply in_combine_nth; [exact H|].
      rewrite firstn_length, lanes_length. lia.
    + destruct Hwf as (_ & Hk & _ & Hl & _ & Hm & _).
      destruct (_ =? -1)%Z; [discriminate|]. cbn [nenum]. eapply in_combine_nth; [exact H|].
      rewrite firstn_length. lia.
    + destruct Hwf as (_ & Hi & _). rewrite nth_overflow in H by lia.
      rewrite N.eqb_refl in H. discriminate.
    + destruct Hwf as (_ & Hs & _).
      assert (E : nth_error slots (N.to_nat b) = None) by (apply nth_error_None; lia).
      rewrite E in H. discriminate.
Qed.

(* ================================================================== *)
(* lowestCommonParent                                                  *)
(* ================================================================== *)
(* descending to the child registered under the next byte of p loses no leaf
   that has p as a prefix *)
Lemma descend_filter : forall d n b c p (pred : lrec -> bool),
  WF d (Inner n) -> nth_error p (d + prefixLen (nhdr n)) = Some b -> nfind n b = Some c ->
  (forall l, pred l = true -> is_prefix p (ltk l)) ->
  filter pred (leaves c) = filter pred (leaves (Inner n)).
Proof.
  intros d n b c p pred Hwf Hb Hf Hpred.
  pose proof (WF_inner_inv _ _ Hwf) as (Hn & _ & _ & _).
  pose proof (nenum_sorted n Hn) as Hks.
  destruct (nfind_child n b c Hn Hf) as [b' Hin].
  destruct (WF_child _ _ _ _ Hwf Hin) as [Hc Hcb].
  assert (Hkey : forall b2 c2 l, In (b2, c2) (nenum n) -> In l (leaves c2) -> pred l = true -> b2 = b').
  { intros b2 c2 l Hin2 Hl Hp.
    destruct (WF_leaf_long _ _ _ _ _ Hwf Hin2 Hl) as [Hb2 _].
    pose proof (is_prefix_nth _ _ _ _ (Hpred l Hp) Hb) as Hb3.
    assert (b2 = b) by congruence. subst b2.
    assert (Hlt : b < 256).
    { destruct Hks as [_ HF]. rewrite Forall_forall in HF. apply HF.
      apply (in_map fst) in Hin2. exact Hin2. }
    pose proof (in_assoc _ _ _ Hks Hin2) as Ha.
    rewrite <- nfind_spec in Ha by assumption.
    assert (c2 = c) by congruence. subst c2.
    rewrite Forall_forall in Hcb. specialize (Hcb l Hl). congruence. }
  apply in_split in Hin. destruct Hin as (A & B & E).
  destruct Hks as [HS _]. rewrite E, map_app in HS. cbn [map fst] in HS.
  apply ssorted_app_inv in HS. destruct HS as (_ & HSB & HAB).
  apply StronglySorted_inv in HSB. destruct HSB as [_ HB]. rewrite Forall_forall in HB.
  rewrite leaves_inner, E, flat_map_app. cbn [flat_map snd]. rewrite !filter_app.
  rewrite (filter_nil_all pred (flat_map _ A)), (filter_nil_all pred (flat_map _ B)).
  - rewrite app_nil_r. reflexivity.
  - intros l Hl. apply in_flat_map in Hl. destruct Hl as ([b2 c2] & Hin2 & Hl). cbn [snd] in Hl.
    destruct (pred l) eqn:Ep; [exfalso|reflexivity].
    assert (b2 = b').
    { apply (Hkey b2 c2 l); [|exact Hl|exact Ep]. rewrite E. apply in_or_app. right. right. exact Hin2. }
    subst b2. apply (in_map fst) in Hin2. apply HB in Hin2. cbn [fst] in Hin2. lia.
  - intros l Hl. apply in_flat_map in Hl. destruct Hl as ([b2 c2] & Hin2 & Hl). cbn [snd] in Hl.
    destruct (pred l) eqn:Ep; [exfalso|reflexivity].
    assert (b2 = b').
    { apply (Hkey b2 c2 l); [|exact Hl|exact Ep]. rewrite E. apply in_or_app. left. exact Hin2. }
    subst b2. apply (in_map fst) in Hin2. specialize (HAB _ b' Hin2 (or_introl eq_refl)).
    cbn [fst] in HAB. lia.
Qed.

Lemma lcparent_gen : forall p fuel c d, WF d c -> (length p - d < fuel)%nat ->
  exists sub d', lcparent fuel c p d = Some sub /\ WF d' sub /\
    forall pred : lrec -> bool, (forall l, pred l = true -> is_prefix p (ltk l)) ->
      filter pred (leaves sub) = filter pred (leaves c).
Proof.
  intros p. induction fuel as [|f IH]; intros c d Hwf Hf; [lia|].
  destruct c as [gk tk v|n]; cbn [lcparent].
  - exists (Leaf gk tk v), d. split; [reflexivity|]. split; [exact Hwf|]. reflexivity.
  - assert (Hstop : exists sub d', Some (Inner n) = Some sub /\ WF d' sub /\
              forall pred : lrec -> bool, (forall l, pred l = true -> is_prefix p (ltk l)) ->
                filter pred (leaves sub) = filter pred (leaves (Inner n))).
    { exists (Inner n), d. split; [reflexivity|]. split; [exact Hwf|]. reflexivity. }
    destruct (negb _ && _); [exact Hstop|].
    destruct (nth_error p (d + prefixLen (nhdr n))) as [b|] eqn:Eb; [|exact Hstop].
    destruct (nfind n b) as [c|] eqn:Ef; [|exact Hstop].
    pose proof (WF_inner_inv _ _ Hwf) as (Hn & _ & _ & _).
    destruct (nfind_child n b c Hn Ef) as [b' Hin].
    destruct (WF_child _ _ _ _ Hwf Hin) as [Hc _].
    assert (Hlen : (d + prefixLen (nhdr n) < length p)%nat) by (apply nth_error_Some; congruence).
    destruct (IH c (S (d + prefixLen (nhdr n)))) as (sub & d' & E & Hs & HP).
    { replace (S (d + prefixLen (nhdr n))) with (d + prefixLen (nhdr n) + 1)%nat by lia. exact Hc. }
    { lia. }
    exists sub, d'. split; [exact E|]. split; [exact Hs|].
    intros pred Hpred. rewrite (HP pred Hpred).
    apply (descend_filter d n b c p pred Hwf Eb Ef Hpred).
Qed.

(* lowestCommonParent: the selected subtree contains every leaf whose transformed key starts with p,
   so filtering it is filtering the whole tree *)
Theorem lcparent_spec : forall t p fuel, WF 0 t -> (length p + 2 <= fuel)%nat ->
  exists sub d', lcparent fuel t p 0 = Some sub /\ WF d' sub /\
    forall pred : lrec -> bool, (forall l, pred l = true -> is_prefix p (ltk l)) ->
      filter pred (leaves sub) = filter pred (leaves t).
Proof.
  intros t p fuel Hwf Hf. apply lcparent_gen; [exact Hwf|lia].
Qed.

(* ================================================================== *)
(* the children of a node are smaller than the node (fuel of walks)    *)
(* ================================================================== *)
Definition gsz (o : option tree) : nat := match o with Some c => tsize c | None => 0%nat end.

Lemma tsize_inner_416 : forall h len keys ch,
  tsize (Inner (N4 h len keys ch)) = S (list_sum (map tsize ch)).
Proof. reflexivity. Qed.
Lemma tsize_inner_16 : forall h len keys ch,
  tsize (Inner (N16 h len keys ch)) = S (list_sum (map tsize ch)).
Proof. reflexivity. Qed.
Lemma tsize_inner_48 : forall h len idx slots,
  tsize (Inner (N48 h len idx slots)) = S (list_sum (map gsz slots)).
Proof. reflexivity. Qed.
Lemma tsize_inner_256 : forall h len slots,
  tsize (Inner (N256 h len slots)) = S (list_sum (map gsz slots)).
Proof. reflexivity. Qed.

Lemma list_sum_cons : forall x l, list_sum (x :: l) = (x + list_sum l)%nat.
Proof. reflexivity. Qed.
Lemma list_sum_nil : list_sum [] = 0%nat.
Proof. reflexivity. Qed.

Lemma sum_snd_combine : forall (ks : list N) (ch : list tree),
  (list_sum (map tsize (map snd (combine ks ch))) <= list_sum (map tsize ch))%nat.
Proof.
  induction ks as [|k ks IH]; intros ch; [cbn [combine map]; rewrite ?list_sum_cons, ?list_sum_nil; lia|].
  destruct ch as [|c ch]; cbn [combine map snd]; rewrite ?list_sum_cons, ?list_sum_nil; [lia|]. specialize (IH ch). lia.
Qed.

Lemma sum_enum_slots : forall (slots : list (option tree)) k,
  list_sum (map tsize (map snd (enum_slots slots k))) = list_sum (map gsz slots).
Proof.
  induction slots as [|s slots IH]; intros k; [reflexivity|].
  cbn [enum_slots]. rewrite !map_app, list_sum_app, IH. cbn [map]; rewrite ?list_sum_cons, ?list_sum_nil.
  destruct s as [c|]; cbn [map snd gsz]; rewrite ?list_sum_cons, ?list_sum_nil; lia.
Qed.

Lemma sum_set_none : forall (slots : list (option tree)) p c, nth_error slots p = Some (Some c) ->
  list_sum (map gsz slots) = (tsize c + list_sum (map gsz (set_at p None slots)))%nat.
Proof.
  induction slots as [|s slots IH]; intros p c H; destruct p as [|p]; cbn [nth_error] in H; try discriminate.
  - inversion H; subst. cbn [set_at map gsz]; rewrite ?list_sum_cons, ?list_sum_nil. lia.
  - cbn [set_at map]; rewrite ?list_sum_cons, ?list_sum_nil. rewrite (IH p c H). lia.
Qed.

Lemma enum_idx_set_none : forall (idx : list N) (slots : list (option tree)) p k,
  (forall i, In i idx -> i = 0 \/ N.to_nat (i - 1) <> p) ->
  enum_idx idx (set_at p None slots) k = enum_idx idx slots k.
Proof.
  induction idx as [|a idx IH]; intros slots p k H; [reflexivity|].
  cbn [enum_idx]. rewrite IH by (intros i Hi; apply H; right; exact Hi). f_equal.
  destruct (a =? 0) eqn:E; [reflexivity|].
  rewrite nth_error_set_at_ne; [reflexivity|].
  destruct (H a (or_introl eq_refl)) as [H0|H0]; lia.
Qed.

Fixpoint nz_distinct (idx : list N) : Prop :=
  match idx with
  | [] => True
  | i :: idx' => (i = 0 \/ ~ In i idx') /\ nz_distinct idx'
  end.

Lemma nz_distinct_of_inj : forall idx : list N,
  (forall j1 j2, (j1 < length idx)%nat -> (j2 < length idx)%nat ->
     nth j1 idx 0 <> 0 -> nth j1 idx 0 = nth j2 idx 0 -> j1 = j2) ->
  nz_distinct idx.
Proof.
  induction idx as [|i idx IH]; intros H; [exact I|]. cbn [nz_distinct]. split.
  - destruct (N.eq_dec i 0) as [E|E]; [left; exact E|right].
    intros Hin. apply (In_nth _ _ 0) in Hin. destruct Hin as (j & Hj & Ej).
    specialize (H 0%nat (S j)). cbn [length nth] in H.
    assert (0%nat = S j) by (apply H; [lia|lia|exact E|symmetry; exact Ej]). discriminate.
  - apply IH. intros j1 j2 H1 H2 Hnz He.
    specialize (H (S j1) (S j2)). cbn [length nth] in H.
    assert (S j1 = S j2) by (apply H; [lia|lia|exact Hnz|exact He]). lia.
Qed.

Lemma sum_enum_idx : forall (idx : list N) (slots : list (option tree)) k, nz_distinct idx ->
  (list_sum (map tsize (map snd (enum_idx idx slots k))) <= list_sum (map gsz slots))%nat.
Proof.
  induction idx as [|a idx IH]; intros slots k Hd; [cbn [enum_idx map]; rewrite ?list_sum_cons, ?list_sum_nil; lia|].
  cbn [nz_distinct] in Hd. destruct Hd as [Ha Hd].
  cbn [enum_idx]. rewrite !map_app, list_sum_app.
  destruct (a =? 0) eqn:E.
  - cbn [map]; rewrite ?list_sum_cons, ?list_sum_nil. specialize (IH slots (k + 1) Hd). lia.
  - destruct (nth_error slots (N.to_nat (a - 1))) as [[c|]|] eqn:En.
    + cbn [map snd]; rewrite ?list_sum_cons, ?list_sum_nil.
      rewrite <- (enum_idx_set_none idx slots (N.to_nat (a - 1)) (k + 1)).
      * rewrite (sum_set_none slots _ c En).
        specialize (IH (set_at (N.to_nat (a - 1)) None slots) (k + 1) Hd). lia.
      * intros i Hi. destruct (N.eq_dec i 0) as [E0|E0]; [left; exact E0|right].
        destruct Ha as [Ha|Ha]; [lia|]. assert (i <> a) by (intros ->; contradiction). lia.
    + cbn [map]; rewrite ?list_sum_cons, ?list_sum_nil. specialize (IH slots (k + 1) Hd). lia.
    + cbn [map]; rewrite ?list_sum_cons, ?list_sum_nil. specialize (IH slots (k + 1) Hd). lia.
Qed.

Lemma sum_children : forall n : rnode tree, nwf n ->
  (list_sum (map tsize (nchildren n)) < tsize (Inner n))%nat.
Proof.
  intros [h len keys ch|h len keys ch|h len idx slots|h len slots] Hwf; unfold nchildren; cbn [nenum].
  - rewrite tsize_inner_416. pose proof (sum_snd_combine (firstn (N.to_nat len) (lanes keys)) ch). lia.
  - rewrite tsize_inner_16. pose proof (sum_snd_combine (firstn (N.to_nat len) keys) ch). lia.
  - rewrite tsize_inner_48. destruct Hwf as (_ & Hi & _ & _ & Hinj & _).
    assert (Hd : nz_distinct idx).
    { apply nz_distinct_of_inj. intros j1 j2 H1 H2. apply Hinj; lia. }
    pose proof (sum_enum_idx idx slots 0 Hd). lia.
  - rewrite tsize_inner_256. rewrite sum_enum_slots. lia.
Qed.

(* ================================================================== *)
(* the range scan                                                      *)
(* ================================================================== *)
Lemma lcpn_firstn : forall m (a b : list N), firstn (lcpn m a b) a = firstn (lcpn m a b) b.
Proof.
  induction m as [|m IH]; intros a b; [reflexivity|].
  destruct a as [|x a]; [reflexivity|]. destruct b as [|y b]; [reflexivity|].
  cbn [lcpn]. destruct (x =? y) eqn:E; [|reflexivity].
  apply N.eqb_eq in E. subst y. cbn [firstn]. f_equal. apply IH.
Qed.

Lemma range_search_prefix : forall gs ge,
  is_prefix (range_search gs ge) gs /\ is_prefix (range_search gs ge) ge.
Proof.
  intros gs ge. unfold range_search, longestCommonPrefix. cbn [skipn]. split.
  - apply firstn_is_prefix.
  - rewrite lcpn_firstn. apply firstn_is_prefix.
Qed.

Lemma lcpn_zero_head : forall m x a y b, lcpn (S m) (x :: a) (y :: b) = 0%nat -> x <> y.
Proof.
  intros m x a y b H. cbn [lcpn] in H. destruct (x =? y) eqn:E; [discriminate|].
  apply N.eqb_neq. exact E.
Qed.

(* a pruned subtree lies entirely on one side of the range *)
Lemma prune_sound : forall gs ge search d n,
  is_prefix search gs -> is_prefix search ge -> WF d (Inner n) -> expand_range search n d = None ->
  (forall l, In l (leaves (Inner n)) -> lex_lt (ltk l) gs) \/
  (forall l, In l (leaves (Inner n)) -> lex_lt ge (ltk l)).
Proof.
  pose proof (@params_hold) as P; unfold params_ok in P.
  destruct P as (_ & _ & _ & _ & _ & _ & _ & _ & _ & _ & _ & _ & Ppl).
  intros gs ge search d n Hsg Hse Hwf. unfold expand_range.
  destruct ((0 <? prefixLen (nhdr n))%nat && (d <? length search)%nat) eqn:E1; [|discriminate].
  destruct (lcpn _ _ _ =? 0)%nat eqn:E2; [|discriminate]. intros _.
  apply andb_true_iff in E1. destruct E1 as [Ea Eb].
  apply Nat.ltb_lt in Ea. apply Nat.ltb_lt in Eb. apply Nat.eqb_eq in E2.
  pose proof (WF_inner_inv _ _ Hwf) as ((Hpl & _) & _ & _ & _).
  destruct (WF_path _ _ Hwf) as (q & Hq & Hall & Hinl).
  destruct (prefix (nhdr n)) as [|x pr] eqn:Ep; [cbn [length] in Hpl; lia|].
  destruct (skipn d search) as [|y sr] eqn:Es.
  { pose proof (skipn_length d search) as HL. rewrite Es in HL. cbn [length] in HL. lia. }
  destruct (Nat.min (pl_cap (nhdr n)) (Nat.min (length search - d) maxPrefixLen)) as [|m] eqn:Em;
    [unfold pl_cap in Em; lia|].
  apply lcpn_zero_head in E2.
  destruct (Nat.min (prefixLen (nhdr n)) maxPrefixLen) as [|m2] eqn:Em2; [lia|].
  cbn [firstn] in Hinl.
  destruct (skipn d q) as [|x' qr] eqn:Eq; [discriminate|]. cbn [firstn] in Hinl.
  assert (x' = x) by congruence. subst x'.
  apply skipn_head_nth in Eq. apply skipn_head_nth in Es.
  assert (Hkey : forall k, is_prefix q k -> ~ is_prefix search k).
  { intros k H1 H2. pose proof (is_prefix_nth _ _ _ _ H1 Eq). pose proof (is_prefix_nth _ _ _ _ H2 Es).
    congruence. }
  assert (Hlq : forall l, In l (leaves (Inner n)) -> is_prefix q (ltk l)).
  { intros l Hl. rewrite <- (Hall l Hl). apply firstn_is_prefix. }
  assert (Hqs : ~ is_prefix q gs) by (intros H; exact (Hkey gs H Hsg)).
  assert (Hqe : ~ is_prefix q ge) by (intros H; exact (Hkey ge H Hse)).
  destruct (lex_lt_total q gs) as [H|[H|H]].
  - left. intros l Hl. apply (is_prefix_lex_lt_mono q); [apply Hlq; exact Hl|exact H|exact Hqs].
  - exfalso. apply Hqs. rewrite H. apply is_prefix_refl.
  - destruct (lex_lt_total ge q) as [H2|[H2|H2]].
    + right. intros l Hl. apply (is_prefix_lex_gt_mono q); [apply Hlq; exact Hl|exact H2].
    + exfalso. apply Hqe. rewrite H2. apply is_prefix_refl.
    + exfalso. apply (Hkey q (is_prefix_refl q)).
      apply (lex_between_prefix search gs ge q Hsg Hse); apply lex_lt_le; assumption.
Qed.

Lemma in_range_below : forall gs ge l, lex_lt (lgk l) gs -> in_range gs ge l = false.
Proof.
  intros gs ge l H. unfold in_range. apply lex_leb_false in H. rewrite H. reflexivity.
Qed.

Lemma in_range_above : forall gs ge l, lex_lt ge (lgk l) -> in_range gs ge l = false.
Proof.
  intros gs ge l H. unfold in_range. apply lex_leb_false in H. rewrite H. apply andb_false_r.
Qed.

Lemma range_act_cases : forall gs ge gk tk v,
  match range_leaf_act gs ge (Leaf gk tk v) with
  | Skip => lex_lt gk gs
  | Break => lex_lt ge gk
  | Deliver => in_range gs ge (gk, tk, v) = true
  end.
Proof.
  intros gs ge gk tk v. unfold range_leaf_act, in_range, lex_leb, lex_lt. cbn [leaf_gk lgk fst].
  rewrite (lex_cmp_antisym gk gs).
  destruct (lex_cmp gk gs) eqn:E1; [|reflexivity|];
    (destruct (lex_cmp gk ge) eqn:E2; [reflexivity|reflexivity|apply lex_cmp_Gt_Lt; exact E2]).
Qed.

Definition stk_leaves (st : list (tree * nat)) : list lrec := flat_map (fun e => leaves (fst e)) st.
Definition stk_size (st : list (tree * nat)) : nat := list_sum (map (fun e => tsize (fst e)) st).

Lemma stk_leaves_with_depth : forall k (cs : list tree),
  stk_leaves (with_depth k cs) = flat_map leaves cs.
Proof.
  intros k cs. unfold stk_leaves, with_depth. rewrite flat_map_map. reflexivity.
Qed.

Lemma stk_size_with_depth : forall k (cs : list tree),
  stk_size (with_depth k cs) = list_sum (map tsize cs).
Proof.
  intros k cs. unfold stk_size, with_depth. rewrite map_map. reflexivity.
Qed.

Lemma leaves_inner_children : forall n, leaves (Inner n) = flat_map leaves (nchildren n).
Proof.
  intros n. rewrite leaves_inner. unfold nchildren. rewrite flat_map_map. reflexivity.
Qed.

Lemma range_walk : forall gs ge search ans, is_prefix search gs -> is_prefix search ge ->
  forall fuel st i acc,
  Forall (fun e => WF (snd e) (fst e)) st ->
  StronglySorted lex_lt (map ltk (stk_leaves st)) ->
  (forall l, In l (stk_leaves st) -> lgk l = ltk l) ->
  (stk_size st < fuel)%nat ->
  delivered (walk (range_leaf_act gs ge) (expand_range search) fuel st ans i acc) =
    rev acc ++ map to_leaf (fst (fst (consume ans i (filter (in_range gs ge) (stk_leaves st))))) /\
  calls (walk (range_leaf_act gs ge) (expand_range search) fuel st ans i acc) =
    snd (fst (consume ans i (filter (in_range gs ge) (stk_leaves st)))) /\
  status (walk (range_leaf_act gs ge) (expand_range search) fuel st ans i acc) <> WFuel.
Proof.
  intros gs ge search ans Hsg Hse.
  induction fuel as [|f IH]; intros st i acc HWF HS Hgk Hf; [lia|].
  destruct st as [|[t d] st].
  - cbn [walk stk_leaves flat_map filter consume fst snd map delivered calls status].
    rewrite app_nil_r. split; [reflexivity|]. split; [reflexivity|discriminate].
  - apply Forall_cons_iff in HWF. destruct HWF as [Ht HWF]. cbn [fst snd] in Ht.
    assert (El : stk_leaves ((t, d) :: st) = leaves t ++ stk_leaves st) by reflexivity.
    assert (Ez : stk_size ((t, d) :: st) = (tsize t + stk_size st)%nat) by reflexivity.
    rewrite El in HS, Hgk |- *. rewrite Ez in Hf. rewrite map_app in HS.
    pose proof (ssorted_app_inv _ _ _ HS) as (HS1 & HS2 & HS12).
    assert (Hgk2 : forall l, In l (stk_leaves st) -> lgk l = ltk l).
    { intros l Hl. apply Hgk. apply in_or_app. right. exact Hl. }
    destruct t as [gk tk v|n].
    + (* a leaf *)
      rewrite leaves_leaf in *. cbn [app] in *. cbn [tsize] in Hf.
      assert (Egt : gk = tk) by (apply (Hgk (gk, tk, v)); left; reflexivity).
      destruct (IH st i acc HWF HS2 Hgk2) as (I1 & I2 & I3); [lia|].
      cbn [walk]. pose proof (range_act_cases gs ge gk tk v) as Hact.
      destruct (range_leaf_act gs ge (Leaf gk tk v)).
      * (* deliver *)
        cbn [filter]. rewrite Hact. cbn [consume].
        destruct (ans i) eqn:Ea.
        -- destruct (IH st (S i) (Leaf gk tk v :: acc) HWF HS2 Hgk2) as (J1 & J2 & J3); [lia|].
           destruct (consume ans (S i) (filter (in_range gs ge) (stk_leaves st))) as [[dl c] s] eqn:Ec.
           cbn [fst snd] in *. split; [|split; [exact J2|exact J3]].
           rewrite J1. cbn [rev map to_leaf lgk ltk lv fst snd]. rewrite <- app_assoc. reflexivity.
        -- cbn [delivered calls status fst snd map to_leaf lgk ltk lv rev].
           split; [reflexivity|]. split; [reflexivity|discriminate].
      * (* skip *)
        cbn [filter]. rewrite (in_range_below gs ge (gk, tk, v) Hact).
        split; [exact I1|]. split; [exact I2|exact I3].
      * (* break: everything that follows is above the end as well *)
        assert (En : filter (in_range gs ge) (stk_leaves st) = []).
        { apply filter_nil_all. intros l Hl.
          apply in_range_above. rewrite (Hgk2 l Hl).
          apply (lex_lt_trans _ tk).
          - rewrite <- Egt. exact Hact.
          - apply (HS12 tk (ltk l)); [left; reflexivity|apply in_map; exact Hl]. }
        cbn [filter]. rewrite (in_range_above gs ge (gk, tk, v) Hact), En.
        cbn [consume delivered calls status fst snd map]. rewrite app_nil_r.
        split; [reflexivity|]. split; [reflexivity|discriminate].
    + (* an inner node *)
      pose proof (WF_inner_inv _ _ Ht) as (Hn & _ & _ & _).
      pose proof (sum_children n Hn) as Hsz.
      cbn [walk]. destruct (expand_range search n d) as [es|] eqn:Ex.
      * (* expanded *)
        assert (Ees : es = with_depth (d + prefixLen (nhdr n) + 1) (nchildren n)).
        { unfold expand_range in Ex. cbv zeta in Ex.
          match type of Ex with (if ?c then _ else _) = _ => destruct c end; [discriminate|]. congruence. }
        subst es.
        assert (El2 : stk_leaves (with_depth (d + prefixLen (nhdr n) + 1) (nchildren n) ++ st) =
                      leaves (Inner n) ++ stk_leaves st).
        { unfold stk_leaves at 1. rewrite flat_map_app. fold (stk_leaves st).
          fold (stk_leaves (with_depth (d + prefixLen (nhdr n) + 1) (nchildren n))).
          rewrite stk_leaves_with_depth, leaves_inner_children. reflexivity. }
        rewrite <- El2. apply IH.
        -- apply Forall_app. split; [|exact HWF]. apply Forall_forall. intros [c k] Hin.
           unfold with_depth in Hin. apply in_map_iff in Hin. destruct Hin as (c' & E & Hc).
           inversion E; subst. cbn [fst snd]. apply in_nchildren in Hc. destruct Hc as [b Hc].
           apply (WF_child _ _ _ _ Ht Hc).
        -- rewrite El2, map_app. exact HS.
        -- rewrite El2. exact Hgk.
        -- unfold stk_size. rewrite map_app, list_sum_app.
           fold (stk_size st). fold (stk_size (with_depth (d + prefixLen (nhdr n) + 1) (nchildren n))).
           rewrite stk_size_with_depth. lia.
      * (* pruned *)
        assert (En : filter (in_range gs ge) (leaves (Inner n) ++ stk_leaves st) =
                     filter (in_range gs ge) (stk_leaves st)).
        { rewrite filter_app.
          destruct (prune_sound gs ge search d n Hsg Hse Ht Ex) as [Hlo|Hhi].
          - rewrite (filter_nil_all _ (leaves (Inner n))); [reflexivity|].
            intros l Hl. apply in_range_below. rewrite Hgk by (apply in_or_app; left; exact Hl).
            apply Hlo. exact Hl.
          - rewrite (filter_nil_all _ (leaves (Inner n))), (filter_nil_all _ (stk_leaves st)); [reflexivity| |].
            + intros l Hl. apply in_range_above. rewrite (Hgk2 l Hl).
              destruct (leaves (Inner n)) as [|l0 ls] eqn:E0; [exfalso; exact (WF_nonempty _ _ Ht E0)|].
              apply (lex_lt_trans _ (ltk l0)).
              * apply Hhi. left. reflexivity.
              * apply HS12; [apply in_map; left; reflexivity|apply in_map; exact Hl].
            + intros l Hl. apply in_range_above. rewrite Hgk by (apply in_or_app; left; exact Hl).
              apply Hhi. exact Hl. }
        rewrite En. apply IH; [exact HWF|exact HS2|exact Hgk2|lia].
Qed.

(* Range on trees whose two key forms coincide (all generated kinds): exactly the stored keys in [gs, ge] *)
(* whichever way round the two byte bounds are: with gs above ge the filter is empty and so is the scan *)
Theorem run_range_any : forall t gs ge ans,
  WF 0 t -> (forall l, In l (leaves t) -> lgk l = ltk l) ->
  walk_is (run_range (Some t) gs ge gs ge ans) ans (filter (in_range gs ge) (leaves t)).
Proof.
  intros t gs ge ans Hwf Hgk.
  destruct (range_search_prefix gs ge) as [Hsg Hse].
  assert (El : stk_leaves [(t, 0%nat)] = leaves t) by (unfold stk_leaves; cbn [flat_map fst]; apply app_nil_r).
  unfold run_range, walk_is.
  destruct (range_walk gs ge (range_search gs ge) ans Hsg Hse (walk_fuel t) [(t, 0%nat)] 0%nat [])
    as (H1 & H2 & H3).
  - constructor; [exact Hwf|constructor].
  - rewrite El. apply (content_sorted 0). exact Hwf.
  - rewrite El. exact Hgk.
  - unfold stk_size, walk_fuel. cbn [map fst]. rewrite list_sum_cons, list_sum_nil. lia.
  - rewrite El in H1, H2. split; [exact H1|]. split; [exact H2|exact H3].
Qed.

Theorem run_range_spec : forall t gs ge ans,
  WF 0 t -> (forall l, In l (leaves t) -> lgk l = ltk l) -> lex_le gs ge ->
  walk_is (run_range (Some t) gs ge gs ge ans) ans (filter (in_range gs ge) (leaves t)).
Proof. intros t gs ge ans Hwf Hgk _. apply run_range_any; assumption. Qed.
