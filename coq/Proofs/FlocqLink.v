(* C07: the float order of the model (Model/Keys.v, [fl_lt], defined on bit
   patterns) is IEEE-754 comparison as defined, independently, by Flocq
   ([Bcompare] on [binary_float_of_bits]), refined by -0 < +0; and the model's
   NaN patterns are exactly the patterns Flocq decodes to a NaN.

   This is the only file of the development that imports Flocq; nothing
   depends on it.  The proofs go through the DEFINITION of [Bcompare]
   ([SFcompare] on the decoded (sign, mantissa, exponent) triples), not through
   [Bcompare_correct], so no real-number assumption is used: see the
   [Print Assumptions] at the end. *)
From Coq Require Import ZArith NArith Lia Bool SpecFloat.
From Flocq Require Import Core.Zaux IEEE754.BinarySingleNaN IEEE754.Binary IEEE754.Bits.
From GoArt Require Import Model.Keys.
From Coq Require Import ZifyN ZifyBool.

Local Open Scope Z_scope.

(* ------------------------------------------------------------------ *)
(* 1. Decoding of the three fields, with the powers of two abstracted   *)
(* ------------------------------------------------------------------ *)

(* What [binary_float_of_bits_aux] computes from (sign, mantissa field,
   exponent field); P = 2^mw, E = 2^ew, emn = emin. *)
Definition dec (P E emn : Z) (s : bool) (m e : Z) : spec_float :=
  if e =? 0 then
    (if m =? 0 then S754_zero s else S754_finite s (Z.to_pos m) emn)
  else if e =? E - 1 then
    (if m =? 0 then S754_infinity s else S754_nan)
  else S754_finite s (Z.to_pos (m + P)) (e + emn - 1).

Definition dnan (E m e : Z) : bool := (e =? E - 1) && negb (m =? 0).

Lemma Zeq_bool_eqb : forall x y, Zeq_bool x y = (x =? y).
Proof.
  intros x y. destruct (Z.eqb_spec x y) as [H|H].
  - now apply Zeq_bool_true.
  - now apply Zeq_bool_false.
Qed.

Lemma dec_nan : forall P E emn s m e, 0 < E - 1 ->
  is_nan_SF (dec P E emn s m e) = dnan E m e.
Proof.
  intros P E emn s m e HE. unfold dec, dnan.
  destruct (Z.eqb_spec e 0) as [e0|e0].
  - destruct (Z.eqb_spec e (E - 1)) as [e1|e1]; [lia|].
    cbn [andb]. now destruct (m =? 0).
  - destruct (Z.eqb_spec e (E - 1)) as [e1|e1]; cbn [andb negb].
    + now destruct (m =? 0).
    + reflexivity.
Qed.

(* The heart: SFcompare on decoded triples is the lexicographic order on
   (exponent field, mantissa field), after sign handling. *)
Lemma dec_compare : forall P E emn s1 m1 e1 s2 m2 e2,
  0 <= m1 < P -> 0 <= m2 < P -> 0 <= e1 < E -> 0 <= e2 < E ->
  dnan E m1 e1 = false -> dnan E m2 e2 = false ->
  (SFcompare (dec P E emn s1 m1 e1) (dec P E emn s2 m2 e2) = Some Lt <->
   match s1, s2 with
   | true, false => ~ (e1 = 0 /\ m1 = 0 /\ e2 = 0 /\ m2 = 0)
   | false, true => False
   | false, false => e1 < e2 \/ (e1 = e2 /\ m1 < m2)
   | true, true => e2 < e1 \/ (e1 = e2 /\ m2 < m1)
   end).
Proof.
  intros P E emn s1 m1 e1 s2 m2 e2 Hm1 Hm2 He1 He2 N1 N2.
  unfold dec, dnan in *.
  destruct (Z.eqb_spec e1 0) as [A1|A1];
  destruct (Z.eqb_spec e1 (E - 1)) as [B1|B1];
  destruct (Z.eqb_spec m1 0) as [C1|C1];
  cbn [andb negb] in N1; try discriminate N1; clear N1;
  destruct (Z.eqb_spec e2 0) as [A2|A2];
  destruct (Z.eqb_spec e2 (E - 1)) as [B2|B2];
  destruct (Z.eqb_spec m2 0) as [C2|C2];
  cbn [andb negb] in N2; try discriminate N2; clear N2;
  destruct s1, s2; cbn [SFcompare];
  repeat match goal with
  | |- context [Pos.compare_cont Eq (Z.to_pos ?a) (Z.to_pos ?b)] =>
      change (Pos.compare_cont Eq (Z.to_pos a) (Z.to_pos b))
        with (Pos.compare (Z.to_pos a) (Z.to_pos b));
      rewrite <- (Z2Pos.inj_compare a b) by lia
  end;
  repeat match goal with
  | |- context [Z.compare ?a ?b] => destruct (Z.compare_spec a b)
  end; cbn [CompOpp];
  (split; [intros HH; try discriminate HH; try lia
          |intros HH; try reflexivity; try (exfalso; lia)]).
Qed.

(* lexicographic order = order of e * P + m *)
Lemma lex_lt : forall P e1 m1 e2 m2,
  0 <= m1 < P -> 0 <= m2 < P ->
  (e1 * P + m1 < e2 * P + m2 <-> e1 < e2 \/ (e1 = e2 /\ m1 < m2)).
Proof.
  intros P e1 m1 e2 m2 H1 H2. split.
  - intros H. destruct (Z_lt_le_dec e1 e2) as [L|L]; [now left|right].
    destruct (Z.eq_dec e1 e2) as [->|NE]; [lia|].
    exfalso. assert ((e2 + 1) * P <= e1 * P) by (apply Z.mul_le_mono_nonneg_r; lia). lia.
  - intros [L|[-> L]]; [|lia].
    assert ((e1 + 1) * P <= e2 * P) by (apply Z.mul_le_mono_nonneg_r; lia). lia.
Qed.

(* field decomposition of a pattern 0 <= x < 2*P*E *)
Lemma fields : forall P E x, 0 < P -> 0 < E -> 0 <= x < 2 * (P * E) ->
  let m := x mod P in let e := (x / P) mod E in
  0 <= m < P /\ 0 <= e < E /\
  x = (if P * E <=? x then P * E else 0) + (e * P + m).
Proof.
  intros P E x HP HE Hx m e.
  assert (Hm : 0 <= m < P) by (apply Z.mod_pos_bound; lia).
  assert (He : 0 <= e < E) by (apply Z.mod_pos_bound; lia).
  split; [exact Hm|]. split; [exact He|].
  pose proof (Z.div_mod x P ltac:(lia)) as D1. fold m in D1.
  set (q := x / P) in *.
  pose proof (Z.div_mod q E ltac:(lia)) as D2. fold e in D2.
  set (r := q / E) in *.
  assert (Hq : 0 <= q) by (apply Z.div_pos; lia).
  assert (Hr : 0 <= r) by (apply Z.div_pos; lia).
  assert (Hr2 : r < 2).
  { destruct (Z_lt_le_dec r 2) as [L|L]; [exact L|exfalso].
    assert (E * 2 <= E * r) by (apply Z.mul_le_mono_nonneg_l; lia).
    assert (P * (E * 2) <= P * q) by (apply Z.mul_le_mono_nonneg_l; lia).
    lia. }
  assert (EP : P * q = P * E * r + e * P) by (rewrite D2; ring).
  destruct (Z.leb_spec (P * E) x) as [L|L].
  - assert (r = 1).
    { destruct (Z.eq_dec r 0) as [r0|r0]; [|lia].
      exfalso. rewrite r0 in EP.
      assert ((e + 1) * P <= E * P) by (apply Z.mul_le_mono_nonneg_r; lia). lia. }
    subst r. lia.
  - assert (r = 0).
    { destruct (Z.eq_dec r 0) as [r0|r0]; [exact r0|].
      assert (r = 1) by lia. exfalso.
      assert (0 <= e * P) by (apply Z.mul_nonneg_nonneg; lia). lia. }
    lia.
Qed.

(* ------------------------------------------------------------------ *)
(* 2. Generic in (mw, ew): Flocq's decoding and comparison              *)
(* ------------------------------------------------------------------ *)
Section Generic.
Variables mw ew : Z.
Hypothesis Hmw : 0 < mw.
Hypothesis Hew : 0 < ew.
Hypothesis Hmax : mw + 1 < 2 ^ (ew - 1).

Definition zsign (x : Z) : bool := 2 ^ mw * 2 ^ ew <=? x.
Definition znan (x : Z) : bool := dnan (2 ^ ew) (x mod 2 ^ mw) ((x / 2 ^ mw) mod 2 ^ ew).
Definition zlt (x y : Z) : Prop :=
  match zsign x, zsign y with
  | true, false => True
  | false, true => False
  | false, false => x < y
  | true, true => y < x
  end.

Let HP : 0 < 2 ^ mw.
Proof. apply Z.pow_pos_nonneg; lia. Qed.
Let HE : 0 < 2 ^ ew.
Proof. apply Z.pow_pos_nonneg; lia. Qed.
Let HE1 : 0 < 2 ^ ew - 1.
Proof.
  assert (2 ^ 1 <= 2 ^ ew) by (apply Z.pow_le_mono_r; lia).
  change (2 ^ 1) with 2 in H. lia.
Qed.

Lemma aux_dec : forall x, 0 <= x ->
  FF2SF (binary_float_of_bits_aux mw ew x) =
  dec (2 ^ mw) (2 ^ ew) (SpecFloat.emin (mw + 1) (2 ^ (ew - 1)))
      (zsign x) (x mod 2 ^ mw) ((x / 2 ^ mw) mod 2 ^ ew).
Proof.
  intros x Hx.
  unfold binary_float_of_bits_aux, split_bits, dec, zsign.
  rewrite !Zeq_bool_eqb.
  assert (Hm : 0 <= x mod 2 ^ mw < 2 ^ mw) by (apply Z.mod_pos_bound; exact HP).
  set (m := x mod 2 ^ mw) in *.
  set (e := (x / 2 ^ mw) mod 2 ^ ew).
  set (s := Zle_bool (2 ^ mw * 2 ^ ew) x).
  destruct (e =? 0).
  - destruct m as [|p|p]; [reflexivity|reflexivity|lia].
  - destruct (e =? 2 ^ ew - 1).
    + destruct m as [|p|p]; [reflexivity|reflexivity|lia].
    + destruct (m + 2 ^ mw) as [|p|p] eqn:Em; [lia|reflexivity|lia].
Qed.

Notation of_bits := (binary_float_of_bits mw ew Hmw Hew Hmax).

Lemma bits_compare : forall x y,
  Bcompare (mw + 1) (2 ^ (ew - 1)) (of_bits x) (of_bits y) =
  SFcompare (FF2SF (binary_float_of_bits_aux mw ew x))
            (FF2SF (binary_float_of_bits_aux mw ew y)).
Proof.
  intros x y. unfold Bcompare, BinarySingleNaN.Bcompare, binary_float_of_bits.
  rewrite !B2SF_B2BSN, !B2SF_FF2B. reflexivity.
Qed.

Lemma bits_is_nan : forall x, 0 <= x ->
  Binary.is_nan (mw + 1) (2 ^ (ew - 1)) (of_bits x) = znan x.
Proof.
  intros x Hx. unfold binary_float_of_bits.
  rewrite is_nan_FF2B, <- is_nan_FF2SF, aux_dec by exact Hx.
  apply dec_nan. exact HE1.
Qed.

(* assumption-free core: the unvalidated decoding [binary_float_of_bits_aux] and
   the structural comparison [SFcompare] of the standard library *)
Theorem zlt_is_SFcompare_lt : forall x y,
  0 <= x < 2 * (2 ^ mw * 2 ^ ew) -> 0 <= y < 2 * (2 ^ mw * 2 ^ ew) ->
  znan x = false -> znan y = false ->
  (zlt x y <->
   SFcompare (FF2SF (binary_float_of_bits_aux mw ew x))
             (FF2SF (binary_float_of_bits_aux mw ew y)) = Some Lt \/
   (x = 2 ^ mw * 2 ^ ew /\ y = 0)).
Proof.
  intros x y Hx Hy Nx Ny.
  rewrite !aux_dec by lia.
  unfold znan in Nx, Ny.
  destruct (fields (2 ^ mw) (2 ^ ew) x HP HE Hx) as (Hm1 & He1 & Dx).
  destruct (fields (2 ^ mw) (2 ^ ew) y HP HE Hy) as (Hm2 & He2 & Dy).
  rewrite (dec_compare _ _ _ _ _ _ _ _ _ Hm1 Hm2 He1 He2 Nx Ny).
  unfold zlt, zsign in *.
  set (P := 2 ^ mw) in *. set (E := 2 ^ ew) in *.
  set (m1 := x mod P) in *. set (e1 := (x / P) mod E) in *.
  set (m2 := y mod P) in *. set (e2 := (y / P) mod E) in *.
  pose proof (lex_lt P e1 m1 e2 m2 Hm1 Hm2) as L12.
  pose proof (lex_lt P e2 m2 e1 m1 Hm2 Hm1) as L21.
  assert (HPE : 0 < P * E) by (apply Z.mul_pos_pos; assumption).
  assert (V1 : 0 <= e1 * P) by (apply Z.mul_nonneg_nonneg; lia).
  assert (V2 : 0 <= e2 * P) by (apply Z.mul_nonneg_nonneg; lia).
  assert (Z1 : e1 * P + m1 = 0 <-> e1 = 0 /\ m1 = 0).
  { split; [intros H0|intros [-> ->]; lia].
    destruct (Z.eq_dec e1 0) as [->|NE]; [lia|].
    assert (1 * P <= e1 * P) by (apply Z.mul_le_mono_nonneg_r; lia). lia. }
  assert (Z2 : e2 * P + m2 = 0 <-> e2 = 0 /\ m2 = 0).
  { split; [intros H0|intros [-> ->]; lia].
    destruct (Z.eq_dec e2 0) as [->|NE]; [lia|].
    assert (1 * P <= e2 * P) by (apply Z.mul_le_mono_nonneg_r; lia). lia. }
  set (v1 := e1 * P) in *. set (v2 := e2 * P) in *. set (PE := P * E) in *.
  clearbody v1 v2 PE.
  destruct (Z.leb_spec PE x) as [Sx|Sx]; destruct (Z.leb_spec PE y) as [Sy|Sy].
  - lia.
  - destruct (Z.eq_dec (v1 + m1) 0) as [Q1|Q1];
    destruct (Z.eq_dec (v2 + m2) 0) as [Q2|Q2]; lia.
  - lia.
  - lia.
Qed.

Theorem zlt_is_Bcompare_lt : forall x y,
  0 <= x < 2 * (2 ^ mw * 2 ^ ew) -> 0 <= y < 2 * (2 ^ mw * 2 ^ ew) ->
  znan x = false -> znan y = false ->
  (zlt x y <->
   Bcompare (mw + 1) (2 ^ (ew - 1)) (of_bits x) (of_bits y) = Some Lt \/
   (x = 2 ^ mw * 2 ^ ew /\ y = 0)).
Proof.
  intros x y Hx Hy Nx Ny. rewrite bits_compare.
  apply zlt_is_SFcompare_lt; assumption.
Qed.

Lemma aux_is_nan : forall x, 0 <= x ->
  is_nan_FF (binary_float_of_bits_aux mw ew x) = znan x.
Proof.
  intros x Hx. rewrite <- is_nan_FF2SF, aux_dec by exact Hx.
  apply dec_nan. exact HE1.
Qed.

End Generic.

(* ------------------------------------------------------------------ *)
(* 3. The model's fields (on N) are the same fields (on Z)              *)
(* ------------------------------------------------------------------ *)

Lemma N_eqb_Z : forall n m : N, (n =? m)%N = (Z.of_N n =? Z.of_N m).
Proof.
  intros n m. destruct (N.eqb_spec n m) as [H|H]; destruct (Z.eqb_spec (Z.of_N n) (Z.of_N m)) as [G|G];
    try reflexivity; exfalso; lia.
Qed.

Lemma is_nan_znan_32 : forall a : N, Keys.is_nan 4 a = znan 23 8 (Z.of_N a).
Proof.
  intros a. unfold Keys.is_nan, Keys.fexp, Keys.fmant, znan, dnan. cbn [mbits ebits].
  rewrite !N_eqb_Z.
  rewrite N2Z.inj_sub, !N2Z.inj_mod, N2Z.inj_div, !N2Z.inj_pow by (now compute).
  reflexivity.
Qed.

Ltac Zify.zify_post_hook ::= Z.div_mod_to_equations.

Lemma fsign_zsign_32 : forall a : N, (a < 2 ^ 32)%N ->
  (fsign 4 a =? 1)%N = zsign 23 8 (Z.of_N a).
Proof.
  intros a Ha. unfold fsign, zsign.
  change (signbit 4) with 2147483648%N.
  change (2 ^ 23 * 2 ^ 8) with 2147483648.
  change (2 ^ 32)%N with 4294967296%N in Ha.
  destruct (N.eqb_spec (a / 2147483648) 1) as [H|H];
    destruct (Z.leb_spec 2147483648 (Z.of_N a)) as [G|G];
    try reflexivity; exfalso; lia.
Qed.

(* for bit patterns that are not NaN: fl_lt is IEEE "less than", refined by -0 < +0 *)
(* assumption-free core *)
Theorem fl_lt_is_sf_lt_32 : forall a b : N,
  (a < 2 ^ 32)%N -> (b < 2 ^ 32)%N ->
  Keys.is_nan 4 a = false -> Keys.is_nan 4 b = false ->
  (fl_lt 4 a b <->
   SFcompare (FF2SF (binary_float_of_bits_aux 23 8 (Z.of_N a)))
             (FF2SF (binary_float_of_bits_aux 23 8 (Z.of_N b))) = Some Lt \/
   (a = 0x80000000 /\ b = 0)%N).
Proof.
  intros a b Ha Hb Na Nb.
  unfold fl_lt. rewrite Na, Nb, !fsign_zsign_32 by assumption.
  rewrite is_nan_znan_32 in Na, Nb.
  change (2 ^ 32)%N with 4294967296%N in Ha, Hb.
  assert (Ra : 0 <= Z.of_N a < 2 * (2 ^ 23 * 2 ^ 8))
    by (change (2 * (2 ^ 23 * 2 ^ 8)) with 4294967296; lia).
  assert (Rb : 0 <= Z.of_N b < 2 * (2 ^ 23 * 2 ^ 8))
    by (change (2 * (2 ^ 23 * 2 ^ 8)) with 4294967296; lia).
  pose proof (zlt_is_SFcompare_lt 23 8 eq_refl eq_refl
                (Z.of_N a) (Z.of_N b) Ra Rb Na Nb) as G.
  assert (L : zlt 23 8 (Z.of_N a) (Z.of_N b) <->
              match zsign 23 8 (Z.of_N a), zsign 23 8 (Z.of_N b) with
              | true, false => True
              | false, true => False
              | false, false => (a < b)%N
              | true, true => (b < a)%N
              end).
  { unfold zlt. destruct (zsign 23 8 (Z.of_N a)), (zsign 23 8 (Z.of_N b)); lia. }
  assert (R : (Z.of_N a = 2 ^ 23 * 2 ^ 8 /\ Z.of_N b = 0) <->
              (a = 0x80000000 /\ b = 0)%N).
  { change (2 ^ 23 * 2 ^ 8) with 2147483648. lia. }
  rewrite <- L, <- R. exact G.
Qed.

Theorem fl_lt_is_ieee_lt_32 : forall a b : N,
  (a < 2 ^ 32)%N -> (b < 2 ^ 32)%N ->
  Keys.is_nan 4 a = false -> Keys.is_nan 4 b = false ->
  (fl_lt 4 a b <->
   b32_compare (b32_of_bits (Z.of_N a)) (b32_of_bits (Z.of_N b)) = Some Lt \/
   (a = 0x80000000 /\ b = 0)%N).
Proof.
  intros a b Ha Hb Na Nb. unfold b32_compare, b32_of_bits.
  rewrite (bits_compare 23 8 eq_refl eq_refl eq_refl).
  apply fl_lt_is_sf_lt_32; assumption.
Qed.

(* NaN patterns are exactly the ones Flocq decodes to a NaN (boolean form;
   the range hypothesis is not even needed) *)
Theorem is_nan_is_ieee_nanb_32 : forall a : N,
  Keys.is_nan 4 a = Binary.is_nan 24 128 (b32_of_bits (Z.of_N a)).
Proof.
  intros a. rewrite is_nan_znan_32. symmetry.
  apply (bits_is_nan 23 8 eq_refl eq_refl eq_refl). lia.
Qed.

Lemma is_nan_exists : forall prec emax (f : binary_float prec emax),
  Binary.is_nan prec emax f = true <-> exists s pl H, f = B754_nan prec emax s pl H.
Proof.
  intros prec emax f. split.
  - destruct f as [s|s|s pl H|s m e H]; try discriminate. intros _. now exists s, pl, H.
  - intros (s & pl & H & ->). reflexivity.
Qed.

Theorem is_nan_is_ieee_nan_32 : forall a : N, (a < 2 ^ 32)%N ->
  (Keys.is_nan 4 a = true <->
   exists s pl H, b32_of_bits (Z.of_N a) = B754_nan 24 128 s pl H).
Proof.
  intros a _. rewrite is_nan_is_ieee_nanb_32. apply is_nan_exists.
Qed.

(* ------------------------------------------------------------------ *)
(* 4. binary64: the same proof with other constants                    *)
(* ------------------------------------------------------------------ *)

Lemma is_nan_znan_64 : forall a : N, Keys.is_nan 8 a = znan 52 11 (Z.of_N a).
Proof.
  intros a. unfold Keys.is_nan, Keys.fexp, Keys.fmant, znan, dnan. cbn [mbits ebits].
  rewrite !N_eqb_Z.
  rewrite N2Z.inj_sub, !N2Z.inj_mod, N2Z.inj_div, !N2Z.inj_pow by (now compute).
  reflexivity.
Qed.

Lemma fsign_zsign_64 : forall a : N, (a < 2 ^ 64)%N ->
  (fsign 8 a =? 1)%N = zsign 52 11 (Z.of_N a).
Proof.
  intros a Ha. unfold fsign, zsign.
  change (signbit 8) with 9223372036854775808%N.
  change (2 ^ 52 * 2 ^ 11) with 9223372036854775808.
  change (2 ^ 64)%N with 18446744073709551616%N in Ha.
  destruct (N.eqb_spec (a / 9223372036854775808) 1) as [H|H];
    destruct (Z.leb_spec 9223372036854775808 (Z.of_N a)) as [G|G];
    try reflexivity; exfalso; lia.
Qed.

(* assumption-free core *)
Theorem fl_lt_is_sf_lt_64 : forall a b : N,
  (a < 2 ^ 64)%N -> (b < 2 ^ 64)%N ->
  Keys.is_nan 8 a = false -> Keys.is_nan 8 b = false ->
  (fl_lt 8 a b <->
   SFcompare (FF2SF (binary_float_of_bits_aux 52 11 (Z.of_N a)))
             (FF2SF (binary_float_of_bits_aux 52 11 (Z.of_N b))) = Some Lt \/
   (a = 0x8000000000000000 /\ b = 0)%N).
Proof.
  intros a b Ha Hb Na Nb.
  unfold fl_lt. rewrite Na, Nb, !fsign_zsign_64 by assumption.
  rewrite is_nan_znan_64 in Na, Nb.
  change (2 ^ 64)%N with 18446744073709551616%N in Ha, Hb.
  assert (Ra : 0 <= Z.of_N a < 2 * (2 ^ 52 * 2 ^ 11))
    by (change (2 * (2 ^ 52 * 2 ^ 11)) with 18446744073709551616; lia).
  assert (Rb : 0 <= Z.of_N b < 2 * (2 ^ 52 * 2 ^ 11))
    by (change (2 * (2 ^ 52 * 2 ^ 11)) with 18446744073709551616; lia).
  pose proof (zlt_is_SFcompare_lt 52 11 eq_refl eq_refl
                (Z.of_N a) (Z.of_N b) Ra Rb Na Nb) as G.
  assert (L : zlt 52 11 (Z.of_N a) (Z.of_N b) <->
              match zsign 52 11 (Z.of_N a), zsign 52 11 (Z.of_N b) with
              | true, false => True
              | false, true => False
              | false, false => (a < b)%N
              | true, true => (b < a)%N
              end).
  { unfold zlt. destruct (zsign 52 11 (Z.of_N a)), (zsign 52 11 (Z.of_N b)); lia. }
  assert (R : (Z.of_N a = 2 ^ 52 * 2 ^ 11 /\ Z.of_N b = 0) <->
              (a = 0x8000000000000000 /\ b = 0)%N).
  { change (2 ^ 52 * 2 ^ 11) with 9223372036854775808. lia. }
  rewrite <- L, <- R. exact G.
Qed.

Theorem fl_lt_is_ieee_lt_64 : forall a b : N,
  (a < 2 ^ 64)%N -> (b < 2 ^ 64)%N ->
  Keys.is_nan 8 a = false -> Keys.is_nan 8 b = false ->
  (fl_lt 8 a b <->
   b64_compare (b64_of_bits (Z.of_N a)) (b64_of_bits (Z.of_N b)) = Some Lt \/
   (a = 0x8000000000000000 /\ b = 0)%N).
Proof.
  intros a b Ha Hb Na Nb. unfold b64_compare, b64_of_bits.
  rewrite (bits_compare 52 11 eq_refl eq_refl eq_refl).
  apply fl_lt_is_sf_lt_64; assumption.
Qed.

Theorem is_nan_is_ieee_nanb_64 : forall a : N,
  Keys.is_nan 8 a = Binary.is_nan 53 1024 (b64_of_bits (Z.of_N a)).
Proof.
  intros a. rewrite is_nan_znan_64. symmetry.
  apply (bits_is_nan 52 11 eq_refl eq_refl eq_refl). lia.
Qed.

Theorem is_nan_is_ieee_nan_64 : forall a : N, (a < 2 ^ 64)%N ->
  (Keys.is_nan 8 a = true <->
   exists s pl H, b64_of_bits (Z.of_N a) = B754_nan 53 1024 s pl H).
Proof.
  intros a _. rewrite is_nan_is_ieee_nanb_64. apply is_nan_exists.
Qed.

(* ------------------------------------------------------------------ *)
(* 5. Assumption-free cores, sanity checks, assumptions                      *)
(* ------------------------------------------------------------------ *)

(* non-vacuity: Flocq's comparison evaluated on a few patterns *)
Example ex_one_two :       (* 1.0 < 2.0 *)
  b32_compare (b32_of_bits 0x3F800000) (b32_of_bits 0x40000000) = Some Lt.
Proof. vm_compute. reflexivity. Qed.
Example ex_sub_norm :      (* largest subnormal < smallest normal *)
  b32_compare (b32_of_bits 0x007FFFFF) (b32_of_bits 0x00800000) = Some Lt.
Proof. vm_compute. reflexivity. Qed.
Example ex_zeros :         (* -0 and +0 are IEEE-equal: the one refinement *)
  b32_compare (b32_of_bits 0x80000000) (b32_of_bits 0) = Some Eq.
Proof. vm_compute. reflexivity. Qed.
Example ex_neg :           (* -2.0 < -1.0 *)
  b64_compare (b64_of_bits 0xC000000000000000) (b64_of_bits 0xBFF0000000000000) = Some Lt.
Proof. vm_compute. reflexivity. Qed.
Example ex_nan :           (* NaN is unordered *)
  b64_compare (b64_of_bits 0x7FF8000000000001) (b64_of_bits 0) = None.
Proof. vm_compute. reflexivity. Qed.


Theorem is_nan_is_ff_nan_32 : forall a : N,
  Keys.is_nan 4 a = is_nan_FF (binary_float_of_bits_aux 23 8 (Z.of_N a)).
Proof.
  intros a. rewrite is_nan_znan_32. symmetry.
  apply (aux_is_nan 23 8 eq_refl eq_refl). lia.
Qed.

Theorem is_nan_is_ff_nan_64 : forall a : N,
  Keys.is_nan 8 a = is_nan_FF (binary_float_of_bits_aux 52 11 (Z.of_N a)).
Proof.
  intros a. rewrite is_nan_znan_64. symmetry.
  apply (aux_is_nan 52 11 eq_refl eq_refl). lia.
Qed.

(* The assumption-free cores: closed under the global context. *)
Print Assumptions fl_lt_is_sf_lt_32.
Print Assumptions fl_lt_is_sf_lt_64.
Print Assumptions is_nan_is_ff_nan_32.
Print Assumptions is_nan_is_ff_nan_64.
(* The constants of the STATEMENTS below already depend on the classical assumptions of the
   standard library's Reals: [b32_of_bits] packs the validity proof
   [binary_float_of_bits_aux_correct], which Flocq proves through real numbers. *)
Print Assumptions b32_of_bits.
Print Assumptions b64_of_bits.
Print Assumptions fl_lt_is_ieee_lt_32.
Print Assumptions fl_lt_is_ieee_lt_64.
Print Assumptions is_nan_is_ieee_nan_32.
Print Assumptions is_nan_is_ieee_nan_64.
Print Assumptions is_nan_is_ieee_nanb_32.
Print Assumptions is_nan_is_ieee_nanb_64.
