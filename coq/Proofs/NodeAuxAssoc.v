(* Helper lemmas for Proofs/NodeFacts.v, part 1: sorted association lists
   (assoc / ins_sorted / rem_key / repl_key / keys_sorted). *)
From GoArt Require Import Base.Bytes Model.Node4 Model.Node16 Model.Node Spec.NodeSpec.
From Coq Require Import ZifyN ZifyNat ZifyBool.
Ltac Zify.zify_post_hook ::= Z.div_mod_to_equations.
Open Scope N_scope.

Section AuxAssoc.
Context {C : Type}.
Implicit Types (b : N) (c : C) (l : list (N * C)).

Lemma al_ins_same : forall b c l, assoc b l = None -> assoc b (ins_sorted b c l) = Some c.
Proof.
  induction l as [|[k x] l IH]; cbn [ins_sorted assoc]; intros H.
  - rewrite N.eqb_refl. reflexivity.
  - destruct (k =? b) eqn:E; [discriminate|].
    destruct (b <? k) eqn:E2; cbn [assoc].
    + rewrite N.eqb_refl. reflexivity.
    + rewrite E. auto.
Qed.

Lemma al_ins_other : forall b b' c l, b' <> b -> assoc b' (ins_sorted b c l) = assoc b' l.
Proof.
  intros b b' c l Hne. induction l as [|[k x] l IH]; cbn [ins_sorted assoc].
  - destruct (b =? b') eqn:E; [lia|reflexivity].
  - destruct (b <? k) eqn:E2; cbn [assoc].
    + destruct (b =? b') eqn:E; [lia|reflexivity].
    + rewrite IH. reflexivity.
Qed.

Lemma al_none_notin : forall b l, assoc b l = None <-> ~ In b (map fst l).
Proof.
  induction l as [|[k x] l IH]; cbn [assoc map fst In].
  - tauto.
  - destruct (k =? b) eqn:E.
    + split; [discriminate|]. intros H. exfalso. apply H. left. lia.
    + rewrite IH. split; [|tauto]. intros H [H1|H1]; [lia|tauto].
Qed.

Lemma al_in_fst_ins : forall b c l x, In x (map fst (ins_sorted b c l)) <-> x = b \/ In x (map fst l).
Proof.
  induction l as [|[k y] l IH]; intros x; cbn [ins_sorted map fst In].
  - intuition.
  - destruct (b <? k); cbn [map fst In].
    + intuition.
    + rewrite IH. intuition.
Qed.

Lemma al_ins_sorted : forall b c l, keys_sorted l -> b < 256 -> assoc b l = None ->
  keys_sorted (ins_sorted b c l).
Proof.
  unfold keys_sorted. induction l as [|[k x] l IH]; cbn [ins_sorted map fst]; intros [HS HF] Hb Ha.
  - split; repeat constructor. exact Hb.
  - cbn [assoc] in Ha. destruct (k =? b) eqn:E; [discriminate|].
    apply StronglySorted_inv in HS. destruct HS as [HS Hk].
    pose proof (Forall_inv HF) as Hk256. pose proof (Forall_inv_tail HF) as HF'.
    destruct (b <? k) eqn:E2; cbn [map fst].
    + split.
      * constructor. { constructor; assumption. }
        constructor. { lia. }
        eapply Forall_impl; [|exact Hk]. cbn. intros; lia.
      * constructor; [exact Hb|]. constructor; assumption.
    + destruct (IH (conj HS HF') Hb Ha) as [IS IF].
      split.
      * constructor; [exact IS|].
        apply Forall_forall. intros y Hy. apply al_in_fst_ins in Hy. destruct Hy as [->|Hy].
        -- lia.
        -- rewrite Forall_forall in Hk. apply Hk. exact Hy.
      * constructor; assumption.
Qed.

Lemma al_in_fst_rem : forall b l x, In x (map fst (rem_key b l)) -> In x (map fst l).
Proof.
  induction l as [|[k y] l IH]; intros x; cbn [rem_key map fst In]; [tauto|].
  destruct (k =? b); cbn [map fst In]; [tauto|]. intros [H|H]; [tauto|]. right. apply IH. exact H.
Qed.

Lemma al_rem_sorted : forall b l, keys_sorted l -> keys_sorted (rem_key b l).
Proof.
  unfold keys_sorted. induction l as [|[k x] l IH]; cbn [rem_key map fst]; intros [HS HF].
  - split; constructor.
  - apply StronglySorted_inv in HS. destruct HS as [HS Hk].
    pose proof (Forall_inv HF) as Hk256. pose proof (Forall_inv_tail HF) as HF'.
    destruct (k =? b); [split; assumption|].
    destruct (IH (conj HS HF')) as [IS IF]. cbn [map fst]. split.
    + constructor; [exact IS|]. apply Forall_forall. intros y Hy. apply al_in_fst_rem in Hy.
      rewrite Forall_forall in Hk. apply Hk. exact Hy.
    + constructor; assumption.
Qed.

Lemma al_rem_same : forall b l, keys_sorted l -> assoc b (rem_key b l) = None.
Proof.
  unfold keys_sorted. induction l as [|[k x] l IH]; cbn [rem_key map fst]; intros [HS HF].
  - reflexivity.
  - apply StronglySorted_inv in HS. destruct HS as [HS Hk].
    pose proof (Forall_inv_tail HF) as HF'.
    destruct (k =? b) eqn:E.
    + apply al_none_notin. intros Hin. rewrite Forall_forall in Hk. apply Hk in Hin. lia.
    + cbn [assoc]. rewrite E. apply IH. split; assumption.
Qed.

Lemma al_rem_other : forall b b' l, b' <> b -> assoc b' (rem_key b l) = assoc b' l.
Proof.
  intros b b' l Hne. induction l as [|[k x] l IH]; cbn [rem_key assoc]; [reflexivity|].
  destruct (k =? b) eqn:E.
  - destruct (k =? b') eqn:E2; [lia|reflexivity].
  - cbn [assoc]. rewrite IH. reflexivity.
Qed.

Lemma al_repl_same : forall b c l, assoc b l <> None -> assoc b (repl_key b c l) = Some c.
Proof.
  intros b c. induction l as [|[k x] l IH]; cbn [repl_key assoc]; intros H; [congruence|].
  destruct (k =? b) eqn:E; cbn [assoc]; rewrite E; auto.
Qed.

Lemma al_repl_other : forall b b' c l, b' <> b -> assoc b' (repl_key b c l) = assoc b' l.
Proof.
  intros b b' c l Hne. induction l as [|[k x] l IH]; cbn [repl_key assoc]; [reflexivity|].
  destruct (k =? b) eqn:E; cbn [assoc].
  - destruct (k =? b') eqn:E2; [lia|reflexivity].
  - rewrite IH. reflexivity.
Qed.

Lemma al_repl_fst : forall b c l, map fst (repl_key b c l) = map fst l.
Proof.
  intros b c. induction l as [|[k x] l IH]; cbn [repl_key map fst]; [reflexivity|].
  destruct (k =? b); cbn [map fst]; [reflexivity|]. rewrite IH. reflexivity.
Qed.

Lemma al_assoc_in : forall b c l, assoc b l = Some c -> In (b, c) l.
Proof.
  intros b c. induction l as [|[k x] l IH]; cbn [assoc In]; [discriminate|].
  destruct (k =? b) eqn:E.
  - intros H. injection H as ->. left. f_equal. lia.
  - intros H. right. auto.
Qed.

Lemma al_in_assoc : forall b c l, keys_sorted l -> In (b, c) l -> assoc b l = Some c.
Proof.
  unfold keys_sorted. intros b c. induction l as [|[k x] l IH]; cbn [map fst In assoc]; intros [HS HF] Hin; [tauto|].
  apply StronglySorted_inv in HS. destruct HS as [HS Hk].
  pose proof (Forall_inv_tail HF) as HF'.
  destruct Hin as [Heq|Hin].
  - injection Heq as -> ->. rewrite N.eqb_refl. reflexivity.
  - destruct (k =? b) eqn:E.
    + exfalso. rewrite Forall_forall in Hk. assert (k < b).
      { apply Hk. change b with (fst (b, c)). apply in_map. exact Hin. }
      lia.
    + apply IH; [split; assumption|exact Hin].
Qed.

Lemma al_length_ins : forall b c l, length (ins_sorted b c l) = S (length l).
Proof.
  intros b c. induction l as [|[k x] l IH]; cbn [ins_sorted length]; [reflexivity|].
  destruct (b <? k); cbn [length]; [reflexivity|]. rewrite IH. reflexivity.
Qed.

Lemma al_length_rem : forall b l, assoc b l <> None -> S (length (rem_key b l)) = length l.
Proof.
  intros b. induction l as [|[k x] l IH]; cbn [rem_key assoc length]; intros H; [congruence|].
  destruct (k =? b); cbn [length]; [reflexivity|]. rewrite IH; auto.
Qed.

Lemma al_sorted_ext : forall l1 l2, keys_sorted l1 -> keys_sorted l2 ->
  (forall b, assoc b l1 = assoc b l2) -> l1 = l2.
Proof.
  unfold keys_sorted.
  induction l1 as [|[k1 x1] l1 IH]; intros [|[k2 x2] l2] [HS1 HF1] [HS2 HF2] Hext.
  - reflexivity.
  - specialize (Hext k2). cbn [assoc] in Hext. rewrite N.eqb_refl in Hext. discriminate.
  - specialize (Hext k1). cbn [assoc] in Hext. rewrite N.eqb_refl in Hext. discriminate.
  - cbn [map fst] in *.
    apply StronglySorted_inv in HS1. destruct HS1 as [HS1 Hk1].
    apply StronglySorted_inv in HS2. destruct HS2 as [HS2 Hk2].
    pose proof (Forall_inv_tail HF1) as HF1'. pose proof (Forall_inv_tail HF2) as HF2'.
    rewrite Forall_forall in Hk1, Hk2.
    assert (Hk : k1 = k2).
    { pose proof (Hext k1) as E1. pose proof (Hext k2) as E2. cbn [assoc] in E1, E2.
      rewrite N.eqb_refl in E1, E2.
      destruct (k2 =? k1) eqn:E; [lia|].
      destruct (k1 =? k2) eqn:E'; [lia|].
      symmetry in E1. apply al_assoc_in in E1. apply al_assoc_in in E2.
      assert (k2 < k1) by (apply Hk2; change k1 with (fst (k1, x1)); apply in_map; exact E1).
      assert (k1 < k2) by (apply Hk1; change k2 with (fst (k2, x2)); apply in_map; exact E2).
      lia. }
    subst k2.
    assert (Hx : x1 = x2).
    { pose proof (Hext k1) as E1. cbn [assoc] in E1. rewrite N.eqb_refl in E1. congruence. }
    subst x2. f_equal.
    apply IH; [split; assumption|split; assumption|].
    intros b. specialize (Hext b). cbn [assoc] in Hext.
    destruct (k1 =? b) eqn:E; [|exact Hext].
    assert (b = k1) by lia. subst b.
    assert (N1 : assoc k1 l1 = None).
    { apply al_none_notin. intros Hin. apply Hk1 in Hin. lia. }
    assert (N2 : assoc k1 l2 = None).
    { apply al_none_notin. intros Hin. apply Hk2 in Hin. lia. }
    congruence.
Qed.

(* the StronglySorted halves alone (no byte bound needed) *)
Lemma al_ins_ssorted : forall b c l, StronglySorted N.lt (map fst l) -> assoc b l = None ->
  StronglySorted N.lt (map fst (ins_sorted b c l)).
Proof.
  induction l as [|[k x] l IH]; cbn [ins_sorted map fst]; intros HS Ha.
  - repeat constructor.
  - cbn [assoc] in Ha. destruct (k =? b) eqn:E; [discriminate|].
    apply StronglySorted_inv in HS. destruct HS as [HS Hk].
    destruct (b <? k) eqn:E2; cbn [map fst].
    + constructor. { constructor; assumption. }
      constructor. { lia. }
      eapply Forall_impl; [|exact Hk]. cbn. intros; lia.
    + constructor; [exact (IH HS Ha)|].
      apply Forall_forall. intros y Hy. apply al_in_fst_ins in Hy. destruct Hy as [->|Hy].
      * lia.
      * rewrite Forall_forall in Hk. apply Hk. exact Hy.
Qed.

Lemma al_rem_ssorted : forall b l, StronglySorted N.lt (map fst l) ->
  StronglySorted N.lt (map fst (rem_key b l)).
Proof.
  induction l as [|[k x] l IH]; cbn [rem_key map fst]; intros HS.
  - constructor.
  - apply StronglySorted_inv in HS. destruct HS as [HS Hk].
    destruct (k =? b); [assumption|].
    cbn [map fst]. constructor; [exact (IH HS)|]. apply Forall_forall. intros y Hy. apply al_in_fst_rem in Hy.
    rewrite Forall_forall in Hk. apply Hk. exact Hy.
Qed.

End AuxAssoc.
