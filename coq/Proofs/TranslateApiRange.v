(* Proofs/TranslateApiFacts.v, part 2 of 5: the Range methods of the six trees *)
From GoArt Require Import Base.Bytes Model.Node4 Model.Node16 Model.Node Model.Tree Model.Iter Model.Api
  Spec.NodeSpec Spec.TreeSpec Spec.IterSpec Proofs.BytesFacts Proofs.Node4Facts Proofs.NodeFacts Proofs.TreeBasics Proofs.NodeAux48
  Proofs.NodeAuxAssoc Proofs.NodeAuxArr Proofs.InsertFacts Proofs.IterFacts Spec.Ideal Proofs.PropFacts Proofs.TranslateFacts.
From GoArt Require Import Proofs.RangeFacts Proofs.ApiFacts Model.Pool Proofs.PoolFacts Model.PoolTree Proofs.PoolTreeFacts.
From GoArt Require Import Model.GoArith Model.GoTree Gen.Node4Gen Gen.Node16Gen Gen.TreeGen Proofs.TranslateTreeFacts
  Gen.IterGen Proofs.TranslateIterFacts Gen.ApiGen.
From GoArt Require Import Proofs.TranslateApiBase.
From Coq Require Import ZifyN ZifyNat ZifyBool.
Ltac Zify.zify_post_hook ::= Z.div_mod_to_equations.
Open Scope N_scope.

(* ---------------- Range, the ComparableKeys branch of the template (unsigned, signed, float) ---------------- *)
Lemma do_range_num : forall k st a b ans, is_num k = true ->
  do_range k st a b ans =
  match lex_cmp (fst (transform k a)) (fst (transform k b)) with
  | Eq => match do_search st (fst (transform k a)) (snd (transform k a)) with
          | OFound v => OSeq [(a, v)] 1
          | OAbsent => OSeq [] 0
          | o => o
          end
  | Gt => seq_out k (run_range (root st) (fst (transform k b)) (fst (transform k a)) (fst (transform k b)) (fst (transform k a)) ans)
  | Lt => seq_out k (run_range (root st) (fst (transform k a)) (fst (transform k b)) (fst (transform k a)) (fst (transform k b)) ans)
  end.
Proof. intros [|w|w|w| |s|enc dec] st a b ans H; try discriminate; reflexivity. Qed.

Section NumRange.
Variable k : Api.kind.
Hypothesis Hk : is_num k = true.
Variable gsearch : nat -> gref -> list N -> gres sres.
Variable search_key : list N -> list N.
Hypothesis search_eq : forall fuel t keyS, xtwf t -> isbytes keyS = true ->
  gsearch fuel (Some t) keyS = gres_of_sres (xsearch fuel t keyS keyS 0).
Hypothesis search_nil : forall fuel keyS, gsearch fuel None keyS = GRet SAbsent.
Hypothesis key_eq : forall x, search_key x = x.
Variable R : gref -> gres (akey * Z).
Hypothesis HR : restore_ok idk idk k R any_key.

(* the text of the template branch, over its own Search, search key and restoreKey *)
Definition ref_range_num (tr : akey -> list N * list N) (fuel_Search fuel_rangeScan : nat) (root : gref) (start end_ : akey)
    (ans : nat -> bool) : kres akey :=
  let startKey := fst (tr start) in
  let endKey := fst (tr end_) in
  let c := bytes_compare startKey endKey in
  let k1 := fun (startKey : list N) (endKey : list N) =>
    seq_kv R (g_rangeScan fuel_rangeScan root startKey endKey startKey endKey ans) in
  if Z.eqb c 0%Z then (
    let yi := O in
    let yout := (@nil (akey * Z)) in
    match gsearch fuel_Search root (search_key (snd (tr start))) with
    | GRet r_2 =>
    let k2 := fun (val : Z) (ok : bool) =>
      if negb ok then (
        KDone ByReturn yi yout
      ) else (
        let yr := ans yi in
        let yout := (start, val) :: yout in
        let yi := S yi in
        if negb yr then (
          KDone ByReturn yi yout
        ) else (
          KDone ByEnd yi yout
        )
      ) in
    match r_2 with
    | SFound v => k2 v true
    | SAbsent => k2 0%Z false
    | SFuel => KFuel
    end
    | GPanic => KPanic
    | GFuel => KFuel
    end
  ) else (
    if Z.ltb 0%Z c then (
      let '(startKey, endKey) := (endKey, startKey) in
      k1 startKey endKey
    ) else (
      k1 startKey endKey
    )
  ).

Theorem range_num_out : forall st a b ans fr, sinv st -> isbytes (snd (transform k a)) = true ->
  (forall t, xroot st = Some t -> fr = walk_fuel (tabs t)) ->
  kres_out idk (ref_range_num (mtr k) (key_fuel (snd (transform k a))) fr (xroot st) a b ans) = do_range k (sabs st) a b ans.
Proof.
  intros st a b ans fr Hs Hb Hf. rewrite (do_range_num k _ a b ans Hk). unfold ref_range_num, mtr. cbv zeta.
  assert (Hpk : plain_kind k = true) by (destruct k; try discriminate; reflexivity).
  pose proof (mtr_same k a Hpk) as Esame. unfold mtr in Esame.
  unfold bytes_compare. destruct (lex_cmp (fst (transform k a)) (fst (transform k b))) eqn:Ec.
  - change (0 =? 0)%Z with true. cbv iota. rewrite key_eq. unfold do_search. rewrite sabs_root. unfold sinv in Hs.
    destruct (xroot st) as [t|].
    + rewrite (search_eq _ t _ Hs Hb), (xsearch_sim _ t _ _ _ Hs), Esame.
      destruct (search (key_fuel (snd (transform k a))) (tabs t) (snd (transform k a)) (snd (transform k a)) 0) as [v| |];
        cbn [gres_of_sres negb]; [destruct (ans 0%nat)| |]; reflexivity.
    + rewrite search_nil. reflexivity.
  - change (-1 =? 0)%Z with false. change (0 <? -1)%Z with false. cbv iota.
    rewrite (range_out idk idk k R any_key HR st fr _ _ _ _ ans Hs (keys_ok_any st) Hf). apply out_keymap_id.
  - change (1 =? 0)%Z with false. change (0 <? 1)%Z with true. cbv iota.
    rewrite (range_out idk idk k R any_key HR st fr _ _ _ _ ans Hs (keys_ok_any st) Hf). apply out_keymap_id.
Qed.
End NumRange.

Lemma search_nil_unsigned : forall fuel keyS, g_unsigned_search fuel None keyS = GRet SAbsent.
Proof. intros [|f] keyS; reflexivity. Qed.
Lemma search_nil_signed : forall fuel keyS, g_signed_search fuel None keyS = GRet SAbsent.
Proof. intros [|f] keyS; reflexivity. Qed.
Lemma search_nil_float : forall fuel keyS, g_float_search fuel None keyS = GRet SAbsent.
Proof. intros [|f] keyS; reflexivity. Qed.

(* each of the three instances IS the template text over its own Search / restoreKey *)
Lemma unsigned_range_text : forall tr rs, g_unsigned_Range akey tr rs =
  ref_range_num g_unsigned_search g_unsigned_search_key (g_unsigned_restoreKey akey tr rs) tr.
Proof. reflexivity. Qed.
Lemma signed_range_text : forall tr rs, g_signed_Range akey tr rs =
  ref_range_num g_signed_search g_signed_search_key (g_signed_restoreKey akey tr rs) tr.
Proof. reflexivity. Qed.
Lemma float_range_text : forall tr rs, g_float_Range akey tr rs =
  ref_range_num g_float_search g_float_search_key (g_float_restoreKey akey tr rs) tr.
Proof. reflexivity. Qed.

Theorem gen_unsigned_range_eq : forall w st a b ans fr, sinv st -> isbytes (snd (transform (KUnsigned w) a)) = true ->
  (forall t, xroot st = Some t -> fr = walk_fuel (tabs t)) ->
  kres_out idk (g_unsigned_Range akey (mtr (KUnsigned w)) (mrs (KUnsigned w)) (key_fuel (snd (transform (KUnsigned w) a))) fr (xroot st) a b ans) =
  do_range (KUnsigned w) (sabs st) a b ans.
Proof.
  intros w st a b ans fr Hs Hb Hf. rewrite unsigned_range_text.
  apply (range_num_out (KUnsigned w) eq_refl g_unsigned_search g_unsigned_search_key gen_unsigned_search_eq search_nil_unsigned
           (fun x => eq_refl)); try assumption.
  rewrite gen_unsigned_restoreKey_eq. apply ref_restoreKey_ok. reflexivity.
Qed.
Theorem gen_signed_range_eq : forall w st a b ans fr, sinv st -> isbytes (snd (transform (KSigned w) a)) = true ->
  (forall t, xroot st = Some t -> fr = walk_fuel (tabs t)) ->
  kres_out idk (g_signed_Range akey (mtr (KSigned w)) (mrs (KSigned w)) (key_fuel (snd (transform (KSigned w) a))) fr (xroot st) a b ans) =
  do_range (KSigned w) (sabs st) a b ans.
Proof.
  intros w st a b ans fr Hs Hb Hf. rewrite signed_range_text.
  apply (range_num_out (KSigned w) eq_refl g_signed_search g_signed_search_key gen_signed_search_eq search_nil_signed
           (fun x => eq_refl)); try assumption.
  rewrite gen_signed_restoreKey_eq. apply ref_restoreKey_ok. reflexivity.
Qed.
Theorem gen_float_range_eq : forall w st a b ans fr, sinv st -> isbytes (snd (transform (KFloat w) a)) = true ->
  (forall t, xroot st = Some t -> fr = walk_fuel (tabs t)) ->
  kres_out idk (g_float_Range akey (mtr (KFloat w)) (mrs (KFloat w)) (key_fuel (snd (transform (KFloat w) a))) fr (xroot st) a b ans) =
  do_range (KFloat w) (sabs st) a b ans.
Proof.
  intros w st a b ans fr Hs Hb Hf. rewrite float_range_text.
  apply (range_num_out (KFloat w) eq_refl g_float_search g_float_search_key gen_float_search_eq search_nil_float
           (fun x => eq_refl)); try assumption.
  rewrite gen_float_restoreKey_eq. apply ref_restoreKey_ok. reflexivity.
Qed.

(* ---------------- Range, the CompoundKey branch of the template ---------------- *)
Lemma do_range_cmp : forall k st a b ans, is_cmp k = true ->
  do_range k st a b ans =
  match root st with
  | None => OSeq [] 0
  | Some t =>
    let sk := fst (transform k a) in
    let ek := fst (transform k b) in
    let ek := if (length ek =? 0)%nat
              then match maximum t with Some l => fst (transform k (restore k l)) | None => [] end
              else ek in
    let '(sk, ek) := match lex_cmp sk ek with Gt => (ek, sk) | _ => (sk, ek) end in
    seq_out k (run_range (root st) sk ek sk ek ans)
  end.
Proof. intros [|w|w|w| |s|enc dec] st a b ans H; try discriminate; reflexivity. Qed.

Section CmpRange.
Variable k : Api.kind.
Hypothesis Hk : is_cmp k = true.
Variable R : gref -> gres (akey * Z).
Hypothesis HR : restore_ok idk idk k R any_key.

Definition ref_range_cmp (tr : akey -> list N * list N) (fuel_maximum fuel_rangeScan : nat) (root : gref) (start end_ : akey)
    (ans : nat -> bool) : kres akey :=
  let startKey := fst (tr start) in
  let endKey := fst (tr end_) in
  if ref_is_nil (ref_pointer root) then (
    let yi := O in
    let yout := (@nil (akey * Z)) in
    KDone ByEnd yi yout
  ) else (
    let k2 := fun (end_ : akey) (endKey : list N) =>
      let k1 := fun (startKey : list N) (endKey : list N) =>
        seq_kv R (g_rangeScan fuel_rangeScan root startKey endKey startKey endKey ans) in
      if Z.ltb 0%Z (bytes_compare startKey endKey) then (
        let '(startKey, endKey) := (endKey, startKey) in
        k1 startKey endKey
      ) else (
        k1 startKey endKey
      ) in
    if Z.eqb (Z.of_nat (List.length endKey)) 0%Z then (
      match g_maximum fuel_maximum root with
      | GRet r_2 =>
      match R r_2 with
      | GRet r_3 =>
      let end_ := fst r_3 in
      let endKey := fst (tr end_) in
      k2 end_ endKey
      | GPanic => KPanic
      | GFuel => KFuel
      end
      | GPanic => KPanic
      | GFuel => KFuel
      end
    ) else (
      k2 end_ endKey
    )
  ).

Theorem range_cmp_out : forall st a b ans fm fr, sinv st -> root_wf (sabs st) ->
  (forall t, xroot st = Some t -> fm = theight (tabs t) /\ fr = walk_fuel (tabs t)) ->
  kres_out idk (ref_range_cmp (mtr k) fm fr (xroot st) a b ans) = do_range k (sabs st) a b ans.
Proof.
  intros st a b ans fm fr Hs Hw Hf. rewrite (do_range_cmp k _ a b ans Hk).
  assert (Htail : forall sk ek, kres_out idk (seq_kv R (g_rangeScan fr (xroot st) sk ek sk ek ans)) =
                                seq_out k (run_range (root (sabs st)) sk ek sk ek ans)).
  { intros sk ek. rewrite (range_out idk idk k R any_key HR st fr _ _ _ _ ans Hs (keys_ok_any st)); [apply out_keymap_id|].
    intros t Ht. apply (Hf t Ht). }
  unfold ref_range_cmp, mtr. unfold sinv, root_wf in *. rewrite sabs_root in *.
  destruct (xroot st) as [t|]; [|reflexivity].
  destruct (Hf t eq_refl) as [-> _]. cbn [ref_is_nil ref_pointer]. cbv beta iota zeta. rewrite len0.
  destruct (length (fst (transform k b)) =? 0)%nat.
  - destruct (max_leaf t Hs Hw) as (gk & tk & v & Hg & Hm & _). rewrite Hg, Hm.
    destruct (HR gk tk v I) as (kv & Ek & Ei & _). rewrite Ek. unfold idk in Ei. rewrite Ei, cmp_gt.
    destruct (lex_cmp (fst (transform k a)) (fst (transform k (restore k (Leaf gk tk v))))); apply Htail.
  - rewrite cmp_gt. destruct (lex_cmp (fst (transform k a)) (fst (transform k b))); apply Htail.
Qed.
End CmpRange.

Lemma compound_range_text : forall tr rs, g_compound_Range akey tr rs = ref_range_cmp (g_compound_restoreKey akey tr rs) tr.
Proof. reflexivity. Qed.
(* for a schema-described compound key and for an arbitrary user codec *)
Theorem gen_compound_range_eq : forall k st a b ans fm fr, is_cmp k = true -> sinv st -> root_wf (sabs st) ->
  (forall t, xroot st = Some t -> fm = theight (tabs t) /\ fr = walk_fuel (tabs t)) ->
  kres_out idk (g_compound_Range akey (mtr k) (mrs k) fm fr (xroot st) a b ans) = do_range k (sabs st) a b ans.
Proof.
  intros k st a b ans fm fr Hk Hs Hw Hf. rewrite compound_range_text. apply range_cmp_out; try assumption.
  rewrite gen_compound_restoreKey_eq. apply ref_restoreKey_ok. destruct k; try discriminate; reflexivity.
Qed.

(* ---------------- Range of the alpha tree (the else branch of the template, with AddNullByte) ---------------- *)
Lemma nonempty_of : forall st t gk tk v, keys_ok nonempty_key st -> xroot st = Some t -> In (gk, tk, v) (leaves (tabs t)) -> gk <> [].
Proof.
  intros st t gk tk v Hk Ht Hin. unfold keys_ok in Hk. rewrite Ht in Hk. rewrite Forall_forall in Hk.
  exact (Hk _ Hin).
Qed.

Theorem gen_alpha_range_eq : forall tr st a b ans fm fr, sinv st -> root_wf (sabs st) -> keys_ok nonempty_key st ->
  (forall t, xroot st = Some t -> fm = theight (tabs t) /\ fr = walk_fuel (tabs t)) ->
  kres_out AB (g_alpha_Range tr alpha_rs fm fr (xroot st) a b ans) = do_range KAlpha (sabs st) (AB a) (AB b) ans.
Proof.
  intros tr st a b ans fm fr Hs Hw Hk Hf.
  assert (Htail : forall s e, kres_out AB (seq_kv (g_alpha_restoreKey tr alpha_rs) (g_rangeScan fr (xroot st) (s ++ [0]) (e ++ [0]) (s ++ [0]) (e ++ [0]) ans)) =
                              seq_out KAlpha (run_range (root (sabs st)) (s ++ [0]) (e ++ [0]) (s ++ [0]) (e ++ [0]) ans)).
  { intros s e. rewrite (range_out AB idk KAlpha _ nonempty_key (alpha_restoreKey_ok tr) st fr _ _ _ _ ans Hs Hk); [apply out_keymap_id|].
    intros t Ht. apply (Hf t Ht). }
  pose proof (nonempty_of st) as Hne.
  unfold g_alpha_Range, do_range. unfold sinv, root_wf in *. rewrite sabs_root in *.
  destruct (xroot st) as [t|]; [|reflexivity].
  destruct (Hf t eq_refl) as [-> _]. cbn [ref_is_nil ref_pointer akey_bytes]. cbv beta iota zeta. rewrite len0.
  destruct (length b =? 0)%nat.
  - destruct (max_leaf t Hs Hw) as (gk & tk & v & Hg & Hm & Hin). rewrite Hg, Hm.
    rewrite (gen_alpha_restoreKey_eq tr alpha_rs gk tk v (Hne t gk tk v Hk eq_refl Hin)).
    cbn [fst snd restore leaf_gk akey_bytes]. unfold alpha_rs. rewrite cmp_gt.
    destruct (lex_cmp a (removelast gk)); apply Htail.
  - rewrite cmp_gt. destruct (lex_cmp a b); apply Htail.
Qed.

(* ---------------- Range of the collation tree ---------------- *)
(* the model takes the sort keys as part of its inputs (AC o c); the Go code computes them with the collator:
   tr o = (o, col o).  The open end re-collates the ORIGINAL string of the maximum leaf: the model assumes
   that gives the stored sort key again, here the hypothesis on the maximum. *)
Theorem gen_collation_range_eq : forall col rs st a b ans fm fr, sinv st -> root_wf (sabs st) ->
  (forall t m, xroot st = Some t -> maximum (tabs t) = Some m -> col (leaf_gk m) = leaf_tk m) ->
  (forall t, xroot st = Some t -> fm = theight (tabs t) /\ fr = walk_fuel (tabs t)) ->
  kres_out AB (g_collation_Range (col_tr col) rs fm fr (xroot st) a b ans) =
  out_keymap forget_col (do_range KCollation (sabs st) (AC a (col a)) (AC b (col b)) ans).
Proof.
  intros col rs st a b ans fm fr Hs Hw Hcol Hf.
  assert (Htail : forall gs ge ts te, kres_out AB (seq_kv (g_collation_restoreKey (col_tr col) rs) (g_rangeScan fr (xroot st) gs ge ts te ans)) =
                              out_keymap forget_col (seq_out KCollation (run_range (root (sabs st)) gs ge ts te ans))).
  { intros gs ge ts te. apply (range_out AB forget_col KCollation _ any_key (collation_restoreKey_ok _ rs) st fr _ _ _ _ ans Hs (keys_ok_any st)).
    intros t Ht. apply (Hf t Ht). }
  unfold g_collation_Range, do_range, col_tr. unfold sinv, root_wf in *. rewrite sabs_root in *.
  destruct (xroot st) as [t|]; [|reflexivity].
  destruct (Hf t eq_refl) as [-> _]. cbn [ref_is_nil ref_pointer akey_bytes]. cbv beta iota zeta. rewrite len0.
  destruct (length b =? 0)%nat.
  - destruct (max_leaf t Hs Hw) as (gk & tk & v & Hg & Hm & Hin). rewrite Hg, Hm.
    rewrite gen_collation_restoreKey_eq. cbv beta iota zeta. cbn [fst snd restore leaf_gk leaf_tk akey_bytes]. rewrite cmp_gt.
    pose proof (Hcol t _ eq_refl Hm) as Ec. cbn [leaf_gk leaf_tk] in Ec.
    destruct (lex_cmp a gk); cbv beta iota zeta; cbn [transform akey_bytes fst snd]; rewrite ?Ec; apply Htail.
  - cbv beta iota zeta. cbn [akey_bytes]. rewrite cmp_gt. destruct (lex_cmp a b); cbv beta iota zeta; cbn [transform akey_bytes fst snd]; apply Htail.
Qed.

