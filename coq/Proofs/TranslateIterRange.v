(* Proofs/TranslateIterFacts.v, part 5 of 7: rangeScan *)
From GoArt Require Import Base.Bytes Model.Node4 Model.Node16 Model.Node Model.Tree Model.Iter Model.Api
  Spec.NodeSpec Spec.TreeSpec Spec.IterSpec Proofs.BytesFacts Proofs.Node4Facts Proofs.NodeFacts Proofs.TreeBasics Proofs.NodeAux48
  Proofs.NodeAuxAssoc Proofs.NodeAuxArr Proofs.InsertFacts Proofs.IterFacts Spec.Ideal Proofs.PropFacts Proofs.TranslateFacts.
From GoArt Require Import Model.Pool Proofs.PoolFacts Model.PoolTree Proofs.PoolTreeFacts.
From GoArt Require Import Model.GoArith Model.GoTree Gen.Node4Gen Gen.Node16Gen Gen.TreeGen Proofs.TranslateTreeFacts Gen.IterGen.
From GoArt Require Import Proofs.TranslateIterBase.
From Coq Require Import ZifyN ZifyNat ZifyBool.
Ltac Zify.zify_post_hook ::= Z.div_mod_to_equations.
Open Scope N_scope.

(* ================= 7. rangeScan ================= *)
Definition mkent (cd : Z) (v : gref) : gref * Z := (v, cd).
Lemma range_down4 : forall cd k n q, (k <= length (xch n))%nat ->
  g_rangeScan_loop2 k cd n q (Z.of_nat k - 1) = LDone (q ++ rev (map (mkent cd) (firstn k (xch n))), (-1)%Z).
Proof. intros cd. apply (down_arr (mkent cd) (fun fuel => g_rangeScan_loop2 fuel cd)). intros [|fuel] n q i; reflexivity. Qed.
Lemma range_down16 : forall cd k n q, (k <= length (xch n))%nat ->
  g_rangeScan_loop3 k cd n q (Z.of_nat k - 1) = LDone (q ++ rev (map (mkent cd) (firstn k (xch n))), (-1)%Z).
Proof. intros cd. apply (down_arr (mkent cd) (fun fuel => g_rangeScan_loop3 fuel cd)). intros [|fuel] n q i; reflexivity. Qed.
Lemma range_down48 : forall cd k n q, (k <= length (xbytes n))%nat -> cells48_ok n 0 k ->
  g_rangeScan_loop4 k cd n q (Z.of_nat k - 1) = LDone (q ++ rev (map (mkent cd) (map Some (kids48 (xch n) (firstn k (xbytes n))))), (-1)%Z).
Proof. intros cd. apply (down_48 (mkent cd) (fun fuel => g_rangeScan_loop4 fuel cd)). intros [|fuel] n q i; reflexivity. Qed.
Lemma range_down256 : forall cd k n q, (k <= length (xch n))%nat ->
  g_rangeScan_loop5 k cd n q (Z.of_nat k - 1) = LDone (q ++ rev (map (mkent cd) (map Some (somes (firstn k (xch n))))), (-1)%Z).
Proof. intros cd. apply (down_256 (mkent cd) (fun fuel => g_rangeScan_loop5 fuel cd)). intros [|fuel] n q i; reflexivity. Qed.

(* the pruning test of one iteration, as the model states it *)
Definition pruned (search : list N) (h : xhdr) (d : nat) : bool :=
  if (0 <? xplen h)%nat && (d <? length search)%nat then
    (lcpn (Nat.min (pl_cap (xabs_hdr h)) (Nat.min (length search - d) maxPrefixLen)) (xprefix h) (skipn d search) =? 0)%nat
  else false.
Lemma expand_range_nabs : forall search n d,
  expand_range search (nabs n) d =
  if pruned search (xh n) d then None else Some (with_depth (d + xplen (xh n) + 1) (map tabs (xkids n))).
Proof.
  intros search n d. unfold expand_range, pruned. rewrite nhdr_nabs, nchildren_nabs. cbn [xabs_hdr prefixLen prefix]. reflexivity.
Qed.
Lemma lcpn_firstn : forall m a c p s, (m <= a)%nat -> (m <= c)%nat -> lcpn m (firstn a p) (firstn c s) = lcpn m p s.
Proof.
  induction m as [|m IH]; intros a c p s Ha Hc; [destruct p, s, a, c; reflexivity|].
  destruct a as [|a]; [lia|]. destruct c as [|c]; [lia|].
  destruct p as [|x p]; destruct s as [|y s]; cbn [firstn lcpn]; try reflexivity.
  destruct (x =? y); [|reflexivity]. rewrite IH by lia. reflexivity.
Qed.

(* the compressed-path test as the Go code computes it: both slices in range, longestCommonPrefix on them *)
Lemma prune_test : forall search h d, length (xprefix h) = maxPrefixLen ->
  (0 <? xplen h)%nat && (d <? length search)%nat = true ->
  exists nodeKey sl,
    slice_to (xprefix h) (Z.of_N (N.min g_maxPrefixLen (hdr_prefixLen h))) = Some nodeKey /\
    slice_from_to search (Z.of_nat d) (Z.of_nat d + Z.min (Z.of_nat (length search) - Z.of_nat d) (Z.of_N g_maxPrefixLen)) = Some sl /\
    exists r, g_longestCommonPrefix nodeKey sl 0 = GRet r /\ (r =? 0)%Z = pruned search h d.
Proof.
  intros search h d Hpl Hc. unfold pruned. rewrite Hc. apply andb_prop in Hc. destruct Hc as [H1 H2].
  apply Nat.ltb_lt in H1. apply Nat.ltb_lt in H2.
  set (a := Nat.min maxPrefixLen (xplen h)). set (c := Nat.min (length search - d) maxPrefixLen).
  exists (firstn a (xprefix h)), (firstn c (skipn d search)).
  split. { replace (Z.of_N (N.min g_maxPrefixLen (hdr_prefixLen h))) with (Z.of_nat a) by (unfold hdr_prefixLen; rewrite g_maxPrefixLen_val; lia).
           apply slice_to_nat. lia. }
  split. { replace (Z.min (Z.of_nat (length search) - Z.of_nat d) (Z.of_N g_maxPrefixLen)) with (Z.of_nat c) by (rewrite g_maxPrefixLen_val; lia).
           apply slice_from_to_nat. lia. }
  exists (Z.of_nat (longestCommonPrefix (firstn a (xprefix h)) (firstn c (skipn d search)) 0)).
  split; [exact (gen_longestCommonPrefix_eq _ _ 0%nat)|].
  unfold longestCommonPrefix. cbn [skipn]. rewrite Nat.sub_0_r, !firstn_length, skipn_length.
  replace (Nat.min (Nat.min a (length (xprefix h))) (Nat.min c (length search - d))) with (Nat.min a c) by lia.
  rewrite lcpn_firstn by lia. unfold pl_cap. cbn [xabs_hdr prefixLen]. fold a.
  match goal with |- (Z.of_nat ?x =? 0)%Z = (?y =? 0)%nat => change y with x; destruct (Nat.eqb_spec x 0); destruct (Z.eqb_spec (Z.of_nat x) 0); try reflexivity; lia end.
Qed.

Ltac range_finish Hpl :=
  rewrite map_map; unfold mkent;
  match goal with |- context [hdr_prefixLen ?h] =>
    match goal with |- context [(Z.of_nat ?d + Z.of_N (hdr_prefixLen h) + 1)%Z] =>
      match goal with |- context [Z.of_nat (length ?search)] =>
        replace (Z.of_nat d + Z.of_N (hdr_prefixLen h) + 1)%Z with (Z.of_nat (d + xplen h + 1)) by (unfold hdr_prefixLen; lia);
        replace ((0 <? hdr_prefixLen h) && (Z.of_nat d <? Z.of_nat (length search))%Z)
          with ((0 <? xplen h)%nat && (d <? length search)%nat)
          by (unfold hdr_prefixLen; destruct (Nat.ltb_spec 0 (xplen h)); destruct (N.ltb_spec 0 (N.of_nat (xplen h)));
              destruct (Nat.ltb_spec d (length search)); destruct (Z.ltb_spec (Z.of_nat d) (Z.of_nat (length search)));
              try reflexivity; lia);
        let Ec := fresh "Ec" in
        destruct ((0 <? xplen h)%nat && (d <? length search)%nat) eqn:Ec;
        [ let nk := fresh "nk" in let sl := fresh "sl" in let r := fresh "r" in
          let E1 := fresh "E1" in let E2 := fresh "E2" in let E3 := fresh "E3" in let E4 := fresh "E4" in
          destruct (prune_test search h d Hpl Ec) as (nk & sl & E1 & E2 & r & E3 & E4);
          rewrite E1, E2, E3, E4; destruct (pruned search h d); reflexivity
        | unfold pruned; rewrite Ec; reflexivity ]
      end end end.

Lemma range_inner : forall fuel gs ge search ans n d q i acc, xwf n ->
  g_rangeScan_loop1 (S fuel) gs ge search ans (q ++ [(Some (XInner n), Z.of_nat d)]) i acc =
  g_rangeScan_loop1 fuel gs ge search ans
    (if pruned search (xh n) d then q
     else q ++ rev (map (fun c => (Some c, Z.of_nat (d + xplen (xh n) + 1))) (xkids n))) i acc.
Proof.
  intros fuel gs ge search ans n d q i acc Hx. pose proof (xwf_prefix_len n Hx) as Hpl.
  cbn [g_rangeScan_loop1]. rewrite len_nonzero, !idx_entries_last, slice_to_last. cbn [fst snd ref_node].
  fwd_inner Hx range_down4 range_down16 range_down48 range_down256; cbn [xh] in Hpl; range_finish Hpl.
Qed.

Definition ent (e : xtree * nat) : option xtree * Z := (Some (fst e), Z.of_nat (snd e)).
Definition ment (e : xtree * nat) : tree * nat := (tabs (fst e), snd e).

Lemma cmp_lt : forall a b, (bytes_compare a b <? 0)%Z = match lex_cmp a b with Lt => true | _ => false end.
Proof. intros a b. unfold bytes_compare. destruct (lex_cmp a b); reflexivity. Qed.
Lemma cmp_gt : forall a b, (0 <? bytes_compare a b)%Z = match lex_cmp a b with Gt => true | _ => false end.
Proof. intros a b. unfold bytes_compare. destruct (lex_cmp a b); reflexivity. Qed.

(* rangeScan(): stack entries carry their depth; gs ge = start end (compared with getKey()), search = the common
   prefix of the two transformed bounds *)
Theorem gen_rangeScan_loop_eq : forall fuel gs ge search xs ans i acc, Forall (fun e => xtwf (fst e)) xs ->
  ires_abs (g_rangeScan_loop1 fuel gs ge search ans (map ent (rev xs)) i acc) =
  Some (walk (range_leaf_act gs ge) (expand_range search) fuel (map ment xs) ans i (map tabs acc)).
Proof.
  induction fuel as [|fuel IH]; intros gs ge search xs ans i acc HF; [reflexivity|].
  destruct xs as [|[x d] xs]; [reflexivity|].
  apply Forall_cons_iff in HF. destruct HF as [Hx HF]. cbn [fst] in Hx.
  cbn [rev]. rewrite map_app. cbn [map]. unfold ent at 2. cbn [fst snd].
  destruct x as [gk tk v|n].
  - cbn [g_rangeScan_loop1]. rewrite len_nonzero, !idx_entries_last, slice_to_last. cbn [fst snd].
    cbn [ref_tag gkind_eqb ref_pointer cast_leaf xleaf_gk]. cbv zeta. rewrite cmp_lt, cmp_gt.
    cbn [map ment fst snd tabs walk]. unfold range_leaf_act. cbn [leaf_gk].
    destruct (lex_cmp gk gs); [| exact (IH gs ge search xs ans i acc HF) |];
      (destruct (lex_cmp gk ge); [| |reflexivity]);
      (destruct (ans i); cbn [negb]; [exact (IH gs ge search xs ans (S i) (XLeaf gk tk v :: acc) HF)|reflexivity]).
  - destruct (xtwf_inv _ Hx) as [Hxw _]. rewrite (range_inner fuel gs ge search ans n d _ i acc Hxw).
    cbn [map ment fst snd tabs walk]. fold (nabs n). rewrite expand_range_nabs.
    destruct (pruned search (xh n) d).
    + exact (IH gs ge search xs ans i acc HF).
    + set (cd := (d + xplen (xh n) + 1)%nat).
      assert (Eq : map ent (rev xs) ++ rev (map (fun c => (Some c, Z.of_nat cd)) (xkids n)) =
                   map ent (rev (map (fun c => (c, cd)) (xkids n) ++ xs)))
        by (rewrite rev_app_distr, map_app, <- !map_rev, !map_map; reflexivity).
      rewrite Eq, IH.
      * rewrite map_app. unfold with_depth. rewrite !map_map. reflexivity.
      * apply Forall_app. split; [|exact HF]. apply Forall_map. cbn [fst]. apply xkids_xtwf. exact Hx.
Qed.

Theorem gen_rangeScan_eq : forall fuel t gs ge ts te ans, xtwf t ->
  ires_abs (g_rangeScan fuel (Some t) gs ge ts te ans) =
  Some (walk (range_leaf_act gs ge) (expand_range (range_search ts te)) fuel [(tabs t, 0%nat)] ans 0 []).
Proof.
  intros fuel t gs ge ts te ans Hx. unfold g_rangeScan. change 0%Z with (Z.of_nat 0).
  rewrite gen_longestCommonPrefix_eq. cbv zeta. cbn [ref_pointer ref_is_nil app].
  assert (Hle : (longestCommonPrefix ts te 0 <= length ts)%nat).
  { unfold longestCommonPrefix. pose proof (lcpn_le (Nat.min (length ts) (length te) - 0) (skipn 0 ts) (skipn 0 te)). lia. }
  pose proof (gen_rangeScan_loop_eq fuel gs ge (range_search ts te) [(t, 0%nat)] ans 0%nat [] (Forall_cons (t, 0%nat) (Hx : xtwf (fst (t, 0%nat))) (Forall_nil _))) as E.
  cbn [rev map app] in E. unfold ent, ment in E. cbn [fst snd Z.of_nat] in *. unfold range_search in *.
  destruct (Z.eqb_spec (Z.of_nat (longestCommonPrefix ts te 0)) 0) as [E0|E0]; cbn [negb].
  - replace (longestCommonPrefix ts te 0) with 0%nat in * by lia. exact E.
  - rewrite slice_to_nat by exact Hle. exact E.
Qed.
Theorem gen_rangeScan_nil : forall fuel gs ge ts te ans, g_rangeScan fuel None gs ge ts te ans = IDone ByReturn 0 [].
Proof.
  intros fuel gs ge ts te ans. unfold g_rangeScan. change 0%Z with (Z.of_nat 0). rewrite gen_longestCommonPrefix_eq. cbv zeta.
  cbn [ref_pointer ref_is_nil].
  assert (Hle : (longestCommonPrefix ts te 0 <= length ts)%nat).
  { unfold longestCommonPrefix. pose proof (lcpn_le (Nat.min (length ts) (length te) - 0) (skipn 0 ts) (skipn 0 te)). lia. }
  destruct (negb (Z.of_nat (longestCommonPrefix ts te 0) =? Z.of_nat 0)%Z); [rewrite slice_to_nat by exact Hle|]; reflexivity.
Qed.
