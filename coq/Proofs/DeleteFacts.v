(* Deletion at the tree layer: delete_in never runs out of fuel, answers DAbsent
   exactly when the probed getKey form is not stored, and otherwise returns a
   well-formed tree at the same depth whose content is the old content with that
   one leaf removed (through ndel with shrinking, the node4 collapse with its
   merged compressed path, and nreplace on the way back up). *)
From GoArt Require Import Base.Bytes Model.Node4 Model.Node16 Model.Node Model.Tree
  Spec.NodeSpec Spec.TreeSpec Proofs.BytesFacts Proofs.NodeAuxList Proofs.NodeFacts Proofs.TreeBasics.
From Coq Require Import ZifyN ZifyNat ZifyBool.
Ltac Zify.zify_post_hook ::= Z.div_mod_to_equations.
Open Scope N_scope.
Local Opaque maxNode4 maxNode16 maxNode48 shrink16 shrink48 shrink256 maxPrefixLen.

(* ---- list algebra ---- *)
Lemma firstn_le_eq : forall {A} k m (a b : list A), (k <= m)%nat ->
  firstn m a = firstn m b -> firstn k a = firstn k b.
Proof.
  intros A k m a b Hk H.
  assert (E : forall l : list A, firstn k l = firstn k (firstn m l)).
  { intros l. rewrite firstn_firstn. f_equal. lia. }
  rewrite (E a), (E b), H. reflexivity.
Qed.

Lemma firstn_S_nth : forall {A} (l : list A) m x, nth_error l m = Some x ->
  firstn (S m) l = firstn m l ++ [x].
Proof.
  intros A l. induction l as [|y l IH]; intros m x H.
  - destruct m; discriminate.
  - destruct m as [|m]; cbn [nth_error] in H.
    + inversion H; subst. reflexivity.
    + cbn [firstn app]. f_equal. apply IH. exact H.
Qed.

Lemma firstn_skipn_shift : forall {A} (l : list A) d m,
  firstn m (skipn d l) = skipn d (firstn (d + m) l).
Proof.
  intros A l. induction l as [|y l IH]; intros d m.
  - rewrite !firstn_nil, !skipn_nil, firstn_nil. reflexivity.
  - destruct d as [|d]; [reflexivity|]. cbn [skipn Nat.add firstn]. apply IH.
Qed.

Lemma skipn_add : forall {A} (l : list A) a b, skipn a (skipn b l) = skipn (b + a) l.
Proof.
  intros A l. induction l as [|y l IH]; intros a b.
  - rewrite !skipn_nil. reflexivity.
  - destruct b as [|b]; [reflexivity|]. cbn [skipn Nat.add]. apply IH.
Qed.

Lemma nth_error_skipn : forall {A} (l : list A) d m, nth_error (skipn d l) m = nth_error l (d + m).
Proof.
  intros A l. induction l as [|y l IH]; intros d m.
  - rewrite skipn_nil. assert (E : forall k, nth_error (@nil A) k = None) by (intros [|k]; reflexivity).
    rewrite !E. reflexivity.
  - destruct d as [|d]; [reflexivity|]. cbn [skipn Nat.add nth_error]. apply IH.
Qed.

Lemma nth_error_firstn_lt' : forall {A} (l : list A) n j, (j < n)%nat ->
  nth_error (firstn n l) j = nth_error l j.
Proof.
  intros A l. induction l as [|y l IH]; intros n j H.
  - rewrite firstn_nil. reflexivity.
  - destruct n as [|n]; [lia|]. destruct j as [|j]; [reflexivity|]. cbn [firstn nth_error]. apply IH. lia.
Qed.

Lemma lcpn_full : forall m a b, firstn m a = firstn m b ->
  (m <= length a)%nat -> (m <= length b)%nat -> lcpn m a b = m.
Proof.
  induction m as [|m IH]; intros a b H La Lb; [reflexivity|].
  destruct a as [|x a]; [cbn [length] in La; lia|].
  destruct b as [|y b]; [cbn [length] in Lb; lia|].
  cbn [firstn] in H. inversion H; subst. cbn [lcpn]. rewrite N.eqb_refl. f_equal.
  cbn [length] in La, Lb. apply IH; [assumption|lia|lia].
Qed.

(* ---- Go's copy ---- *)
Lemma copy_into_length : forall dst src, length (copy_into dst src) = length dst.
Proof.
  intros dst src. unfold copy_into. rewrite app_length, firstn_length, skipn_length. lia.
Qed.

Lemma copy_into_ge : forall dst src, (length dst <= length src)%nat ->
  copy_into dst src = firstn (length dst) src.
Proof.
  intros dst src H. unfold copy_into. rewrite Nat.min_l by exact H.
  rewrite skipn_all. apply app_nil_r.
Qed.

Lemma copy_into_le : forall dst src, (length src <= length dst)%nat ->
  copy_into dst src = src ++ skipn (length src) dst.
Proof.
  intros dst src H. unfold copy_into. rewrite Nat.min_r by exact H.
  rewrite firstn_all. reflexivity.
Qed.

(* ---- the inline bytes the node4 collapse writes into the surviving inner child ---- *)
Definition merged_prefix (M p0 pc : nat) (P PC : list N) (b0 : N) : list N :=
  let '(pfx, p1) := if (p0 <? M)%nat then (set_at p0 b0 P, S p0) else (P, p0) in
  let '(pfx, p2) :=
    if (p1 <? M)%nat then
      (firstn p1 pfx ++ copy_into (skipn p1 pfx) PC, (p1 + Nat.min pc (M - p1))%nat)
    else (pfx, p1) in
  copy_into PC (firstn (Nat.min M p2) pfx).

Lemma merged_prefix_spec : forall M p0 pc P PC R b0,
  length P = M -> length PC = M -> (p0 + 1 + pc <= length R)%nat ->
  firstn (Nat.min p0 M) P = firstn (Nat.min p0 M) R ->
  firstn (Nat.min pc M) PC = firstn (Nat.min pc M) (skipn (p0 + 1) R) ->
  nth_error R p0 = Some b0 ->
  length (merged_prefix M p0 pc P PC b0) = M /\
  firstn (Nat.min (pc + p0 + 1) M) (merged_prefix M p0 pc P PC b0) =
  firstn (Nat.min (pc + p0 + 1) M) R.
Proof.
  intros M p0 pc P PC R b0 LP LPC LR I1 I2 I3.
  split; [unfold merged_prefix; destruct (p0 <? M)%nat; [destruct (S p0 <? M)%nat|destruct (p0 <? M)%nat];
          rewrite copy_into_length; exact LPC|].
  unfold merged_prefix. destruct (p0 <? M)%nat eqn:E0.
  - apply Nat.ltb_lt in E0. rewrite (Nat.min_l p0 M) in I1 by lia.
    pose proof (firstn_S_nth R p0 b0 I3) as HR.
    assert (Hf : firstn (S p0) (set_at p0 b0 P) = firstn p0 P ++ [b0]).
    { rewrite set_at_app by lia. change (b0 :: skipn (S p0) P) with ([b0] ++ skipn (S p0) P).
      rewrite app_assoc, firstn_app.
      assert (Hl0 : length (firstn p0 P ++ [b0]) = S p0).
      { rewrite app_length, firstn_length. cbn [length]. lia. }
      rewrite Hl0, Nat.sub_diag, firstn_O, app_nil_r. apply firstn_all2. lia. }
    destruct (S p0 <? M)%nat eqn:E1.
    + apply Nat.ltb_lt in E1.
      set (k := Nat.min pc (M - S p0)).
      assert (Hk : (k <= Nat.min pc M)%nat) by (unfold k; lia).
      replace (Nat.min M (S p0 + k)) with (S p0 + k)%nat by (unfold k; lia).
      replace (Nat.min (pc + p0 + 1) M) with (S p0 + k)%nat by (unfold k; lia).
      rewrite Hf.
      rewrite (copy_into_ge (skipn (S p0) (set_at p0 b0 P)) PC)
        by (rewrite skipn_length, length_set_at; lia).
      rewrite skipn_length, length_set_at, LP.
      assert (Hl : length (firstn p0 P ++ [b0]) = S p0).
      { rewrite app_length, firstn_length. cbn [length]. lia. }
      assert (Hpf : firstn (S p0 + k) ((firstn p0 P ++ [b0]) ++ firstn (M - S p0) PC) =
                    (firstn p0 P ++ [b0]) ++ firstn k PC).
      { rewrite <- Hl at 1. rewrite firstn_app_2, firstn_firstn. f_equal. f_equal. unfold k. lia. }
      rewrite Hpf.
      rewrite copy_into_le
        by (rewrite app_length, Hl, firstn_length, LPC; unfold k; lia).
      rewrite firstn_app.
      replace (S p0 + k - length ((firstn p0 P ++ [b0]) ++ firstn k PC))%nat with 0%nat
        by (rewrite app_length, Hl, firstn_length, LPC; unfold k; lia).
      rewrite firstn_O, app_nil_r.
      rewrite firstn_all2 by (rewrite app_length, Hl, firstn_length, LPC; unfold k; lia).
      rewrite <- (firstn_skipn (S p0) R) at 1.
      assert (Hl' : length (firstn (S p0) R) = S p0) by (rewrite firstn_length; lia).
      rewrite <- Hl' at 1. rewrite firstn_app_2. rewrite HR, I1. f_equal.
      replace (p0 + 1)%nat with (S p0) in I2 by lia.
      apply (firstn_le_eq k (Nat.min pc M)); [exact Hk|exact I2].
    + apply Nat.ltb_ge in E1. assert (EM : M = S p0) by lia.
      replace (Nat.min M (S p0)) with M by lia.
      replace (Nat.min (pc + p0 + 1) M) with M by lia.
      rewrite (firstn_all2 (n := M) (set_at p0 b0 P)) by (rewrite length_set_at; lia).
      rewrite copy_into_ge by (rewrite length_set_at; lia).
      rewrite LPC. rewrite firstn_firstn, Nat.min_id.
      rewrite EM, Hf, HR, I1. reflexivity.
  - rewrite E0. apply Nat.ltb_ge in E0.
    rewrite (Nat.min_r p0 M) in I1 by lia.
    replace (Nat.min M p0) with M by lia.
    replace (Nat.min (pc + p0 + 1) M) with M by lia.
    rewrite (firstn_all2 (n := M) P) by lia.
    rewrite copy_into_ge by lia. rewrite LPC, firstn_firstn, Nat.min_id. exact I1.
Qed.

(* ---- the ideal map: membership and removal ---- *)
Lemma mem_gk_true : forall gk cs, mem_gk gk cs = true <-> exists l, In l cs /\ lgk l = gk.
Proof.
  intros gk cs. unfold mem_gk. rewrite existsb_exists.
  split; intros (l & H1 & H2); exists l; (split; [exact H1|]); apply beq_eq; exact H2.
Qed.

Lemma mem_gk_false : forall gk cs, (forall l, In l cs -> lgk l = gk -> False) -> mem_gk gk cs = false.
Proof.
  intros gk cs H. apply not_true_is_false. intros Hm. apply mem_gk_true in Hm.
  destruct Hm as (l & H1 & H2). exact (H l H1 H2).
Qed.

Lemma remove_gk_app : forall gk a b, remove_gk gk (a ++ b) = remove_gk gk a ++ remove_gk gk b.
Proof. intros gk a b. unfold remove_gk. apply filter_app. Qed.

Lemma remove_gk_id : forall gk cs, (forall l, In l cs -> lgk l = gk -> False) -> remove_gk gk cs = cs.
Proof.
  intros gk cs. induction cs as [|x cs IH]; intros H; [reflexivity|].
  unfold remove_gk. cbn [filter]. destruct (beq (lgk x) gk) eqn:E.
  - exfalso. apply (H x); [left; reflexivity|apply beq_eq; exact E].
  - cbn [negb]. f_equal. apply IH. intros l Hl. apply H. right. exact Hl.
Qed.

Lemma remove_gk_in : forall gk cs l, In l (remove_gk gk cs) -> In l cs.
Proof. intros gk cs l H. unfold remove_gk in H. apply filter_In in H. tauto. Qed.

(* ---- association lists split at a key ---- *)
Section Split.
Context {C : Type}.

Lemma sorted_split_notin : forall (l1 l2 : list (N * C)) b c, keys_sorted (l1 ++ (b, c) :: l2) ->
  ~ In b (map fst l1) /\ ~ In b (map fst l2).
Proof.
  intros l1 l2 b c [HS _]. rewrite map_app in HS. cbn [map fst] in HS.
  apply ssorted_app_inv in HS. destruct HS as (_ & H2 & H3). split.
  - intros Hin. specialize (H3 b b Hin (or_introl eq_refl)). lia.
  - apply StronglySorted_inv in H2. destruct H2 as [_ HF]. rewrite Forall_forall in HF.
    intros Hin. specialize (HF b Hin). lia.
Qed.

Lemma rem_key_notin : forall (l : list (N * C)) b, ~ In b (map fst l) -> rem_key b l = l.
Proof.
  induction l as [|[k x] l IH]; intros b H; [reflexivity|]. cbn [rem_key].
  cbn [map fst In] in H. destruct (N.eqb_spec k b) as [E|E]; [tauto|]. f_equal. apply IH. tauto.
Qed.

Lemma rem_key_split : forall (l1 l2 : list (N * C)) b c, ~ In b (map fst l1) ->
  rem_key b (l1 ++ (b, c) :: l2) = l1 ++ l2.
Proof.
  induction l1 as [|[k x] l1 IH]; intros l2 b c H.
  - cbn [app rem_key]. rewrite N.eqb_refl. reflexivity.
  - cbn [app rem_key]. cbn [map fst In] in H. destruct (N.eqb_spec k b) as [E|E]; [tauto|].
    f_equal. apply IH. tauto.
Qed.

Lemma repl_key_split : forall (l1 l2 : list (N * C)) b c c', ~ In b (map fst l1) ->
  repl_key b c' (l1 ++ (b, c) :: l2) = l1 ++ (b, c') :: l2.
Proof.
  induction l1 as [|[k x] l1 IH]; intros l2 b c c' H.
  - cbn [app repl_key]. rewrite N.eqb_refl. reflexivity.
  - cbn [app repl_key]. cbn [map fst In] in H. destruct (N.eqb_spec k b) as [E|E]; [tauto|].
    f_equal. apply IH. tauto.
Qed.
End Split.

(* ---- content of a list of children ---- *)
Lemma leaves_kids : forall n, leaves (Inner n) = kid_leaves (nenum n).
Proof. intros n. apply leaves_inner. Qed.

Lemma kid_leaves_app : forall k1 k2, kid_leaves (k1 ++ k2) = kid_leaves k1 ++ kid_leaves k2.
Proof. intros k1 k2. unfold kid_leaves. apply flat_map_app. Qed.

Lemma kid_leaves_cons : forall b c k, kid_leaves ((b, c) :: k) = leaves c ++ kid_leaves k.
Proof. reflexivity. Qed.

Lemma in_kid_leaves : forall kids l, In l (kid_leaves kids) <->
  exists b c, In (b, c) kids /\ In l (leaves c).
Proof.
  intros kids l. unfold kid_leaves. rewrite in_flat_map. split.
  - intros ([b c] & H1 & H2). exists b, c. split; assumption.
  - intros (b & c & H1 & H2). exists (b, c). split; assumption.
Qed.

(* ---- the descent follows the stored key ---- *)
Lemma descend : forall d n l, WF d (Inner n) -> In l (leaves (Inner n)) ->
  checkPrefix (nhdr n) (ltk l) d = pl_cap (nhdr n) /\
  exists b c, nth_error (ltk l) (d + prefixLen (nhdr n)) = Some b /\ In (b, c) (nenum n) /\
              In l (leaves c).
Proof.
  intros d n l HWF Hl.
  destruct (WF_path _ _ HWF) as (q & Hq & Hall & Hinl).
  pose proof (WF_inner_inv _ _ HWF) as (Hnwf & _ & _ & _).
  pose proof (Hall l Hl) as Hql.
  apply in_leaves_inner in Hl. destruct Hl as (b & c & Hin & Hlc).
  destruct (WF_leaf_long _ _ _ _ _ HWF Hin Hlc) as [Hb Hlong].
  split; [|exists b, c; repeat split; assumption].
  set (p := prefixLen (nhdr n)) in *. set (tk := ltk l) in *.
  unfold checkPrefix, pl_cap. fold p.
  replace (Nat.min (Nat.min maxPrefixLen p) (length tk - d)) with (Nat.min p maxPrefixLen) by lia.
  rewrite (Nat.min_comm maxPrefixLen p).
  destruct Hnwf as [HP _].
  apply lcpn_full; [|lia|rewrite skipn_length; lia].
  rewrite Hinl. subst q. rewrite <- firstn_skipn_shift, firstn_firstn. f_equal. lia.
Qed.

(* ---- rebuilding WF ---- *)
(* WF of an inner node without the "at least two children" clause *)
Definition WFk (d : nat) (n : rnode tree) : Prop :=
  nwf n /\
  (exists q, length q = (d + prefixLen (nhdr n))%nat /\
     Forall (fun l => firstn (d + prefixLen (nhdr n)) (ltk l) = q) (leaves (Inner n)) /\
     firstn (Nat.min (prefixLen (nhdr n)) maxPrefixLen) (prefix (nhdr n)) =
     firstn (Nat.min (prefixLen (nhdr n)) maxPrefixLen) (skipn d q)) /\
  Forall (fun bc => WF (d + prefixLen (nhdr n) + 1) (snd bc) /\
                    Forall (fun l => nth_error (ltk l) (d + prefixLen (nhdr n)) = Some (fst bc))
                           (leaves (snd bc))) (nenum n).

Lemma WFk_WF : forall d n, WFk d n -> (2 <= length (nenum n))%nat -> WF d (Inner n).
Proof. intros d n (H1 & H2 & H3) H. apply WF_inner; assumption. Qed.

(* same header, children among well-formed ones, content a subset *)
Lemma WFk_sub : forall d n n', WF d (Inner n) -> nwf n' -> nhdr n' = nhdr n ->
  (forall l, In l (leaves (Inner n')) -> In l (leaves (Inner n))) ->
  (forall b c, In (b, c) (nenum n') ->
     WF (d + prefixLen (nhdr n) + 1) c /\
     Forall (fun l => nth_error (ltk l) (d + prefixLen (nhdr n)) = Some b) (leaves c)) ->
  WFk d n'.
Proof.
  intros d n n' HWF Hnwf' Hh Hsub Hkids.
  destruct (WF_path _ _ HWF) as (q & Hq & Hall & Hinl).
  unfold WFk. rewrite Hh. split; [exact Hnwf'|]. split.
  - exists q. split; [exact Hq|]. split; [|exact Hinl].
    apply Forall_forall. intros l Hl. apply Hall. apply Hsub. exact Hl.
  - apply Forall_forall. intros [b c] Hin. cbn [fst snd]. apply Hkids. exact Hin.
Qed.

Lemma inline_of_leaf : forall d pl m (tk : list N), (m <= pl)%nat ->
  firstn m (skipn d (firstn (d + pl) tk)) = firstn m (skipn d tk).
Proof.
  intros d pl m tk H. rewrite <- firstn_skipn_shift, firstn_firstn. f_equal. lia.
Qed.

(* a well-formed inner node under a new header describing the same leaves from a
   shallower depth *)
Lemma WF_set_hdr : forall d d' cn h2, WF d' (Inner cn) ->
  length (prefix h2) = maxPrefixLen ->
  (d + prefixLen h2 = d' + prefixLen (nhdr cn))%nat ->
  (forall l, In l (leaves (Inner cn)) ->
     firstn (Nat.min (prefixLen h2) maxPrefixLen) (prefix h2) =
     firstn (Nat.min (prefixLen h2) maxPrefixLen) (skipn d (ltk l))) ->
  WF d (Inner (nset_hdr cn h2)) /\ leaves (Inner (nset_hdr cn h2)) = leaves (Inner cn).
Proof.
  intros d d' cn h2 HWF Hlen E Hinl.
  pose proof (WF_inner_inv _ _ HWF) as (Hnwf & Hlen2 & _ & Hkids).
  destruct (WF_path _ _ HWF) as (q & Hq & Hall & _).
  destruct (nset_hdr_spec cn h2 Hnwf Hlen) as (Hnwf2 & En2 & Hh2).
  assert (HL : leaves (Inner (nset_hdr cn h2)) = leaves (Inner cn)).
  { rewrite !leaves_inner, En2. reflexivity. }
  split; [|exact HL].
  apply WF_inner; rewrite ?Hh2, ?En2, ?HL, ?E.
  - exact Hnwf2.
  - exact Hlen2.
  - exists q. split; [exact Hq|]. split.
    + apply Forall_forall. exact Hall.
    + pose proof (WF_nonempty _ _ HWF) as Hne.
      destruct (leaves (Inner cn)) as [|l0 ls] eqn:EL; [congruence|].
      rewrite (Hinl l0 (or_introl eq_refl)).
      rewrite <- (Hall l0 (or_introl eq_refl)), <- E.
      symmetry. apply inline_of_leaf. lia.
  - exact Hkids.
Qed.

(* ---- size classes: a node that is not a node4 has at least three children ---- *)
Lemma nbig_three : forall (n : rnode tree), nwf n -> nkind n <> 4 -> (3 <= length (nenum n))%nat.
Proof.
  pose proof params_hold as P; unfold params_ok in P.
  destruct P as (Pm4 & Pm16 & Pm48 & Ps16lo & Ps16m4 & Ps16s48 & Ps48m16 & Pm4m16 & Pm16m48 &
                 Ps48s256 & Ps256m48 & Ps256 & Ppl).
  intros [h len keys ch|h len keys ch|h len idx slots|h len slots] Hwf Hk; cbn [nkind] in Hk.
  - congruence.
  - destruct Hwf as (_ & Hlk & _ & Hl & Hlo & Hm & _). cbn [nenum].
    rewrite combine_length, firstn_length. lia.
  - destruct Hwf as (_ & _ & _ & _ & _ & _ & Hl & Hlo & _). cbn [nenum]. lia.
  - destruct Hwf as (_ & _ & _ & Hlo). cbn [nenum]. lia.
Qed.

(* ---- the node4 collapse ---- *)
Lemma collapse_inner_eq : forall h keys cn ch',
  collapse (N4 h 1 keys (Inner cn :: ch')) =
  Inner (nset_hdr cn (mkHdr (prefixLen (nhdr cn) + prefixLen h + 1)
    (merged_prefix maxPrefixLen (prefixLen h) (prefixLen (nhdr cn)) (prefix h) (prefix (nhdr cn))
                   (getAtPos keys 0)))).
Proof.
  intros h keys cn ch'. cbn [collapse]. change (1 =? 1) with true. cbn iota. unfold merged_prefix.
  destruct (prefixLen h <? maxPrefixLen)%nat eqn:E0; cbv beta iota.
  - destruct (S (prefixLen h) <? maxPrefixLen)%nat; reflexivity.
  - rewrite E0. reflexivity.
Qed.

Lemma collapse_spec : forall d h len keys ch, WFk d (N4 h len keys ch) ->
  (1 <= length (nenum (N4 h len keys ch)))%nat ->
  WF d (collapse (N4 h len keys ch)) /\
  leaves (collapse (N4 h len keys ch)) = leaves (Inner (N4 h len keys ch)).
Proof.
  intros d h len keys ch HK Hlen.
  pose proof HK as (Hnwf & (q & Hq & Hall & Hinl) & Hkids).
  cbn [nhdr] in Hq, Hall, Hinl, Hkids.
  destruct (nenum (N4 h len keys ch)) as [|[b0 c0] rest] eqn:En; [cbn [length] in Hlen; lia|].
  destruct (n4_first _ _ _ _ _ _ _ Hnwf En) as (Hb0 & Hc0 & Hrest).
  destruct (len =? 1) eqn:El.
  2: { assert (Hc : collapse (N4 h len keys ch) = Inner (N4 h len keys ch))
         by (cbn [collapse]; rewrite El; reflexivity).
       rewrite Hc. split; [|reflexivity]. apply WFk_WF; [exact HK|]. rewrite En.
       destruct rest; [|cbn [length]; lia]. exfalso. apply N.eqb_neq in El. apply El.
       apply Hrest. reflexivity. }
  apply N.eqb_eq in El. pose proof (proj2 Hrest El) as ->. subst len. clear Hrest.
  destruct ch as [|c0' ch']; [discriminate|]. cbn [nth_error] in Hc0. inversion Hc0; subst c0'. clear Hc0.
  apply Forall_inv in Hkids. cbn [fst snd] in Hkids. destruct Hkids as [HWFc Hbr].
  assert (HL : leaves (Inner (N4 h 1 keys (c0 :: ch'))) = leaves c0)
    by (rewrite leaves_inner, En; cbn [flat_map snd]; apply app_nil_r).
  rewrite HL in Hall |- *.
  destruct c0 as [g t v|cn].
  - cbn [collapse]. change (1 =? 1) with true. cbn iota. split; [|reflexivity].
    inversion HWFc; subst. apply WF_leaf. assumption.
  - rewrite collapse_inner_eq.
    destruct (WF_path _ _ HWFc) as (q' & Hq' & Hall' & Hinl').
    pose proof (WF_inner_inv _ _ HWFc) as (Hnwfc & _).
    pose proof Hnwf as [LP _]. pose proof Hnwfc as [LPC _]. cbn [nhdr] in LP.
    rewrite Forall_forall in Hall, Hbr.
    set (p0 := prefixLen h) in *. set (pc := prefixLen (nhdr cn)) in *.
    set (mp := merged_prefix maxPrefixLen p0 pc (prefix h) (prefix (nhdr cn)) (getAtPos keys 0)).
    assert (Hm : forall l, In l (leaves (Inner cn)) ->
              length mp = maxPrefixLen /\
              firstn (Nat.min (pc + p0 + 1) maxPrefixLen) mp =
              firstn (Nat.min (pc + p0 + 1) maxPrefixLen) (skipn d (ltk l))).
    { intros l Hl.
      pose proof (Hall l Hl) as A1. pose proof (Hall' l Hl) as A2. pose proof (Hbr l Hl) as A3.
      assert (A4 : (d + p0 + 1 + pc <= length (ltk l))%nat).
      { rewrite <- A2 in Hq'. rewrite firstn_length in Hq'. lia. }
      unfold mp. apply merged_prefix_spec.
      - exact LP.
      - exact LPC.
      - rewrite skipn_length. lia.
      - rewrite Hinl, <- A1. apply inline_of_leaf. lia.
      - rewrite Hinl', <- A2. rewrite skipn_add.
        replace (d + (p0 + 1))%nat with (d + p0 + 1)%nat by lia. apply inline_of_leaf. lia.
      - rewrite nth_error_skipn, Hb0. exact A3. }
    pose proof (WF_nonempty _ _ HWFc) as Hne.
    assert (Hlm : length mp = maxPrefixLen).
    { destruct (leaves (Inner cn)) as [|l0 ls] eqn:EL; [congruence|]. apply (Hm l0). left. reflexivity. }
    apply (WF_set_hdr d (d + p0 + 1)).
    + exact HWFc.
    + exact Hlm.
    + cbn [prefixLen]. fold pc. lia.
    + intros l Hl. cbn [prefixLen prefix]. apply (Hm l Hl).
Qed.

Lemma del_child_spec : forall d (n : rnode tree) b,
  WFk d (ndel n b) -> (1 <= length (nenum (ndel n b)))%nat ->
  (nkind n <> 4 -> (2 <= length (nenum (ndel n b)))%nat) ->
  WF d (del_child n b) /\ leaves (del_child n b) = leaves (Inner (ndel n b)).
Proof.
  intros d [h len keys ch|h len keys ch|h len idx slots|h len slots] b HK H1 H2.
  - cbn [del_child].
    assert (E : exists h' len' keys' ch', ndel (N4 h len keys ch) b = N4 h' len' keys' ch').
    { cbn [ndel]. destruct (searchNode4 keys b =? -1)%Z; eauto. }
    destruct E as (h' & len' & keys' & ch' & E). rewrite E in *. apply collapse_spec; assumption.
  - cbn [del_child]. split; [|reflexivity]. apply WFk_WF; [exact HK|]. apply H2. cbn [nkind]. lia.
  - cbn [del_child]. split; [|reflexivity]. apply WFk_WF; [exact HK|]. apply H2. cbn [nkind]. lia.
  - cbn [del_child]. split; [|reflexivity]. apply WFk_WF; [exact HK|]. apply H2. cbn [nkind]. lia.
Qed.

(* ---- where a stored copy of the probe can sit ---- *)
Section Probe.
Variables (d : nat) (n : rnode tree) (gk tk : list N) (b : N).
Hypothesis HWF : WF d (Inner n).
Hypothesis Hcompat : forall l, In l (leaves (Inner n)) -> lgk l = gk -> ltk l = tk.
Hypothesis Hb : nth_error tk (d + prefixLen (nhdr n)) = Some b.

Lemma probe_block : forall b1 c1 l, In (b1, c1) (nenum n) -> In l (leaves c1) -> lgk l = gk -> b1 = b.
Proof.
  intros b1 c1 l Hin Hl Hg.
  assert (Hl' : In l (leaves (Inner n))) by (apply in_leaves_inner; exists b1, c1; split; assumption).
  destruct (WF_leaf_long _ _ _ _ _ HWF Hin Hl) as [Hb1 _].
  rewrite (Hcompat l Hl' Hg) in Hb1. congruence.
Qed.

Lemma probe_outside : forall kids, (forall b1 c1, In (b1, c1) kids -> In (b1, c1) (nenum n)) ->
  ~ In b (map fst kids) -> forall l, In l (kid_leaves kids) -> lgk l = gk -> False.
Proof.
  intros kids Hsub Hnot l Hl Hg. apply in_kid_leaves in Hl. destruct Hl as (b1 & c1 & Hin & Hl).
  pose proof (probe_block b1 c1 l (Hsub _ _ Hin) Hl Hg) as ->.
  apply Hnot. apply (in_map fst) in Hin. exact Hin.
Qed.

Lemma delete_leaf : forall tk0 v, b < 256 -> In (b, Leaf gk tk0 v) (nenum n) ->
  WF d (del_child n b) /\ leaves (del_child n b) = remove_gk gk (leaves (Inner n)).
Proof.
  intros tk0 v Hb256 Hin.
  pose proof (WF_inner_inv _ _ HWF) as (Hnwf & Hlen2 & _ & _).
  pose proof (nenum_sorted n Hnwf) as Hks.
  pose proof (in_assoc _ _ _ Hks Hin) as Ha.
  destruct (in_split _ _ Hin) as (l1 & l2 & En).
  rewrite En in Hks. destruct (sorted_split_notin _ _ _ _ Hks) as [Hn1 Hn2].
  destruct (ndel_spec n b Hnwf Hb256) as (Hnwf' & En' & Hh'); [congruence|].
  rewrite En, rem_key_split in En' by exact Hn1.
  assert (Hs1 : forall b1 c1, In (b1, c1) l1 -> In (b1, c1) (nenum n)).
  { intros b1 c1 H. rewrite En. apply in_or_app. left. exact H. }
  assert (Hs2 : forall b1 c1, In (b1, c1) l2 -> In (b1, c1) (nenum n)).
  { intros b1 c1 H. rewrite En. apply in_or_app. right. right. exact H. }
  assert (HL : leaves (Inner (ndel n b)) = remove_gk gk (leaves (Inner n))).
  { rewrite !leaves_kids, En', En, !kid_leaves_app, kid_leaves_cons, leaves_leaf, !remove_gk_app.
    rewrite (remove_gk_id gk (kid_leaves l1)) by (apply probe_outside; assumption).
    rewrite (remove_gk_id gk (kid_leaves l2)) by (apply probe_outside; assumption).
    unfold remove_gk at 1. cbn [filter lgk fst]. rewrite beq_refl. reflexivity. }
  assert (HK : WFk d (ndel n b)).
  { apply (WFk_sub d n); [exact HWF|exact Hnwf'|exact Hh'| |].
    - intros l Hl. rewrite HL in Hl. apply remove_gk_in in Hl. exact Hl.
    - intros b1 c1 H. apply (WF_child _ _ _ _ HWF). rewrite En' in H.
      apply in_app_or in H. destruct H as [H|H]; [apply Hs1|apply Hs2]; exact H. }
  assert (Hlens : length (nenum n) = S (length (nenum (ndel n b)))).
  { rewrite En, En', !app_length. cbn [length]. lia. }
  rewrite <- HL. apply del_child_spec; [exact HK|lia|].
  intros Hk. pose proof (nbig_three n Hnwf Hk). lia.
Qed.

Lemma delete_replace : forall c c', b < 256 -> In (b, c) (nenum n) ->
  WF (d + prefixLen (nhdr n) + 1) c' -> leaves c' = remove_gk gk (leaves c) ->
  WF d (Inner (nreplace n b c')) /\
  leaves (Inner (nreplace n b c')) = remove_gk gk (leaves (Inner n)).
Proof.
  intros c c' Hb256 Hin HWFc' HLc'.
  pose proof (WF_inner_inv _ _ HWF) as (Hnwf & Hlen2 & _ & _).
  pose proof (nenum_sorted n Hnwf) as Hks.
  pose proof (in_assoc _ _ _ Hks Hin) as Ha.
  destruct (in_split _ _ Hin) as (l1 & l2 & En).
  rewrite En in Hks. destruct (sorted_split_notin _ _ _ _ Hks) as [Hn1 Hn2].
  destruct (nreplace_spec n b c' Hnwf Hb256) as (Hnwf' & En' & Hh' & _); [congruence|].
  rewrite En, repl_key_split in En' by exact Hn1.
  assert (Hs1 : forall b1 c1, In (b1, c1) l1 -> In (b1, c1) (nenum n)).
  { intros b1 c1 H. rewrite En. apply in_or_app. left. exact H. }
  assert (Hs2 : forall b1 c1, In (b1, c1) l2 -> In (b1, c1) (nenum n)).
  { intros b1 c1 H. rewrite En. apply in_or_app. right. right. exact H. }
  assert (HL : leaves (Inner (nreplace n b c')) = remove_gk gk (leaves (Inner n))).
  { rewrite !leaves_kids, En', En, !kid_leaves_app, !kid_leaves_cons, !remove_gk_app.
    rewrite (remove_gk_id gk (kid_leaves l1)) by (apply probe_outside; assumption).
    rewrite (remove_gk_id gk (kid_leaves l2)) by (apply probe_outside; assumption).
    rewrite HLc'. reflexivity. }
  split; [|exact HL].
  apply WFk_WF.
  - apply (WFk_sub d n); [exact HWF|exact Hnwf'|exact Hh'| |].
    + intros l Hl. rewrite HL in Hl. apply remove_gk_in in Hl. exact Hl.
    + intros b1 c1 H. rewrite En' in H. apply in_app_or in H.
      destruct H as [H|[H|H]].
      * apply (WF_child _ _ _ _ HWF). apply Hs1. exact H.
      * inversion H; subst b1 c1. split; [exact HWFc'|].
        destruct (WF_child _ _ _ _ HWF Hin) as [_ HF]. rewrite Forall_forall in HF.
        apply Forall_forall. intros l Hl. apply HF. rewrite HLc' in Hl.
        apply remove_gk_in in Hl. exact Hl.
      * apply (WF_child _ _ _ _ HWF). apply Hs2. exact H.
  - rewrite En'. rewrite En in Hlen2. rewrite app_length in *. cbn [length] in *. lia.
Qed.
End Probe.

(* ---- the deletion theorem ---- *)
Theorem delete_gen : forall fuel n gk tk d,
  WF d (Inner n) -> isbytes tk = true ->
  (forall l, In l (leaves (Inner n)) -> lgk l = gk -> ltk l = tk) ->
  (d <= length tk)%nat -> (length tk + 2 <= fuel + d)%nat ->
  match delete_in fuel (Inner n) gk tk d with
  | DFuel => False
  | DAbsent => mem_gk gk (leaves (Inner n)) = false
  | DDone t' => mem_gk gk (leaves (Inner n)) = true /\ WF d t' /\
                leaves t' = remove_gk gk (leaves (Inner n))
  end.
Proof.
  induction fuel as [|f IH]; intros n gk tk d HWF Htk Hcompat Hd Hfuel; [lia|].
  pose proof (WF_inner_inv _ _ HWF) as (Hnwf & _ & _ & _).
  pose proof (nenum_sorted n Hnwf) as Hks.
  (* what a stored copy of the probe forces on the descent *)
  assert (Hdesc : forall l, In l (leaves (Inner n)) -> lgk l = gk ->
            checkPrefix (nhdr n) tk d = pl_cap (nhdr n) /\
            exists b c, nth_error tk (d + prefixLen (nhdr n)) = Some b /\ In (b, c) (nenum n) /\
                        In l (leaves c)).
  { intros l Hl Hg. rewrite <- (Hcompat l Hl Hg). apply descend; assumption. }
  cbn [delete_in].
  destruct (negb (prefixLen (nhdr n) =? 0)%nat &&
            negb (checkPrefix (nhdr n) tk d =? pl_cap (nhdr n))%nat) eqn:Echk.
  { apply mem_gk_false. intros l Hl Hg. destruct (Hdesc l Hl Hg) as [Hc _].
    rewrite Hc, Nat.eqb_refl, andb_false_r in Echk. discriminate. }
  destruct (nth_error tk (d + prefixLen (nhdr n))) as [b|] eqn:Eb.
  2: { apply mem_gk_false. intros l Hl Hg. destruct (Hdesc l Hl Hg) as [_ (b & c & H & _)]. discriminate. }
  assert (Hb256 : b < 256).
  { apply nth_error_In in Eb. apply (proj1 (isbytes_forall tk) Htk). exact Eb. }
  rewrite (nfind_spec n b Hnwf Hb256).
  destruct (assoc b (nenum n)) as [c|] eqn:Ea.
  2: { apply mem_gk_false. intros l Hl Hg. destruct (Hdesc l Hl Hg) as [_ (b' & c & H & Hin & _)].
       inversion H; subst b'. rewrite (in_assoc _ _ _ Hks Hin) in Ea. discriminate. }
  pose proof (assoc_in _ _ _ Ea) as Hin.
  assert (Hloc : forall l, In l (leaves (Inner n)) -> lgk l = gk -> In l (leaves c)).
  { intros l Hl Hg. destruct (Hdesc l Hl Hg) as [_ (b' & c' & H & Hin' & Hlc)].
    inversion H; subst b'. pose proof (in_assoc _ _ _ Hks Hin') as Ha'. congruence. }
  destruct c as [g0 t0 v0|cn].
  - destruct (beq g0 gk) eqn:Eg.
    + apply beq_eq in Eg. subst g0. split.
      * apply mem_gk_true. exists (gk, t0, v0). split; [|reflexivity].
        apply in_leaves_inner. exists b, (Leaf gk t0 v0). split; [exact Hin|].
        rewrite leaves_leaf. left. reflexivity.
      * apply (delete_leaf d n gk tk b HWF Hcompat Eb t0 v0 Hb256 Hin).
    + apply mem_gk_false. intros l Hl Hg. pose proof (Hloc l Hl Hg) as Hlc.
      rewrite leaves_leaf in Hlc. destruct Hlc as [<-|[]]. cbn [lgk fst] in Hg.
      subst g0. rewrite beq_refl in Eg. discriminate.
  - destruct (WF_child _ _ _ _ HWF Hin) as [HWFc _].
    replace (d + prefixLen (nhdr n) + 1)%nat with (S (d + prefixLen (nhdr n))) in HWFc by lia.
    assert (Hlt : (d + prefixLen (nhdr n) < length tk)%nat) by (apply nth_error_Some; congruence).
    assert (Hcompat' : forall l, In l (leaves (Inner cn)) -> lgk l = gk -> ltk l = tk).
    { intros l Hl. apply Hcompat. apply in_leaves_inner. exists b, (Inner cn). split; assumption. }
    specialize (IH cn gk tk (S (d + prefixLen (nhdr n))) HWFc Htk Hcompat').
    destruct (delete_in f (Inner cn) gk tk (S (d + prefixLen (nhdr n)))) as [c'| |].
    + destruct IH as (Hm & HWFc' & HLc'); [lia|lia|].
      split.
      * apply mem_gk_true in Hm. destruct Hm as (l & Hl & Hg). apply mem_gk_true. exists l.
        split; [|exact Hg]. apply in_leaves_inner. exists b, (Inner cn). split; assumption.
      * apply (delete_replace d n gk tk b HWF Hcompat Eb (Inner cn) c' Hb256 Hin); [|exact HLc'].
        replace (d + prefixLen (nhdr n) + 1)%nat with (S (d + prefixLen (nhdr n))) by lia. exact HWFc'.
    + apply mem_gk_false. intros l Hl Hg. pose proof (Hloc l Hl Hg) as Hlc.
      assert (Hm : mem_gk gk (leaves (Inner cn)) = true) by (apply mem_gk_true; exists l; split; assumption).
      rewrite IH in Hm by lia. discriminate.
    + apply IH; lia.
Qed.

Corollary delete_spec : forall n gk tk,
  WF 0 (Inner n) -> isbytes tk = true ->
  (forall l, In l (leaves (Inner n)) -> lgk l = gk -> ltk l = tk) ->
  match delete_in (S (S (length tk))) (Inner n) gk tk 0 with
  | DFuel => False
  | DAbsent => mem_gk gk (leaves (Inner n)) = false
  | DDone t' => mem_gk gk (leaves (Inner n)) = true /\ WF 0 t' /\
                leaves t' = remove_gk gk (leaves (Inner n))
  end.
Proof. intros n gk tk HWF Htk Hc. apply delete_gen; try assumption; lia. Qed.
