(* Facts about byte strings: lexicographic order (bytes.Compare), equality,
   prefixes, longest common prefix. Used by KeysFacts.v and the tree proofs. *)
From GoArt Require Import Base.Bytes.
From Coq Require Import ZifyN ZifyNat ZifyBool.
Open Scope N_scope.

(* ------------------------------------------------------------------ *)
(* lex_cmp                                                             *)
(* ------------------------------------------------------------------ *)

Lemma lex_cmp_refl : forall a, lex_cmp a a = Eq.
Proof.
  induction a as [|x a IH]; simpl; auto.
  rewrite N.compare_refl. exact IH.
Qed.

Lemma lex_cmp_eq : forall a b, lex_cmp a b = Eq <-> a = b.
Proof.
  intros a b. split.
  - revert b. induction a as [|x a IH]; destruct b as [|y b]; simpl; intros H;
      try discriminate; auto.
    destruct (N.compare_spec x y) as [E|E|E]; try discriminate.
    subst y. f_equal. apply IH. exact H.
  - intros ->. apply lex_cmp_refl.
Qed.

Lemma lex_cmp_antisym : forall a b, lex_cmp b a = CompOpp (lex_cmp a b).
Proof.
  induction a as [|x a IH]; destruct b as [|y b]; simpl; auto.
  rewrite (N.compare_antisym x y).
  destruct (x ?= y); simpl; auto.
Qed.

Lemma lex_cmp_nil_l : forall b, lex_cmp [] b = Eq \/ lex_cmp [] b = Lt.
Proof. destruct b; simpl; auto. Qed.

Lemma lex_cmp_nil_r : forall a, lex_cmp a [] = Eq \/ lex_cmp a [] = Gt.
Proof. destruct a; simpl; auto. Qed.

Lemma lex_cmp_cons : forall x y a b,
  lex_cmp (x :: a) (y :: b) =
  match x ?= y with Eq => lex_cmp a b | c => c end.
Proof. reflexivity. Qed.

Lemma lex_cmp_cons_eq : forall x a b, lex_cmp (x :: a) (x :: b) = lex_cmp a b.
Proof. intros. simpl. rewrite N.compare_refl. reflexivity. Qed.

Lemma lex_cmp_app : forall p a b, lex_cmp (p ++ a) (p ++ b) = lex_cmp a b.
Proof.
  induction p as [|x p IH]; intros a b; simpl; auto.
  rewrite N.compare_refl. apply IH.
Qed.

Lemma lex_cmp_Gt_Lt : forall a b, lex_cmp a b = Gt <-> lex_cmp b a = Lt.
Proof.
  intros a b. rewrite (lex_cmp_antisym a b).
  destruct (lex_cmp a b); simpl; split; intros H; try discriminate; auto.
Qed.

(* ------------------------------------------------------------------ *)
(* lex_lt                                                              *)
(* ------------------------------------------------------------------ *)

Lemma lex_lt_nil_l : forall b, lex_lt [] b <-> b <> [].
Proof.
  unfold lex_lt. destruct b; simpl; split; intros H; try discriminate; auto.
  congruence.
Qed.

Lemma lex_lt_nil_r : forall a, ~ lex_lt a [].
Proof. unfold lex_lt. destruct a; simpl; discriminate. Qed.

Lemma lex_lt_cons : forall x y a b,
  lex_lt (x :: a) (y :: b) <-> x < y \/ (x = y /\ lex_lt a b).
Proof.
  intros x y a b. unfold lex_lt. simpl.
  destruct (N.compare_spec x y) as [E|E|E]; split; intros H.
  - right. auto.
  - destruct H as [H|[_ H]]; auto. lia.
  - left. exact E.
  - reflexivity.
  - discriminate.
  - destruct H as [H|[H _]]; lia.
Qed.

Lemma lex_lt_irrefl : forall a, ~ lex_lt a a.
Proof. intros a H. unfold lex_lt in H. rewrite lex_cmp_refl in H. discriminate. Qed.

Lemma lex_lt_trans : forall a b c, lex_lt a b -> lex_lt b c -> lex_lt a c.
Proof.
  induction a as [|x a IH]; intros b c Hab Hbc.
  - destruct c as [|z c].
    + exfalso. eapply lex_lt_nil_r. exact Hbc.
    + reflexivity.
  - destruct b as [|y b]; [exfalso; eapply lex_lt_nil_r; exact Hab|].
    destruct c as [|z c]; [exfalso; eapply lex_lt_nil_r; exact Hbc|].
    apply lex_lt_cons in Hab. apply lex_lt_cons in Hbc. apply lex_lt_cons.
    destruct Hab as [Hab|[-> Hab]]; destruct Hbc as [Hbc|[-> Hbc]].
    + left. lia.
    + left. exact Hab.
    + left. exact Hbc.
    + right. split; auto. eapply IH; eauto.
Qed.

Lemma lex_lt_asym : forall a b, lex_lt a b -> ~ lex_lt b a.
Proof.
  intros a b H1 H2. apply (lex_lt_irrefl a). eapply lex_lt_trans; eauto.
Qed.

Lemma lex_lt_total : forall a b, lex_lt a b \/ a = b \/ lex_lt b a.
Proof.
  intros a b. unfold lex_lt.
  destruct (lex_cmp a b) eqn:E.
  - right. left. apply lex_cmp_eq. exact E.
  - left. reflexivity.
  - right. right. apply lex_cmp_Gt_Lt. exact E.
Qed.

Lemma lex_lt_neq : forall a b, lex_lt a b -> a <> b.
Proof. intros a b H ->. exact (lex_lt_irrefl b H). Qed.

Lemma lex_ltb_spec : forall a b, lex_ltb a b = true <-> lex_lt a b.
Proof.
  intros a b. unfold lex_ltb, lex_lt.
  destruct (lex_cmp a b); split; intros H; try discriminate; auto.
Qed.

Lemma lex_leb_spec : forall a b, lex_leb a b = true <-> lex_le a b.
Proof.
  intros a b. unfold lex_leb, lex_le.
  destruct (lex_cmp a b); split; intros H; try discriminate; auto; congruence.
Qed.

Lemma lex_ltb_false : forall a b, lex_ltb a b = false <-> lex_le b a.
Proof.
  intros a b. unfold lex_ltb, lex_le. rewrite (lex_cmp_antisym a b).
  destruct (lex_cmp a b); simpl; split; intros H; try discriminate; auto; congruence.
Qed.

Lemma lex_leb_false : forall a b, lex_leb a b = false <-> lex_lt b a.
Proof.
  intros a b. unfold lex_leb, lex_lt. rewrite (lex_cmp_antisym a b).
  destruct (lex_cmp a b); simpl; split; intros H; try discriminate; auto.
Qed.

(* ------------------------------------------------------------------ *)
(* lex_le                                                              *)
(* ------------------------------------------------------------------ *)

Lemma lex_le_lt_eq : forall a b, lex_le a b <-> lex_lt a b \/ a = b.
Proof.
  intros a b. unfold lex_le, lex_lt. rewrite <- lex_cmp_eq.
  destruct (lex_cmp a b); split; intros H; auto; try congruence.
  - destruct H; discriminate.
Qed.

Lemma lex_le_refl : forall a, lex_le a a.
Proof. intros a. apply lex_le_lt_eq. auto. Qed.

Lemma lex_le_not_lt : forall a b, lex_le a b <-> ~ lex_lt b a.
Proof.
  intros a b. unfold lex_le. rewrite lex_cmp_Gt_Lt. reflexivity.
Qed.

Lemma lex_lt_not_le : forall a b, lex_lt a b <-> ~ lex_le b a.
Proof.
  intros a b. unfold lex_le, lex_lt. rewrite (lex_cmp_antisym a b).
  destruct (lex_cmp a b); simpl; split; intros H; auto; try congruence.
  - exfalso. apply H. discriminate.
  - exfalso. apply H. discriminate.
Qed.

Lemma lex_lt_le : forall a b, lex_lt a b -> lex_le a b.
Proof. intros a b H. apply lex_le_lt_eq. auto. Qed.

Lemma lex_le_trans : forall a b c, lex_le a b -> lex_le b c -> lex_le a c.
Proof.
  intros a b c H1 H2. apply lex_le_lt_eq in H1. apply lex_le_lt_eq in H2.
  apply lex_le_lt_eq.
  destruct H1 as [H1| ->]; destruct H2 as [H2| ->]; auto.
  left. eapply lex_lt_trans; eauto.
Qed.

Lemma lex_le_lt_trans : forall a b c, lex_le a b -> lex_lt b c -> lex_lt a c.
Proof.
  intros a b c H1 H2. apply lex_le_lt_eq in H1.
  destruct H1 as [H1| ->]; auto. eapply lex_lt_trans; eauto.
Qed.

Lemma lex_lt_le_trans : forall a b c, lex_lt a b -> lex_le b c -> lex_lt a c.
Proof.
  intros a b c H1 H2. apply lex_le_lt_eq in H2.
  destruct H2 as [H2| ->]; auto. eapply lex_lt_trans; eauto.
Qed.

Lemma lex_le_antisym : forall a b, lex_le a b -> lex_le b a -> a = b.
Proof.
  intros a b H1 H2. apply lex_le_lt_eq in H1. destruct H1 as [H1|H1]; auto.
  apply lex_le_not_lt in H2. contradiction.
Qed.

Lemma lex_le_total : forall a b, lex_le a b \/ lex_le b a.
Proof.
  intros a b. destruct (lex_lt_total a b) as [H|[H|H]].
  - left. apply lex_lt_le. exact H.
  - left. subst. apply lex_le_refl.
  - right. apply lex_lt_le. exact H.
Qed.

Lemma lex_le_nil_l : forall b, lex_le [] b.
Proof. unfold lex_le. destruct b; simpl; discriminate. Qed.

Lemma lex_le_nil_r : forall a, lex_le a [] -> a = [].
Proof. unfold lex_le. destruct a; simpl; intros H; auto. congruence. Qed.

Lemma lex_le_cons : forall x y a b,
  lex_le (x :: a) (y :: b) <-> x < y \/ (x = y /\ lex_le a b).
Proof.
  intros x y a b. rewrite !lex_le_lt_eq, lex_lt_cons. split.
  - intros [[H|[H1 H2]]|H]; auto.
    injection H as -> ->. auto.
  - intros [H|[-> [H| ->]]]; auto.
Qed.

(* ------------------------------------------------------------------ *)
(* lex order and concatenation                                         *)
(* ------------------------------------------------------------------ *)

Lemma lex_lt_app_l : forall p a b, lex_lt (p ++ a) (p ++ b) <-> lex_lt a b.
Proof. intros p a b. unfold lex_lt. rewrite lex_cmp_app. reflexivity. Qed.

Lemma lex_le_app_l : forall p a b, lex_le (p ++ a) (p ++ b) <-> lex_le a b.
Proof. intros p a b. unfold lex_le. rewrite lex_cmp_app. reflexivity. Qed.

Lemma lex_cmp_app_fixed : forall a a' b b' : list N, length a = length a' ->
  lex_cmp (a ++ b) (a' ++ b') =
  match lex_cmp a a' with Eq => lex_cmp b b' | c => c end.
Proof.
  induction a as [|x a IH]; destruct a' as [|y a']; intros b b' L;
    simpl in L; try discriminate; simpl; auto.
  destruct (x ?= y); auto.
Qed.

Lemma lex_app_fixed : forall a a' b b' : list N, length a = length a' ->
  (lex_lt (a ++ b) (a' ++ b') <-> lex_lt a a' \/ (a = a' /\ lex_lt b b')).
Proof.
  intros a a' b b' L. unfold lex_lt. rewrite (lex_cmp_app_fixed a a' b b' L).
  rewrite <- lex_cmp_eq.
  destruct (lex_cmp a a'); split; intros H; auto.
  - destruct H as [H|[_ H]]; auto. discriminate.
  - destruct H as [H|[H _]]; discriminate.
Qed.

Lemma lex_lt_prefix : forall a r, r <> [] -> lex_lt a (a ++ r).
Proof.
  intros a r H. rewrite <- (app_nil_r a) at 1.
  apply lex_lt_app_l. apply lex_lt_nil_l. exact H.
Qed.

Lemma lex_le_prefix : forall a r, lex_le a (a ++ r).
Proof.
  intros a r. rewrite <- (app_nil_r a) at 1.
  apply lex_le_app_l. apply lex_le_nil_l.
Qed.

Lemma lex_lt_first_diff : forall p x y a b, x < y ->
  lex_lt (p ++ x :: a) (p ++ y :: b).
Proof.
  intros p x y a b H. apply lex_lt_app_l. apply lex_lt_cons. auto.
Qed.

(* ------------------------------------------------------------------ *)
(* beq                                                                 *)
(* ------------------------------------------------------------------ *)

Lemma beq_eq : forall a b, beq a b = true <-> a = b.
Proof.
  induction a as [|x a IH]; destruct b as [|y b]; simpl; split; intros H;
    try discriminate; auto.
  - apply andb_true_iff in H. destruct H as [H1 H2].
    apply N.eqb_eq in H1. apply IH in H2. congruence.
  - injection H as -> ->. rewrite N.eqb_refl. simpl. apply IH. reflexivity.
Qed.

Lemma beq_refl : forall a, beq a a = true.
Proof. intros a. apply beq_eq. reflexivity. Qed.

Lemma beq_neq : forall a b, beq a b = false <-> a <> b.
Proof.
  intros a b. rewrite <- beq_eq. destruct (beq a b); split; intros H; auto;
    try discriminate. exfalso. apply H. reflexivity.
Qed.

Lemma beq_sym : forall a b, beq a b = beq b a.
Proof.
  intros a b. destruct (beq a b) eqn:E.
  - apply beq_eq in E. subst. symmetry. apply beq_refl.
  - symmetry. apply beq_neq. apply beq_neq in E. congruence.
Qed.

(* ------------------------------------------------------------------ *)
(* prefixes                                                            *)
(* ------------------------------------------------------------------ *)

Lemma is_prefix_nil : forall s, is_prefix [] s.
Proof. intros s. exists s. reflexivity. Qed.

Lemma is_prefix_nil_r : forall p, is_prefix p [] -> p = [].
Proof.
  intros p [r H]. symmetry in H. apply app_eq_nil in H. tauto.
Qed.

Lemma is_prefix_cons : forall x y p s,
  is_prefix (x :: p) (y :: s) <-> x = y /\ is_prefix p s.
Proof.
  intros x y p s. split.
  - intros [r H]. simpl in H. injection H as -> ->. split; auto. exists r. reflexivity.
  - intros [-> [r ->]]. exists r. reflexivity.
Qed.

Lemma has_prefix_spec : forall s p, has_prefix s p = true <-> is_prefix p s.
Proof.
  intros s p. revert s. induction p as [|y p IH]; intros s; simpl.
  - destruct s; simpl; split; intros _; auto; apply is_prefix_nil.
  - destruct s as [|x s].
    + split; intros H; try discriminate.
      apply is_prefix_nil_r in H. discriminate.
    + simpl. rewrite andb_true_iff, N.eqb_eq, IH, is_prefix_cons.
      split; intros [H1 H2]; auto.
Qed.

Lemma is_prefix_refl : forall p, is_prefix p p.
Proof. intros p. exists []. symmetry. apply app_nil_r. Qed.

Lemma is_prefix_trans : forall a b c, is_prefix a b -> is_prefix b c -> is_prefix a c.
Proof.
  intros a b c [r1 ->] [r2 ->]. exists (r1 ++ r2). symmetry. apply app_assoc.
Qed.

Lemma is_prefix_app : forall p r, is_prefix p (p ++ r).
Proof. intros p r. exists r. reflexivity. Qed.

Lemma is_prefix_app_l : forall q p s, is_prefix (q ++ p) (q ++ s) <-> is_prefix p s.
Proof.
  intros q p s. split.
  - intros [r H]. rewrite <- app_assoc in H. apply app_inv_head in H.
    exists r. exact H.
  - intros [r ->]. exists r. apply app_assoc.
Qed.

Lemma is_prefix_length : forall p s, is_prefix p s -> (length p <= length s)%nat.
Proof. intros p s [r ->]. rewrite app_length. lia. Qed.

Lemma is_prefix_length_eq : forall p s,
  is_prefix p s -> length p = length s -> p = s.
Proof.
  intros p s [r ->] L. rewrite app_length in L.
  assert (length r = 0%nat) as Hr by lia.
  apply length_zero_iff_nil in Hr. subst r. symmetry. apply app_nil_r.
Qed.

Lemma is_prefix_antisym : forall a b, is_prefix a b -> is_prefix b a -> a = b.
Proof.
  intros a b H1 H2. apply is_prefix_length_eq; auto.
  apply is_prefix_length in H1. apply is_prefix_length in H2. lia.
Qed.

Lemma is_prefix_firstn : forall p s, is_prefix p s <-> firstn (length p) s = p.
Proof.
  intros p s. split.
  - intros [r ->]. rewrite firstn_app, Nat.sub_diag, firstn_all. simpl.
    apply app_nil_r.
  - intros H. exists (skipn (length p) s).
    transitivity (firstn (length p) s ++ skipn (length p) s).
    + symmetry. apply firstn_skipn.
    + rewrite H. reflexivity.
Qed.

Lemma firstn_is_prefix : forall n s, is_prefix (firstn n s) s.
Proof. intros n s. exists (skipn n s). symmetry. apply firstn_skipn. Qed.

Lemma is_prefix_lex_le : forall p s, is_prefix p s -> lex_le p s.
Proof. intros p s [r ->]. apply lex_le_prefix. Qed.

Lemma is_prefix_proper_lex_lt : forall p s, is_prefix p s -> p <> s -> lex_lt p s.
Proof.
  intros p s [r ->] H. apply lex_lt_prefix. intros ->. apply H.
  symmetry. apply app_nil_r.
Qed.

(* two prefixes of the same string are comparable *)
Lemma is_prefix_comparable : forall a b s,
  is_prefix a s -> is_prefix b s -> is_prefix a b \/ is_prefix b a.
Proof.
  induction a as [|x a IH]; intros b s Ha Hb.
  - left. apply is_prefix_nil.
  - destruct b as [|y b]; [right; apply is_prefix_nil|].
    destruct s as [|z s]; [apply is_prefix_nil_r in Ha; discriminate|].
    apply is_prefix_cons in Ha. apply is_prefix_cons in Hb.
    destruct Ha as [-> Ha]. destruct Hb as [-> Hb].
    destruct (IH b s Ha Hb) as [H|H]; [left|right]; apply is_prefix_cons; auto.
Qed.

(* ------------------------------------------------------------------ *)
(* range pruning                                                       *)
(* ------------------------------------------------------------------ *)

(* if both bounds share the prefix p, every key between them has prefix p;
   no side condition: a key shorter than p cannot be between the bounds *)
Lemma lex_between_prefix : forall p s e k,
  is_prefix p s -> is_prefix p e -> lex_le s k -> lex_le k e -> is_prefix p k.
Proof.
  induction p as [|x p IH]; intros s e k Hs He Hsk Hke.
  - apply is_prefix_nil.
  - destruct s as [|xs s]; [apply is_prefix_nil_r in Hs; discriminate|].
    destruct e as [|xe e]; [apply is_prefix_nil_r in He; discriminate|].
    apply is_prefix_cons in Hs. destruct Hs as [<- Hs].
    apply is_prefix_cons in He. destruct He as [<- He].
    destruct k as [|y k].
    + apply lex_le_nil_r in Hsk. discriminate.
    + apply lex_le_cons in Hsk. apply lex_le_cons in Hke.
      destruct Hsk as [Hsk|[-> Hsk]].
      * destruct Hke as [Hke|[-> Hke]]; lia.
      * destruct Hke as [Hke|[_ Hke]]; [lia|].
        apply is_prefix_cons. split; auto. apply (IH s e k); assumption.
Qed.

(* all keys with prefix p lie between p and every strict upper bound of the
   prefix class *)
Lemma is_prefix_lex_lt_mono : forall p k u,
  is_prefix p k -> lex_lt p u -> ~ is_prefix p u -> lex_lt k u.
Proof.
  induction p as [|x p IH]; intros k u Hk Hu Hn.
  - exfalso. apply Hn. apply is_prefix_nil.
  - destruct k as [|y k]; [apply is_prefix_nil_r in Hk; discriminate|].
    apply is_prefix_cons in Hk. destruct Hk as [<- Hk].
    destruct u as [|z u]; [exfalso; eapply lex_lt_nil_r; eauto|].
    apply lex_lt_cons in Hu. apply lex_lt_cons.
    destruct Hu as [Hu|[-> Hu]]; auto.
    right. split; auto. apply (IH k u); auto.
    intros H. apply Hn. apply is_prefix_cons. auto.
Qed.

Lemma is_prefix_lex_gt_mono : forall p k l,
  is_prefix p k -> lex_lt l p -> lex_lt l k.
Proof.
  intros p k l Hk Hl. eapply lex_lt_le_trans; eauto.
  apply is_prefix_lex_le. exact Hk.
Qed.

(* ------------------------------------------------------------------ *)
(* longest common prefix                                               *)
(* ------------------------------------------------------------------ *)

Lemma lcp_spec : forall a b, firstn (lcp a b) a = firstn (lcp a b) b.
Proof.
  induction a as [|x a IH]; destruct b as [|y b]; simpl; auto.
  destruct (N.eqb_spec x y) as [->|E]; simpl; auto.
  f_equal. apply IH.
Qed.

Lemma lcp_le_l : forall a b, (lcp a b <= length a)%nat.
Proof.
  induction a as [|x a IH]; destruct b as [|y b]; simpl; try lia.
  destruct (x =? y); simpl; try lia. specialize (IH b). lia.
Qed.

Lemma lcp_le_r : forall a b, (lcp a b <= length b)%nat.
Proof.
  induction a as [|x a IH]; destruct b as [|y b]; simpl; try lia.
  destruct (x =? y); simpl; try lia. specialize (IH b). lia.
Qed.

Lemma lcp_max : forall a b x y,
  nth_error a (lcp a b) = Some x -> nth_error b (lcp a b) = Some y -> x <> y.
Proof.
  induction a as [|x0 a IH]; destruct b as [|y0 b]; simpl; intros x y Ha Hb;
    try discriminate.
  destruct (N.eqb_spec x0 y0) as [->|E]; simpl in *.
  - eapply IH; eauto.
  - congruence.
Qed.

Lemma lcp_comm : forall a b, lcp a b = lcp b a.
Proof.
  induction a as [|x a IH]; destruct b as [|y b]; simpl; auto.
  rewrite (N.eqb_sym y x). destruct (x =? y); auto.
Qed.

Lemma lcp_refl : forall a, lcp a a = length a.
Proof.
  induction a as [|x a IH]; simpl; auto. rewrite N.eqb_refl. congruence.
Qed.

Lemma lcp_app : forall p a b, lcp (p ++ a) (p ++ b) = (length p + lcp a b)%nat.
Proof.
  induction p as [|x p IH]; intros a b; simpl; auto.
  rewrite N.eqb_refl. f_equal. apply IH.
Qed.

Lemma lcp_is_prefix_l : forall a b, is_prefix (firstn (lcp a b) a) a.
Proof. intros. apply firstn_is_prefix. Qed.

Lemma lcp_is_prefix_r : forall a b, is_prefix (firstn (lcp a b) a) b.
Proof. intros. rewrite lcp_spec. apply firstn_is_prefix. Qed.

(* any common prefix is no longer than lcp *)
Lemma lcp_greatest : forall p a b,
  is_prefix p a -> is_prefix p b -> (length p <= lcp a b)%nat.
Proof.
  intros p a b [r1 ->] [r2 ->]. rewrite lcp_app. lia.
Qed.

Lemma lcp_prefix_iff : forall p s, is_prefix p s <-> lcp p s = length p.
Proof.
  induction p as [|x p IH]; intros s; simpl.
  - split; intros _; auto. apply is_prefix_nil.
  - destruct s as [|y s].
    + split; intros H; try discriminate. apply is_prefix_nil_r in H. discriminate.
    + rewrite is_prefix_cons. destruct (N.eqb_spec x y) as [->|E].
      * rewrite IH. split; [intros [_ H]; congruence | intros H; split; auto].
      * split; [intros [H _]; contradiction | discriminate].
Qed.

(* ------------------------------------------------------------------ *)
(* isbytes                                                             *)
(* ------------------------------------------------------------------ *)

Lemma isbytes_app : forall a b, isbytes (a ++ b) = isbytes a && isbytes b.
Proof. intros a b. unfold isbytes. apply forallb_app. Qed.

Lemma isbytes_cons : forall x a, isbytes (x :: a) = isbyte x && isbytes a.
Proof. reflexivity. Qed.

Lemma isbytes_nil : isbytes [] = true.
Proof. reflexivity. Qed.

Lemma isbyte_spec : forall b, isbyte b = true <-> b < 256.
Proof. intros b. unfold isbyte. apply N.ltb_lt. Qed.

Lemma isbytes_forall : forall l, isbytes l = true <-> (forall x, In x l -> x < 256).
Proof.
  intros l. unfold isbytes. rewrite forallb_forall.
  split; intros H x Hx; apply isbyte_spec; auto.
Qed.

Lemma isbytes_firstn : forall n l, isbytes l = true -> isbytes (firstn n l) = true.
Proof.
  intros n l H. rewrite <- (firstn_skipn n l), isbytes_app in H.
  apply andb_true_iff in H. tauto.
Qed.

Lemma isbytes_skipn : forall n l, isbytes l = true -> isbytes (skipn n l) = true.
Proof.
  intros n l H. rewrite <- (firstn_skipn n l), isbytes_app in H.
  apply andb_true_iff in H. tauto.
Qed.

(* ------------------------------------------------------------------ *)
(* misc list facts                                                     *)
(* ------------------------------------------------------------------ *)

Lemma app_inj_length : forall (a a' b b' : list N),
  length a = length a' -> a ++ b = a' ++ b' -> a = a' /\ b = b'.
Proof.
  induction a as [|x a IH]; destruct a' as [|y a']; simpl; intros b b' L H;
    try discriminate; auto.
  injection H as -> H. injection L as L.
  destruct (IH a' b b' L H) as [-> ->]. auto.
Qed.

Lemma is_prefix_app_fixed : forall a a' b b' : list N, length a = length a' ->
  (is_prefix (a ++ b) (a' ++ b') <-> a = a' /\ is_prefix b b').
Proof.
  intros a a' b b' L. split.
  - intros [r H]. rewrite <- app_assoc in H. symmetry in H.
    apply app_inj_length in H; auto. destruct H as [-> <-].
    split; auto. apply is_prefix_app.
  - intros [-> H]. apply is_prefix_app_l. exact H.
Qed.
