(* The regenerated code END TO END, and the reachability of the size hypotheses.

   1. fit_from_WF, fit_reachable: the uint32 hypotheses of Proofs/TranslateMutFacts.v (xfit: the merged path of a
      node4 collapse fits; xfit32: every prefixLen fits; the leaf keys are shorter than 2^32) hold in EVERY state a
      history_ok history reaches, provided the transformed keys it inserts are shorter than 2^32 bytes: well-formedness
      (WF) bounds depth + compressed path (+ 1 + the child's path) by the length of any key stored below the node.
   2. g_alpha_run: a specification-level driver that executes a list of Insert / Search / Delete calls on the
      byte-string tree by calling the REGENERATED g_alpha_insert, g_alpha_delete (Gen/MutGen.v, over the explicit heap)
      and g_alpha_search (Gen/TreeGen.v, on the tree the heap holds, GoHeap.h_reify), from the empty heap and the
      empty pool, with the budgets of the model (key_fuel) and an ARBITRARY list of pool answers per call.
      gen_alpha_run_refines: on every history_ok history of such calls whose keys are shorter than 2^32 its outputs are
      those of Model/Api.run, hence (ApiFacts.run_refines) those of the reference map Spec/Ideal.ideal_run. *)
From GoArt Require Import Base.Bytes Model.Node4 Model.Node16 Model.Node Model.Tree Model.Iter Model.Api
  Spec.NodeSpec Spec.TreeSpec Spec.Ideal Proofs.BytesFacts Proofs.NodeFacts Proofs.TreeBasics Proofs.InsertFacts
  Proofs.ApiFacts Proofs.PropFacts
  Model.Pool Proofs.PoolFacts Model.PoolTree Proofs.PoolTreeFacts Model.GoNode Model.GoTree Model.GoHeap
  Gen.NodeGen Gen.TreeGen Proofs.TranslateNodeFacts Proofs.TranslateTreeFacts Gen.MutGen Proofs.TranslateMutFacts.
From Coq Require Import ZifyN ZifyNat ZifyBool.
Ltac Zify.zify_post_hook ::= Z.div_mod_to_equations.
Open Scope N_scope.

(* ================= 1. the uint32 hypotheses are consequences of WF and short keys ================= *)
Definition short_leaves (t : tree) : Prop := forall l, In l (leaves t) -> N.of_nat (length (ltk l)) < M32.

Lemma fit_from_WF_f : forall f t d, (theight (tabs t) <= f)%nat -> xtwf t -> WF d (tabs t) -> short_leaves (tabs t) ->
  xfit t /\ xfit32 t.
Proof.
  induction f as [|f IH]; intros t d Hf Hxt Hwf Hsh.
  { destruct t; cbn [tabs theight] in Hf; lia. }
  destruct t as [gk tk v|n]; [split; constructor|].
  destruct (xtwf_inv _ Hxt) as [Hx Hch]. rewrite tabs_inner in *.
  assert (Hkid : forall b c, In (b, c) (nenum (xabs n)) ->
            (theight (tabs c) <= f)%nat /\ xtwf c /\ WF (d + xplen (xh n) + 1) (tabs c) /\ short_leaves (tabs c)).
  { intros b c Hin. pose proof (in_nenum_nabs n b c Hin) as Hin'.
    split; [pose proof (in_nenum_height _ _ _ Hin'); lia|]. split; [apply (Hch b c Hin)|].
    destruct (WF_child _ _ _ _ Hwf Hin') as [Hwc _]. rewrite nhdr_nabs in Hwc. cbn [xabs_hdr prefixLen] in Hwc.
    split; [exact Hwc|]. intros l Hl. apply Hsh. apply in_leaves_inner. exists b, (tabs c). split; assumption. }
  (* some leaf below the node: its key is longer than depth + path *)
  assert (Hlong : forall l, In l (leaves (Inner (nabs n))) -> (d + xplen (xh n) < length (ltk l))%nat).
  { intros l Hl. destruct (leaf_path_facts d (nabs n) l Hwf Hl) as (H1 & _). rewrite nhdr_nabs in H1. exact H1. }
  assert (Hne : exists l, In l (leaves (Inner (nabs n)))).
  { pose proof (WF_nonempty _ _ Hwf) as H0. destruct (leaves (Inner (nabs n))) as [|l ls]; [contradiction H0; reflexivity|].
    exists l. left. reflexivity. }
  split.
  - constructor.
    + destruct n as [h keys ch|h keys ch|h keys ch|h ch]; cbn [xfit4]; try exact I.
      intros b cn Hin. destruct (Hkid b (XInner cn) Hin) as (_ & _ & Wc & Sc). rewrite tabs_inner in Wc, Sc.
      pose proof (WF_nonempty _ _ Wc) as H0. destruct (leaves (Inner (nabs cn))) as [|l ls] eqn:El; [contradiction H0; reflexivity|].
      assert (Hl : In l (leaves (Inner (nabs cn)))) by (rewrite El; left; reflexivity).
      destruct (leaf_path_facts _ (nabs cn) l Wc Hl) as (H1 & _). rewrite nhdr_nabs in H1. cbn [xabs_hdr prefixLen xh] in H1.
      pose proof (Sc l Hl) as H2. unfold M32 in *. lia.
    + intros b c Hin. destruct (Hkid b c Hin) as (K1 & K2 & K3 & K4). apply (IH c _ K1 K2 K3 K4).
  - constructor.
    + destruct Hne as (l & Hl). pose proof (Hlong l Hl). pose proof (Hsh l Hl). unfold M32 in *. lia.
    + intros b c Hin. destruct (Hkid b c Hin) as (K1 & K2 & K3 & K4). apply (IH c _ K1 K2 K3 K4).
Qed.
Theorem fit_from_WF : forall t d, xtwf t -> WF d (tabs t) -> short_leaves (tabs t) -> xfit t /\ xfit32 t.
Proof. intros t d. apply (fit_from_WF_f (theight (tabs t))). lia. Qed.

(* the records of the reference map come from the inserted pairs *)
Lemma ideal_run_inP : forall k P ops cs, inP P cs -> Forall (fun a => In (transform k a) P) (flat_map ins_keys ops) ->
  inP P (fst (ideal_run k cs ops)).
Proof.
  intros k P. induction ops as [|o ops IH]; intros cs HP Hins; [exact HP|].
  cbn [flat_map] in Hins. apply Forall_app in Hins. destruct Hins as [Hi1 Hi2].
  cbn [ideal_run]. destruct (ideal_step k cs o) as [cs' x] eqn:Es.
  assert (HP' : inP P cs').
  { destruct o; cbn [ideal_step] in Es; try (injection Es as <- _; exact HP).
    - cbn [ins_keys] in Hi1. inversion Hi1 as [|y ys Hin _]; subst. destruct (transform k k0) as [gk tk].
      injection Es as <- _. apply upsert_inP; assumption.
    - destruct (transform k k0) as [gk tk]. injection Es as <- _. exact HP.
    - destruct (transform k k0) as [gk tk]. injection Es as <- _. apply remove_gk_inP. exact HP. }
  specialize (IH cs' HP' Hi2). destruct (ideal_run k cs' ops) as [cs'' xs]. exact IH.
Qed.

Definition short_keys (k : Api.kind) (ops : list op) : Prop :=
  forall a v, In (Insert a v) ops -> N.of_nat (length (snd (transform k a))) < M32.

(* the form that is true and used below: for every history_ok history that inserts only keys whose TRANSFORMED form
   is shorter than 2^32 bytes, the raw tree the model reaches (over a private pool: PoolTree.xalone) satisfies both fit
   hypotheses, and every stored transformed key is shorter than 2^32 *)
Theorem fit_reachable : forall k ops, history_ok k ops = true -> short_keys k ops ->
  forall t, xroot (fst (xalone k xinit ops)) = Some t -> xfit t /\ xfit32 t /\ short_leaves (tabs t).
Proof.
  intros k ops Hok Hshort t Hr.
  destruct (hyps_reachable k ops t Hok Hr) as [Hxt Hwf].
  destruct (xalone_sim ops k xinit I (wf_hist_history_ok k ops Hok)) as (_ & Hs & _).
  change (sabs xinit) with Api.init in Hs.
  destruct (run_refines k ops Hok) as [_ Hrep].
  assert (Hl : leaves (tabs t) = fst (ideal_run k [] ops)).
  { destruct Hrep as [Hrep _]. rewrite <- Hs, sabs_root, Hr in Hrep. apply Hrep. }
  assert (HinP : inP (ins_pairs k ops) (fst (ideal_run k [] ops))).
  { apply ideal_run_inP; [constructor|]. apply Forall_forall. intros a Ha. unfold ins_pairs. apply in_map. exact Ha. }
  assert (Hsl : short_leaves (tabs t)).
  { intros l Hl0. rewrite Hl in Hl0. pose proof (proj1 (Forall_forall _ _) HinP l Hl0) as Hp. cbv beta in Hp.
    unfold ins_pairs in Hp. apply in_map_iff in Hp. destruct Hp as (a & Ea & Hin).
    apply in_flat_map in Hin. destruct Hin as (o & Ho & Hao). destruct o; cbn [ins_keys] in Hao; try contradiction.
    destruct Hao as [->|[]]. pose proof (Hshort a v Ho) as H1. rewrite Ea in H1. exact H1. }
  destruct (fit_from_WF t 0 Hxt Hwf Hsl) as [H1 H2]. auto.
Qed.

(* ================= 2. the regenerated byte-string tree, end to end ================= *)
(* one call: the regenerated method on the explicit heap; Search reads the tree the heap holds *)
Definition g_alpha_step (g : gstate) (o : op) (os : list choice) : gstate * out :=
  match o with
  | Insert (AB l) v =>
    match g_alpha_insert (key_fuel (l ++ [0])) (g_heap g) (g_root g) (g_size g) l v os (g_pool g) with
    | MDone h r s _ p _ => (mkG h r s p, OUnit)
    | MPanic => (g, OPanic)
    | MFuel => (g, OFuel)
    end
  | Delete (AB l) =>
    match g_alpha_delete (key_fuel (l ++ [0])) (g_heap g) (g_root g) (g_size g) l os (g_pool g) with
    | MDone h r s _ p b => (mkG h r s p, OBool b)
    | MPanic => (g, OPanic)
    | MFuel => (g, OFuel)
    end
  | Search (AB l) =>
    (g, match g_alpha_search (key_fuel (l ++ [0])) (h_reify (g_heap g) (g_root g)) (g_alpha_search_key l) with
        | GRet (SFound v) => OFound v
        | GRet SAbsent => OAbsent
        | GRet SFuel => OFuel
        | GPanic => OPanic
        | GFuel => OFuel
        end)
  | _ => (g, ONone)
  end.
Fixpoint g_alpha_run (evs : list (op * list choice)) (g : gstate) : list out :=
  match evs with
  | [] => []
  | (o, os) :: evs' => let r := g_alpha_step g o os in snd r :: g_alpha_run evs' (fst r)
  end.
(* the calls the driver knows: the three map methods on byte-string keys *)
Definition alpha_op (o : op) : Prop :=
  match o with Insert (AB _) _ | Search (AB _) | Delete (AB _) => True | _ => False end.

(* the invariant of the run: the heap holds the raw tree of a pool-aware model state whose abstraction is the
   state of Model/Api.v, which represents the reference content cs; sizes, pool, fit *)
Definition run_inv (P : list kpair) (g : gstate) (s : Api.state) (cs : list lrec) : Prop :=
  exists st pm F,
    sabs st = s /\ rep s cs /\ inP P cs /\ sinv st /\
    repr_root (g_heap g) (g_root g) (xroot st) F /\ hwf (g_heap g) /\
    zero_pool pm /\ g_pool g = map_pool pm /\ g_size g = xsize st.

Lemma run_inv_facts : forall P s cs st, (forall p, In p P -> N.of_nat (length (snd p)) < M32) ->
  sabs st = s -> rep s cs -> inP P cs -> sinv st ->
  match xroot st with Some t => xtwf t /\ WF 0 (tabs t) /\ xfit t /\ xfit32 t | None => True end.
Proof.
  intros P s cs st HPs Es Hrep HP Hs. unfold sinv in Hs. destruct (xroot st) as [t|] eqn:Er; [|exact I].
  destruct Hrep as [Hrep _]. rewrite <- Es, sabs_root, Er in Hrep. destruct Hrep as [Hwf Hl].
  assert (Hsl : short_leaves (tabs t)).
  { intros l Hl0. rewrite Hl in Hl0. pose proof (proj1 (Forall_forall _ _) HP l Hl0) as Hp. cbv beta in Hp.
    apply (HPs _ Hp). }
  destruct (fit_from_WF t 0 Hs Hwf Hsl) as [H1 H2]. auto.
Qed.

Lemma g_alpha_search_reified : forall h r ot F fuel keyS, repr_root h r ot F -> hwf h -> isbytes keyS = true ->
  g_alpha_search fuel (h_reify h r) keyS =
  match ot with Some t => gres_of_sres (search fuel (tabs t) keyS keyS 0) | None => GRet SAbsent end.
Proof.
  intros h r ot F fuel keyS (Hr & Hbd) Hw Hb. destruct r as [a|]; destruct ot as [t|]; cbn [repr_root] in Hr; try contradiction.
  - destruct Hr as (at_ & <- & <- & Hst & Hsep & HF). cbn [h_reify].
    assert (Hh : (theight (tabs (strip at_)) <= next h)%nat).
    { apply (height_bound h at_ (next h) Hst Hsep). intros x Hx. eapply live_lt; eauto. }
    rewrite (gen_alpha_search_model fuel _ keyS (reify_xtwf _ _ _ Hst Hh) Hb), (reify_tabs _ _ _ Hst Hh). reflexivity.
  - cbn [h_reify]. unfold g_alpha_search. rewrite alpha_loop_nil. reflexivity.
Qed.

Section Run.
Variable P : list kpair.
Hypothesis Hok : Ideal.ins_ok P = true.
Hypothesis HT : forall p, In p P -> exists a, p = transform KAlpha a.
Hypothesis HPs : forall p, In p P -> N.of_nat (length (snd p)) < M32.

Lemma g_alpha_step_refines : forall g s cs o os,
  run_inv P g s cs -> alpha_op o ->
  Forall (fun a => In (transform KAlpha a) P) (ins_keys o) ->
  forallb (probe_ok P) (map (transform KAlpha) (probe_keys KAlpha o)) = true ->
  snd (g_alpha_step g o os) = snd (Api.step KAlpha s o) /\
  run_inv P (fst (g_alpha_step g o os)) (fst (Api.step KAlpha s o)) (fst (ideal_step KAlpha cs o)).
Proof.
  intros g s cs o os (st & pm & F & Es & Hrep & HP & Hs & Hr & Hw & Hzp & Ep & Esz) Hao Hins Hprobe.
  pose proof (run_inv_facts P s cs st HPs Es Hrep HP Hs) as Hfacts.
  pose proof (step_refines_proj KAlpha P Hok HT s cs o Hrep HP Hins Hprobe eq_refl) as (R1 & R2 & R3).
  destruct g as [h r sz p]. cbn [g_heap g_root g_size g_pool] in *. subst p sz.
  destruct o as [a v|a|a| | | |stop|stop|m stop|m stop|a b stop|a stop]; try contradiction;
    destruct a as [l| | | | |]; try contradiction; clear Hao.
  - (* Insert *)
    cbn [ins_keys] in Hins. inversion Hins as [|y ys Hin _]; subst y ys.
    pose proof (ins_isbytes _ _ _ Hok Hin) as Hb. pose proof (HPs _ Hin) as Hlen. cbn [transform fst snd] in Hb, Hlen.
    assert (Hupd : upd_ok KAlpha (sabs st) (Insert (AB l) v)).
    { cbn [upd_ok transform snd]. split; [exact Hb|]. unfold root_wf. rewrite sabs_root.
      destruct (xroot st); [apply Hfacts|exact I]. }
    destruct (xstep_sim KAlpha st (Insert (AB l) v) os pm Hzp Hs Hupd) as (X1 & X2 & X3 & X4).
    cbn [xstep transform fst snd] in X1, X2, X3, X4. rewrite Es in X1, X2.
    assert (Hinv : match xroot st with Some t => WF 0 (tabs t) /\ xfit32 t | None => True end)
      by (destruct (xroot st); [split; apply Hfacts|exact I]).
    pose proof (gen_alpha_insert_sim h r (xroot st) F (xsize st) l v os pm Hr Hw Hzp Hb Hlen Hlen Hinv) as G.
    cbv zeta in G. replace (mkXstate (xroot st) (xsize st)) with st in G by (destruct st; reflexivity).
    cbn [g_alpha_step g_heap g_root g_size g_pool].
    assert (R1' : snd (Api.step KAlpha s (Insert (AB l) v)) = OUnit) by (rewrite R1; reflexivity).
    destruct (g_alpha_insert (key_fuel (l ++ [0])) h r (xsize st) l v os (map_pool pm)) as [h' r' sz' os' p' u| |];
      cbn [fst snd].
    + destruct G as (G1 & G2 & G3 & G4 & G5 & F' & G6 & _). split; [rewrite <- X2; symmetry; exact G1|].
      exists (fst (fst (xdo_insert st (l ++ [0]) (l ++ [0]) v os pm))), (snd (xdo_insert st (l ++ [0]) (l ++ [0]) v os pm)), F'.
      cbn [g_heap g_root g_size g_pool].
      split; [exact X1|]. split; [exact R2|]. split; [exact R3|]. split; [exact X4|]. split; [exact G6|]. split; [exact G5|].
      split; [exact G4|]. split; [exact G3|exact G2].
    + rewrite X2, R1' in G. discriminate G.
    + rewrite X2, R1' in G. discriminate G.
  - (* Search *)
    cbn [probe_keys map forallb] in Hprobe. apply andb_true_iff in Hprobe. destruct Hprobe as [Hpr _].
    destruct (probe_cons _ _ _ _ Hpr HP) as [Hb _]. cbn [transform snd] in Hb.
    cbn [g_alpha_step g_heap g_root g_size g_pool fst snd Api.step transform ideal_step].
    split.
    + rewrite (g_alpha_search_reified h r (xroot st) F _ _ Hr Hw Hb). change (g_alpha_search_key l) with (l ++ [0]).
      unfold do_search. rewrite <- Es, sabs_root. destruct (xroot st) as [t|]; [|reflexivity].
      destruct (search (key_fuel (l ++ [0])) (tabs t) (l ++ [0]) (l ++ [0]) 0); reflexivity.
    + cbn [Api.step transform ideal_step fst snd] in R2, R3.
      exists st, pm, F. cbn [g_heap g_root g_size g_pool].
      split; [exact Es|]. split; [exact R2|]. split; [exact R3|]. split; [exact Hs|]. split; [exact Hr|]. split; [exact Hw|].
      split; [exact Hzp|]. split; reflexivity.
  - (* Delete *)
    cbn [probe_keys map forallb] in Hprobe. apply andb_true_iff in Hprobe. destruct Hprobe as [Hpr _].
    destruct (probe_cons _ _ _ _ Hpr HP) as [Hb _]. cbn [transform snd] in Hb.
    assert (Hupd : upd_ok KAlpha (sabs st) (Delete (AB l))) by exact Hb.
    destruct (xstep_sim KAlpha st (Delete (AB l)) os pm Hzp Hs Hupd) as (X1 & X2 & X3 & X4).
    cbn [xstep transform fst snd] in X1, X2, X3, X4. rewrite Es in X1, X2.
    assert (Hfit : match xroot st with Some t => xfit t | None => True end)
      by (destruct (xroot st); [apply Hfacts|exact I]).
    pose proof (gen_alpha_delete_sim h r (xroot st) F (xsize st) l os pm Hr Hzp Hb Hfit) as G.
    cbv zeta in G. replace (mkXstate (xroot st) (xsize st)) with st in G by (destruct st; reflexivity).
    pose proof (delete_top_hwf _ _ _ (alpha_delete_loop_sim (l ++ [0])) (alpha_delete_leaf (l ++ [0]))
                  h r (xroot st) F (xsize st) os pm Hr Hw Hzp Hb Hfit) as GW.
    change (delete_top (fun fuel => g_alpha_delete_loop1 fuel (l ++ [0])) (key_fuel (l ++ [0])) h r (xsize st) os (map_pool pm))
      with (g_alpha_delete (key_fuel (l ++ [0])) h r (xsize st) l os (map_pool pm)) in GW.
    cbn [g_alpha_step g_heap g_root g_size g_pool].
    assert (R1' : exists b, snd (Api.step KAlpha s (Delete (AB l))) = OBool b) by (rewrite R1; eexists; reflexivity).
    destruct (g_alpha_delete (key_fuel (l ++ [0])) h r (xsize st) l os (map_pool pm)) as [h' r' sz' os' p' b| |];
      cbn [fst snd].
    + destruct G as (G1 & G2 & G3 & G4 & G5 & F' & G6 & _). split; [rewrite <- X2; symmetry; exact G1|].
      exists (fst (fst (xdo_delete st (l ++ [0]) (l ++ [0]) os pm))), (snd (xdo_delete st (l ++ [0]) (l ++ [0]) os pm)), F'.
      cbn [g_heap g_root g_size g_pool].
      split; [exact X1|]. split; [exact R2|]. split; [exact R3|]. split; [exact X4|]. split; [exact G6|]. split; [exact GW|].
      split; [exact G4|]. split; [exact G3|exact G2].
    + contradiction.
    + destruct R1' as (b & R1'). rewrite X2, R1' in G. discriminate G.
Qed.

Lemma g_alpha_run_gen : forall evs g s cs,
  run_inv P g s cs -> Forall alpha_op (map fst evs) ->
  Forall (fun a => In (transform KAlpha a) P) (flat_map ins_keys (map fst evs)) ->
  forallb (probe_ok P) (map (transform KAlpha) (flat_map (probe_keys KAlpha) (map fst evs))) = true ->
  g_alpha_run evs g = snd (Api.run KAlpha s (map fst evs)).
Proof.
  induction evs as [|[o os] evs IH]; intros g s cs Hinv Hao Hins Hprobe; [reflexivity|].
  cbn [map fst flat_map] in Hao, Hins, Hprobe. inversion Hao as [|x xs Ha1 Ha2]; subst x xs.
  apply Forall_app in Hins. destruct Hins as [Hi1 Hi2].
  rewrite map_app, forallb_app in Hprobe. apply andb_true_iff in Hprobe. destruct Hprobe as [Hp1 Hp2].
  destruct (g_alpha_step_refines g s cs o os Hinv Ha1 Hi1 Hp1) as (E1 & Hinv').
  cbn [g_alpha_run map fst]. rewrite api_run_cons. cbn [snd]. rewrite E1. f_equal.
  apply (IH _ _ _ Hinv' Ha2 Hi2 Hp2).
Qed.
End Run.

(* the statement: the calls of a valid history on the regenerated code give the outputs of Model/Api.run *)
Theorem gen_alpha_run_refines : forall evs,
  Forall alpha_op (map fst evs) -> history_ok KAlpha (map fst evs) = true -> short_keys KAlpha (map fst evs) ->
  g_alpha_run evs g_init = snd (Api.run KAlpha Api.init (map fst evs)).
Proof.
  intros evs Hao Hh Hshort. set (ops := map fst evs) in *. unfold history_ok in Hh.
  apply andb_true_iff in Hh. destruct Hh as [Hh Hop]. apply andb_true_iff in Hh. destruct Hh as [Hok Hpr].
  apply (g_alpha_run_gen (ins_pairs KAlpha ops) Hok) with (cs := []).
  - intros p Hp. unfold ins_pairs in Hp. apply in_map_iff in Hp. destruct Hp as (a & E & _). exists a. auto.
  - intros p Hp. unfold ins_pairs in Hp. apply in_map_iff in Hp. destruct Hp as (a & <- & Hin).
    apply in_flat_map in Hin. destruct Hin as (o & Ho & Hao'). destruct o; cbn [ins_keys] in Hao'; try contradiction.
    destruct Hao' as [->|[]]. apply (Hshort a v Ho).
  - exists xinit, [], (fun _ => False). cbn [g_init g_heap g_root g_size g_pool xinit xroot xsize].
    split; [reflexivity|]. split; [unfold rep, Api.init; cbn [root size length]; auto|]. split; [constructor|].
    split; [exact I|]. split; [split; [intros x Hx; exact Hx|intros x []]|]. split; [intros x _; reflexivity|].
    split; [constructor|]. split; reflexivity.
  - exact Hao.
  - apply Forall_forall. intros a Ha. unfold ins_pairs. apply in_map. exact Ha.
  - exact Hpr.
Qed.
(* ... hence those of the reference map *)
Corollary gen_alpha_run_ideal : forall evs,
  Forall alpha_op (map fst evs) -> history_ok KAlpha (map fst evs) = true -> short_keys KAlpha (map fst evs) ->
  g_alpha_run evs g_init = snd (ideal_run KAlpha [] (map fst evs)).
Proof.
  intros evs Hao Hh Hs. rewrite (gen_alpha_run_refines evs Hao Hh Hs). apply (run_refines KAlpha _ Hh).
Qed.

(* a history of 10 calls (with some pool answers asking for reuse): the driver computes, the hypotheses hold *)
Definition ex_run : list (op * list choice) :=
  [(Insert (AB [104; 105]) 1%Z, []); (Insert (AB [104; 111]) 2%Z, [Reuse 0]); (Search (AB [104; 105]), []);
   (Insert (AB [104; 105; 115]) 3%Z, [Fresh; Reuse 1]); (Search (AB [104]), []); (Delete (AB [104; 111]), [Reuse 0]);
   (Insert (AB [104; 105]) 4%Z, []); (Search (AB [104; 105]), []); (Delete (AB [120]), []); (Delete (AB [104; 105]), [])].
Example ex_run_computes :
  g_alpha_run ex_run g_init =
    [OUnit; OUnit; OFound 1; OUnit; OAbsent; OBool true; OUnit; OFound 4; OBool false; OBool true] /\
  g_alpha_run ex_run g_init = snd (Api.run KAlpha Api.init (map fst ex_run)).
Proof. vm_compute. split; reflexivity. Qed.
Example ex_run_hyps : Forall alpha_op (map fst ex_run) /\ history_ok KAlpha (map fst ex_run) = true /\
  short_keys KAlpha (map fst ex_run).
Proof.
  split; [repeat constructor|]. split; [vm_compute; reflexivity|].
  intros a v Hin. cbn [map fst ex_run In] in Hin.
  repeat (destruct Hin as [E|Hin]; [try discriminate E; injection E as <- _; vm_compute; reflexivity|]). destruct Hin.
Qed.
Example ex_run_by_theorem : g_alpha_run ex_run g_init = snd (ideal_run KAlpha [] (map fst ex_run)).
Proof. destruct ex_run_hyps as (H1 & H2 & H3). exact (gen_alpha_run_ideal ex_run H1 H2 H3). Qed.
