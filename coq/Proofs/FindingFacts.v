(* Known findings reproduced in the model (witnesses by evaluation). *)
From GoArt Require Import Spec.Ideal Spec.Semantics Proofs.PropFacts.
Open Scope N_scope.

(* D14: two distinct strings whose collation sort keys are byte-identical ("a" and "a" followed by a
   soft hyphen under the root collator).  The history is outside history_ok (the pairs are not
   injective), the model loses BOTH keys (Search answers absent for each, All yields nothing) while the
   size counter says 2 — exactly what the implementation does (corpus/D14-collation-equal-sort-keys). *)
Definition d14_sortkey : list N := [0x15; 0xef; 0; 0; 0; 0x20; 0; 0; 2].
Definition d14_ops : list op :=
  [Insert (AC [97] d14_sortkey) 1; Insert (AC [97; 194; 173] d14_sortkey) 2;
   Search (AC [97] d14_sortkey); Search (AC [97; 194; 173] d14_sortkey); Size; All None].

Theorem collation_equal_sortkeys_refuted :
  history_ok KCollation d14_ops = false /\
  ~ map_outputs_ok KCollation [] d14_ops (outs KCollation d14_ops) /\
  outs KCollation d14_ops = [OUnit; OUnit; OAbsent; OAbsent; OSize 2; OSeq [] 0].
Proof.
  split; [vm_compute; reflexivity|]. split; [|vm_compute; reflexivity].
  vm_compute. intros (_ & _ & H & _). discriminate H.
Qed.
