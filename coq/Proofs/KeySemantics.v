(* Key semantics of the API kinds: the byte encodings computed by  transform
   identify exactly the keys  akey_same  identifies, order them by  akey_lt,
   are prefix-free, and  restore  gives the key back.  Consequently every
   history of valid keys satisfies the history predicate of theorem (A). *)
From GoArt Require Import Base.Bytes Model.Keys Model.Node Model.Tree Model.Api
  Spec.Ideal Spec.Semantics Proofs.BytesFacts Proofs.KeysFacts.
From Coq Require Import ZifyN ZifyNat ZifyBool.
Ltac Zify.zify_post_hook ::= Z.div_mod_to_equations.
Open Scope N_scope.

(* ------------------------------------------------------------------ *)
(* the contract of one kind, all clauses at once                       *)
(* ------------------------------------------------------------------ *)

Lemma key_contract : forall k a b v,
  akey_ok k a = true -> akey_ok k b = true ->
  isbytes (snd (transform k a)) = true /\
  (lex_lt (snd (transform k a)) (snd (transform k b)) <-> akey_lt k a b) /\
  (k <> KCollation ->
     (fst (transform k a) = fst (transform k b) <-> akey_same k a b) /\
     (is_prefix (snd (transform k a)) (snd (transform k b)) ->
        snd (transform k a) = snd (transform k b))) /\
  akey_same k (restore k (Leaf (fst (transform k a)) (snd (transform k a)) v)) a.
Proof.
  intros k a b v Ha Hb.
  destruct k as [|w|w|w| |s|enc dec].
  - (* KAlpha *)
    destruct a as [la| | | | |]; cbn [akey_ok] in Ha; try discriminate Ha.
    destruct b as [lb| | | | |]; cbn [akey_ok] in Hb; try discriminate Hb.
    apply andb_true_iff in Ha. destruct Ha as [Ba Na].
    apply andb_true_iff in Hb. destruct Hb as [Bb Nb].
    cbn [transform fst snd akey_lt akey_same restore leaf_gk].
    split; [rewrite isbytes_app, Ba; reflexivity|].
    split; [apply str_lex; assumption|].
    split.
    + intros _. split.
      * split; [intros H; apply app_inv_tail in H; exact H | intros ->; reflexivity].
      * intros H. apply str_prefix in H; [subst lb; reflexivity | exact Nb].
    + apply removelast_last.
  - (* KUnsigned *)
    destruct a as [|x| | | |]; cbn [akey_ok] in Ha; try discriminate Ha.
    destruct b as [|y| | | |]; cbn [akey_ok] in Hb; try discriminate Hb.
    apply andb_true_iff in Ha. destruct Ha as [Wa Hx].
    apply andb_true_iff in Hb. destruct Hb as [_ Hy].
    apply N.ltb_lt in Hx. apply N.ltb_lt in Hy.
    cbn [transform fst snd akey_lt akey_same restore leaf_gk].
    destruct (enc_u_spec w x y Hx Hy) as (A & B & C & D & E).
    split; [exact B|]. split; [exact C|].
    split.
    + intros _. split.
      * split; [exact D | intros ->; reflexivity].
      * intros H. apply is_prefix_length_eq; [exact H|].
        unfold enc_u. rewrite !be_bytes_length. reflexivity.
    + exact E.
  - (* KSigned *)
    destruct a as [| |x| | |]; cbn [akey_ok] in Ha; try discriminate Ha.
    destruct b as [| |y| | |]; cbn [akey_ok] in Hb; try discriminate Hb.
    apply andb_true_iff in Ha. destruct Ha as [Wa Hx].
    apply andb_true_iff in Hb. destruct Hb as [_ Hy].
    apply andb_true_iff in Hx. destruct Hx as [Hx1 Hx2].
    apply andb_true_iff in Hy. destruct Hy as [Hy1 Hy2].
    apply Z.leb_le in Hx1, Hy1. apply Z.ltb_lt in Hx2, Hy2.
    assert (Rx : in_srange w x) by (split; assumption).
    assert (Ry : in_srange w y) by (split; assumption).
    cbn [transform fst snd akey_lt akey_same restore leaf_gk].
    destruct (enc_s_spec w x y (width_ok_pos w Wa) Rx Ry) as (A & B & C & D & E).
    split; [exact B|]. split; [exact C|].
    split.
    + intros _. split.
      * split; [exact D | intros ->; reflexivity].
      * intros H. apply is_prefix_length_eq; [exact H|].
        unfold enc_s. rewrite !be_bytes_length. reflexivity.
    + exact E.
  - (* KFloat *)
    destruct a as [| | |x| |]; cbn [akey_ok] in Ha; try discriminate Ha.
    destruct b as [| | |y| |]; cbn [akey_ok] in Hb; try discriminate Hb.
    apply andb_true_iff in Ha. destruct Ha as [Wa Hx].
    apply andb_true_iff in Hb. destruct Hb as [_ Hy].
    apply N.ltb_lt in Hx. apply N.ltb_lt in Hy.
    cbn [transform fst snd akey_lt akey_same restore leaf_gk].
    destruct (enc_f_spec w x y (fwidth_ok_spec w Wa) Hx Hy) as (A & B & C & D & E & F).
    split; [exact B|]. split; [exact C|].
    split.
    + intros _. split.
      * exact D.
      * intros H. apply is_prefix_length_eq; [exact H|].
        unfold enc_f. rewrite !be_bytes_length. reflexivity.
    + unfold fl_samekey. destruct (is_nan w x) eqn:En.
      * left. split; [apply F|]; reflexivity.
      * right. apply E. reflexivity.
  - (* KCollation *)
    destruct a as [| | | |oa ca|]; cbn [akey_ok] in Ha; try discriminate Ha.
    destruct b as [| | | |ob cb|]; cbn [akey_ok] in Hb; try discriminate Hb.
    cbn [transform fst snd akey_lt akey_same restore leaf_gk leaf_tk].
    split; [exact Ha|]. split; [reflexivity|].
    split; [intros X; exfalso; apply X; reflexivity | reflexivity].
  - (* KCompound *)
    destruct a as [| | | | |va]; cbn [akey_ok] in Ha; try discriminate Ha.
    destruct b as [| | | | |vb]; cbn [akey_ok] in Hb; try discriminate Hb.
    apply andb_true_iff in Ha. destruct Ha as [Hs Ta].
    apply andb_true_iff in Hb. destruct Hb as [_ Tb].
    cbn [transform fst snd akey_lt akey_same restore leaf_gk].
    destruct (schema_contract s va vb Hs Ta Tb) as (A & B & C & D & E).
    split; [exact A|]. split; [exact B|].
    split; [intros _; split; [exact C | exact D] | exact E].
  - (* KCodec: no key is valid by akey_ok; the codec contract is a hypothesis of Proofs/CodecFacts.v *)
    destruct a; cbn [akey_ok] in Ha; discriminate Ha.
Qed.

(* ------------------------------------------------------------------ *)
(* the theorems                                                        *)
(* ------------------------------------------------------------------ *)

Theorem transform_same_forms : forall k a,
  k <> KCollation -> fst (transform k a) = snd (transform k a).
Proof.
  intros k a HK.
  destruct k; try (exfalso; apply HK; reflexivity); destruct a; reflexivity.
Qed.

Theorem transform_isbytes : forall k a,
  akey_ok k a = true -> isbytes (snd (transform k a)) = true.
Proof.
  intros k a Ha. destruct (key_contract k a a 0%Z Ha Ha) as (A & _). exact A.
Qed.

(* key identity: two valid keys have the same encoding exactly when they are the same key *)
Theorem transform_identity : forall k a b,
  k <> KCollation -> akey_ok k a = true -> akey_ok k b = true ->
  (fst (transform k a) = fst (transform k b) <-> akey_same k a b).
Proof.
  intros k a b HK Ha Hb.
  destruct (key_contract k a b 0%Z Ha Hb) as (_ & _ & C & _).
  destruct (C HK) as [C1 _]. exact C1.
Qed.

(* the byte order of the encodings is the declared order of the kind *)
Theorem transform_order : forall k a b,
  akey_ok k a = true -> akey_ok k b = true ->
  (lex_lt (snd (transform k a)) (snd (transform k b)) <-> akey_lt k a b).
Proof.
  intros k a b Ha Hb.
  destruct (key_contract k a b 0%Z Ha Hb) as (_ & B & _). exact B.
Qed.

(* encodings of valid keys are prefix-free *)
Theorem transform_pfree : forall k a b,
  k <> KCollation -> akey_ok k a = true -> akey_ok k b = true ->
  is_prefix (snd (transform k a)) (snd (transform k b)) ->
  snd (transform k a) = snd (transform k b).
Proof.
  intros k a b HK Ha Hb.
  destruct (key_contract k a b 0%Z Ha Hb) as (_ & _ & C & _).
  destruct (C HK) as [_ C2]. exact C2.
Qed.

(* keys come back in their original form *)
Theorem restore_transform : forall k a v, akey_ok k a = true ->
  akey_same k (restore k (Leaf (fst (transform k a)) (snd (transform k a)) v)) a.
Proof.
  intros k a v Ha.
  destruct (key_contract k a a v Ha Ha) as (_ & _ & _ & D). exact D.
Qed.

(* probes: byte strings may contain 0x00, the encoding is still a byte string *)
Lemma transform_isbytes_probe : forall k a,
  aprobe_ok k a = true -> isbytes (snd (transform k a)) = true.
Proof.
  intros k a Ha.
  destruct k; try (apply transform_isbytes; exact Ha).
  destruct a as [l| | | | |]; cbn [aprobe_ok akey_ok] in Ha; try discriminate Ha.
  cbn [transform snd]. rewrite isbytes_app, Ha. reflexivity.
Qed.

(* a history of valid keys satisfies the history predicate of theorem (A) *)
Theorem history_ok_valid : forall k ops, k <> KCollation ->
  (forall a, In a (flat_map ins_keys ops) -> akey_ok k a = true) ->
  (forall a, In a (flat_map (probe_keys k) ops) -> aprobe_ok k a = true) ->
  history_ok k ops = true.
Proof.
  intros k ops HK HI HP. unfold history_ok.
  apply andb_true_iff. split; [apply andb_true_iff; split|].
  - (* inserted keys *)
    unfold ins_ok, ins_pairs. apply forallb_forall. intros p Hp.
    apply in_map_iff in Hp. destruct Hp as (a & <- & Ia).
    pose proof (HI a Ia) as Ha.
    apply andb_true_iff. split; [apply transform_isbytes; exact Ha|].
    apply forallb_forall. intros q Hq.
    apply in_map_iff in Hq. destruct Hq as (b & <- & Ib).
    pose proof (HI b Ib) as Hb.
    apply andb_true_iff. split.
    + unfold pair_compat.
      rewrite (transform_same_forms k a HK), (transform_same_forms k b HK).
      apply eqb_reflx.
    + unfold pair_pfree.
      destruct (has_prefix (snd (transform k b)) (snd (transform k a))) eqn:E;
        [|reflexivity].
      apply has_prefix_spec in E. apply (transform_pfree k a b HK Ha Hb) in E.
      cbn [negb orb]. apply beq_eq. exact E.
  - (* probes *)
    unfold probe_pairs. apply forallb_forall. intros p Hp.
    apply in_map_iff in Hp. destruct Hp as (a & <- & Ia).
    pose proof (HP a Ia) as Ha.
    unfold probe_ok. apply andb_true_iff.
    split; [apply transform_isbytes_probe; exact Ha|].
    apply forallb_forall. intros q Hq.
    unfold ins_pairs in Hq. apply in_map_iff in Hq. destruct Hq as (b & <- & Ib).
    rewrite (transform_same_forms k a HK), (transform_same_forms k b HK).
    destruct (beq (snd (transform k b)) (snd (transform k a))); reflexivity.
  - (* operations *)
    apply forallb_forall. intros o _.
    destruct k; try (exfalso; apply HK; reflexivity); destruct o; reflexivity.
Qed.

(* collation trees: the sort keys are data; what the history has to satisfy.

   NOTE.  The statement proposed for this theorem bundled the two probe
   conditions under "for every inserted pair q":
     forall p q, In p (probe_pairs ..) -> In q (ins_pairs ..) ->
       isbytes (snd p) = true /\ (fst q = fst p -> snd q = snd p)
   which says nothing about the probes of a history that inserts nothing, while
   probe_ok still demands  isbytes (snd p).  That statement is false
   (history_ok_collation_bundled_false below: ops = [Search (AC [] [256])]).
   The theorem is therefore stated with the two probe conditions separated;
   history_ok_collation_bundled recovers the bundled form for histories with at
   least one Insert. *)
Theorem history_ok_collation_split : forall ops,
  (forall p, In p (ins_pairs KCollation ops) -> isbytes (snd p) = true) ->
  (forall p q, In p (ins_pairs KCollation ops) -> In q (ins_pairs KCollation ops) ->
     (fst p = fst q <-> snd p = snd q)) ->
  (forall p q, In p (ins_pairs KCollation ops) -> In q (ins_pairs KCollation ops) ->
     is_prefix (snd p) (snd q) -> snd p = snd q) ->
  (forall p, In p (probe_pairs KCollation ops) -> isbytes (snd p) = true) ->
  (forall p q, In p (probe_pairs KCollation ops) -> In q (ins_pairs KCollation ops) ->
     fst q = fst p -> snd q = snd p) ->
  (forall a b s, ~ In (Range a b s) ops) ->
  history_ok KCollation ops = true.
Proof.
  intros ops H1 H2 H3 H4 H4' H5. unfold history_ok.
  apply andb_true_iff. split; [apply andb_true_iff; split|].
  - unfold ins_ok. apply forallb_forall. intros p Hp.
    apply andb_true_iff. split; [apply H1; exact Hp|].
    apply forallb_forall. intros q Hq.
    apply andb_true_iff. split.
    + unfold pair_compat. pose proof (H2 p q Hp Hq) as [F G].
      destruct (beq (fst p) (fst q)) eqn:E1; destruct (beq (snd p) (snd q)) eqn:E2;
        try reflexivity; exfalso.
      * apply beq_eq in E1. apply beq_neq in E2. auto.
      * apply beq_neq in E1. apply beq_eq in E2. auto.
    + unfold pair_pfree.
      destruct (has_prefix (snd q) (snd p)) eqn:E; [|reflexivity].
      apply has_prefix_spec in E. apply (H3 p q Hp Hq) in E.
      cbn [negb orb]. apply beq_eq. exact E.
  - apply forallb_forall. intros p Hp. unfold probe_ok.
    apply andb_true_iff. split; [apply H4; exact Hp|].
    apply forallb_forall. intros q Hq.
    destruct (beq (fst q) (fst p)) eqn:E1; [|reflexivity].
    apply beq_eq in E1. cbn [implb]. apply beq_eq. exact (H4' p q Hp Hq E1).
  - apply forallb_forall. intros o Ho.
    destruct o; try reflexivity. exfalso. exact (H5 _ _ _ Ho).
Qed.

(* the bundled form, for histories that insert at least one key *)
Theorem history_ok_collation_bundled : forall ops,
  ins_pairs KCollation ops <> [] ->
  (forall p, In p (ins_pairs KCollation ops) -> isbytes (snd p) = true) ->
  (forall p q, In p (ins_pairs KCollation ops) -> In q (ins_pairs KCollation ops) ->
     (fst p = fst q <-> snd p = snd q)) ->
  (forall p q, In p (ins_pairs KCollation ops) -> In q (ins_pairs KCollation ops) ->
     is_prefix (snd p) (snd q) -> snd p = snd q) ->
  (forall p q, In p (probe_pairs KCollation ops) -> In q (ins_pairs KCollation ops) ->
     isbytes (snd p) = true /\ (fst q = fst p -> snd q = snd p)) ->
  (forall a b s, ~ In (Range a b s) ops) ->
  history_ok KCollation ops = true.
Proof.
  intros ops HN H1 H2 H3 H4 H5.
  apply history_ok_collation_split; try assumption.
  - intros p Hp. destruct (ins_pairs KCollation ops) as [|q0 l] eqn:El.
    + exfalso. apply HN. reflexivity.
    + destruct (H4 p q0 Hp (or_introl eq_refl)) as [B _]. exact B.
  - intros p q Hp Hq. destruct (H4 p q Hp Hq) as [_ G]. exact G.
Qed.

(* the bundled form without the non-emptiness hypothesis does not hold *)
Lemma history_ok_collation_bundled_false :
  ~ (forall ops,
      (forall p, In p (ins_pairs KCollation ops) -> isbytes (snd p) = true) ->
      (forall p q, In p (ins_pairs KCollation ops) -> In q (ins_pairs KCollation ops) ->
         (fst p = fst q <-> snd p = snd q)) ->
      (forall p q, In p (ins_pairs KCollation ops) -> In q (ins_pairs KCollation ops) ->
         is_prefix (snd p) (snd q) -> snd p = snd q) ->
      (forall p q, In p (probe_pairs KCollation ops) -> In q (ins_pairs KCollation ops) ->
         isbytes (snd p) = true /\ (fst q = fst p -> snd q = snd p)) ->
      (forall a b s, ~ In (Range a b s) ops) ->
      history_ok KCollation ops = true).
Proof.
  intros H. specialize (H [Search (AC [] [256])]).
  assert (E : history_ok KCollation [Search (AC [] [256])] = false) by reflexivity.
  rewrite H in E; try discriminate E.
  - intros p [].
  - intros p q [].
  - intros p q [].
  - intros p q _ [].
  - intros a b s [X|[]]. discriminate X.
Qed.
