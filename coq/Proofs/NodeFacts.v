(* The node layer (N): every raw node satisfying nwf is a correct ordered
   byte -> child table, through every grow and shrink.
   The work is done in Proofs/NodeAux*.v (association lists, list idioms, the
   occupied-prefix arrays of node4/node16, the index/slot tables of node48 and
   node256); this file assembles the per-layout lemmas by case on the node. *)
From GoArt Require Import Base.Bytes Model.Node4 Model.Node16 Model.Node Spec.NodeSpec
  Proofs.Node4Facts Proofs.NodeAuxAssoc Proofs.NodeAuxList Proofs.NodeAuxArr Proofs.NodeAux416
  Proofs.NodeAux48 Proofs.NodeAux48b.
From Coq Require Import ZifyN ZifyNat ZifyBool.
Ltac Zify.zify_post_hook ::= Z.div_mod_to_equations.
Open Scope N_scope.

(* the regenerated constants satisfy the side conditions *)
Lemma params_hold : params_ok.
Proof. unfold params_ok. vm_compute. repeat split; try discriminate; auto; lia. Qed.
Local Opaque maxNode4 maxNode16 maxNode48 shrink16 shrink48 shrink256 maxPrefixLen.

Section Facts.
Context {C : Type}.
Implicit Types (n : rnode C) (b : N) (c : C).

(* ---- association lists ---- *)
Lemma assoc_ins_sorted_same : forall b c (l : list (N * C)), assoc b l = None ->
  assoc b (ins_sorted b c l) = Some c.
Proof. exact al_ins_same. Qed.
Lemma assoc_ins_sorted_other : forall b b' c (l : list (N * C)), b' <> b ->
  assoc b' (ins_sorted b c l) = assoc b' l.
Proof. exact al_ins_other. Qed.
Lemma ins_sorted_sorted : forall b c (l : list (N * C)), keys_sorted l -> b < 256 -> assoc b l = None ->
  keys_sorted (ins_sorted b c l).
Proof. exact al_ins_sorted. Qed.
Lemma assoc_rem_key_same : forall b (l : list (N * C)), keys_sorted l -> assoc b (rem_key b l) = None.
Proof. exact al_rem_same. Qed.
Lemma assoc_rem_key_other : forall b b' (l : list (N * C)), b' <> b -> assoc b' (rem_key b l) = assoc b' l.
Proof. exact al_rem_other. Qed.
Lemma rem_key_sorted : forall b (l : list (N * C)), keys_sorted l -> keys_sorted (rem_key b l).
Proof. exact al_rem_sorted. Qed.
Lemma assoc_repl_key_same : forall b c (l : list (N * C)), assoc b l <> None -> assoc b (repl_key b c l) = Some c.
Proof. exact al_repl_same. Qed.
Lemma assoc_repl_key_other : forall b b' c (l : list (N * C)), b' <> b -> assoc b' (repl_key b c l) = assoc b' l.
Proof. exact al_repl_other. Qed.
Lemma repl_key_fst : forall b c (l : list (N * C)), map fst (repl_key b c l) = map fst l.
Proof. exact al_repl_fst. Qed.
Lemma assoc_in : forall b c (l : list (N * C)), assoc b l = Some c -> In (b, c) l.
Proof. exact al_assoc_in. Qed.
Lemma in_assoc : forall b c (l : list (N * C)), keys_sorted l -> In (b, c) l -> assoc b l = Some c.
Proof. exact al_in_assoc. Qed.
Lemma length_ins_sorted : forall b c (l : list (N * C)), length (ins_sorted b c l) = S (length l).
Proof. exact al_length_ins. Qed.
Lemma length_rem_key : forall b (l : list (N * C)), assoc b l <> None -> S (length (rem_key b l)) = length l.
Proof. exact al_length_rem. Qed.
(* two sorted association lists with the same lookups are equal *)
Lemma sorted_assoc_ext : forall (l1 l2 : list (N * C)), keys_sorted l1 -> keys_sorted l2 ->
  (forall b, assoc b l1 = assoc b l2) -> l1 = l2.
Proof. exact al_sorted_ext. Qed.

(* ---- the node layer ---- *)
Theorem nenum_sorted : forall n, nwf n -> keys_sorted (nenum n).
Proof.
  pose proof params_hold as P; unfold params_ok in P.
  destruct P as (Pm4 & Pm16 & Pm48 & Ps16lo & Ps16m4 & Ps16s48 & Ps48m16 & Pm4m16 & Pm16m48 &
                 Ps48s256 & Ps256m48 & Ps256 & Ppl).
  intros [h len keys ch|h len keys ch|h len idx slots|h len slots] Hwf; cbn [nenum].
  - destruct Hwf as (Hp & Hk & Hl & Hm & Hs & s & Hu). subst len. rewrite Nat2N.id.
    unfold keys_sorted. rewrite map_fst_combine by (rewrite firstn_length, lanes_length; lia).
    split; [exact Hs|]. apply Forall_forall. intros x Hx. apply in_firstn in Hx.
    apply (lanes_bytes keys). exact Hx.
  - destruct Hwf as (Hp & Hk & HF & Hl & Hlo & Hm & Hs). subst len. rewrite Nat2N.id.
    unfold keys_sorted. rewrite map_fst_combine by (rewrite firstn_length; lia).
    split; [exact Hs|]. apply Forall_firstn. exact HF.
  - apply nwf48_iff in Hwf. destruct Hwf as (_ & (Hi & _) & _). apply enum_idx_ks. lia.
  - destruct Hwf as (_ & Hsl & _). apply enum_slots_ks. lia.
Qed.

Theorem nfind_spec : forall n b, nwf n -> b < 256 -> nfind n b = assoc b (nenum n).
Proof.
  intros [h len keys ch|h len keys ch|h len idx slots|h len slots] b Hwf Hb.
  - apply n4_find; assumption.
  - apply n16_find; assumption.
  - apply n48_find.
  - apply n256_find.
Qed.

Theorem nadd_spec : forall n b c, nwf n -> b < 256 -> assoc b (nenum n) = None ->
  nwf (nadd n b c) /\ nenum (nadd n b c) = ins_sorted b c (nenum n) /\ nhdr (nadd n b c) = nhdr n.
Proof.
  intros [h len keys ch|h len keys ch|h len idx slots|h len slots] b c Hwf Hb Ha; cbn [nadd nhdr].
  - destruct (len <? maxNode4) eqn:E.
    + apply n4_add_nogrow; try assumption. lia.
    + apply n4_add_grow; try assumption. lia.
  - destruct (len <? maxNode16) eqn:E.
    + apply n16_add_nogrow; try assumption. lia.
    + apply n16_add_grow; try assumption. lia.
  - apply n48_add; assumption.
  - apply n256_add; assumption.
Qed.

Theorem ndel_spec : forall n b, nwf n -> b < 256 -> assoc b (nenum n) <> None ->
  nwf (ndel n b) /\ nenum (ndel n b) = rem_key b (nenum n) /\ nhdr (ndel n b) = nhdr n.
Proof.
  intros [h len keys ch|h len keys ch|h len idx slots|h len slots] b Hwf Hb Ha.
  - apply n4_del; assumption.
  - apply n16_del; assumption.
  - apply n48_del; assumption.
  - apply n256_del; assumption.
Qed.

Theorem nreplace_spec : forall n b c, nwf n -> b < 256 -> assoc b (nenum n) <> None ->
  nwf (nreplace n b c) /\ nenum (nreplace n b c) = repl_key b c (nenum n) /\
  nhdr (nreplace n b c) = nhdr n /\ nlen (nreplace n b c) = nlen n /\ nkind (nreplace n b c) = nkind n.
Proof.
  intros [h len keys ch|h len keys ch|h len idx slots|h len slots] b c Hwf Hb Ha.
  - apply n4_replace; assumption.
  - apply n16_replace; assumption.
  - apply n48_replace; assumption.
  - apply n256_replace; assumption.
Qed.

Lemma nset_hdr_spec : forall n h, nwf n -> length (prefix h) = maxPrefixLen ->
  nwf (nset_hdr n h) /\ nenum (nset_hdr n h) = nenum n /\ nhdr (nset_hdr n h) = h.
Proof.
  intros [h0 len keys ch|h0 len keys ch|h0 len idx slots|h0 len slots] h [Hp H] Hh;
    (split; [split; [exact Hh|exact H]|split; reflexivity]).
Qed.

Lemma nfirst_spec : forall n, nwf n -> nfirst n = hd_error (map snd (nenum n)).
Proof.
  intros [h len keys ch|h len keys ch|h len idx slots|h len slots] Hwf.
  - apply n4_first_last. exact Hwf.
  - apply n16_first_last. exact Hwf.
  - cbn [nfirst]. destruct (nenum _) as [|[k c] l]; reflexivity.
  - cbn [nfirst]. destruct (nenum _) as [|[k c] l]; reflexivity.
Qed.

Lemma nlast_spec : forall n, nwf n -> nlast n = hd_error (rev (map snd (nenum n))).
Proof.
  intros [h len keys ch|h len keys ch|h len idx slots|h len slots] Hwf.
  - apply n4_first_last. exact Hwf.
  - apply n16_first_last. exact Hwf.
  - cbn [nlast]. rewrite <- map_rev. destruct (rev (nenum _)) as [|[k c] l]; reflexivity.
  - cbn [nlast]. rewrite <- map_rev. destruct (rev (nenum _)) as [|[k c] l]; reflexivity.
Qed.

(* recorded fan-out = number of children (mod 256), and it fits the size class *)
Lemma nlen_spec : forall n, nwf n ->
  nlen n = u8 (N.of_nat (length (nenum n))) /\ N.of_nat (length (nenum n)) <= nkind n.
Proof.
  pose proof params_hold as P; unfold params_ok in P.
  destruct P as (Pm4 & Pm16 & Pm48 & Ps16lo & Ps16m4 & Ps16s48 & Ps48m16 & Pm4m16 & Pm16m48 &
                 Ps48s256 & Ps256m48 & Ps256 & Ppl).
  intros [h len keys ch|h len keys ch|h len idx slots|h len slots] Hwf; cbn [nlen nkind].
  - destruct (n4_first_last h len keys ch Hwf) as (_ & _ & H1 & H2). split; assumption.
  - destruct (n16_first_last h len keys ch Hwf) as (_ & _ & H1 & H2 & _). split; assumption.
  - apply nwf48_iff in Hwf. destruct Hwf as (_ & _ & Hl & Hlo & Hm). cbn [nenum].
    unfold u8. lia.
  - destruct Hwf as (_ & Hsl & Hl & Hlo). cbn [nenum].
    destruct (enum_slots_range slots 0) as (_ & _ & HL). split; [exact Hl|lia].
Qed.

Lemma empty4_spec : forall h, length (prefix h) = maxPrefixLen ->
  nwf (@empty4 C h) /\ nenum (@empty4 C h) = [] /\ nhdr (@empty4 C h) = h.
Proof.
  intros h Hp. unfold empty4. split; [|split; reflexivity].
  split; [exact Hp|]. split; [reflexivity|]. split; [reflexivity|]. split; [apply N.le_0_l|].
  split; [constructor|]. exists 0. intros i Hi.
  do 4 (destruct i as [|i]; [reflexivity|]). cbn [length] in Hi. lia.
Qed.

(* what the node4 collapse reads: lane 0 and slot 0 are the first child *)
Lemma n4_first : forall h len keys ch b c rest, nwf (N4 h len keys ch) ->
  nenum (N4 h len keys ch) = (b, c) :: rest ->
  getAtPos keys 0 = b /\ nth_error ch 0 = Some c /\ (rest = [] <-> len = 1).
Proof. exact n4_first_aux. Qed.

(* a node that is not a node4 never has fewer than two children *)
Lemma nbig_two : forall n, nwf n -> nkind n <> 4 -> (2 <= length (nenum n))%nat.
Proof.
  pose proof params_hold as P; unfold params_ok in P.
  destruct P as (Pm4 & Pm16 & Pm48 & Ps16lo & Ps16m4 & Ps16s48 & Ps48m16 & Pm4m16 & Pm16m48 &
                 Ps48s256 & Ps256m48 & Ps256 & Ppl).
  intros [h len keys ch|h len keys ch|h len idx slots|h len slots] Hwf Hk; cbn [nkind] in Hk.
  - congruence.
  - apply n16_first_last. exact Hwf.
  - apply nwf48_iff in Hwf. destruct Hwf as (_ & _ & Hl & Hlo & Hm). cbn [nenum]. lia.
  - destruct Hwf as (_ & Hsl & Hl & Hlo). cbn [nenum]. lia.
Qed.

End Facts.
