(* Basic facts of the tree layer: the fuel-free equations of leaves, inversion of
   WF, what WF says about the leaves below a node (shared path, branch bytes,
   byte strings, non-emptiness), sortedness of the content, and that distinct
   stored keys are never prefixes of one another. *)
From GoArt Require Import Base.Bytes Model.Node4 Model.Node16 Model.Node Model.Tree
  Spec.NodeSpec Spec.TreeSpec Proofs.BytesFacts Proofs.NodeFacts.
From Coq Require Import ZifyN ZifyNat ZifyBool.
Ltac Zify.zify_post_hook ::= Z.div_mod_to_equations.
Open Scope N_scope.

(* ---- heights of children ---- *)
Lemma list_max_in : forall (l : list nat) x, In x l -> (x <= list_max l)%nat.
Proof.
  intros l x H. pose proof (proj1 (list_max_le l (list_max l)) (le_n _)) as HF.
  rewrite Forall_forall in HF. apply HF. exact H.
Qed.

Lemma in_enum_idx_slot : forall {C} (idx : list N) (slots : list (option C)) k b c,
  In (b, c) (enum_idx idx slots k) -> In (Some c) slots.
Proof.
  intros C idx. induction idx as [|i idx IH]; intros slots k b c H; cbn [enum_idx] in H; [contradiction|].
  apply in_app_or in H. destruct H as [H|H]; [|eapply IH; exact H].
  destruct (i =? 0); [contradiction|].
  destruct (nth_error slots (N.to_nat (i - 1))) as [[c'|]|] eqn:E; try contradiction.
  destruct H as [H|[]]. inversion H; subst. eapply nth_error_In. exact E.
Qed.

Lemma in_enum_slots_slot : forall {C} (slots : list (option C)) k b c,
  In (b, c) (enum_slots slots k) -> In (Some c) slots.
Proof.
  intros C slots. induction slots as [|s slots IH]; intros k b c H; cbn [enum_slots] in H; [contradiction|].
  apply in_app_or in H. destruct H as [H|H]; [|right; eapply IH; exact H].
  destruct s as [c'|]; [|contradiction]. destruct H as [H|[]]. inversion H; subst. left. reflexivity.
Qed.

Lemma in_nenum_height : forall (n : rnode tree) b c, In (b, c) (nenum n) ->
  (theight c < theight (Inner n))%nat.
Proof.
  intros [h len keys ch|h len keys ch|h len idx slots|h len slots] b c H; cbn [nenum] in H; cbn [theight].
  - apply in_combine_r in H. apply (in_map theight) in H. apply list_max_in in H. lia.
  - apply in_combine_r in H. apply (in_map theight) in H. apply list_max_in in H. lia.
  - apply in_enum_idx_slot in H.
    apply (in_map (fun o => match o with Some c => theight c | None => 0%nat end)) in H.
    apply list_max_in in H. lia.
  - apply in_enum_slots_slot in H.
    apply (in_map (fun o => match o with Some c => theight c | None => 0%nat end)) in H.
    apply list_max_in in H. lia.
Qed.

Lemma in_nchildren : forall (n : rnode tree) c, In c (nchildren n) -> exists b, In (b, c) (nenum n).
Proof.
  intros n c H. unfold nchildren in H. apply in_map_iff in H. destruct H as ([b c'] & E & H).
  cbn [snd] in E. subst. exists b. exact H.
Qed.

Lemma theight_pos : forall t, (1 <= theight t)%nat.
Proof. intros [gk tk v|n]; cbn [theight]; lia. Qed.

(* ---- leaves: enough fuel is as good as the height ---- *)
Lemma flat_map_ext_in : forall {A B} (f g : A -> list B) l,
  (forall x, In x l -> f x = g x) -> flat_map f l = flat_map g l.
Proof.
  intros A B f g l. induction l as [|x l IH]; intros H; [reflexivity|].
  cbn [flat_map]. rewrite H by (left; reflexivity). f_equal. apply IH. intros y Hy. apply H. right. exact Hy.
Qed.

Lemma leaves_f_enough : forall f t f', (theight t <= f)%nat -> (theight t <= f')%nat ->
  leaves_f f t = leaves_f f' t.
Proof.
  induction f as [|f IH]; intros t f' H1 H2.
  - pose proof (theight_pos t). lia.
  - destruct f' as [|f']; [pose proof (theight_pos t); lia|].
    destruct t as [gk tk v|n]; cbn [leaves_f]; [reflexivity|].
    apply flat_map_ext_in. intros c Hc. apply in_nchildren in Hc. destruct Hc as [b Hc].
    apply in_nenum_height in Hc. apply IH; lia.
Qed.

Lemma leaves_leaf : forall gk tk v, leaves (Leaf gk tk v) = [(gk, tk, v)].
Proof. reflexivity. Qed.

Lemma flat_map_map : forall {A B C} (f : A -> B) (g : B -> list C) l,
  flat_map g (map f l) = flat_map (fun x => g (f x)) l.
Proof.
  intros A B C f g l. induction l as [|x l IH]; [reflexivity|]. cbn [map flat_map]. rewrite IH. reflexivity.
Qed.

Theorem leaves_inner : forall n, leaves (Inner n) = flat_map (fun bc => leaves (snd bc)) (nenum n).
Proof.
  intros n. unfold leaves at 1. destruct (theight (Inner n)) as [|f] eqn:E.
  - pose proof (theight_pos (Inner n)). lia.
  - cbn [leaves_f]. unfold nchildren. rewrite flat_map_map.
    apply flat_map_ext_in. intros [b c] H. cbn [snd]. unfold leaves.
    apply in_nenum_height in H. apply leaves_f_enough; lia.
Qed.

(* ---- inversion of WF ---- *)
Lemma WF_inner_inv : forall d n, WF d (Inner n) ->
  nwf n /\ (2 <= length (nenum n))%nat /\
  (exists q, length q = (d + prefixLen (nhdr n))%nat /\
     Forall (fun l => firstn (d + prefixLen (nhdr n)) (ltk l) = q) (leaves (Inner n)) /\
     firstn (Nat.min (prefixLen (nhdr n)) maxPrefixLen) (prefix (nhdr n)) =
     firstn (Nat.min (prefixLen (nhdr n)) maxPrefixLen) (skipn d q)) /\
  Forall (fun bc => WF (d + prefixLen (nhdr n) + 1) (snd bc) /\
                    Forall (fun l => nth_error (ltk l) (d + prefixLen (nhdr n)) = Some (fst bc))
                           (leaves (snd bc))) (nenum n).
Proof.
  intros d n H. inversion H; subst.
  split; [assumption|]. split; [assumption|]. split; assumption.
Qed.

Lemma WF_child : forall d n b c, WF d (Inner n) -> In (b, c) (nenum n) ->
  WF (d + prefixLen (nhdr n) + 1) c /\
  Forall (fun l => nth_error (ltk l) (d + prefixLen (nhdr n)) = Some b) (leaves c).
Proof.
  intros d n b c H Hin. apply WF_inner_inv in H. destruct H as (_ & _ & _ & HF).
  rewrite Forall_forall in HF. apply (HF (b, c) Hin).
Qed.

Lemma in_leaves_inner : forall n l, In l (leaves (Inner n)) <->
  exists b c, In (b, c) (nenum n) /\ In l (leaves c).
Proof.
  intros n l. rewrite leaves_inner, in_flat_map. split.
  - intros ([b c] & H1 & H2). exists b, c. split; assumption.
  - intros (b & c & H1 & H2). exists (b, c). split; assumption.
Qed.

(* ---- consequences of WF on the leaves ---- *)
Lemma WF_leaves_nonempty : forall f d t, (theight t <= f)%nat -> WF d t -> leaves t <> [].
Proof.
  induction f as [|f IH]; intros d t Hf H.
  - pose proof (theight_pos t). lia.
  - destruct t as [gk tk v|n]; [rewrite leaves_leaf; discriminate|].
    pose proof (WF_inner_inv _ _ H) as (_ & H2 & _ & _).
    destruct (nenum n) as [|[b c] rest] eqn:E; [cbn [length] in H2; lia|].
    assert (Hin : In (b, c) (nenum n)) by (rewrite E; left; reflexivity).
    destruct (WF_child _ _ _ _ H Hin) as [Hc _].
    pose proof (in_nenum_height _ _ _ Hin) as Hh.
    assert (Hne : leaves c <> []) by (eapply IH; [|exact Hc]; lia).
    rewrite leaves_inner, E. cbn [flat_map snd].
    destruct (leaves c); [congruence|discriminate].
Qed.

Lemma WF_nonempty : forall d t, WF d t -> leaves t <> [].
Proof. intros d t. apply (WF_leaves_nonempty (theight t)). lia. Qed.

Lemma WF_isbytes_f : forall f d t, (theight t <= f)%nat -> WF d t ->
  Forall (fun l => isbytes (ltk l) = true) (leaves t).
Proof.
  induction f as [|f IH]; intros d t Hf H.
  - pose proof (theight_pos t). lia.
  - destruct t as [gk tk v|n].
    + inversion H; subst. rewrite leaves_leaf. constructor; [assumption|constructor].
    + apply Forall_forall. intros l Hl. apply in_leaves_inner in Hl.
      destruct Hl as (b & c & Hin & Hl). destruct (WF_child _ _ _ _ H Hin) as [Hc _].
      pose proof (in_nenum_height _ _ _ Hin) as Hh.
      assert (HF : Forall (fun l => isbytes (ltk l) = true) (leaves c)) by (eapply IH; [|exact Hc]; lia).
      rewrite Forall_forall in HF. apply HF. exact Hl.
Qed.

Lemma WF_isbytes : forall d t, WF d t -> Forall (fun l => isbytes (ltk l) = true) (leaves t).
Proof. intros d t. apply (WF_isbytes_f (theight t)). lia. Qed.

(* the shared path of an inner node *)
Lemma WF_path : forall d n, WF d (Inner n) ->
  exists q, length q = (d + prefixLen (nhdr n))%nat /\
    (forall l, In l (leaves (Inner n)) -> firstn (d + prefixLen (nhdr n)) (ltk l) = q) /\
    firstn (Nat.min (prefixLen (nhdr n)) maxPrefixLen) (prefix (nhdr n)) =
    firstn (Nat.min (prefixLen (nhdr n)) maxPrefixLen) (skipn d q).
Proof.
  intros d n H. apply WF_inner_inv in H. destruct H as (_ & _ & (q & Hq & HF & Hi) & _).
  exists q. split; [exact Hq|]. split; [|exact Hi]. rewrite Forall_forall in HF. exact HF.
Qed.

(* a leaf below the child registered under b is at least d + prefixLen + 1 long *)
Lemma WF_leaf_long : forall d n b c l, WF d (Inner n) -> In (b, c) (nenum n) -> In l (leaves c) ->
  nth_error (ltk l) (d + prefixLen (nhdr n)) = Some b /\ (d + prefixLen (nhdr n) < length (ltk l))%nat.
Proof.
  intros d n b c l H Hin Hl. destruct (WF_child _ _ _ _ H Hin) as [_ HF].
  rewrite Forall_forall in HF. specialize (HF l Hl). split; [exact HF|].
  apply nth_error_Some. congruence.
Qed.

(* ---- lexicographic order from a first difference ---- *)
Lemma firstn_nth_split : forall (k : list N) m b, nth_error k m = Some b ->
  k = firstn m k ++ b :: skipn (S m) k.
Proof.
  induction k as [|x k IH]; intros m b H.
  - destruct m; discriminate.
  - destruct m as [|m]; cbn [nth_error] in H.
    + inversion H; subst. reflexivity.
    + cbn [firstn skipn app]. f_equal. apply IH. exact H.
Qed.

Lemma lex_lt_at : forall k1 k2 m b1 b2, firstn m k1 = firstn m k2 ->
  nth_error k1 m = Some b1 -> nth_error k2 m = Some b2 -> b1 < b2 -> lex_lt k1 k2.
Proof.
  intros k1 k2 m b1 b2 Hp H1 H2 Hlt.
  rewrite (firstn_nth_split k1 m b1 H1), (firstn_nth_split k2 m b2 H2), Hp.
  apply lex_lt_first_diff. exact Hlt.
Qed.

Lemma not_prefix_at : forall k1 k2 m b1 b2, firstn m k1 = firstn m k2 ->
  nth_error k1 m = Some b1 -> nth_error k2 m = Some b2 -> b1 <> b2 -> ~ is_prefix k1 k2.
Proof.
  intros k1 k2 m b1 b2 Hp H1 H2 Hne [r Hr]. subst k2.
  rewrite nth_error_app1 in H2 by (apply nth_error_Some; congruence). congruence.
Qed.

(* ---- sortedness of the content ---- *)
Lemma ssorted_app : forall {A} (R : A -> A -> Prop) l1 l2,
  StronglySorted R l1 -> StronglySorted R l2 -> (forall x y, In x l1 -> In y l2 -> R x y) ->
  StronglySorted R (l1 ++ l2).
Proof.
  intros A R l1. induction l1 as [|x l1 IH]; intros l2 H1 H2 H; [exact H2|].
  cbn [app]. apply StronglySorted_inv in H1. destruct H1 as [H1 Hx]. constructor.
  - apply IH; [exact H1|exact H2|]. intros a b Ha Hb. apply H; [right; exact Ha|exact Hb].
  - apply Forall_app. split; [exact Hx|]. apply Forall_forall. intros y Hy. apply H; [left; reflexivity|exact Hy].
Qed.

Lemma ssorted_app_inv : forall {A} (R : A -> A -> Prop) l1 l2, StronglySorted R (l1 ++ l2) ->
  StronglySorted R l1 /\ StronglySorted R l2 /\ (forall x y, In x l1 -> In y l2 -> R x y).
Proof.
  intros A R l1. induction l1 as [|x l1 IH]; intros l2 H.
  - split; [constructor|]. split; [exact H|]. intros x y [].
  - cbn [app] in H. apply StronglySorted_inv in H. destruct H as [H Hx].
    destruct (IH l2 H) as (H1 & H2 & H3). apply Forall_app in Hx. destruct Hx as [Hx1 Hx2].
    split; [constructor; assumption|]. split; [exact H2|].
    intros a b [->|Ha] Hb; [rewrite Forall_forall in Hx2; apply Hx2; exact Hb|apply H3; assumption].
Qed.

(* leaves of a list of (branch byte, child) pairs, in order *)
Definition kid_leaves (kids : list (N * tree)) : list lrec := flat_map (fun bc => leaves (snd bc)) kids.

Lemma kids_sorted : forall m (kids : list (N * tree)),
  StronglySorted N.lt (map fst kids) ->
  (forall b c, In (b, c) kids -> StronglySorted lex_lt (map ltk (leaves c))) ->
  (forall b c l, In (b, c) kids -> In l (leaves c) -> nth_error (ltk l) m = Some b) ->
  (forall l l', In l (kid_leaves kids) -> In l' (kid_leaves kids) -> firstn m (ltk l) = firstn m (ltk l')) ->
  StronglySorted lex_lt (map ltk (kid_leaves kids)).
Proof.
  intros m kids. induction kids as [|[b c] kids IH]; intros HS Hc Hb Hp; [constructor|].
  unfold kid_leaves. cbn [flat_map snd]. rewrite map_app. cbn [map fst] in HS.
  apply StronglySorted_inv in HS. destruct HS as [HS Hlt].
  apply ssorted_app.
  - apply (Hc b c). left. reflexivity.
  - apply IH; [exact HS| | |].
    + intros b' c' H. apply (Hc b' c'). right. exact H.
    + intros b' c' l H. apply (Hb b' c' l). right. exact H.
    + intros l l' H1 H2. apply Hp; unfold kid_leaves; cbn [flat_map snd]; apply in_or_app; right; assumption.
  - intros x y Hx Hy. apply in_map_iff in Hx. destruct Hx as (l & <- & Hl).
    apply in_map_iff in Hy. destruct Hy as (l' & <- & Hl').
    fold (kid_leaves kids) in Hl'. unfold kid_leaves in Hl'. apply in_flat_map in Hl'.
    destruct Hl' as ([b' c'] & Hin' & Hl'). cbn [snd] in Hl'.
    apply (lex_lt_at _ _ m b b').
    + apply Hp; unfold kid_leaves; cbn [flat_map snd]; apply in_or_app.
      * left. exact Hl.
      * right. apply in_flat_map. exists (b', c'). split; assumption.
    + apply (Hb b c l); [left; reflexivity|exact Hl].
    + apply (Hb b' c' l'); [right; exact Hin'|exact Hl'].
    + rewrite Forall_forall in Hlt. apply Hlt. apply (in_map fst) in Hin'. exact Hin'.
Qed.

Lemma content_sorted_f : forall f d t, (theight t <= f)%nat -> WF d t ->
  StronglySorted lex_lt (map ltk (leaves t)).
Proof.
  induction f as [|f IH]; intros d t Hf H.
  - pose proof (theight_pos t). lia.
  - destruct t as [gk tk v|n]; [rewrite leaves_leaf; cbn [map]; repeat constructor|].
    pose proof (WF_inner_inv _ _ H) as (Hn & _ & _ & _).
    destruct (WF_path _ _ H) as (q & Hq & Hall & _).
    rewrite leaves_inner. apply (kids_sorted (d + prefixLen (nhdr n))).
    + apply nenum_sorted. exact Hn.
    + intros b c Hin. destruct (WF_child _ _ _ _ H Hin) as [Hc _].
      pose proof (in_nenum_height _ _ _ Hin). eapply IH; [|exact Hc]. lia.
    + intros b c l Hin Hl. apply (WF_leaf_long d n b c l H Hin Hl).
    + intros l l' Hl Hl'. unfold kid_leaves in Hl, Hl'. rewrite <- leaves_inner in Hl, Hl'.
      rewrite (Hall l Hl), (Hall l' Hl'). reflexivity.
Qed.

Theorem content_sorted : forall d t, WF d t -> StronglySorted lex_lt (map ltk (leaves t)).
Proof. intros d t. apply (content_sorted_f (theight t)). lia. Qed.

(* ---- distinct stored keys are never prefixes of one another ---- *)
Lemma WF_prefix_free_f : forall f d t, (theight t <= f)%nat -> WF d t ->
  forall l l', In l (leaves t) -> In l' (leaves t) -> is_prefix (ltk l) (ltk l') -> l = l'.
Proof.
  induction f as [|f IH]; intros d t Hf H l l' Hl Hl' Hpre.
  - pose proof (theight_pos t). lia.
  - destruct t as [gk tk v|n].
    + rewrite leaves_leaf in Hl, Hl'. destruct Hl as [<-|[]]. destruct Hl' as [<-|[]]. reflexivity.
    + destruct (WF_path _ _ H) as (q & Hq & Hall & _).
      pose proof (WF_inner_inv _ _ H) as (Hn & _ & _ & _).
      pose proof (Hall l Hl) as Hpl. pose proof (Hall l' Hl') as Hpl'.
      apply in_leaves_inner in Hl. destruct Hl as (b & c & Hin & Hl).
      apply in_leaves_inner in Hl'. destruct Hl' as (b' & c' & Hin' & Hl').
      destruct (WF_leaf_long _ _ _ _ _ H Hin Hl) as [Hb _].
      destruct (WF_leaf_long _ _ _ _ _ H Hin' Hl') as [Hb' _].
      destruct (N.eq_dec b b') as [->|Hne].
      * pose proof (nenum_sorted n Hn) as Hks.
        assert (c = c').
        { pose proof (in_assoc _ _ _ Hks Hin) as A1. pose proof (in_assoc _ _ _ Hks Hin') as A2. congruence. }
        subst c'. destruct (WF_child _ _ _ _ H Hin) as [Hc _].
        pose proof (in_nenum_height _ _ _ Hin). eapply (IH _ c); [|exact Hc| | |]; try assumption. lia.
      * exfalso. revert Hpre. apply (not_prefix_at _ _ (d + prefixLen (nhdr n)) b b'); try assumption.
        congruence.
Qed.

Theorem WF_prefix_free : forall d t, WF d t ->
  forall l l', In l (leaves t) -> In l' (leaves t) -> is_prefix (ltk l) (ltk l') -> l = l'.
Proof. intros d t. apply (WF_prefix_free_f (theight t)). lia. Qed.

(* in a well-formed tree a transformed key is stored at most once *)
Corollary WF_tk_inj : forall d t l l', WF d t -> In l (leaves t) -> In l' (leaves t) ->
  ltk l = ltk l' -> l = l'.
Proof.
  intros d t l l' H Hl Hl' E. apply (WF_prefix_free d t H l l' Hl Hl'). rewrite E. apply is_prefix_refl.
Qed.
