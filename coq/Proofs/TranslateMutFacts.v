(* The regenerated heap-passing translations of Delete / Insert (Gen/MutGen.v, vocabulary Model/GoHeap.v)
   against the hand-written pool-aware model Model/PoolTree.v.

   Part A (this section): co-simulation BY COMPUTATION.  Histories of Insert / Delete calls are run through the
   regenerated functions (over the explicit heap) and through the model (xstep over raw value trees); after
   EVERY call the two must show the same output, the same t.size, the same pool and the same tree
   (the tree the heap holds below t.root, read back by reify, compared through the abstraction tabs that
   drops stale cells: a stale cell of the heap is a stale POINTER, a stale cell of the model a stale VALUE). *)
From GoArt Require Import Base.Bytes Model.Node4 Model.Node16 Model.Node Model.Tree Model.Iter Model.Api
  Spec.NodeSpec Spec.TreeSpec Proofs.BytesFacts Proofs.NodeFacts Proofs.TreeBasics
  Model.Pool Proofs.PoolFacts Model.PoolTree Proofs.PoolTreeFacts Model.GoNode Model.GoTree Model.GoHeap
  Gen.NodeGen Gen.TreeGen Proofs.NodeAuxList Proofs.TranslateNodeFacts Proofs.TranslateTreeFacts Gen.MutGen.
From Coq Require Import ZifyN ZifyNat ZifyBool.
Ltac Zify.zify_post_hook ::= Z.div_mod_to_equations.
Open Scope N_scope.




(* ================= A. co-simulation by computation ================= *)
(* what a caller of kind k passes: the results of Transform (alpha: before the terminator is appended) *)
Definition call_insert (k : Api.kind) (fuel : nat) (h : heap) (r : href) (s : Z) (a : akey) (v : Z)
                       (os : list choice) (p : hpool) : mres unit :=
  match k, a with
  | KAlpha, AB l => g_alpha_insert fuel h r s l v os p
  | KUnsigned w, AU x => g_unsigned_insert fuel h r s (snd (transform k a)) v os p
  | KSigned w, AS x => g_signed_insert fuel h r s (snd (transform k a)) v os p
  | KFloat w, AF b => g_float_insert fuel h r s (snd (transform k a)) v os p
  | KCollation, AC o c => g_collation_insert fuel h r s o c v os p
  | KCompound sch, AT vs => g_compound_insert fuel h r s (snd (transform k a)) v os p
  | KCodec enc dec, AB u => g_compound_insert fuel h r s (enc u) v os p
  | _, _ => MPanic
  end.
Definition call_delete (k : Api.kind) (fuel : nat) (h : heap) (r : href) (s : Z) (a : akey)
                       (os : list choice) (p : hpool) : mres bool :=
  match k, a with
  | KAlpha, AB l => g_alpha_delete fuel h r s l os p
  | KUnsigned w, AU x => g_unsigned_delete fuel h r s (snd (transform k a)) os p
  | KSigned w, AS x => g_signed_delete fuel h r s (snd (transform k a)) os p
  | KFloat w, AF b => g_float_delete fuel h r s (snd (transform k a)) os p
  | KCollation, AC o c => g_collation_delete fuel h r s o c os p
  | KCompound sch, AT vs => g_compound_delete fuel h r s (snd (transform k a)) os p
  | KCodec enc dec, AB u => g_compound_delete fuel h r s (enc u) os p
  | _, _ => MPanic
  end.

(* what is compared after every call: output, abstract tree, size, pool *)
Definition view : Type := out * option tree * Z * hpool.
Record gstate := mkG { g_heap : heap; g_root : href; g_size : Z; g_pool : hpool }.
Definition g_view (o : out) (g : gstate) : view :=
  (o, option_map tabs (h_reify (g_heap g) (g_root g)), g_size g, g_pool g).
Definition x_view (o : out) (st : xstate) (p : xpool) : view :=
  (o, option_map tabs (xroot st), xsize st, map_pool p).

(* the two regenerated methods of one tree, as the caller of kind k sees them *)
Definition ins_fn : Type := nat -> heap -> href -> Z -> akey -> Z -> list choice -> hpool -> mres unit.
Definition del_fn : Type := nat -> heap -> href -> Z -> akey -> list choice -> hpool -> mres bool.

Definition gf_step (ins : ins_fn) (del : del_fn) (k : Api.kind) (g : gstate) (o : op) (os : list choice) : gstate * out :=
  let fuel := key_fuel (snd (transform k (match o with Insert a _ | Delete a => a | _ => AB [] end))) in
  match o with
  | Insert a v =>
    match ins fuel (g_heap g) (g_root g) (g_size g) a v os (g_pool g) with
    | MDone h r s _ p _ => (mkG h r s p, OUnit)
    | MPanic => (g, OPanic)
    | MFuel => (g, OFuel)
    end
  | Delete a =>
    match del fuel (g_heap g) (g_root g) (g_size g) a os (g_pool g) with
    | MDone h r s _ p b => (mkG h r s p, OBool b)
    | MPanic => (g, OPanic)
    | MFuel => (g, OFuel)
    end
  | _ => (g, ONone)
  end.
Definition g_step (k : Api.kind) := gf_step (call_insert k) (call_delete k) k.

Fixpoint gf_run (ins : ins_fn) (del : del_fn) (k : Api.kind) (g : gstate) (evs : list (op * list choice)) : list view :=
  match evs with
  | [] => []
  | (o, os) :: evs' => let r := gf_step ins del k g o os in g_view (snd r) (fst r) :: gf_run ins del k (fst r) evs'
  end.
Definition g_run (k : Api.kind) := gf_run (call_insert k) (call_delete k) k.
Fixpoint x_run (k : Api.kind) (st : xstate) (p : xpool) (evs : list (op * list choice)) : list view :=
  match evs with
  | [] => []
  | (o, os) :: evs' =>
    let r := xstep k st o os p in x_view (snd (fst r)) (fst (fst r)) (snd r) :: x_run k (fst (fst r)) (snd r) evs'
  end.
Definition g_init : gstate := mkG heap0 None 0 [].
Definition fresh_ops (l : list op) : list (op * list choice) := map (fun o => (o, [])) l.
(* the kind of the root node after a history, to check that the history exercises what it claims *)
Definition g_root_kind (k : Api.kind) (evs : list (op * list choice)) : option gkind :=
  let g := fold_left (fun g e => fst (g_step k g (fst e) (snd e))) evs g_init in h_tag (g_heap g) (g_root g).

(* A1. alpha: overwrite, leaf split, a compressed path of 15 bytes split beyond the inline bytes (the branch
   byte and the rest of the path come from the minimum leaf: node.prefixLen > maxPrefixLen) and inside them
   (node.prefixLen <= maxPrefixLen), descent, node4 -> node16 growth, node16 -> node4 shrink with the released
   node16 REUSED by the next growth, node4 collapse onto an inner child (merged path) and onto a leaf, absent
   keys, deletion of the last key *)
Definition a15 (x : N) : akey := AB [97;97;97;97;97;97;97;97;97;97;97;97;97;97;97;x].
Definition ex_alpha : list (op * list choice) :=
  fresh_ops [Insert (a15 98) 1%Z; Insert (a15 99) 2%Z; Insert (a15 98) 3%Z;
             Insert (AB [97;97;97;97;97;97;97;97;97;97;97;97;81]) 4%Z;     (* split at 12 of 15: leaf bytes *)
             Insert (AB [97;97;97;88]) 5%Z;                                 (* split at 3 of 12 > 10: leaf bytes *)
             Insert (AB [97;90]) 6%Z;                                       (* split at 1 of 3 <= 10: inline *)
             Insert (AB [97]) 7%Z;                                          (* descends one path, adds a child  *)
             Insert (AB [98]) 8%Z; Insert (AB [99]) 9%Z; Insert (AB [100]) 10%Z;
             Insert (AB [101]) 11%Z;                                        (* the root grows to a node16 *)
             Delete (AB [120]); Delete (AB [97;97]);
             Delete (AB [101]); Delete (AB [100])]                          (* the root shrinks to a node4 *)
  ++ [(Insert (AB [102]) 12%Z, []); (Insert (AB [103]) 13%Z, [Reuse 0])]   (* grows again into the released node16 *)
  ++ fresh_ops [Delete (AB [103]); Delete (AB [102]); Delete (AB [99]); Delete (AB [98]);
                Delete (AB [97]);
                Delete (AB [97;90]);                                        (* collapse onto an inner child *)
                Delete (AB [97;97;97;88]);                                  (* collapse: merged path 3+1+8 > 10 *)
                Delete (a15 99);
                Delete (AB [97;97;97;97;97;97;97;97;97;97;97;97;81]);       (* collapse onto a leaf: root leaf *)
                Delete (a15 98); Delete (a15 98); Insert (AB []) 14%Z].
Example ex_alpha_cosim : g_run KAlpha g_init ex_alpha = x_run KAlpha xinit [] ex_alpha.
Proof. vm_compute. reflexivity. Qed.
Example ex_alpha_exercises :
  g_root_kind KAlpha (firstn 11 ex_alpha) = Some Kind16 /\ g_root_kind KAlpha (firstn 15 ex_alpha) = Some Kind4 /\
  g_root_kind KAlpha (firstn 17 ex_alpha) = Some Kind16 /\ g_root_kind KAlpha (firstn 28 ex_alpha) = None /\
  map (fun v : view => fst (fst (fst v))) (x_run KAlpha xinit [] ex_alpha) =
    repeat OUnit 11 ++ [OBool false; OBool false; OBool true; OBool true; OUnit; OUnit] ++ repeat (OBool true) 10 ++
    [OBool false; OUnit].
Proof. vm_compute. repeat split. Qed.

(* A2. alpha: 60 one-byte keys: node4 -> node16 -> node48 -> node256, then down again through every shrink
   threshold (256 -> 48 at 37, 48 -> 16 at 12, 16 -> 4 at 3), every Get answered by the released node when
   there is one *)
Definition ex_wide : list (op * list choice) :=
  map (fun i => (Insert (AB [N.of_nat i]) (Z.of_nat i), [Reuse 0; Reuse 0])) (seq 1 60) ++
  map (fun i => (Delete (AB [N.of_nat i]), [Reuse 0])) (seq 1 60) ++
  map (fun i => (Insert (AB [N.of_nat i; 7]) (Z.of_nat i), [Reuse 0; Reuse 0])) (seq 1 20).
Example ex_wide_cosim : g_run KAlpha g_init ex_wide = x_run KAlpha xinit [] ex_wide.
Proof. vm_compute. reflexivity. Qed.
Example ex_wide_exercises :
  g_root_kind KAlpha (firstn 17 ex_wide) = Some Kind48 /\ g_root_kind KAlpha (firstn 49 ex_wide) = Some Kind256 /\
  g_root_kind KAlpha (firstn 83 ex_wide) = Some Kind48 /\ g_root_kind KAlpha (firstn 108 ex_wide) = Some Kind16 /\
  g_root_kind KAlpha (firstn 117 ex_wide) = Some Kind4 /\ g_root_kind KAlpha (firstn 120 ex_wide) = None.
Proof. vm_compute. repeat split. Qed.

(* A3. the other five trees on one history each (same template, different key preparation; collation has its
   own source text: two keys, the leaf test first) *)
Definition ex_col (o c : list N) : akey := AC o c.
Definition ex_collation : list (op * list choice) :=
  fresh_ops [Insert (ex_col [1] [5;5;5;5;5;5;5;5;5;5;5;5;1]) 1%Z; Insert (ex_col [2] [5;5;5;5;5;5;5;5;5;5;5;5;2]) 2%Z;
             Insert (ex_col [3] [5;5;5;5;5;5;5;5;5;5;5;9]) 3%Z; Insert (ex_col [4] [5;5;7]) 4%Z;
             Insert (ex_col [1] [5;5;5;5;5;5;5;5;5;5;5;5;1]) 5%Z; Insert (ex_col [5] [5;8]) 6%Z;
             Insert (ex_col [6] [6]) 7%Z; Insert (ex_col [7] [7]) 8%Z; Insert (ex_col [8] [8]) 9%Z;
             Insert (ex_col [9] [9]) 10%Z;
             Delete (ex_col [9] [9]); Delete (ex_col [77] [9]); Delete (ex_col [8] [8]); Delete (ex_col [7] [7]);
             Delete (ex_col [6] [6]); Delete (ex_col [5] [5;8]); Delete (ex_col [4] [5;5;7]);
             Delete (ex_col [3] [5;5;5;5;5;5;5;5;5;5;5;9]); Delete (ex_col [2] [5;5;5;5;5;5;5;5;5;5;5;5;2]);
             Delete (ex_col [1] [5;5;5;5;5;5;5;5;5;5;5;5;1]); Delete (ex_col [1] [5;5;5;5;5;5;5;5;5;5;5;5;1])].
Example ex_collation_cosim : g_run KCollation g_init ex_collation = x_run KCollation xinit [] ex_collation.
Proof. vm_compute. reflexivity. Qed.

Definition ex_codec_ops (mk : list N -> akey) : list (op * list choice) :=
  fresh_ops [Insert (mk [1;1;1;1;1;1;1;1;1;1;1;1;1;2]) 1%Z; Insert (mk [1;1;1;1;1;1;1;1;1;1;1;1;1;3]) 2%Z;
             Insert (mk [1;1;1;1;1;1;1;1;1;1;1;1;9;9]) 3%Z; Insert (mk [1;1;1;7;7;7;7;7;7;7;7;7;7;7]) 4%Z;
             Insert (mk [1;4;4;4;4;4;4;4;4;4;4;4;4;4]) 5%Z; Insert (mk [2;0;0;0;0;0;0;0;0;0;0;0;0;0]) 6%Z;
             Insert (mk [3;0;0;0;0;0;0;0;0;0;0;0;0;0]) 7%Z; Insert (mk [4;0;0;0;0;0;0;0;0;0;0;0;0;0]) 8%Z;
             Insert (mk [5;0;0;0;0;0;0;0;0;0;0;0;0;0]) 9%Z; Insert (mk [1;1;1;1;1;1;1;1;1;1;1;1;1;2]) 10%Z;
             Delete (mk [5;0;0;0;0;0;0;0;0;0;0;0;0;0]); Delete (mk [4;0;0;0;0;0;0;0;0;0;0;0;0;0]);
             Delete (mk [3;0;0;0;0;0;0;0;0;0;0;0;0;0]); Delete (mk [2;0;0;0;0;0;0;0;0;0;0;0;0;0]);
             Delete (mk [1;4;4;4;4;4;4;4;4;4;4;4;4;4]); Delete (mk [1;1;1;7;7;7;7;7;7;7;7;7;7;7]);
             Delete (mk [1;1;1;1;1;1;1;1;1;1;1;1;9;9]); Delete (mk [1;1;1;1;1;1;1;1;1;1;1;1;1;3]);
             Delete (mk [9]); Delete (mk [1;1;1;1;1;1;1;1;1;1;1;1;1;2])].
(* the codec-parametric compound tree with the identity codec: the byte strings above are the transform keys *)
Definition k_id : Api.kind := KCodec (fun l => l) (fun l => l).
Example ex_compound_cosim : g_run k_id g_init (ex_codec_ops AB) = x_run k_id xinit [] (ex_codec_ops AB).
Proof. vm_compute. reflexivity. Qed.

(* A4. one byte-level history with pairwise different path bytes, run through EACH of the four other template
   instances (they take the transform key as it is; the model is Api.KCodec with the identity codec).  It
   covers: an inline compressed-path split whose branch byte differs from every byte the shifted path holds
   at that index afterwards (the order "link the old node, then rewrite its header"); a descent through a path
   longer than the inline bytes on which the key agrees with the minimum leaf BEYOND the path (prefixMismatch
   returns more than node.prefixLen); a Delete and an Insert whose key ends exactly at an inner node *)
Definition tkey (l : list N) : akey := AB l.
Definition ex_bytes : list (op * list choice) :=
  fresh_ops [Insert (tkey [1;2;3;4;5;9]) 1%Z; Insert (tkey [1;2;3;4;5;8]) 2%Z;
             Insert (tkey [1;2;7;7;7;7]) 3%Z;                          (* inline split at 2: branch byte 3 *)
             Insert (tkey [1;2;3;4;6;6]) 4%Z;                          (* below: inline split at 1 of [4;5] *)
             Delete (tkey [1;2]); Insert (tkey [1;2]) 5%Z;             (* the key ends at an inner node *)
             Delete (tkey [1;2;3;4]); Delete (tkey [1;2;3;4;5]);
             Insert (tkey [20;21;22;23;24;25;26;27;28;29;30;31;32;33;40;41]) 6%Z;
             Insert (tkey [20;21;22;23;24;25;26;27;28;29;30;31;32;33;50;41]) 7%Z;   (* a path of 14 bytes *)
             Insert (tkey [20;21;22;23;24;25;26;27;28;29;30;31;32;33;40;42]) 8%Z;   (* agrees with the minimum leaf on 15 *)
             Insert (tkey [20;21;22;23;24;25;26;27;28;29;30;31;77;33;40;42]) 9%Z;   (* split at 12 of 14: leaf bytes *)
             Insert (tkey [20;21;22;23;88;25;26;27;28;29;30;31;32;33;40;42]) 10%Z;  (* split at 4 of 12: leaf bytes *)
             Insert (tkey [20;21;99]) 11%Z;                                          (* split at 2 of 4: inline *)
             Delete (tkey [20;21;22;23;24;25;26;27;28;29;30;31;32;33;40;42]);
             Delete (tkey [20;21;22;23;24;25;26;27;28;29;30;31;32;33;50;41]);        (* collapse onto a leaf *)
             Delete (tkey [20;21;22;23;24;25;26;27;28;29;30;31;77;33;40;42]);        (* collapse: merged path *)
             Delete (tkey [20;21;99]); Delete (tkey [20;21;22;23;88;25;26;27;28;29;30;31;32;33;40;42]);
             Delete (tkey [1;2;3;4;5;9]); Delete (tkey [1;2;3;4;5;8]); Delete (tkey [1;2;3;4;6;6]);
             Delete (tkey [1;2;7;7;7;7]); Delete (tkey [20;21;22;23;24;25;26;27;28;29;30;31;32;33;40;41]);
             Delete (tkey [1])].
Definition bytes_ins (f : nat -> heap -> href -> Z -> list N -> Z -> list choice -> hpool -> mres unit) : ins_fn :=
  fun fuel h r s a v os p => match a with AB l => f fuel h r s l v os p | _ => MPanic end.
Definition bytes_del (f : nat -> heap -> href -> Z -> list N -> list choice -> hpool -> mres bool) : del_fn :=
  fun fuel h r s a os p => match a with AB l => f fuel h r s l os p | _ => MPanic end.
Example ex_bytes_outputs : map (fun v : view => fst (fst (fst v))) (x_run k_id xinit [] ex_bytes) =
  repeat OUnit 4 ++ [OBool false; OUnit; OBool false; OBool false] ++ repeat OUnit 6 ++ repeat (OBool true) 10 ++ [OBool false].
Proof. vm_compute. reflexivity. Qed.
Example ex_unsigned_cosim :
  gf_run (bytes_ins g_unsigned_insert) (bytes_del g_unsigned_delete) k_id g_init ex_bytes = x_run k_id xinit [] ex_bytes.
Proof. vm_compute. reflexivity. Qed.
Example ex_signed_cosim :
  gf_run (bytes_ins g_signed_insert) (bytes_del g_signed_delete) k_id g_init ex_bytes = x_run k_id xinit [] ex_bytes.
Proof. vm_compute. reflexivity. Qed.
Example ex_float_cosim :
  gf_run (bytes_ins g_float_insert) (bytes_del g_float_delete) k_id g_init ex_bytes = x_run k_id xinit [] ex_bytes.
Proof. vm_compute. reflexivity. Qed.
Example ex_compound_bytes_cosim :
  gf_run (bytes_ins g_compound_insert) (bytes_del g_compound_delete) k_id g_init ex_bytes = x_run k_id xinit [] ex_bytes.
Proof. vm_compute. reflexivity. Qed.
(* the same history through alpha (the terminator 0 is appended by the method) and through collation
   (transform key = the bytes, original key = the bytes reversed) *)
Example ex_alpha_bytes_cosim : g_run KAlpha g_init ex_bytes = x_run KAlpha xinit [] ex_bytes.
Proof. vm_compute. reflexivity. Qed.
Definition to_col (e : op * list choice) : op * list choice :=
  (match fst e with
   | Insert (AB l) v => Insert (AC (rev l) l) v
   | Delete (AB l) => Delete (AC (rev l) l)
   | o => o
   end, snd e).
Example ex_collation_bytes_cosim :
  g_run KCollation g_init (map to_col ex_bytes) = x_run KCollation xinit [] (map to_col ex_bytes).
Proof. vm_compute. reflexivity. Qed.

(* ================= N. the node operations of Model/Pool.v commute with mapping the children ================= *)
Local Opaque maxNode4 maxNode16 maxNode48 shrink16 shrink48 shrink256 maxPrefixLen.

(* ---------------- list helpers ---------------- *)
Section MapLists.
Context {A B : Type} (g : A -> B).

Lemma map_gcopy : forall off (src dst : list A),
  map g (gcopy off src dst) = gcopy off (map g src) (map g dst).
Proof.
  intros off src dst. unfold gcopy.
  rewrite !map_app, !map_length, <- !firstn_map, <- !skipn_map. reflexivity.
Qed.

Lemma map_shift_right_from : forall lo (l : list A),
  map g (shift_right_from lo l) = shift_right_from lo (map g l).
Proof.
  intros lo l. unfold shift_right_from.
  rewrite map_length, <- firstn_map, map_app, <- firstn_map, <- skipn_map. reflexivity.
Qed.

Lemma map_shift_left_onto : forall pos (l : list A),
  map g (shift_left_onto pos l) = shift_left_onto pos (map g l).
Proof.
  intros pos l. unfold shift_left_onto.
  rewrite map_length, !map_app, <- firstn_map, <- !skipn_map. reflexivity.
Qed.

Lemma forallb_map_c : forall (q : B -> bool) (l : list A), forallb q (map g l) = forallb (fun a => q (g a)) l.
Proof.
  intros q l. induction l as [|a l IH]; cbn [map forallb]; [reflexivity|]. rewrite IH. reflexivity.
Qed.
End MapLists.

Lemma forallb_ext_c : forall {A} (q r : A -> bool) (l : list A), (forall a, q a = r a) -> forallb q l = forallb r l.
Proof.
  intros A q r l H. induction l as [|a l IH]; cbn [forallb]; [reflexivity|]. rewrite H, IH. reflexivity.
Qed.

Section XNat.
Context {C D : Type} (f : C -> D).
Local Notation om := (omap f).
Local Notation xm := (xmap f).

(* ---------------- 1. projections and predicates ---------------- *)
Lemma xkind_xmap : forall n : xnode C, xkind (xmap f n) = xkind n.
Proof. intros [h keys ch|h keys ch|h idx ch|h ch]; reflexivity. Qed.

Lemma xch_xmap : forall n : xnode C, xch (xmap f n) = map (omap f) (xch n).
Proof. intros [h keys ch|h keys ch|h idx ch|h ch]; reflexivity. Qed.

Lemma xbytes_xmap : forall n : xnode C, xbytes (xmap f n) = xbytes n.
Proof. intros [h keys ch|h keys ch|h idx ch|h ch]; reflexivity. Qed.

Lemma xword_xmap : forall n : xnode C, xword (xmap f n) = xword n.
Proof. intros [h keys ch|h keys ch|h idx ch|h ch]; reflexivity. Qed.

Lemma shape_ok_xmap : forall n : xnode C, shape_ok (xmap f n) = shape_ok n.
Proof.
  intros [h keys ch|h keys ch|h idx ch|h ch]; cbn [xmap shape_ok]; rewrite map_length; reflexivity.
Qed.

Lemma occupied_ok_xmap : forall n : xnode C, occupied_ok (xmap f n) = occupied_ok n.
Proof.
  intros [h keys ch|h keys ch|h idx ch|h ch]; cbn [xmap occupied_ok]; try reflexivity;
    rewrite firstn_map, forallb_map_c; apply forallb_ext_c; intros [c|]; reflexivity.
Qed.

Lemma allnil_omap : forall l : list (option C), allnil (map om l) = allnil l.
Proof.
  intros l. unfold allnil. rewrite forallb_map_c. apply forallb_ext_c. intros [c|]; reflexivity.
Qed.

Lemma is_zero_xmap : forall n : xnode C, is_zero (xmap f n) = is_zero n.
Proof.
  intros [h keys ch|h keys ch|h idx ch|h ch]; cbn [xmap is_zero]; rewrite allnil_omap, map_length; reflexivity.
Qed.

(* ---------------- 2. clear, new ---------------- *)
Lemma clear_with_xmap : forall resets (n : xnode C),
  clear_with resets (xmap f n) = xmap f (clear_with resets n).
Proof.
  intros resets [h keys ch|h keys ch|h idx ch|h ch]; cbn [xmap clear_with];
    repeat match goal with |- context [has ?s resets] => destruct (has s resets) end;
    try rewrite map_repeat_None; reflexivity.
Qed.

Lemma xclear_xmap : forall n : xnode C, xclear (xmap f n) = xmap f (xclear n).
Proof. intros n. unfold xclear. rewrite xkind_xmap. apply clear_with_xmap. Qed.

Lemma xzero_xmap : forall k, xmap f (xzero k) = xzero k.
Proof. intros [| | |]; cbn [xzero xmap]; rewrite map_repeat_None; reflexivity. Qed.

(* ---------------- 3. the pool ---------------- *)
Lemma take_kind_xmap : forall k i (p : @pool C),
  take_kind k i (map xm p) =
  match take_kind k i p with
  | Some r => Some (xmap f (fst r), map xm (snd r))
  | None => None
  end.
Proof.
  intros k i p. revert i. induction p as [|n p IH]; intros i; cbn [map take_kind]; [reflexivity|].
  rewrite xkind_xmap. destruct (kind_eqb (xkind n) k).
  - destruct i as [|i]; [reflexivity|]. rewrite IH. destruct (take_kind k i p) as [r|]; reflexivity.
  - rewrite IH. destruct (take_kind k i p) as [r|]; reflexivity.
Qed.

Lemma get_xmap : forall o k (p : @pool C),
  get o k (map (xmap f) p) = (xmap f (fst (get o k p)), map (xmap f) (snd (get o k p))).
Proof.
  intros [|i] k p; unfold get; cbn [fst snd].
  - rewrite xzero_xmap. reflexivity.
  - rewrite take_kind_xmap. destruct (take_kind k i p) as [r|]; cbn [fst snd]; [reflexivity|].
    rewrite xzero_xmap. reflexivity.
Qed.

(* ---------------- 4. the loops ---------------- *)
Lemma slot_at_omap : forall (slots : list (option C)) j, slot_at (map om slots) j = om (slot_at slots j).
Proof.
  intros slots j. unfold slot_at. rewrite nth_error_map.
  destruct (nth_error slots (N.to_nat j)) as [[c|]|]; reflexivity.
Qed.

Lemma grow48_loop_omap : forall idx (slots dst : list (option C)),
  grow48_loop idx (map om slots) (map om dst) = map om (grow48_loop idx slots dst).
Proof.
  induction idx as [|i idx IH]; intros slots [|d dst]; cbn [map grow48_loop]; try reflexivity.
  rewrite IH, slot_at_omap. destruct (i =? 0); reflexivity.
Qed.

Lemma shrink256_loop_omap : forall (src : list (option C)) i pos idx ch,
  shrink256_loop (map om src) i pos idx (map om ch) =
  (fst (shrink256_loop src i pos idx ch), map om (snd (shrink256_loop src i pos idx ch))).
Proof.
  induction src as [|[c|] src IH]; intros i pos idx ch; cbn [map omap shrink256_loop fst snd]; [reflexivity| |apply IH].
  rewrite <- IH. rewrite (map_set_at om). reflexivity.
Qed.

Lemma shrink48_loop_omap : forall idx (slots : list (option C)) i k keys ch,
  shrink48_loop idx (map om slots) i k keys (map om ch) =
  (fst (shrink48_loop idx slots i k keys ch), map om (snd (shrink48_loop idx slots i k keys ch))).
Proof.
  induction idx as [|pos idx IH]; intros slots i k keys ch; cbn [shrink48_loop fst snd]; [reflexivity|].
  destruct (pos =? 0); [apply IH|].
  rewrite <- IH. rewrite (map_set_at om), slot_at_omap. reflexivity.
Qed.

(* ---------------- 4. addChild ---------------- *)
Lemma xadd256_xmap : forall h (ch : list (option C)) b c,
  xadd256 h (map om ch) b (f c) = xmap f (xadd256 h ch b c).
Proof. intros. unfold xadd256. cbn [xmap]. rewrite (map_set_at om). reflexivity. Qed.

Lemma xadd48_xmap : forall h idx (ch : list (option C)) b c os p,
  xadd48 h idx (map om ch) b (f c) os (map xm p) =
  (xmap f (fst (xadd48 h idx ch b c os p)), map xm (snd (xadd48 h idx ch b c os p))).
Proof.
  intros. unfold xadd48. destruct (xlen h <? maxNode48); cbv zeta; cbn [fst snd].
  - cbn [xmap]. rewrite first_free_omap, (map_set_at om). reflexivity.
  - rewrite get_xmap. cbn [fst snd]. unfold put. cbn [map].
    rewrite xh_xmap, xch_xmap, grow48_loop_omap, xadd256_xmap.
    change (X48 h idx (map om ch)) with (xmap f (X48 h idx ch)). rewrite xclear_xmap. reflexivity.
Qed.

Lemma xadd16_xmap : forall h keys (ch : list (option C)) b c os p,
  xadd16 h keys (map om ch) b (f c) os (map xm p) =
  (xmap f (fst (xadd16 h keys ch b c os p)), map xm (snd (xadd16 h keys ch b c os p))).
Proof.
  intros. unfold xadd16. destruct (xlen h <? maxNode16); cbv zeta.
  - destruct (_ =? _)%Z; cbn [fst snd xmap].
    + rewrite (map_set_at om). reflexivity.
    + rewrite (map_set_at om), map_shift_right_from. reflexivity.
  - rewrite get_xmap. cbn [fst snd]. unfold put.
    rewrite xh_xmap, xch_xmap, xbytes_xmap, firstn_map, <- map_gcopy, xadd48_xmap. cbn [fst snd map].
    change (X16 h keys (map om ch)) with (xmap f (X16 h keys ch)). rewrite xclear_xmap. reflexivity.
Qed.

Lemma xadd4_xmap : forall h keys (ch : list (option C)) b c os p,
  xadd4 h keys (map om ch) b (f c) os (map xm p) =
  (xmap f (fst (xadd4 h keys ch b c os p)), map xm (snd (xadd4 h keys ch b c os p))).
Proof.
  intros. unfold xadd4. destruct (xlen h <? maxNode4); cbv zeta.
  - destruct (_ =? _)%Z; cbn [fst snd xmap].
    + rewrite (map_set_at om). reflexivity.
    + rewrite (map_set_at om), map_shift_right_from. reflexivity.
  - rewrite get_xmap. cbn [fst snd]. unfold put.
    rewrite xh_xmap, xch_xmap, xbytes_xmap, <- map_gcopy, xadd16_xmap. cbn [fst snd map].
    change (X4 h keys (map om ch)) with (xmap f (X4 h keys ch)). rewrite xclear_xmap. reflexivity.
Qed.

Theorem xadd_xmap : forall (n : xnode C) b c os p,
  xadd (xmap f n) b (f c) os (map (xmap f) p) =
  (xmap f (fst (xadd n b c os p)), map (xmap f) (snd (xadd n b c os p))).
Proof.
  intros [h keys ch|h keys ch|h idx ch|h ch] b c os p; cbn [xmap xadd].
  - apply xadd4_xmap.
  - apply xadd16_xmap.
  - apply xadd48_xmap.
  - cbn [fst snd]. rewrite xadd256_xmap. reflexivity.
Qed.

(* ---------------- 5. deleteChild ---------------- *)
Lemma xdel256_xmap : forall h (ch : list (option C)) b os p,
  xdel256 h (map om ch) b os (map xm p) =
  (xmap f (fst (xdel256 h ch b os p)), map xm (snd (xdel256 h ch b os p))).
Proof.
  intros. unfold xdel256. cbv zeta. destruct (_ =? shrink256); cbn [fst snd].
  - rewrite get_xmap. cbn [fst snd]. unfold put. cbn [map].
    rewrite xh_xmap, xch_xmap, xbytes_xmap.
    change (@None D) with (om None). rewrite <- (map_set_at om).
    rewrite shrink256_loop_omap. cbn [fst snd xmap].
    change (X256 (w_len (u8 (xlen h + 255)) h) (map om (set_at (N.to_nat b) None ch)))
      with (xmap f (X256 (w_len (u8 (xlen h + 255)) h) (set_at (N.to_nat b) None ch))).
    rewrite xclear_xmap. reflexivity.
  - cbn [xmap]. rewrite (map_set_at om). reflexivity.
Qed.

Lemma xdel48_xmap : forall h idx (ch : list (option C)) b os p,
  xdel48 h idx (map om ch) b os (map xm p) =
  (xmap f (fst (xdel48 h idx ch b os p)), map xm (snd (xdel48 h idx ch b os p))).
Proof.
  intros. unfold xdel48. cbv zeta. destruct (_ =? shrink48); cbn [fst snd].
  - rewrite get_xmap. cbn [fst snd]. unfold put. cbn [map].
    rewrite xh_xmap, xch_xmap, xbytes_xmap.
    change (@None D) with (om None). rewrite <- (map_set_at om).
    rewrite shrink48_loop_omap. cbn [fst snd xmap].
    match goal with |- context [xclear (X48 ?h' ?i' (map om ?c'))] =>
      change (X48 h' i' (map om c')) with (xmap f (X48 h' i' c')) end.
    rewrite xclear_xmap. reflexivity.
  - cbn [xmap]. rewrite (map_set_at om). reflexivity.
Qed.

Lemma xdel16_xmap : forall h keys (ch : list (option C)) b os p,
  xdel16 h keys (map om ch) b os (map xm p) =
  (xmap f (fst (xdel16 h keys ch b os p)), map xm (snd (xdel16 h keys ch b os p))).
Proof.
  intros. unfold xdel16. cbv zeta. destruct (_ =? shrink16); cbn [fst snd].
  - rewrite get_xmap. cbn [fst snd]. unfold put. cbn [map].
    rewrite xh_xmap, xch_xmap, <- map_shift_left_onto, <- map_gcopy. cbn [xmap].
    match goal with |- context [xclear (X16 ?h' ?i' (map om ?c'))] =>
      change (X16 h' i' (map om c')) with (xmap f (X16 h' i' c')) end.
    rewrite xclear_xmap. reflexivity.
  - cbn [xmap]. rewrite map_shift_left_onto. reflexivity.
Qed.

Lemma xdel4_xmap : forall h keys (ch : list (option C)) b os p,
  xdel4 h keys (map om ch) b os (map xm p) =
  (xmap f (fst (xdel4 h keys ch b os p)), map xm (snd (xdel4 h keys ch b os p))).
Proof.
  intros. unfold xdel4. cbv zeta.
  set (n' := if (searchNode4 keys b =? -1)%Z then X4 h keys ch
             else X4 (w_len (u8 (xlen h + 255)) h) (shiftRightClear keys (Z.to_N (searchNode4 keys b + 1)))
                     (shift_left_onto (Z.to_nat (searchNode4 keys b)) ch)).
  assert (E : (if (searchNode4 keys b =? -1)%Z then X4 h keys (map om ch)
               else X4 (w_len (u8 (xlen h + 255)) h) (shiftRightClear keys (Z.to_N (searchNode4 keys b + 1)))
                       (shift_left_onto (Z.to_nat (searchNode4 keys b)) (map om ch))) = xmap f n').
  { unfold n'. destruct (_ =? _)%Z; cbn [xmap]; [reflexivity|]. rewrite map_shift_left_onto. reflexivity. }
  rewrite E, xh_xmap. destruct (xlen (xh n') =? 1); cbn [fst snd]; [|reflexivity].
  unfold put. cbn [map]. rewrite xclear_xmap. reflexivity.
Qed.

Theorem xdel_xmap : forall (n : xnode C) b os p,
  xdel (xmap f n) b os (map (xmap f) p) =
  (xmap f (fst (xdel n b os p)), map (xmap f) (snd (xdel n b os p))).
Proof.
  intros [h keys ch|h keys ch|h idx ch|h ch] b os p; cbn [xmap xdel].
  - apply xdel4_xmap.
  - apply xdel16_xmap.
  - apply xdel48_xmap.
  - apply xdel256_xmap.
Qed.

(* ---------------- 6. a new node4 ---------------- *)
Theorem xnew4_xmap : forall pl src os (p : @pool C),
  xnew4 pl src os (map (xmap f) p) =
  (xmap f (fst (xnew4 pl src os p)), map (xmap f) (snd (xnew4 pl src os p))).
Proof.
  intros. unfold xnew4. cbv zeta. rewrite get_xmap. cbn [fst snd xmap].
  rewrite xh_xmap, xword_xmap, xch_xmap. reflexivity.
Qed.

(* ---------------- 7. reads, in-place writes, counters ---------------- *)
Lemma slot_omap : forall (l : list (option C)) i, PoolTree.slot (map om l) i = om (PoolTree.slot l i).
Proof.
  intros l i. unfold PoolTree.slot. rewrite nth_error_map. destruct (nth_error l i) as [[c|]|]; reflexivity.
Qed.

Theorem xfind_xmap : forall (n : xnode C) b, xfind (xmap f n) b = omap f (xfind n b).
Proof.
  intros [h keys ch|h keys ch|h idx ch|h ch] b; cbn [xmap xfind].
  - destruct (_ && _); [apply slot_omap|reflexivity].
  - destruct (_ =? _)%Z; [reflexivity|apply slot_omap].
  - destruct (_ =? 0); [reflexivity|apply slot_omap].
  - apply slot_omap.
Qed.

Theorem xreplace_xmap : forall (n : xnode C) b c, xreplace (xmap f n) b (f c) = xmap f (xreplace n b c).
Proof.
  intros [h keys ch|h keys ch|h idx ch|h ch] b c; cbn [xmap xreplace].
  - destruct (_ && _); cbn [xmap]; [rewrite (map_set_at om)|]; reflexivity.
  - destruct (_ =? _)%Z; cbn [xmap]; [|rewrite (map_set_at om)]; reflexivity.
  - destruct (_ =? 0); cbn [xmap]; [|rewrite (map_set_at om)]; reflexivity.
  - rewrite (map_set_at om). reflexivity.
Qed.

Lemma xset_hdr_xmap : forall (n : xnode C) pl px, xset_hdr (xmap f n) pl px = xmap f (xset_hdr n pl px).
Proof. intros [h keys ch|h keys ch|h idx ch|h ch] pl px; reflexivity. Qed.

Lemma s_node_xmap : forall h (n : xnode C), s_node h (xmap f n) = xmap f (s_node h n).
Proof. intros h0 [h keys ch|h keys ch|h idx ch|h ch]; reflexivity. Qed.

Lemma s_children_xmap : forall v (n : xnode C), s_children (map om v) (xmap f n) = xmap f (s_children v n).
Proof. intros v [h keys ch|h keys ch|h idx ch|h ch]; reflexivity. Qed.

Lemma xadd_gets_xmap : forall n : xnode C, xadd_gets (xmap f n) = xadd_gets n.
Proof. intros [h keys ch|h keys ch|h idx ch|h ch]; reflexivity. Qed.

Lemma xdel_gets_xmap : forall n : xnode C, xdel_gets (xmap f n) = xdel_gets n.
Proof. intros [h keys ch|h keys ch|h idx ch|h ch]; reflexivity. Qed.

(* ---------------- 8. the abstraction ---------------- *)
Lemma nenum_xabs_xmap : forall n : xnode C,
  nenum (xabs (xmap f n)) = map (fun bc => (fst bc, f (snd bc))) (nenum (xabs n)).
Proof. intros n. rewrite xabs_xmap, nenum_rmap. reflexivity. Qed.

Lemma xwf_xmap : forall n : xnode C, xwf n -> xwf (xmap f n).
Proof.
  intros n (Hs & Ho & Hw). split; [|split].
  - rewrite shape_ok_xmap. exact Hs.
  - rewrite occupied_ok_xmap. exact Ho.
  - rewrite xabs_xmap. apply nwf_rmap. exact Hw.
Qed.

End XNat.

(* ---------------- 9. functoriality ---------------- *)
Lemma xmap_ext : forall {A B} (f g : A -> B) (n : xnode A), (forall c, f c = g c) -> xmap f n = xmap g n.
Proof.
  intros A B f g n H.
  assert (E : forall l : list (option A), map (omap f) l = map (omap g) l).
  { intros l. apply map_ext. intros [c|]; cbn [omap]; [rewrite H|]; reflexivity. }
  destruct n as [h keys ch|h keys ch|h idx ch|h ch]; cbn [xmap]; rewrite E; reflexivity.
Qed.

Lemma xmap_xmap : forall {A B E} (f : A -> B) (g : B -> E) (n : xnode A),
  xmap g (xmap f n) = xmap (fun c => g (f c)) n.
Proof.
  intros A B E f g n.
  assert (H : forall l : list (option A), map (omap g) (map (omap f) l) = map (omap (fun c => g (f c))) l).
  { intros l. rewrite map_map. apply map_ext. intros [c|]; reflexivity. }
  destruct n as [h keys ch|h keys ch|h idx ch|h ch]; cbn [xmap]; rewrite H; reflexivity.
Qed.

Lemma xmap_id : forall {A} (n : xnode A), xmap (fun c => c) n = n.
Proof.
  intros A n.
  assert (H : forall l : list (option A), map (omap (fun c : A => c)) l = l).
  { intros l. rewrite <- (map_id l) at 2. apply map_ext. intros [c|]; reflexivity. }
  destruct n as [h keys ch|h keys ch|h idx ch|h ch]; cbn [xmap]; rewrite H; reflexivity.
Qed.

Lemma zero_xmap_any : forall {A B} (f : A -> B) (n : xnode A),
  is_zero n = true -> xmap f n = xzero (xkind n).
Proof.
  intros A B f n H. pose proof (is_zero_eq n H) as E.
  transitivity (xmap f (xzero (xkind n))); [f_equal; exact E|apply xzero_xmap].
Qed.

(* ---------------- 10. label_cells / relabel: the index of the cell ---------------- *)
Lemma nth_error_label_from : forall {C} (l : list (option C)) s i,
  nth_error (map (fun ic : nat * option C => match snd ic with Some _ => Some (fst ic) | None => None end)
                 (combine (seq s (length l)) l)) i =
  match nth_error l i with
  | Some (Some _) => Some (Some (s + i)%nat)
  | Some None => Some None
  | None => None
  end.
Proof.
  intros C. induction l as [|x l IH]; intros s i.
  - destruct i; reflexivity.
  - cbn [length seq combine map]. destruct i as [|i]; cbn [nth_error fst snd].
    + destruct x; [rewrite Nat.add_0_r|]; reflexivity.
    + rewrite IH. replace (S s + i)%nat with (s + S i)%nat by lia. reflexivity.
Qed.

Lemma nth_error_label_cells : forall {C} (l : list (option C)) i,
  nth_error (label_cells l) i =
  match nth_error l i with
  | Some (Some _) => Some (Some i)
  | Some None => Some None
  | None => None
  end.
Proof. intros C l i. unfold label_cells. rewrite nth_error_label_from. reflexivity. Qed.

Lemma length_label_cells : forall {C} (l : list (option C)), length (label_cells l) = length l.
Proof. intros C l. unfold label_cells. rewrite map_length, combine_length, seq_length. lia. Qed.

Lemma slot_label_cells : forall {C} (l : list (option C)) i,
  PoolTree.slot (label_cells l) i =
  match nth_error l i with Some (Some _) => Some i | _ => None end.
Proof.
  intros C l i. unfold PoolTree.slot. rewrite nth_error_label_cells.
  destruct (nth_error l i) as [[c|]|]; reflexivity.
Qed.

(* relabel is a map of the node zipped with its indices: it erases to the shape of the node *)
Lemma xkind_relabel : forall {C} (n : xnode C), xkind (relabel n) = xkind n.
Proof. intros C [h keys ch|h keys ch|h idx ch|h ch]; reflexivity. Qed.
Lemma xh_relabel : forall {C} (n : xnode C), xh (relabel n) = xh n.
Proof. intros C [h keys ch|h keys ch|h idx ch|h ch]; reflexivity. Qed.
Lemma xch_relabel : forall {C} (n : xnode C), xch (relabel n) = label_cells (xch n).
Proof. intros C [h keys ch|h keys ch|h idx ch|h ch]; reflexivity. Qed.

Lemma slot_cell_case : forall {C} (ch : list (option C)) i,
  match (match nth_error ch i with Some (Some _) => Some i | _ => None end) with
  | Some j => exists c, nth_error ch j = Some (Some c) /\ PoolTree.slot ch i = Some c /\ j = i
  | None => PoolTree.slot ch i = None
  end.
Proof.
  intros C ch i. unfold PoolTree.slot. destruct (nth_error ch i) as [[c|]|] eqn:E; try reflexivity.
  exists c. rewrite E. repeat split.
Qed.

Theorem xfind_relabel : forall {C} (n : xnode C) b,
  match xfind (relabel n) b with
  | Some i => exists c, nth_error (xch n) i = Some (Some c) /\ xfind n b = Some c /\
              (forall c', xreplace n b c' = s_children (set_at i (Some c') (xch n)) n)
  | None => xfind n b = None
  end.
Proof.
  intros C [h keys ch|h keys ch|h idx ch|h ch] b; cbn [relabel xfind xreplace xch s_children].
  - destruct (_ && _); [|reflexivity]. rewrite slot_label_cells.
    pose proof (slot_cell_case ch (Z.to_nat (searchNode4 keys b))) as H.
    destruct (match nth_error ch (Z.to_nat (searchNode4 keys b)) with Some (Some _) => Some _ | _ => None end)
      as [j|]; [|exact H].
    destruct H as (c & H1 & H2 & ->). exists c. repeat split; assumption.
  - destruct (_ =? _)%Z; [reflexivity|]. rewrite slot_label_cells.
    pose proof (slot_cell_case ch (Z.to_nat (searchNode16 keys (xlen h) b))) as H.
    destruct (match nth_error ch (Z.to_nat (searchNode16 keys (xlen h) b)) with Some (Some _) => Some _ | _ => None end)
      as [j|]; [|exact H].
    destruct H as (c & H1 & H2 & ->). exists c. repeat split; assumption.
  - destruct (_ =? 0); [reflexivity|]. rewrite slot_label_cells.
    pose proof (slot_cell_case ch (N.to_nat (nth (N.to_nat b) idx 0 - 1))) as H.
    destruct (match nth_error ch (N.to_nat (nth (N.to_nat b) idx 0 - 1)) with Some (Some _) => Some _ | _ => None end)
      as [j|]; [|exact H].
    destruct H as (c & H1 & H2 & ->). exists c. repeat split; assumption.
  - rewrite slot_label_cells.
    pose proof (slot_cell_case ch (N.to_nat b)) as H.
    destruct (match nth_error ch (N.to_nat b) with Some (Some _) => Some _ | _ => None end)
      as [j|]; [|exact H].
    destruct H as (c & H1 & H2 & ->). exists c. repeat split; assumption.
Qed.

(* ================= B. the representation of a raw tree in the heap ================= *)
(* a raw tree with an address at every node: the heap object of a node is the node with its children
   replaced by their addresses (aref), the model's value is the node with the addresses erased (strip).
   Stale cells carry an address and a value too; nothing is required of them. *)
Inductive atree : Type :=
| ALeaf (a : addr) (gk tk : list N) (v : Z)
| AInner (a : addr) (n : xnode atree).
Definition aref (t : atree) : addr := match t with ALeaf a _ _ _ | AInner a _ => a end.
Fixpoint strip (t : atree) : xtree :=
  match t with
  | ALeaf _ gk tk v => XLeaf gk tk v
  | AInner _ n => XInner (xmap strip n)
  end.
Definition aobj (t : atree) : hobj :=
  match t with ALeaf _ gk tk v => HLeaf gk tk v | AInner _ n => HNode (xmap aref n) end.
(* the occupied cells *)
Definition kids (n : xnode atree) : list (N * atree) := nenum (xabs n).

(* every node reachable through occupied cells is in the heap at its address, and is xwf *)
Inductive stored (h : heap) : atree -> Prop :=
| st_leaf : forall a gk tk v, load h a = Some (HLeaf gk tk v) -> stored h (ALeaf a gk tk v)
| st_inner : forall a n, load h a = Some (HNode (xmap aref n)) -> xwf n ->
    (forall b c, In (b, c) (kids n) -> stored h c) -> stored h (AInner a n).
(* the footprint: the addresses of the nodes reachable through occupied cells *)
Inductive live : atree -> addr -> Prop :=
| live_root : forall t, live t (aref t)
| live_kid : forall a n b c x, In (b, c) (kids n) -> live c x -> live (AInner a n) x.
(* the footprints of different children are disjoint and do not contain the parent *)
Inductive sep : atree -> Prop :=
| sep_leaf : forall a gk tk v, sep (ALeaf a gk tk v)
| sep_inner : forall a n,
    (forall b c, In (b, c) (kids n) -> sep c) ->
    (forall b c, In (b, c) (kids n) -> ~ live c a) ->
    (forall b1 c1 b2 c2 x, In (b1, c1) (kids n) -> In (b2, c2) (kids n) -> b1 <> b2 ->
       live c1 x -> live c2 x -> False) ->
    sep (AInner a n).

Lemma stored_load : forall h t, stored h t -> load h (aref t) = Some (aobj t).
Proof. intros h t H. destruct H; assumption. Qed.
Lemma stored_inv : forall h a n, stored h (AInner a n) ->
  load h a = Some (HNode (xmap aref n)) /\ xwf n /\ (forall b c, In (b, c) (kids n) -> stored h c).
Proof. intros h a n H. inversion H; subst. auto. Qed.
Lemma sep_inv : forall a n, sep (AInner a n) ->
  (forall b c, In (b, c) (kids n) -> sep c) /\ (forall b c, In (b, c) (kids n) -> ~ live c a) /\
  (forall b1 c1 b2 c2 x, In (b1, c1) (kids n) -> In (b2, c2) (kids n) -> b1 <> b2 -> live c1 x -> live c2 x -> False).
Proof. intros a n H. inversion H; subst. auto. Qed.
Lemma live_inv : forall t x, live t x ->
  x = aref t \/ exists a n b c, t = AInner a n /\ In (b, c) (kids n) /\ live c x.
Proof. intros t x H. destruct H; [left; reflexivity|right; eauto 8]. Qed.
Lemma live_leaf : forall a gk tk v x, live (ALeaf a gk tk v) x -> x = a.
Proof. intros a gk tk v x H. destruct (live_inv _ _ H) as [E|(a' & n & b & c & E & _)]; [exact E|discriminate]. Qed.

(* frame: a heap that agrees on the footprint stores the same tree *)
Lemma stored_frame : forall h h' t, stored h t -> (forall x, live t x -> load h' x = load h x) -> stored h' t.
Proof.
  intros h h' t H. induction H as [a gk tk v Hl|a n Hl Hx Hk IH]; intros Hf.
  - constructor. rewrite (Hf a (live_root (ALeaf a gk tk v))). exact Hl.
  - constructor; [rewrite (Hf a (live_root (AInner a n))); exact Hl|exact Hx|].
    intros b c Hin. apply (IH b c Hin). intros x Hlx. apply Hf. eapply live_kid; eassumption.
Qed.

Lemma strip_xtwf : forall h t, stored h t -> xtwf (strip t).
Proof.
  intros h t H. induction H as [a gk tk v Hl|a n Hl Hx Hk IH]; cbn [strip]; constructor.
  - apply xwf_xmap. exact Hx.
  - intros b c Hin. rewrite nenum_xabs_xmap in Hin. apply in_map_iff in Hin.
    destruct Hin as ([b' c'] & E & Hin). cbn [fst snd] in E. injection E as <- <-. apply (IH b' c' Hin).
Qed.

(* kids found by findChild *)
Lemma kid_of_find : forall (n : xnode atree) b c, xwf n -> b < 256 -> xfind n b = Some c -> In (b, c) (kids n).
Proof.
  intros n b c Hx Hb H. unfold kids. rewrite xfind_abs in H by exact Hx.
  rewrite nfind_spec in H by (try apply Hx; exact Hb). apply assoc_in. exact H.
Qed.
Lemma find_of_kid : forall (n : xnode atree) b c, xwf n -> b < 256 -> In (b, c) (kids n) -> xfind n b = Some c.
Proof.
  intros n b c Hx Hb H. unfold kids in H. rewrite xfind_abs by exact Hx.
  rewrite nfind_spec by (try apply Hx; exact Hb). apply in_assoc; [apply nenum_sorted; apply Hx|exact H].
Qed.

Lemma kids_keys_unique : forall (n : xnode atree) b c1 c2, xwf n -> In (b, c1) (kids n) -> In (b, c2) (kids n) -> c1 = c2.
Proof.
  intros n b c1 c2 Hx H1 H2. unfold kids in *.
  assert (Hs : keys_sorted (nenum (xabs n))) by (apply nenum_sorted; apply Hx).
  pose proof (in_assoc _ _ _ Hs H1) as A1. pose proof (in_assoc _ _ _ Hs H2) as A2. congruence.
Qed.

(* ---- heap algebra ---- *)
Lemma load_store_same : forall h a o, load (store h a o) a = Some o.
Proof. intros. unfold load, store. cbn [cells]. rewrite Nat.eqb_refl. reflexivity. Qed.
Lemma load_store_other : forall h a o x, x <> a -> load (store h a o) x = load h x.
Proof. intros h a o x H. unfold load, store. cbn [cells]. destruct (Nat.eqb_spec x a); [contradiction|reflexivity]. Qed.
Lemma next_store : forall h a o, next (store h a o) = next h.
Proof. reflexivity. Qed.

(* ---- zero pools: the children type is irrelevant ---- *)
Lemma zero_map_irrel : forall {A B} (f g : A -> B) (q : @pool A), zero_pool q -> map (xmap f) q = map (xmap g) q.
Proof.
  intros A B f g q Hq. apply map_ext_in. intros n Hn.
  pose proof (proj1 (Forall_forall _ _) Hq n Hn) as Hz. cbv beta in Hz.
  rewrite (zero_xmap_any f n Hz), (zero_xmap_any g n Hz). reflexivity.
Qed.
Lemma zero_pool_map : forall {A B} (f : A -> B) (q : @pool A), zero_pool q -> zero_pool (map (xmap f) q).
Proof.
  intros A B f q Hq. apply Forall_forall. intros n Hn. apply in_map_iff in Hn. destruct Hn as (m & <- & Hm).
  rewrite is_zero_xmap. exact (proj1 (Forall_forall _ _) Hq m Hm).
Qed.
Lemma zero_pool_unmap : forall {A B} (f : A -> B) (q : @pool A), zero_pool (map (xmap f) q) -> zero_pool q.
Proof.
  intros A B f q Hq. apply Forall_forall. intros n Hn.
  pose proof (proj1 (Forall_forall _ _) Hq (xmap f n) (in_map _ _ _ Hn)) as Hz. cbv beta in Hz.
  rewrite is_zero_xmap in Hz. exact Hz.
Qed.
Lemma map_xmap_id_zero : forall {A} (f : A -> A) (q : @pool A), zero_pool q -> map (xmap f) q = q.
Proof.
  intros A f q Hq. rewrite (zero_map_irrel f (fun c => c) q Hq). rewrite <- (map_id q) at 2.
  apply map_ext. intros n. apply xmap_id.
Qed.

(* the pool of annotated nodes standing for a zero pool of the model *)
Definition adummy : atree := ALeaf O [] [] 0%Z.
Definition apool (pm : xpool) : @pool atree := map (xmap (fun _ : xtree => adummy)) pm.
Definition cref (c : atree) : hcell := CRef (aref c).
Lemma apool_zero : forall pm, zero_pool pm -> zero_pool (apool pm).
Proof. intros. apply zero_pool_map. assumption. Qed.
Lemma apool_strip : forall pm, zero_pool pm -> map (xmap strip) (apool pm) = pm.
Proof.
  intros pm Hp. unfold apool. rewrite map_map.
  rewrite (map_ext _ (xmap (fun c => strip ((fun _ : xtree => adummy) c)))) by (intros; apply xmap_xmap).
  apply map_xmap_id_zero. exact Hp.
Qed.
Lemma pool_back : forall (q : @pool atree), zero_pool q ->
  map (xmap cell_addr) (map (xmap cref) q) = map_pool (map (xmap strip) q).
Proof.
  intros q Hq. unfold map_pool. rewrite !map_map.
  rewrite (map_ext _ (xmap (fun c => cell_addr (cref c)))) by (intros; apply xmap_xmap).
  rewrite (map_ext (fun x => xmap _ (xmap strip x)) (xmap (fun c => (fun _ : xtree => O) (strip c)))) by (intros; apply xmap_xmap).
  apply zero_map_irrel. exact Hq.
Qed.
Lemma pool_fwd : forall pm, zero_pool pm -> map (xmap CRef) (map_pool pm) = map (xmap cref) (apool pm).
Proof.
  intros pm Hp. unfold map_pool, apool. rewrite !map_map.
  rewrite (map_ext (fun x => xmap CRef (xmap _ x)) (xmap (fun c => CRef ((fun _ : xtree => O) c)))) by (intros; apply xmap_xmap).
  rewrite (map_ext (fun x => xmap cref (xmap _ x)) (xmap (fun c => cref ((fun _ : xtree => adummy) c)))) by (intros; apply xmap_xmap).
  apply zero_map_irrel. exact Hp.
Qed.

(* ---- reads of a stored node ---- *)
Definition atag (t : atree) : gkind :=
  match t with
  | ALeaf _ _ _ _ => KindLeaf
  | AInner _ n => match xkind n with K4 => Kind4 | K16 => Kind16 | K48 => Kind48 | K256 => Kind256 end
  end.
Lemma h_tag_stored : forall h t, stored h t -> h_tag h (Some (aref t)) = Some (atag t).
Proof.
  intros h t H. unfold h_tag. rewrite (stored_load _ _ H).
  destruct t as [a gk tk v|a n]; cbn [aobj atag]; [reflexivity|]. rewrite xkind_xmap. reflexivity.
Qed.
Lemma h_ref_node_stored : forall h a n, stored h (AInner a n) -> h_ref_node h (Some a) = Some a.
Proof. intros h a n H. unfold h_ref_node. pose proof (stored_load _ _ H) as Hl. cbn [aref aobj] in Hl. rewrite Hl. reflexivity. Qed.
Lemma h_hdr_stored : forall h a n, stored h (AInner a n) -> h_hdr h a = xh n.
Proof. intros h a n H. unfold h_hdr. pose proof (stored_load _ _ H) as Hl. cbn [aref aobj] in Hl. rewrite Hl. apply xh_xmap. Qed.
Lemma h_cast_leaf_stored : forall h a gk tk v, stored h (ALeaf a gk tk v) ->
  h_cast_leaf h (Some a) = Some a /\ h_leaf_gk h a = gk /\ h_leaf_tk h a = tk.
Proof.
  intros h a gk tk v H. unfold h_cast_leaf, h_leaf_gk, h_leaf_tk. pose proof (stored_load _ _ H) as Hl. cbn [aref aobj] in Hl. rewrite Hl. auto.
Qed.

Lemma label_cells_omap : forall {A B} (f : A -> B) (l : list (option A)), label_cells (map (omap f) l) = label_cells l.
Proof.
  intros A B f l. unfold label_cells. rewrite map_length. generalize (seq 0 (length l)). 
  induction l as [|o l IH]; intros s; destruct s as [|i s]; cbn [map combine]; try reflexivity.
  rewrite IH. destruct o; reflexivity.
Qed.
Lemma relabel_xmap : forall {A B} (f : A -> B) (n : xnode A), relabel (xmap f n) = relabel n.
Proof. intros A B f [h k ch|h k ch|h k ch|h ch]; cbn [relabel xmap]; rewrite label_cells_omap; reflexivity. Qed.

Lemma findChild_stored : forall h a (n : xnode atree) b, stored h (AInner a n) -> b < 256 ->
  match xfind n b with
  | Some c => exists i, h_findChild h (Some a) b = Some (SCell a i) /\ nth_error (xch n) i = Some (Some c) /\
                        (forall c', xreplace n b c' = s_children (set_at i (Some c') (xch n)) n)
  | None => h_findChild h (Some a) b = Some SNil
  end.
Proof.
  intros h a n b H Hb. destruct (stored_inv _ _ _ H) as (Hl & Hx & _).
  unfold h_findChild. rewrite Hl. rewrite relabel_xmap.
  rewrite gen_findChild_eq.
  2:{ pose proof (find_hyps_from_xwf n Hx) as Hi. destruct n; exact Hi. }
  pose proof (xfind_relabel n b) as R. destruct (xfind (relabel n) b) as [i|].
  - destruct R as (c & Hn & Hf & Hr). rewrite Hf. exists i. auto.
  - rewrite R. reflexivity.
Qed.

Lemma slot_read_cell : forall h root a (n : xnode atree) i c, stored h (AInner a n) ->
  nth_error (xch n) i = Some (Some c) -> slot_read h root (SCell a i) = Some (Some (aref c)).
Proof.
  intros h root a n i c H Hn. unfold slot_read. pose proof (stored_load _ _ H) as Hl. cbn [aref aobj] in Hl. rewrite Hl.
  rewrite xch_xmap, nth_error_map, Hn. reflexivity.
Qed.

Lemma skipn_map_c : forall {A B} (g : A -> B) k l, skipn k (map g l) = map g (skipn k l).
Proof. intros A B g k. induction k as [|k IH]; intros [|x l]; cbn [skipn map]; auto. Qed.
Lemma nth_map_omap : forall {A B} (g : A -> B) i (l : list (option A)), nth i (map (omap g) l) None = omap g (nth i l None).
Proof. intros A B g i. induction i as [|i IH]; intros [|x l]; cbn [nth map]; auto. Qed.

(* what node4.deleteChild writes into the header of the last child: the merged path *)
Definition g4_pfx (hN : xhdr) (kN : N) (hc : xhdr) : list N * N :=
  let p0 := N.of_nat (xplen hN) in
  let '(pf, pr) := if p0 <? 10 then (set_at (N.to_nat p0) (getAtPos kN 0) (xprefix hN), add32 p0 1) else (xprefix hN, p0) in
  if pr <? 10 then (gcopy (N.to_nat pr) (xprefix hc) pf, add32 pr (N.min (N.of_nat (xplen hc)) (sub32 10 pr))) else (pf, pr).
Definition g4_h1 (hN : xhdr) (kN : N) (hc : xhdr) : xhdr :=
  hs_prefix (gcopy 0 (firstn (N.to_nat (N.min 10 (snd (g4_pfx hN kN hc)))) (fst (g4_pfx hN kN hc))) (xprefix hc)) hc.
Definition g4_h2 (hN : xhdr) (hc' : xhdr) : xhdr :=
  hs_prefixLen (add32 (N.of_nat (xplen hc')) (add32 (N.of_nat (xplen hN)) 1)) hc'.

(* node4.deleteChild of a present byte at ANY reading of what a child is: the node after the first if, then
   either that node or the last child with its header rewritten *)
Lemma g4_char : forall {C} (inner : xnode C -> C) il ho wh hd4 keys (ch : list (option C)) b os p,
  (0 <= searchNode4 keys b < 4)%Z -> length ch = 4%nat ->
  let i := searchNode4 keys b in
  let hN := w_len (sub8 (xlen hd4) 1) hd4 in
  let kN := shiftRightClear keys (Z.to_N (i + 1)) in
  let cN := gcopy (Z.to_nat i) (skipn (Z.to_nat (i + 1)) ch) ch in
  g_node4_deleteChild inner il ho wh (X4 hd4 keys ch) b os p =
  if xlen hN =? 1 then
    (match nth 0 cN None with
     | Some c => if il c then Some c
                 else let c1 := wh c (g4_h1 hN kN (ho c)) in Some (wh c1 (g4_h2 hN (ho c1)))
     | None => None
     end, put (X4 xhdr0 0 (repeat None 4)) p)
  else (Some (inner (X4 hN kN cN)), p).
Proof.
  intros C inner il ho wh hd4 keys ch b os p Hi Hlc i hN kN cN.
  unfold g_node4_deleteChild. nsimp. fold i.
  replace (i =? -1)%Z with false by lia. cbn [negb]. nsimp. fold hN kN cN.
  destruct (xlen hN =? 1); [|reflexivity].
  destruct (nth 0 cN None) as [c|]; cbn [cell_is_leaf cell_hdr cell_set_hdr negb].
  - destruct (il c); cbn [negb].
    + reflexivity.
    + unfold g4_h1, g4_h2, g4_pfx. cbv zeta.
      destruct (N.of_nat (xplen hN) <? 10); nsimp.
      * destruct (add32 (N.of_nat (xplen hN)) 1 <? 10); nsimp; reflexivity.
      * destruct (N.of_nat (xplen hN) <? 10); nsimp; reflexivity.
  - cbn [xhdr0]. unfold g4_pfx. 
    destruct (N.of_nat (xplen hN) <? 10); nsimp.
    + destruct (add32 (N.of_nat (xplen hN)) 1 <? 10); nsimp; reflexivity.
    + destruct (N.of_nat (xplen hN) <? 10); nsimp; reflexivity.
Qed.

(* node4.deleteChild of a present byte, run at the heap's reading of a child (hcell) and at the model's
   (xtree) on the two images of one annotated node: the same case, the same node / child / header *)
Lemma g4_rel : forall h hd4 keys (ch : list (option atree)) b os (pat : @pool atree),
  xwf (X4 hd4 keys ch) -> (forall b' c, In (b', c) (kids (X4 hd4 keys ch)) -> stored h c) ->
  b < 256 -> xfind (X4 hd4 keys ch) b <> None -> zero_pool pat ->
  let GX := g_node4_deleteChild xt_inner xt_is_leaf xt_hdr_of xt_with_hdr (xmap strip (X4 hd4 keys ch)) b os (map (xmap strip) pat) in
  let GH := g_node4_deleteChild hc_inner (hc_is_leaf h) (hc_hdr_of h) hc_with_hdr (xmap cref (X4 hd4 keys ch)) b os (map (xmap cref) pat) in
  let n' := fst (xdel4 hd4 keys ch b os pat) in
  (xlen (xh n') <> 1 /\ GX = (Some (XInner (xmap strip n')), map (xmap strip) pat) /\
   GH = (Some (CNode (xmap aref n')), map (xmap cref) pat)) \/
  (xlen (xh n') = 1 /\ snd GX = map (xmap strip) (put (xclear n') pat) /\ snd GH = map (xmap cref) (put (xclear n') pat) /\
   exists b' c, In (b', c) (kids (X4 hd4 keys ch)) /\ nth 0 (xch n') None = Some c /\
     ((exists a gk tk v, c = ALeaf a gk tk v /\ fst GX = Some (strip c) /\ fst GH = Some (CRef a)) \/
      (exists ca cn pl px, c = AInner ca cn /\ fst GX = Some (XInner (xset_hdr (xmap strip cn) pl px)) /\
         fst GH = Some (CHdr ca (w_prefix px (w_plen pl (xh cn)))) /\ length px = length (xprefix (xh cn))))).
Proof.
  intros h hd4 keys ch b os pat Hx Hst Hb Hf Hzp GX GH n'.
  destruct (xwf4_inv _ _ _ Hx) as (Hlc & Ho & Hl & _).
  assert (Hi : (0 <= searchNode4 keys b < 4)%Z).
  { cbn [xfind] in Hf. destruct (searchNode4_range keys b) as [E|E].
    - rewrite E in Hf. cbn in Hf. contradiction Hf. reflexivity.
    - destruct (Z.ltb_spec (searchNode4 keys b) (Z.of_N (xlen hd4))) as [L|L]; [lia|].
      rewrite Bool.andb_false_r in Hf. contradiction Hf. reflexivity. }
  assert (Hpres : assoc b (nenum (xabs (X4 hd4 keys ch))) <> None).
  { rewrite <- nfind_spec by (try apply Hx; exact Hb). rewrite <- xfind_abs by exact Hx. exact Hf. }
  destruct (xdel_sim (X4 hd4 keys ch) b os pat Hx) as (Eabs & Hx'); try assumption.
  cbn [xdel] in Eabs, Hx'. fold n' in Eabs, Hx'.
  destruct (ndel_spec (xabs (X4 hd4 keys ch)) b (proj2 (proj2 Hx)) Hb Hpres) as (_ & En & _).
  (* the node after the first if, at any reading of the children *)
  set (i := searchNode4 keys b) in *.
  assert (Ei : (i =? -1)%Z = false) by lia.
  set (N1 := X4 (w_len (sub8 (xlen hd4) 1) hd4) (shiftRightClear keys (Z.to_N (i + 1)))
                (gcopy (Z.to_nat i) (skipn (Z.to_nat (i + 1)) ch) ch)).
  assert (EN : N1 = n').
  { subst N1 n'. unfold xdel4. fold i. rewrite Ei. cbn [xh xlen w_len].
    destruct (_ =? 1); cbn [fst]; rewrite sub8_1; rewrite Z2Nat.inj_add by lia;
      change (Z.to_nat 1) with 1%nat; rewrite Nat.add_1_r; rewrite gcopy_shift_left by lia; reflexivity. }
  assert (Hx1 : xwf N1) by (rewrite EN; exact Hx').
  assert (Ek1 : nenum (xabs N1) = rem_key b (kids (X4 hd4 keys ch))) by (rewrite EN, Eabs; exact En).
  assert (Hk1 : xkind N1 = K4) by reflexivity.
  assert (El : xlen (xh n') = xlen (w_len (sub8 (xlen hd4) 1) hd4)) by (rewrite <- EN; reflexivity).
  subst GX GH. cbn [xmap].
  rewrite !g4_char by (try assumption; rewrite ?map_length; assumption).
  fold i. cbv zeta. rewrite !skipn_map_c, <- !map_gcopy, !nth_map_omap.
  set (hN := w_len (sub8 (xlen hd4) 1) hd4) in *.
  set (kN := shiftRightClear keys (Z.to_N (i + 1))) in *.
  set (cN := gcopy (Z.to_nat i) (skipn (Z.to_nat (i + 1)) ch) ch) in *.
  rewrite El. destruct (N.eqb_spec (xlen hN) 1) as [E1|E1].
  2:{ left. split; [exact E1|]. rewrite <- EN. subst N1. split; [reflexivity|].
      unfold hc_inner. cbn [xmap]. rewrite map_map.
      rewrite (map_ext (fun x => omap cell_addr (omap cref x)) (omap aref)) by (intros [x|]; reflexivity). reflexivity. }
  right. split; [exact E1|]. cbn [fst snd].
  assert (Ecl : xclear n' = X4 xhdr0 0 (repeat None 4)) by (rewrite <- EN; reflexivity).
  rewrite Ecl. split; [reflexivity|]. split; [reflexivity|].
  (* the last child *)
  destruct Hx1 as (Hsh & Hocc & _). subst N1. cbn [shape_ok occupied_ok xabs nenum] in Hsh, Hocc, Ek1. fold hN kN cN in Hsh, Hocc, Ek1.
  rewrite E1 in Hocc, Ek1. change (N.to_nat 1) with 1%nat in Hocc, Ek1.
  assert (Hn0 : xch n' = cN) by (rewrite <- EN; reflexivity).
  clear EN Hk1. clearbody cN. destruct cN as [|[c0|] rest]; cbn [firstn forallb] in Hocc; try discriminate Hocc; try discriminate Hsh.
  cbn [firstn somes length lanes combine] in Ek1.
  assert (Hin : In (lane kN 0, c0) (kids (X4 hd4 keys ch))).
  { eapply in_rem_key. rewrite <- Ek1. left. reflexivity. }
  exists (lane kN 0), c0. split; [exact Hin|]. split; [rewrite Hn0; reflexivity|]. cbn [nth omap].
  pose proof (Hst _ _ Hin) as Hs0.
  destruct c0 as [a gk tk v|ca cn].
  - left. exists a, gk, tk, v. split; [reflexivity|]. cbn [strip xt_is_leaf cref aref hc_is_leaf].
    pose proof (stored_load _ _ Hs0) as Hl0. cbn [aref aobj] in Hl0. rewrite Hl0. split; reflexivity.
  - right. cbn [strip xt_is_leaf cref aref hc_is_leaf hc_hdr_of xt_hdr_of xt_with_hdr hc_with_hdr].
    pose proof (stored_load _ _ Hs0) as Hl0. cbn [aref aobj] in Hl0. rewrite Hl0.
    rewrite (h_hdr_stored _ _ _ Hs0), xh_xmap, !xh_s_node, s_node_s_node.
    set (H1 := g4_h1 hN kN (xh cn)).
    exists ca, cn, (N.to_nat (add32 (N.of_nat (xplen H1)) (add32 (N.of_nat (xplen hN)) 1))), (xprefix H1).
    split; [reflexivity|]. split; [|split].
    + rewrite xset_hdr_s_node, xh_xmap. reflexivity.
    + reflexivity.
    + subst H1. unfold g4_h1, hs_prefix. cbn [xprefix w_prefix]. rewrite length_gcopy by lia. reflexivity.
Qed.

(* pools of cleared nodes have the array sizes of their types *)
Lemma zero_pool_shapes : forall {A} (q : @pool A), zero_pool q -> pool_shapes q.
Proof.
  intros A q Hq. apply Forall_forall. intros n Hn. pose proof (proj1 (Forall_forall _ _) Hq n Hn) as Hz. cbv beta in Hz.
  rewrite (is_zero_eq n Hz). apply shape_xzero.
Qed.

(* a node4 left with one inner child: the merged path length fits the uint32 field (the model computes it in nat) *)
Definition afit4 (n : xnode atree) : Prop :=
  match n with
  | X4 h _ _ => forall b' ca cn, In (b', AInner ca cn) (kids n) -> N.of_nat (xplen (xh cn)) + N.of_nat (xplen h) + 1 < M32
  | _ => True
  end.

Lemma hc_inner_cref : forall n : xnode atree, hc_inner (xmap cref n) = CNode (xmap aref n).
Proof.
  intros n. unfold hc_inner. rewrite xmap_xmap. f_equal.
Qed.

(* (ref *nodeRef).deleteChild(b) on the two images of an annotated node *)
Lemma gdel_rel : forall h a (n : xnode atree) b os (pat : @pool atree),
  stored h (AInner a n) -> b < 256 -> xfind n b <> None -> zero_pool pat -> afit4 n ->
  let GH := g_deleteChild hc_inner (hc_is_leaf h) (hc_hdr_of h) hc_with_hdr (xmap cref n) b os (map (xmap cref) pat) in
  let XD := xdel_child (xmap strip n) b os (map (xmap strip) pat) in
  exists pat', zero_pool pat' /\ snd GH = map (xmap cref) pat' /\ snd XD = map (xmap strip) pat' /\
   ((exists n', fst GH = Some (CNode (xmap aref n')) /\ fst XD = XInner (xmap strip n') /\ xwf n' /\
                (forall b' c, In (b', c) (kids n') -> In (b', c) (kids n))) \/
    (exists b' a' gk tk v, In (b', ALeaf a' gk tk v) (kids n) /\ fst GH = Some (CRef a') /\ fst XD = XLeaf gk tk v) \/
    (exists b' ca cn pl px, In (b', AInner ca cn) (kids n) /\
       fst GH = Some (CHdr ca (w_prefix px (w_plen pl (xh cn)))) /\ fst XD = XInner (xset_hdr (xmap strip cn) pl px) /\
       length px = maxPrefixLen)).
Proof.
  intros h a n b os pat Hst Hb Hf Hzp Hfit GH XD.
  destruct (stored_inv _ _ _ Hst) as (Hl & Hx & Hk).
  assert (Hpres : assoc b (nenum (xabs n)) <> None).
  { rewrite <- nfind_spec by (try apply Hx; exact Hb). rewrite <- xfind_abs by exact Hx. exact Hf. }
  destruct (xdel_sim n b os pat Hx Hzp Hb Hpres) as (Eabs & Hx').
  destruct (ndel_spec (xabs n) b (proj2 (proj2 Hx)) Hb Hpres) as (_ & En & _).
  assert (Hsub : forall b' c, In (b', c) (kids (fst (xdel n b os pat))) -> In (b', c) (kids n)).
  { intros b' c Hin. unfold kids in Hin. rewrite Eabs, En in Hin. eapply in_rem_key. exact Hin. }
  pose proof (xdel_pool_zero n b os pat Hzp) as Hzp'.
  pose proof (zero_pool_shapes _ (zero_pool_map cref pat Hzp)) as Hps.
  pose proof (xdel_xmap strip n b os pat) as NX. pose proof (xdel_xmap cref n b os pat) as NH.
  assert (Hsh : shape_ok (xmap cref n) = true) by (rewrite shape_ok_xmap; apply Hx).
  subst GH XD. unfold g_deleteChild, xdel_child. rewrite xkind_xmap.
  destruct n as [hd keys ch|hd keys ch|hd idx ch|hd ch]; cbn [xkind].
  - cbn [xmap] in *.
    pose proof (g4_rel h hd keys ch b os pat Hx Hk Hb Hf Hzp) as R. cbv zeta in R. cbn [xmap] in R.
    pose proof (xdel4_xmap strip hd keys ch b os pat) as N4X.
    set (n' := fst (xdel4 hd keys ch b os pat)) in *.
    assert (Hpl : xplen (xh n') = xplen hd).
    { subst n'. unfold xdel4. destruct (_ =? -1)%Z; cbn [xh xlen]; destruct (_ =? 1); reflexivity. }
    assert (Hk4 : xkind n' = K4).
    { subst n'. unfold xdel4. destruct (_ =? -1)%Z; cbn [xh xlen]; destruct (_ =? 1); reflexivity. }
    assert (Hi : (searchNode4 keys b < 4)%Z).
    { cbn [xfind] in Hf. destruct (searchNode4_range keys b) as [E|E]; [lia|].
      destruct (xwf4_inv _ _ _ Hx) as (_ & _ & Hl4 & _).
      destruct (Z.ltb_spec (searchNode4 keys b) (Z.of_N (xlen hd))) as [L|L]; [lia|].
      rewrite Bool.andb_false_r in Hf. contradiction Hf. reflexivity. }
    assert (Hco : collapse_ok (fst (xdel4 hd keys (map (omap strip) ch) b os (map (xmap strip) pat)))).
    { rewrite N4X. cbn [fst]. destruct n' as [h' k' c'|h' k' c'|h' k' c'|h' c']; try discriminate Hk4.
      cbn [xmap collapse_ok]. intros E1. rewrite nth_map_omap.
      destruct R as [(Hne & _)|(_ & _ & _ & b' & c & Hin & Hn0 & _)]; [contradiction Hne|].
      cbn [xch] in Hn0. rewrite Hn0. cbn [omap]. destruct c as [a' gk tk v|ca cn]; cbn [strip]; [exact I|].
      rewrite xh_xmap. cbn [xh] in Hpl. rewrite Hpl. exact (Hfit b' ca cn Hin). }
    rewrite (gen_node4_deleteChild_eq hd keys (map (omap strip) ch) b os (map (xmap strip) pat)) in R;
      [|change (shape_ok (xmap strip (X4 hd keys ch)) = true); rewrite shape_ok_xmap; apply Hx|exact Hi|exact Hco].
    unfold xdel_child in R. cbn [xdel fst snd] in R |- *.
    destruct (g_node4_deleteChild hc_inner (hc_is_leaf h) (hc_hdr_of h) hc_with_hdr (X4 hd keys (map (omap cref) ch)) b os (map (xmap cref) pat)) as [rH pH].
    cbn [fst snd] in R |- *.
    destruct R as [(Hne & EX & EH)|(E1 & EpX & EpH & b' & c & Hin & Hn0 & Hc)].
    + injection EX as EX1 EX2. injection EH as -> ->.
      exists pat. split; [exact Hzp|]. split; [reflexivity|]. split; [exact EX2|].
      left. exists n'. split; [reflexivity|]. split; [|split].
      * exact EX1.
      * exact Hx'.
      * exact Hsub.
    + exists (put (xclear n') pat). split; [apply put_clear_zero; exact Hzp|]. split; [exact EpH|]. split; [exact EpX|].
      right. destruct Hc as [(a' & gk & tk & v & -> & EX & EH)|(ca & cn & pl & px & -> & EX & EH & Hlen)].
      * left. exists b', a', gk, tk, v. injection EX as EX. auto.
      * right. exists b', ca, cn, pl, px. injection EX as EX. split; [exact Hin|]. split; [exact EH|]. split; [exact EX|].
        rewrite Hlen. apply (xwf_prefix_len cn). destruct (stored_inv _ _ _ (Hk _ _ Hin)) as (_ & Hxc & _). exact Hxc.
  - cbn [xmap] in *. rewrite gen_node16_deleteChild_eq; try assumption.
    2:{ apply (del16_hyps_from_xwf hd keys ch b Hx Hf). }
    cbn [xdel] in NX, NH |- *. rewrite NX, NH. cbn [fst snd].
    exists (snd (xdel (X16 hd keys ch) b os pat)). split; [exact Hzp'|]. split; [reflexivity|]. split; [reflexivity|].
    left. exists (fst (xdel (X16 hd keys ch) b os pat)). rewrite hc_inner_cref. auto.
  - cbn [xmap] in *. destruct (del48_hyps_from_xwf hd idx ch b Hx Hf) as (Hb1 & Hb2).
    rewrite gen_node48_deleteChild_eq; try assumption.
    cbn [xdel] in NX, NH |- *. rewrite NX, NH. cbn [fst snd].
    exists (snd (xdel (X48 hd idx ch) b os pat)). split; [exact Hzp'|]. split; [reflexivity|]. split; [reflexivity|].
    left. exists (fst (xdel (X48 hd idx ch) b os pat)). rewrite hc_inner_cref. auto.
  - cbn [xmap] in *. rewrite gen_node256_deleteChild_eq; try assumption.
    cbn [xdel] in NX, NH |- *. rewrite NX, NH. cbn [fst snd].
    exists (snd (xdel (X256 hd ch) b os pat)). split; [exact Hzp'|]. split; [reflexivity|]. split; [reflexivity|].
    left. exists (fst (xdel (X256 hd ch) b os pat)). rewrite hc_inner_cref. auto.
Qed.

(* ---- a *nodeRef that points into the tree from outside the subtree it holds ---- *)
Definition slot_out (ref : slot) (cur : atree) : Prop :=
  match ref with SCell a0 _ => ~ live cur a0 | SRoot => True | SNil => False end.
(* what a step on the subtree cur held in *ref may change: the footprint of cur, addresses allocated by the
   step, and the cell *ref itself, which ends holding r' *)
Definition framed (h : heap) (root : href) (h' : heap) (root' : href) (ref : slot) (cur : atree) (r' : href) : Prop :=
  (next h <= next h')%nat /\
  match ref with
  | SNil => False
  | SRoot => root' = r' /\ (forall x, (x < next h \/ next h' <= x)%nat -> ~ live cur x -> load h' x = load h x)
  | SCell a0 i0 => root' = root /\ (forall x, (x < next h \/ next h' <= x)%nat -> ~ live cur x -> x <> a0 -> load h' x = load h x) /\
      exists nd, load h a0 = Some (HNode nd) /\ (i0 < length (xch nd))%nat /\
                 load h' a0 = Some (HNode (s_children (set_at i0 r' (xch nd)) nd))
  end.

Lemma set_at_same : forall {A} i (v : A) l, nth_error l i = Some v -> set_at i v l = l.
Proof.
  intros A. induction i as [|i IH]; intros v [|x l] H; cbn [nth_error set_at] in *; try discriminate.
  - injection H as ->. reflexivity.
  - f_equal. apply IH. exact H.
Qed.
Lemma s_children_id : forall {C} (n : xnode C), s_children (xch n) n = n.
Proof. intros C [ | | | ]; reflexivity. Qed.
Lemma xch_s_children : forall {C} v (n : xnode C), xch (s_children v n) = v.
Proof. intros C v [ | | | ]; reflexivity. Qed.

Lemma slot_read_inv : forall h root a0 i0 r, slot_read h root (SCell a0 i0) = Some r ->
  exists nd, load h a0 = Some (HNode nd) /\ nth_error (xch nd) i0 = Some r /\ (i0 < length (xch nd))%nat.
Proof.
  intros h root a0 i0 r H. cbn [slot_read] in H. destruct (load h a0) as [[gk tk v|nd]|]; try discriminate.
  exists nd. split; [reflexivity|]. split; [exact H|]. apply nth_error_Some. rewrite H. discriminate.
Qed.

(* a step that changed the heap only inside the footprint, then did not touch *ref *)
Lemma framed_keep : forall h root ref cur r0 h1,
  slot_read h root ref = Some r0 -> slot_out ref cur -> next h1 = next h ->
  (forall x, ~ live cur x -> load h1 x = load h x) ->
  framed h root h1 root ref cur r0.
Proof.
  intros h root ref cur r0 h1 Hrd Hout Hn Hfr. split; [lia|].
  destruct ref as [| |a0 i0]; cbn [slot_out] in Hout; [contradiction| |].
  - cbn [slot_read] in Hrd. injection Hrd as ->. split; [reflexivity|]. intros x _ Hx. apply Hfr. exact Hx.
  - destruct (slot_read_inv _ _ _ _ _ Hrd) as (nd & Hl & Hnth & Hlt).
    split; [reflexivity|]. split; [intros x _ Hx _; apply Hfr; exact Hx|].
    exists nd. split; [exact Hl|]. split; [exact Hlt|].
    replace (set_at i0 r0 (xch nd)) with (xch nd) by (symmetry; apply set_at_same; exact Hnth). rewrite s_children_id, (Hfr a0 Hout). exact Hl.
Qed.

(* ... then wrote r' into *ref *)
Lemma framed_write : forall h root ref cur r0 r' h1,
  slot_read h root ref = Some r0 -> slot_out ref cur -> next h1 = next h ->
  (forall x, ~ live cur x -> load h1 x = load h x) ->
  exists h' root', slot_write h1 root ref r' = Some (h', root') /\ framed h root h' root' ref cur r' /\
                   (forall x, live cur x -> load h' x = load h1 x) /\ next h' = next h1.
Proof.
  intros h root ref cur r0 r' h1 Hrd Hout Hn Hfr.
  destruct ref as [| |a0 i0]; cbn [slot_out] in Hout; [contradiction| |].
  - exists h1, r'. split; [reflexivity|]. split; [|auto]. split; [lia|]. split; [reflexivity|].
    intros x _ Hx. apply Hfr. exact Hx.
  - destruct (slot_read_inv _ _ _ _ _ Hrd) as (nd & Hl & Hnth & Hlt).
    cbn [slot_write]. rewrite (Hfr a0 Hout), Hl.
    replace (i0 <? length (xch nd))%nat with true by (symmetry; apply Nat.ltb_lt; exact Hlt).
    eexists _, _. split; [reflexivity|]. split.
    + split; [cbn [next store]; lia|]. split; [reflexivity|]. split.
      * intros x _ Hx Hne. rewrite load_store_other by exact Hne. apply Hfr. exact Hx.
      * exists nd. split; [exact Hl|]. split; [exact Hlt|]. apply load_store_same.
    + split; [|reflexivity]. intros x Hx. apply load_store_other. intros ->. contradiction.
Qed.

Lemma framed_read : forall h root h' root' ref cur r', framed h root h' root' ref cur r' ->
  slot_read h' root' ref = Some r'.
Proof.
  intros h root h' root' ref cur r' (_ & H). destruct ref as [| |a0 i0]; [contradiction| |].
  - destruct H as (-> & _). reflexivity.
  - destruct H as (_ & _ & nd & Hl & Hlt & Hl'). cbn [slot_read]. rewrite Hl', xch_s_children.
    apply nth_error_set_at_eq. exact Hlt.
Qed.

Lemma live_kid_root : forall a n b c, In (b, c) (kids n) -> live (AInner a n) (aref c).
Proof. intros. eapply live_kid; [eassumption|apply live_root]. Qed.

(* sub-kids: a node at the same address with a sub-list of the children is again stored / separated *)
Lemma stored_subnode : forall h h' a n n', stored h (AInner a n) -> sep (AInner a n) ->
  load h' a = Some (HNode (xmap aref n')) -> xwf n' ->
  (forall b c, In (b, c) (kids n') -> In (b, c) (kids n)) ->
  (forall x, x <> a -> live (AInner a n) x -> load h' x = load h x) ->
  stored h' (AInner a n') /\ sep (AInner a n') /\ (forall x, live (AInner a n') x -> live (AInner a n) x).
Proof.
  intros h h' a n n' Hst Hsep Hl' Hx' Hsub Hfr.
  destruct (stored_inv _ _ _ Hst) as (_ & _ & Hk). destruct (sep_inv _ _ Hsep) as (S1 & S2 & S3).
  split; [|split].
  - constructor; [exact Hl'|exact Hx'|]. intros b c Hin. apply (stored_frame h); [apply (Hk b c); auto|].
    intros x Hlx. apply Hfr; [intros ->; exact (S2 b c (Hsub _ _ Hin) Hlx)|eapply live_kid; eauto].
  - constructor; [intros b c Hin; apply (S1 b c); auto|intros b c Hin; apply (S2 b c); auto|].
    intros b1 c1 b2 c2 x H1 H2. apply S3; auto.
  - intros x Hlx. destruct (live_inv _ _ Hlx) as [->|(a1 & n1 & b & c & E & Hin & Hl)].
    + apply (live_root (AInner a n)).
    + injection E as <- <-. eapply live_kid; [apply Hsub; exact Hin|exact Hl].
Qed.

(* ref.deleteChild(b) where *ref holds the stored node a and b is a key of it: the model's xdel_child *)
Lemma deleteChild_step : forall h root ref a n b os pm,
  stored h (AInner a n) -> sep (AInner a n) -> slot_read h root ref = Some (Some a) -> slot_out ref (AInner a n) ->
  b < 256 -> xfind n b <> None -> zero_pool pm -> afit4 n ->
  exists h' root' cur',
    h_deleteChild h root ref b os (map_pool pm) =
      Some (h', root', skipn (xdel_gets (xmap strip n)) os, map_pool (snd (xdel_child (xmap strip n) b os pm))) /\
    strip cur' = fst (xdel_child (xmap strip n) b os pm) /\
    stored h' cur' /\ sep cur' /\ (forall x, live cur' x -> live (AInner a n) x) /\
    framed h root h' root' ref (AInner a n) (Some (aref cur')) /\ next h' = next h.
Proof.
  intros h root ref a n b os pm Hst Hsep Hrd Hout Hb Hf Hzp Hfit.
  destruct (stored_inv _ _ _ Hst) as (Hl & Hx & Hk). destruct (sep_inv _ _ Hsep) as (S1 & S2 & S3).
  pose proof (gdel_rel h a n b os (apool pm) Hst Hb Hf (apool_zero _ Hzp) Hfit) as R. cbv zeta in R.
  rewrite (apool_strip _ Hzp) in R.
  unfold h_deleteChild. rewrite Hrd, Hl. rewrite (pool_fwd _ Hzp), xmap_xmap.
  change (xmap (fun c : atree => CRef (aref c)) n) with (xmap cref n).
  rewrite xdel_gets_xmap, <- (xdel_gets_xmap strip n).
  destruct (g_deleteChild hc_inner (hc_is_leaf h) (hc_hdr_of h) hc_with_hdr (xmap cref n) b os (map (xmap cref) (apool pm))) as [rH pH].
  destruct R as (pat' & Hzp' & EpH & EpX & R). cbn [fst snd] in EpH, R. subst pH.
  rewrite (pool_back _ Hzp'), <- EpX.
  destruct R as [(n' & -> & EX & Hx' & Hsub)|[(b' & a' & gk & tk & v & Hin & -> & EX)|(b' & ca & cn & pl & px & Hin & -> & EX & Hlen)]].
  - (* the node stays, at its address *)
    set (h1 := store h a (HNode (xmap aref n'))).
    destruct (stored_subnode h h1 a n n' Hst Hsep) as (T1 & T2 & T3); try assumption.
    { apply load_store_same. } { intros x Hne _. apply load_store_other. exact Hne. }
    exists h1, root, (AInner a n'). split; [reflexivity|]. split; [cbn [strip]; symmetry; exact EX|].
    split; [exact T1|]. split; [exact T2|]. split; [exact T3|]. split; [|reflexivity].
    apply (framed_keep h root ref (AInner a n) (Some a) h1 Hrd Hout); [reflexivity|].
    intros x Hx0. apply load_store_other. intros ->. apply Hx0. apply (live_root (AInner a n)).
  - (* collapse onto a leaf *)
    destruct (framed_write h root ref (AInner a n) (Some a) (Some a') h Hrd Hout) as (h' & root' & Hw & Hfr & Hsame & Hnx); auto.
    rewrite Hw. exists h', root', (ALeaf a' gk tk v). split; [reflexivity|]. split; [symmetry; exact EX|].
    pose proof (Hk _ _ Hin) as Hs0. pose proof (live_kid_root a n _ _ Hin) as Hl0. cbn [aref] in Hl0.
    split; [|split; [constructor|split; [|split; [exact Hfr|exact Hnx]]]].
    + constructor. rewrite (Hsame a' Hl0). pose proof (stored_load _ _ Hs0) as E. exact E.
    + intros x Hlx. apply live_leaf in Hlx. subst x. exact Hl0.
  - (* collapse onto an inner child: its header is rewritten through the pointer, then it is linked *)
    pose proof (Hk _ _ Hin) as Hs0. destruct (stored_inv _ _ _ Hs0) as (Hlc & Hxc & Hkc).
    pose proof (live_kid_root a n _ _ Hin) as Hl0. cbn [aref] in Hl0.
    rewrite Hlc.
    set (hd := w_prefix px (w_plen pl (xh cn))).
    set (h1 := store h ca (HNode (s_node hd (xmap aref cn)))).
    destruct (framed_write h root ref (AInner a n) (Some a) (Some ca) h1 Hrd Hout) as (h' & root' & Hw & Hfr & Hsame & Hnx).
    { reflexivity. } { intros x Hx0. apply load_store_other. intros ->. contradiction. }
    rewrite Hw. exists h', root', (AInner ca (xset_hdr cn pl px)). split; [reflexivity|].
    split; [cbn [strip]; rewrite <- xset_hdr_xmap; symmetry; exact EX|].
    destruct (xset_hdr_xwf cn pl px Hxc Hlen) as (Hxc' & Ekc).
    assert (Ekids : kids (xset_hdr cn pl px) = kids cn) by exact Ekc.
    pose proof (S1 _ _ Hin) as Hsc. destruct (sep_inv _ _ Hsc) as (C1 & C2 & C3).
    assert (Hlive : forall x, live (AInner ca (xset_hdr cn pl px)) x -> live (AInner ca cn) x).
    { intros x Hlx. destruct (live_inv _ _ Hlx) as [->|(a1 & n1 & b1 & c1 & E & Hin1 & Hl1)]; [apply (live_root (AInner ca cn))|].
      injection E as <- <-. rewrite Ekids in Hin1. eapply live_kid; eauto. }
    split; [|split; [|split; [|split; [exact Hfr|exact Hnx]]]].
    + constructor.
      * rewrite (Hsame ca Hl0). subst h1. rewrite load_store_same. rewrite xset_hdr_s_node, <- s_node_xmap. reflexivity.
      * exact Hxc'.
      * intros b1 c1 Hin1. rewrite Ekids in Hin1. apply (stored_frame h); [apply (Hkc _ _ Hin1)|].
        intros x Hlx. assert (Hlx' : live (AInner a n) x) by (eapply live_kid; [exact Hin|eapply live_kid; eauto]).
        rewrite (Hsame x Hlx'). subst h1. apply load_store_other. intros ->. exact (C2 _ _ Hin1 Hlx).
    + constructor; intros; rewrite ?Ekids in *; eauto.
    + intros x Hlx. eapply live_kid; [exact Hin|apply Hlive; exact Hlx].
Qed.

(* every node4 with an inner child: the merged path fits a uint32 (see afit4) *)
Inductive afit : atree -> Prop :=
| afit_leaf : forall a gk tk v, afit (ALeaf a gk tk v)
| afit_inner : forall a n, afit4 n -> (forall b c, In (b, c) (kids n) -> afit c) -> afit (AInner a n).
Lemma afit_inv : forall a n, afit (AInner a n) -> afit4 n /\ (forall b c, In (b, c) (kids n) -> afit c).
Proof. intros a n H. inversion H; subst. auto. Qed.

(* the outcome of the loop of Delete on the subtree cur held in *ref against the model's xdelete_in *)
Definition del_ok (size : Z) (os : list choice) (pm : xpool) (h : heap) (root : href) (ref : slot) (cur : atree)
                  (r : mres bool) (m : xdres * list choice * xpool) : Prop :=
  match r with
  | MDone h' root' size' os' p' ret =>
    match fst (fst m) with
    | XDDone t' => ret = true /\ size' = (size - 1)%Z /\ os' = snd (fst m) /\ p' = map_pool (snd m) /\
        zero_pool (snd m) /\ next h' = next h /\
        exists cur', strip cur' = t' /\ stored h' cur' /\ sep cur' /\ (forall x, live cur' x -> live cur x) /\
                     framed h root h' root' ref cur (Some (aref cur'))
    | XDAbsent => ret = false /\ h' = h /\ root' = root /\ size' = size /\ os' = os /\ p' = map_pool pm /\ snd m = pm
    | XDFuel => False
    end
  | MPanic => False
  | MFuel => fst (fst m) = XDFuel
  end.

Lemma snd_xdel_child : forall n b os p, snd (xdel_child n b os p) = snd (xdel n b os p).
Proof. intros [ | | | ] b os p; reflexivity. Qed.

Lemma kid_assoc : forall (n : xnode atree) b c, xwf n -> In (b, c) (kids n) -> assoc b (kids n) = Some c.
Proof. intros n b c Hx H. apply in_assoc; [apply nenum_sorted; apply Hx|exact H]. Qed.

(* the step up: the child's cell was written in place, the parent is the model's xreplace *)
Lemma del_up : forall size os pm h root ref a n b c i R M,
  stored h (AInner a n) -> sep (AInner a n) -> slot_read h root ref = Some (Some a) -> slot_out ref (AInner a n) ->
  b < 256 -> In (b, c) (kids n) -> nth_error (xch n) i = Some (Some c) ->
  (forall c', xreplace n b c' = s_children (set_at i (Some c') (xch n)) n) ->
  del_ok size os pm h root (SCell a i) c R M ->
  del_ok size os pm h root ref (AInner a n) R
    (match fst (fst M) with XDDone c' => (XDDone (XInner (xreplace (xmap strip n) b c')), snd (fst M), snd M) | _ => M end).
Proof.
  intros size os pm h root ref a n b c i R M Hst Hsep Hrd Hout Hb Hin Hnth Hrep Hok.
  destruct (stored_inv _ _ _ Hst) as (Hl & Hx & Hk). destruct (sep_inv _ _ Hsep) as (S1 & S2 & S3).
  destruct R as [h' root' size' os' p' ret| |]; destruct M as [[res osm] pmm]; cbn [del_ok fst snd] in *;
    destruct res as [t'| |]; cbn [fst snd]; try exact Hok; try discriminate Hok.
  destruct Hok as (-> & -> & -> & -> & Hzp & Hnx & cur' & <- & Hst' & Hsep' & Hsub & Hfr).
  split; [reflexivity|]. split; [reflexivity|]. split; [reflexivity|]. split; [reflexivity|]. split; [exact Hzp|].
  split; [exact Hnx|].
  destruct Hfr as (_ & -> & Hframe & nd & Hla & Hlt & Hla').
  rewrite Hl in Hla. injection Hla as <-.
  assert (Ha : assoc b (nenum (xabs n)) <> None) by (pose proof (kid_assoc n b c Hx Hin) as E; unfold kids in E; rewrite E; discriminate).
  destruct (xreplace_xwf n b cur' Hx Hb Ha) as (Hxr & Ekr & _).
  assert (Hkr : forall b1 c1, In (b1, c1) (kids (xreplace n b cur')) ->
                  (b1 = b /\ c1 = cur') \/ (b1 <> b /\ In (b1, c1) (kids n))).
  { intros b1 c1 H1. pose proof (kid_assoc _ _ _ Hxr H1) as A1. unfold kids in A1. rewrite Ekr in A1.
    destruct (N.eq_dec b1 b) as [->|Hne].
    - rewrite assoc_repl_key_same in A1 by exact Ha. injection A1 as <-. left. auto.
    - rewrite assoc_repl_key_other in A1 by exact Hne. right. split; [exact Hne|]. apply assoc_in. exact A1. }
  assert (Hlc : forall x, live c x -> live (AInner a n) x) by (intros x Hx0; eapply live_kid; eauto).
  assert (Hframe' : forall x, ~ live c x -> x <> a -> load h' x = load h x).
  { intros x H1 H2. apply Hframe; [lia|exact H1|exact H2]. }
  exists (AInner a (xreplace n b cur')). split; [cbn [strip]; rewrite xreplace_xmap; reflexivity|].
  split; [|split; [|split]].
  - constructor.
    + rewrite Hla'. rewrite xch_xmap. change (Some (aref cur')) with (omap aref (Some cur')).
      unfold href. rewrite <- (map_set_at (omap aref) i (Some cur') (xch n)), s_children_xmap, <- Hrep. reflexivity.
    + exact Hxr.
    + intros b1 c1 H1. destruct (Hkr _ _ H1) as [(-> & ->)|(Hne & Hin1)]; [exact Hst'|].
      apply (stored_frame h); [apply (Hk _ _ Hin1)|]. intros x Hlx. apply Hframe'.
      * intros Hcx. exact (S3 b1 c1 b c x Hin1 Hin Hne Hlx Hcx).
      * intros ->. exact (S2 _ _ Hin1 Hlx).
  - constructor.
    + intros b1 c1 H1. destruct (Hkr _ _ H1) as [(-> & ->)|(Hne & Hin1)]; [exact Hsep'|apply (S1 _ _ Hin1)].
    + intros b1 c1 H1 Hla1. destruct (Hkr _ _ H1) as [(-> & ->)|(Hne & Hin1)].
      * exact (S2 _ _ Hin (Hsub _ Hla1)).
      * exact (S2 _ _ Hin1 Hla1).
    + intros b1 c1 b2 c2 x H1 H2 Hne L1 L2.
      destruct (Hkr _ _ H1) as [(-> & ->)|(Hne1 & Hin1)]; destruct (Hkr _ _ H2) as [(-> & ->)|(Hne2 & Hin2)].
      * contradiction.
      * exact (S3 b c b2 c2 x Hin Hin2 Hne (Hsub _ L1) L2).
      * exact (S3 b1 c1 b c x Hin1 Hin Hne L1 (Hsub _ L2)).
      * exact (S3 b1 c1 b2 c2 x Hin1 Hin2 Hne L1 L2).
  - intros x Hlx. destruct (live_inv _ _ Hlx) as [->|(a1 & n1 & b1 & c1 & E & H1 & L1)]; [apply (live_root (AInner a n))|].
    injection E as <- <-. destruct (Hkr _ _ H1) as [(-> & ->)|(Hne & Hin1)].
    + apply Hlc. apply Hsub. exact L1.
    + eapply live_kid; eauto.
  - cbn [aref]. split; [lia|].
    assert (Hroot : forall x, ~ live (AInner a n) x -> load h' x = load h x).
    { intros x Hx0. apply Hframe'; [intros Hc; apply Hx0; apply Hlc; exact Hc|].
      intros ->. apply Hx0. apply (live_root (AInner a n)). }
    destruct ref as [| |a0 i0]; cbn [slot_out] in Hout; [contradiction| |].
    + cbn [slot_read] in Hrd. injection Hrd as ->. split; [reflexivity|]. intros x _ Hx0. apply Hroot. exact Hx0.
    + destruct (slot_read_inv _ _ _ _ _ Hrd) as (nd0 & Hl0 & Hn0 & Hlt0).
      split; [reflexivity|]. split; [intros x _ Hx0 _; apply Hroot; exact Hx0|].
      exists nd0. split; [exact Hl0|]. split; [exact Hlt0|].
      unfold href. replace (set_at i0 (Some a) (xch nd0)) with (xch nd0) by (symmetry; apply set_at_same; exact Hn0).
      rewrite s_children_id, (Hroot a0 Hout). exact Hl0.
Qed.

Definition del_loop_spec (L : nat -> heap -> href -> Z -> list choice -> hpool -> slot -> href -> Z -> mres bool)
                         (gk tk : list N) : Prop :=
  forall fuel h root size os pm ref a n d,
    stored h (AInner a n) -> sep (AInner a n) -> slot_read h root ref = Some (Some a) -> slot_out ref (AInner a n) ->
    zero_pool pm -> isbytes tk = true -> afit (AInner a n) ->
    del_ok size os pm h root ref (AInner a n)
      (L fuel h root size os (map_pool pm) ref (Some a) (Z.of_nat d))
      (xdelete_in fuel (strip (AInner a n)) gk tk d os pm).

Lemma gm_maxPrefixLen_val : gm_maxPrefixLen = N.of_nat maxPrefixLen.
Proof. reflexivity. Qed.
Lemma atag_inner : forall a n, gkind_eqb (atag (AInner a n)) KindLeaf = false.
Proof. intros a n. cbn [atag]. destruct (xkind n); reflexivity. Qed.



(* the loop of Delete entered on a LEAF (only the root can be one: the model decides this case in xdo_delete) *)
Definition del_leaf_spec (L : nat -> heap -> href -> Z -> list choice -> hpool -> slot -> href -> Z -> mres bool) (gk : list N) : Prop :=
  forall f h root size os p a gk0 tk0 v0 d, stored h (ALeaf a gk0 tk0 v0) ->
    L (S f) h root size os p SRoot (Some a) d =
    if beq gk0 gk then MDone h None (size - 1)%Z os p true else MDone h root size os p false.

Lemma alpha_delete_loop_sim : forall keyS, del_loop_spec (fun fuel => g_alpha_delete_loop1 fuel keyS) keyS keyS.
Proof.
  intros keyS. unfold del_loop_spec. induction fuel as [|f IH]; intros h root size os pm ref a n d Hst Hsep Hrd Hout Hzp Hbt Hfit.
  - reflexivity.
  - destruct (stored_inv _ _ _ Hst) as (Hl & Hx & Hk). destruct (sep_inv _ _ Hsep) as (S1 & S2 & S3).
    destruct (afit_inv _ _ Hfit) as (F4 & Fk).
    pose proof (h_tag_stored _ _ Hst) as Ht. cbn [aref] in Ht.
    pose proof (xwf_prefix_len n Hx) as Hpl.
    cbn [g_alpha_delete_loop1 href_is_nil negb]. rewrite Ht, atag_inner, (h_ref_node_stored _ _ _ Hst).
    unfold h_prefixLen. rewrite (h_hdr_stored _ _ _ Hst).
    cbn [xdelete_in strip]. rewrite xh_xmap. cbn [xabs_hdr prefixLen].
    destruct (Nat.eqb_spec (xplen (xh n)) 0) as [E0|E0].
    + replace (N.of_nat (xplen (xh n)) =? 0) with true by lia. cbn [negb andb]. rewrite E0, Nat.add_0_r.
      rewrite idx_bytes_nat.
      destruct (nth_error keyS (d)) as [b|] eqn:Enth.
      2:{ replace (Z.of_nat (length keyS) <=? Z.of_nat (d))%Z with true
            by (symmetry; apply Z.leb_le; apply nth_error_None in Enth; lia).
          repeat split. }
      replace (Z.of_nat (length keyS) <=? Z.of_nat (d))%Z with false
        by (symmetry; apply Z.leb_gt; assert (d < length keyS)%nat by (apply nth_error_Some; rewrite Enth; discriminate); lia).
      pose proof (nth_byte _ _ _ Hbt Enth) as Hb.
      pose proof (findChild_stored _ _ _ b Hst Hb) as FC. rewrite xfind_xmap.
      destruct (xfind n b) as [c|] eqn:Ef; cbn [omap].
      2:{ rewrite FC. cbn [slot_is_nil]. repeat split. }
      destruct FC as (i & -> & Hnth & Hrep). cbn [slot_is_nil].
      pose proof (kid_of_find _ _ _ Hx Hb Ef) as Hin. pose proof (Hk _ _ Hin) as Hs.
      rewrite (slot_read_cell _ _ _ _ _ _ Hst Hnth), (h_tag_stored _ _ Hs).
      destruct c as [ca gk0 tk0 v0|ca cn]; cbn [strip aref].
      * cbn [atag gkind_eqb]. destruct (h_cast_leaf_stored _ _ _ _ _ Hs) as (-> & -> & _).
        destruct (beq gk0 keyS); [|repeat split].
        assert (Hf : xfind n b <> None) by (rewrite Ef; discriminate).
        destruct (deleteChild_step _ _ _ _ _ b os _ Hst Hsep Hrd Hout Hb Hf Hzp F4) as (h' & root' & cur' & -> & Es & T1 & T2 & T3 & T4 & T5).
        cbn [del_ok fst snd]. repeat (split; [reflexivity|]).
        split; [rewrite snd_xdel_child; apply xdel_pool_zero; exact Hzp|].
        split; [exact T5|]. exists cur'. auto.
      * rewrite atag_inner.
        replace (Z.of_nat d + 1)%Z with (Z.of_nat (S (d))) by lia.
        pose proof (IH h root size os pm (SCell a i) ca cn (S (d)) Hs (S1 _ _ Hin)
                      (slot_read_cell _ root _ _ _ _ Hst Hnth) (S2 _ _ Hin) Hzp Hbt (Fk _ _ Hin)) as R.
        cbn [strip] in R.
        apply (del_up size os pm h root ref a n b (AInner ca cn) i _ _ Hst Hsep Hrd Hout Hb Hin Hnth Hrep) in R.
        exact R.
    + replace (N.of_nat (xplen (xh n)) =? 0) with false by lia. cbn [negb andb].
      rewrite (gen_checkPrefix_eq (xh n) keyS d Hpl). rewrite gm_maxPrefixLen_val.
      unfold pl_cap. cbn [xabs_hdr prefixLen].
      replace (Z.of_nat (checkPrefix (xabs_hdr (xh n)) keyS d) =? Z.of_N (N.min (N.of_nat maxPrefixLen) (N.of_nat (xplen (xh n)))))%Z
        with (checkPrefix (xabs_hdr (xh n)) keyS d =? Nat.min maxPrefixLen (xplen (xh n)))%nat
        by (destruct (Nat.eqb_spec (checkPrefix (xabs_hdr (xh n)) keyS d) (Nat.min maxPrefixLen (xplen (xh n))));
            destruct (Z.eqb_spec (Z.of_nat (checkPrefix (xabs_hdr (xh n)) keyS d)) (Z.of_N (N.min (N.of_nat maxPrefixLen) (N.of_nat (xplen (xh n)))))); try reflexivity; lia).
      destruct (checkPrefix (xabs_hdr (xh n)) keyS d =? Nat.min maxPrefixLen (xplen (xh n)))%nat; cbn [negb]; [|repeat split].
      replace (Z.of_nat d + Z.of_N (N.of_nat (xplen (xh n))))%Z with (Z.of_nat (d + xplen (xh n))) by lia.
      rewrite idx_bytes_nat.
      destruct (nth_error keyS (d + xplen (xh n))) as [b|] eqn:Enth.
      2:{ replace (Z.of_nat (length keyS) <=? Z.of_nat (d + xplen (xh n)))%Z with true
            by (symmetry; apply Z.leb_le; apply nth_error_None in Enth; lia).
          repeat split. }
      replace (Z.of_nat (length keyS) <=? Z.of_nat (d + xplen (xh n)))%Z with false
        by (symmetry; apply Z.leb_gt; assert (d + xplen (xh n) < length keyS)%nat by (apply nth_error_Some; rewrite Enth; discriminate); lia).
      pose proof (nth_byte _ _ _ Hbt Enth) as Hb.
      pose proof (findChild_stored _ _ _ b Hst Hb) as FC. rewrite xfind_xmap.
      destruct (xfind n b) as [c|] eqn:Ef; cbn [omap].
      2:{ rewrite FC. cbn [slot_is_nil]. repeat split. }
      destruct FC as (i & -> & Hnth & Hrep). cbn [slot_is_nil].
      pose proof (kid_of_find _ _ _ Hx Hb Ef) as Hin. pose proof (Hk _ _ Hin) as Hs.
      rewrite (slot_read_cell _ _ _ _ _ _ Hst Hnth), (h_tag_stored _ _ Hs).
      destruct c as [ca gk0 tk0 v0|ca cn]; cbn [strip aref].
      * cbn [atag gkind_eqb]. destruct (h_cast_leaf_stored _ _ _ _ _ Hs) as (-> & -> & _).
        destruct (beq gk0 keyS); [|repeat split].
        assert (Hf : xfind n b <> None) by (rewrite Ef; discriminate).
        destruct (deleteChild_step _ _ _ _ _ b os _ Hst Hsep Hrd Hout Hb Hf Hzp F4) as (h' & root' & cur' & -> & Es & T1 & T2 & T3 & T4 & T5).
        cbn [del_ok fst snd]. repeat (split; [reflexivity|]).
        split; [rewrite snd_xdel_child; apply xdel_pool_zero; exact Hzp|].
        split; [exact T5|]. exists cur'. auto.
      * rewrite atag_inner.
        replace (Z.of_nat (d + xplen (xh n)) + 1)%Z with (Z.of_nat (S (d + xplen (xh n)))) by lia.
        pose proof (IH h root size os pm (SCell a i) ca cn (S (d + xplen (xh n))) Hs (S1 _ _ Hin)
                      (slot_read_cell _ root _ _ _ _ Hst Hnth) (S2 _ _ Hin) Hzp Hbt (Fk _ _ Hin)) as R.
        cbn [strip] in R.
        apply (del_up size os pm h root ref a n b (AInner ca cn) i _ _ Hst Hsep Hrd Hout Hb Hin Hnth Hrep) in R.
        exact R.
Qed.

Lemma alpha_delete_leaf : forall keyS, del_leaf_spec (fun fuel => g_alpha_delete_loop1 fuel keyS) keyS.
Proof.
  intros keyS f h root size os p a gk0 tk0 v0 d Hs.
  pose proof (h_tag_stored _ _ Hs) as Ht. cbn [aref atag] in Ht.
  destruct (h_cast_leaf_stored _ _ _ _ _ Hs) as (Hc & Hg & _).
  cbn [g_alpha_delete_loop1 href_is_nil negb]. rewrite Ht. cbn [gkind_eqb]. rewrite Hc, Hg.
  destruct (beq gk0 keyS); reflexivity.
Qed.

Lemma unsigned_delete_loop_sim : forall keyS, del_loop_spec (fun fuel => g_unsigned_delete_loop1 fuel keyS) keyS keyS.
Proof.
  intros keyS. unfold del_loop_spec. induction fuel as [|f IH]; intros h root size os pm ref a n d Hst Hsep Hrd Hout Hzp Hbt Hfit.
  - reflexivity.
  - destruct (stored_inv _ _ _ Hst) as (Hl & Hx & Hk). destruct (sep_inv _ _ Hsep) as (S1 & S2 & S3).
    destruct (afit_inv _ _ Hfit) as (F4 & Fk).
    pose proof (h_tag_stored _ _ Hst) as Ht. cbn [aref] in Ht.
    pose proof (xwf_prefix_len n Hx) as Hpl.
    cbn [g_unsigned_delete_loop1 href_is_nil negb]. rewrite Ht, atag_inner, (h_ref_node_stored _ _ _ Hst).
    unfold h_prefixLen. rewrite (h_hdr_stored _ _ _ Hst).
    cbn [xdelete_in strip]. rewrite xh_xmap. cbn [xabs_hdr prefixLen].
    destruct (Nat.eqb_spec (xplen (xh n)) 0) as [E0|E0].
    + replace (N.of_nat (xplen (xh n)) =? 0) with true by lia. cbn [negb andb]. rewrite E0, Nat.add_0_r.
      rewrite idx_bytes_nat.
      destruct (nth_error keyS (d)) as [b|] eqn:Enth.
      2:{ replace (Z.of_nat (length keyS) <=? Z.of_nat (d))%Z with true
            by (symmetry; apply Z.leb_le; apply nth_error_None in Enth; lia).
          repeat split. }
      replace (Z.of_nat (length keyS) <=? Z.of_nat (d))%Z with false
        by (symmetry; apply Z.leb_gt; assert (d < length keyS)%nat by (apply nth_error_Some; rewrite Enth; discriminate); lia).
      pose proof (nth_byte _ _ _ Hbt Enth) as Hb.
      pose proof (findChild_stored _ _ _ b Hst Hb) as FC. rewrite xfind_xmap.
      destruct (xfind n b) as [c|] eqn:Ef; cbn [omap].
      2:{ rewrite FC. cbn [slot_is_nil]. repeat split. }
      destruct FC as (i & -> & Hnth & Hrep). cbn [slot_is_nil].
      pose proof (kid_of_find _ _ _ Hx Hb Ef) as Hin. pose proof (Hk _ _ Hin) as Hs.
      rewrite (slot_read_cell _ _ _ _ _ _ Hst Hnth), (h_tag_stored _ _ Hs).
      destruct c as [ca gk0 tk0 v0|ca cn]; cbn [strip aref].
      * cbn [atag gkind_eqb]. destruct (h_cast_leaf_stored _ _ _ _ _ Hs) as (-> & -> & _).
        destruct (beq gk0 keyS); [|repeat split].
        assert (Hf : xfind n b <> None) by (rewrite Ef; discriminate).
        destruct (deleteChild_step _ _ _ _ _ b os _ Hst Hsep Hrd Hout Hb Hf Hzp F4) as (h' & root' & cur' & -> & Es & T1 & T2 & T3 & T4 & T5).
        cbn [del_ok fst snd]. repeat (split; [reflexivity|]).
        split; [rewrite snd_xdel_child; apply xdel_pool_zero; exact Hzp|].
        split; [exact T5|]. exists cur'. auto.
      * rewrite atag_inner.
        replace (Z.of_nat d + 1)%Z with (Z.of_nat (S (d))) by lia.
        pose proof (IH h root size os pm (SCell a i) ca cn (S (d)) Hs (S1 _ _ Hin)
                      (slot_read_cell _ root _ _ _ _ Hst Hnth) (S2 _ _ Hin) Hzp Hbt (Fk _ _ Hin)) as R.
        cbn [strip] in R.
        apply (del_up size os pm h root ref a n b (AInner ca cn) i _ _ Hst Hsep Hrd Hout Hb Hin Hnth Hrep) in R.
        exact R.
    + replace (N.of_nat (xplen (xh n)) =? 0) with false by lia. cbn [negb andb].
      rewrite (gen_checkPrefix_eq (xh n) keyS d Hpl). rewrite gm_maxPrefixLen_val.
      unfold pl_cap. cbn [xabs_hdr prefixLen].
      replace (Z.of_nat (checkPrefix (xabs_hdr (xh n)) keyS d) =? Z.of_N (N.min (N.of_nat maxPrefixLen) (N.of_nat (xplen (xh n)))))%Z
        with (checkPrefix (xabs_hdr (xh n)) keyS d =? Nat.min maxPrefixLen (xplen (xh n)))%nat
        by (destruct (Nat.eqb_spec (checkPrefix (xabs_hdr (xh n)) keyS d) (Nat.min maxPrefixLen (xplen (xh n))));
            destruct (Z.eqb_spec (Z.of_nat (checkPrefix (xabs_hdr (xh n)) keyS d)) (Z.of_N (N.min (N.of_nat maxPrefixLen) (N.of_nat (xplen (xh n)))))); try reflexivity; lia).
      destruct (checkPrefix (xabs_hdr (xh n)) keyS d =? Nat.min maxPrefixLen (xplen (xh n)))%nat; cbn [negb]; [|repeat split].
      replace (Z.of_nat d + Z.of_N (N.of_nat (xplen (xh n))))%Z with (Z.of_nat (d + xplen (xh n))) by lia.
      rewrite idx_bytes_nat.
      destruct (nth_error keyS (d + xplen (xh n))) as [b|] eqn:Enth.
      2:{ replace (Z.of_nat (length keyS) <=? Z.of_nat (d + xplen (xh n)))%Z with true
            by (symmetry; apply Z.leb_le; apply nth_error_None in Enth; lia).
          repeat split. }
      replace (Z.of_nat (length keyS) <=? Z.of_nat (d + xplen (xh n)))%Z with false
        by (symmetry; apply Z.leb_gt; assert (d + xplen (xh n) < length keyS)%nat by (apply nth_error_Some; rewrite Enth; discriminate); lia).
      pose proof (nth_byte _ _ _ Hbt Enth) as Hb.
      pose proof (findChild_stored _ _ _ b Hst Hb) as FC. rewrite xfind_xmap.
      destruct (xfind n b) as [c|] eqn:Ef; cbn [omap].
      2:{ rewrite FC. cbn [slot_is_nil]. repeat split. }
      destruct FC as (i & -> & Hnth & Hrep). cbn [slot_is_nil].
      pose proof (kid_of_find _ _ _ Hx Hb Ef) as Hin. pose proof (Hk _ _ Hin) as Hs.
      rewrite (slot_read_cell _ _ _ _ _ _ Hst Hnth), (h_tag_stored _ _ Hs).
      destruct c as [ca gk0 tk0 v0|ca cn]; cbn [strip aref].
      * cbn [atag gkind_eqb]. destruct (h_cast_leaf_stored _ _ _ _ _ Hs) as (-> & -> & _).
        destruct (beq gk0 keyS); [|repeat split].
        assert (Hf : xfind n b <> None) by (rewrite Ef; discriminate).
        destruct (deleteChild_step _ _ _ _ _ b os _ Hst Hsep Hrd Hout Hb Hf Hzp F4) as (h' & root' & cur' & -> & Es & T1 & T2 & T3 & T4 & T5).
        cbn [del_ok fst snd]. repeat (split; [reflexivity|]).
        split; [rewrite snd_xdel_child; apply xdel_pool_zero; exact Hzp|].
        split; [exact T5|]. exists cur'. auto.
      * rewrite atag_inner.
        replace (Z.of_nat (d + xplen (xh n)) + 1)%Z with (Z.of_nat (S (d + xplen (xh n)))) by lia.
        pose proof (IH h root size os pm (SCell a i) ca cn (S (d + xplen (xh n))) Hs (S1 _ _ Hin)
                      (slot_read_cell _ root _ _ _ _ Hst Hnth) (S2 _ _ Hin) Hzp Hbt (Fk _ _ Hin)) as R.
        cbn [strip] in R.
        apply (del_up size os pm h root ref a n b (AInner ca cn) i _ _ Hst Hsep Hrd Hout Hb Hin Hnth Hrep) in R.
        exact R.
Qed.

Lemma unsigned_delete_leaf : forall keyS, del_leaf_spec (fun fuel => g_unsigned_delete_loop1 fuel keyS) keyS.
Proof.
  intros keyS f h root size os p a gk0 tk0 v0 d Hs.
  pose proof (h_tag_stored _ _ Hs) as Ht. cbn [aref atag] in Ht.
  destruct (h_cast_leaf_stored _ _ _ _ _ Hs) as (Hc & Hg & _).
  cbn [g_unsigned_delete_loop1 href_is_nil negb]. rewrite Ht. cbn [gkind_eqb]. rewrite Hc, Hg.
  destruct (beq gk0 keyS); reflexivity.
Qed.

Lemma signed_delete_loop_sim : forall keyS, del_loop_spec (fun fuel => g_signed_delete_loop1 fuel keyS) keyS keyS.
Proof.
  intros keyS. unfold del_loop_spec. induction fuel as [|f IH]; intros h root size os pm ref a n d Hst Hsep Hrd Hout Hzp Hbt Hfit.
  - reflexivity.
  - destruct (stored_inv _ _ _ Hst) as (Hl & Hx & Hk). destruct (sep_inv _ _ Hsep) as (S1 & S2 & S3).
    destruct (afit_inv _ _ Hfit) as (F4 & Fk).
    pose proof (h_tag_stored _ _ Hst) as Ht. cbn [aref] in Ht.
    pose proof (xwf_prefix_len n Hx) as Hpl.
    cbn [g_signed_delete_loop1 href_is_nil negb]. rewrite Ht, atag_inner, (h_ref_node_stored _ _ _ Hst).
    unfold h_prefixLen. rewrite (h_hdr_stored _ _ _ Hst).
    cbn [xdelete_in strip]. rewrite xh_xmap. cbn [xabs_hdr prefixLen].
    destruct (Nat.eqb_spec (xplen (xh n)) 0) as [E0|E0].
    + replace (N.of_nat (xplen (xh n)) =? 0) with true by lia. cbn [negb andb]. rewrite E0, Nat.add_0_r.
      rewrite idx_bytes_nat.
      destruct (nth_error keyS (d)) as [b|] eqn:Enth.
      2:{ replace (Z.of_nat (length keyS) <=? Z.of_nat (d))%Z with true
            by (symmetry; apply Z.leb_le; apply nth_error_None in Enth; lia).
          repeat split. }
      replace (Z.of_nat (length keyS) <=? Z.of_nat (d))%Z with false
        by (symmetry; apply Z.leb_gt; assert (d < length keyS)%nat by (apply nth_error_Some; rewrite Enth; discriminate); lia).
      pose proof (nth_byte _ _ _ Hbt Enth) as Hb.
      pose proof (findChild_stored _ _ _ b Hst Hb) as FC. rewrite xfind_xmap.
      destruct (xfind n b) as [c|] eqn:Ef; cbn [omap].
      2:{ rewrite FC. cbn [slot_is_nil]. repeat split. }
      destruct FC as (i & -> & Hnth & Hrep). cbn [slot_is_nil].
      pose proof (kid_of_find _ _ _ Hx Hb Ef) as Hin. pose proof (Hk _ _ Hin) as Hs.
      rewrite (slot_read_cell _ _ _ _ _ _ Hst Hnth), (h_tag_stored _ _ Hs).
      destruct c as [ca gk0 tk0 v0|ca cn]; cbn [strip aref].
      * cbn [atag gkind_eqb]. destruct (h_cast_leaf_stored _ _ _ _ _ Hs) as (-> & -> & _).
        destruct (beq gk0 keyS); [|repeat split].
        assert (Hf : xfind n b <> None) by (rewrite Ef; discriminate).
        destruct (deleteChild_step _ _ _ _ _ b os _ Hst Hsep Hrd Hout Hb Hf Hzp F4) as (h' & root' & cur' & -> & Es & T1 & T2 & T3 & T4 & T5).
        cbn [del_ok fst snd]. repeat (split; [reflexivity|]).
        split; [rewrite snd_xdel_child; apply xdel_pool_zero; exact Hzp|].
        split; [exact T5|]. exists cur'. auto.
      * rewrite atag_inner.
        replace (Z.of_nat d + 1)%Z with (Z.of_nat (S (d))) by lia.
        pose proof (IH h root size os pm (SCell a i) ca cn (S (d)) Hs (S1 _ _ Hin)
                      (slot_read_cell _ root _ _ _ _ Hst Hnth) (S2 _ _ Hin) Hzp Hbt (Fk _ _ Hin)) as R.
        cbn [strip] in R.
        apply (del_up size os pm h root ref a n b (AInner ca cn) i _ _ Hst Hsep Hrd Hout Hb Hin Hnth Hrep) in R.
        exact R.
    + replace (N.of_nat (xplen (xh n)) =? 0) with false by lia. cbn [negb andb].
      rewrite (gen_checkPrefix_eq (xh n) keyS d Hpl). rewrite gm_maxPrefixLen_val.
      unfold pl_cap. cbn [xabs_hdr prefixLen].
      replace (Z.of_nat (checkPrefix (xabs_hdr (xh n)) keyS d) =? Z.of_N (N.min (N.of_nat maxPrefixLen) (N.of_nat (xplen (xh n)))))%Z
        with (checkPrefix (xabs_hdr (xh n)) keyS d =? Nat.min maxPrefixLen (xplen (xh n)))%nat
        by (destruct (Nat.eqb_spec (checkPrefix (xabs_hdr (xh n)) keyS d) (Nat.min maxPrefixLen (xplen (xh n))));
            destruct (Z.eqb_spec (Z.of_nat (checkPrefix (xabs_hdr (xh n)) keyS d)) (Z.of_N (N.min (N.of_nat maxPrefixLen) (N.of_nat (xplen (xh n)))))); try reflexivity; lia).
      destruct (checkPrefix (xabs_hdr (xh n)) keyS d =? Nat.min maxPrefixLen (xplen (xh n)))%nat; cbn [negb]; [|repeat split].
      replace (Z.of_nat d + Z.of_N (N.of_nat (xplen (xh n))))%Z with (Z.of_nat (d + xplen (xh n))) by lia.
      rewrite idx_bytes_nat.
      destruct (nth_error keyS (d + xplen (xh n))) as [b|] eqn:Enth.
      2:{ replace (Z.of_nat (length keyS) <=? Z.of_nat (d + xplen (xh n)))%Z with true
            by (symmetry; apply Z.leb_le; apply nth_error_None in Enth; lia).
          repeat split. }
      replace (Z.of_nat (length keyS) <=? Z.of_nat (d + xplen (xh n)))%Z with false
        by (symmetry; apply Z.leb_gt; assert (d + xplen (xh n) < length keyS)%nat by (apply nth_error_Some; rewrite Enth; discriminate); lia).
      pose proof (nth_byte _ _ _ Hbt Enth) as Hb.
      pose proof (findChild_stored _ _ _ b Hst Hb) as FC. rewrite xfind_xmap.
      destruct (xfind n b) as [c|] eqn:Ef; cbn [omap].
      2:{ rewrite FC. cbn [slot_is_nil]. repeat split. }
      destruct FC as (i & -> & Hnth & Hrep). cbn [slot_is_nil].
      pose proof (kid_of_find _ _ _ Hx Hb Ef) as Hin. pose proof (Hk _ _ Hin) as Hs.
      rewrite (slot_read_cell _ _ _ _ _ _ Hst Hnth), (h_tag_stored _ _ Hs).
      destruct c as [ca gk0 tk0 v0|ca cn]; cbn [strip aref].
      * cbn [atag gkind_eqb]. destruct (h_cast_leaf_stored _ _ _ _ _ Hs) as (-> & -> & _).
        destruct (beq gk0 keyS); [|repeat split].
        assert (Hf : xfind n b <> None) by (rewrite Ef; discriminate).
        destruct (deleteChild_step _ _ _ _ _ b os _ Hst Hsep Hrd Hout Hb Hf Hzp F4) as (h' & root' & cur' & -> & Es & T1 & T2 & T3 & T4 & T5).
        cbn [del_ok fst snd]. repeat (split; [reflexivity|]).
        split; [rewrite snd_xdel_child; apply xdel_pool_zero; exact Hzp|].
        split; [exact T5|]. exists cur'. auto.
      * rewrite atag_inner.
        replace (Z.of_nat (d + xplen (xh n)) + 1)%Z with (Z.of_nat (S (d + xplen (xh n)))) by lia.
        pose proof (IH h root size os pm (SCell a i) ca cn (S (d + xplen (xh n))) Hs (S1 _ _ Hin)
                      (slot_read_cell _ root _ _ _ _ Hst Hnth) (S2 _ _ Hin) Hzp Hbt (Fk _ _ Hin)) as R.
        cbn [strip] in R.
        apply (del_up size os pm h root ref a n b (AInner ca cn) i _ _ Hst Hsep Hrd Hout Hb Hin Hnth Hrep) in R.
        exact R.
Qed.

Lemma signed_delete_leaf : forall keyS, del_leaf_spec (fun fuel => g_signed_delete_loop1 fuel keyS) keyS.
Proof.
  intros keyS f h root size os p a gk0 tk0 v0 d Hs.
  pose proof (h_tag_stored _ _ Hs) as Ht. cbn [aref atag] in Ht.
  destruct (h_cast_leaf_stored _ _ _ _ _ Hs) as (Hc & Hg & _).
  cbn [g_signed_delete_loop1 href_is_nil negb]. rewrite Ht. cbn [gkind_eqb]. rewrite Hc, Hg.
  destruct (beq gk0 keyS); reflexivity.
Qed.

Lemma float_delete_loop_sim : forall keyS, del_loop_spec (fun fuel => g_float_delete_loop1 fuel keyS) keyS keyS.
Proof.
  intros keyS. unfold del_loop_spec. induction fuel as [|f IH]; intros h root size os pm ref a n d Hst Hsep Hrd Hout Hzp Hbt Hfit.
  - reflexivity.
  - destruct (stored_inv _ _ _ Hst) as (Hl & Hx & Hk). destruct (sep_inv _ _ Hsep) as (S1 & S2 & S3).
    destruct (afit_inv _ _ Hfit) as (F4 & Fk).
    pose proof (h_tag_stored _ _ Hst) as Ht. cbn [aref] in Ht.
    pose proof (xwf_prefix_len n Hx) as Hpl.
    cbn [g_float_delete_loop1 href_is_nil negb]. rewrite Ht, atag_inner, (h_ref_node_stored _ _ _ Hst).
    unfold h_prefixLen. rewrite (h_hdr_stored _ _ _ Hst).
    cbn [xdelete_in strip]. rewrite xh_xmap. cbn [xabs_hdr prefixLen].
    destruct (Nat.eqb_spec (xplen (xh n)) 0) as [E0|E0].
    + replace (N.of_nat (xplen (xh n)) =? 0) with true by lia. cbn [negb andb]. rewrite E0, Nat.add_0_r.
      rewrite idx_bytes_nat.
      destruct (nth_error keyS (d)) as [b|] eqn:Enth.
      2:{ replace (Z.of_nat (length keyS) <=? Z.of_nat (d))%Z with true
            by (symmetry; apply Z.leb_le; apply nth_error_None in Enth; lia).
          repeat split. }
      replace (Z.of_nat (length keyS) <=? Z.of_nat (d))%Z with false
        by (symmetry; apply Z.leb_gt; assert (d < length keyS)%nat by (apply nth_error_Some; rewrite Enth; discriminate); lia).
      pose proof (nth_byte _ _ _ Hbt Enth) as Hb.
      pose proof (findChild_stored _ _ _ b Hst Hb) as FC. rewrite xfind_xmap.
      destruct (xfind n b) as [c|] eqn:Ef; cbn [omap].
      2:{ rewrite FC. cbn [slot_is_nil]. repeat split. }
      destruct FC as (i & -> & Hnth & Hrep). cbn [slot_is_nil].
      pose proof (kid_of_find _ _ _ Hx Hb Ef) as Hin. pose proof (Hk _ _ Hin) as Hs.
      rewrite (slot_read_cell _ _ _ _ _ _ Hst Hnth), (h_tag_stored _ _ Hs).
      destruct c as [ca gk0 tk0 v0|ca cn]; cbn [strip aref].
      * cbn [atag gkind_eqb]. destruct (h_cast_leaf_stored _ _ _ _ _ Hs) as (-> & -> & _).
        destruct (beq gk0 keyS); [|repeat split].
        assert (Hf : xfind n b <> None) by (rewrite Ef; discriminate).
        destruct (deleteChild_step _ _ _ _ _ b os _ Hst Hsep Hrd Hout Hb Hf Hzp F4) as (h' & root' & cur' & -> & Es & T1 & T2 & T3 & T4 & T5).
        cbn [del_ok fst snd]. repeat (split; [reflexivity|]).
        split; [rewrite snd_xdel_child; apply xdel_pool_zero; exact Hzp|].
        split; [exact T5|]. exists cur'. auto.
      * rewrite atag_inner.
        replace (Z.of_nat d + 1)%Z with (Z.of_nat (S (d))) by lia.
        pose proof (IH h root size os pm (SCell a i) ca cn (S (d)) Hs (S1 _ _ Hin)
                      (slot_read_cell _ root _ _ _ _ Hst Hnth) (S2 _ _ Hin) Hzp Hbt (Fk _ _ Hin)) as R.
        cbn [strip] in R.
        apply (del_up size os pm h root ref a n b (AInner ca cn) i _ _ Hst Hsep Hrd Hout Hb Hin Hnth Hrep) in R.
        exact R.
    + replace (N.of_nat (xplen (xh n)) =? 0) with false by lia. cbn [negb andb].
      rewrite (gen_checkPrefix_eq (xh n) keyS d Hpl). rewrite gm_maxPrefixLen_val.
      unfold pl_cap. cbn [xabs_hdr prefixLen].
      replace (Z.of_nat (checkPrefix (xabs_hdr (xh n)) keyS d) =? Z.of_N (N.min (N.of_nat maxPrefixLen) (N.of_nat (xplen (xh n)))))%Z
        with (checkPrefix (xabs_hdr (xh n)) keyS d =? Nat.min maxPrefixLen (xplen (xh n)))%nat
        by (destruct (Nat.eqb_spec (checkPrefix (xabs_hdr (xh n)) keyS d) (Nat.min maxPrefixLen (xplen (xh n))));
            destruct (Z.eqb_spec (Z.of_nat (checkPrefix (xabs_hdr (xh n)) keyS d)) (Z.of_N (N.min (N.of_nat maxPrefixLen) (N.of_nat (xplen (xh n)))))); try reflexivity; lia).
      destruct (checkPrefix (xabs_hdr (xh n)) keyS d =? Nat.min maxPrefixLen (xplen (xh n)))%nat; cbn [negb]; [|repeat split].
      replace (Z.of_nat d + Z.of_N (N.of_nat (xplen (xh n))))%Z with (Z.of_nat (d + xplen (xh n))) by lia.
      rewrite idx_bytes_nat.
      destruct (nth_error keyS (d + xplen (xh n))) as [b|] eqn:Enth.
      2:{ replace (Z.of_nat (length keyS) <=? Z.of_nat (d + xplen (xh n)))%Z with true
            by (symmetry; apply Z.leb_le; apply nth_error_None in Enth; lia).
          repeat split. }
      replace (Z.of_nat (length keyS) <=? Z.of_nat (d + xplen (xh n)))%Z with false
        by (symmetry; apply Z.leb_gt; assert (d + xplen (xh n) < length keyS)%nat by (apply nth_error_Some; rewrite Enth; discriminate); lia).
      pose proof (nth_byte _ _ _ Hbt Enth) as Hb.
      pose proof (findChild_stored _ _ _ b Hst Hb) as FC. rewrite xfind_xmap.
      destruct (xfind n b) as [c|] eqn:Ef; cbn [omap].
      2:{ rewrite FC. cbn [slot_is_nil]. repeat split. }
      destruct FC as (i & -> & Hnth & Hrep). cbn [slot_is_nil].
      pose proof (kid_of_find _ _ _ Hx Hb Ef) as Hin. pose proof (Hk _ _ Hin) as Hs.
      rewrite (slot_read_cell _ _ _ _ _ _ Hst Hnth), (h_tag_stored _ _ Hs).
      destruct c as [ca gk0 tk0 v0|ca cn]; cbn [strip aref].
      * cbn [atag gkind_eqb]. destruct (h_cast_leaf_stored _ _ _ _ _ Hs) as (-> & -> & _).
        destruct (beq gk0 keyS); [|repeat split].
        assert (Hf : xfind n b <> None) by (rewrite Ef; discriminate).
        destruct (deleteChild_step _ _ _ _ _ b os _ Hst Hsep Hrd Hout Hb Hf Hzp F4) as (h' & root' & cur' & -> & Es & T1 & T2 & T3 & T4 & T5).
        cbn [del_ok fst snd]. repeat (split; [reflexivity|]).
        split; [rewrite snd_xdel_child; apply xdel_pool_zero; exact Hzp|].
        split; [exact T5|]. exists cur'. auto.
      * rewrite atag_inner.
        replace (Z.of_nat (d + xplen (xh n)) + 1)%Z with (Z.of_nat (S (d + xplen (xh n)))) by lia.
        pose proof (IH h root size os pm (SCell a i) ca cn (S (d + xplen (xh n))) Hs (S1 _ _ Hin)
                      (slot_read_cell _ root _ _ _ _ Hst Hnth) (S2 _ _ Hin) Hzp Hbt (Fk _ _ Hin)) as R.
        cbn [strip] in R.
        apply (del_up size os pm h root ref a n b (AInner ca cn) i _ _ Hst Hsep Hrd Hout Hb Hin Hnth Hrep) in R.
        exact R.
Qed.

Lemma float_delete_leaf : forall keyS, del_leaf_spec (fun fuel => g_float_delete_loop1 fuel keyS) keyS.
Proof.
  intros keyS f h root size os p a gk0 tk0 v0 d Hs.
  pose proof (h_tag_stored _ _ Hs) as Ht. cbn [aref atag] in Ht.
  destruct (h_cast_leaf_stored _ _ _ _ _ Hs) as (Hc & Hg & _).
  cbn [g_float_delete_loop1 href_is_nil negb]. rewrite Ht. cbn [gkind_eqb]. rewrite Hc, Hg.
  destruct (beq gk0 keyS); reflexivity.
Qed.

Lemma compound_delete_loop_sim : forall keyS, del_loop_spec (fun fuel => g_compound_delete_loop1 fuel keyS) keyS keyS.
Proof.
  intros keyS. unfold del_loop_spec. induction fuel as [|f IH]; intros h root size os pm ref a n d Hst Hsep Hrd Hout Hzp Hbt Hfit.
  - reflexivity.
  - destruct (stored_inv _ _ _ Hst) as (Hl & Hx & Hk). destruct (sep_inv _ _ Hsep) as (S1 & S2 & S3).
    destruct (afit_inv _ _ Hfit) as (F4 & Fk).
    pose proof (h_tag_stored _ _ Hst) as Ht. cbn [aref] in Ht.
    pose proof (xwf_prefix_len n Hx) as Hpl.
    cbn [g_compound_delete_loop1 href_is_nil negb]. rewrite Ht, atag_inner, (h_ref_node_stored _ _ _ Hst).
    unfold h_prefixLen. rewrite (h_hdr_stored _ _ _ Hst).
    cbn [xdelete_in strip]. rewrite xh_xmap. cbn [xabs_hdr prefixLen].
    destruct (Nat.eqb_spec (xplen (xh n)) 0) as [E0|E0].
    + replace (N.of_nat (xplen (xh n)) =? 0) with true by lia. cbn [negb andb]. rewrite E0, Nat.add_0_r.
      rewrite idx_bytes_nat.
      destruct (nth_error keyS (d)) as [b|] eqn:Enth.
      2:{ replace (Z.of_nat (length keyS) <=? Z.of_nat (d))%Z with true
            by (symmetry; apply Z.leb_le; apply nth_error_None in Enth; lia).
          repeat split. }
      replace (Z.of_nat (length keyS) <=? Z.of_nat (d))%Z with false
        by (symmetry; apply Z.leb_gt; assert (d < length keyS)%nat by (apply nth_error_Some; rewrite Enth; discriminate); lia).
      pose proof (nth_byte _ _ _ Hbt Enth) as Hb.
      pose proof (findChild_stored _ _ _ b Hst Hb) as FC. rewrite xfind_xmap.
      destruct (xfind n b) as [c|] eqn:Ef; cbn [omap].
      2:{ rewrite FC. cbn [slot_is_nil]. repeat split. }
      destruct FC as (i & -> & Hnth & Hrep). cbn [slot_is_nil].
      pose proof (kid_of_find _ _ _ Hx Hb Ef) as Hin. pose proof (Hk _ _ Hin) as Hs.
      rewrite (slot_read_cell _ _ _ _ _ _ Hst Hnth), (h_tag_stored _ _ Hs).
      destruct c as [ca gk0 tk0 v0|ca cn]; cbn [strip aref].
      * cbn [atag gkind_eqb]. destruct (h_cast_leaf_stored _ _ _ _ _ Hs) as (-> & -> & _).
        destruct (beq gk0 keyS); [|repeat split].
        assert (Hf : xfind n b <> None) by (rewrite Ef; discriminate).
        destruct (deleteChild_step _ _ _ _ _ b os _ Hst Hsep Hrd Hout Hb Hf Hzp F4) as (h' & root' & cur' & -> & Es & T1 & T2 & T3 & T4 & T5).
        cbn [del_ok fst snd]. repeat (split; [reflexivity|]).
        split; [rewrite snd_xdel_child; apply xdel_pool_zero; exact Hzp|].
        split; [exact T5|]. exists cur'. auto.
      * rewrite atag_inner.
        replace (Z.of_nat d + 1)%Z with (Z.of_nat (S (d))) by lia.
        pose proof (IH h root size os pm (SCell a i) ca cn (S (d)) Hs (S1 _ _ Hin)
                      (slot_read_cell _ root _ _ _ _ Hst Hnth) (S2 _ _ Hin) Hzp Hbt (Fk _ _ Hin)) as R.
        cbn [strip] in R.
        apply (del_up size os pm h root ref a n b (AInner ca cn) i _ _ Hst Hsep Hrd Hout Hb Hin Hnth Hrep) in R.
        exact R.
    + replace (N.of_nat (xplen (xh n)) =? 0) with false by lia. cbn [negb andb].
      rewrite (gen_checkPrefix_eq (xh n) keyS d Hpl). rewrite gm_maxPrefixLen_val.
      unfold pl_cap. cbn [xabs_hdr prefixLen].
      replace (Z.of_nat (checkPrefix (xabs_hdr (xh n)) keyS d) =? Z.of_N (N.min (N.of_nat maxPrefixLen) (N.of_nat (xplen (xh n)))))%Z
        with (checkPrefix (xabs_hdr (xh n)) keyS d =? Nat.min maxPrefixLen (xplen (xh n)))%nat
        by (destruct (Nat.eqb_spec (checkPrefix (xabs_hdr (xh n)) keyS d) (Nat.min maxPrefixLen (xplen (xh n))));
            destruct (Z.eqb_spec (Z.of_nat (checkPrefix (xabs_hdr (xh n)) keyS d)) (Z.of_N (N.min (N.of_nat maxPrefixLen) (N.of_nat (xplen (xh n)))))); try reflexivity; lia).
      destruct (checkPrefix (xabs_hdr (xh n)) keyS d =? Nat.min maxPrefixLen (xplen (xh n)))%nat; cbn [negb]; [|repeat split].
      replace (Z.of_nat d + Z.of_N (N.of_nat (xplen (xh n))))%Z with (Z.of_nat (d + xplen (xh n))) by lia.
      rewrite idx_bytes_nat.
      destruct (nth_error keyS (d + xplen (xh n))) as [b|] eqn:Enth.
      2:{ replace (Z.of_nat (length keyS) <=? Z.of_nat (d + xplen (xh n)))%Z with true
            by (symmetry; apply Z.leb_le; apply nth_error_None in Enth; lia).
          repeat split. }
      replace (Z.of_nat (length keyS) <=? Z.of_nat (d + xplen (xh n)))%Z with false
        by (symmetry; apply Z.leb_gt; assert (d + xplen (xh n) < length keyS)%nat by (apply nth_error_Some; rewrite Enth; discriminate); lia).
      pose proof (nth_byte _ _ _ Hbt Enth) as Hb.
      pose proof (findChild_stored _ _ _ b Hst Hb) as FC. rewrite xfind_xmap.
      destruct (xfind n b) as [c|] eqn:Ef; cbn [omap].
      2:{ rewrite FC. cbn [slot_is_nil]. repeat split. }
      destruct FC as (i & -> & Hnth & Hrep). cbn [slot_is_nil].
      pose proof (kid_of_find _ _ _ Hx Hb Ef) as Hin. pose proof (Hk _ _ Hin) as Hs.
      rewrite (slot_read_cell _ _ _ _ _ _ Hst Hnth), (h_tag_stored _ _ Hs).
      destruct c as [ca gk0 tk0 v0|ca cn]; cbn [strip aref].
      * cbn [atag gkind_eqb]. destruct (h_cast_leaf_stored _ _ _ _ _ Hs) as (-> & -> & _).
        destruct (beq gk0 keyS); [|repeat split].
        assert (Hf : xfind n b <> None) by (rewrite Ef; discriminate).
        destruct (deleteChild_step _ _ _ _ _ b os _ Hst Hsep Hrd Hout Hb Hf Hzp F4) as (h' & root' & cur' & -> & Es & T1 & T2 & T3 & T4 & T5).
        cbn [del_ok fst snd]. repeat (split; [reflexivity|]).
        split; [rewrite snd_xdel_child; apply xdel_pool_zero; exact Hzp|].
        split; [exact T5|]. exists cur'. auto.
      * rewrite atag_inner.
        replace (Z.of_nat (d + xplen (xh n)) + 1)%Z with (Z.of_nat (S (d + xplen (xh n)))) by lia.
        pose proof (IH h root size os pm (SCell a i) ca cn (S (d + xplen (xh n))) Hs (S1 _ _ Hin)
                      (slot_read_cell _ root _ _ _ _ Hst Hnth) (S2 _ _ Hin) Hzp Hbt (Fk _ _ Hin)) as R.
        cbn [strip] in R.
        apply (del_up size os pm h root ref a n b (AInner ca cn) i _ _ Hst Hsep Hrd Hout Hb Hin Hnth Hrep) in R.
        exact R.
Qed.

Lemma compound_delete_leaf : forall keyS, del_leaf_spec (fun fuel => g_compound_delete_loop1 fuel keyS) keyS.
Proof.
  intros keyS f h root size os p a gk0 tk0 v0 d Hs.
  pose proof (h_tag_stored _ _ Hs) as Ht. cbn [aref atag] in Ht.
  destruct (h_cast_leaf_stored _ _ _ _ _ Hs) as (Hc & Hg & _).
  cbn [g_compound_delete_loop1 href_is_nil negb]. rewrite Ht. cbn [gkind_eqb]. rewrite Hc, Hg.
  destruct (beq gk0 keyS); reflexivity.
Qed.

Lemma collation_delete_loop_sim : forall keyS colKey, del_loop_spec (fun fuel => g_collation_delete_loop1 fuel keyS colKey) keyS colKey.
Proof.
  intros keyS colKey. unfold del_loop_spec. induction fuel as [|f IH]; intros h root size os pm ref a n d Hst Hsep Hrd Hout Hzp Hbt Hfit.
  - reflexivity.
  - destruct (stored_inv _ _ _ Hst) as (Hl & Hx & Hk). destruct (sep_inv _ _ Hsep) as (S1 & S2 & S3).
    destruct (afit_inv _ _ Hfit) as (F4 & Fk).
    pose proof (h_tag_stored _ _ Hst) as Ht. cbn [aref] in Ht.
    pose proof (xwf_prefix_len n Hx) as Hpl.
    cbn [g_collation_delete_loop1 href_is_nil negb]. rewrite Ht, atag_inner, (h_ref_node_stored _ _ _ Hst).
    unfold h_prefixLen. rewrite (h_hdr_stored _ _ _ Hst).
    cbn [xdelete_in strip]. rewrite xh_xmap. cbn [xabs_hdr prefixLen].
    destruct (Nat.eqb_spec (xplen (xh n)) 0) as [E0|E0].
    + replace (N.of_nat (xplen (xh n)) =? 0) with true by lia. cbn [negb andb]. rewrite E0, Nat.add_0_r.
      rewrite idx_bytes_nat.
      destruct (nth_error colKey (d)) as [b|] eqn:Enth.
      2:{ replace (Z.of_nat (length colKey) <=? Z.of_nat (d))%Z with true
            by (symmetry; apply Z.leb_le; apply nth_error_None in Enth; lia).
          repeat split. }
      replace (Z.of_nat (length colKey) <=? Z.of_nat (d))%Z with false
        by (symmetry; apply Z.leb_gt; assert (d < length colKey)%nat by (apply nth_error_Some; rewrite Enth; discriminate); lia).
      pose proof (nth_byte _ _ _ Hbt Enth) as Hb.
      pose proof (findChild_stored _ _ _ b Hst Hb) as FC. rewrite xfind_xmap.
      destruct (xfind n b) as [c|] eqn:Ef; cbn [omap].
      2:{ rewrite FC. cbn [slot_is_nil]. repeat split. }
      destruct FC as (i & -> & Hnth & Hrep). cbn [slot_is_nil].
      pose proof (kid_of_find _ _ _ Hx Hb Ef) as Hin. pose proof (Hk _ _ Hin) as Hs.
      rewrite (slot_read_cell _ _ _ _ _ _ Hst Hnth), (h_tag_stored _ _ Hs).
      destruct c as [ca gk0 tk0 v0|ca cn]; cbn [strip aref].
      * cbn [atag gkind_eqb]. destruct (h_cast_leaf_stored _ _ _ _ _ Hs) as (-> & -> & _).
        destruct (beq gk0 keyS); [|repeat split].
        assert (Hf : xfind n b <> None) by (rewrite Ef; discriminate).
        destruct (deleteChild_step _ _ _ _ _ b os _ Hst Hsep Hrd Hout Hb Hf Hzp F4) as (h' & root' & cur' & -> & Es & T1 & T2 & T3 & T4 & T5).
        cbn [del_ok fst snd]. repeat (split; [reflexivity|]).
        split; [rewrite snd_xdel_child; apply xdel_pool_zero; exact Hzp|].
        split; [exact T5|]. exists cur'. auto.
      * rewrite atag_inner.
        replace (Z.of_nat d + 1)%Z with (Z.of_nat (S (d))) by lia.
        pose proof (IH h root size os pm (SCell a i) ca cn (S (d)) Hs (S1 _ _ Hin)
                      (slot_read_cell _ root _ _ _ _ Hst Hnth) (S2 _ _ Hin) Hzp Hbt (Fk _ _ Hin)) as R.
        cbn [strip] in R.
        apply (del_up size os pm h root ref a n b (AInner ca cn) i _ _ Hst Hsep Hrd Hout Hb Hin Hnth Hrep) in R.
        exact R.
    + replace (N.of_nat (xplen (xh n)) =? 0) with false by lia. cbn [negb andb].
      rewrite (gen_checkPrefix_eq (xh n) colKey d Hpl). rewrite gm_maxPrefixLen_val.
      unfold pl_cap. cbn [xabs_hdr prefixLen].
      replace (Z.of_nat (checkPrefix (xabs_hdr (xh n)) colKey d) =? Z.of_N (N.min (N.of_nat maxPrefixLen) (N.of_nat (xplen (xh n)))))%Z
        with (checkPrefix (xabs_hdr (xh n)) colKey d =? Nat.min maxPrefixLen (xplen (xh n)))%nat
        by (destruct (Nat.eqb_spec (checkPrefix (xabs_hdr (xh n)) colKey d) (Nat.min maxPrefixLen (xplen (xh n))));
            destruct (Z.eqb_spec (Z.of_nat (checkPrefix (xabs_hdr (xh n)) colKey d)) (Z.of_N (N.min (N.of_nat maxPrefixLen) (N.of_nat (xplen (xh n)))))); try reflexivity; lia).
      destruct (checkPrefix (xabs_hdr (xh n)) colKey d =? Nat.min maxPrefixLen (xplen (xh n)))%nat; cbn [negb]; [|repeat split].
      replace (Z.of_nat d + Z.of_N (N.of_nat (xplen (xh n))))%Z with (Z.of_nat (d + xplen (xh n))) by lia.
      rewrite idx_bytes_nat.
      destruct (nth_error colKey (d + xplen (xh n))) as [b|] eqn:Enth.
      2:{ replace (Z.of_nat (length colKey) <=? Z.of_nat (d + xplen (xh n)))%Z with true
            by (symmetry; apply Z.leb_le; apply nth_error_None in Enth; lia).
          repeat split. }
      replace (Z.of_nat (length colKey) <=? Z.of_nat (d + xplen (xh n)))%Z with false
        by (symmetry; apply Z.leb_gt; assert (d + xplen (xh n) < length colKey)%nat by (apply nth_error_Some; rewrite Enth; discriminate); lia).
      pose proof (nth_byte _ _ _ Hbt Enth) as Hb.
      pose proof (findChild_stored _ _ _ b Hst Hb) as FC. rewrite xfind_xmap.
      destruct (xfind n b) as [c|] eqn:Ef; cbn [omap].
      2:{ rewrite FC. cbn [slot_is_nil]. repeat split. }
      destruct FC as (i & -> & Hnth & Hrep). cbn [slot_is_nil].
      pose proof (kid_of_find _ _ _ Hx Hb Ef) as Hin. pose proof (Hk _ _ Hin) as Hs.
      rewrite (slot_read_cell _ _ _ _ _ _ Hst Hnth), (h_tag_stored _ _ Hs).
      destruct c as [ca gk0 tk0 v0|ca cn]; cbn [strip aref].
      * cbn [atag gkind_eqb]. destruct (h_cast_leaf_stored _ _ _ _ _ Hs) as (-> & -> & _).
        destruct (beq gk0 keyS); [|repeat split].
        assert (Hf : xfind n b <> None) by (rewrite Ef; discriminate).
        destruct (deleteChild_step _ _ _ _ _ b os _ Hst Hsep Hrd Hout Hb Hf Hzp F4) as (h' & root' & cur' & -> & Es & T1 & T2 & T3 & T4 & T5).
        cbn [del_ok fst snd]. repeat (split; [reflexivity|]).
        split; [rewrite snd_xdel_child; apply xdel_pool_zero; exact Hzp|].
        split; [exact T5|]. exists cur'. auto.
      * rewrite atag_inner.
        replace (Z.of_nat (d + xplen (xh n)) + 1)%Z with (Z.of_nat (S (d + xplen (xh n)))) by lia.
        pose proof (IH h root size os pm (SCell a i) ca cn (S (d + xplen (xh n))) Hs (S1 _ _ Hin)
                      (slot_read_cell _ root _ _ _ _ Hst Hnth) (S2 _ _ Hin) Hzp Hbt (Fk _ _ Hin)) as R.
        cbn [strip] in R.
        apply (del_up size os pm h root ref a n b (AInner ca cn) i _ _ Hst Hsep Hrd Hout Hb Hin Hnth Hrep) in R.
        exact R.
Qed.

Lemma collation_delete_leaf : forall keyS colKey, del_leaf_spec (fun fuel => g_collation_delete_loop1 fuel keyS colKey) keyS.
Proof.
  intros keyS colKey f h root size os p a gk0 tk0 v0 d Hs.
  pose proof (h_tag_stored _ _ Hs) as Ht. cbn [aref atag] in Ht.
  destruct (h_cast_leaf_stored _ _ _ _ _ Hs) as (Hc & Hg & _).
  cbn [g_collation_delete_loop1 href_is_nil negb]. rewrite Ht. cbn [gkind_eqb]. rewrite Hc, Hg.
  destruct (beq gk0 keyS); reflexivity.
Qed.

(* ================= C. the representation of a whole tree, and Delete ================= *)
(* repr h r t F: the raw tree t of the model is held by the heap h below the reference r, on the footprint F
   (the addresses of its nodes and leaves reachable through occupied cells; every node on it is xwf, the
   footprints of different children are disjoint) *)
Definition repr (h : heap) (r : addr) (t : xtree) (F : addr -> Prop) : Prop :=
  exists at_, aref at_ = r /\ strip at_ = t /\ stored h at_ /\ sep at_ /\ (forall x, F x <-> live at_ x).
Definition repr_root (h : heap) (root : href) (ot : option xtree) (F : addr -> Prop) : Prop :=
  match root, ot with
  | None, None => forall x, ~ F x
  | Some r, Some t => repr h r t F
  | _, _ => False
  end /\ (forall x, F x -> (x < next h)%nat).

(* the uint32 field prefixLen: a node4 and each of its inner children have a merged path that fits *)
Definition xfit4 (n : xnode xtree) : Prop :=
  match n with
  | X4 h _ _ => forall b cn, In (b, XInner cn) (nenum (xabs n)) -> N.of_nat (xplen (xh cn)) + N.of_nat (xplen h) + 1 < M32
  | _ => True
  end.
Inductive xfit : xtree -> Prop :=
| xfit_leaf : forall gk tk v, xfit (XLeaf gk tk v)
| xfit_inner : forall n, xfit4 n -> (forall b c, In (b, c) (nenum (xabs n)) -> xfit c) -> xfit (XInner n).

Lemma afit_of_xfit : forall h t, stored h t -> xfit (strip t) -> afit t.
Proof.
  intros h t H. induction H as [a gk tk v Hl|a n Hl Hx Hk IH]; intros Hf; [constructor|].
  cbn [strip] in Hf. inversion Hf as [|n0 H4 Hkf E]; subst n0. constructor.
  - destruct n as [hd keys ch|hd keys ch|hd keys ch|hd ch]; cbn [afit4]; try exact I.
    intros b' ca cn Hin. change (X4 hd keys (map (omap strip) ch)) with (xmap strip (X4 hd keys ch)) in H4.
    cbn [xfit4 xmap] in H4. specialize (H4 b' (xmap strip cn)). rewrite xh_xmap in H4. apply H4.
    change (X4 hd keys (map (omap strip) ch)) with (xmap strip (X4 hd keys ch)).
    rewrite nenum_xabs_xmap. apply in_map_iff. exists (b', AInner ca cn). split; [reflexivity|exact Hin].
  - intros b c Hin. apply (IH b c Hin). apply (Hkf b). rewrite nenum_xabs_xmap. apply in_map_iff.
    exists (b, c). split; [reflexivity|exact Hin].
Qed.

(* a Delete method: the nil test, the key preparation, then the loop from &t.root *)
Definition delete_top (L : nat -> heap -> href -> Z -> list choice -> hpool -> slot -> href -> Z -> mres bool)
    (fuel : nat) (h : heap) (root : href) (size : Z) (os : list choice) (p : hpool) : mres bool :=
  if href_is_nil root then MDone h root size os p false
  else match slot_read h root SRoot with None => MPanic | Some v => L fuel h root size os p SRoot v 0%Z end.

Theorem delete_top_sim : forall L gk tk, del_loop_spec L gk tk -> del_leaf_spec L gk ->
  forall h root ot F size os pm,
  repr_root h root ot F -> zero_pool pm -> isbytes tk = true -> match ot with Some t => xfit t | None => True end ->
  let m := xdo_delete (mkXstate ot size) gk tk os pm in
  match delete_top L (key_fuel tk) h root size os (map_pool pm) with
  | MDone h' root' size' os' p' ret =>
      snd (fst m) = OBool ret /\ size' = xsize (fst (fst m)) /\ p' = map_pool (snd m) /\ zero_pool (snd m) /\
      next h' = next h /\
      exists F', repr_root h' root' (xroot (fst (fst m))) F' /\ (forall x, F' x -> F x) /\
                 (forall x, ~ F x -> load h' x = load h x)
  | MPanic => False
  | MFuel => snd (fst m) = OFuel
  end.
Proof.
  intros L gk tk HL HLf h root ot F size os pm (Hr & Hbd) Hzp Hbt Hfit m. subst m. unfold delete_top, xdo_delete.
  destruct root as [r|]; destruct ot as [t|]; cbn [repr_root] in Hr; try contradiction; cbn [href_is_nil xroot slot_read].
  2:{ cbn [fst snd xsize xroot]. repeat (split; [reflexivity|]). split; [exact Hzp|]. split; [reflexivity|].
      exists F. split; [split; [exact Hr|exact Hbd]|]. auto. }
  destruct Hr as (at_ & <- & <- & Hst & Hsep & HF).
  destruct at_ as [a gk0 tk0 v0|a n]; cbn [strip aref].
  - unfold key_fuel. rewrite (HLf _ h (Some a) size os (map_pool pm) a gk0 tk0 v0 0%Z Hst).
    destruct (beq gk0 gk); cbn [fst snd xsize xroot].
    + repeat (split; [reflexivity|]). split; [exact Hzp|]. split; [reflexivity|].
      exists (fun _ => False). split; [split; [intros x Hx; exact Hx|intros x []]|]. split; [intros x []|reflexivity].
    + repeat (split; [reflexivity|]). split; [exact Hzp|]. split; [reflexivity|].
      exists F. split; [|auto]. split; [|exact Hbd]. exists (ALeaf a gk0 tk0 v0). auto.
  - pose proof (HL (key_fuel tk) h (Some a) size os pm SRoot a n 0%nat Hst Hsep eq_refl I Hzp Hbt
                   (afit_of_xfit _ _ Hst Hfit)) as R.
    cbn [strip Z.of_nat] in R. unfold del_ok in R.
    destruct (L (key_fuel tk) h (Some a) size os (map_pool pm) SRoot (Some a) 0%Z) as [h' root' size' os' p' ret| |];
      destruct (xdelete_in (key_fuel tk) (XInner (xmap strip n)) gk tk 0 os pm) as [[res osm] pmm];
      cbn [fst snd] in R |- *; destruct res as [t'| |]; cbn [fst snd xsize xroot]; try contradiction; try discriminate R.
    + destruct R as (-> & -> & -> & -> & Hzp' & Hnx & cur' & <- & Hst' & Hsep' & Hsub & Hfr).
      repeat (split; [reflexivity|]). split; [exact Hzp'|]. split; [exact Hnx|].
      destruct Hfr as (_ & -> & Hframe).
      exists (live cur'). split; [split|split].
      * exists cur'. split; [reflexivity|]. split; [reflexivity|]. split; [exact Hst'|]. split; [exact Hsep'|]. intros x; reflexivity.
      * intros x Hx. rewrite Hnx. apply Hbd. apply HF. apply Hsub. exact Hx.
      * intros x Hx. apply HF. apply Hsub. exact Hx.
      * intros x Hx. apply Hframe; [lia|]. intros Hl. apply Hx. apply HF. exact Hl.
    + destruct R as (-> & -> & -> & -> & -> & -> & ->).
      repeat (split; [reflexivity|]). split; [exact Hzp|]. split; [reflexivity|].
      exists F. split; [|auto]. split; [|exact Hbd]. exists (AInner a n). auto.
    + reflexivity.
Qed.

Theorem gen_alpha_delete_sim : forall h root ot F size keyS os pm,
  repr_root h root ot F -> zero_pool pm -> isbytes (keyS ++ [0]) = true -> match ot with Some t => xfit t | None => True end ->
  let m := xdo_delete (mkXstate ot size) (keyS ++ [0]) (keyS ++ [0]) os pm in
  match g_alpha_delete (key_fuel (keyS ++ [0])) h root size keyS os (map_pool pm) with
  | MDone h' root' size' os' p' ret =>
      snd (fst m) = OBool ret /\ size' = xsize (fst (fst m)) /\ p' = map_pool (snd m) /\ zero_pool (snd m) /\
      next h' = next h /\
      exists F', repr_root h' root' (xroot (fst (fst m))) F' /\ (forall x, F' x -> F x) /\
                 (forall x, ~ F x -> load h' x = load h x)
  | MPanic => False
  | MFuel => snd (fst m) = OFuel
  end.
Proof.
  intros h root ot F size keyS os pm.
  exact (delete_top_sim _ (keyS ++ [0]) (keyS ++ [0]) (alpha_delete_loop_sim (keyS ++ [0])) (alpha_delete_leaf (keyS ++ [0])) h root ot F size os pm).
Qed.

Theorem gen_unsigned_delete_sim : forall h root ot F size keyS os pm,
  repr_root h root ot F -> zero_pool pm -> isbytes keyS = true -> match ot with Some t => xfit t | None => True end ->
  let m := xdo_delete (mkXstate ot size) keyS keyS os pm in
  match g_unsigned_delete (key_fuel keyS) h root size keyS os (map_pool pm) with
  | MDone h' root' size' os' p' ret =>
      snd (fst m) = OBool ret /\ size' = xsize (fst (fst m)) /\ p' = map_pool (snd m) /\ zero_pool (snd m) /\
      next h' = next h /\
      exists F', repr_root h' root' (xroot (fst (fst m))) F' /\ (forall x, F' x -> F x) /\
                 (forall x, ~ F x -> load h' x = load h x)
  | MPanic => False
  | MFuel => snd (fst m) = OFuel
  end.
Proof.
  intros h root ot F size keyS os pm.
  exact (delete_top_sim _ keyS keyS (unsigned_delete_loop_sim keyS) (unsigned_delete_leaf keyS) h root ot F size os pm).
Qed.

Theorem gen_signed_delete_sim : forall h root ot F size keyS os pm,
  repr_root h root ot F -> zero_pool pm -> isbytes keyS = true -> match ot with Some t => xfit t | None => True end ->
  let m := xdo_delete (mkXstate ot size) keyS keyS os pm in
  match g_signed_delete (key_fuel keyS) h root size keyS os (map_pool pm) with
  | MDone h' root' size' os' p' ret =>
      snd (fst m) = OBool ret /\ size' = xsize (fst (fst m)) /\ p' = map_pool (snd m) /\ zero_pool (snd m) /\
      next h' = next h /\
      exists F', repr_root h' root' (xroot (fst (fst m))) F' /\ (forall x, F' x -> F x) /\
                 (forall x, ~ F x -> load h' x = load h x)
  | MPanic => False
  | MFuel => snd (fst m) = OFuel
  end.
Proof.
  intros h root ot F size keyS os pm.
  exact (delete_top_sim _ keyS keyS (signed_delete_loop_sim keyS) (signed_delete_leaf keyS) h root ot F size os pm).
Qed.

Theorem gen_float_delete_sim : forall h root ot F size keyS os pm,
  repr_root h root ot F -> zero_pool pm -> isbytes keyS = true -> match ot with Some t => xfit t | None => True end ->
  let m := xdo_delete (mkXstate ot size) keyS keyS os pm in
  match g_float_delete (key_fuel keyS) h root size keyS os (map_pool pm) with
  | MDone h' root' size' os' p' ret =>
      snd (fst m) = OBool ret /\ size' = xsize (fst (fst m)) /\ p' = map_pool (snd m) /\ zero_pool (snd m) /\
      next h' = next h /\
      exists F', repr_root h' root' (xroot (fst (fst m))) F' /\ (forall x, F' x -> F x) /\
                 (forall x, ~ F x -> load h' x = load h x)
  | MPanic => False
  | MFuel => snd (fst m) = OFuel
  end.
Proof.
  intros h root ot F size keyS os pm.
  exact (delete_top_sim _ keyS keyS (float_delete_loop_sim keyS) (float_delete_leaf keyS) h root ot F size os pm).
Qed.

Theorem gen_compound_delete_sim : forall h root ot F size keyS os pm,
  repr_root h root ot F -> zero_pool pm -> isbytes keyS = true -> match ot with Some t => xfit t | None => True end ->
  let m := xdo_delete (mkXstate ot size) keyS keyS os pm in
  match g_compound_delete (key_fuel keyS) h root size keyS os (map_pool pm) with
  | MDone h' root' size' os' p' ret =>
      snd (fst m) = OBool ret /\ size' = xsize (fst (fst m)) /\ p' = map_pool (snd m) /\ zero_pool (snd m) /\
      next h' = next h /\
      exists F', repr_root h' root' (xroot (fst (fst m))) F' /\ (forall x, F' x -> F x) /\
                 (forall x, ~ F x -> load h' x = load h x)
  | MPanic => False
  | MFuel => snd (fst m) = OFuel
  end.
Proof.
  intros h root ot F size keyS os pm.
  exact (delete_top_sim _ keyS keyS (compound_delete_loop_sim keyS) (compound_delete_leaf keyS) h root ot F size os pm).
Qed.

Theorem gen_collation_delete_sim : forall h root ot F size keyS colKey os pm,
  repr_root h root ot F -> zero_pool pm -> isbytes colKey = true -> match ot with Some t => xfit t | None => True end ->
  let m := xdo_delete (mkXstate ot size) keyS colKey os pm in
  match g_collation_delete (key_fuel colKey) h root size keyS colKey os (map_pool pm) with
  | MDone h' root' size' os' p' ret =>
      snd (fst m) = OBool ret /\ size' = xsize (fst (fst m)) /\ p' = map_pool (snd m) /\ zero_pool (snd m) /\
      next h' = next h /\
      exists F', repr_root h' root' (xroot (fst (fst m))) F' /\ (forall x, F' x -> F x) /\
                 (forall x, ~ F x -> load h' x = load h x)
  | MPanic => False
  | MFuel => snd (fst m) = OFuel
  end.
Proof.
  intros h root ot F size keyS colKey os pm.
  exact (delete_top_sim _ keyS colKey (collation_delete_loop_sim keyS colKey) (collation_delete_leaf keyS colKey) h root ot F size os pm).
Qed.

(* ---- the hypotheses are satisfiable: a concrete heap holding a three-key tree ---- *)
Definition ex3_l1 : atree := ALeaf 0%nat [97; 0] [97; 0] 1.
Definition ex3_l2 : atree := ALeaf 1%nat [98; 0] [98; 0] 2.
Definition ex3_l3 : atree := ALeaf 2%nat [99; 0] [99; 0] 3.
Definition ex3_node : xnode atree :=
  fst (xadd (fst (xadd (fst (xadd (xzero K4) 97 ex3_l1 [] [])) 98 ex3_l2 [] [])) 99 ex3_l3 [] []).
Definition ex3_tree : atree := AInner 3%nat ex3_node.
Definition ex3_heap : heap :=
  snd (alloc (snd (alloc (snd (alloc (snd (alloc heap0 (aobj ex3_l1))) (aobj ex3_l2))) (aobj ex3_l3))) (aobj ex3_tree)).

Lemma ex3_xwf : xwf ex3_node /\ kids ex3_node = [(97, ex3_l1); (98, ex3_l2); (99, ex3_l3)].
Proof.
  assert (Hz : zero_pool (@nil (xnode atree))) by constructor.
  destruct (xadd_sim (xzero K4) 97 ex3_l1 [] [] xwf_zero4 Hz) as (E1 & X1); [lia|reflexivity|].
  destruct (xadd_sim _ 98 ex3_l2 [] [] X1 Hz) as (E2 & X2); [lia|vm_compute; reflexivity|].
  destruct (xadd_sim _ 99 ex3_l3 [] [] X2 Hz) as (E3 & X3); [lia|vm_compute; reflexivity|].
  split; [exact X3|]. vm_compute. reflexivity.
Qed.

Example ex3_repr : repr_root ex3_heap (Some 3%nat) (Some (strip ex3_tree)) (fun x => (x < 4)%nat).
Proof.
  destruct ex3_xwf as (Hx & Hk).
  assert (Hl : forall x, live ex3_tree x <-> (x < 4)%nat).
  { intros x. split.
    - intros H. destruct (live_inv _ _ H) as [->|(a & n & b & c & E & Hin & Hc)]; [cbn; lia|].
      injection E as <- <-. rewrite Hk in Hin.
      destruct Hin as [E|[E|[E|[]]]]; injection E as <- <-; apply live_leaf in Hc; subst x; lia.
    - intros H. assert (E : (x = 0 \/ x = 1 \/ x = 2 \/ x = 3)%nat) by lia.
      destruct E as [-> | [-> | [-> | ->]]]; [| | |apply (live_root ex3_tree)].
      + eapply (live_kid 3%nat ex3_node 97 ex3_l1); [rewrite Hk; left; reflexivity|apply (live_root ex3_l1)].
      + eapply (live_kid 3%nat ex3_node 98 ex3_l2); [rewrite Hk; right; left; reflexivity|apply (live_root ex3_l2)].
      + eapply (live_kid 3%nat ex3_node 99 ex3_l3); [rewrite Hk; right; right; left; reflexivity|apply (live_root ex3_l3)]. }
  split; [|intros x Hx0; exact Hx0].
  exists ex3_tree. split; [reflexivity|]. split; [reflexivity|]. split; [|split; [|intros x; symmetry; apply Hl]].
  - constructor; [reflexivity|exact Hx|]. intros b c Hin. rewrite Hk in Hin.
    destruct Hin as [E|[E|[E|[]]]]; injection E as <- <-; constructor; reflexivity.
  - constructor.
    + intros b c Hin. rewrite Hk in Hin. destruct Hin as [E|[E|[E|[]]]]; injection E as <- <-; constructor.
    + intros b c Hin Hlv. rewrite Hk in Hin.
      destruct Hin as [E|[E|[E|[]]]]; injection E as <- <-; apply live_leaf in Hlv; discriminate Hlv.
    + intros b1 c1 b2 c2 x H1 H2 Hne L1 L2. rewrite Hk in H1, H2.
      destruct H1 as [E1|[E1|[E1|[]]]]; injection E1 as <- <-; apply live_leaf in L1; subst x;
        destruct H2 as [E2|[E2|[E2|[]]]]; injection E2 as <- <-; apply live_leaf in L2; try discriminate L2; contradiction.
Qed.
(* on it the regenerated Delete and the model compute the same (the theorem below says so for every heap) *)
Example ex3_delete_runs :
  match g_alpha_delete (key_fuel [98; 0]) ex3_heap (Some 3%nat) 3 [98] [] [] with
  | MDone h' root' size' _ _ ret =>
      ret = true /\ size' = 2%Z /\
      option_map tabs (h_reify h' root') =
        option_map tabs (xroot (fst (fst (xdo_delete (mkXstate (Some (strip ex3_tree)) 3) [98; 0] [98; 0] [] []))))
  | _ => False
  end.
Proof. vm_compute. repeat split. Qed.
Example ex3_xfit : xfit (strip ex3_tree).
Proof.
  destruct ex3_xwf as (_ & Hk). unfold kids in Hk.
  assert (Hks : nenum (xabs (xmap strip ex3_node)) = [(97, strip ex3_l1); (98, strip ex3_l2); (99, strip ex3_l3)])
    by (rewrite nenum_xabs_xmap, Hk; reflexivity).
  cbn [strip ex3_tree]. remember (xmap strip ex3_node) as m eqn:Em. apply xfit_inner.
  - destruct m; cbn [xfit4]; try exact I. intros b cn Hin. rewrite Hks in Hin.
    destruct Hin as [E|[E|[E|[]]]]; discriminate E.
  - intros b c Hin. rewrite Hks in Hin. destruct Hin as [E|[E|[E|[]]]]; injection E as _ <-; constructor.
Qed.
(* the hypotheses of the Delete theorem hold on it *)
Example ex3_delete_hyps : True.
Proof.
  pose proof (gen_alpha_delete_sim ex3_heap (Some 3%nat) (Some (strip ex3_tree)) _ 3 [98] [] []
                ex3_repr (Forall_nil _) eq_refl ex3_xfit) as H.
  exact I.
Qed.
