(* The regenerated heap-passing translations of Delete / Insert (Gen/MutGen.v, vocabulary Model/GoHeap.v)
   against the hand-written pool-aware model Model/PoolTree.v.

   Part A (this section): co-simulation BY COMPUTATION.  Histories of Insert / Delete calls are run through the
   regenerated functions (over the explicit heap) and through the model (xstep over raw value trees); after
   EVERY call the two must show the same output, the same t.size, the same pool and the same tree
   (the tree the heap holds below t.root, read back by reify, compared through the abstraction tabs that
   drops stale cells: a stale cell of the heap is a stale POINTER, a stale cell of the model a stale VALUE). *)
From GoArt Require Import Base.Bytes Model.Node4 Model.Node16 Model.Node Model.Tree Model.Iter Model.Api
  Spec.NodeSpec Spec.TreeSpec Proofs.BytesFacts Proofs.NodeFacts Proofs.TreeBasics Proofs.InsertFacts
  Model.Pool Proofs.PoolFacts Model.PoolTree Proofs.PoolTreeFacts Model.GoNode Model.GoTree Model.GoHeap
  Gen.NodeGen Gen.TreeGen Proofs.NodeAuxList Proofs.TranslateNodeFacts Proofs.TranslateTreeFacts Gen.MutGen.
From Coq Require Import ZifyN ZifyNat ZifyBool.
Ltac Zify.zify_post_hook ::= Z.div_mod_to_equations.
Open Scope N_scope.






(* ================= A. co-simulation by computation ================= *)
(* what a caller of kind k passes: the results of Transform (alpha: before the terminator is appended) *)
Definition call_insert (k : Api.kind) (fuel : nat) (h : heap) (r : href) (s : Z) (a : akey) (v : Z)
                       (os : list choice) (p : hpool) : mres unit :=
  match k, a with
  | KAlpha, AB l => g_alpha_insert fuel h r s l v os p
  | KUnsigned w, AU x => g_unsigned_insert fuel h r s (snd (transform k a)) v os p
  | KSigned w, AS x => g_signed_insert fuel h r s (snd (transform k a)) v os p
  | KFloat w, AF b => g_float_insert fuel h r s (snd (transform k a)) v os p
  | KCollation, AC o c => g_collation_insert fuel h r s o c v os p
  | KCompound sch, AT vs => g_compound_insert fuel h r s (snd (transform k a)) v os p
  | KCodec enc dec, AB u => g_compound_insert fuel h r s (enc u) v os p
  | _, _ => MPanic
  end.
Definition call_delete (k : Api.kind) (fuel : nat) (h : heap) (r : href) (s : Z) (a : akey)
                       (os : list choice) (p : hpool) : mres bool :=
  match k, a with
  | KAlpha, AB l => g_alpha_delete fuel h r s l os p
  | KUnsigned w, AU x => g_unsigned_delete fuel h r s (snd (transform k a)) os p
  | KSigned w, AS x => g_signed_delete fuel h r s (snd (transform k a)) os p
  | KFloat w, AF b => g_float_delete fuel h r s (snd (transform k a)) os p
  | KCollation, AC o c => g_collation_delete fuel h r s o c os p
  | KCompound sch, AT vs => g_compound_delete fuel h r s (snd (transform k a)) os p
  | KCodec enc dec, AB u => g_compound_delete fuel h r s (enc u) os p
  | _, _ => MPanic
  end.

(* what is compared after every call: output, abstract tree, size, pool *)
Definition view : Type := out * option tree * Z * hpool.
Record gstate := mkG { g_heap : heap; g_root : href; g_size : Z; g_pool : hpool }.
Definition g_view (o : out) (g : gstate) : view :=
  (o, option_map tabs (h_reify (g_heap g) (g_root g)), g_size g, g_pool g).
Definition x_view (o : out) (st : xstate) (p : xpool) : view :=
  (o, option_map tabs (xroot st), xsize st, map_pool p).

(* the two regenerated methods of one tree, as the caller of kind k sees them *)
Definition ins_fn : Type := nat -> heap -> href -> Z -> akey -> Z -> list choice -> hpool -> mres unit.
Definition del_fn : Type := nat -> heap -> href -> Z -> akey -> list choice -> hpool -> mres bool.

Definition gf_step (ins : ins_fn) (del : del_fn) (k : Api.kind) (g : gstate) (o : op) (os : list choice) : gstate * out :=
  let fuel := key_fuel (snd (transform k (match o with Insert a _ | Delete a => a | _ => AB [] end))) in
  match o with
  | Insert a v =>
    match ins fuel (g_heap g) (g_root g) (g_size g) a v os (g_pool g) with
    | MDone h r s _ p _ => (mkG h r s p, OUnit)
    | MPanic => (g, OPanic)
    | MFuel => (g, OFuel)
    end
  | Delete a =>
    match del fuel (g_heap g) (g_root g) (g_size g) a os (g_pool g) with
    | MDone h r s _ p b => (mkG h r s p, OBool b)
    | MPanic => (g, OPanic)
    | MFuel => (g, OFuel)
    end
  | _ => (g, ONone)
  end.
Definition g_step (k : Api.kind) := gf_step (call_insert k) (call_delete k) k.

Fixpoint gf_run (ins : ins_fn) (del : del_fn) (k : Api.kind) (g : gstate) (evs : list (op * list choice)) : list view :=
  match evs with
  | [] => []
  | (o, os) :: evs' => let r := gf_step ins del k g o os in g_view (snd r) (fst r) :: gf_run ins del k (fst r) evs'
  end.
Definition g_run (k : Api.kind) := gf_run (call_insert k) (call_delete k) k.
Fixpoint x_run (k : Api.kind) (st : xstate) (p : xpool) (evs : list (op * list choice)) : list view :=
  match evs with
  | [] => []
  | (o, os) :: evs' =>
    let r := xstep k st o os p in x_view (snd (fst r)) (fst (fst r)) (snd r) :: x_run k (fst (fst r)) (snd r) evs'
  end.
Definition g_init : gstate := mkG heap0 None 0 [].
Definition fresh_ops (l : list op) : list (op * list choice) := map (fun o => (o, [])) l.
(* the kind of the root node after a history, to check that the history exercises what it claims *)
Definition g_root_kind (k : Api.kind) (evs : list (op * list choice)) : option gkind :=
  let g := fold_left (fun g e => fst (g_step k g (fst e) (snd e))) evs g_init in h_tag (g_heap g) (g_root g).

(* A1. alpha: overwrite, leaf split, a compressed path of 15 bytes split beyond the inline bytes (the branch
   byte and the rest of the path come from the minimum leaf: node.prefixLen > maxPrefixLen) and inside them
   (node.prefixLen <= maxPrefixLen), descent, node4 -> node16 growth, node16 -> node4 shrink with the released
   node16 REUSED by the next growth, node4 collapse onto an inner child (merged path) and onto a leaf, absent
   keys, deletion of the last key *)
Definition a15 (x : N) : akey := AB [97;97;97;97;97;97;97;97;97;97;97;97;97;97;97;x].
Definition ex_alpha : list (op * list choice) :=
  fresh_ops [Insert (a15 98) 1%Z; Insert (a15 99) 2%Z; Insert (a15 98) 3%Z;
             Insert (AB [97;97;97;97;97;97;97;97;97;97;97;97;81]) 4%Z;     (* split at 12 of 15: leaf bytes *)
             Insert (AB [97;97;97;88]) 5%Z;                                 (* split at 3 of 12 > 10: leaf bytes *)
             Insert (AB [97;90]) 6%Z;                                       (* split at 1 of 3 <= 10: inline *)
             Insert (AB [97]) 7%Z;                                          (* descends one path, adds a child  *)
             Insert (AB [98]) 8%Z; Insert (AB [99]) 9%Z; Insert (AB [100]) 10%Z;
             Insert (AB [101]) 11%Z;                                        (* the root grows to a node16 *)
             Delete (AB [120]); Delete (AB [97;97]);
             Delete (AB [101]); Delete (AB [100])]                          (* the root shrinks to a node4 *)
  ++ [(Insert (AB [102]) 12%Z, []); (Insert (AB [103]) 13%Z, [Reuse 0])]   (* grows again into the released node16 *)
  ++ fresh_ops [Delete (AB [103]); Delete (AB [102]); Delete (AB [99]); Delete (AB [98]);
                Delete (AB [97]);
                Delete (AB [97;90]);                                        (* collapse onto an inner child *)
                Delete (AB [97;97;97;88]);                                  (* collapse: merged path 3+1+8 > 10 *)
                Delete (a15 99);
                Delete (AB [97;97;97;97;97;97;97;97;97;97;97;97;81]);       (* collapse onto a leaf: root leaf *)
                Delete (a15 98); Delete (a15 98); Insert (AB []) 14%Z].
Example ex_alpha_cosim : g_run KAlpha g_init ex_alpha = x_run KAlpha xinit [] ex_alpha.
Proof. vm_compute. reflexivity. Qed.
Example ex_alpha_exercises :
  g_root_kind KAlpha (firstn 11 ex_alpha) = Some Kind16 /\ g_root_kind KAlpha (firstn 15 ex_alpha) = Some Kind4 /\
  g_root_kind KAlpha (firstn 17 ex_alpha) = Some Kind16 /\ g_root_kind KAlpha (firstn 28 ex_alpha) = None /\
  map (fun v : view => fst (fst (fst v))) (x_run KAlpha xinit [] ex_alpha) =
    repeat OUnit 11 ++ [OBool false; OBool false; OBool true; OBool true; OUnit; OUnit] ++ repeat (OBool true) 10 ++
    [OBool false; OUnit].
Proof. vm_compute. repeat split. Qed.

(* A2. alpha: 60 one-byte keys: node4 -> node16 -> node48 -> node256, then down again through every shrink
   threshold (256 -> 48 at 37, 48 -> 16 at 12, 16 -> 4 at 3), every Get answered by the released node when
   there is one *)
Definition ex_wide : list (op * list choice) :=
  map (fun i => (Insert (AB [N.of_nat i]) (Z.of_nat i), [Reuse 0; Reuse 0])) (seq 1 60) ++
  map (fun i => (Delete (AB [N.of_nat i]), [Reuse 0])) (seq 1 60) ++
  map (fun i => (Insert (AB [N.of_nat i; 7]) (Z.of_nat i), [Reuse 0; Reuse 0])) (seq 1 20).
Example ex_wide_cosim : g_run KAlpha g_init ex_wide = x_run KAlpha xinit [] ex_wide.
Proof. vm_compute. reflexivity. Qed.
Example ex_wide_exercises :
  g_root_kind KAlpha (firstn 17 ex_wide) = Some Kind48 /\ g_root_kind KAlpha (firstn 49 ex_wide) = Some Kind256 /\
  g_root_kind KAlpha (firstn 83 ex_wide) = Some Kind48 /\ g_root_kind KAlpha (firstn 108 ex_wide) = Some Kind16 /\
  g_root_kind KAlpha (firstn 117 ex_wide) = Some Kind4 /\ g_root_kind KAlpha (firstn 120 ex_wide) = None.
Proof. vm_compute. repeat split. Qed.

(* A3. the other five trees on one history each (same template, different key preparation; collation has its
   own source text: two keys, the leaf test first) *)
Definition ex_col (o c : list N) : akey := AC o c.
Definition ex_collation : list (op * list choice) :=
  fresh_ops [Insert (ex_col [1] [5;5;5;5;5;5;5;5;5;5;5;5;1]) 1%Z; Insert (ex_col [2] [5;5;5;5;5;5;5;5;5;5;5;5;2]) 2%Z;
             Insert (ex_col [3] [5;5;5;5;5;5;5;5;5;5;5;9]) 3%Z; Insert (ex_col [4] [5;5;7]) 4%Z;
             Insert (ex_col [1] [5;5;5;5;5;5;5;5;5;5;5;5;1]) 5%Z; Insert (ex_col [5] [5;8]) 6%Z;
             Insert (ex_col [6] [6]) 7%Z; Insert (ex_col [7] [7]) 8%Z; Insert (ex_col [8] [8]) 9%Z;
             Insert (ex_col [9] [9]) 10%Z;
             Delete (ex_col [9] [9]); Delete (ex_col [77] [9]); Delete (ex_col [8] [8]); Delete (ex_col [7] [7]);
             Delete (ex_col [6] [6]); Delete (ex_col [5] [5;8]); Delete (ex_col [4] [5;5;7]);
             Delete (ex_col [3] [5;5;5;5;5;5;5;5;5;5;5;9]); Delete (ex_col [2] [5;5;5;5;5;5;5;5;5;5;5;5;2]);
             Delete (ex_col [1] [5;5;5;5;5;5;5;5;5;5;5;5;1]); Delete (ex_col [1] [5;5;5;5;5;5;5;5;5;5;5;5;1])].
Example ex_collation_cosim : g_run KCollation g_init ex_collation = x_run KCollation xinit [] ex_collation.
Proof. vm_compute. reflexivity. Qed.

Definition ex_codec_ops (mk : list N -> akey) : list (op * list choice) :=
  fresh_ops [Insert (mk [1;1;1;1;1;1;1;1;1;1;1;1;1;2]) 1%Z; Insert (mk [1;1;1;1;1;1;1;1;1;1;1;1;1;3]) 2%Z;
             Insert (mk [1;1;1;1;1;1;1;1;1;1;1;1;9;9]) 3%Z; Insert (mk [1;1;1;7;7;7;7;7;7;7;7;7;7;7]) 4%Z;
             Insert (mk [1;4;4;4;4;4;4;4;4;4;4;4;4;4]) 5%Z; Insert (mk [2;0;0;0;0;0;0;0;0;0;0;0;0;0]) 6%Z;
             Insert (mk [3;0;0;0;0;0;0;0;0;0;0;0;0;0]) 7%Z; Insert (mk [4;0;0;0;0;0;0;0;0;0;0;0;0;0]) 8%Z;
             Insert (mk [5;0;0;0;0;0;0;0;0;0;0;0;0;0]) 9%Z; Insert (mk [1;1;1;1;1;1;1;1;1;1;1;1;1;2]) 10%Z;
             Delete (mk [5;0;0;0;0;0;0;0;0;0;0;0;0;0]); Delete (mk [4;0;0;0;0;0;0;0;0;0;0;0;0;0]);
             Delete (mk [3;0;0;0;0;0;0;0;0;0;0;0;0;0]); Delete (mk [2;0;0;0;0;0;0;0;0;0;0;0;0;0]);
             Delete (mk [1;4;4;4;4;4;4;4;4;4;4;4;4;4]); Delete (mk [1;1;1;7;7;7;7;7;7;7;7;7;7;7]);
             Delete (mk [1;1;1;1;1;1;1;1;1;1;1;1;9;9]); Delete (mk [1;1;1;1;1;1;1;1;1;1;1;1;1;3]);
             Delete (mk [9]); Delete (mk [1;1;1;1;1;1;1;1;1;1;1;1;1;2])].
(* the codec-parametric compound tree with the identity codec: the byte strings above are the transform keys *)
Definition k_id : Api.kind := KCodec (fun l => l) (fun l => l).
Example ex_compound_cosim : g_run k_id g_init (ex_codec_ops AB) = x_run k_id xinit [] (ex_codec_ops AB).
Proof. vm_compute. reflexivity. Qed.

(* A4. one byte-level history with pairwise different path bytes, run through EACH of the four other template
   instances (they take the transform key as it is; the model is Api.KCodec with the identity codec).  It
   covers: an inline compressed-path split whose branch byte differs from every byte the shifted path holds
   at that index afterwards (the order "link the old node, then rewrite its header"); a descent through a path
   longer than the inline bytes on which the key agrees with the minimum leaf BEYOND the path (prefixMismatch
   returns more than node.prefixLen); a Delete and an Insert whose key ends exactly at an inner node *)
Definition tkey (l : list N) : akey := AB l.
Definition ex_bytes : list (op * list choice) :=
  fresh_ops [Insert (tkey [1;2;3;4;5;9]) 1%Z; Insert (tkey [1;2;3;4;5;8]) 2%Z;
             Insert (tkey [1;2;7;7;7;7]) 3%Z;                          (* inline split at 2: branch byte 3 *)
             Insert (tkey [1;2;3;4;6;6]) 4%Z;                          (* below: inline split at 1 of [4;5] *)
             Delete (tkey [1;2]); Insert (tkey [1;2]) 5%Z;             (* the key ends at an inner node *)
             Delete (tkey [1;2;3;4]); Delete (tkey [1;2;3;4;5]);
             Insert (tkey [20;21;22;23;24;25;26;27;28;29;30;31;32;33;40;41]) 6%Z;
             Insert (tkey [20;21;22;23;24;25;26;27;28;29;30;31;32;33;50;41]) 7%Z;   (* a path of 14 bytes *)
             Insert (tkey [20;21;22;23;24;25;26;27;28;29;30;31;32;33;40;42]) 8%Z;   (* agrees with the minimum leaf on 15 *)
             Insert (tkey [20;21;22;23;24;25;26;27;28;29;30;31;77;33;40;42]) 9%Z;   (* split at 12 of 14: leaf bytes *)
             Insert (tkey [20;21;22;23;88;25;26;27;28;29;30;31;32;33;40;42]) 10%Z;  (* split at 4 of 12: leaf bytes *)
             Insert (tkey [20;21;99]) 11%Z;                                          (* split at 2 of 4: inline *)
             Delete (tkey [20;21;22;23;24;25;26;27;28;29;30;31;32;33;40;42]);
             Delete (tkey [20;21;22;23;24;25;26;27;28;29;30;31;32;33;50;41]);        (* collapse onto a leaf *)
             Delete (tkey [20;21;22;23;24;25;26;27;28;29;30;31;77;33;40;42]);        (* collapse: merged path *)
             Delete (tkey [20;21;99]); Delete (tkey [20;21;22;23;88;25;26;27;28;29;30;31;32;33;40;42]);
             Delete (tkey [1;2;3;4;5;9]); Delete (tkey [1;2;3;4;5;8]); Delete (tkey [1;2;3;4;6;6]);
             Delete (tkey [1;2;7;7;7;7]); Delete (tkey [20;21;22;23;24;25;26;27;28;29;30;31;32;33;40;41]);
             Delete (tkey [1])].
Definition bytes_ins (f : nat -> heap -> href -> Z -> list N -> Z -> list choice -> hpool -> mres unit) : ins_fn :=
  fun fuel h r s a v os p => match a with AB l => f fuel h r s l v os p | _ => MPanic end.
Definition bytes_del (f : nat -> heap -> href -> Z -> list N -> list choice -> hpool -> mres bool) : del_fn :=
  fun fuel h r s a os p => match a with AB l => f fuel h r s l os p | _ => MPanic end.
Example ex_bytes_outputs : map (fun v : view => fst (fst (fst v))) (x_run k_id xinit [] ex_bytes) =
  repeat OUnit 4 ++ [OBool false; OUnit; OBool false; OBool false] ++ repeat OUnit 6 ++ repeat (OBool true) 10 ++ [OBool false].
Proof. vm_compute. reflexivity. Qed.
Example ex_unsigned_cosim :
  gf_run (bytes_ins g_unsigned_insert) (bytes_del g_unsigned_delete) k_id g_init ex_bytes = x_run k_id xinit [] ex_bytes.
Proof. vm_compute. reflexivity. Qed.
Example ex_signed_cosim :
  gf_run (bytes_ins g_signed_insert) (bytes_del g_signed_delete) k_id g_init ex_bytes = x_run k_id xinit [] ex_bytes.
Proof. vm_compute. reflexivity. Qed.
Example ex_float_cosim :
  gf_run (bytes_ins g_float_insert) (bytes_del g_float_delete) k_id g_init ex_bytes = x_run k_id xinit [] ex_bytes.
Proof. vm_compute. reflexivity. Qed.
Example ex_compound_bytes_cosim :
  gf_run (bytes_ins g_compound_insert) (bytes_del g_compound_delete) k_id g_init ex_bytes = x_run k_id xinit [] ex_bytes.
Proof. vm_compute. reflexivity. Qed.
(* the same history through alpha (the terminator 0 is appended by the method) and through collation
   (transform key = the bytes, original key = the bytes reversed) *)
Example ex_alpha_bytes_cosim : g_run KAlpha g_init ex_bytes = x_run KAlpha xinit [] ex_bytes.
Proof. vm_compute. reflexivity. Qed.
Definition to_col (e : op * list choice) : op * list choice :=
  (match fst e with
   | Insert (AB l) v => Insert (AC (rev l) l) v
   | Delete (AB l) => Delete (AC (rev l) l)
   | o => o
   end, snd e).
Example ex_collation_bytes_cosim :
  g_run KCollation g_init (map to_col ex_bytes) = x_run KCollation xinit [] (map to_col ex_bytes).
Proof. vm_compute. reflexivity. Qed.

(* ================= N. the node operations of Model/Pool.v commute with mapping the children ================= *)
Local Opaque maxNode4 maxNode16 maxNode48 shrink16 shrink48 shrink256 maxPrefixLen.

(* ---------------- list helpers ---------------- *)
Section MapLists.
Context {A B : Type} (g : A -> B).

Lemma map_gcopy : forall off (src dst : list A),
  map g (gcopy off src dst) = gcopy off (map g src) (map g dst).
Proof.
  intros off src dst. unfold gcopy.
  rewrite !map_app, !map_length, <- !firstn_map, <- !skipn_map. reflexivity.
Qed.

Lemma map_shift_right_from : forall lo (l : list A),
  map g (shift_right_from lo l) = shift_right_from lo (map g l).
Proof.
  intros lo l. unfold shift_right_from.
  rewrite map_length, <- firstn_map, map_app, <- firstn_map, <- skipn_map. reflexivity.
Qed.

Lemma map_shift_left_onto : forall pos (l : list A),
  map g (shift_left_onto pos l) = shift_left_onto pos (map g l).
Proof.
  intros pos l. unfold shift_left_onto.
  rewrite map_length, !map_app, <- firstn_map, <- !skipn_map. reflexivity.
Qed.

Lemma forallb_map_c : forall (q : B -> bool) (l : list A), forallb q (map g l) = forallb (fun a => q (g a)) l.
Proof.
  intros q l. induction l as [|a l IH]; cbn [map forallb]; [reflexivity|]. rewrite IH. reflexivity.
Qed.
End MapLists.

Lemma forallb_ext_c : forall {A} (q r : A -> bool) (l : list A), (forall a, q a = r a) -> forallb q l = forallb r l.
Proof.
  intros A q r l H. induction l as [|a l IH]; cbn [forallb]; [reflexivity|]. rewrite H, IH. reflexivity.
Qed.

Section XNat.
Context {C D : Type} (f : C -> D).
Local Notation om := (omap f).
Local Notation xm := (xmap f).

(* ---------------- 1. projections and predicates ---------------- *)
Lemma xkind_xmap : forall n : xnode C, xkind (xmap f n) = xkind n.
Proof. intros [h keys ch|h keys ch|h idx ch|h ch]; reflexivity. Qed.

Lemma xch_xmap : forall n : xnode C, xch (xmap f n) = map (omap f) (xch n).
Proof. intros [h keys ch|h keys ch|h idx ch|h ch]; reflexivity. Qed.

Lemma xbytes_xmap : forall n : xnode C, xbytes (xmap f n) = xbytes n.
Proof. intros [h keys ch|h keys ch|h idx ch|h ch]; reflexivity. Qed.

Lemma xword_xmap : forall n : xnode C, xword (xmap f n) = xword n.
Proof. intros [h keys ch|h keys ch|h idx ch|h ch]; reflexivity. Qed.

Lemma shape_ok_xmap : forall n : xnode C, shape_ok (xmap f n) = shape_ok n.
Proof.
  intros [h keys ch|h keys ch|h idx ch|h ch]; cbn [xmap shape_ok]; rewrite map_length; reflexivity.
Qed.

Lemma occupied_ok_xmap : forall n : xnode C, occupied_ok (xmap f n) = occupied_ok n.
Proof.
  intros [h keys ch|h keys ch|h idx ch|h ch]; cbn [xmap occupied_ok]; try reflexivity;
    rewrite firstn_map, forallb_map_c; apply forallb_ext_c; intros [c|]; reflexivity.
Qed.

Lemma allnil_omap : forall l : list (option C), allnil (map om l) = allnil l.
Proof.
  intros l. unfold allnil. rewrite forallb_map_c. apply forallb_ext_c. intros [c|]; reflexivity.
Qed.

Lemma is_zero_xmap : forall n : xnode C, is_zero (xmap f n) = is_zero n.
Proof.
  intros [h keys ch|h keys ch|h idx ch|h ch]; cbn [xmap is_zero]; rewrite allnil_omap, map_length; reflexivity.
Qed.

(* ---------------- 2. clear, new ---------------- *)
Lemma clear_with_xmap : forall resets (n : xnode C),
  clear_with resets (xmap f n) = xmap f (clear_with resets n).
Proof.
  intros resets [h keys ch|h keys ch|h idx ch|h ch]; cbn [xmap clear_with];
    repeat match goal with |- context [has ?s resets] => destruct (has s resets) end;
    try rewrite map_repeat_None; reflexivity.
Qed.

Lemma xclear_xmap : forall n : xnode C, xclear (xmap f n) = xmap f (xclear n).
Proof. intros n. unfold xclear. rewrite xkind_xmap. apply clear_with_xmap. Qed.

Lemma xzero_xmap : forall k, xmap f (xzero k) = xzero k.
Proof. intros [| | |]; cbn [xzero xmap]; rewrite map_repeat_None; reflexivity. Qed.

(* ---------------- 3. the pool ---------------- *)
Lemma take_kind_xmap : forall k i (p : @pool C),
  take_kind k i (map xm p) =
  match take_kind k i p with
  | Some r => Some (xmap f (fst r), map xm (snd r))
  | None => None
  end.
Proof.
  intros k i p. revert i. induction p as [|n p IH]; intros i; cbn [map take_kind]; [reflexivity|].
  rewrite xkind_xmap. destruct (kind_eqb (xkind n) k).
  - destruct i as [|i]; [reflexivity|]. rewrite IH. destruct (take_kind k i p) as [r|]; reflexivity.
  - rewrite IH. destruct (take_kind k i p) as [r|]; reflexivity.
Qed.

Lemma get_xmap : forall o k (p : @pool C),
  get o k (map (xmap f) p) = (xmap f (fst (get o k p)), map (xmap f) (snd (get o k p))).
Proof.
  intros [|i] k p; unfold get; cbn [fst snd].
  - rewrite xzero_xmap. reflexivity.
  - rewrite take_kind_xmap. destruct (take_kind k i p) as [r|]; cbn [fst snd]; [reflexivity|].
    rewrite xzero_xmap. reflexivity.
Qed.

(* ---------------- 4. the loops ---------------- *)
Lemma slot_at_omap : forall (slots : list (option C)) j, slot_at (map om slots) j = om (slot_at slots j).
Proof.
  intros slots j. unfold slot_at. rewrite nth_error_map.
  destruct (nth_error slots (N.to_nat j)) as [[c|]|]; reflexivity.
Qed.

Lemma grow48_loop_omap : forall idx (slots dst : list (option C)),
  grow48_loop idx (map om slots) (map om dst) = map om (grow48_loop idx slots dst).
Proof.
  induction idx as [|i idx IH]; intros slots [|d dst]; cbn [map grow48_loop]; try reflexivity.
  rewrite IH, slot_at_omap. destruct (i =? 0); reflexivity.
Qed.

Lemma shrink256_loop_omap : forall (src : list (option C)) i pos idx ch,
  shrink256_loop (map om src) i pos idx (map om ch) =
  (fst (shrink256_loop src i pos idx ch), map om (snd (shrink256_loop src i pos idx ch))).
Proof.
  induction src as [|[c|] src IH]; intros i pos idx ch; cbn [map omap shrink256_loop fst snd]; [reflexivity| |apply IH].
  rewrite <- IH. rewrite (map_set_at om). reflexivity.
Qed.

Lemma shrink48_loop_omap : forall idx (slots : list (option C)) i k keys ch,
  shrink48_loop idx (map om slots) i k keys (map om ch) =
  (fst (shrink48_loop idx slots i k keys ch), map om (snd (shrink48_loop idx slots i k keys ch))).
Proof.
  induction idx as [|pos idx IH]; intros slots i k keys ch; cbn [shrink48_loop fst snd]; [reflexivity|].
  destruct (pos =? 0); [apply IH|].
  rewrite <- IH. rewrite (map_set_at om), slot_at_omap. reflexivity.
Qed.

(* ---------------- 4. addChild ---------------- *)
Lemma xadd256_xmap : forall h (ch : list (option C)) b c,
  xadd256 h (map om ch) b (f c) = xmap f (xadd256 h ch b c).
Proof. intros. unfold xadd256. cbn [xmap]. rewrite (map_set_at om). reflexivity. Qed.

Lemma xadd48_xmap : forall h idx (ch : list (option C)) b c os p,
  xadd48 h idx (map om ch) b (f c) os (map xm p) =
  (xmap f (fst (xadd48 h idx ch b c os p)), map xm (snd (xadd48 h idx ch b c os p))).
Proof.
  intros. unfold xadd48. destruct (xlen h <? maxNode48); cbv zeta; cbn [fst snd].
  - cbn [xmap]. rewrite first_free_omap, (map_set_at om). reflexivity.
  - rewrite get_xmap. cbn [fst snd]. unfold put. cbn [map].
    rewrite xh_xmap, xch_xmap, grow48_loop_omap, xadd256_xmap.
    change (X48 h idx (map om ch)) with (xmap f (X48 h idx ch)). rewrite xclear_xmap. reflexivity.
Qed.

Lemma xadd16_xmap : forall h keys (ch : list (option C)) b c os p,
  xadd16 h keys (map om ch) b (f c) os (map xm p) =
  (xmap f (fst (xadd16 h keys ch b c os p)), map xm (snd (xadd16 h keys ch b c os p))).
Proof.
  intros. unfold xadd16. destruct (xlen h <? maxNode16); cbv zeta.
  - destruct (_ =? _)%Z; cbn [fst snd xmap].
    + rewrite (map_set_at om). reflexivity.
    + rewrite (map_set_at om), map_shift_right_from. reflexivity.
  - rewrite get_xmap. cbn [fst snd]. unfold put.
    rewrite xh_xmap, xch_xmap, xbytes_xmap, firstn_map, <- map_gcopy, xadd48_xmap. cbn [fst snd map].
    change (X16 h keys (map om ch)) with (xmap f (X16 h keys ch)). rewrite xclear_xmap. reflexivity.
Qed.

Lemma xadd4_xmap : forall h keys (ch : list (option C)) b c os p,
  xadd4 h keys (map om ch) b (f c) os (map xm p) =
  (xmap f (fst (xadd4 h keys ch b c os p)), map xm (snd (xadd4 h keys ch b c os p))).
Proof.
  intros. unfold xadd4. destruct (xlen h <? maxNode4); cbv zeta.
  - destruct (_ =? _)%Z; cbn [fst snd xmap].
    + rewrite (map_set_at om). reflexivity.
    + rewrite (map_set_at om), map_shift_right_from. reflexivity.
  - rewrite get_xmap. cbn [fst snd]. unfold put.
    rewrite xh_xmap, xch_xmap, xbytes_xmap, <- map_gcopy, xadd16_xmap. cbn [fst snd map].
    change (X4 h keys (map om ch)) with (xmap f (X4 h keys ch)). rewrite xclear_xmap. reflexivity.
Qed.

Theorem xadd_xmap : forall (n : xnode C) b c os p,
  xadd (xmap f n) b (f c) os (map (xmap f) p) =
  (xmap f (fst (xadd n b c os p)), map (xmap f) (snd (xadd n b c os p))).
Proof.
  intros [h keys ch|h keys ch|h idx ch|h ch] b c os p; cbn [xmap xadd].
  - apply xadd4_xmap.
  - apply xadd16_xmap.
  - apply xadd48_xmap.
  - cbn [fst snd]. rewrite xadd256_xmap. reflexivity.
Qed.

(* ---------------- 5. deleteChild ---------------- *)
Lemma xdel256_xmap : forall h (ch : list (option C)) b os p,
  xdel256 h (map om ch) b os (map xm p) =
  (xmap f (fst (xdel256 h ch b os p)), map xm (snd (xdel256 h ch b os p))).
Proof.
  intros. unfold xdel256. cbv zeta. destruct (_ =? shrink256); cbn [fst snd].
  - rewrite get_xmap. cbn [fst snd]. unfold put. cbn [map].
    rewrite xh_xmap, xch_xmap, xbytes_xmap.
    change (@None D) with (om None). rewrite <- (map_set_at om).
    rewrite shrink256_loop_omap. cbn [fst snd xmap].
    change (X256 (w_len (u8 (xlen h + 255)) h) (map om (set_at (N.to_nat b) None ch)))
      with (xmap f (X256 (w_len (u8 (xlen h + 255)) h) (set_at (N.to_nat b) None ch))).
    rewrite xclear_xmap. reflexivity.
  - cbn [xmap]. rewrite (map_set_at om). reflexivity.
Qed.

Lemma xdel48_xmap : forall h idx (ch : list (option C)) b os p,
  xdel48 h idx (map om ch) b os (map xm p) =
  (xmap f (fst (xdel48 h idx ch b os p)), map xm (snd (xdel48 h idx ch b os p))).
Proof.
  intros. unfold xdel48. cbv zeta. destruct (_ =? shrink48); cbn [fst snd].
  - rewrite get_xmap. cbn [fst snd]. unfold put. cbn [map].
    rewrite xh_xmap, xch_xmap, xbytes_xmap.
    change (@None D) with (om None). rewrite <- (map_set_at om).
    rewrite shrink48_loop_omap. cbn [fst snd xmap].
    match goal with |- context [xclear (X48 ?h' ?i' (map om ?c'))] =>
      change (X48 h' i' (map om c')) with (xmap f (X48 h' i' c')) end.
    rewrite xclear_xmap. reflexivity.
  - cbn [xmap]. rewrite (map_set_at om). reflexivity.
Qed.

Lemma xdel16_xmap : forall h keys (ch : list (option C)) b os p,
  xdel16 h keys (map om ch) b os (map xm p) =
  (xmap f (fst (xdel16 h keys ch b os p)), map xm (snd (xdel16 h keys ch b os p))).
Proof.
  intros. unfold xdel16. cbv zeta. destruct (_ =? shrink16); cbn [fst snd].
  - rewrite get_xmap. cbn [fst snd]. unfold put. cbn [map].
    rewrite xh_xmap, xch_xmap, <- map_shift_left_onto, <- map_gcopy. cbn [xmap].
    match goal with |- context [xclear (X16 ?h' ?i' (map om ?c'))] =>
      change (X16 h' i' (map om c')) with (xmap f (X16 h' i' c')) end.
    rewrite xclear_xmap. reflexivity.
  - cbn [xmap]. rewrite map_shift_left_onto. reflexivity.
Qed.

Lemma xdel4_xmap : forall h keys (ch : list (option C)) b os p,
  xdel4 h keys (map om ch) b os (map xm p) =
  (xmap f (fst (xdel4 h keys ch b os p)), map xm (snd (xdel4 h keys ch b os p))).
Proof.
  intros. unfold xdel4. cbv zeta.
  set (n' := if (searchNode4 keys b =? -1)%Z then X4 h keys ch
             else X4 (w_len (u8 (xlen h + 255)) h) (shiftRightClear keys (Z.to_N (searchNode4 keys b + 1)))
                     (shift_left_onto (Z.to_nat (searchNode4 keys b)) ch)).
  assert (E : (if (searchNode4 keys b =? -1)%Z then X4 h keys (map om ch)
               else X4 (w_len (u8 (xlen h + 255)) h) (shiftRightClear keys (Z.to_N (searchNode4 keys b + 1)))
                       (shift_left_onto (Z.to_nat (searchNode4 keys b)) (map om ch))) = xmap f n').
  { unfold n'. destruct (_ =? _)%Z; cbn [xmap]; [reflexivity|]. rewrite map_shift_left_onto. reflexivity. }
  rewrite E, xh_xmap. destruct (xlen (xh n') =? 1); cbn [fst snd]; [|reflexivity].
  unfold put. cbn [map]. rewrite xclear_xmap. reflexivity.
Qed.

Theorem xdel_xmap : forall (n : xnode C) b os p,
  xdel (xmap f n) b os (map (xmap f) p) =
  (xmap f (fst (xdel n b os p)), map (xmap f) (snd (xdel n b os p))).
Proof.
  intros [h keys ch|h keys ch|h idx ch|h ch] b os p; cbn [xmap xdel].
  - apply xdel4_xmap.
  - apply xdel16_xmap.
  - apply xdel48_xmap.
  - apply xdel256_xmap.
Qed.

(* ---------------- 6. a new node4 ---------------- *)
Theorem xnew4_xmap : forall pl src os (p : @pool C),
  xnew4 pl src os (map (xmap f) p) =
  (xmap f (fst (xnew4 pl src os p)), map (xmap f) (snd (xnew4 pl src os p))).
Proof.
  intros. unfold xnew4. cbv zeta. rewrite get_xmap. cbn [fst snd xmap].
  rewrite xh_xmap, xword_xmap, xch_xmap. reflexivity.
Qed.

(* ---------------- 7. reads, in-place writes, counters ---------------- *)
Lemma slot_omap : forall (l : list (option C)) i, PoolTree.slot (map om l) i = om (PoolTree.slot l i).
Proof.
  intros l i. unfold PoolTree.slot. rewrite nth_error_map. destruct (nth_error l i) as [[c|]|]; reflexivity.
Qed.

Theorem xfind_xmap : forall (n : xnode C) b, xfind (xmap f n) b = omap f (xfind n b).
Proof.
  intros [h keys ch|h keys ch|h idx ch|h ch] b; cbn [xmap xfind].
  - destruct (_ && _); [apply slot_omap|reflexivity].
  - destruct (_ =? _)%Z; [reflexivity|apply slot_omap].
  - destruct (_ =? 0); [reflexivity|apply slot_omap].
  - apply slot_omap.
Qed.

Theorem xreplace_xmap : forall (n : xnode C) b c, xreplace (xmap f n) b (f c) = xmap f (xreplace n b c).
Proof.
  intros [h keys ch|h keys ch|h idx ch|h ch] b c; cbn [xmap xreplace].
  - destruct (_ && _); cbn [xmap]; [rewrite (map_set_at om)|]; reflexivity.
  - destruct (_ =? _)%Z; cbn [xmap]; [|rewrite (map_set_at om)]; reflexivity.
  - destruct (_ =? 0); cbn [xmap]; [|rewrite (map_set_at om)]; reflexivity.
  - rewrite (map_set_at om). reflexivity.
Qed.

Lemma xset_hdr_xmap : forall (n : xnode C) pl px, xset_hdr (xmap f n) pl px = xmap f (xset_hdr n pl px).
Proof. intros [h keys ch|h keys ch|h idx ch|h ch] pl px; reflexivity. Qed.

Lemma s_node_xmap : forall h (n : xnode C), s_node h (xmap f n) = xmap f (s_node h n).
Proof. intros h0 [h keys ch|h keys ch|h idx ch|h ch]; reflexivity. Qed.

Lemma s_children_xmap : forall v (n : xnode C), s_children (map om v) (xmap f n) = xmap f (s_children v n).
Proof. intros v [h keys ch|h keys ch|h idx ch|h ch]; reflexivity. Qed.

Lemma xadd_gets_xmap : forall n : xnode C, xadd_gets (xmap f n) = xadd_gets n.
Proof. intros [h keys ch|h keys ch|h idx ch|h ch]; reflexivity. Qed.

Lemma xdel_gets_xmap : forall n : xnode C, xdel_gets (xmap f n) = xdel_gets n.
Proof. intros [h keys ch|h keys ch|h idx ch|h ch]; reflexivity. Qed.

(* ---------------- 8. the abstraction ---------------- *)
Lemma nenum_xabs_xmap : forall n : xnode C,
  nenum (xabs (xmap f n)) = map (fun bc => (fst bc, f (snd bc))) (nenum (xabs n)).
Proof. intros n. rewrite xabs_xmap, nenum_rmap. reflexivity. Qed.

Lemma xwf_xmap : forall n : xnode C, xwf n -> xwf (xmap f n).
Proof.
  intros n (Hs & Ho & Hw). split; [|split].
  - rewrite shape_ok_xmap. exact Hs.
  - rewrite occupied_ok_xmap. exact Ho.
  - rewrite xabs_xmap. apply nwf_rmap. exact Hw.
Qed.

End XNat.

(* ---------------- 9. functoriality ---------------- *)
Lemma xmap_ext : forall {A B} (f g : A -> B) (n : xnode A), (forall c, f c = g c) -> xmap f n = xmap g n.
Proof.
  intros A B f g n H.
  assert (E : forall l : list (option A), map (omap f) l = map (omap g) l).
  { intros l. apply map_ext. intros [c|]; cbn [omap]; [rewrite H|]; reflexivity. }
  destruct n as [h keys ch|h keys ch|h idx ch|h ch]; cbn [xmap]; rewrite E; reflexivity.
Qed.

Lemma xmap_xmap : forall {A B E} (f : A -> B) (g : B -> E) (n : xnode A),
  xmap g (xmap f n) = xmap (fun c => g (f c)) n.
Proof.
  intros A B E f g n.
  assert (H : forall l : list (option A), map (omap g) (map (omap f) l) = map (omap (fun c => g (f c))) l).
  { intros l. rewrite map_map. apply map_ext. intros [c|]; reflexivity. }
  destruct n as [h keys ch|h keys ch|h idx ch|h ch]; cbn [xmap]; rewrite H; reflexivity.
Qed.

Lemma xmap_id : forall {A} (n : xnode A), xmap (fun c => c) n = n.
Proof.
  intros A n.
  assert (H : forall l : list (option A), map (omap (fun c : A => c)) l = l).
  { intros l. rewrite <- (map_id l) at 2. apply map_ext. intros [c|]; reflexivity. }
  destruct n as [h keys ch|h keys ch|h idx ch|h ch]; cbn [xmap]; rewrite H; reflexivity.
Qed.

Lemma zero_xmap_any : forall {A B} (f : A -> B) (n : xnode A),
  is_zero n = true -> xmap f n = xzero (xkind n).
Proof.
  intros A B f n H. pose proof (is_zero_eq n H) as E.
  transitivity (xmap f (xzero (xkind n))); [f_equal; exact E|apply xzero_xmap].
Qed.

(* ---------------- 10. label_cells / relabel: the index of the cell ---------------- *)
Lemma nth_error_label_from : forall {C} (l : list (option C)) s i,
  nth_error (map (fun ic : nat * option C => match snd ic with Some _ => Some (fst ic) | None => None end)
                 (combine (seq s (length l)) l)) i =
  match nth_error l i with
  | Some (Some _) => Some (Some (s + i)%nat)
  | Some None => Some None
  | None => None
  end.
Proof.
  intros C. induction l as [|x l IH]; intros s i.
  - destruct i; reflexivity.
  - cbn [length seq combine map]. destruct i as [|i]; cbn [nth_error fst snd].
    + destruct x; [rewrite Nat.add_0_r|]; reflexivity.
    + rewrite IH. replace (S s + i)%nat with (s + S i)%nat by lia. reflexivity.
Qed.

Lemma nth_error_label_cells : forall {C} (l : list (option C)) i,
  nth_error (label_cells l) i =
  match nth_error l i with
  | Some (Some _) => Some (Some i)
  | Some None => Some None
  | None => None
  end.
Proof. intros C l i. unfold label_cells. rewrite nth_error_label_from. reflexivity. Qed.

Lemma length_label_cells : forall {C} (l : list (option C)), length (label_cells l) = length l.
Proof. intros C l. unfold label_cells. rewrite map_length, combine_length, seq_length. lia. Qed.

Lemma slot_label_cells : forall {C} (l : list (option C)) i,
  PoolTree.slot (label_cells l) i =
  match nth_error l i with Some (Some _) => Some i | _ => None end.
Proof.
  intros C l i. unfold PoolTree.slot. rewrite nth_error_label_cells.
  destruct (nth_error l i) as [[c|]|]; reflexivity.
Qed.

(* relabel is a map of the node zipped with its indices: it erases to the shape of the node *)
Lemma xkind_relabel : forall {C} (n : xnode C), xkind (relabel n) = xkind n.
Proof. intros C [h keys ch|h keys ch|h idx ch|h ch]; reflexivity. Qed.
Lemma xh_relabel : forall {C} (n : xnode C), xh (relabel n) = xh n.
Proof. intros C [h keys ch|h keys ch|h idx ch|h ch]; reflexivity. Qed.
Lemma xch_relabel : forall {C} (n : xnode C), xch (relabel n) = label_cells (xch n).
Proof. intros C [h keys ch|h keys ch|h idx ch|h ch]; reflexivity. Qed.

Lemma slot_cell_case : forall {C} (ch : list (option C)) i,
  match (match nth_error ch i with Some (Some _) => Some i | _ => None end) with
  | Some j => exists c, nth_error ch j = Some (Some c) /\ PoolTree.slot ch i = Some c /\ j = i
  | None => PoolTree.slot ch i = None
  end.
Proof.
  intros C ch i. unfold PoolTree.slot. destruct (nth_error ch i) as [[c|]|] eqn:E; try reflexivity.
  exists c. rewrite E. repeat split.
Qed.

Theorem xfind_relabel : forall {C} (n : xnode C) b,
  match xfind (relabel n) b with
  | Some i => exists c, nth_error (xch n) i = Some (Some c) /\ xfind n b = Some c /\
              (forall c', xreplace n b c' = s_children (set_at i (Some c') (xch n)) n)
  | None => xfind n b = None
  end.
Proof.
  intros C [h keys ch|h keys ch|h idx ch|h ch] b; cbn [relabel xfind xreplace xch s_children].
  - destruct (_ && _); [|reflexivity]. rewrite slot_label_cells.
    pose proof (slot_cell_case ch (Z.to_nat (searchNode4 keys b))) as H.
    destruct (match nth_error ch (Z.to_nat (searchNode4 keys b)) with Some (Some _) => Some _ | _ => None end)
      as [j|]; [|exact H].
    destruct H as (c & H1 & H2 & ->). exists c. repeat split; assumption.
  - destruct (_ =? _)%Z; [reflexivity|]. rewrite slot_label_cells.
    pose proof (slot_cell_case ch (Z.to_nat (searchNode16 keys (xlen h) b))) as H.
    destruct (match nth_error ch (Z.to_nat (searchNode16 keys (xlen h) b)) with Some (Some _) => Some _ | _ => None end)
      as [j|]; [|exact H].
    destruct H as (c & H1 & H2 & ->). exists c. repeat split; assumption.
  - destruct (_ =? 0); [reflexivity|]. rewrite slot_label_cells.
    pose proof (slot_cell_case ch (N.to_nat (nth (N.to_nat b) idx 0 - 1))) as H.
    destruct (match nth_error ch (N.to_nat (nth (N.to_nat b) idx 0 - 1)) with Some (Some _) => Some _ | _ => None end)
      as [j|]; [|exact H].
    destruct H as (c & H1 & H2 & ->). exists c. repeat split; assumption.
  - rewrite slot_label_cells.
    pose proof (slot_cell_case ch (N.to_nat b)) as H.
    destruct (match nth_error ch (N.to_nat b) with Some (Some _) => Some _ | _ => None end)
      as [j|]; [|exact H].
    destruct H as (c & H1 & H2 & ->). exists c. repeat split; assumption.
Qed.

(* ================= B. the representation of a raw tree in the heap ================= *)
(* a raw tree with an address at every node: the heap object of a node is the node with its children
   replaced by their addresses (aref), the model's value is the node with the addresses erased (strip).
   Stale cells carry an address and a value too; nothing is required of them. *)
Inductive atree : Type :=
| ALeaf (a : addr) (gk tk : list N) (v : Z)
| AInner (a : addr) (n : xnode atree).
Definition aref (t : atree) : addr := match t with ALeaf a _ _ _ | AInner a _ => a end.
Fixpoint strip (t : atree) : xtree :=
  match t with
  | ALeaf _ gk tk v => XLeaf gk tk v
  | AInner _ n => XInner (xmap strip n)
  end.
Definition aobj (t : atree) : hobj :=
  match t with ALeaf _ gk tk v => HLeaf gk tk v | AInner _ n => HNode (xmap aref n) end.
(* the occupied cells *)
Definition kids (n : xnode atree) : list (N * atree) := nenum (xabs n).

(* every node reachable through occupied cells is in the heap at its address, and is xwf *)
Inductive stored (h : heap) : atree -> Prop :=
| st_leaf : forall a gk tk v, load h a = Some (HLeaf gk tk v) -> stored h (ALeaf a gk tk v)
| st_inner : forall a n, load h a = Some (HNode (xmap aref n)) -> xwf n ->
    (forall b c, In (b, c) (kids n) -> stored h c) -> stored h (AInner a n).
(* the footprint: the addresses of the nodes reachable through occupied cells *)
Inductive live : atree -> addr -> Prop :=
| live_root : forall t, live t (aref t)
| live_kid : forall a n b c x, In (b, c) (kids n) -> live c x -> live (AInner a n) x.
(* the footprints of different children are disjoint and do not contain the parent *)
Inductive sep : atree -> Prop :=
| sep_leaf : forall a gk tk v, sep (ALeaf a gk tk v)
| sep_inner : forall a n,
    (forall b c, In (b, c) (kids n) -> sep c) ->
    (forall b c, In (b, c) (kids n) -> ~ live c a) ->
    (forall b1 c1 b2 c2 x, In (b1, c1) (kids n) -> In (b2, c2) (kids n) -> b1 <> b2 ->
       live c1 x -> live c2 x -> False) ->
    sep (AInner a n).

Lemma stored_load : forall h t, stored h t -> load h (aref t) = Some (aobj t).
Proof. intros h t H. destruct H; assumption. Qed.
Lemma stored_inv : forall h a n, stored h (AInner a n) ->
  load h a = Some (HNode (xmap aref n)) /\ xwf n /\ (forall b c, In (b, c) (kids n) -> stored h c).
Proof. intros h a n H. inversion H; subst. auto. Qed.
Lemma sep_inv : forall a n, sep (AInner a n) ->
  (forall b c, In (b, c) (kids n) -> sep c) /\ (forall b c, In (b, c) (kids n) -> ~ live c a) /\
  (forall b1 c1 b2 c2 x, In (b1, c1) (kids n) -> In (b2, c2) (kids n) -> b1 <> b2 -> live c1 x -> live c2 x -> False).
Proof. intros a n H. inversion H; subst. auto. Qed.
Lemma live_inv : forall t x, live t x ->
  x = aref t \/ exists a n b c, t = AInner a n /\ In (b, c) (kids n) /\ live c x.
Proof. intros t x H. destruct H; [left; reflexivity|right; eauto 8]. Qed.
Lemma live_leaf : forall a gk tk v x, live (ALeaf a gk tk v) x -> x = a.
Proof. intros a gk tk v x H. destruct (live_inv _ _ H) as [E|(a' & n & b & c & E & _)]; [exact E|discriminate]. Qed.

(* frame: a heap that agrees on the footprint stores the same tree *)
Lemma stored_frame : forall h h' t, stored h t -> (forall x, live t x -> load h' x = load h x) -> stored h' t.
Proof.
  intros h h' t H. induction H as [a gk tk v Hl|a n Hl Hx Hk IH]; intros Hf.
  - constructor. rewrite (Hf a (live_root (ALeaf a gk tk v))). exact Hl.
  - constructor; [rewrite (Hf a (live_root (AInner a n))); exact Hl|exact Hx|].
    intros b c Hin. apply (IH b c Hin). intros x Hlx. apply Hf. eapply live_kid; eassumption.
Qed.

Lemma strip_xtwf : forall h t, stored h t -> xtwf (strip t).
Proof.
  intros h t H. induction H as [a gk tk v Hl|a n Hl Hx Hk IH]; cbn [strip]; constructor.
  - apply xwf_xmap. exact Hx.
  - intros b c Hin. rewrite nenum_xabs_xmap in Hin. apply in_map_iff in Hin.
    destruct Hin as ([b' c'] & E & Hin). cbn [fst snd] in E. injection E as <- <-. apply (IH b' c' Hin).
Qed.

(* kids found by findChild *)
Lemma kid_of_find : forall (n : xnode atree) b c, xwf n -> b < 256 -> xfind n b = Some c -> In (b, c) (kids n).
Proof.
  intros n b c Hx Hb H. unfold kids. rewrite xfind_abs in H by exact Hx.
  rewrite nfind_spec in H by (try apply Hx; exact Hb). apply assoc_in. exact H.
Qed.
Lemma find_of_kid : forall (n : xnode atree) b c, xwf n -> b < 256 -> In (b, c) (kids n) -> xfind n b = Some c.
Proof.
  intros n b c Hx Hb H. unfold kids in H. rewrite xfind_abs by exact Hx.
  rewrite nfind_spec by (try apply Hx; exact Hb). apply in_assoc; [apply nenum_sorted; apply Hx|exact H].
Qed.

Lemma kids_keys_unique : forall (n : xnode atree) b c1 c2, xwf n -> In (b, c1) (kids n) -> In (b, c2) (kids n) -> c1 = c2.
Proof.
  intros n b c1 c2 Hx H1 H2. unfold kids in *.
  assert (Hs : keys_sorted (nenum (xabs n))) by (apply nenum_sorted; apply Hx).
  pose proof (in_assoc _ _ _ Hs H1) as A1. pose proof (in_assoc _ _ _ Hs H2) as A2. congruence.
Qed.

(* ---- heap algebra ---- *)
Lemma load_store_same : forall h a o, load (store h a o) a = Some o.
Proof. intros. unfold load, store. cbn [cells]. rewrite Nat.eqb_refl. reflexivity. Qed.
Lemma load_store_other : forall h a o x, x <> a -> load (store h a o) x = load h x.
Proof. intros h a o x H. unfold load, store. cbn [cells]. destruct (Nat.eqb_spec x a); [contradiction|reflexivity]. Qed.
Lemma next_store : forall h a o, next (store h a o) = next h.
Proof. reflexivity. Qed.

(* ---- zero pools: the children type is irrelevant ---- *)
Lemma zero_map_irrel : forall {A B} (f g : A -> B) (q : @pool A), zero_pool q -> map (xmap f) q = map (xmap g) q.
Proof.
  intros A B f g q Hq. apply map_ext_in. intros n Hn.
  pose proof (proj1 (Forall_forall _ _) Hq n Hn) as Hz. cbv beta in Hz.
  rewrite (zero_xmap_any f n Hz), (zero_xmap_any g n Hz). reflexivity.
Qed.
Lemma zero_pool_map : forall {A B} (f : A -> B) (q : @pool A), zero_pool q -> zero_pool (map (xmap f) q).
Proof.
  intros A B f q Hq. apply Forall_forall. intros n Hn. apply in_map_iff in Hn. destruct Hn as (m & <- & Hm).
  rewrite is_zero_xmap. exact (proj1 (Forall_forall _ _) Hq m Hm).
Qed.
Lemma zero_pool_unmap : forall {A B} (f : A -> B) (q : @pool A), zero_pool (map (xmap f) q) -> zero_pool q.
Proof.
  intros A B f q Hq. apply Forall_forall. intros n Hn.
  pose proof (proj1 (Forall_forall _ _) Hq (xmap f n) (in_map _ _ _ Hn)) as Hz. cbv beta in Hz.
  rewrite is_zero_xmap in Hz. exact Hz.
Qed.
Lemma map_xmap_id_zero : forall {A} (f : A -> A) (q : @pool A), zero_pool q -> map (xmap f) q = q.
Proof.
  intros A f q Hq. rewrite (zero_map_irrel f (fun c => c) q Hq). rewrite <- (map_id q) at 2.
  apply map_ext. intros n. apply xmap_id.
Qed.

(* the pool of annotated nodes standing for a zero pool of the model *)
Definition adummy : atree := ALeaf O [] [] 0%Z.
Definition apool (pm : xpool) : @pool atree := map (xmap (fun _ : xtree => adummy)) pm.
Definition cref (c : atree) : hcell := CRef (aref c).
Lemma apool_zero : forall pm, zero_pool pm -> zero_pool (apool pm).
Proof. intros. apply zero_pool_map. assumption. Qed.
Lemma apool_strip : forall pm, zero_pool pm -> map (xmap strip) (apool pm) = pm.
Proof.
  intros pm Hp. unfold apool. rewrite map_map.
  rewrite (map_ext _ (xmap (fun c => strip ((fun _ : xtree => adummy) c)))) by (intros; apply xmap_xmap).
  apply map_xmap_id_zero. exact Hp.
Qed.
Lemma pool_back : forall (q : @pool atree), zero_pool q ->
  map (xmap cell_addr) (map (xmap cref) q) = map_pool (map (xmap strip) q).
Proof.
  intros q Hq. unfold map_pool. rewrite !map_map.
  rewrite (map_ext _ (xmap (fun c => cell_addr (cref c)))) by (intros; apply xmap_xmap).
  rewrite (map_ext (fun x => xmap _ (xmap strip x)) (xmap (fun c => (fun _ : xtree => O) (strip c)))) by (intros; apply xmap_xmap).
  apply zero_map_irrel. exact Hq.
Qed.
Lemma pool_fwd : forall pm, zero_pool pm -> map (xmap CRef) (map_pool pm) = map (xmap cref) (apool pm).
Proof.
  intros pm Hp. unfold map_pool, apool. rewrite !map_map.
  rewrite (map_ext (fun x => xmap CRef (xmap _ x)) (xmap (fun c => CRef ((fun _ : xtree => O) c)))) by (intros; apply xmap_xmap).
  rewrite (map_ext (fun x => xmap cref (xmap _ x)) (xmap (fun c => cref ((fun _ : xtree => adummy) c)))) by (intros; apply xmap_xmap).
  apply zero_map_irrel. exact Hp.
Qed.

(* ---- reads of a stored node ---- *)
Definition atag (t : atree) : gkind :=
  match t with
  | ALeaf _ _ _ _ => KindLeaf
  | AInner _ n => match xkind n with K4 => Kind4 | K16 => Kind16 | K48 => Kind48 | K256 => Kind256 end
  end.
Lemma h_tag_stored : forall h t, stored h t -> h_tag h (Some (aref t)) = Some (atag t).
Proof.
  intros h t H. unfold h_tag. rewrite (stored_load _ _ H).
  destruct t as [a gk tk v|a n]; cbn [aobj atag]; [reflexivity|]. rewrite xkind_xmap. reflexivity.
Qed.
Lemma h_ref_node_stored : forall h a n, stored h (AInner a n) -> h_ref_node h (Some a) = Some a.
Proof. intros h a n H. unfold h_ref_node. pose proof (stored_load _ _ H) as Hl. cbn [aref aobj] in Hl. rewrite Hl. reflexivity. Qed.
Lemma h_hdr_stored : forall h a n, stored h (AInner a n) -> h_hdr h a = xh n.
Proof. intros h a n H. unfold h_hdr. pose proof (stored_load _ _ H) as Hl. cbn [aref aobj] in Hl. rewrite Hl. apply xh_xmap. Qed.
Lemma h_cast_leaf_stored : forall h a gk tk v, stored h (ALeaf a gk tk v) ->
  h_cast_leaf h (Some a) = Some a /\ h_leaf_gk h a = gk /\ h_leaf_tk h a = tk.
Proof.
  intros h a gk tk v H. unfold h_cast_leaf, h_leaf_gk, h_leaf_tk. pose proof (stored_load _ _ H) as Hl. cbn [aref aobj] in Hl. rewrite Hl. auto.
Qed.

Lemma label_cells_omap : forall {A B} (f : A -> B) (l : list (option A)), label_cells (map (omap f) l) = label_cells l.
Proof.
  intros A B f l. unfold label_cells. rewrite map_length. generalize (seq 0 (length l)). 
  induction l as [|o l IH]; intros s; destruct s as [|i s]; cbn [map combine]; try reflexivity.
  rewrite IH. destruct o; reflexivity.
Qed.
Lemma relabel_xmap : forall {A B} (f : A -> B) (n : xnode A), relabel (xmap f n) = relabel n.
Proof. intros A B f [h k ch|h k ch|h k ch|h ch]; cbn [relabel xmap]; rewrite label_cells_omap; reflexivity. Qed.

Lemma findChild_stored : forall h a (n : xnode atree) b, stored h (AInner a n) -> b < 256 ->
  match xfind n b with
  | Some c => exists i, h_findChild h (Some a) b = Some (SCell a i) /\ nth_error (xch n) i = Some (Some c) /\
                        (forall c', xreplace n b c' = s_children (set_at i (Some c') (xch n)) n)
  | None => h_findChild h (Some a) b = Some SNil
  end.
Proof.
  intros h a n b H Hb. destruct (stored_inv _ _ _ H) as (Hl & Hx & _).
  unfold h_findChild. rewrite Hl. rewrite relabel_xmap.
  rewrite gen_findChild_eq.
  2:{ pose proof (find_hyps_from_xwf n Hx) as Hi. destruct n; exact Hi. }
  pose proof (xfind_relabel n b) as R. destruct (xfind (relabel n) b) as [i|].
  - destruct R as (c & Hn & Hf & Hr). rewrite Hf. exists i. auto.
  - rewrite R. reflexivity.
Qed.

Lemma slot_read_cell : forall h root a (n : xnode atree) i c, stored h (AInner a n) ->
  nth_error (xch n) i = Some (Some c) -> slot_read h root (SCell a i) = Some (Some (aref c)).
Proof.
  intros h root a n i c H Hn. unfold slot_read. pose proof (stored_load _ _ H) as Hl. cbn [aref aobj] in Hl. rewrite Hl.
  rewrite xch_xmap, nth_error_map, Hn. reflexivity.
Qed.

Lemma skipn_map_c : forall {A B} (g : A -> B) k l, skipn k (map g l) = map g (skipn k l).
Proof. intros A B g k. induction k as [|k IH]; intros [|x l]; cbn [skipn map]; auto. Qed.
Lemma nth_map_omap : forall {A B} (g : A -> B) i (l : list (option A)), nth i (map (omap g) l) None = omap g (nth i l None).
Proof. intros A B g i. induction i as [|i IH]; intros [|x l]; cbn [nth map]; auto. Qed.

(* what node4.deleteChild writes into the header of the last child: the merged path *)
Definition g4_pfx (hN : xhdr) (kN : N) (hc : xhdr) : list N * N :=
  let p0 := N.of_nat (xplen hN) in
  let '(pf, pr) := if p0 <? 10 then (set_at (N.to_nat p0) (getAtPos kN 0) (xprefix hN), add32 p0 1) else (xprefix hN, p0) in
  if pr <? 10 then (gcopy (N.to_nat pr) (xprefix hc) pf, add32 pr (N.min (N.of_nat (xplen hc)) (sub32 10 pr))) else (pf, pr).
Definition g4_h1 (hN : xhdr) (kN : N) (hc : xhdr) : xhdr :=
  hs_prefix (gcopy 0 (firstn (N.to_nat (N.min 10 (snd (g4_pfx hN kN hc)))) (fst (g4_pfx hN kN hc))) (xprefix hc)) hc.
Definition g4_h2 (hN : xhdr) (hc' : xhdr) : xhdr :=
  hs_prefixLen (add32 (N.of_nat (xplen hc')) (add32 (N.of_nat (xplen hN)) 1)) hc'.

(* node4.deleteChild of a present byte at ANY reading of what a child is: the node after the first if, then
   either that node or the last child with its header rewritten *)
Lemma g4_char : forall {C} (inner : xnode C -> C) il ho wh hd4 keys (ch : list (option C)) b os p,
  (0 <= searchNode4 keys b < 4)%Z -> length ch = 4%nat ->
  let i := searchNode4 keys b in
  let hN := w_len (sub8 (xlen hd4) 1) hd4 in
  let kN := shiftRightClear keys (Z.to_N (i + 1)) in
  let cN := gcopy (Z.to_nat i) (skipn (Z.to_nat (i + 1)) ch) ch in
  g_node4_deleteChild inner il ho wh (X4 hd4 keys ch) b os p =
  if xlen hN =? 1 then
    (match nth 0 cN None with
     | Some c => if il c then Some c
                 else let c1 := wh c (g4_h1 hN kN (ho c)) in Some (wh c1 (g4_h2 hN (ho c1)))
     | None => None
     end, put (X4 xhdr0 0 (repeat None 4)) p)
  else (Some (inner (X4 hN kN cN)), p).
Proof.
  intros C inner il ho wh hd4 keys ch b os p Hi Hlc i hN kN cN.
  unfold g_node4_deleteChild. nsimp. fold i.
  replace (i =? -1)%Z with false by lia. cbn [negb]. nsimp. fold hN kN cN.
  destruct (xlen hN =? 1); [|reflexivity].
  destruct (nth 0 cN None) as [c|]; cbn [cell_is_leaf cell_hdr cell_set_hdr negb].
  - destruct (il c); cbn [negb].
    + reflexivity.
    + unfold g4_h1, g4_h2, g4_pfx. cbv zeta.
      destruct (N.of_nat (xplen hN) <? 10); nsimp.
      * destruct (add32 (N.of_nat (xplen hN)) 1 <? 10); nsimp; reflexivity.
      * destruct (N.of_nat (xplen hN) <? 10); nsimp; reflexivity.
  - cbn [xhdr0]. unfold g4_pfx. 
    destruct (N.of_nat (xplen hN) <? 10); nsimp.
    + destruct (add32 (N.of_nat (xplen hN)) 1 <? 10); nsimp; reflexivity.
    + destruct (N.of_nat (xplen hN) <? 10); nsimp; reflexivity.
Qed.

(* node4.deleteChild of a present byte, run at the heap's reading of a child (hcell) and at the model's
   (xtree) on the two images of one annotated node: the same case, the same node / child / header *)
Lemma g4_rel : forall h hd4 keys (ch : list (option atree)) b os (pat : @pool atree),
  xwf (X4 hd4 keys ch) -> (forall b' c, In (b', c) (kids (X4 hd4 keys ch)) -> stored h c) ->
  b < 256 -> xfind (X4 hd4 keys ch) b <> None -> zero_pool pat ->
  let GX := g_node4_deleteChild xt_inner xt_is_leaf xt_hdr_of xt_with_hdr (xmap strip (X4 hd4 keys ch)) b os (map (xmap strip) pat) in
  let GH := g_node4_deleteChild hc_inner (hc_is_leaf h) (hc_hdr_of h) hc_with_hdr (xmap cref (X4 hd4 keys ch)) b os (map (xmap cref) pat) in
  let n' := fst (xdel4 hd4 keys ch b os pat) in
  (xlen (xh n') <> 1 /\ GX = (Some (XInner (xmap strip n')), map (xmap strip) pat) /\
   GH = (Some (CNode (xmap aref n')), map (xmap cref) pat)) \/
  (xlen (xh n') = 1 /\ snd GX = map (xmap strip) (put (xclear n') pat) /\ snd GH = map (xmap cref) (put (xclear n') pat) /\
   exists b' c, In (b', c) (kids (X4 hd4 keys ch)) /\ nth 0 (xch n') None = Some c /\
     ((exists a gk tk v, c = ALeaf a gk tk v /\ fst GX = Some (strip c) /\ fst GH = Some (CRef a)) \/
      (exists ca cn pl px, c = AInner ca cn /\ fst GX = Some (XInner (xset_hdr (xmap strip cn) pl px)) /\
         fst GH = Some (CHdr ca (w_prefix px (w_plen pl (xh cn)))) /\ length px = length (xprefix (xh cn))))).
Proof.
  intros h hd4 keys ch b os pat Hx Hst Hb Hf Hzp GX GH n'.
  destruct (xwf4_inv _ _ _ Hx) as (Hlc & Ho & Hl & _).
  assert (Hi : (0 <= searchNode4 keys b < 4)%Z).
  { cbn [xfind] in Hf. destruct (searchNode4_range keys b) as [E|E].
    - rewrite E in Hf. cbn in Hf. contradiction Hf. reflexivity.
    - destruct (Z.ltb_spec (searchNode4 keys b) (Z.of_N (xlen hd4))) as [L|L]; [lia|].
      rewrite Bool.andb_false_r in Hf. contradiction Hf. reflexivity. }
  assert (Hpres : assoc b (nenum (xabs (X4 hd4 keys ch))) <> None).
  { rewrite <- nfind_spec by (try apply Hx; exact Hb). rewrite <- xfind_abs by exact Hx. exact Hf. }
  destruct (xdel_sim (X4 hd4 keys ch) b os pat Hx) as (Eabs & Hx'); try assumption.
  cbn [xdel] in Eabs, Hx'. fold n' in Eabs, Hx'.
  destruct (ndel_spec (xabs (X4 hd4 keys ch)) b (proj2 (proj2 Hx)) Hb Hpres) as (_ & En & _).
  (* the node after the first if, at any reading of the children *)
  set (i := searchNode4 keys b) in *.
  assert (Ei : (i =? -1)%Z = false) by lia.
  set (N1 := X4 (w_len (sub8 (xlen hd4) 1) hd4) (shiftRightClear keys (Z.to_N (i + 1)))
                (gcopy (Z.to_nat i) (skipn (Z.to_nat (i + 1)) ch) ch)).
  assert (EN : N1 = n').
  { subst N1 n'. unfold xdel4. fold i. rewrite Ei. cbn [xh xlen w_len].
    destruct (_ =? 1); cbn [fst]; rewrite sub8_1; rewrite Z2Nat.inj_add by lia;
      change (Z.to_nat 1) with 1%nat; rewrite Nat.add_1_r; rewrite gcopy_shift_left by lia; reflexivity. }
  assert (Hx1 : xwf N1) by (rewrite EN; exact Hx').
  assert (Ek1 : nenum (xabs N1) = rem_key b (kids (X4 hd4 keys ch))) by (rewrite EN, Eabs; exact En).
  assert (Hk1 : xkind N1 = K4) by reflexivity.
  assert (El : xlen (xh n') = xlen (w_len (sub8 (xlen hd4) 1) hd4)) by (rewrite <- EN; reflexivity).
  subst GX GH. cbn [xmap].
  rewrite !g4_char by (try assumption; rewrite ?map_length; assumption).
  fold i. cbv zeta. rewrite !skipn_map_c, <- !map_gcopy, !nth_map_omap.
  set (hN := w_len (sub8 (xlen hd4) 1) hd4) in *.
  set (kN := shiftRightClear keys (Z.to_N (i + 1))) in *.
  set (cN := gcopy (Z.to_nat i) (skipn (Z.to_nat (i + 1)) ch) ch) in *.
  rewrite El. destruct (N.eqb_spec (xlen hN) 1) as [E1|E1].
  2:{ left. split; [exact E1|]. rewrite <- EN. subst N1. split; [reflexivity|].
      unfold hc_inner. cbn [xmap]. rewrite map_map.
      rewrite (map_ext (fun x => omap cell_addr (omap cref x)) (omap aref)) by (intros [x|]; reflexivity). reflexivity. }
  right. split; [exact E1|]. cbn [fst snd].
  assert (Ecl : xclear n' = X4 xhdr0 0 (repeat None 4)) by (rewrite <- EN; reflexivity).
  rewrite Ecl. split; [reflexivity|]. split; [reflexivity|].
  (* the last child *)
  destruct Hx1 as (Hsh & Hocc & _). subst N1. cbn [shape_ok occupied_ok xabs nenum] in Hsh, Hocc, Ek1. fold hN kN cN in Hsh, Hocc, Ek1.
  rewrite E1 in Hocc, Ek1. change (N.to_nat 1) with 1%nat in Hocc, Ek1.
  assert (Hn0 : xch n' = cN) by (rewrite <- EN; reflexivity).
  clear EN Hk1. clearbody cN. destruct cN as [|[c0|] rest]; cbn [firstn forallb] in Hocc; try discriminate Hocc; try discriminate Hsh.
  cbn [firstn somes length lanes combine] in Ek1.
  assert (Hin : In (lane kN 0, c0) (kids (X4 hd4 keys ch))).
  { eapply in_rem_key. rewrite <- Ek1. left. reflexivity. }
  exists (lane kN 0), c0. split; [exact Hin|]. split; [rewrite Hn0; reflexivity|]. cbn [nth omap].
  pose proof (Hst _ _ Hin) as Hs0.
  destruct c0 as [a gk tk v|ca cn].
  - left. exists a, gk, tk, v. split; [reflexivity|]. cbn [strip xt_is_leaf cref aref hc_is_leaf].
    pose proof (stored_load _ _ Hs0) as Hl0. cbn [aref aobj] in Hl0. rewrite Hl0. split; reflexivity.
  - right. cbn [strip xt_is_leaf cref aref hc_is_leaf hc_hdr_of xt_hdr_of xt_with_hdr hc_with_hdr].
    pose proof (stored_load _ _ Hs0) as Hl0. cbn [aref aobj] in Hl0. rewrite Hl0.
    rewrite (h_hdr_stored _ _ _ Hs0), xh_xmap, !xh_s_node, s_node_s_node.
    set (H1 := g4_h1 hN kN (xh cn)).
    exists ca, cn, (N.to_nat (add32 (N.of_nat (xplen H1)) (add32 (N.of_nat (xplen hN)) 1))), (xprefix H1).
    split; [reflexivity|]. split; [|split].
    + rewrite xset_hdr_s_node, xh_xmap. reflexivity.
    + reflexivity.
    + subst H1. unfold g4_h1, hs_prefix. cbn [xprefix w_prefix]. rewrite length_gcopy by lia. reflexivity.
Qed.

(* pools of cleared nodes have the array sizes of their types *)
Lemma zero_pool_shapes : forall {A} (q : @pool A), zero_pool q -> pool_shapes q.
Proof.
  intros A q Hq. apply Forall_forall. intros n Hn. pose proof (proj1 (Forall_forall _ _) Hq n Hn) as Hz. cbv beta in Hz.
  rewrite (is_zero_eq n Hz). apply shape_xzero.
Qed.

(* a node4 left with one inner child: the merged path length fits the uint32 field (the model computes it in nat) *)
Definition afit4 (n : xnode atree) : Prop :=
  match n with
  | X4 h _ _ => forall b' ca cn, In (b', AInner ca cn) (kids n) -> N.of_nat (xplen (xh cn)) + N.of_nat (xplen h) + 1 < M32
  | _ => True
  end.

Lemma hc_inner_cref : forall n : xnode atree, hc_inner (xmap cref n) = CNode (xmap aref n).
Proof.
  intros n. unfold hc_inner. rewrite xmap_xmap. f_equal.
Qed.

(* (ref *nodeRef).deleteChild(b) on the two images of an annotated node *)
Lemma gdel_rel : forall h a (n : xnode atree) b os (pat : @pool atree),
  stored h (AInner a n) -> b < 256 -> xfind n b <> None -> zero_pool pat -> afit4 n ->
  let GH := g_deleteChild hc_inner (hc_is_leaf h) (hc_hdr_of h) hc_with_hdr (xmap cref n) b os (map (xmap cref) pat) in
  let XD := xdel_child (xmap strip n) b os (map (xmap strip) pat) in
  exists pat', zero_pool pat' /\ snd GH = map (xmap cref) pat' /\ snd XD = map (xmap strip) pat' /\
   ((exists n', fst GH = Some (CNode (xmap aref n')) /\ fst XD = XInner (xmap strip n') /\ xwf n' /\
                (forall b' c, In (b', c) (kids n') -> In (b', c) (kids n))) \/
    (exists b' a' gk tk v, In (b', ALeaf a' gk tk v) (kids n) /\ fst GH = Some (CRef a') /\ fst XD = XLeaf gk tk v) \/
    (exists b' ca cn pl px, In (b', AInner ca cn) (kids n) /\
       fst GH = Some (CHdr ca (w_prefix px (w_plen pl (xh cn)))) /\ fst XD = XInner (xset_hdr (xmap strip cn) pl px) /\
       length px = maxPrefixLen)).
Proof.
  intros h a n b os pat Hst Hb Hf Hzp Hfit GH XD.
  destruct (stored_inv _ _ _ Hst) as (Hl & Hx & Hk).
  assert (Hpres : assoc b (nenum (xabs n)) <> None).
  { rewrite <- nfind_spec by (try apply Hx; exact Hb). rewrite <- xfind_abs by exact Hx. exact Hf. }
  destruct (xdel_sim n b os pat Hx Hzp Hb Hpres) as (Eabs & Hx').
  destruct (ndel_spec (xabs n) b (proj2 (proj2 Hx)) Hb Hpres) as (_ & En & _).
  assert (Hsub : forall b' c, In (b', c) (kids (fst (xdel n b os pat))) -> In (b', c) (kids n)).
  { intros b' c Hin. unfold kids in Hin. rewrite Eabs, En in Hin. eapply in_rem_key. exact Hin. }
  pose proof (xdel_pool_zero n b os pat Hzp) as Hzp'.
  pose proof (zero_pool_shapes _ (zero_pool_map cref pat Hzp)) as Hps.
  pose proof (xdel_xmap strip n b os pat) as NX. pose proof (xdel_xmap cref n b os pat) as NH.
  assert (Hsh : shape_ok (xmap cref n) = true) by (rewrite shape_ok_xmap; apply Hx).
  subst GH XD. unfold g_deleteChild, xdel_child. rewrite xkind_xmap.
  destruct n as [hd keys ch|hd keys ch|hd idx ch|hd ch]; cbn [xkind].
  - cbn [xmap] in *.
    pose proof (g4_rel h hd keys ch b os pat Hx Hk Hb Hf Hzp) as R. cbv zeta in R. cbn [xmap] in R.
    pose proof (xdel4_xmap strip hd keys ch b os pat) as N4X.
    set (n' := fst (xdel4 hd keys ch b os pat)) in *.
    assert (Hpl : xplen (xh n') = xplen hd).
    { subst n'. unfold xdel4. destruct (_ =? -1)%Z; cbn [xh xlen]; destruct (_ =? 1); reflexivity. }
    assert (Hk4 : xkind n' = K4).
    { subst n'. unfold xdel4. destruct (_ =? -1)%Z; cbn [xh xlen]; destruct (_ =? 1); reflexivity. }
    assert (Hi : (searchNode4 keys b < 4)%Z).
    { cbn [xfind] in Hf. destruct (searchNode4_range keys b) as [E|E]; [lia|].
      destruct (xwf4_inv _ _ _ Hx) as (_ & _ & Hl4 & _).
      destruct (Z.ltb_spec (searchNode4 keys b) (Z.of_N (xlen hd))) as [L|L]; [lia|].
      rewrite Bool.andb_false_r in Hf. contradiction Hf. reflexivity. }
    assert (Hco : collapse_ok (fst (xdel4 hd keys (map (omap strip) ch) b os (map (xmap strip) pat)))).
    { rewrite N4X. cbn [fst]. destruct n' as [h' k' c'|h' k' c'|h' k' c'|h' c']; try discriminate Hk4.
      cbn [xmap collapse_ok]. intros E1. rewrite nth_map_omap.
      destruct R as [(Hne & _)|(_ & _ & _ & b' & c & Hin & Hn0 & _)]; [contradiction Hne|].
      cbn [xch] in Hn0. rewrite Hn0. cbn [omap]. destruct c as [a' gk tk v|ca cn]; cbn [strip]; [exact I|].
      rewrite xh_xmap. cbn [xh] in Hpl. rewrite Hpl. exact (Hfit b' ca cn Hin). }
    rewrite (gen_node4_deleteChild_eq hd keys (map (omap strip) ch) b os (map (xmap strip) pat)) in R;
      [|change (shape_ok (xmap strip (X4 hd keys ch)) = true); rewrite shape_ok_xmap; apply Hx|exact Hi|exact Hco].
    unfold xdel_child in R. cbn [xdel fst snd] in R |- *.
    destruct (g_node4_deleteChild hc_inner (hc_is_leaf h) (hc_hdr_of h) hc_with_hdr (X4 hd keys (map (omap cref) ch)) b os (map (xmap cref) pat)) as [rH pH].
    cbn [fst snd] in R |- *.
    destruct R as [(Hne & EX & EH)|(E1 & EpX & EpH & b' & c & Hin & Hn0 & Hc)].
    + injection EX as EX1 EX2. injection EH as -> ->.
      exists pat. split; [exact Hzp|]. split; [reflexivity|]. split; [exact EX2|].
      left. exists n'. split; [reflexivity|]. split; [|split].
      * exact EX1.
      * exact Hx'.
      * exact Hsub.
    + exists (put (xclear n') pat). split; [apply put_clear_zero; exact Hzp|]. split; [exact EpH|]. split; [exact EpX|].
      right. destruct Hc as [(a' & gk & tk & v & -> & EX & EH)|(ca & cn & pl & px & -> & EX & EH & Hlen)].
      * left. exists b', a', gk, tk, v. injection EX as EX. auto.
      * right. exists b', ca, cn, pl, px. injection EX as EX. split; [exact Hin|]. split; [exact EH|]. split; [exact EX|].
        rewrite Hlen. apply (xwf_prefix_len cn). destruct (stored_inv _ _ _ (Hk _ _ Hin)) as (_ & Hxc & _). exact Hxc.
  - cbn [xmap] in *. rewrite gen_node16_deleteChild_eq; try assumption.
    2:{ apply (del16_hyps_from_xwf hd keys ch b Hx Hf). }
    cbn [xdel] in NX, NH |- *. rewrite NX, NH. cbn [fst snd].
    exists (snd (xdel (X16 hd keys ch) b os pat)). split; [exact Hzp'|]. split; [reflexivity|]. split; [reflexivity|].
    left. exists (fst (xdel (X16 hd keys ch) b os pat)). rewrite hc_inner_cref. auto.
  - cbn [xmap] in *. destruct (del48_hyps_from_xwf hd idx ch b Hx Hf) as (Hb1 & Hb2).
    rewrite gen_node48_deleteChild_eq; try assumption.
    cbn [xdel] in NX, NH |- *. rewrite NX, NH. cbn [fst snd].
    exists (snd (xdel (X48 hd idx ch) b os pat)). split; [exact Hzp'|]. split; [reflexivity|]. split; [reflexivity|].
    left. exists (fst (xdel (X48 hd idx ch) b os pat)). rewrite hc_inner_cref. auto.
  - cbn [xmap] in *. rewrite gen_node256_deleteChild_eq; try assumption.
    cbn [xdel] in NX, NH |- *. rewrite NX, NH. cbn [fst snd].
    exists (snd (xdel (X256 hd ch) b os pat)). split; [exact Hzp'|]. split; [reflexivity|]. split; [reflexivity|].
    left. exists (fst (xdel (X256 hd ch) b os pat)). rewrite hc_inner_cref. auto.
Qed.

(* ---- a *nodeRef that points into the tree from outside the subtree it holds ---- *)
Definition slot_out (ref : slot) (cur : atree) : Prop :=
  match ref with SCell a0 _ => ~ live cur a0 | SRoot => True | SNil => False end.
(* what a step on the subtree cur held in *ref may change: the footprint of cur, addresses allocated by the
   step, and the cell *ref itself, which ends holding r' *)
Definition framed (h : heap) (root : href) (h' : heap) (root' : href) (ref : slot) (cur : atree) (r' : href) : Prop :=
  (next h <= next h')%nat /\
  match ref with
  | SNil => False
  | SRoot => root' = r' /\ (forall x, (x < next h \/ next h' <= x)%nat -> ~ live cur x -> load h' x = load h x)
  | SCell a0 i0 => root' = root /\ (forall x, (x < next h \/ next h' <= x)%nat -> ~ live cur x -> x <> a0 -> load h' x = load h x) /\
      exists nd, load h a0 = Some (HNode nd) /\ (i0 < length (xch nd))%nat /\
                 load h' a0 = Some (HNode (s_children (set_at i0 r' (xch nd)) nd))
  end.

Lemma set_at_same : forall {A} i (v : A) l, nth_error l i = Some v -> set_at i v l = l.
Proof.
  intros A. induction i as [|i IH]; intros v [|x l] H; cbn [nth_error set_at] in *; try discriminate.
  - injection H as ->. reflexivity.
  - f_equal. apply IH. exact H.
Qed.
Lemma s_children_id : forall {C} (n : xnode C), s_children (xch n) n = n.
Proof. intros C [ | | | ]; reflexivity. Qed.
Lemma xch_s_children : forall {C} v (n : xnode C), xch (s_children v n) = v.
Proof. intros C v [ | | | ]; reflexivity. Qed.

Lemma slot_read_inv : forall h root a0 i0 r, slot_read h root (SCell a0 i0) = Some r ->
  exists nd, load h a0 = Some (HNode nd) /\ nth_error (xch nd) i0 = Some r /\ (i0 < length (xch nd))%nat.
Proof.
  intros h root a0 i0 r H. cbn [slot_read] in H. destruct (load h a0) as [[gk tk v|nd]|]; try discriminate.
  exists nd. split; [reflexivity|]. split; [exact H|]. apply nth_error_Some. rewrite H. discriminate.
Qed.

(* a step that changed the heap only inside the footprint, then did not touch *ref *)
Lemma framed_keep : forall h root ref cur r0 h1,
  slot_read h root ref = Some r0 -> slot_out ref cur -> next h1 = next h ->
  (forall x, ~ live cur x -> load h1 x = load h x) ->
  framed h root h1 root ref cur r0.
Proof.
  intros h root ref cur r0 h1 Hrd Hout Hn Hfr. split; [lia|].
  destruct ref as [| |a0 i0]; cbn [slot_out] in Hout; [contradiction| |].
  - cbn [slot_read] in Hrd. injection Hrd as ->. split; [reflexivity|]. intros x _ Hx. apply Hfr. exact Hx.
  - destruct (slot_read_inv _ _ _ _ _ Hrd) as (nd & Hl & Hnth & Hlt).
    split; [reflexivity|]. split; [intros x _ Hx _; apply Hfr; exact Hx|].
    exists nd. split; [exact Hl|]. split; [exact Hlt|].
    replace (set_at i0 r0 (xch nd)) with (xch nd) by (symmetry; apply set_at_same; exact Hnth). rewrite s_children_id, (Hfr a0 Hout). exact Hl.
Qed.

(* ... then wrote r' into *ref *)
Lemma framed_write : forall h root ref cur r0 r' h1,
  slot_read h root ref = Some r0 -> slot_out ref cur -> next h1 = next h ->
  (forall x, ~ live cur x -> load h1 x = load h x) ->
  exists h' root', slot_write h1 root ref r' = Some (h', root') /\ framed h root h' root' ref cur r' /\
                   (forall x, live cur x -> load h' x = load h1 x) /\ next h' = next h1.
Proof.
  intros h root ref cur r0 r' h1 Hrd Hout Hn Hfr.
  destruct ref as [| |a0 i0]; cbn [slot_out] in Hout; [contradiction| |].
  - exists h1, r'. split; [reflexivity|]. split; [|auto]. split; [lia|]. split; [reflexivity|].
    intros x _ Hx. apply Hfr. exact Hx.
  - destruct (slot_read_inv _ _ _ _ _ Hrd) as (nd & Hl & Hnth & Hlt).
    cbn [slot_write]. rewrite (Hfr a0 Hout), Hl.
    replace (i0 <? length (xch nd))%nat with true by (symmetry; apply Nat.ltb_lt; exact Hlt).
    eexists _, _. split; [reflexivity|]. split.
    + split; [cbn [next store]; lia|]. split; [reflexivity|]. split.
      * intros x _ Hx Hne. rewrite load_store_other by exact Hne. apply Hfr. exact Hx.
      * exists nd. split; [exact Hl|]. split; [exact Hlt|]. apply load_store_same.
    + split; [|reflexivity]. intros x Hx. apply load_store_other. intros ->. contradiction.
Qed.

Lemma framed_read : forall h root h' root' ref cur r', framed h root h' root' ref cur r' ->
  slot_read h' root' ref = Some r'.
Proof.
  intros h root h' root' ref cur r' (_ & H). destruct ref as [| |a0 i0]; [contradiction| |].
  - destruct H as (-> & _). reflexivity.
  - destruct H as (_ & _ & nd & Hl & Hlt & Hl'). cbn [slot_read]. rewrite Hl', xch_s_children.
    apply nth_error_set_at_eq. exact Hlt.
Qed.

Lemma live_kid_root : forall a n b c, In (b, c) (kids n) -> live (AInner a n) (aref c).
Proof. intros. eapply live_kid; [eassumption|apply live_root]. Qed.

(* sub-kids: a node at the same address with a sub-list of the children is again stored / separated *)
Lemma stored_subnode : forall h h' a n n', stored h (AInner a n) -> sep (AInner a n) ->
  load h' a = Some (HNode (xmap aref n')) -> xwf n' ->
  (forall b c, In (b, c) (kids n') -> In (b, c) (kids n)) ->
  (forall x, x <> a -> live (AInner a n) x -> load h' x = load h x) ->
  stored h' (AInner a n') /\ sep (AInner a n') /\ (forall x, live (AInner a n') x -> live (AInner a n) x).
Proof.
  intros h h' a n n' Hst Hsep Hl' Hx' Hsub Hfr.
  destruct (stored_inv _ _ _ Hst) as (_ & _ & Hk). destruct (sep_inv _ _ Hsep) as (S1 & S2 & S3).
  split; [|split].
  - constructor; [exact Hl'|exact Hx'|]. intros b c Hin. apply (stored_frame h); [apply (Hk b c); auto|].
    intros x Hlx. apply Hfr; [intros ->; exact (S2 b c (Hsub _ _ Hin) Hlx)|eapply live_kid; eauto].
  - constructor; [intros b c Hin; apply (S1 b c); auto|intros b c Hin; apply (S2 b c); auto|].
    intros b1 c1 b2 c2 x H1 H2. apply S3; auto.
  - intros x Hlx. destruct (live_inv _ _ Hlx) as [->|(a1 & n1 & b & c & E & Hin & Hl)].
    + apply (live_root (AInner a n)).
    + injection E as <- <-. eapply live_kid; [apply Hsub; exact Hin|exact Hl].
Qed.

(* ref.deleteChild(b) where *ref holds the stored node a and b is a key of it: the model's xdel_child *)
Lemma deleteChild_step : forall h root ref a n b os pm,
  stored h (AInner a n) -> sep (AInner a n) -> slot_read h root ref = Some (Some a) -> slot_out ref (AInner a n) ->
  b < 256 -> xfind n b <> None -> zero_pool pm -> afit4 n ->
  exists h' root' cur',
    h_deleteChild h root ref b os (map_pool pm) =
      Some (h', root', skipn (xdel_gets (xmap strip n)) os, map_pool (snd (xdel_child (xmap strip n) b os pm))) /\
    strip cur' = fst (xdel_child (xmap strip n) b os pm) /\
    stored h' cur' /\ sep cur' /\ (forall x, live cur' x -> live (AInner a n) x) /\
    framed h root h' root' ref (AInner a n) (Some (aref cur')) /\ next h' = next h.
Proof.
  intros h root ref a n b os pm Hst Hsep Hrd Hout Hb Hf Hzp Hfit.
  destruct (stored_inv _ _ _ Hst) as (Hl & Hx & Hk). destruct (sep_inv _ _ Hsep) as (S1 & S2 & S3).
  pose proof (gdel_rel h a n b os (apool pm) Hst Hb Hf (apool_zero _ Hzp) Hfit) as R. cbv zeta in R.
  rewrite (apool_strip _ Hzp) in R.
  unfold h_deleteChild. rewrite Hrd, Hl. rewrite (pool_fwd _ Hzp), xmap_xmap.
  change (xmap (fun c : atree => CRef (aref c)) n) with (xmap cref n).
  rewrite xdel_gets_xmap, <- (xdel_gets_xmap strip n).
  destruct (g_deleteChild hc_inner (hc_is_leaf h) (hc_hdr_of h) hc_with_hdr (xmap cref n) b os (map (xmap cref) (apool pm))) as [rH pH].
  destruct R as (pat' & Hzp' & EpH & EpX & R). cbn [fst snd] in EpH, R. subst pH.
  rewrite (pool_back _ Hzp'), <- EpX.
  destruct R as [(n' & -> & EX & Hx' & Hsub)|[(b' & a' & gk & tk & v & Hin & -> & EX)|(b' & ca & cn & pl & px & Hin & -> & EX & Hlen)]].
  - (* the node stays, at its address *)
    set (h1 := store h a (HNode (xmap aref n'))).
    destruct (stored_subnode h h1 a n n' Hst Hsep) as (T1 & T2 & T3); try assumption.
    { apply load_store_same. } { intros x Hne _. apply load_store_other. exact Hne. }
    exists h1, root, (AInner a n'). split; [reflexivity|]. split; [cbn [strip]; symmetry; exact EX|].
    split; [exact T1|]. split; [exact T2|]. split; [exact T3|]. split; [|reflexivity].
    apply (framed_keep h root ref (AInner a n) (Some a) h1 Hrd Hout); [reflexivity|].
    intros x Hx0. apply load_store_other. intros ->. apply Hx0. apply (live_root (AInner a n)).
  - (* collapse onto a leaf *)
    destruct (framed_write h root ref (AInner a n) (Some a) (Some a') h Hrd Hout) as (h' & root' & Hw & Hfr & Hsame & Hnx); auto.
    rewrite Hw. exists h', root', (ALeaf a' gk tk v). split; [reflexivity|]. split; [symmetry; exact EX|].
    pose proof (Hk _ _ Hin) as Hs0. pose proof (live_kid_root a n _ _ Hin) as Hl0. cbn [aref] in Hl0.
    split; [|split; [constructor|split; [|split; [exact Hfr|exact Hnx]]]].
    + constructor. rewrite (Hsame a' Hl0). pose proof (stored_load _ _ Hs0) as E. exact E.
    + intros x Hlx. apply live_leaf in Hlx. subst x. exact Hl0.
  - (* collapse onto an inner child: its header is rewritten through the pointer, then it is linked *)
    pose proof (Hk _ _ Hin) as Hs0. destruct (stored_inv _ _ _ Hs0) as (Hlc & Hxc & Hkc).
    pose proof (live_kid_root a n _ _ Hin) as Hl0. cbn [aref] in Hl0.
    rewrite Hlc.
    set (hd := w_prefix px (w_plen pl (xh cn))).
    set (h1 := store h ca (HNode (s_node hd (xmap aref cn)))).
    destruct (framed_write h root ref (AInner a n) (Some a) (Some ca) h1 Hrd Hout) as (h' & root' & Hw & Hfr & Hsame & Hnx).
    { reflexivity. } { intros x Hx0. apply load_store_other. intros ->. contradiction. }
    rewrite Hw. exists h', root', (AInner ca (xset_hdr cn pl px)). split; [reflexivity|].
    split; [cbn [strip]; rewrite <- xset_hdr_xmap; symmetry; exact EX|].
    destruct (xset_hdr_xwf cn pl px Hxc Hlen) as (Hxc' & Ekc).
    assert (Ekids : kids (xset_hdr cn pl px) = kids cn) by exact Ekc.
    pose proof (S1 _ _ Hin) as Hsc. destruct (sep_inv _ _ Hsc) as (C1 & C2 & C3).
    assert (Hlive : forall x, live (AInner ca (xset_hdr cn pl px)) x -> live (AInner ca cn) x).
    { intros x Hlx. destruct (live_inv _ _ Hlx) as [->|(a1 & n1 & b1 & c1 & E & Hin1 & Hl1)]; [apply (live_root (AInner ca cn))|].
      injection E as <- <-. rewrite Ekids in Hin1. eapply live_kid; eauto. }
    split; [|split; [|split; [|split; [exact Hfr|exact Hnx]]]].
    + constructor.
      * rewrite (Hsame ca Hl0). subst h1. rewrite load_store_same. rewrite xset_hdr_s_node, <- s_node_xmap. reflexivity.
      * exact Hxc'.
      * intros b1 c1 Hin1. rewrite Ekids in Hin1. apply (stored_frame h); [apply (Hkc _ _ Hin1)|].
        intros x Hlx. assert (Hlx' : live (AInner a n) x) by (eapply live_kid; [exact Hin|eapply live_kid; eauto]).
        rewrite (Hsame x Hlx'). subst h1. apply load_store_other. intros ->. exact (C2 _ _ Hin1 Hlx).
    + constructor; intros; rewrite ?Ekids in *; eauto.
    + intros x Hlx. eapply live_kid; [exact Hin|apply Hlive; exact Hlx].
Qed.

(* every node4 with an inner child: the merged path fits a uint32 (see afit4) *)
Inductive afit : atree -> Prop :=
| afit_leaf : forall a gk tk v, afit (ALeaf a gk tk v)
| afit_inner : forall a n, afit4 n -> (forall b c, In (b, c) (kids n) -> afit c) -> afit (AInner a n).
Lemma afit_inv : forall a n, afit (AInner a n) -> afit4 n /\ (forall b c, In (b, c) (kids n) -> afit c).
Proof. intros a n H. inversion H; subst. auto. Qed.

(* the outcome of the loop of Delete on the subtree cur held in *ref against the model's xdelete_in *)
Definition del_ok (size : Z) (os : list choice) (pm : xpool) (h : heap) (root : href) (ref : slot) (cur : atree)
                  (r : mres bool) (m : xdres * list choice * xpool) : Prop :=
  match r with
  | MDone h' root' size' os' p' ret =>
    match fst (fst m) with
    | XDDone t' => ret = true /\ size' = (size - 1)%Z /\ os' = snd (fst m) /\ p' = map_pool (snd m) /\
        zero_pool (snd m) /\ next h' = next h /\
        exists cur', strip cur' = t' /\ stored h' cur' /\ sep cur' /\ (forall x, live cur' x -> live cur x) /\
                     framed h root h' root' ref cur (Some (aref cur'))
    | XDAbsent => ret = false /\ h' = h /\ root' = root /\ size' = size /\ os' = os /\ p' = map_pool pm /\ snd m = pm
    | XDFuel => False
    end
  | MPanic => False
  | MFuel => fst (fst m) = XDFuel
  end.

Lemma snd_xdel_child : forall n b os p, snd (xdel_child n b os p) = snd (xdel n b os p).
Proof. intros [ | | | ] b os p; reflexivity. Qed.

Lemma kid_assoc : forall (n : xnode atree) b c, xwf n -> In (b, c) (kids n) -> assoc b (kids n) = Some c.
Proof. intros n b c Hx H. apply in_assoc; [apply nenum_sorted; apply Hx|exact H]. Qed.

(* the step up: the child's cell was written in place, the parent is the model's xreplace *)
Lemma del_up : forall size os pm h root ref a n b c i R M,
  stored h (AInner a n) -> sep (AInner a n) -> slot_read h root ref = Some (Some a) -> slot_out ref (AInner a n) ->
  b < 256 -> In (b, c) (kids n) -> nth_error (xch n) i = Some (Some c) ->
  (forall c', xreplace n b c' = s_children (set_at i (Some c') (xch n)) n) ->
  del_ok size os pm h root (SCell a i) c R M ->
  del_ok size os pm h root ref (AInner a n) R
    (match fst (fst M) with XDDone c' => (XDDone (XInner (xreplace (xmap strip n) b c')), snd (fst M), snd M) | _ => M end).
Proof.
  intros size os pm h root ref a n b c i R M Hst Hsep Hrd Hout Hb Hin Hnth Hrep Hok.
  destruct (stored_inv _ _ _ Hst) as (Hl & Hx & Hk). destruct (sep_inv _ _ Hsep) as (S1 & S2 & S3).
  destruct R as [h' root' size' os' p' ret| |]; destruct M as [[res osm] pmm]; cbn [del_ok fst snd] in *;
    destruct res as [t'| |]; cbn [fst snd]; try exact Hok; try discriminate Hok.
  destruct Hok as (-> & -> & -> & -> & Hzp & Hnx & cur' & <- & Hst' & Hsep' & Hsub & Hfr).
  split; [reflexivity|]. split; [reflexivity|]. split; [reflexivity|]. split; [reflexivity|]. split; [exact Hzp|].
  split; [exact Hnx|].
  destruct Hfr as (_ & -> & Hframe & nd & Hla & Hlt & Hla').
  rewrite Hl in Hla. injection Hla as <-.
  assert (Ha : assoc b (nenum (xabs n)) <> None) by (pose proof (kid_assoc n b c Hx Hin) as E; unfold kids in E; rewrite E; discriminate).
  destruct (xreplace_xwf n b cur' Hx Hb Ha) as (Hxr & Ekr & _).
  assert (Hkr : forall b1 c1, In (b1, c1) (kids (xreplace n b cur')) ->
                  (b1 = b /\ c1 = cur') \/ (b1 <> b /\ In (b1, c1) (kids n))).
  { intros b1 c1 H1. pose proof (kid_assoc _ _ _ Hxr H1) as A1. unfold kids in A1. rewrite Ekr in A1.
    destruct (N.eq_dec b1 b) as [->|Hne].
    - rewrite assoc_repl_key_same in A1 by exact Ha. injection A1 as <-. left. auto.
    - rewrite assoc_repl_key_other in A1 by exact Hne. right. split; [exact Hne|]. apply assoc_in. exact A1. }
  assert (Hlc : forall x, live c x -> live (AInner a n) x) by (intros x Hx0; eapply live_kid; eauto).
  assert (Hframe' : forall x, ~ live c x -> x <> a -> load h' x = load h x).
  { intros x H1 H2. apply Hframe; [lia|exact H1|exact H2]. }
  exists (AInner a (xreplace n b cur')). split; [cbn [strip]; rewrite xreplace_xmap; reflexivity|].
  split; [|split; [|split]].
  - constructor.
    + rewrite Hla'. rewrite xch_xmap. change (Some (aref cur')) with (omap aref (Some cur')).
      unfold href. rewrite <- (map_set_at (omap aref) i (Some cur') (xch n)), s_children_xmap, <- Hrep. reflexivity.
    + exact Hxr.
    + intros b1 c1 H1. destruct (Hkr _ _ H1) as [(-> & ->)|(Hne & Hin1)]; [exact Hst'|].
      apply (stored_frame h); [apply (Hk _ _ Hin1)|]. intros x Hlx. apply Hframe'.
      * intros Hcx. exact (S3 b1 c1 b c x Hin1 Hin Hne Hlx Hcx).
      * intros ->. exact (S2 _ _ Hin1 Hlx).
  - constructor.
    + intros b1 c1 H1. destruct (Hkr _ _ H1) as [(-> & ->)|(Hne & Hin1)]; [exact Hsep'|apply (S1 _ _ Hin1)].
    + intros b1 c1 H1 Hla1. destruct (Hkr _ _ H1) as [(-> & ->)|(Hne & Hin1)].
      * exact (S2 _ _ Hin (Hsub _ Hla1)).
      * exact (S2 _ _ Hin1 Hla1).
    + intros b1 c1 b2 c2 x H1 H2 Hne L1 L2.
      destruct (Hkr _ _ H1) as [(-> & ->)|(Hne1 & Hin1)]; destruct (Hkr _ _ H2) as [(-> & ->)|(Hne2 & Hin2)].
      * contradiction.
      * exact (S3 b c b2 c2 x Hin Hin2 Hne (Hsub _ L1) L2).
      * exact (S3 b1 c1 b c x Hin1 Hin Hne L1 (Hsub _ L2)).
      * exact (S3 b1 c1 b2 c2 x Hin1 Hin2 Hne L1 L2).
  - intros x Hlx. destruct (live_inv _ _ Hlx) as [->|(a1 & n1 & b1 & c1 & E & H1 & L1)]; [apply (live_root (AInner a n))|].
    injection E as <- <-. destruct (Hkr _ _ H1) as [(-> & ->)|(Hne & Hin1)].
    + apply Hlc. apply Hsub. exact L1.
    + eapply live_kid; eauto.
  - cbn [aref]. split; [lia|].
    assert (Hroot : forall x, ~ live (AInner a n) x -> load h' x = load h x).
    { intros x Hx0. apply Hframe'; [intros Hc; apply Hx0; apply Hlc; exact Hc|].
      intros ->. apply Hx0. apply (live_root (AInner a n)). }
    destruct ref as [| |a0 i0]; cbn [slot_out] in Hout; [contradiction| |].
    + cbn [slot_read] in Hrd. injection Hrd as ->. split; [reflexivity|]. intros x _ Hx0. apply Hroot. exact Hx0.
    + destruct (slot_read_inv _ _ _ _ _ Hrd) as (nd0 & Hl0 & Hn0 & Hlt0).
      split; [reflexivity|]. split; [intros x _ Hx0 _; apply Hroot; exact Hx0|].
      exists nd0. split; [exact Hl0|]. split; [exact Hlt0|].
      unfold href. replace (set_at i0 (Some a) (xch nd0)) with (xch nd0) by (symmetry; apply set_at_same; exact Hn0).
      rewrite s_children_id, (Hroot a0 Hout). exact Hl0.
Qed.

Definition del_loop_spec (L : nat -> heap -> href -> Z -> list choice -> hpool -> slot -> href -> Z -> mres bool)
                         (gk tk : list N) : Prop :=
  forall fuel h root size os pm ref a n d,
    stored h (AInner a n) -> sep (AInner a n) -> slot_read h root ref = Some (Some a) -> slot_out ref (AInner a n) ->
    zero_pool pm -> isbytes tk = true -> afit (AInner a n) ->
    del_ok size os pm h root ref (AInner a n)
      (L fuel h root size os (map_pool pm) ref (Some a) (Z.of_nat d))
      (xdelete_in fuel (strip (AInner a n)) gk tk d os pm).

Lemma gm_maxPrefixLen_val : gm_maxPrefixLen = N.of_nat maxPrefixLen.
Proof. reflexivity. Qed.
Lemma atag_inner : forall a n, gkind_eqb (atag (AInner a n)) KindLeaf = false.
Proof. intros a n. cbn [atag]. destruct (xkind n); reflexivity. Qed.



(* the loop of Delete entered on a LEAF (only the root can be one: the model decides this case in xdo_delete) *)
Definition del_leaf_spec (L : nat -> heap -> href -> Z -> list choice -> hpool -> slot -> href -> Z -> mres bool) (gk : list N) : Prop :=
  forall f h root size os p a gk0 tk0 v0 d, stored h (ALeaf a gk0 tk0 v0) ->
    L (S f) h root size os p SRoot (Some a) d =
    if beq gk0 gk then MDone h None (size - 1)%Z os p true else MDone h root size os p false.

Lemma alpha_delete_loop_sim : forall keyS, del_loop_spec (fun fuel => g_alpha_delete_loop1 fuel keyS) keyS keyS.
Proof.
  intros keyS. unfold del_loop_spec. induction fuel as [|f IH]; intros h root size os pm ref a n d Hst Hsep Hrd Hout Hzp Hbt Hfit.
  - reflexivity.
  - destruct (stored_inv _ _ _ Hst) as (Hl & Hx & Hk). destruct (sep_inv _ _ Hsep) as (S1 & S2 & S3).
    destruct (afit_inv _ _ Hfit) as (F4 & Fk).
    pose proof (h_tag_stored _ _ Hst) as Ht. cbn [aref] in Ht.
    pose proof (xwf_prefix_len n Hx) as Hpl.
    cbn [g_alpha_delete_loop1 href_is_nil negb]. rewrite Ht, atag_inner, (h_ref_node_stored _ _ _ Hst).
    unfold h_prefixLen. rewrite (h_hdr_stored _ _ _ Hst).
    cbn [xdelete_in strip]. rewrite xh_xmap. cbn [xabs_hdr prefixLen].
    destruct (Nat.eqb_spec (xplen (xh n)) 0) as [E0|E0].
    + replace (N.of_nat (xplen (xh n)) =? 0) with true by lia. cbn [negb andb]. rewrite E0, Nat.add_0_r.
      rewrite idx_bytes_nat.
      destruct (nth_error keyS (d)) as [b|] eqn:Enth.
      2:{ replace (Z.of_nat (length keyS) <=? Z.of_nat (d))%Z with true
            by (symmetry; apply Z.leb_le; apply nth_error_None in Enth; lia).
          repeat split. }
      replace (Z.of_nat (length keyS) <=? Z.of_nat (d))%Z with false
        by (symmetry; apply Z.leb_gt; assert (d < length keyS)%nat by (apply nth_error_Some; rewrite Enth; discriminate); lia).
      pose proof (nth_byte _ _ _ Hbt Enth) as Hb.
      pose proof (findChild_stored _ _ _ b Hst Hb) as FC. rewrite xfind_xmap.
      destruct (xfind n b) as [c|] eqn:Ef; cbn [omap].
      2:{ rewrite FC. cbn [slot_is_nil]. repeat split. }
      destruct FC as (i & -> & Hnth & Hrep). cbn [slot_is_nil].
      pose proof (kid_of_find _ _ _ Hx Hb Ef) as Hin. pose proof (Hk _ _ Hin) as Hs.
      rewrite (slot_read_cell _ _ _ _ _ _ Hst Hnth), (h_tag_stored _ _ Hs).
      destruct c as [ca gk0 tk0 v0|ca cn]; cbn [strip aref].
      * cbn [atag gkind_eqb]. destruct (h_cast_leaf_stored _ _ _ _ _ Hs) as (-> & -> & _).
        destruct (beq gk0 keyS); [|repeat split].
        assert (Hf : xfind n b <> None) by (rewrite Ef; discriminate).
        destruct (deleteChild_step _ _ _ _ _ b os _ Hst Hsep Hrd Hout Hb Hf Hzp F4) as (h' & root' & cur' & -> & Es & T1 & T2 & T3 & T4 & T5).
        cbn [del_ok fst snd]. repeat (split; [reflexivity|]).
        split; [rewrite snd_xdel_child; apply xdel_pool_zero; exact Hzp|].
        split; [exact T5|]. exists cur'. auto.
      * rewrite atag_inner.
        replace (Z.of_nat d + 1)%Z with (Z.of_nat (S (d))) by lia.
        pose proof (IH h root size os pm (SCell a i) ca cn (S (d)) Hs (S1 _ _ Hin)
                      (slot_read_cell _ root _ _ _ _ Hst Hnth) (S2 _ _ Hin) Hzp Hbt (Fk _ _ Hin)) as R.
        cbn [strip] in R.
        apply (del_up size os pm h root ref a n b (AInner ca cn) i _ _ Hst Hsep Hrd Hout Hb Hin Hnth Hrep) in R.
        exact R.
    + replace (N.of_nat (xplen (xh n)) =? 0) with false by lia. cbn [negb andb].
      rewrite (gen_checkPrefix_eq (xh n) keyS d Hpl). rewrite gm_maxPrefixLen_val.
      unfold pl_cap. cbn [xabs_hdr prefixLen].
      replace (Z.of_nat (checkPrefix (xabs_hdr (xh n)) keyS d) =? Z.of_N (N.min (N.of_nat maxPrefixLen) (N.of_nat (xplen (xh n)))))%Z
        with (checkPrefix (xabs_hdr (xh n)) keyS d =? Nat.min maxPrefixLen (xplen (xh n)))%nat
        by (destruct (Nat.eqb_spec (checkPrefix (xabs_hdr (xh n)) keyS d) (Nat.min maxPrefixLen (xplen (xh n))));
            destruct (Z.eqb_spec (Z.of_nat (checkPrefix (xabs_hdr (xh n)) keyS d)) (Z.of_N (N.min (N.of_nat maxPrefixLen) (N.of_nat (xplen (xh n)))))); try reflexivity; lia).
      destruct (checkPrefix (xabs_hdr (xh n)) keyS d =? Nat.min maxPrefixLen (xplen (xh n)))%nat; cbn [negb]; [|repeat split].
      replace (Z.of_nat d + Z.of_N (N.of_nat (xplen (xh n))))%Z with (Z.of_nat (d + xplen (xh n))) by lia.
      rewrite idx_bytes_nat.
      destruct (nth_error keyS (d + xplen (xh n))) as [b|] eqn:Enth.
      2:{ replace (Z.of_nat (length keyS) <=? Z.of_nat (d + xplen (xh n)))%Z with true
            by (symmetry; apply Z.leb_le; apply nth_error_None in Enth; lia).
          repeat split. }
      replace (Z.of_nat (length keyS) <=? Z.of_nat (d + xplen (xh n)))%Z with false
        by (symmetry; apply Z.leb_gt; assert (d + xplen (xh n) < length keyS)%nat by (apply nth_error_Some; rewrite Enth; discriminate); lia).
      pose proof (nth_byte _ _ _ Hbt Enth) as Hb.
      pose proof (findChild_stored _ _ _ b Hst Hb) as FC. rewrite xfind_xmap.
      destruct (xfind n b) as [c|] eqn:Ef; cbn [omap].
      2:{ rewrite FC. cbn [slot_is_nil]. repeat split. }
      destruct FC as (i & -> & Hnth & Hrep). cbn [slot_is_nil].
      pose proof (kid_of_find _ _ _ Hx Hb Ef) as Hin. pose proof (Hk _ _ Hin) as Hs.
      rewrite (slot_read_cell _ _ _ _ _ _ Hst Hnth), (h_tag_stored _ _ Hs).
      destruct c as [ca gk0 tk0 v0|ca cn]; cbn [strip aref].
      * cbn [atag gkind_eqb]. destruct (h_cast_leaf_stored _ _ _ _ _ Hs) as (-> & -> & _).
        destruct (beq gk0 keyS); [|repeat split].
        assert (Hf : xfind n b <> None) by (rewrite Ef; discriminate).
        destruct (deleteChild_step _ _ _ _ _ b os _ Hst Hsep Hrd Hout Hb Hf Hzp F4) as (h' & root' & cur' & -> & Es & T1 & T2 & T3 & T4 & T5).
        cbn [del_ok fst snd]. repeat (split; [reflexivity|]).
        split; [rewrite snd_xdel_child; apply xdel_pool_zero; exact Hzp|].
        split; [exact T5|]. exists cur'. auto.
      * rewrite atag_inner.
        replace (Z.of_nat (d + xplen (xh n)) + 1)%Z with (Z.of_nat (S (d + xplen (xh n)))) by lia.
        pose proof (IH h root size os pm (SCell a i) ca cn (S (d + xplen (xh n))) Hs (S1 _ _ Hin)
                      (slot_read_cell _ root _ _ _ _ Hst Hnth) (S2 _ _ Hin) Hzp Hbt (Fk _ _ Hin)) as R.
        cbn [strip] in R.
        apply (del_up size os pm h root ref a n b (AInner ca cn) i _ _ Hst Hsep Hrd Hout Hb Hin Hnth Hrep) in R.
        exact R.
Qed.

Lemma alpha_delete_leaf : forall keyS, del_leaf_spec (fun fuel => g_alpha_delete_loop1 fuel keyS) keyS.
Proof.
  intros keyS f h root size os p a gk0 tk0 v0 d Hs.
  pose proof (h_tag_stored _ _ Hs) as Ht. cbn [aref atag] in Ht.
  destruct (h_cast_leaf_stored _ _ _ _ _ Hs) as (Hc & Hg & _).
  cbn [g_alpha_delete_loop1 href_is_nil negb]. rewrite Ht. cbn [gkind_eqb]. rewrite Hc, Hg.
  destruct (beq gk0 keyS); reflexivity.
Qed.

Lemma unsigned_delete_loop_sim : forall keyS, del_loop_spec (fun fuel => g_unsigned_delete_loop1 fuel keyS) keyS keyS.
Proof.
  intros keyS. unfold del_loop_spec. induction fuel as [|f IH]; intros h root size os pm ref a n d Hst Hsep Hrd Hout Hzp Hbt Hfit.
  - reflexivity.
  - destruct (stored_inv _ _ _ Hst) as (Hl & Hx & Hk). destruct (sep_inv _ _ Hsep) as (S1 & S2 & S3).
    destruct (afit_inv _ _ Hfit) as (F4 & Fk).
    pose proof (h_tag_stored _ _ Hst) as Ht. cbn [aref] in Ht.
    pose proof (xwf_prefix_len n Hx) as Hpl.
    cbn [g_unsigned_delete_loop1 href_is_nil negb]. rewrite Ht, atag_inner, (h_ref_node_stored _ _ _ Hst).
    unfold h_prefixLen. rewrite (h_hdr_stored _ _ _ Hst).
    cbn [xdelete_in strip]. rewrite xh_xmap. cbn [xabs_hdr prefixLen].
    destruct (Nat.eqb_spec (xplen (xh n)) 0) as [E0|E0].
    + replace (N.of_nat (xplen (xh n)) =? 0) with true by lia. cbn [negb andb]. rewrite E0, Nat.add_0_r.
      rewrite idx_bytes_nat.
      destruct (nth_error keyS (d)) as [b|] eqn:Enth.
      2:{ replace (Z.of_nat (length keyS) <=? Z.of_nat (d))%Z with true
            by (symmetry; apply Z.leb_le; apply nth_error_None in Enth; lia).
          repeat split. }
      replace (Z.of_nat (length keyS) <=? Z.of_nat (d))%Z with false
        by (symmetry; apply Z.leb_gt; assert (d < length keyS)%nat by (apply nth_error_Some; rewrite Enth; discriminate); lia).
      pose proof (nth_byte _ _ _ Hbt Enth) as Hb.
      pose proof (findChild_stored _ _ _ b Hst Hb) as FC. rewrite xfind_xmap.
      destruct (xfind n b) as [c|] eqn:Ef; cbn [omap].
      2:{ rewrite FC. cbn [slot_is_nil]. repeat split. }
      destruct FC as (i & -> & Hnth & Hrep). cbn [slot_is_nil].
      pose proof (kid_of_find _ _ _ Hx Hb Ef) as Hin. pose proof (Hk _ _ Hin) as Hs.
      rewrite (slot_read_cell _ _ _ _ _ _ Hst Hnth), (h_tag_stored _ _ Hs).
      destruct c as [ca gk0 tk0 v0|ca cn]; cbn [strip aref].
      * cbn [atag gkind_eqb]. destruct (h_cast_leaf_stored _ _ _ _ _ Hs) as (-> & -> & _).
        destruct (beq gk0 keyS); [|repeat split].
        assert (Hf : xfind n b <> None) by (rewrite Ef; discriminate).
        destruct (deleteChild_step _ _ _ _ _ b os _ Hst Hsep Hrd Hout Hb Hf Hzp F4) as (h' & root' & cur' & -> & Es & T1 & T2 & T3 & T4 & T5).
        cbn [del_ok fst snd]. repeat (split; [reflexivity|]).
        split; [rewrite snd_xdel_child; apply xdel_pool_zero; exact Hzp|].
        split; [exact T5|]. exists cur'. auto.
      * rewrite atag_inner.
        replace (Z.of_nat d + 1)%Z with (Z.of_nat (S (d))) by lia.
        pose proof (IH h root size os pm (SCell a i) ca cn (S (d)) Hs (S1 _ _ Hin)
                      (slot_read_cell _ root _ _ _ _ Hst Hnth) (S2 _ _ Hin) Hzp Hbt (Fk _ _ Hin)) as R.
        cbn [strip] in R.
        apply (del_up size os pm h root ref a n b (AInner ca cn) i _ _ Hst Hsep Hrd Hout Hb Hin Hnth Hrep) in R.
        exact R.
    + replace (N.of_nat (xplen (xh n)) =? 0) with false by lia. cbn [negb andb].
      rewrite (gen_checkPrefix_eq (xh n) keyS d Hpl). rewrite gm_maxPrefixLen_val.
      unfold pl_cap. cbn [xabs_hdr prefixLen].
      replace (Z.of_nat (checkPrefix (xabs_hdr (xh n)) keyS d) =? Z.of_N (N.min (N.of_nat maxPrefixLen) (N.of_nat (xplen (xh n)))))%Z
        with (checkPrefix (xabs_hdr (xh n)) keyS d =? Nat.min maxPrefixLen (xplen (xh n)))%nat
        by (destruct (Nat.eqb_spec (checkPrefix (xabs_hdr (xh n)) keyS d) (Nat.min maxPrefixLen (xplen (xh n))));
            destruct (Z.eqb_spec (Z.of_nat (checkPrefix (xabs_hdr (xh n)) keyS d)) (Z.of_N (N.min (N.of_nat maxPrefixLen) (N.of_nat (xplen (xh n)))))); try reflexivity; lia).
      destruct (checkPrefix (xabs_hdr (xh n)) keyS d =? Nat.min maxPrefixLen (xplen (xh n)))%nat; cbn [negb]; [|repeat split].
      replace (Z.of_nat d + Z.of_N (N.of_nat (xplen (xh n))))%Z with (Z.of_nat (d + xplen (xh n))) by lia.
      rewrite idx_bytes_nat.
      destruct (nth_error keyS (d + xplen (xh n))) as [b|] eqn:Enth.
      2:{ replace (Z.of_nat (length keyS) <=? Z.of_nat (d + xplen (xh n)))%Z with true
            by (symmetry; apply Z.leb_le; apply nth_error_None in Enth; lia).
          repeat split. }
      replace (Z.of_nat (length keyS) <=? Z.of_nat (d + xplen (xh n)))%Z with false
        by (symmetry; apply Z.leb_gt; assert (d + xplen (xh n) < length keyS)%nat by (apply nth_error_Some; rewrite Enth; discriminate); lia).
      pose proof (nth_byte _ _ _ Hbt Enth) as Hb.
      pose proof (findChild_stored _ _ _ b Hst Hb) as FC. rewrite xfind_xmap.
      destruct (xfind n b) as [c|] eqn:Ef; cbn [omap].
      2:{ rewrite FC. cbn [slot_is_nil]. repeat split. }
      destruct FC as (i & -> & Hnth & Hrep). cbn [slot_is_nil].
      pose proof (kid_of_find _ _ _ Hx Hb Ef) as Hin. pose proof (Hk _ _ Hin) as Hs.
      rewrite (slot_read_cell _ _ _ _ _ _ Hst Hnth), (h_tag_stored _ _ Hs).
      destruct c as [ca gk0 tk0 v0|ca cn]; cbn [strip aref].
      * cbn [atag gkind_eqb]. destruct (h_cast_leaf_stored _ _ _ _ _ Hs) as (-> & -> & _).
        destruct (beq gk0 keyS); [|repeat split].
        assert (Hf : xfind n b <> None) by (rewrite Ef; discriminate).
        destruct (deleteChild_step _ _ _ _ _ b os _ Hst Hsep Hrd Hout Hb Hf Hzp F4) as (h' & root' & cur' & -> & Es & T1 & T2 & T3 & T4 & T5).
        cbn [del_ok fst snd]. repeat (split; [reflexivity|]).
        split; [rewrite snd_xdel_child; apply xdel_pool_zero; exact Hzp|].
        split; [exact T5|]. exists cur'. auto.
      * rewrite atag_inner.
        replace (Z.of_nat (d + xplen (xh n)) + 1)%Z with (Z.of_nat (S (d + xplen (xh n)))) by lia.
        pose proof (IH h root size os pm (SCell a i) ca cn (S (d + xplen (xh n))) Hs (S1 _ _ Hin)
                      (slot_read_cell _ root _ _ _ _ Hst Hnth) (S2 _ _ Hin) Hzp Hbt (Fk _ _ Hin)) as R.
        cbn [strip] in R.
        apply (del_up size os pm h root ref a n b (AInner ca cn) i _ _ Hst Hsep Hrd Hout Hb Hin Hnth Hrep) in R.
        exact R.
Qed.

Lemma unsigned_delete_leaf : forall keyS, del_leaf_spec (fun fuel => g_unsigned_delete_loop1 fuel keyS) keyS.
Proof.
  intros keyS f h root size os p a gk0 tk0 v0 d Hs.
  pose proof (h_tag_stored _ _ Hs) as Ht. cbn [aref atag] in Ht.
  destruct (h_cast_leaf_stored _ _ _ _ _ Hs) as (Hc & Hg & _).
  cbn [g_unsigned_delete_loop1 href_is_nil negb]. rewrite Ht. cbn [gkind_eqb]. rewrite Hc, Hg.
  destruct (beq gk0 keyS); reflexivity.
Qed.

Lemma signed_delete_loop_sim : forall keyS, del_loop_spec (fun fuel => g_signed_delete_loop1 fuel keyS) keyS keyS.
Proof.
  intros keyS. unfold del_loop_spec. induction fuel as [|f IH]; intros h root size os pm ref a n d Hst Hsep Hrd Hout Hzp Hbt Hfit.
  - reflexivity.
  - destruct (stored_inv _ _ _ Hst) as (Hl & Hx & Hk). destruct (sep_inv _ _ Hsep) as (S1 & S2 & S3).
    destruct (afit_inv _ _ Hfit) as (F4 & Fk).
    pose proof (h_tag_stored _ _ Hst) as Ht. cbn [aref] in Ht.
    pose proof (xwf_prefix_len n Hx) as Hpl.
    cbn [g_signed_delete_loop1 href_is_nil negb]. rewrite Ht, atag_inner, (h_ref_node_stored _ _ _ Hst).
    unfold h_prefixLen. rewrite (h_hdr_stored _ _ _ Hst).
    cbn [xdelete_in strip]. rewrite xh_xmap. cbn [xabs_hdr prefixLen].
    destruct (Nat.eqb_spec (xplen (xh n)) 0) as [E0|E0].
    + replace (N.of_nat (xplen (xh n)) =? 0) with true by lia. cbn [negb andb]. rewrite E0, Nat.add_0_r.
      rewrite idx_bytes_nat.
      destruct (nth_error keyS (d)) as [b|] eqn:Enth.
      2:{ replace (Z.of_nat (length keyS) <=? Z.of_nat (d))%Z with true
            by (symmetry; apply Z.leb_le; apply nth_error_None in Enth; lia).
          repeat split. }
      replace (Z.of_nat (length keyS) <=? Z.of_nat (d))%Z with false
        by (symmetry; apply Z.leb_gt; assert (d < length keyS)%nat by (apply nth_error_Some; rewrite Enth; discriminate); lia).
      pose proof (nth_byte _ _ _ Hbt Enth) as Hb.
      pose proof (findChild_stored _ _ _ b Hst Hb) as FC. rewrite xfind_xmap.
      destruct (xfind n b) as [c|] eqn:Ef; cbn [omap].
      2:{ rewrite FC. cbn [slot_is_nil]. repeat split. }
      destruct FC as (i & -> & Hnth & Hrep). cbn [slot_is_nil].
      pose proof (kid_of_find _ _ _ Hx Hb Ef) as Hin. pose proof (Hk _ _ Hin) as Hs.
      rewrite (slot_read_cell _ _ _ _ _ _ Hst Hnth), (h_tag_stored _ _ Hs).
      destruct c as [ca gk0 tk0 v0|ca cn]; cbn [strip aref].
      * cbn [atag gkind_eqb]. destruct (h_cast_leaf_stored _ _ _ _ _ Hs) as (-> & -> & _).
        destruct (beq gk0 keyS); [|repeat split].
        assert (Hf : xfind n b <> None) by (rewrite Ef; discriminate).
        destruct (deleteChild_step _ _ _ _ _ b os _ Hst Hsep Hrd Hout Hb Hf Hzp F4) as (h' & root' & cur' & -> & Es & T1 & T2 & T3 & T4 & T5).
        cbn [del_ok fst snd]. repeat (split; [reflexivity|]).
        split; [rewrite snd_xdel_child; apply xdel_pool_zero; exact Hzp|].
        split; [exact T5|]. exists cur'. auto.
      * rewrite atag_inner.
        replace (Z.of_nat d + 1)%Z with (Z.of_nat (S (d))) by lia.
        pose proof (IH h root size os pm (SCell a i) ca cn (S (d)) Hs (S1 _ _ Hin)
                      (slot_read_cell _ root _ _ _ _ Hst Hnth) (S2 _ _ Hin) Hzp Hbt (Fk _ _ Hin)) as R.
        cbn [strip] in R.
        apply (del_up size os pm h root ref a n b (AInner ca cn) i _ _ Hst Hsep Hrd Hout Hb Hin Hnth Hrep) in R.
        exact R.
    + replace (N.of_nat (xplen (xh n)) =? 0) with false by lia. cbn [negb andb].
      rewrite (gen_checkPrefix_eq (xh n) keyS d Hpl). rewrite gm_maxPrefixLen_val.
      unfold pl_cap. cbn [xabs_hdr prefixLen].
      replace (Z.of_nat (checkPrefix (xabs_hdr (xh n)) keyS d) =? Z.of_N (N.min (N.of_nat maxPrefixLen) (N.of_nat (xplen (xh n)))))%Z
        with (checkPrefix (xabs_hdr (xh n)) keyS d =? Nat.min maxPrefixLen (xplen (xh n)))%nat
        by (destruct (Nat.eqb_spec (checkPrefix (xabs_hdr (xh n)) keyS d) (Nat.min maxPrefixLen (xplen (xh n))));
            destruct (Z.eqb_spec (Z.of_nat (checkPrefix (xabs_hdr (xh n)) keyS d)) (Z.of_N (N.min (N.of_nat maxPrefixLen) (N.of_nat (xplen (xh n)))))); try reflexivity; lia).
      destruct (checkPrefix (xabs_hdr (xh n)) keyS d =? Nat.min maxPrefixLen (xplen (xh n)))%nat; cbn [negb]; [|repeat split].
      replace (Z.of_nat d + Z.of_N (N.of_nat (xplen (xh n))))%Z with (Z.of_nat (d + xplen (xh n))) by lia.
      rewrite idx_bytes_nat.
      destruct (nth_error keyS (d + xplen (xh n))) as [b|] eqn:Enth.
      2:{ replace (Z.of_nat (length keyS) <=? Z.of_nat (d + xplen (xh n)))%Z with true
            by (symmetry; apply Z.leb_le; apply nth_error_None in Enth; lia).
          repeat split. }
      replace (Z.of_nat (length keyS) <=? Z.of_nat (d + xplen (xh n)))%Z with false
        by (symmetry; apply Z.leb_gt; assert (d + xplen (xh n) < length keyS)%nat by (apply nth_error_Some; rewrite Enth; discriminate); lia).
      pose proof (nth_byte _ _ _ Hbt Enth) as Hb.
      pose proof (findChild_stored _ _ _ b Hst Hb) as FC. rewrite xfind_xmap.
      destruct (xfind n b) as [c|] eqn:Ef; cbn [omap].
      2:{ rewrite FC. cbn [slot_is_nil]. repeat split. }
      destruct FC as (i & -> & Hnth & Hrep). cbn [slot_is_nil].
      pose proof (kid_of_find _ _ _ Hx Hb Ef) as Hin. pose proof (Hk _ _ Hin) as Hs.
      rewrite (slot_read_cell _ _ _ _ _ _ Hst Hnth), (h_tag_stored _ _ Hs).
      destruct c as [ca gk0 tk0 v0|ca cn]; cbn [strip aref].
      * cbn [atag gkind_eqb]. destruct (h_cast_leaf_stored _ _ _ _ _ Hs) as (-> & -> & _).
        destruct (beq gk0 keyS); [|repeat split].
        assert (Hf : xfind n b <> None) by (rewrite Ef; discriminate).
        destruct (deleteChild_step _ _ _ _ _ b os _ Hst Hsep Hrd Hout Hb Hf Hzp F4) as (h' & root' & cur' & -> & Es & T1 & T2 & T3 & T4 & T5).
        cbn [del_ok fst snd]. repeat (split; [reflexivity|]).
        split; [rewrite snd_xdel_child; apply xdel_pool_zero; exact Hzp|].
        split; [exact T5|]. exists cur'. auto.
      * rewrite atag_inner.
        replace (Z.of_nat (d + xplen (xh n)) + 1)%Z with (Z.of_nat (S (d + xplen (xh n)))) by lia.
        pose proof (IH h root size os pm (SCell a i) ca cn (S (d + xplen (xh n))) Hs (S1 _ _ Hin)
                      (slot_read_cell _ root _ _ _ _ Hst Hnth) (S2 _ _ Hin) Hzp Hbt (Fk _ _ Hin)) as R.
        cbn [strip] in R.
        apply (del_up size os pm h root ref a n b (AInner ca cn) i _ _ Hst Hsep Hrd Hout Hb Hin Hnth Hrep) in R.
        exact R.
Qed.

Lemma signed_delete_leaf : forall keyS, del_leaf_spec (fun fuel => g_signed_delete_loop1 fuel keyS) keyS.
Proof.
  intros keyS f h root size os p a gk0 tk0 v0 d Hs.
  pose proof (h_tag_stored _ _ Hs) as Ht. cbn [aref atag] in Ht.
  destruct (h_cast_leaf_stored _ _ _ _ _ Hs) as (Hc & Hg & _).
  cbn [g_signed_delete_loop1 href_is_nil negb]. rewrite Ht. cbn [gkind_eqb]. rewrite Hc, Hg.
  destruct (beq gk0 keyS); reflexivity.
Qed.

Lemma float_delete_loop_sim : forall keyS, del_loop_spec (fun fuel => g_float_delete_loop1 fuel keyS) keyS keyS.
Proof.
  intros keyS. unfold del_loop_spec. induction fuel as [|f IH]; intros h root size os pm ref a n d Hst Hsep Hrd Hout Hzp Hbt Hfit.
  - reflexivity.
  - destruct (stored_inv _ _ _ Hst) as (Hl & Hx & Hk). destruct (sep_inv _ _ Hsep) as (S1 & S2 & S3).
    destruct (afit_inv _ _ Hfit) as (F4 & Fk).
    pose proof (h_tag_stored _ _ Hst) as Ht. cbn [aref] in Ht.
    pose proof (xwf_prefix_len n Hx) as Hpl.
    cbn [g_float_delete_loop1 href_is_nil negb]. rewrite Ht, atag_inner, (h_ref_node_stored _ _ _ Hst).
    unfold h_prefixLen. rewrite (h_hdr_stored _ _ _ Hst).
    cbn [xdelete_in strip]. rewrite xh_xmap. cbn [xabs_hdr prefixLen].
    destruct (Nat.eqb_spec (xplen (xh n)) 0) as [E0|E0].
    + replace (N.of_nat (xplen (xh n)) =? 0) with true by lia. cbn [negb andb]. rewrite E0, Nat.add_0_r.
      rewrite idx_bytes_nat.
      destruct (nth_error keyS (d)) as [b|] eqn:Enth.
      2:{ replace (Z.of_nat (length keyS) <=? Z.of_nat (d))%Z with true
            by (symmetry; apply Z.leb_le; apply nth_error_None in Enth; lia).
          repeat split. }
      replace (Z.of_nat (length keyS) <=? Z.of_nat (d))%Z with false
        by (symmetry; apply Z.leb_gt; assert (d < length keyS)%nat by (apply nth_error_Some; rewrite Enth; discriminate); lia).
      pose proof (nth_byte _ _ _ Hbt Enth) as Hb.
      pose proof (findChild_stored _ _ _ b Hst Hb) as FC. rewrite xfind_xmap.
      destruct (xfind n b) as [c|] eqn:Ef; cbn [omap].
      2:{ rewrite FC. cbn [slot_is_nil]. repeat split. }
      destruct FC as (i & -> & Hnth & Hrep). cbn [slot_is_nil].
      pose proof (kid_of_find _ _ _ Hx Hb Ef) as Hin. pose proof (Hk _ _ Hin) as Hs.
      rewrite (slot_read_cell _ _ _ _ _ _ Hst Hnth), (h_tag_stored _ _ Hs).
      destruct c as [ca gk0 tk0 v0|ca cn]; cbn [strip aref].
      * cbn [atag gkind_eqb]. destruct (h_cast_leaf_stored _ _ _ _ _ Hs) as (-> & -> & _).
        destruct (beq gk0 keyS); [|repeat split].
        assert (Hf : xfind n b <> None) by (rewrite Ef; discriminate).
        destruct (deleteChild_step _ _ _ _ _ b os _ Hst Hsep Hrd Hout Hb Hf Hzp F4) as (h' & root' & cur' & -> & Es & T1 & T2 & T3 & T4 & T5).
        cbn [del_ok fst snd]. repeat (split; [reflexivity|]).
        split; [rewrite snd_xdel_child; apply xdel_pool_zero; exact Hzp|].
        split; [exact T5|]. exists cur'. auto.
      * rewrite atag_inner.
        replace (Z.of_nat d + 1)%Z with (Z.of_nat (S (d))) by lia.
        pose proof (IH h root size os pm (SCell a i) ca cn (S (d)) Hs (S1 _ _ Hin)
                      (slot_read_cell _ root _ _ _ _ Hst Hnth) (S2 _ _ Hin) Hzp Hbt (Fk _ _ Hin)) as R.
        cbn [strip] in R.
        apply (del_up size os pm h root ref a n b (AInner ca cn) i _ _ Hst Hsep Hrd Hout Hb Hin Hnth Hrep) in R.
        exact R.
    + replace (N.of_nat (xplen (xh n)) =? 0) with false by lia. cbn [negb andb].
      rewrite (gen_checkPrefix_eq (xh n) keyS d Hpl). rewrite gm_maxPrefixLen_val.
      unfold pl_cap. cbn [xabs_hdr prefixLen].
      replace (Z.of_nat (checkPrefix (xabs_hdr (xh n)) keyS d) =? Z.of_N (N.min (N.of_nat maxPrefixLen) (N.of_nat (xplen (xh n)))))%Z
        with (checkPrefix (xabs_hdr (xh n)) keyS d =? Nat.min maxPrefixLen (xplen (xh n)))%nat
        by (destruct (Nat.eqb_spec (checkPrefix (xabs_hdr (xh n)) keyS d) (Nat.min maxPrefixLen (xplen (xh n))));
            destruct (Z.eqb_spec (Z.of_nat (checkPrefix (xabs_hdr (xh n)) keyS d)) (Z.of_N (N.min (N.of_nat maxPrefixLen) (N.of_nat (xplen (xh n)))))); try reflexivity; lia).
      destruct (checkPrefix (xabs_hdr (xh n)) keyS d =? Nat.min maxPrefixLen (xplen (xh n)))%nat; cbn [negb]; [|repeat split].
      replace (Z.of_nat d + Z.of_N (N.of_nat (xplen (xh n))))%Z with (Z.of_nat (d + xplen (xh n))) by lia.
      rewrite idx_bytes_nat.
      destruct (nth_error keyS (d + xplen (xh n))) as [b|] eqn:Enth.
      2:{ replace (Z.of_nat (length keyS) <=? Z.of_nat (d + xplen (xh n)))%Z with true
            by (symmetry; apply Z.leb_le; apply nth_error_None in Enth; lia).
          repeat split. }
      replace (Z.of_nat (length keyS) <=? Z.of_nat (d + xplen (xh n)))%Z with false
        by (symmetry; apply Z.leb_gt; assert (d + xplen (xh n) < length keyS)%nat by (apply nth_error_Some; rewrite Enth; discriminate); lia).
      pose proof (nth_byte _ _ _ Hbt Enth) as Hb.
      pose proof (findChild_stored _ _ _ b Hst Hb) as FC. rewrite xfind_xmap.
      destruct (xfind n b) as [c|] eqn:Ef; cbn [omap].
      2:{ rewrite FC. cbn [slot_is_nil]. repeat split. }
      destruct FC as (i & -> & Hnth & Hrep). cbn [slot_is_nil].
      pose proof (kid_of_find _ _ _ Hx Hb Ef) as Hin. pose proof (Hk _ _ Hin) as Hs.
      rewrite (slot_read_cell _ _ _ _ _ _ Hst Hnth), (h_tag_stored _ _ Hs).
      destruct c as [ca gk0 tk0 v0|ca cn]; cbn [strip aref].
      * cbn [atag gkind_eqb]. destruct (h_cast_leaf_stored _ _ _ _ _ Hs) as (-> & -> & _).
        destruct (beq gk0 keyS); [|repeat split].
        assert (Hf : xfind n b <> None) by (rewrite Ef; discriminate).
        destruct (deleteChild_step _ _ _ _ _ b os _ Hst Hsep Hrd Hout Hb Hf Hzp F4) as (h' & root' & cur' & -> & Es & T1 & T2 & T3 & T4 & T5).
        cbn [del_ok fst snd]. repeat (split; [reflexivity|]).
        split; [rewrite snd_xdel_child; apply xdel_pool_zero; exact Hzp|].
        split; [exact T5|]. exists cur'. auto.
      * rewrite atag_inner.
        replace (Z.of_nat (d + xplen (xh n)) + 1)%Z with (Z.of_nat (S (d + xplen (xh n)))) by lia.
        pose proof (IH h root size os pm (SCell a i) ca cn (S (d + xplen (xh n))) Hs (S1 _ _ Hin)
                      (slot_read_cell _ root _ _ _ _ Hst Hnth) (S2 _ _ Hin) Hzp Hbt (Fk _ _ Hin)) as R.
        cbn [strip] in R.
        apply (del_up size os pm h root ref a n b (AInner ca cn) i _ _ Hst Hsep Hrd Hout Hb Hin Hnth Hrep) in R.
        exact R.
Qed.

Lemma float_delete_leaf : forall keyS, del_leaf_spec (fun fuel => g_float_delete_loop1 fuel keyS) keyS.
Proof.
  intros keyS f h root size os p a gk0 tk0 v0 d Hs.
  pose proof (h_tag_stored _ _ Hs) as Ht. cbn [aref atag] in Ht.
  destruct (h_cast_leaf_stored _ _ _ _ _ Hs) as (Hc & Hg & _).
  cbn [g_float_delete_loop1 href_is_nil negb]. rewrite Ht. cbn [gkind_eqb]. rewrite Hc, Hg.
  destruct (beq gk0 keyS); reflexivity.
Qed.

Lemma compound_delete_loop_sim : forall keyS, del_loop_spec (fun fuel => g_compound_delete_loop1 fuel keyS) keyS keyS.
Proof.
  intros keyS. unfold del_loop_spec. induction fuel as [|f IH]; intros h root size os pm ref a n d Hst Hsep Hrd Hout Hzp Hbt Hfit.
  - reflexivity.
  - destruct (stored_inv _ _ _ Hst) as (Hl & Hx & Hk). destruct (sep_inv _ _ Hsep) as (S1 & S2 & S3).
    destruct (afit_inv _ _ Hfit) as (F4 & Fk).
    pose proof (h_tag_stored _ _ Hst) as Ht. cbn [aref] in Ht.
    pose proof (xwf_prefix_len n Hx) as Hpl.
    cbn [g_compound_delete_loop1 href_is_nil negb]. rewrite Ht, atag_inner, (h_ref_node_stored _ _ _ Hst).
    unfold h_prefixLen. rewrite (h_hdr_stored _ _ _ Hst).
    cbn [xdelete_in strip]. rewrite xh_xmap. cbn [xabs_hdr prefixLen].
    destruct (Nat.eqb_spec (xplen (xh n)) 0) as [E0|E0].
    + replace (N.of_nat (xplen (xh n)) =? 0) with true by lia. cbn [negb andb]. rewrite E0, Nat.add_0_r.
      rewrite idx_bytes_nat.
      destruct (nth_error keyS (d)) as [b|] eqn:Enth.
      2:{ replace (Z.of_nat (length keyS) <=? Z.of_nat (d))%Z with true
            by (symmetry; apply Z.leb_le; apply nth_error_None in Enth; lia).
          repeat split. }
      replace (Z.of_nat (length keyS) <=? Z.of_nat (d))%Z with false
        by (symmetry; apply Z.leb_gt; assert (d < length keyS)%nat by (apply nth_error_Some; rewrite Enth; discriminate); lia).
      pose proof (nth_byte _ _ _ Hbt Enth) as Hb.
      pose proof (findChild_stored _ _ _ b Hst Hb) as FC. rewrite xfind_xmap.
      destruct (xfind n b) as [c|] eqn:Ef; cbn [omap].
      2:{ rewrite FC. cbn [slot_is_nil]. repeat split. }
      destruct FC as (i & -> & Hnth & Hrep). cbn [slot_is_nil].
      pose proof (kid_of_find _ _ _ Hx Hb Ef) as Hin. pose proof (Hk _ _ Hin) as Hs.
      rewrite (slot_read_cell _ _ _ _ _ _ Hst Hnth), (h_tag_stored _ _ Hs).
      destruct c as [ca gk0 tk0 v0|ca cn]; cbn [strip aref].
      * cbn [atag gkind_eqb]. destruct (h_cast_leaf_stored _ _ _ _ _ Hs) as (-> & -> & _).
        destruct (beq gk0 keyS); [|repeat split].
        assert (Hf : xfind n b <> None) by (rewrite Ef; discriminate).
        destruct (deleteChild_step _ _ _ _ _ b os _ Hst Hsep Hrd Hout Hb Hf Hzp F4) as (h' & root' & cur' & -> & Es & T1 & T2 & T3 & T4 & T5).
        cbn [del_ok fst snd]. repeat (split; [reflexivity|]).
        split; [rewrite snd_xdel_child; apply xdel_pool_zero; exact Hzp|].
        split; [exact T5|]. exists cur'. auto.
      * rewrite atag_inner.
        replace (Z.of_nat d + 1)%Z with (Z.of_nat (S (d))) by lia.
        pose proof (IH h root size os pm (SCell a i) ca cn (S (d)) Hs (S1 _ _ Hin)
                      (slot_read_cell _ root _ _ _ _ Hst Hnth) (S2 _ _ Hin) Hzp Hbt (Fk _ _ Hin)) as R.
        cbn [strip] in R.
        apply (del_up size os pm h root ref a n b (AInner ca cn) i _ _ Hst Hsep Hrd Hout Hb Hin Hnth Hrep) in R.
        exact R.
    + replace (N.of_nat (xplen (xh n)) =? 0) with false by lia. cbn [negb andb].
      rewrite (gen_checkPrefix_eq (xh n) keyS d Hpl). rewrite gm_maxPrefixLen_val.
      unfold pl_cap. cbn [xabs_hdr prefixLen].
      replace (Z.of_nat (checkPrefix (xabs_hdr (xh n)) keyS d) =? Z.of_N (N.min (N.of_nat maxPrefixLen) (N.of_nat (xplen (xh n)))))%Z
        with (checkPrefix (xabs_hdr (xh n)) keyS d =? Nat.min maxPrefixLen (xplen (xh n)))%nat
        by (destruct (Nat.eqb_spec (checkPrefix (xabs_hdr (xh n)) keyS d) (Nat.min maxPrefixLen (xplen (xh n))));
            destruct (Z.eqb_spec (Z.of_nat (checkPrefix (xabs_hdr (xh n)) keyS d)) (Z.of_N (N.min (N.of_nat maxPrefixLen) (N.of_nat (xplen (xh n)))))); try reflexivity; lia).
      destruct (checkPrefix (xabs_hdr (xh n)) keyS d =? Nat.min maxPrefixLen (xplen (xh n)))%nat; cbn [negb]; [|repeat split].
      replace (Z.of_nat d + Z.of_N (N.of_nat (xplen (xh n))))%Z with (Z.of_nat (d + xplen (xh n))) by lia.
      rewrite idx_bytes_nat.
      destruct (nth_error keyS (d + xplen (xh n))) as [b|] eqn:Enth.
      2:{ replace (Z.of_nat (length keyS) <=? Z.of_nat (d + xplen (xh n)))%Z with true
            by (symmetry; apply Z.leb_le; apply nth_error_None in Enth; lia).
          repeat split. }
      replace (Z.of_nat (length keyS) <=? Z.of_nat (d + xplen (xh n)))%Z with false
        by (symmetry; apply Z.leb_gt; assert (d + xplen (xh n) < length keyS)%nat by (apply nth_error_Some; rewrite Enth; discriminate); lia).
      pose proof (nth_byte _ _ _ Hbt Enth) as Hb.
      pose proof (findChild_stored _ _ _ b Hst Hb) as FC. rewrite xfind_xmap.
      destruct (xfind n b) as [c|] eqn:Ef; cbn [omap].
      2:{ rewrite FC. cbn [slot_is_nil]. repeat split. }
      destruct FC as (i & -> & Hnth & Hrep). cbn [slot_is_nil].
      pose proof (kid_of_find _ _ _ Hx Hb Ef) as Hin. pose proof (Hk _ _ Hin) as Hs.
      rewrite (slot_read_cell _ _ _ _ _ _ Hst Hnth), (h_tag_stored _ _ Hs).
      destruct c as [ca gk0 tk0 v0|ca cn]; cbn [strip aref].
      * cbn [atag gkind_eqb]. destruct (h_cast_leaf_stored _ _ _ _ _ Hs) as (-> & -> & _).
        destruct (beq gk0 keyS); [|repeat split].
        assert (Hf : xfind n b <> None) by (rewrite Ef; discriminate).
        destruct (deleteChild_step _ _ _ _ _ b os _ Hst Hsep Hrd Hout Hb Hf Hzp F4) as (h' & root' & cur' & -> & Es & T1 & T2 & T3 & T4 & T5).
        cbn [del_ok fst snd]. repeat (split; [reflexivity|]).
        split; [rewrite snd_xdel_child; apply xdel_pool_zero; exact Hzp|].
        split; [exact T5|]. exists cur'. auto.
      * rewrite atag_inner.
        replace (Z.of_nat (d + xplen (xh n)) + 1)%Z with (Z.of_nat (S (d + xplen (xh n)))) by lia.
        pose proof (IH h root size os pm (SCell a i) ca cn (S (d + xplen (xh n))) Hs (S1 _ _ Hin)
                      (slot_read_cell _ root _ _ _ _ Hst Hnth) (S2 _ _ Hin) Hzp Hbt (Fk _ _ Hin)) as R.
        cbn [strip] in R.
        apply (del_up size os pm h root ref a n b (AInner ca cn) i _ _ Hst Hsep Hrd Hout Hb Hin Hnth Hrep) in R.
        exact R.
Qed.

Lemma compound_delete_leaf : forall keyS, del_leaf_spec (fun fuel => g_compound_delete_loop1 fuel keyS) keyS.
Proof.
  intros keyS f h root size os p a gk0 tk0 v0 d Hs.
  pose proof (h_tag_stored _ _ Hs) as Ht. cbn [aref atag] in Ht.
  destruct (h_cast_leaf_stored _ _ _ _ _ Hs) as (Hc & Hg & _).
  cbn [g_compound_delete_loop1 href_is_nil negb]. rewrite Ht. cbn [gkind_eqb]. rewrite Hc, Hg.
  destruct (beq gk0 keyS); reflexivity.
Qed.

Lemma collation_delete_loop_sim : forall keyS colKey, del_loop_spec (fun fuel => g_collation_delete_loop1 fuel keyS colKey) keyS colKey.
Proof.
  intros keyS colKey. unfold del_loop_spec. induction fuel as [|f IH]; intros h root size os pm ref a n d Hst Hsep Hrd Hout Hzp Hbt Hfit.
  - reflexivity.
  - destruct (stored_inv _ _ _ Hst) as (Hl & Hx & Hk). destruct (sep_inv _ _ Hsep) as (S1 & S2 & S3).
    destruct (afit_inv _ _ Hfit) as (F4 & Fk).
    pose proof (h_tag_stored _ _ Hst) as Ht. cbn [aref] in Ht.
    pose proof (xwf_prefix_len n Hx) as Hpl.
    cbn [g_collation_delete_loop1 href_is_nil negb]. rewrite Ht, atag_inner, (h_ref_node_stored _ _ _ Hst).
    unfold h_prefixLen. rewrite (h_hdr_stored _ _ _ Hst).
    cbn [xdelete_in strip]. rewrite xh_xmap. cbn [xabs_hdr prefixLen].
    destruct (Nat.eqb_spec (xplen (xh n)) 0) as [E0|E0].
    + replace (N.of_nat (xplen (xh n)) =? 0) with true by lia. cbn [negb andb]. rewrite E0, Nat.add_0_r.
      rewrite idx_bytes_nat.
      destruct (nth_error colKey (d)) as [b|] eqn:Enth.
      2:{ replace (Z.of_nat (length colKey) <=? Z.of_nat (d))%Z with true
            by (symmetry; apply Z.leb_le; apply nth_error_None in Enth; lia).
          repeat split. }
      replace (Z.of_nat (length colKey) <=? Z.of_nat (d))%Z with false
        by (symmetry; apply Z.leb_gt; assert (d < length colKey)%nat by (apply nth_error_Some; rewrite Enth; discriminate); lia).
      pose proof (nth_byte _ _ _ Hbt Enth) as Hb.
      pose proof (findChild_stored _ _ _ b Hst Hb) as FC. rewrite xfind_xmap.
      destruct (xfind n b) as [c|] eqn:Ef; cbn [omap].
      2:{ rewrite FC. cbn [slot_is_nil]. repeat split. }
      destruct FC as (i & -> & Hnth & Hrep). cbn [slot_is_nil].
      pose proof (kid_of_find _ _ _ Hx Hb Ef) as Hin. pose proof (Hk _ _ Hin) as Hs.
      rewrite (slot_read_cell _ _ _ _ _ _ Hst Hnth), (h_tag_stored _ _ Hs).
      destruct c as [ca gk0 tk0 v0|ca cn]; cbn [strip aref].
      * cbn [atag gkind_eqb]. destruct (h_cast_leaf_stored _ _ _ _ _ Hs) as (-> & -> & _).
        destruct (beq gk0 keyS); [|repeat split].
        assert (Hf : xfind n b <> None) by (rewrite Ef; discriminate).
        destruct (deleteChild_step _ _ _ _ _ b os _ Hst Hsep Hrd Hout Hb Hf Hzp F4) as (h' & root' & cur' & -> & Es & T1 & T2 & T3 & T4 & T5).
        cbn [del_ok fst snd]. repeat (split; [reflexivity|]).
        split; [rewrite snd_xdel_child; apply xdel_pool_zero; exact Hzp|].
        split; [exact T5|]. exists cur'. auto.
      * rewrite atag_inner.
        replace (Z.of_nat d + 1)%Z with (Z.of_nat (S (d))) by lia.
        pose proof (IH h root size os pm (SCell a i) ca cn (S (d)) Hs (S1 _ _ Hin)
                      (slot_read_cell _ root _ _ _ _ Hst Hnth) (S2 _ _ Hin) Hzp Hbt (Fk _ _ Hin)) as R.
        cbn [strip] in R.
        apply (del_up size os pm h root ref a n b (AInner ca cn) i _ _ Hst Hsep Hrd Hout Hb Hin Hnth Hrep) in R.
        exact R.
    + replace (N.of_nat (xplen (xh n)) =? 0) with false by lia. cbn [negb andb].
      rewrite (gen_checkPrefix_eq (xh n) colKey d Hpl). rewrite gm_maxPrefixLen_val.
      unfold pl_cap. cbn [xabs_hdr prefixLen].
      replace (Z.of_nat (checkPrefix (xabs_hdr (xh n)) colKey d) =? Z.of_N (N.min (N.of_nat maxPrefixLen) (N.of_nat (xplen (xh n)))))%Z
        with (checkPrefix (xabs_hdr (xh n)) colKey d =? Nat.min maxPrefixLen (xplen (xh n)))%nat
        by (destruct (Nat.eqb_spec (checkPrefix (xabs_hdr (xh n)) colKey d) (Nat.min maxPrefixLen (xplen (xh n))));
            destruct (Z.eqb_spec (Z.of_nat (checkPrefix (xabs_hdr (xh n)) colKey d)) (Z.of_N (N.min (N.of_nat maxPrefixLen) (N.of_nat (xplen (xh n)))))); try reflexivity; lia).
      destruct (checkPrefix (xabs_hdr (xh n)) colKey d =? Nat.min maxPrefixLen (xplen (xh n)))%nat; cbn [negb]; [|repeat split].
      replace (Z.of_nat d + Z.of_N (N.of_nat (xplen (xh n))))%Z with (Z.of_nat (d + xplen (xh n))) by lia.
      rewrite idx_bytes_nat.
      destruct (nth_error colKey (d + xplen (xh n))) as [b|] eqn:Enth.
      2:{ replace (Z.of_nat (length colKey) <=? Z.of_nat (d + xplen (xh n)))%Z with true
            by (symmetry; apply Z.leb_le; apply nth_error_None in Enth; lia).
          repeat split. }
      replace (Z.of_nat (length colKey) <=? Z.of_nat (d + xplen (xh n)))%Z with false
        by (symmetry; apply Z.leb_gt; assert (d + xplen (xh n) < length colKey)%nat by (apply nth_error_Some; rewrite Enth; discriminate); lia).
      pose proof (nth_byte _ _ _ Hbt Enth) as Hb.
      pose proof (findChild_stored _ _ _ b Hst Hb) as FC. rewrite xfind_xmap.
      destruct (xfind n b) as [c|] eqn:Ef; cbn [omap].
      2:{ rewrite FC. cbn [slot_is_nil]. repeat split. }
      destruct FC as (i & -> & Hnth & Hrep). cbn [slot_is_nil].
      pose proof (kid_of_find _ _ _ Hx Hb Ef) as Hin. pose proof (Hk _ _ Hin) as Hs.
      rewrite (slot_read_cell _ _ _ _ _ _ Hst Hnth), (h_tag_stored _ _ Hs).
      destruct c as [ca gk0 tk0 v0|ca cn]; cbn [strip aref].
      * cbn [atag gkind_eqb]. destruct (h_cast_leaf_stored _ _ _ _ _ Hs) as (-> & -> & _).
        destruct (beq gk0 keyS); [|repeat split].
        assert (Hf : xfind n b <> None) by (rewrite Ef; discriminate).
        destruct (deleteChild_step _ _ _ _ _ b os _ Hst Hsep Hrd Hout Hb Hf Hzp F4) as (h' & root' & cur' & -> & Es & T1 & T2 & T3 & T4 & T5).
        cbn [del_ok fst snd]. repeat (split; [reflexivity|]).
        split; [rewrite snd_xdel_child; apply xdel_pool_zero; exact Hzp|].
        split; [exact T5|]. exists cur'. auto.
      * rewrite atag_inner.
        replace (Z.of_nat (d + xplen (xh n)) + 1)%Z with (Z.of_nat (S (d + xplen (xh n)))) by lia.
        pose proof (IH h root size os pm (SCell a i) ca cn (S (d + xplen (xh n))) Hs (S1 _ _ Hin)
                      (slot_read_cell _ root _ _ _ _ Hst Hnth) (S2 _ _ Hin) Hzp Hbt (Fk _ _ Hin)) as R.
        cbn [strip] in R.
        apply (del_up size os pm h root ref a n b (AInner ca cn) i _ _ Hst Hsep Hrd Hout Hb Hin Hnth Hrep) in R.
        exact R.
Qed.

Lemma collation_delete_leaf : forall keyS colKey, del_leaf_spec (fun fuel => g_collation_delete_loop1 fuel keyS colKey) keyS.
Proof.
  intros keyS colKey f h root size os p a gk0 tk0 v0 d Hs.
  pose proof (h_tag_stored _ _ Hs) as Ht. cbn [aref atag] in Ht.
  destruct (h_cast_leaf_stored _ _ _ _ _ Hs) as (Hc & Hg & _).
  cbn [g_collation_delete_loop1 href_is_nil negb]. rewrite Ht. cbn [gkind_eqb]. rewrite Hc, Hg.
  destruct (beq gk0 keyS); reflexivity.
Qed.

(* ================= C. the representation of a whole tree, and Delete ================= *)
(* repr h r t F: the raw tree t of the model is held by the heap h below the reference r, on the footprint F
   (the addresses of its nodes and leaves reachable through occupied cells; every node on it is xwf, the
   footprints of different children are disjoint) *)
Definition repr (h : heap) (r : addr) (t : xtree) (F : addr -> Prop) : Prop :=
  exists at_, aref at_ = r /\ strip at_ = t /\ stored h at_ /\ sep at_ /\ (forall x, F x <-> live at_ x).
Definition repr_root (h : heap) (root : href) (ot : option xtree) (F : addr -> Prop) : Prop :=
  match root, ot with
  | None, None => forall x, ~ F x
  | Some r, Some t => repr h r t F
  | _, _ => False
  end /\ (forall x, F x -> (x < next h)%nat).

(* the uint32 field prefixLen: a node4 and each of its inner children have a merged path that fits *)
Definition xfit4 (n : xnode xtree) : Prop :=
  match n with
  | X4 h _ _ => forall b cn, In (b, XInner cn) (nenum (xabs n)) -> N.of_nat (xplen (xh cn)) + N.of_nat (xplen h) + 1 < M32
  | _ => True
  end.
Inductive xfit : xtree -> Prop :=
| xfit_leaf : forall gk tk v, xfit (XLeaf gk tk v)
| xfit_inner : forall n, xfit4 n -> (forall b c, In (b, c) (nenum (xabs n)) -> xfit c) -> xfit (XInner n).

Lemma afit_of_xfit : forall h t, stored h t -> xfit (strip t) -> afit t.
Proof.
  intros h t H. induction H as [a gk tk v Hl|a n Hl Hx Hk IH]; intros Hf; [constructor|].
  cbn [strip] in Hf. inversion Hf as [|n0 H4 Hkf E]; subst n0. constructor.
  - destruct n as [hd keys ch|hd keys ch|hd keys ch|hd ch]; cbn [afit4]; try exact I.
    intros b' ca cn Hin. change (X4 hd keys (map (omap strip) ch)) with (xmap strip (X4 hd keys ch)) in H4.
    cbn [xfit4 xmap] in H4. specialize (H4 b' (xmap strip cn)). rewrite xh_xmap in H4. apply H4.
    change (X4 hd keys (map (omap strip) ch)) with (xmap strip (X4 hd keys ch)).
    rewrite nenum_xabs_xmap. apply in_map_iff. exists (b', AInner ca cn). split; [reflexivity|exact Hin].
  - intros b c Hin. apply (IH b c Hin). apply (Hkf b). rewrite nenum_xabs_xmap. apply in_map_iff.
    exists (b, c). split; [reflexivity|exact Hin].
Qed.

(* a Delete method: the nil test, the key preparation, then the loop from &t.root *)
Definition delete_top (L : nat -> heap -> href -> Z -> list choice -> hpool -> slot -> href -> Z -> mres bool)
    (fuel : nat) (h : heap) (root : href) (size : Z) (os : list choice) (p : hpool) : mres bool :=
  if href_is_nil root then MDone h root size os p false
  else match slot_read h root SRoot with None => MPanic | Some v => L fuel h root size os p SRoot v 0%Z end.

Theorem delete_top_sim : forall L gk tk, del_loop_spec L gk tk -> del_leaf_spec L gk ->
  forall h root ot F size os pm,
  repr_root h root ot F -> zero_pool pm -> isbytes tk = true -> match ot with Some t => xfit t | None => True end ->
  let m := xdo_delete (mkXstate ot size) gk tk os pm in
  match delete_top L (key_fuel tk) h root size os (map_pool pm) with
  | MDone h' root' size' os' p' ret =>
      snd (fst m) = OBool ret /\ size' = xsize (fst (fst m)) /\ p' = map_pool (snd m) /\ zero_pool (snd m) /\
      next h' = next h /\
      exists F', repr_root h' root' (xroot (fst (fst m))) F' /\ (forall x, F' x -> F x) /\
                 (forall x, ~ F x -> load h' x = load h x)
  | MPanic => False
  | MFuel => snd (fst m) = OFuel
  end.
Proof.
  intros L gk tk HL HLf h root ot F size os pm (Hr & Hbd) Hzp Hbt Hfit m. subst m. unfold delete_top, xdo_delete.
  destruct root as [r|]; destruct ot as [t|]; cbn [repr_root] in Hr; try contradiction; cbn [href_is_nil xroot slot_read].
  2:{ cbn [fst snd xsize xroot]. repeat (split; [reflexivity|]). split; [exact Hzp|]. split; [reflexivity|].
      exists F. split; [split; [exact Hr|exact Hbd]|]. auto. }
  destruct Hr as (at_ & <- & <- & Hst & Hsep & HF).
  destruct at_ as [a gk0 tk0 v0|a n]; cbn [strip aref].
  - unfold key_fuel. rewrite (HLf _ h (Some a) size os (map_pool pm) a gk0 tk0 v0 0%Z Hst).
    destruct (beq gk0 gk); cbn [fst snd xsize xroot].
    + repeat (split; [reflexivity|]). split; [exact Hzp|]. split; [reflexivity|].
      exists (fun _ => False). split; [split; [intros x Hx; exact Hx|intros x []]|]. split; [intros x []|reflexivity].
    + repeat (split; [reflexivity|]). split; [exact Hzp|]. split; [reflexivity|].
      exists F. split; [|auto]. split; [|exact Hbd]. exists (ALeaf a gk0 tk0 v0). auto.
  - pose proof (HL (key_fuel tk) h (Some a) size os pm SRoot a n 0%nat Hst Hsep eq_refl I Hzp Hbt
                   (afit_of_xfit _ _ Hst Hfit)) as R.
    cbn [strip Z.of_nat] in R. unfold del_ok in R.
    destruct (L (key_fuel tk) h (Some a) size os (map_pool pm) SRoot (Some a) 0%Z) as [h' root' size' os' p' ret| |];
      destruct (xdelete_in (key_fuel tk) (XInner (xmap strip n)) gk tk 0 os pm) as [[res osm] pmm];
      cbn [fst snd] in R |- *; destruct res as [t'| |]; cbn [fst snd xsize xroot]; try contradiction; try discriminate R.
    + destruct R as (-> & -> & -> & -> & Hzp' & Hnx & cur' & <- & Hst' & Hsep' & Hsub & Hfr).
      repeat (split; [reflexivity|]). split; [exact Hzp'|]. split; [exact Hnx|].
      destruct Hfr as (_ & -> & Hframe).
      exists (live cur'). split; [split|split].
      * exists cur'. split; [reflexivity|]. split; [reflexivity|]. split; [exact Hst'|]. split; [exact Hsep'|]. intros x; reflexivity.
      * intros x Hx. rewrite Hnx. apply Hbd. apply HF. apply Hsub. exact Hx.
      * intros x Hx. apply HF. apply Hsub. exact Hx.
      * intros x Hx. apply Hframe; [lia|]. intros Hl. apply Hx. apply HF. exact Hl.
    + destruct R as (-> & -> & -> & -> & -> & -> & ->).
      repeat (split; [reflexivity|]). split; [exact Hzp|]. split; [reflexivity|].
      exists F. split; [|auto]. split; [|exact Hbd]. exists (AInner a n). auto.
    + reflexivity.
Qed.

Theorem gen_alpha_delete_sim : forall h root ot F size keyS os pm,
  repr_root h root ot F -> zero_pool pm -> isbytes (keyS ++ [0]) = true -> match ot with Some t => xfit t | None => True end ->
  let m := xdo_delete (mkXstate ot size) (keyS ++ [0]) (keyS ++ [0]) os pm in
  match g_alpha_delete (key_fuel (keyS ++ [0])) h root size keyS os (map_pool pm) with
  | MDone h' root' size' os' p' ret =>
      snd (fst m) = OBool ret /\ size' = xsize (fst (fst m)) /\ p' = map_pool (snd m) /\ zero_pool (snd m) /\
      next h' = next h /\
      exists F', repr_root h' root' (xroot (fst (fst m))) F' /\ (forall x, F' x -> F x) /\
                 (forall x, ~ F x -> load h' x = load h x)
  | MPanic => False
  | MFuel => snd (fst m) = OFuel
  end.
Proof.
  intros h root ot F size keyS os pm.
  exact (delete_top_sim _ (keyS ++ [0]) (keyS ++ [0]) (alpha_delete_loop_sim (keyS ++ [0])) (alpha_delete_leaf (keyS ++ [0])) h root ot F size os pm).
Qed.

Theorem gen_unsigned_delete_sim : forall h root ot F size keyS os pm,
  repr_root h root ot F -> zero_pool pm -> isbytes keyS = true -> match ot with Some t => xfit t | None => True end ->
  let m := xdo_delete (mkXstate ot size) keyS keyS os pm in
  match g_unsigned_delete (key_fuel keyS) h root size keyS os (map_pool pm) with
  | MDone h' root' size' os' p' ret =>
      snd (fst m) = OBool ret /\ size' = xsize (fst (fst m)) /\ p' = map_pool (snd m) /\ zero_pool (snd m) /\
      next h' = next h /\
      exists F', repr_root h' root' (xroot (fst (fst m))) F' /\ (forall x, F' x -> F x) /\
                 (forall x, ~ F x -> load h' x = load h x)
  | MPanic => False
  | MFuel => snd (fst m) = OFuel
  end.
Proof.
  intros h root ot F size keyS os pm.
  exact (delete_top_sim _ keyS keyS (unsigned_delete_loop_sim keyS) (unsigned_delete_leaf keyS) h root ot F size os pm).
Qed.

Theorem gen_signed_delete_sim : forall h root ot F size keyS os pm,
  repr_root h root ot F -> zero_pool pm -> isbytes keyS = true -> match ot with Some t => xfit t | None => True end ->
  let m := xdo_delete (mkXstate ot size) keyS keyS os pm in
  match g_signed_delete (key_fuel keyS) h root size keyS os (map_pool pm) with
  | MDone h' root' size' os' p' ret =>
      snd (fst m) = OBool ret /\ size' = xsize (fst (fst m)) /\ p' = map_pool (snd m) /\ zero_pool (snd m) /\
      next h' = next h /\
      exists F', repr_root h' root' (xroot (fst (fst m))) F' /\ (forall x, F' x -> F x) /\
                 (forall x, ~ F x -> load h' x = load h x)
  | MPanic => False
  | MFuel => snd (fst m) = OFuel
  end.
Proof.
  intros h root ot F size keyS os pm.
  exact (delete_top_sim _ keyS keyS (signed_delete_loop_sim keyS) (signed_delete_leaf keyS) h root ot F size os pm).
Qed.

Theorem gen_float_delete_sim : forall h root ot F size keyS os pm,
  repr_root h root ot F -> zero_pool pm -> isbytes keyS = true -> match ot with Some t => xfit t | None => True end ->
  let m := xdo_delete (mkXstate ot size) keyS keyS os pm in
  match g_float_delete (key_fuel keyS) h root size keyS os (map_pool pm) with
  | MDone h' root' size' os' p' ret =>
      snd (fst m) = OBool ret /\ size' = xsize (fst (fst m)) /\ p' = map_pool (snd m) /\ zero_pool (snd m) /\
      next h' = next h /\
      exists F', repr_root h' root' (xroot (fst (fst m))) F' /\ (forall x, F' x -> F x) /\
                 (forall x, ~ F x -> load h' x = load h x)
  | MPanic => False
  | MFuel => snd (fst m) = OFuel
  end.
Proof.
  intros h root ot F size keyS os pm.
  exact (delete_top_sim _ keyS keyS (float_delete_loop_sim keyS) (float_delete_leaf keyS) h root ot F size os pm).
Qed.

Theorem gen_compound_delete_sim : forall h root ot F size keyS os pm,
  repr_root h root ot F -> zero_pool pm -> isbytes keyS = true -> match ot with Some t => xfit t | None => True end ->
  let m := xdo_delete (mkXstate ot size) keyS keyS os pm in
  match g_compound_delete (key_fuel keyS) h root size keyS os (map_pool pm) with
  | MDone h' root' size' os' p' ret =>
      snd (fst m) = OBool ret /\ size' = xsize (fst (fst m)) /\ p' = map_pool (snd m) /\ zero_pool (snd m) /\
      next h' = next h /\
      exists F', repr_root h' root' (xroot (fst (fst m))) F' /\ (forall x, F' x -> F x) /\
                 (forall x, ~ F x -> load h' x = load h x)
  | MPanic => False
  | MFuel => snd (fst m) = OFuel
  end.
Proof.
  intros h root ot F size keyS os pm.
  exact (delete_top_sim _ keyS keyS (compound_delete_loop_sim keyS) (compound_delete_leaf keyS) h root ot F size os pm).
Qed.

Theorem gen_collation_delete_sim : forall h root ot F size keyS colKey os pm,
  repr_root h root ot F -> zero_pool pm -> isbytes colKey = true -> match ot with Some t => xfit t | None => True end ->
  let m := xdo_delete (mkXstate ot size) keyS colKey os pm in
  match g_collation_delete (key_fuel colKey) h root size keyS colKey os (map_pool pm) with
  | MDone h' root' size' os' p' ret =>
      snd (fst m) = OBool ret /\ size' = xsize (fst (fst m)) /\ p' = map_pool (snd m) /\ zero_pool (snd m) /\
      next h' = next h /\
      exists F', repr_root h' root' (xroot (fst (fst m))) F' /\ (forall x, F' x -> F x) /\
                 (forall x, ~ F x -> load h' x = load h x)
  | MPanic => False
  | MFuel => snd (fst m) = OFuel
  end.
Proof.
  intros h root ot F size keyS colKey os pm.
  exact (delete_top_sim _ keyS colKey (collation_delete_loop_sim keyS colKey) (collation_delete_leaf keyS colKey) h root ot F size os pm).
Qed.

(* t.size after Delete: -1 exactly when the method returns true *)
Lemma xdo_delete_size : forall st gk tk os p,
  match snd (fst (xdo_delete st gk tk os p)) with
  | OBool true => xsize (fst (fst (xdo_delete st gk tk os p))) = (xsize st - 1)%Z
  | OBool false => xsize (fst (fst (xdo_delete st gk tk os p))) = xsize st
  | _ => True
  end.
Proof.
  intros [r s] gk tk os p. unfold xdo_delete. cbn [xroot xsize].
  destruct r as [[lgk ltk lv|n]|]; cbn [fst snd xsize]; try reflexivity.
  - destruct (beq lgk gk); reflexivity.
  - destruct (xdelete_in _ _ _ _ _ _ _) as [[[t'| |] o] q]; reflexivity.
Qed.
Corollary delete_top_size : forall L gk tk, del_loop_spec L gk tk -> del_leaf_spec L gk ->
  forall h root ot F size os pm,
  repr_root h root ot F -> zero_pool pm -> isbytes tk = true -> match ot with Some t => xfit t | None => True end ->
  match delete_top L (key_fuel tk) h root size os (map_pool pm) with
  | MDone _ _ size' _ _ ret => size' = if ret then (size - 1)%Z else size
  | _ => True
  end.
Proof.
  intros L gk tk HL HLf h root ot F size os pm Hr Hzp Hbt Hfit.
  pose proof (delete_top_sim L gk tk HL HLf h root ot F size os pm Hr Hzp Hbt Hfit) as H. cbv zeta in H.
  pose proof (xdo_delete_size (mkXstate ot size) gk tk os pm) as S. cbn [xsize] in S.
  destruct (delete_top L (key_fuel tk) h root size os (map_pool pm)) as [h' root' size' os' p' ret| |]; try exact I.
  destruct H as (Eo & -> & _). rewrite Eo in S. destruct ret; exact S.
Qed.
Theorem gen_alpha_delete_size : forall h root ot F size keyS os pm,
  repr_root h root ot F -> zero_pool pm -> isbytes (keyS ++ [0]) = true -> match ot with Some t => xfit t | None => True end ->
  match g_alpha_delete (key_fuel (keyS ++ [0])) h root size keyS os (map_pool pm) with
  | MDone _ _ size' _ _ ret => size' = if ret then (size - 1)%Z else size
  | _ => True
  end.
Proof.
  intros h root ot F size keyS os pm.
  exact (delete_top_size _ _ _ (alpha_delete_loop_sim (keyS ++ [0])) (alpha_delete_leaf (keyS ++ [0])) h root ot F size os pm).
Qed.
Theorem gen_collation_delete_size : forall h root ot F size keyS colKey os pm,
  repr_root h root ot F -> zero_pool pm -> isbytes colKey = true -> match ot with Some t => xfit t | None => True end ->
  match g_collation_delete (key_fuel colKey) h root size keyS colKey os (map_pool pm) with
  | MDone _ _ size' _ _ ret => size' = if ret then (size - 1)%Z else size
  | _ => True
  end.
Proof.
  intros h root ot F size keyS colKey os pm.
  exact (delete_top_size _ _ _ (collation_delete_loop_sim keyS colKey) (collation_delete_leaf keyS colKey) h root ot F size os pm).
Qed.

(* ---- the hypotheses are satisfiable: a concrete heap holding a three-key tree ---- *)
Definition ex3_l1 : atree := ALeaf 0%nat [97; 0] [97; 0] 1.
Definition ex3_l2 : atree := ALeaf 1%nat [98; 0] [98; 0] 2.
Definition ex3_l3 : atree := ALeaf 2%nat [99; 0] [99; 0] 3.
Definition ex3_node : xnode atree :=
  fst (xadd (fst (xadd (fst (xadd (fst (xnew4 0 [98; 0] [] [])) 97 ex3_l1 [] [])) 98 ex3_l2 [] [])) 99 ex3_l3 [] []).
Definition ex3_tree : atree := AInner 3%nat ex3_node.
Definition ex3_heap : heap :=
  snd (alloc (snd (alloc (snd (alloc (snd (alloc heap0 (aobj ex3_l1))) (aobj ex3_l2))) (aobj ex3_l3))) (aobj ex3_tree)).

Lemma ex3_xwf : xwf ex3_node /\ kids ex3_node = [(97, ex3_l1); (98, ex3_l2); (99, ex3_l3)].
Proof.
  assert (Hz : zero_pool (@nil (xnode atree))) by constructor.
  destruct (xnew4_sim 0 [98; 0] [] (@nil (xnode atree)) Hz) as (E0 & X0).
  destruct (xadd_sim _ 97 ex3_l1 [] [] X0 Hz) as (E1 & X1); [lia|vm_compute; reflexivity|].
  destruct (xadd_sim _ 98 ex3_l2 [] [] X1 Hz) as (E2 & X2); [lia|vm_compute; reflexivity|].
  destruct (xadd_sim _ 99 ex3_l3 [] [] X2 Hz) as (E3 & X3); [lia|vm_compute; reflexivity|].
  split; [exact X3|]. vm_compute. reflexivity.
Qed.

Example ex3_repr : repr_root ex3_heap (Some 3%nat) (Some (strip ex3_tree)) (fun x => (x < 4)%nat).
Proof.
  destruct ex3_xwf as (Hx & Hk).
  assert (Hl : forall x, live ex3_tree x <-> (x < 4)%nat).
  { intros x. split.
    - intros H. destruct (live_inv _ _ H) as [->|(a & n & b & c & E & Hin & Hc)]; [cbn; lia|].
      injection E as <- <-. rewrite Hk in Hin.
      destruct Hin as [E|[E|[E|[]]]]; injection E as <- <-; apply live_leaf in Hc; subst x; lia.
    - intros H. assert (E : (x = 0 \/ x = 1 \/ x = 2 \/ x = 3)%nat) by lia.
      destruct E as [-> | [-> | [-> | ->]]]; [| | |apply (live_root ex3_tree)].
      + eapply (live_kid 3%nat ex3_node 97 ex3_l1); [rewrite Hk; left; reflexivity|apply (live_root ex3_l1)].
      + eapply (live_kid 3%nat ex3_node 98 ex3_l2); [rewrite Hk; right; left; reflexivity|apply (live_root ex3_l2)].
      + eapply (live_kid 3%nat ex3_node 99 ex3_l3); [rewrite Hk; right; right; left; reflexivity|apply (live_root ex3_l3)]. }
  split; [|intros x Hx0; exact Hx0].
  exists ex3_tree. split; [reflexivity|]. split; [reflexivity|]. split; [|split; [|intros x; symmetry; apply Hl]].
  - constructor; [reflexivity|exact Hx|]. intros b c Hin. rewrite Hk in Hin.
    destruct Hin as [E|[E|[E|[]]]]; injection E as <- <-; constructor; reflexivity.
  - constructor.
    + intros b c Hin. rewrite Hk in Hin. destruct Hin as [E|[E|[E|[]]]]; injection E as <- <-; constructor.
    + intros b c Hin Hlv. rewrite Hk in Hin.
      destruct Hin as [E|[E|[E|[]]]]; injection E as <- <-; apply live_leaf in Hlv; discriminate Hlv.
    + intros b1 c1 b2 c2 x H1 H2 Hne L1 L2. rewrite Hk in H1, H2.
      destruct H1 as [E1|[E1|[E1|[]]]]; injection E1 as <- <-; apply live_leaf in L1; subst x;
        destruct H2 as [E2|[E2|[E2|[]]]]; injection E2 as <- <-; apply live_leaf in L2; try discriminate L2; contradiction.
Qed.
(* on it the regenerated Delete and the model compute the same (the theorem below says so for every heap) *)
Example ex3_delete_runs :
  match g_alpha_delete (key_fuel [98; 0]) ex3_heap (Some 3%nat) 3 [98] [] [] with
  | MDone h' root' size' _ _ ret =>
      ret = true /\ size' = 2%Z /\
      option_map tabs (h_reify h' root') =
        option_map tabs (xroot (fst (fst (xdo_delete (mkXstate (Some (strip ex3_tree)) 3) [98; 0] [98; 0] [] []))))
  | _ => False
  end.
Proof. vm_compute. repeat split. Qed.
Example ex3_xfit : xfit (strip ex3_tree).
Proof.
  destruct ex3_xwf as (_ & Hk). unfold kids in Hk.
  assert (Hks : nenum (xabs (xmap strip ex3_node)) = [(97, strip ex3_l1); (98, strip ex3_l2); (99, strip ex3_l3)])
    by (rewrite nenum_xabs_xmap, Hk; reflexivity).
  cbn [strip ex3_tree]. remember (xmap strip ex3_node) as m eqn:Em. apply xfit_inner.
  - destruct m; cbn [xfit4]; try exact I. intros b cn Hin. rewrite Hks in Hin.
    destruct Hin as [E|[E|[E|[]]]]; discriminate E.
  - intros b c Hin. rewrite Hks in Hin. destruct Hin as [E|[E|[E|[]]]]; injection E as _ <-; constructor.
Qed.
(* the hypotheses of the Delete theorem hold on it *)
Example ex3_delete_hyps : True.
Proof.
  pose proof (gen_alpha_delete_sim ex3_heap (Some 3%nat) (Some (strip ex3_tree)) _ 3 [98] [] []
                ex3_repr (Forall_nil _) eq_refl ex3_xfit) as H.
  exact I.
Qed.

(* ================= R0. rmap only looks at the registered children ================= *)
Lemma in_combine_r_ex : forall {A B} (l2 : list B) (l1 : list A) c,
  (length l2 <= length l1)%nat -> In c l2 -> exists b, In (b, c) (combine l1 l2).
Proof.
  intros A B l2. induction l2 as [|y l2 IH]; intros l1 c Hl Hin; [contradiction|].
  destruct l1 as [|x l1]; cbn [length] in Hl; [lia|]. cbn [combine].
  destruct Hin as [->|Hin].
  - exists x. left. reflexivity.
  - destruct (IH l1 c ltac:(lia) Hin) as [b Hb]. exists b. right. exact Hb.
Qed.

(* under nwf every child a node holds is registered under some key byte *)
Lemma nwf_children_enum : forall {C} (m : rnode C), nwf m ->
  match m with
  | N4 _ _ _ ch | N16 _ _ _ ch => forall c, In c ch -> exists b, In (b, c) (nenum m)
  | N48 _ _ _ slots | N256 _ _ slots => forall c, In (Some c) slots -> exists b, In (b, c) (nenum m)
  end.
Proof.
  intros C m [_ Hw].
  pose proof params_hold as P. unfold params_ok in P.
  destruct P as (Pm4 & Pm16 & Pm48 & _).
  destruct m as [h len keys ch|h len keys ch|h len idx slots|h len slots]; cbn [nenum]; intros c Hin.
  - destruct Hw as (_ & Hl & Hm & _).
    apply in_combine_r_ex; [|exact Hin]. rewrite firstn_length. change (length (lanes keys)) with 4%nat. lia.
  - destruct Hw as (Hk & _ & Hl & _ & Hm & _).
    apply in_combine_r_ex; [|exact Hin]. rewrite firstn_length. lia.
  - destruct Hw as (Hi & Hsl & Hpt & Hinj & Hback & _).
    apply In_nth_error in Hin. destruct Hin as [i Hi'].
    destruct (Hback i c Hi') as (b & Hb & Hnb).
    exists (N.of_nat b). apply assoc_in. rewrite assoc_enum_idx0.
    rewrite Nat2N.id, Hnb. unfold NodeAux48.entry.
    replace (N.of_nat i + 1 =? 0) with false by (symmetry; apply N.eqb_neq; lia).
    replace (N.to_nat (N.of_nat i + 1 - 1)) with i by lia. rewrite Hi'. reflexivity.
  - apply In_nth_error in Hin. destruct Hin as [i Hi'].
    exists (N.of_nat i). apply assoc_in. rewrite assoc_enum_slots0.
    rewrite Nat2N.id, Hi'. reflexivity.
Qed.

Lemma map_omap_ext_in : forall {C B} (f g : C -> B) (l : list (option C)),
  (forall c, In (Some c) l -> f c = g c) -> map (omap f) l = map (omap g) l.
Proof.
  intros C B f g l H. apply map_ext_in. intros [c|] Hin; cbn [omap]; [|reflexivity].
  f_equal. apply H. exact Hin.
Qed.

Lemma rmap_ext_enum : forall {C B} (m : rnode C) (f g : C -> B), nwf m ->
  (forall b c, In (b, c) (nenum m) -> f c = g c) -> rmap f m = rmap g m.
Proof.
  intros C B m f g Hw H. pose proof (nwf_children_enum m Hw) as Hc.
  destruct m as [h len keys ch|h len keys ch|h len idx slots|h len slots]; cbn [rmap]; f_equal;
    first [apply map_omap_ext_in|apply map_ext_in]; intros c Hin; destruct (Hc c Hin) as [b Hb]; exact (H b c Hb).
Qed.

Lemma rmap_ext_kids : forall {C B} (n : xnode C) (f g : C -> B), xwf n ->
  (forall b c, In (b, c) (nenum (xabs n)) -> f c = g c) -> rmap f (xabs n) = rmap g (xabs n).
Proof. intros C B n f g (_ & _ & Hw) H. apply rmap_ext_enum; assumption. Qed.

(* the height of an inner node is one more than a bound on the heights of the registered children *)
Lemma theight_inner_le : forall (m : rnode tree) k, nwf m ->
  (forall b c, In (b, c) (nenum m) -> (theight c <= k)%nat) -> (theight (Inner m) <= S k)%nat.
Proof.
  intros m k Hw H. pose proof (nwf_children_enum m Hw) as Hc.
  destruct m as [h len keys ch|h len keys ch|h len idx slots|h len slots]; cbn [theight]; apply le_n_S;
    apply list_max_le; apply Forall_forall; intros x Hx; apply in_map_iff in Hx; destruct Hx as (o & <- & Ho).
  - destruct (Hc o Ho) as [b Hb]. exact (H b o Hb).
  - destruct (Hc o Ho) as [b Hb]. exact (H b o Hb).
  - destruct o as [c|]; [|lia]. destruct (Hc c Ho) as [b Hb]. exact (H b c Hb).
  - destruct o as [c|]; [|lia]. destruct (Hc c Ho) as [b Hb]. exact (H b c Hb).
Qed.

(* ================= kids of a stored node, on the three readings ================= *)
Lemma kids_nabs_strip : forall (n : xnode atree),
  nenum (nabs (xmap strip n)) = map (fun bc => (fst bc, tabs (strip (snd bc)))) (kids n).
Proof.
  intros n. rewrite nenum_nabs, nenum_xabs_xmap, map_map. reflexivity.
Qed.
Lemma kid_in_nabs : forall (n : xnode atree) b c, In (b, c) (kids n) ->
  In (b, tabs (strip c)) (nenum (nabs (xmap strip n))).
Proof.
  intros n b c H. rewrite kids_nabs_strip.
  exact (in_map (fun bc : N * atree => (fst bc, tabs (strip (snd bc)))) _ _ H).
Qed.
Lemma kid_height : forall a (n : xnode atree) b c, In (b, c) (kids n) ->
  (theight (tabs (strip c)) < theight (tabs (strip (AInner a n))))%nat.
Proof.
  intros a n b c H. cbn [strip]. rewrite tabs_inner. eapply in_nenum_height. apply kid_in_nabs. exact H.
Qed.

(* ================= R1, R2: the tree read back from the heap ================= *)
Lemma reify_inner : forall f h a (n : xnode atree), load h a = Some (HNode (xmap aref n)) ->
  reify (S f) h a = XInner (xmap (fun c => reify f h (aref c)) n).
Proof. intros f h a n Hl. cbn [reify]. rewrite Hl, xmap_xmap. reflexivity. Qed.

Lemma reify_tabs : forall F h c, stored h c -> (theight (tabs (strip c)) <= F)%nat ->
  tabs (reify F h (aref c)) = tabs (strip c).
Proof.
  induction F as [|f IH]; intros h c Hs Hh.
  - pose proof (theight_pos (tabs (strip c))). lia.
  - destruct c as [a gk tk v|a n].
    + inversion Hs; subst. cbn [aref reify strip tabs].
      match goal with H : load h a = _ |- _ => rewrite H end. reflexivity.
    + destruct (stored_inv _ _ _ Hs) as (Hl & Hx & Hk). cbn [aref].
      rewrite (reify_inner f h a n Hl). cbn [strip tabs]. f_equal.
      rewrite !xmap_xmap, !xabs_xmap. apply rmap_ext_kids; [exact Hx|].
      intros b c Hin. apply IH; [exact (Hk b c Hin)|].
      pose proof (kid_height a n b c Hin). lia.
Qed.

Lemma reify_xtwf : forall F h c, stored h c -> (theight (tabs (strip c)) <= F)%nat ->
  xtwf (reify F h (aref c)).
Proof.
  induction F as [|f IH]; intros h c Hs Hh.
  - pose proof (theight_pos (tabs (strip c))). lia.
  - destruct c as [a gk tk v|a n].
    + inversion Hs; subst. cbn [aref reify].
      match goal with H : load h a = _ |- _ => rewrite H end. constructor.
    + destruct (stored_inv _ _ _ Hs) as (Hl & Hx & Hk). cbn [aref].
      rewrite (reify_inner f h a n Hl). constructor; [apply xwf_xmap; exact Hx|].
      intros b c' Hin. rewrite nenum_xabs_xmap in Hin. apply in_map_iff in Hin.
      destruct Hin as ([b0 c0] & E & Hin). cbn [fst snd] in E. injection E as <- <-.
      apply IH; [exact (Hk b0 c0 Hin)|]. pose proof (kid_height a n b0 c0 Hin). lia.
Qed.

(* ================= R3: the height is bounded by the number of addresses ================= *)
Lemma height_cover : forall k (L : list nat) h c, (length L <= k)%nat -> stored h c -> sep c ->
  (forall x, live c x -> In x L) -> (theight (tabs (strip c)) <= length L)%nat.
Proof.
  induction k as [|k IH]; intros L h c HL Hs Hp Hc.
  - destruct L; [|cbn [length] in HL; lia]. destruct (Hc _ (live_root c)).
  - pose proof (Hc _ (live_root c)) as Hroot.
    destruct c as [a gk tk v|a n].
    + cbn [strip tabs theight]. destruct L; [destruct Hroot|cbn [length]; lia].
    + cbn [aref] in Hroot. destruct (stored_inv _ _ _ Hs) as (Hl & Hx & Hk).
      destruct (sep_inv _ _ Hp) as (Hsk & Hna & _).
      pose proof (remove_length_lt Nat.eq_dec L a Hroot) as Hlt.
      set (L' := remove Nat.eq_dec a L) in *.
      assert (Hb : (theight (tabs (strip (AInner a n))) <= S (length L'))%nat).
      { cbn [strip]. rewrite tabs_inner. apply theight_inner_le.
        - apply nwf_nabs. apply xwf_xmap. exact Hx.
        - intros b t Hin. rewrite kids_nabs_strip in Hin. apply in_map_iff in Hin.
          destruct Hin as ([b0 c0] & E & Hin). cbn [fst snd] in E. injection E as <- <-.
          apply (IH L' h c0); [lia|exact (Hk b0 c0 Hin)|exact (Hsk b0 c0 Hin)|].
          intros x Hx0. apply in_in_remove.
          + intros ->. exact (Hna b0 c0 Hin Hx0).
          + apply Hc. eapply live_kid; eassumption. }
      lia.
Qed.

Lemma height_bound : forall h c N, stored h c -> sep c -> (forall x, live c x -> (x < N)%nat) ->
  (theight (tabs (strip c)) <= N)%nat.
Proof.
  intros h c N Hs Hp Hlt.
  pose proof (height_cover N (seq 0 N) h c ltac:(rewrite seq_length; lia) Hs Hp) as H.
  rewrite seq_length in H. apply H. intros x Hx. apply in_seq. specialize (Hlt x Hx). lia.
Qed.

(* ================= R5-R7: the read-only helpers on the heap ================= *)
(* minimum() on a well-formed raw tree with enough budget returns the model's minimum leaf *)
Lemma min_loop_leaf : forall f t d, xtwf t -> WF d (tabs t) -> (theight (tabs t) <= f)%nat ->
  exists gk tk v, g_minimum_loop1 f (Some t) = LRet (Some (XLeaf gk tk v)) /\
                  minimum (tabs t) = Some (Leaf gk tk v).
Proof.
  intros f t d Hxt Hwf Hf.
  pose proof (gen_minimum_loop_eq f t d Hxt Hwf) as H.
  rewrite (IterFacts.minleaf_spec f d _ Hf Hwf) in H.
  unfold minimum. rewrite (IterFacts.minleaf_spec _ d _ (Nat.le_refl _) Hwf).
  destruct (hd_error (leaves (tabs t))) as [[[gk tk] v]|] eqn:El.
  2:{ exfalso. apply (WF_nonempty _ _ Hwf). destruct (leaves (tabs t)); [reflexivity|discriminate]. }
  cbn [option_map] in *. change (to_leaf (gk, tk, v)) with (Leaf gk tk v) in *.
  exists gk, tk, v. split; [|reflexivity].
  destruct (g_minimum_loop1 f (Some t)) as [[x|]|s| |]; cbn [lres_map option_map] in H; try discriminate.
  injection H as H. apply tabs_leaf_inv in H. subst x. reflexivity.
Qed.

(* the same for the tree read back from the heap below a stored annotated tree *)
Lemma min_loop_reify : forall f h c d, stored h c -> WF d (tabs (strip c)) ->
  (theight (tabs (strip c)) <= f)%nat ->
  exists gk tk v, g_minimum_loop1 f (Some (reify f h (aref c))) = LRet (Some (XLeaf gk tk v)) /\
                  minimum (tabs (strip c)) = Some (Leaf gk tk v).
Proof.
  intros f h c d Hs Hwf Hf.
  pose proof (reify_tabs f h c Hs Hf) as Et. pose proof (reify_xtwf f h c Hs Hf) as Hxt.
  rewrite <- Et. apply (min_loop_leaf f _ d); [exact Hxt|rewrite Et; exact Hwf|rewrite Et; exact Hf].
Qed.

Lemma h_minimum_spec : forall h c d, stored h c -> sep c -> (forall x, live c x -> (x < next h)%nat) ->
  WF d (tabs (strip c)) ->
  exists gk tk v, h_minimum h (Some (aref c)) = GRet (Some (XLeaf gk tk v)) /\
                  minimum (tabs (strip c)) = Some (Leaf gk tk v).
Proof.
  intros h c d Hs Hp Hlt Hwf. pose proof (height_bound h c _ Hs Hp Hlt) as Hh.
  destruct (min_loop_reify (next h) h c d Hs Hwf Hh) as (gk & tk & v & E & M).
  exists gk, tk, v. split; [|exact M].
  unfold h_minimum, h_reify, g_minimum. rewrite E. reflexivity.
Qed.

Lemma h_prefixMismatch_spec : forall h a n key d d0, stored h (AInner a n) -> sep (AInner a n) ->
  (forall x, live (AInner a n) x -> (x < next h)%nat) -> WF d0 (tabs (strip (AInner a n))) ->
  h_prefixMismatch h (Some a) key (Z.of_nat d) =
  GRet (Z.of_nat (prefixMismatch (nabs (xmap strip n)) key d)).
Proof.
  intros h a n key d d0 Hs Hp Hlt Hwf. pose proof (height_bound h _ _ Hs Hp Hlt) as Hh.
  pose proof (reify_tabs (next h) h _ Hs Hh) as Et. pose proof (reify_xtwf (next h) h _ Hs Hh) as Hxt.
  destruct (stored_inv _ _ _ Hs) as (Hl & Hx & Hk).
  unfold h_prefixMismatch, h_reify. cbn [aref] in Et, Hxt.
  destruct (next h) as [|f] eqn:En.
  { pose proof (theight_pos (tabs (strip (AInner a n)))). lia. }
  rewrite (reify_inner f h a n Hl) in *.
  cbn [strip] in Et, Hwf, Hh. rewrite !tabs_inner in Et. rewrite tabs_inner in Hwf, Hh.
  injection Et as Et.
  rewrite (gen_prefixMismatch_eq (S f) _ key d d0 Hxt); rewrite Et; [reflexivity|exact Hwf|exact Hh].
Qed.

Lemma s_prefixLen_set_hdr : forall {C} v (n : xnode C),
  s_prefixLen v n = xset_hdr n (N.to_nat v) (xprefix (xh n)).
Proof. intros C v [h k ch|h k ch|h k ch|h ch]; reflexivity. Qed.

Lemma h_minimum_set_prefixLen : forall h a n v d, stored h (AInner a n) -> sep (AInner a n) ->
  (forall x, live (AInner a n) x -> (x < next h)%nat) -> WF d (tabs (strip (AInner a n))) ->
  h_minimum (h_set_prefixLen h a v) (Some a) = h_minimum h (Some a).
Proof.
  intros h a n v d Hs Hp Hlt Hwf.
  destruct (stored_inv _ _ _ Hs) as (Hl & Hx & Hk).
  destruct (sep_inv _ _ Hp) as (Hsk & Hna & _).
  pose proof (height_bound h _ _ Hs Hp Hlt) as Hh.
  unfold h_set_prefixLen. rewrite Hl.
  set (h' := store h a (HNode (s_prefixLen v (xmap aref n)))).
  unfold h_minimum, h_reify. change (next h') with (next h).
  destruct (next h) as [|f] eqn:En.
  { pose proof (theight_pos (tabs (strip (AInner a n)))). lia. }
  set (PL := N.to_nat v). set (PX := xprefix (xh n)).
  assert (Hl' : load h' a = Some (HNode (xmap aref (xset_hdr n PL PX)))).
  { subst h'. rewrite load_store_same, s_prefixLen_set_hdr, xset_hdr_xmap, xh_xmap. reflexivity. }
  rewrite (reify_inner f h a n Hl), (reify_inner f h' a _ Hl'). rewrite <- xset_hdr_xmap.
  set (g1 := fun c => reify f h (aref c)). set (g2 := fun c => reify f h' (aref c)).
  (* the first registered child *)
  cbn [strip] in Hwf, Hh. rewrite tabs_inner in Hwf, Hh.
  pose proof (WF_nenum_ne _ _ Hwf) as Hne. rewrite nenum_xabs_xmap in Hne.
  destruct (nenum (xabs n)) as [|[b0 c0] tl] eqn:Ek; [exfalso; apply Hne; reflexivity|]. clear Hne.
  assert (Hin : In (b0, c0) (kids n)) by (unfold kids; rewrite Ek; left; reflexivity).
  destruct (WF_child _ _ _ _ Hwf (kid_in_nabs n b0 c0 Hin)) as [Hwc _].
  pose proof (in_nenum_height _ _ _ (kid_in_nabs n b0 c0 Hin)) as Hhc.
  assert (Hf0 : (theight (tabs (strip c0)) <= f)%nat) by lia.
  pose proof (Hk b0 c0 Hin) as Hs0.
  assert (Hs0' : stored h' c0).
  { apply (stored_frame h h' c0 Hs0). intros x Hx0. subst h'. apply load_store_other.
    intros ->. exact (Hna b0 c0 Hin Hx0). }
  destruct (min_loop_reify f h c0 _ Hs0 Hwc Hf0) as (gk & tk & v1 & E1 & M1).
  destruct (min_loop_reify f h' c0 _ Hs0' Hwc Hf0) as (gk' & tk' & v1' & E2 & M2).
  rewrite M1 in M2. injection M2 as <- <- <-.
  (* one step at the root on both sides *)
  assert (X1 : xwf (xmap g1 n)) by (apply xwf_xmap; exact Hx).
  assert (X2' : xwf (xmap g2 n)) by (apply xwf_xmap; exact Hx).
  assert (HPX : length PX = maxPrefixLen) by (apply xwf_prefix_len; exact Hx).
  destruct (xset_hdr_xwf (xmap g2 n) PL PX X2' HPX) as (X2 & N2).
  unfold g_minimum.
  destruct (min_step (xmap g1 n) f X1) as (b1 & c1 & _ & F1 & St1).
  { rewrite nenum_xabs_xmap, Ek. discriminate. }
  destruct (min_step (xset_hdr (xmap g2 n) PL PX) f X2) as (b2 & c2 & _ & F2 & St2).
  { rewrite N2, nenum_xabs_xmap, Ek. discriminate. }
  rewrite nfirst_spec in F1 by apply X1. rewrite nenum_xabs_xmap, Ek in F1.
  cbn [map hd_error fst snd] in F1. injection F1 as <-.
  rewrite nfirst_spec in F2 by apply X2. rewrite N2, nenum_xabs_xmap, Ek in F2.
  cbn [map hd_error fst snd] in F2. injection F2 as <-.
  rewrite St1, St2. unfold g1, g2. rewrite E1, E2. reflexivity.
Qed.

(* ================= D. Insert: allocation, header writes, addChild on a stored node ================= *)
(* nothing is allocated at or above next *)
Definition hwf (h : heap) : Prop := forall x, (next h <= x)%nat -> load h x = None.
Lemma hwf_lt : forall h x, hwf h -> load h x <> None -> (x < next h)%nat.
Proof. intros h x Hw Hl. destruct (Nat.lt_ge_cases x (next h)) as [L|L]; [exact L|]. contradiction Hl. apply Hw. exact L. Qed.
Lemma hwf_store : forall h a o, hwf h -> (a < next h)%nat -> hwf (store h a o).
Proof. intros h a o Hw Ha x Hx. rewrite next_store in Hx. rewrite load_store_other by lia. apply Hw. exact Hx. Qed.
Lemma alloc_spec : forall h o, let r := alloc h o in
  fst r = next h /\ load (snd r) (next h) = Some o /\ (forall x, x <> next h -> load (snd r) x = load h x) /\
  next (snd r) = S (next h).
Proof.
  intros h o r. subst r. unfold alloc, load. cbn [fst snd cells next]. split; [reflexivity|].
  split; [rewrite Nat.eqb_refl; reflexivity|]. split; [|reflexivity].
  intros x Hx. destruct (Nat.eqb_spec x (next h)); [contradiction|reflexivity].
Qed.
Lemma hwf_alloc : forall h o, hwf h -> hwf (snd (alloc h o)).
Proof.
  intros h o Hw x Hx. destruct (alloc_spec h o) as (_ & _ & Hf & Hn). rewrite Hn in Hx.
  rewrite Hf by lia. apply Hw. lia.
Qed.
Lemma live_loaded : forall h c x, stored h c -> live c x -> load h x <> None.
Proof.
  intros h c x H. revert x. induction H as [a gk tk v Hl|a n Hl Hx Hk IH]; intros x Hlx.
  - apply live_leaf in Hlx. subst x. rewrite Hl. discriminate.
  - destruct (live_inv _ _ Hlx) as [->|(a1 & n1 & b & c & E & Hin & Hlc)]; [cbn [aref]; rewrite Hl; discriminate|].
    injection E as <- <-. apply (IH b c Hin x Hlc).
Qed.
Lemma live_lt : forall h c x, hwf h -> stored h c -> live c x -> (x < next h)%nat.
Proof. intros h c x Hw Hs Hl. apply hwf_lt; [exact Hw|eapply live_loaded; eauto]. Qed.

(* two heaps that agree outside a list of addresses *)
Definition heq_except (l : list addr) (h h' : heap) : Prop := forall x, ~ In x l -> load h' x = load h x.
Lemma heq_refl : forall l h, heq_except l h h.
Proof. intros l h x _. reflexivity. Qed.
Lemma heq_trans : forall l h1 h2 h3, heq_except l h1 h2 -> heq_except l h2 h3 -> heq_except l h1 h3.
Proof. intros l h1 h2 h3 H12 H23 x Hx. rewrite (H23 x Hx). apply H12. exact Hx. Qed.
Lemma heq_store : forall l h a o, In a l -> heq_except l h (store h a o).
Proof. intros l h a o Ha x Hx. apply load_store_other. intros ->. contradiction. Qed.
Lemma heq_alloc : forall l h o, In (next h) l -> heq_except l h (snd (alloc h o)).
Proof. intros l h o Ha x Hx. apply (proj1 (proj2 (proj2 (alloc_spec h o)))). intros ->. contradiction. Qed.

(* the node at a is the image of the annotated node N *)
Definition nodeat (h : heap) (a : addr) (N : xnode atree) : Prop := load h a = Some (HNode (xmap aref N)).
Lemma s_prefixLen_xmap : forall {A B} (f : A -> B) v n, s_prefixLen v (xmap f n) = xmap f (s_prefixLen v n).
Proof. intros. unfold s_prefixLen. rewrite xh_xmap. apply s_node_xmap. Qed.
Lemma s_prefix_xmap : forall {A B} (f : A -> B) v n, s_prefix v (xmap f n) = xmap f (s_prefix v n).
Proof. intros. unfold s_prefix. rewrite xh_xmap. apply s_node_xmap. Qed.
Lemma set_prefixLen_at : forall h a N v, nodeat h a N ->
  h_set_prefixLen h a v = store h a (HNode (xmap aref (s_prefixLen v N))).
Proof. intros h a N v H. unfold h_set_prefixLen. rewrite H, s_prefixLen_xmap. reflexivity. Qed.
Lemma set_prefix_at : forall h a N v, nodeat h a N ->
  h_set_prefix h a v = store h a (HNode (xmap aref (s_prefix v N))).
Proof. intros h a N v H. unfold h_set_prefix. rewrite H, s_prefix_xmap. reflexivity. Qed.
Lemma h_hdr_at : forall h a N, nodeat h a N -> h_hdr h a = xh N.
Proof. intros h a N H. unfold h_hdr. rewrite H. apply xh_xmap. Qed.
Lemma nodeat_store : forall h a N, nodeat (store h a (HNode (xmap aref N))) a N.
Proof. intros. apply load_store_same. Qed.

(* the pool of the model as the heap sees it, through the annotated pool *)
Lemma pool_aref : forall pm, zero_pool pm -> map_pool pm = map (xmap aref) (apool pm).
Proof.
  intros pm Hp. unfold map_pool, apool. rewrite map_map.
  rewrite (map_ext (fun x => xmap aref (xmap _ x)) (xmap (fun c => aref ((fun _ : xtree => adummy) c)))) by (intros; apply xmap_xmap).
  apply zero_map_irrel. exact Hp.
Qed.
Lemma pool_aref_back : forall (q : @pool atree), zero_pool q -> map (xmap aref) q = map_pool (map (xmap strip) q).
Proof.
  intros q Hq. unfold map_pool. rewrite map_map.
  rewrite (map_ext (fun x => xmap _ (xmap strip x)) (xmap (fun c => (fun _ : xtree => O) (strip c)))) by (intros; apply xmap_xmap).
  apply zero_map_irrel. exact Hq.
Qed.

(* addChild on the annotated node: the three readings agree (naturality), the result is xwf with one more kid *)
Lemma xadd_three : forall (N : xnode atree) b c os pm, xwf N -> zero_pool pm -> b < 256 -> assoc b (kids N) = None ->
  let r := xadd N b c os (apool pm) in
  xadd (xmap aref N) b (aref c) os (map_pool pm) = (xmap aref (fst r), map_pool (snd (xadd (xmap strip N) b (strip c) os pm))) /\
  fst (xadd (xmap strip N) b (strip c) os pm) = xmap strip (fst r) /\
  zero_pool (snd (xadd (xmap strip N) b (strip c) os pm)) /\
  xwf (fst r) /\ kids (fst r) = ins_sorted b c (kids N).
Proof.
  intros N b c os pm Hx Hp Hb Ha r. subst r.
  pose proof (xadd_xmap aref N b c os (apool pm)) as NA. pose proof (xadd_xmap strip N b c os (apool pm)) as NS.
  rewrite (apool_strip _ Hp) in NS. rewrite <- (pool_aref _ Hp) in NA.
  pose proof (xadd_pool_zero N b c os (apool pm) (apool_zero _ Hp)) as Hz.
  destruct (xadd_sim N b c os (apool pm) Hx (apool_zero _ Hp) Hb Ha) as (Eabs & Hx').
  destruct (nadd_spec (xabs N) b c (proj2 (proj2 Hx)) Hb Ha) as (_ & En & _).
  rewrite NA, NS. cbn [fst snd]. rewrite (pool_aref_back _ Hz).
  split; [reflexivity|]. split; [reflexivity|]. split; [apply zero_pool_map; exact Hz|]. split; [exact Hx'|].
  unfold kids. rewrite Eabs. exact En.
Qed.

(* ref.addChild(b, child) with *ref the node at a *)
Lemma addChild_step : forall h root ref a N b c os pm,
  slot_read h root ref = Some (Some a) -> nodeat h a N -> xwf N -> zero_pool pm -> b < 256 -> assoc b (kids N) = None ->
  h_addChild h root ref b (Some (aref c)) os (map_pool pm) =
    Some (store h a (HNode (xmap aref (fst (xadd N b c os (apool pm))))), skipn (xadd_gets (xmap strip N)) os,
          map_pool (snd (xadd (xmap strip N) b (strip c) os pm))).
Proof.
  intros h root ref a N b c os pm Hrd Hat Hx Hp Hb Ha.
  destruct (xadd_three N b c os pm Hx Hp Hb Ha) as (E1 & _).
  unfold h_addChild. rewrite Hrd, Hat.
  rewrite gen_addChild_eq.
  - rewrite E1. rewrite xadd_gets_xmap, <- (xadd_gets_xmap strip N). reflexivity.
  - rewrite shape_ok_xmap. apply Hx.
  - apply zero_pool_shapes. unfold map_pool. apply zero_pool_map. exact Hp.
  - pose proof (add_hyps_from_xwf N Hx) as Hh. destruct N; exact Hh.
Qed.

(* n4.addChild(ref, b, child) with n4 the node4 at a and *ref = n4 *)
Lemma node4_addChild_step : forall h root ref a N b c os pm,
  slot_read h root ref = Some (Some a) -> nodeat h a N -> xkind N = K4 -> xwf N -> zero_pool pm -> b < 256 ->
  assoc b (kids N) = None ->
  h_node4_addChild h root a ref b (Some (aref c)) os (map_pool pm) =
    Some (store h a (HNode (xmap aref (fst (xadd N b c os (apool pm))))), skipn (xadd_gets (xmap strip N)) os,
          map_pool (snd (xadd (xmap strip N) b (strip c) os pm))).
Proof.
  intros h root ref a N b c os pm Hrd Hat Hk Hx Hp Hb Ha.
  destruct (xadd_three N b c os pm Hx Hp Hb Ha) as (E1 & _).
  unfold h_node4_addChild. rewrite Hrd, Nat.eqb_refl, Hat, xkind_xmap, Hk.
  destruct N as [hd keys ch|hd keys ch|hd keys ch|hd ch]; try discriminate Hk. cbn [xmap] in *.
  rewrite gen_node4_addChild_eq.
  - cbn [xadd] in E1. rewrite E1. reflexivity.
  - change (shape_ok (xmap aref (X4 hd keys ch)) = true). rewrite shape_ok_xmap. apply Hx.
  - apply zero_pool_shapes. unfold map_pool. apply zero_pool_map. exact Hp.
  - destruct (xwf4_inv _ _ _ Hx) as (_ & _ & Hl & _). change maxNode4 with 4. lia.
Qed.

(* a node4 with room stays a node4 *)
Lemma xadd4_kind : forall {C} (N : xnode C) b c os p, xkind N = K4 -> xlen (xh N) < maxNode4 ->
  xkind (fst (xadd N b c os p)) = K4 /\ xlen (xh (fst (xadd N b c os p))) = u8 (xlen (xh N) + 1).
Proof.
  intros C [hd keys ch|hd keys ch|hd keys ch|hd ch] b c os p Hk Hl; try discriminate Hk.
  cbn [xadd xh] in *. unfold xadd4. replace (xlen hd <? maxNode4) with true by lia.
  destruct (_ =? -1)%Z; cbn [fst xkind xh xlen w_len]; auto.
Qed.

(* the outcome of the loop of Insert on the subtree cur held in *ref against the model's xinsert *)
Definition ins_ok (size : Z) (os : list choice) (pm : xpool) (h : heap) (root : href) (ref : slot) (cur : atree)
                  (r : mres unit) (m : xires * list choice * xpool) : Prop :=
  match r with
  | MDone h' root' size' os' p' _ =>
    match fst (fst m) with
    | XIDone t' added => size' = (if added then size + 1 else size)%Z /\ os' = snd (fst m) /\ p' = map_pool (snd m) /\
        zero_pool (snd m) /\ hwf h' /\
        exists cur', strip cur' = t' /\ stored h' cur' /\ sep cur' /\
                     (forall x, live cur' x -> live cur x \/ (next h <= x)%nat) /\
                     framed h root h' root' ref cur (Some (aref cur'))
    | _ => False
    end
  | MPanic => fst (fst m) = XIPanic
  | MFuel => fst (fst m) = XIFuel
  end.

Lemma ins_up : forall size os pm h root ref a n b c i R M,
  hwf h -> stored h (AInner a n) -> sep (AInner a n) -> slot_read h root ref = Some (Some a) -> slot_out ref (AInner a n) ->
  b < 256 -> In (b, c) (kids n) -> nth_error (xch n) i = Some (Some c) ->
  (forall c', xreplace n b c' = s_children (set_at i (Some c') (xch n)) n) ->
  ins_ok size os pm h root (SCell a i) c R M ->
  ins_ok size os pm h root ref (AInner a n) R
    (match fst (fst M) with XIDone c' added => (XIDone (XInner (xreplace (xmap strip n) b c')) added, snd (fst M), snd M) | _ => M end).
Proof.
  intros size os pm h root ref a n b c i R M Hw Hst Hsep Hrd Hout Hb Hin Hnth Hrep Hok.
  destruct (stored_inv _ _ _ Hst) as (Hl & Hx & Hk). destruct (sep_inv _ _ Hsep) as (S1 & S2 & S3).
  destruct R as [h' root' size' os' p' ret| |]; destruct M as [[res osm] pmm]; cbn [ins_ok fst snd] in *;
    destruct res as [t' added| |]; cbn [fst snd]; try exact Hok; try discriminate Hok.
  destruct Hok as (-> & -> & -> & Hzp & Hw' & cur' & <- & Hst' & Hsep' & Hsub & Hfr).
  split; [reflexivity|]. split; [reflexivity|]. split; [reflexivity|]. split; [exact Hzp|]. split; [exact Hw'|].
  destruct Hfr as (Hnx & -> & Hframe & nd & Hla & Hlt & Hla').
  rewrite Hl in Hla. injection Hla as <-.
  assert (Ha : assoc b (nenum (xabs n)) <> None) by (pose proof (kid_assoc n b c Hx Hin) as E; unfold kids in E; rewrite E; discriminate).
  destruct (xreplace_xwf n b cur' Hx Hb Ha) as (Hxr & Ekr & _).
  assert (Hkr : forall b1 c1, In (b1, c1) (kids (xreplace n b cur')) ->
                  (b1 = b /\ c1 = cur') \/ (b1 <> b /\ In (b1, c1) (kids n))).
  { intros b1 c1 H1. pose proof (kid_assoc _ _ _ Hxr H1) as A1. unfold kids in A1. rewrite Ekr in A1.
    destruct (N.eq_dec b1 b) as [->|Hne].
    - rewrite assoc_repl_key_same in A1 by exact Ha. injection A1 as <-. left. auto.
    - rewrite assoc_repl_key_other in A1 by exact Hne. right. split; [exact Hne|]. apply assoc_in. exact A1. }
  assert (Hlc : forall x, live c x -> live (AInner a n) x) by (intros x Hx0; eapply live_kid; eauto).
  assert (Hlt_old : forall x, live (AInner a n) x -> (x < next h)%nat) by (intros x Hx0; eapply live_lt; eauto).
  assert (Hframe' : forall x, (x < next h \/ next h' <= x)%nat -> ~ live c x -> x <> a -> load h' x = load h x).
  { intros x H0 H1 H2. apply Hframe; assumption. }
  exists (AInner a (xreplace n b cur')). split; [cbn [strip]; rewrite xreplace_xmap; reflexivity|].
  split; [|split; [|split]].
  - constructor.
    + rewrite Hla'. rewrite xch_xmap. change (Some (aref cur')) with (omap aref (Some cur')).
      unfold href. rewrite <- (map_set_at (omap aref) i (Some cur') (xch n)), s_children_xmap, <- Hrep. reflexivity.
    + exact Hxr.
    + intros b1 c1 H1. destruct (Hkr _ _ H1) as [(-> & ->)|(Hne & Hin1)]; [exact Hst'|].
      apply (stored_frame h); [apply (Hk _ _ Hin1)|]. intros x Hlx. apply Hframe'.
      * left. apply Hlt_old. eapply live_kid; eauto.
      * intros Hcx. exact (S3 b1 c1 b c x Hin1 Hin Hne Hlx Hcx).
      * intros ->. exact (S2 _ _ Hin1 Hlx).
  - assert (Hnew : forall x, live cur' x -> live c x \/ (next h <= x)%nat) by exact Hsub.
    constructor.
    + intros b1 c1 H1. destruct (Hkr _ _ H1) as [(-> & ->)|(Hne & Hin1)]; [exact Hsep'|apply (S1 _ _ Hin1)].
    + intros b1 c1 H1 Hla1. destruct (Hkr _ _ H1) as [(-> & ->)|(Hne & Hin1)].
      * destruct (Hnew _ Hla1) as [L|L]; [exact (S2 _ _ Hin L)|].
        pose proof (Hlt_old a (live_root (AInner a n))). lia.
      * exact (S2 _ _ Hin1 Hla1).
    + intros b1 c1 b2 c2 x H1 H2 Hne L1 L2.
      destruct (Hkr _ _ H1) as [(-> & ->)|(Hne1 & Hin1)]; destruct (Hkr _ _ H2) as [(-> & ->)|(Hne2 & Hin2)].
      * contradiction.
      * destruct (Hnew _ L1) as [L|L]; [exact (S3 b c b2 c2 x Hin Hin2 Hne L L2)|].
        pose proof (Hlt_old x (live_kid _ _ _ _ _ Hin2 L2)). lia.
      * destruct (Hnew _ L2) as [L|L]; [exact (S3 b1 c1 b c x Hin1 Hin Hne L1 L)|].
        pose proof (Hlt_old x (live_kid _ _ _ _ _ Hin1 L1)). lia.
      * exact (S3 b1 c1 b2 c2 x Hin1 Hin2 Hne L1 L2).
  - intros x Hlx. destruct (live_inv _ _ Hlx) as [->|(a1 & n1 & b1 & c1 & E & H1 & L1)]; [left; apply (live_root (AInner a n))|].
    injection E as <- <-. destruct (Hkr _ _ H1) as [(-> & ->)|(Hne & Hin1)].
    + destruct (Hsub _ L1) as [L|L]; [left; apply Hlc; exact L|right; exact L].
    + left. eapply live_kid; eauto.
  - cbn [aref]. split; [exact Hnx|].
    assert (Hroot : forall x, (x < next h \/ next h' <= x)%nat -> ~ live (AInner a n) x -> load h' x = load h x).
    { intros x H0 Hx0. apply Hframe'; [exact H0|intros Hc; apply Hx0; apply Hlc; exact Hc|].
      intros ->. apply Hx0. apply (live_root (AInner a n)). }
    destruct ref as [| |a0 i0]; cbn [slot_out] in Hout; [contradiction| |].
    + cbn [slot_read] in Hrd. injection Hrd as ->. split; [reflexivity|]. exact Hroot.
    + destruct (slot_read_inv _ _ _ _ _ Hrd) as (nd0 & Hl0 & Hn0 & Hlt0).
      split; [reflexivity|]. split; [intros x H0 Hx0 _; apply Hroot; assumption|].
      exists nd0. split; [exact Hl0|]. split; [exact Hlt0|].
      unfold href. replace (set_at i0 (Some a) (xch nd0)) with (xch nd0) by (symmetry; apply set_at_same; exact Hn0).
      rewrite s_children_id, (Hroot a0); [exact Hl0| |exact Hout].
      left. apply hwf_lt; [exact Hw|rewrite Hl0; discriminate].
Qed.

(* ---- small facts about the vocabulary ---- *)
Lemma u32_of_nat : forall k, (N.of_nat k < M32) -> u32_of_int (Z.of_nat k) = N.of_nat k.
Proof. intros k H. unfold u32_of_int. unfold M32 in H. rewrite Z.mod_small by lia. lia. Qed.
Lemma mk_leaf_full : forall gk tk v, N.of_nat (length gk) < M32 -> N.of_nat (length tk) < M32 ->
  h_mk_leaf gk (u32_of_int (Z.of_nat (length gk))) tk (u32_of_int (Z.of_nat (length tk))) v = HLeaf gk tk v.
Proof.
  intros gk tk v Hg Ht. unfold h_mk_leaf. rewrite !u32_of_nat by assumption. rewrite !Nat2N.id, !firstn_all. reflexivity.
Qed.
Lemma slice_from_nat : forall l d, (d <= length l)%nat -> slice_from l (Z.of_nat d) = Some (skipn d l).
Proof.
  intros l d H. unfold slice_from. replace (Z.of_nat d <? 0)%Z with false by lia.
  replace (Z.of_nat (length l) <? Z.of_nat d)%Z with false by lia. cbn [orb]. rewrite Nat2Z.id. reflexivity.
Qed.
Lemma get_zero4 : forall os pm, zero_pool pm ->
  Pool.get (Pool.nxt os) K4 (map_pool pm) = (xzero K4, map_pool (snd (Pool.get (Pool.nxt os) K4 pm))) /\
  fst (Pool.get (Pool.nxt os) K4 pm) = xzero K4 /\ zero_pool (snd (Pool.get (Pool.nxt os) K4 pm)).
Proof.
  intros os pm Hp. unfold map_pool. rewrite get_xmap, (get_oracle_irrelevant _ _ _ Hp), xzero_xmap.
  split; [reflexivity|]. split; [reflexivity|apply get_pool_zero; exact Hp].
Qed.

(* *ref = v on a heap that still has the cell of ref as it was *)
Lemma slot_write_gen : forall h h1 root ref r0 r',
  slot_read h root ref = Some r0 -> match ref with SCell a0 _ => load h1 a0 = load h a0 | _ => True end ->
  exists h' root', slot_write h1 root ref r' = Some (h', root') /\
    match ref with
    | SNil => False
    | SRoot => h' = h1 /\ root' = r'
    | SCell a0 i0 => root' = root /\ exists nd, load h a0 = Some (HNode nd) /\ (i0 < length (xch nd))%nat /\
                       h' = store h1 a0 (HNode (s_children (set_at i0 r' (xch nd)) nd))
    end.
Proof.
  intros h h1 root ref r0 r' Hrd Hsame. destruct ref as [| |a0 i0]; [discriminate Hrd| |].
  - exists h1, r'. auto.
  - destruct (slot_read_inv _ _ _ _ _ Hrd) as (nd & Hl & _ & Hlt).
    cbn [slot_write]. rewrite Hsame, Hl. replace (i0 <? length (xch nd))%nat with true by (symmetry; apply Nat.ltb_lt; exact Hlt).
    eexists _, _. split; [reflexivity|]. split; [reflexivity|]. exists nd. auto.
Qed.

(* the new node4 of a split: zero, then its two header fields *)
Lemma new4_node : forall pl src os pm, zero_pool pm ->
  fst (xnew4 pl src os (apool pm)) = X4 (w_prefix (gcopy 0 src (xprefix xhdr0)) (w_plen pl xhdr0)) 0 (repeat None 4) /\
  fst (xnew4 pl src os pm) = xmap strip (fst (xnew4 pl src os (apool pm))) /\
  snd (xnew4 pl src os pm) = snd (Pool.get (Pool.nxt os) K4 pm) /\
  xwf (fst (xnew4 pl src os (apool pm))) /\ kids (fst (xnew4 pl src os (apool pm))) = [].
Proof.
  intros pl src os pm Hp.
  pose proof (xnew4_xmap strip pl src os (apool pm)) as NS. rewrite (apool_strip _ Hp) in NS.
  destruct (xnew4_sim pl src os (apool pm) (apool_zero _ Hp)) as (Eabs & Hx).
  split; [|split; [rewrite NS; reflexivity|split; [reflexivity|split; [exact Hx|]]]].
  - unfold xnew4. rewrite (get_oracle_irrelevant _ _ _ (apool_zero _ Hp)). reflexivity.
  - unfold kids. rewrite Eabs. reflexivity.
Qed.

(* a new inner node at a fresh address whose kids are stored, separated and away from it *)
Lemma assemble_new : forall hf a' N (Old : addr -> Prop) lim,
  nodeat hf a' N -> xwf N -> (lim <= a')%nat ->
  (forall b c, In (b, c) (kids N) -> stored hf c /\ sep c /\ ~ live c a' /\ (forall x, live c x -> Old x \/ (lim <= x)%nat)) ->
  (forall b1 c1 b2 c2 x, In (b1, c1) (kids N) -> In (b2, c2) (kids N) -> b1 <> b2 -> live c1 x -> live c2 x -> False) ->
  stored hf (AInner a' N) /\ sep (AInner a' N) /\ (forall x, live (AInner a' N) x -> Old x \/ (lim <= x)%nat).
Proof.
  intros hf a' N Old lim Hat Hx Hlim Hk Hdis. split; [|split].
  - constructor; [exact Hat|exact Hx|]. intros b c Hin. apply (Hk b c Hin).
  - constructor; [intros b c Hin; apply (Hk b c Hin)|intros b c Hin; apply (Hk b c Hin)|exact Hdis].
  - intros x Hl. destruct (live_inv _ _ Hl) as [->|(a1 & n1 & b & c & E & Hin & Hlc)]; [right; exact Hlim|].
    injection E as <- <-. apply (proj2 (proj2 (proj2 (Hk b c Hin)))). exact Hlc.
Qed.

(* ---- the state while a split fills its new node4 at a' (held in *ref) ---- *)
Definition ref_away (ref : slot) (a' : addr) : Prop := match ref with SCell a0 _ => a0 <> a' | _ => True end.
Record split_st (ref : slot) (a' : addr) (hk : heap) (rootk : href) (Nk : xnode atree) (pmk : xpool) : Prop := {
  ss_w : hwf hk;
  ss_lt : (a' < next hk)%nat;
  ss_rd : slot_read hk rootk ref = Some (Some a');
  ss_at : nodeat hk a' Nk;
  ss_k4 : xkind Nk = K4;
  ss_x : xwf Nk;
  ss_p : zero_pool pmk }.

Lemma slot_read_store_other : forall h root ref a o, ref_away ref a -> slot_read (store h a o) root ref = slot_read h root ref.
Proof.
  intros h root ref a o Haw. destruct ref as [| |a0 i0]; try reflexivity. cbn [slot_read ref_away] in *.
  rewrite load_store_other by exact Haw. reflexivity.
Qed.

(* newNode.addChild(ref, b, c) in that state *)
Lemma split_add : forall ref a' hk rootk Nk pmk osk b c,
  split_st ref a' hk rootk Nk pmk -> ref_away ref a' -> xlen (xh Nk) < maxNode4 -> b < 256 -> assoc b (kids Nk) = None ->
  let Nk' := fst (xadd Nk b c osk (apool pmk)) in
  let pmk' := snd (xadd (xmap strip Nk) b (strip c) osk pmk) in
  let hk' := store hk a' (HNode (xmap aref Nk')) in
  h_node4_addChild hk rootk a' ref b (Some (aref c)) osk (map_pool pmk) =
    Some (hk', skipn (xadd_gets (xmap strip Nk)) osk, map_pool pmk') /\
  split_st ref a' hk' rootk Nk' pmk' /\
  fst (xadd (xmap strip Nk) b (strip c) osk pmk) = xmap strip Nk' /\
  kids Nk' = ins_sorted b c (kids Nk) /\ xlen (xh Nk') = u8 (xlen (xh Nk) + 1).
Proof.
  intros ref a' hk rootk Nk pmk osk b c [Hw Hlt Hrd Hat Hk4 Hx Hp] Haw Hlen Hb Ha Nk' pmk' hk'. subst Nk' pmk' hk'.
  destruct (xadd_three Nk b c osk pmk Hx Hp Hb Ha) as (_ & E2 & Hz & Hx' & Ek).
  destruct (xadd4_kind Nk b c osk (apool pmk) Hk4 Hlen) as (Hk4' & Hl').
  split; [apply node4_addChild_step; assumption|]. split; [|split; [exact E2|split; [exact Ek|exact Hl']]].
  constructor; try assumption.
  - apply hwf_store; assumption.
  - rewrite slot_read_store_other by exact Haw. exact Hrd.
  - apply nodeat_store.
Qed.

(* createLeaf() in that state *)
Lemma split_alloc : forall ref a' hk rootk Nk pmk o,
  split_st ref a' hk rootk Nk pmk ->
  split_st ref a' (snd (alloc hk o)) rootk Nk pmk /\ load (snd (alloc hk o)) (next hk) = Some o /\
  (forall x, x <> next hk -> load (snd (alloc hk o)) x = load hk x) /\ next (snd (alloc hk o)) = S (next hk).
Proof.
  intros ref a' hk rootk Nk pmk o [Hw Hlt Hrd Hat Hk4 Hx Hp].
  destruct (alloc_spec hk o) as (_ & Hl & Hf & Hn). split; [|auto].
  constructor; try assumption.
  - apply hwf_alloc. exact Hw.
  - rewrite Hn. lia.
  - destruct ref as [| |a0 i0]; try exact Hrd. cbn [slot_read] in *.
    destruct (load hk a0) as [o0|] eqn:E0; [|discriminate Hrd].
    rewrite Hf by (intros ->; rewrite (Hw (next hk)) in E0 by lia; discriminate). rewrite E0. exact Hrd.
  - unfold nodeat. rewrite Hf by lia. exact Hat.
Qed.

(* the cell *ref after the split linked the new node a' in it, in the final heap *)
Definition cell_set (h : heap) (root : href) (ref : slot) (a' : addr) (rootf : href) (hf : heap) : Prop :=
  match ref with
  | SNil => False
  | SRoot => rootf = Some a'
  | SCell a0 i0 => rootf = root /\ exists nd, load h a0 = Some (HNode nd) /\ (i0 < length (xch nd))%nat /\
                     load hf a0 = Some (HNode (s_children (set_at i0 (Some a') (xch nd)) nd))
  end.
Definition ref_addr_ne (ref : slot) (x : addr) : Prop := match ref with SCell a0 _ => x <> a0 | _ => True end.

Lemma split_done : forall size os pm h root ref cur hf rootf N2 os2 pm2 (added : bool),
  hwf h -> slot_out ref cur ->
  cell_set h root ref (next h) rootf hf ->
  (forall x, (x < next h)%nat -> ~ live cur x -> ref_addr_ne ref x -> load hf x = load h x) ->
  split_st ref (next h) hf rootf N2 pm2 ->
  (forall b c, In (b, c) (kids N2) -> stored hf c /\ sep c /\ ~ live c (next h) /\
                                       (forall x, live c x -> live cur x \/ (next h <= x)%nat)) ->
  (forall b1 c1 b2 c2 x, In (b1, c1) (kids N2) -> In (b2, c2) (kids N2) -> b1 <> b2 -> live c1 x -> live c2 x -> False) ->
  ins_ok size os pm h root ref cur
    (MDone hf rootf (if added then size + 1 else size)%Z os2 (map_pool pm2) tt)
    (XIDone (XInner (xmap strip N2)) added, os2, pm2).
Proof.
  intros size os pm h root ref cur hf rootf N2 os2 pm2 added Hw Hout Hcs Hfr [Hwf Hlt Hrdf Hat Hk4 Hx Hp] Hk Hdis.
  cbn [ins_ok fst snd]. split; [reflexivity|]. split; [reflexivity|]. split; [reflexivity|]. split; [exact Hp|]. split; [exact Hwf|].
  destruct (assemble_new hf (next h) N2 (live cur) (next h) Hat Hx (Nat.le_refl _) Hk Hdis) as (T1 & T2 & T3).
  exists (AInner (next h) N2). split; [reflexivity|]. split; [exact T1|]. split; [exact T2|]. split; [exact T3|].
  cbn [aref]. split; [lia|].
  assert (Hfar : forall x, (next hf <= x)%nat -> load hf x = load h x).
  { intros x Hx0. rewrite (Hwf x Hx0). symmetry. apply Hw. lia. }
  destruct ref as [| |a0 i0]; cbn [cell_set slot_out ref_addr_ne] in *; [contradiction| |].
  - split; [exact Hcs|]. intros x [L|L] Hnl; [apply Hfr; auto|apply Hfar; exact L].
  - destruct Hcs as (-> & nd & Hl0 & Hlt0 & Hlf). split; [reflexivity|]. split.
    + intros x [L|L] Hnl Hne; [apply Hfr; auto|apply Hfar; exact L].
    + exists nd. auto.
Qed.

(* ---- the leaf split: the block of the generated loop from "leafKey := nl.getTransformKey()" on ---- *)
Definition leaf_split_block (gk tk : list N) (val : Z) (h : heap) (root : href) (size : Z) (os : list choice) (p : hpool)
                            (ref : slot) (n : href) (depth : Z) (nl : addr) : mres unit :=
  let leafKey := h_leaf_tk h nl in
  let '(nn, p) := Pool.get (Pool.nxt os) K4 p in
  let os := tl os in
  let '(newNode, h) := alloc h (HNode nn) in
  match g_longestCommonPrefix leafKey tk depth with
  | GRet r_2 =>
  let longestPrefix := r_2 in
  let h := h_set_prefixLen h newNode (u32_of_int longestPrefix) in
  match slice_from tk depth with None => MPanic | Some v_6 =>
  let h := h_set_prefix h newNode (gcopy 0 v_6 (h_prefix h newNode)) in
  match slot_write h root ref (Some newNode) with None => MPanic | Some (h, root) =>
  let splitPrefix := Z.add depth longestPrefix in
  let k2 := fun (h : heap) (root : href) (size : Z) (os : list choice) (p : hpool) =>
    let k1 := fun (h : heap) (root : href) (size : Z) (os : list choice) (p : hpool) =>
      let size := Z.add size 1%Z in
      MDone h root size os p tt in
    if Z.ltb splitPrefix (Z.of_nat (List.length tk)) then (
      let '(l, h) := alloc h (h_mk_leaf gk (u32_of_int (Z.of_nat (List.length gk))) tk (u32_of_int (Z.of_nat (List.length tk))) val) in
      let leafRef := Some l in
      match GoTree.idx_bytes tk splitPrefix with None => MPanic | Some v_7 =>
      match h_node4_addChild h root newNode ref v_7 leafRef os p with None => MPanic | Some (h, os, p) =>
      k1 h root size os p
      end
      end
    ) else (
      k1 h root size os p
    ) in
  if Z.ltb splitPrefix (Z.of_nat (List.length leafKey)) then (
    match GoTree.idx_bytes leafKey splitPrefix with None => MPanic | Some v_8 =>
    match h_node4_addChild h root newNode ref v_8 n os p with None => MPanic | Some (h, os, p) =>
    k2 h root size os p
    end
    end
  ) else (
    k2 h root size os p
  )
  end
  end
  | GPanic => MPanic
  | GFuel => MFuel
  end.

Lemma leaf_split_ok : forall gk tk val h root size os pm ref a gk0 tk0 v0 d f,
  hwf h -> stored h (ALeaf a gk0 tk0 v0) -> slot_read h root ref = Some (Some a) -> slot_out ref (ALeaf a gk0 tk0 v0) ->
  zero_pool pm -> isbytes tk0 = true -> isbytes tk = true -> (d <= length tk)%nat ->
  N.of_nat (length gk) < M32 -> N.of_nat (length tk) < M32 -> beq gk gk0 = false ->
  ins_ok size os pm h root ref (ALeaf a gk0 tk0 v0)
    (leaf_split_block gk tk val h root size os (map_pool pm) ref (Some a) (Z.of_nat d) a)
    (xinsert (S f) (XLeaf gk0 tk0 v0) gk tk val d os pm).
Proof.
  intros gk tk val h root size os pm ref a gk0 tk0 v0 d f Hw Hst Hrd Hout Hzp Hb0 Hbt Hd Hlg Hlt Hne.
  destruct (h_cast_leaf_stored _ _ _ _ _ Hst) as (_ & _ & Etk).
  destruct (get_zero4 os pm Hzp) as (Eg & Eg1 & Hz0).
  unfold leaf_split_block. rewrite Etk, Eg. cbv beta iota zeta.
  rewrite (surjective_pairing (alloc h (HNode (xzero K4)))). cbv beta iota zeta.
  destruct (alloc_spec h (HNode (xzero K4))) as (Ea & Hla & Hfa & Hna).
  set (h1 := snd (alloc h (HNode (xzero K4)))) in *. rewrite Ea. set (a' := next h) in *.
  rewrite gen_longestCommonPrefix_eq. set (lp := longestCommonPrefix tk0 tk d).
  assert (Hlp : (lp <= length tk)%nat).
  { subst lp. unfold longestCommonPrefix. pose proof (lcpn_le (Nat.min (length tk0) (length tk) - d) (skipn d tk0) (skipn d tk)). lia. }
  rewrite (u32_of_nat lp) by lia. rewrite (slice_from_nat tk d Hd).
  destruct (new4_node lp (skipn d tk) os pm Hzp) as (EN0 & ES0 & EP0 & HxN0 & HkN0).
  set (N0 := fst (xnew4 lp (skipn d tk) os (apool pm))) in *.
  assert (A0 : nodeat h1 a' (xzero K4)) by (unfold nodeat; rewrite Hla, xzero_xmap; reflexivity).
  rewrite (set_prefixLen_at h1 a' _ _ A0).
  set (h2 := store h1 a' (HNode (xmap aref (s_prefixLen (N.of_nat lp) (xzero K4))))).
  assert (A1 : nodeat h2 a' (s_prefixLen (N.of_nat lp) (xzero K4))) by apply nodeat_store.
  unfold h_prefix. rewrite (h_hdr_at _ _ _ A1), (set_prefix_at h2 a' _ _ A1).
  replace (s_prefix (gcopy 0 (skipn d tk) (xprefix (xh (s_prefixLen (N.of_nat lp) (xzero K4))))) (s_prefixLen (N.of_nat lp) (xzero K4)))
    with N0.
  2:{ rewrite EN0. cbn [xzero s_prefixLen s_prefix s_node xh]. unfold hs_prefix, hs_prefixLen. rewrite Nat2N.id. reflexivity. }
  set (h3 := store h2 a' (HNode (xmap aref N0))).
  assert (A3 : nodeat h3 a' N0) by apply nodeat_store.
  assert (Hlt' : forall x, load h x <> None -> x <> a') by (intros x Hx0 ->; apply Hx0; apply Hw; subst a'; lia).
  assert (H3same : forall x, x <> a' -> load h3 x = load h x).
  { intros x Hx0. subst h3 h2. rewrite !load_store_other by exact Hx0. apply Hfa. exact Hx0. }
  destruct (slot_write_gen h h3 root ref (Some a) (Some a') Hrd) as (h4 & root4 & Ew & Hw4).
  { destruct ref as [| |a0 i0]; [exact I|exact I|]. apply H3same. apply Hlt'.
    destruct (slot_read_inv _ _ _ _ _ Hrd) as (nd & Hl0 & _). rewrite Hl0. discriminate. }
  rewrite Ew. clear Ew.
  assert (Ha_lt : (a < next h)%nat) by (apply (live_lt h _ a Hw Hst); apply (live_root (ALeaf a gk0 tk0 v0))).
  assert (Haw : ref_away ref a').
  { destruct ref as [| |a0 i0]; cbn [ref_away]; try exact I. apply Hlt'.
    destruct (slot_read_inv _ _ _ _ _ Hrd) as (nd & Hl0 & _). rewrite Hl0. discriminate. }
  assert (Hw3 : hwf h3).
  { subst h3 h2. apply hwf_store; [apply hwf_store; [apply hwf_alloc; exact Hw|]|]; rewrite ?next_store; fold h1; rewrite Hna; subst a'; lia. }
  assert (Hn3 : next h3 = S (next h)) by (subst h3 h2; rewrite !next_store; exact Hna).
  set (pm0 := snd (get (nxt os) K4 pm)) in *.
  assert (S4 : split_st ref a' h4 root4 N0 pm0 /\ cell_set h root ref a' root4 h4 /\
               (forall x, (x < next h)%nat -> ref_addr_ne ref x -> load h4 x = load h x) /\ next h4 = S (next h)).
  { destruct ref as [| |a0 i0]; cbn [cell_set ref_addr_ne ref_away] in *; [contradiction| |].
    - destruct Hw4 as (-> & ->). split; [|split; [reflexivity|split; [|exact Hn3]]].
      + constructor; try assumption; [lia|reflexivity|rewrite EN0; reflexivity].
      + intros x Hx0 _. apply H3same. subst a'. lia.
    - destruct Hw4 as (-> & nd & Hl0 & Hlt0 & ->).
      assert (Ha0 : (a0 < next h)%nat) by (apply hwf_lt; [exact Hw|rewrite Hl0; discriminate]).
      split; [|split; [|split; [|rewrite next_store; exact Hn3]]].
      + constructor; try assumption.
        * apply hwf_store; [exact Hw3|lia].
        * rewrite next_store. lia.
        * cbn [slot_read]. rewrite load_store_same, xch_s_children. apply nth_error_set_at_eq. exact Hlt0.
        * unfold nodeat. rewrite load_store_other by (intros E; apply Haw; symmetry; exact E). exact A3.
        * rewrite EN0. reflexivity.
      + split; [reflexivity|]. exists nd. split; [exact Hl0|]. split; [exact Hlt0|apply load_store_same].
      + intros x Hx0 Hnq. rewrite load_store_other by exact Hnq. apply H3same. subst a'. lia. }
  destruct S4 as (S4 & C4 & F4 & Hn4).
  assert (Hl0z : xlen (xh N0) = 0) by (rewrite EN0; reflexivity).
  (* what the final heap must keep, and what it gives *)
  assert (Hfin : forall hf, (forall x, (x < next h)%nat -> load hf x = load h4 x) ->
            cell_set h root ref a' root4 hf /\
            (forall x, (x < next h)%nat -> ~ live (ALeaf a gk0 tk0 v0) x -> ref_addr_ne ref x -> load hf x = load h x) /\
            (stored hf (ALeaf a gk0 tk0 v0) /\ sep (ALeaf a gk0 tk0 v0) /\ ~ live (ALeaf a gk0 tk0 v0) a' /\
             (forall x, live (ALeaf a gk0 tk0 v0) x -> live (ALeaf a gk0 tk0 v0) x \/ (next h <= x)%nat))).
  { intros hf G1. split; [|split].
    - destruct ref as [| |a0 i0]; cbn [cell_set] in *; [contradiction|exact C4|].
      destruct C4 as (-> & nd & Hl0 & Hlt0 & Hl4). split; [reflexivity|]. exists nd. split; [exact Hl0|]. split; [exact Hlt0|].
      rewrite G1; [exact Hl4|]. apply hwf_lt; [exact Hw|rewrite Hl0; discriminate].
    - intros x Hx0 _ Hnq. rewrite G1 by exact Hx0. apply F4; assumption.
    - split; [|split; [constructor|split; [|auto]]].
      + constructor. rewrite G1 by exact Ha_lt. rewrite F4; [exact (stored_load _ _ Hst)|exact Ha_lt|].
        destruct ref as [| |a0 i0]; cbn [ref_addr_ne slot_out] in *; try exact I.
        intros ->. apply Hout. apply (live_root (ALeaf a0 gk0 tk0 v0)).
      + intros Hl. apply live_leaf in Hl. subst a'. lia. }
  (* the model *)
  cbn [xinsert]. rewrite Hne. fold lp. rewrite ES0, EP0. fold pm0.
  rewrite <- !Nat2Z.inj_add, !idx_bytes_nat.
  set (curL := ALeaf a gk0 tk0 v0) in *.
  rewrite (mk_leaf_full gk tk val Hlg Hlt).
  destruct (nth_error tk0 (d + lp)) as [b1|] eqn:E1.
  - replace (Z.of_nat (d + lp) <? Z.of_nat (length tk0))%Z with true
      by (symmetry; apply Z.ltb_lt; assert (d + lp < length tk0)%nat by (apply nth_error_Some; rewrite E1; discriminate); lia).
    assert (Hb1 : b1 < 256) by (apply (nth_byte _ _ _ Hb0 E1)).
    destruct (split_add ref a' h4 root4 N0 pm0 (tl os) b1 curL S4 Haw) as (Ead1 & S5 & EX1 & Ek1 & El1);
      [rewrite Hl0z; reflexivity|exact Hb1|rewrite HkN0; reflexivity|].
    cbv zeta in Ead1. cbn [aref curL] in Ead1. rewrite Ead1. cbv beta iota zeta.
    set (N1 := fst (xadd N0 b1 curL (tl os) (apool pm0))) in *.
    set (pm1 := snd (xadd (xmap strip N0) b1 (strip curL) (tl os) pm0)) in *.
    set (h5 := store h4 a' (HNode (xmap aref N1))) in *.
    assert (G5 : forall x, (x < next h)%nat -> load h5 x = load h4 x).
    { intros x Hx0. subst h5. apply load_store_other. subst a'. lia. }
    destruct (nth_error tk (d + lp)) as [b2|] eqn:E2.
    + replace (Z.of_nat (d + lp) <? Z.of_nat (length tk))%Z with true
        by (symmetry; apply Z.ltb_lt; assert (d + lp < length tk)%nat by (apply nth_error_Some; rewrite E2; discriminate); lia).
      assert (Hb2 : b2 < 256) by (apply (nth_byte _ _ _ Hbt E2)).
      assert (Hn12 : b1 <> b2) by (apply (lcp_split_ne tk0 tk d b1 b2 E1 E2)).
      rewrite (surjective_pairing (alloc h5 (HLeaf gk tk val))). cbv beta iota zeta.
      destruct (split_alloc ref a' h5 root4 N1 pm1 (HLeaf gk tk val) S5) as (S6 & Hl6 & Hf6 & Hn6).
      destruct (alloc_spec h5 (HLeaf gk tk val)) as (Ea6 & _). rewrite Ea6.
      set (h6 := snd (alloc h5 (HLeaf gk tk val))) in *. set (lnew := next h5) in *.
      destruct (split_add ref a' h6 root4 N1 pm1 (skipn (xadd_gets (xmap strip N0)) (tl os)) b2 (ALeaf lnew gk tk val) S6 Haw)
        as (Ead2 & S7 & EX2 & Ek2 & El2);
        [rewrite El1, Hl0z; reflexivity|exact Hb2| |].
      { rewrite Ek1, HkN0. cbn [ins_sorted assoc]. destruct (N.eqb_spec b1 b2); [contradiction|reflexivity]. }
      cbv zeta in Ead2. cbn [aref] in Ead2. rewrite Ead2. cbv beta iota zeta.
      set (N2 := fst (xadd N1 b2 (ALeaf lnew gk tk val) (skipn (xadd_gets (xmap strip N0)) (tl os)) (apool pm1))) in *.
      set (h7 := store h6 a' (HNode (xmap aref N2))) in *.
      cbn [fst snd]. cbn [strip curL] in EX1, EX2. rewrite EX1. cbn [fst snd].
      change (snd (xadd (xmap strip N0) b1 (XLeaf gk0 tk0 v0) (tl os) pm0)) with pm1. rewrite EX2.
      assert (Hn5 : next h5 = S (next h)) by (subst h5; rewrite next_store; exact Hn4).
      assert (G7 : forall x, (x < next h)%nat -> load h7 x = load h4 x).
      { intros x Hx0. subst h7. rewrite load_store_other by (subst a'; lia). rewrite Hf6 by (subst lnew; lia). apply G5. exact Hx0. }
      destruct (Hfin h7 G7) as (Cf & Ff & Kc).
      apply (split_done size os pm h root ref curL h7 root4 N2 _ _ true Hw Hout Cf Ff S7).
      * intros b c Hin. rewrite Ek2, Ek1, HkN0 in Hin. apply in_ins_sorted in Hin. destruct Hin as [E|Hin].
        { injection E as Eb Ec; subst b c. split; [|split; [constructor|split]].
          - constructor. subst h7. rewrite load_store_other by (subst lnew a'; lia). exact Hl6.
          - intros Hl. apply live_leaf in Hl. subst lnew a'. lia.
          - intros x Hl. apply live_leaf in Hl. right. subst x lnew. lia. }
        apply in_ins_sorted in Hin. destruct Hin as [E|[]]. injection E as Eb Ec; subst b c. exact Kc.
      * intros b3 c3 b4 c4 x H3 H4 Hn34 L3 L4. rewrite Ek2, Ek1, HkN0 in H3, H4.
        apply in_ins_sorted in H3. apply in_ins_sorted in H4.
        destruct H3 as [E3|H3]; [|apply in_ins_sorted in H3; destruct H3 as [E3|[]]];
        destruct H4 as [E4|H4]; try (apply in_ins_sorted in H4; destruct H4 as [E4|[]]);
          injection E3 as Eb3 Ec3; injection E4 as Eb4 Ec4; subst b3 c3 b4 c4; try contradiction;
          apply live_leaf in L3; apply live_leaf in L4; subst lnew; lia.
    + replace (Z.of_nat (d + lp) <? Z.of_nat (length tk))%Z with false
        by (symmetry; apply Z.ltb_ge; apply nth_error_None in E2; lia).
      cbn [fst snd]. cbn [strip curL] in EX1. rewrite EX1.
      destruct (Hfin h5 G5) as (Cf & Ff & Kc).
      apply (split_done size os pm h root ref curL h5 root4 N1 _ _ true Hw Hout Cf Ff S5).
      * intros b c Hin. rewrite Ek1, HkN0 in Hin. apply in_ins_sorted in Hin. destruct Hin as [E|[]].
        injection E as Eb Ec; subst b c. exact Kc.
      * intros b3 c3 b4 c4 x H3 H4 Hn34. rewrite Ek1, HkN0 in H3, H4.
        apply in_ins_sorted in H3. apply in_ins_sorted in H4. destruct H3 as [E3|[]]. destruct H4 as [E4|[]].
        injection E3 as Eb3 Ec3. injection E4 as Eb4 Ec4. subst b3 c3 b4 c4. contradiction.
  - replace (Z.of_nat (d + lp) <? Z.of_nat (length tk0))%Z with false
      by (symmetry; apply Z.ltb_ge; apply nth_error_None in E1; lia).
    assert (G4 : forall x, (x < next h)%nat -> load h4 x = load h4 x) by reflexivity.
    destruct (nth_error tk (d + lp)) as [b2|] eqn:E2.
    + replace (Z.of_nat (d + lp) <? Z.of_nat (length tk))%Z with true
        by (symmetry; apply Z.ltb_lt; assert (d + lp < length tk)%nat by (apply nth_error_Some; rewrite E2; discriminate); lia).
      assert (Hb2 : b2 < 256) by (apply (nth_byte _ _ _ Hbt E2)).
      rewrite (surjective_pairing (alloc h4 (HLeaf gk tk val))). cbv beta iota zeta.
      destruct (split_alloc ref a' h4 root4 N0 pm0 (HLeaf gk tk val) S4) as (S6 & Hl6 & Hf6 & Hn6).
      destruct (alloc_spec h4 (HLeaf gk tk val)) as (Ea6 & _). rewrite Ea6.
      set (h6 := snd (alloc h4 (HLeaf gk tk val))) in *. set (lnew := next h4) in *.
      destruct (split_add ref a' h6 root4 N0 pm0 (tl os) b2 (ALeaf lnew gk tk val) S6 Haw) as (Ead2 & S7 & EX2 & Ek2 & El2);
        [rewrite Hl0z; reflexivity|exact Hb2|rewrite HkN0; reflexivity|].
      cbv zeta in Ead2. cbn [aref] in Ead2. rewrite Ead2. cbv beta iota zeta.
      set (N2 := fst (xadd N0 b2 (ALeaf lnew gk tk val) (tl os) (apool pm0))) in *.
      set (h7 := store h6 a' (HNode (xmap aref N2))) in *.
      cbn [fst snd]. rewrite ES0, EP0. cbn [strip] in EX2. rewrite EX2.
      assert (G7 : forall x, (x < next h)%nat -> load h7 x = load h4 x).
      { intros x Hx0. subst h7. rewrite load_store_other by (subst a'; lia). apply Hf6. subst lnew. lia. }
      destruct (Hfin h7 G7) as (Cf & Ff & Kc).
      apply (split_done size os pm h root ref curL h7 root4 N2 _ _ true Hw Hout Cf Ff S7).
      * intros b c Hin. rewrite Ek2, HkN0 in Hin. apply in_ins_sorted in Hin. destruct Hin as [E|[]].
        injection E as Eb Ec; subst b c. split; [|split; [constructor|split]].
        { constructor. subst h7. rewrite load_store_other by (subst lnew a'; lia). exact Hl6. }
        { intros Hl. apply live_leaf in Hl. subst lnew a'. lia. }
        { intros x Hl. apply live_leaf in Hl. right. subst x lnew. lia. }
      * intros b3 c3 b4 c4 x H3 H4 Hn34. rewrite Ek2, HkN0 in H3, H4.
        apply in_ins_sorted in H3. apply in_ins_sorted in H4. destruct H3 as [E3|[]]. destruct H4 as [E4|[]].
        injection E3 as Eb3 Ec3. injection E4 as Eb4 Ec4. subst b3 c3 b4 c4. contradiction.
    + replace (Z.of_nat (d + lp) <? Z.of_nat (length tk))%Z with false
        by (symmetry; apply Z.ltb_ge; apply nth_error_None in E2; lia).
      cbn [fst snd]. rewrite ?ES0, ?EP0.
      destruct (Hfin h4 G4) as (Cf & Ff & Kc).
      apply (split_done size os pm h root ref curL h4 root4 N0 _ _ true Hw Hout Cf Ff S4).
      * intros b c Hin. rewrite HkN0 in Hin. destruct Hin.
      * intros b3 c3 b4 c4 x H3. rewrite HkN0 in H3. destruct H3.
Qed.

(* ---- the compressed-path split: the block of the generated loop from the second Get on ---- *)
Definition path_split_block (gk tk : list N) (val : Z) (h : heap) (root : href) (size : Z) (os : list choice) (p : hpool)
                            (ref : slot) (n : href) (depth : Z) (node : addr) (prefixDiff : Z) : mres unit :=
  let '(nn_2, p) := Pool.get (Pool.nxt os) K4 p in
  let os := tl os in
  let '(newNode_2, h) := alloc h (HNode nn_2) in
  match slot_write h root ref (Some newNode_2) with None => MPanic | Some (h, root) =>
  let h := h_set_prefixLen h newNode_2 (u32_of_int prefixDiff) in
  let h := h_set_prefix h newNode_2 (h_prefix h node) in
  let k4 := fun (h : heap) (root : href) (size : Z) (os : list choice) (p : hpool) =>
    if Z.leb (Z.of_nat (List.length tk)) (Z.add depth prefixDiff) then (
      MDone h root size os p tt
    ) else (
      let '(l_3, h) := alloc h (h_mk_leaf gk (u32_of_int (Z.of_nat (List.length gk))) tk (u32_of_int (Z.of_nat (List.length tk))) val) in
      let leafRef_3 := Some l_3 in
      match GoTree.idx_bytes tk (Z.add depth prefixDiff) with None => MPanic | Some v_16 =>
      match h_node4_addChild h root newNode_2 ref v_16 leafRef_3 os p with None => MPanic | Some (h, os, p) =>
      let size := Z.add size 1%Z in
      MDone h root size os p tt
      end
      end
    ) in
  if N.leb (h_prefixLen h node) gm_maxPrefixLen then (
    match GoTree.idx_bytes (h_prefix h node) prefixDiff with None => MPanic | Some v_17 =>
    match h_node4_addChild h root newNode_2 ref v_17 n os p with None => MPanic | Some (h, os, p) =>
    let loLimit := Z.add prefixDiff 1%Z in
    let h := h_set_prefixLen h node (subw 32 (h_prefixLen h node) (u32_of_int loLimit)) in
    match slice_from (h_prefix h node) loLimit with None => MPanic | Some v_18 =>
    let h := h_set_prefix h node (gcopy 0 v_18 (h_prefix h node)) in
    k4 h root size os p
    end
    end
    end
  ) else (
    let h := h_set_prefixLen h node (subw 32 (h_prefixLen h node) (u32_of_int (Z.add prefixDiff 1%Z))) in
    match h_minimum h n with
    | GRet r_4 =>
    match cast_leaf r_4 with None => MPanic | Some v_19 =>
    let leafMin := v_19 in
    let leafKey_2 := xleaf_tk leafMin in
    match GoTree.idx_bytes leafKey_2 (Z.add depth prefixDiff) with None => MPanic | Some v_20 =>
    match h_node4_addChild h root newNode_2 ref v_20 n os p with None => MPanic | Some (h, os, p) =>
    let loLimit_2 := Z.add (Z.add depth prefixDiff) 1%Z in
    match slice_from leafKey_2 loLimit_2 with None => MPanic | Some v_21 =>
    let h := h_set_prefix h node (gcopy 0 v_21 (h_prefix h node)) in
    k4 h root size os p
    end
    end
    end
    end
    | GPanic => MPanic
    | GFuel => MFuel
    end
  )
  end.

(* the generated loops contain exactly these blocks (checked again where they are used) *)
Lemma path_split_ok : forall gk tk val h root size os pm ref a n d P x lgk ltk lv,
  hwf h -> stored h (AInner a n) -> sep (AInner a n) -> slot_read h root ref = Some (Some a) ->
  slot_out ref (AInner a n) -> zero_pool pm -> isbytes tk = true ->
  N.of_nat (length gk) < M32 -> N.of_nat (length tk) < M32 -> N.of_nat (xplen (xh n)) < M32 ->
  WF d (tabs (strip (AInner a n))) ->
  (P < xplen (xh n))%nat ->
  minimum (tabs (strip (AInner a n))) = Some (Leaf lgk ltk lv) ->
  x < 256 -> nth_error ltk (d + P) = Some x ->
  ((xplen (xh n) <= maxPrefixLen)%nat -> nth_error (xprefix (xh n)) P = Some x) ->
  (forall b2, nth_error tk (d + P) = Some b2 -> x <> b2) ->
  ins_ok size os pm h root ref (AInner a n)
    (path_split_block gk tk val h root size os (map_pool pm) ref (Some a) (Z.of_nat d) a (Z.of_nat P))
    (let hd := xh n in
     let g := xnew4 P (xprefix hd) os pm in
     let os1 := tl os in
     let r :=
       if (xplen hd <=? maxPrefixLen)%nat then
         match nth_error (xprefix hd) P with
         | None => None
         | Some b => Some (b, xset_hdr (xmap strip n) (xplen hd - S P) (copy_into (xprefix hd) (skipn (S P) (xprefix hd))))
         end
       else
         match nth_error ltk (d + P) with
         | None => None
         | Some b => Some (b, xset_hdr (xmap strip n) (xplen hd - (P + 1)) (copy_into (xprefix hd) (skipn (d + P + 1) ltk)))
         end in
     match r with
     | None => (XIPanic, os1, snd g)
     | Some (b, n') =>
       let a1 := xadd (fst g) b (XInner n') os1 (snd g) in
       let os2 := skipn (xadd_gets (fst g)) os1 in
       match nth_error tk (d + P) with
       | None => (XIDone (XInner (fst a1)) false, os2, snd a1)
       | Some b2 =>
         let a2 := xadd (fst a1) b2 (XLeaf gk tk val) os2 (snd a1) in
         (XIDone (XInner (fst a2)) true, skipn (xadd_gets (fst a1)) os2, snd a2)
       end
     end).
Proof.
  intros gk tk val h root size os pm ref a n d P x lgk ltk lv Hw Hst Hsep Hrd Hout Hzp Hbt Hlg Hlt Hp32 Hwf HP Hmin Hx256 Elk Epfx Hne2.
  destruct (stored_inv _ _ _ Hst) as (Hl & Hx & Hk). destruct (sep_inv _ _ Hsep) as (S1 & S2 & S3).
  pose proof (xwf_prefix_len n Hx) as Hpl.
  set (p0 := xplen (xh n)) in *. set (pfx := xprefix (xh n)) in *.
  destruct (get_zero4 os pm Hzp) as (Eg & Eg1 & Hz0).
  unfold path_split_block. rewrite Eg. cbv beta iota zeta.
  rewrite (surjective_pairing (alloc h (HNode (xzero K4)))). cbv beta iota zeta.
  destruct (alloc_spec h (HNode (xzero K4))) as (Ea & Hla & Hfa & Hna).
  set (h1 := snd (alloc h (HNode (xzero K4)))) in *. rewrite Ea. set (a' := next h) in *.
  assert (Hlt' : forall y, load h y <> None -> y <> a') by (intros y Hy ->; apply Hy; apply Hw; subst a'; lia).
  assert (Ha_lt : (a < next h)%nat) by (apply hwf_lt; [exact Hw|rewrite Hl; discriminate]).
  destruct (slot_write_gen h h1 root ref (Some a) (Some a') Hrd) as (h4 & root4 & Ew & Hw4).
  { destruct ref as [| |a0 i0]; [exact I|exact I|]. apply Hfa. apply Hlt'.
    destruct (slot_read_inv _ _ _ _ _ Hrd) as (nd & Hl0 & _). rewrite Hl0. discriminate. }
  rewrite Ew. clear Ew.
  assert (Haw : ref_away ref a').
  { destruct ref as [| |a0 i0]; cbn [ref_away]; try exact I. apply Hlt'.
    destruct (slot_read_inv _ _ _ _ _ Hrd) as (nd & Hl0 & _). rewrite Hl0. discriminate. }
  assert (Hra : ref_addr_ne ref a).
  { destruct ref as [| |a0 i0]; cbn [ref_addr_ne slot_out] in *; try exact I. intros ->. apply Hout. apply (live_root (AInner a0 n)). }
  set (pm0 := snd (get (nxt os) K4 pm)) in *.
  assert (Hw1 : hwf h1) by (apply hwf_alloc; exact Hw).
  assert (F4 : hwf h4 /\ next h4 = S (next h) /\ nodeat h4 a' (xzero K4) /\ slot_read h4 root4 ref = Some (Some a') /\
               cell_set h root ref a' root4 h4 /\ (forall y, (y < next h)%nat -> ref_addr_ne ref y -> load h4 y = load h y)).
  { destruct ref as [| |a0 i0]; cbn [cell_set ref_addr_ne ref_away] in *; [contradiction| |].
    - destruct Hw4 as (-> & ->). split; [exact Hw1|]. split; [exact Hna|]. split; [unfold nodeat; rewrite Hla, xzero_xmap; reflexivity|].
      split; [reflexivity|]. split; [reflexivity|]. intros y Hy _. apply Hfa. subst a'. lia.
    - destruct Hw4 as (-> & nd & Hl0 & Hlt0 & ->).
      assert (Ha0 : (a0 < next h)%nat) by (apply hwf_lt; [exact Hw|rewrite Hl0; discriminate]).
      split; [apply hwf_store; [exact Hw1|rewrite Hna; subst a'; lia]|]. split; [rewrite next_store; exact Hna|].
      split; [unfold nodeat; rewrite load_store_other by (intros E; apply Haw; symmetry; exact E); rewrite Hla, xzero_xmap; reflexivity|].
      split; [cbn [slot_read]; rewrite load_store_same, xch_s_children; apply nth_error_set_at_eq; exact Hlt0|].
      split; [split; [reflexivity|]; exists nd; split; [exact Hl0|]; split; [exact Hlt0|apply load_store_same]|].
      intros y Hy Hnq. rewrite load_store_other by exact Hnq. apply Hfa. subst a'. lia. }
  destruct F4 as (Hw4' & Hn4 & A4 & Hrd4 & C4 & G4).
  rewrite (u32_of_nat P) by lia.
  rewrite (set_prefixLen_at h4 a' _ _ A4).
  set (h5 := store h4 a' (HNode (xmap aref (s_prefixLen (N.of_nat P) (xzero K4))))).
  assert (A5 : nodeat h5 a' (s_prefixLen (N.of_nat P) (xzero K4))) by apply nodeat_store.
  assert (Aa5 : nodeat h5 a n).
  { unfold nodeat. subst h5. rewrite load_store_other by (apply Hlt'; rewrite Hl; discriminate). rewrite G4 by assumption. exact Hl. }
  assert (E5 : h_prefix h5 a = pfx) by (unfold h_prefix; rewrite (h_hdr_at _ _ _ Aa5); reflexivity).
  rewrite E5.
  destruct (new4_node P pfx os pm Hzp) as (EN0 & ES0 & EP0 & HxN0 & HkN0).
  set (N0 := fst (xnew4 P pfx os (apool pm))) in *. fold pm0 in EP0.
  assert (Epf : gcopy 0 pfx (xprefix xhdr0) = pfx).
  { rewrite gcopy0_over by (cbn [xhdr0 xprefix]; rewrite repeat_length; lia).
    cbn [xhdr0 xprefix]. rewrite repeat_length, <- Hpl. apply firstn_all. }
  assert (E6 : h_set_prefix h5 a' pfx = store h5 a' (HNode (xmap aref N0))).
  { rewrite (set_prefix_at h5 a' _ _ A5). f_equal. f_equal. f_equal.
    rewrite EN0, Epf. cbn [xzero s_prefixLen s_prefix s_node xh]. unfold hs_prefix, hs_prefixLen. rewrite Nat2N.id. reflexivity. }
  rewrite E6.
  set (h6 := store h5 a' (HNode (xmap aref N0))).
  assert (S6 : split_st ref a' h6 root4 N0 pm0).
  { constructor.
    - subst h6 h5. apply hwf_store; [apply hwf_store; [exact Hw4'|]|]; rewrite ?next_store, Hn4; subst a'; lia.
    - subst h6 h5. rewrite !next_store, Hn4. subst a'. lia.
    - subst h6 h5. rewrite !slot_read_store_other by exact Haw. exact Hrd4.
    - apply nodeat_store.
    - rewrite EN0. reflexivity.
    - exact HxN0.
    - exact Hz0. }
  assert (G6 : forall y, (y < next h)%nat -> load h6 y = load h4 y).
  { intros y Hy. subst h6 h5. rewrite !load_store_other by (subst a'; lia). reflexivity. }
  assert (Aa6 : nodeat h6 a n) by (unfold nodeat; rewrite G6 by exact Ha_lt; rewrite G4 by assumption; exact Hl).
  assert (Hl0z : xlen (xh N0) = 0) by (rewrite EN0; reflexivity).
  fold h6.
  assert (E7 : h_prefixLen h6 a = N.of_nat p0) by (unfold h_prefixLen; rewrite (h_hdr_at _ _ _ Aa6); reflexivity).
  assert (E8 : h_prefix h6 a = pfx) by (unfold h_prefix; rewrite (h_hdr_at _ _ _ Aa6); reflexivity).
  rewrite E7, E8, gm_maxPrefixLen_val.
  (* the old node with its header rewritten, whatever the new header is *)
  assert (Hold : forall npl npx hf, length npx = maxPrefixLen ->
            (forall y, (y < next h)%nat -> y <> a -> load hf y = load h4 y) -> nodeat hf a (xset_hdr n npl npx) ->
            cell_set h root ref a' root4 hf /\
            (forall y, (y < next h)%nat -> ~ live (AInner a n) y -> ref_addr_ne ref y -> load hf y = load h y) /\
            (stored hf (AInner a (xset_hdr n npl npx)) /\ sep (AInner a (xset_hdr n npl npx)) /\
             ~ live (AInner a (xset_hdr n npl npx)) a' /\
             (forall y, live (AInner a (xset_hdr n npl npx)) y -> live (AInner a n) y))).
  { intros npl npx hf Hlen Gf Af.
    destruct (xset_hdr_xwf n npl npx Hx Hlen) as (Hx' & Ek').
    assert (Ekids : kids (xset_hdr n npl npx) = kids n) by exact Ek'.
    assert (Hlive : forall y, live (AInner a (xset_hdr n npl npx)) y -> live (AInner a n) y).
    { intros y Hy. destruct (live_inv _ _ Hy) as [->|(a1 & n1 & b1 & c1 & E & Hin1 & Hl1)]; [apply (live_root (AInner a n))|].
      injection E as <- <-. rewrite Ekids in Hin1. eapply live_kid; eauto. }
    split; [|split].
    - destruct ref as [| |a0 i0]; cbn [cell_set] in *; [contradiction|exact C4|].
      destruct C4 as (-> & nd & Hl0 & Hlt0 & Hl4). split; [reflexivity|]. exists nd. split; [exact Hl0|]. split; [exact Hlt0|].
      rewrite Gf; [exact Hl4|apply hwf_lt; [exact Hw|rewrite Hl0; discriminate]|].
      cbn [ref_addr_ne] in Hra. intros E. apply Hra. symmetry. exact E.
    - intros y Hy Hnl Hnq. rewrite Gf; [apply G4; assumption|exact Hy|].
      intros ->. apply Hnl. apply (live_root (AInner a n)).
    - split; [|split; [|split]].
      + constructor; [exact Af|exact Hx'|]. intros b1 c1 Hin1. rewrite Ekids in Hin1.
        apply (stored_frame h); [apply (Hk _ _ Hin1)|]. intros y Hy.
        assert (Hyl : live (AInner a n) y) by (eapply live_kid; eauto).
        rewrite Gf; [apply G4; [eapply live_lt; eauto|]|eapply live_lt; eauto|intros ->; exact (S2 _ _ Hin1 Hy)].
        destruct ref as [| |a0 i0]; cbn [ref_addr_ne slot_out] in *; try exact I. intros ->. contradiction.
      + constructor; intros; rewrite ?Ekids in *; eauto.
      + intros Hy. apply Hlive in Hy. pose proof (live_lt h _ _ Hw Hst Hy). subst a'. lia.
      + exact Hlive. }
  (* the second half of both branches: the key's own leaf, if the key goes on *)
  assert (Htail : forall npl npx h9 os1 pm1 N1, length npx = maxPrefixLen ->
            split_st ref a' h9 root4 N1 pm1 -> nodeat h9 a (xset_hdr n npl npx) ->
            (forall y, (y < next h)%nat -> y <> a -> load h9 y = load h4 y) ->
            kids N1 = [(x, AInner a (xset_hdr n npl npx))] -> xlen (xh N1) = 1 ->
            ins_ok size os pm h root ref (AInner a n)
              (if (Z.of_nat (length tk) <=? Z.of_nat d + Z.of_nat P)%Z
               then MDone h9 root4 size os1 (map_pool pm1) tt
               else
                 let '(l_3, h2) := alloc h9 (h_mk_leaf gk (u32_of_int (Z.of_nat (length gk))) tk (u32_of_int (Z.of_nat (length tk))) val) in
                 match GoTree.idx_bytes tk (Z.of_nat d + Z.of_nat P) with
                 | Some v_16 =>
                   match h_node4_addChild h2 root4 a' ref v_16 (Some l_3) os1 (map_pool pm1) with
                   | Some (h3, os2, p5) => MDone h3 root4 (size + 1) os2 p5 tt
                   | None => MPanic
                   end
                 | None => MPanic
                 end)
              (match nth_error tk (d + P) with
               | None => (XIDone (XInner (xmap strip N1)) false, os1, pm1)
               | Some b2 =>
                 let a2 := xadd (xmap strip N1) b2 (XLeaf gk tk val) os1 pm1 in
                 (XIDone (XInner (fst a2)) true, skipn (xadd_gets (xmap strip N1)) os1, snd a2)
               end)).
  { intros npl npx h9 os1 pm1 N1 Hlen S9 A9 G9 Ek1 El1.
    rewrite <- Nat2Z.inj_add, idx_bytes_nat, (mk_leaf_full gk tk val Hlg Hlt).
    destruct (nth_error tk (d + P)) as [b2|] eqn:E2.
    - replace (Z.of_nat (length tk) <=? Z.of_nat (d + P))%Z with false
        by (symmetry; apply Z.leb_gt; assert (d + P < length tk)%nat by (apply nth_error_Some; rewrite E2; discriminate); lia).
      assert (Hb2 : b2 < 256) by (apply (nth_byte _ _ _ Hbt E2)).
      pose proof (Hne2 b2 eq_refl) as Hn12.
      rewrite (surjective_pairing (alloc h9 (HLeaf gk tk val))). cbv beta iota zeta.
      destruct (split_alloc ref a' h9 root4 N1 pm1 (HLeaf gk tk val) S9) as (S10 & Hl10 & Hf10 & Hn10).
      destruct (alloc_spec h9 (HLeaf gk tk val)) as (Ea10 & _). rewrite Ea10.
      set (h10 := snd (alloc h9 (HLeaf gk tk val))) in *. set (lnew := next h9) in *.
      assert (Hlnew : (next h < lnew)%nat) by (destruct S9 as [_ L9 _ _ _ _ _]; subst lnew a'; lia).
      destruct (split_add ref a' h10 root4 N1 pm1 os1 b2 (ALeaf lnew gk tk val) S10 Haw) as (Ead2 & S11 & EX2 & Ek2 & El2);
        [rewrite El1; reflexivity|exact Hb2| |].
      { rewrite Ek1. cbn [assoc]. destruct (N.eqb_spec x b2); [contradiction|reflexivity]. }
      cbv zeta in Ead2. cbn [aref] in Ead2. rewrite Ead2. cbv beta iota zeta.
      set (N2 := fst (xadd N1 b2 (ALeaf lnew gk tk val) os1 (apool pm1))) in *.
      set (h11 := store h10 a' (HNode (xmap aref N2))) in *.
      cbn [strip] in EX2. cbn [fst snd]. rewrite EX2.
      assert (G11 : forall y, (y < next h)%nat -> y <> a -> load h11 y = load h4 y).
      { intros y Hy Hna'. subst h11. rewrite load_store_other by (subst a'; lia). rewrite Hf10 by (subst lnew; lia). apply G9; assumption. }
      assert (A11 : nodeat h11 a (xset_hdr n npl npx)).
      { unfold nodeat. subst h11. rewrite load_store_other by (subst a'; lia). rewrite Hf10 by (subst lnew; lia). exact A9. }
      destruct (Hold npl npx h11 Hlen G11 A11) as (Cf & Ff & Kc).
      apply (split_done size os pm h root ref (AInner a n) h11 root4 N2 _ _ true Hw Hout Cf Ff S11).
      + intros b c Hin. rewrite Ek2, Ek1 in Hin. apply in_ins_sorted in Hin. destruct Hin as [E|[E|[]]]; injection E as Eb Ec; subst b c.
        * split; [|split; [constructor|split]].
          -- constructor. subst h11. rewrite load_store_other by (subst lnew a'; lia). exact Hl10.
          -- intros Hy. apply live_leaf in Hy. subst lnew a'. lia.
          -- intros y Hy. apply live_leaf in Hy. right. subst y. lia.
        * destruct Kc as (K1 & K2 & K3 & K4). repeat split; auto.
      + intros b3 c3 b4 c4 y H3 H4 Hn34 L3 L4. rewrite Ek2, Ek1 in H3, H4.
        apply in_ins_sorted in H3. apply in_ins_sorted in H4.
        destruct H3 as [E3|[E3|[]]]; destruct H4 as [E4|[E4|[]]];
          injection E3 as Eb3 Ec3; injection E4 as Eb4 Ec4; subst b3 c3 b4 c4; try contradiction.
        * apply live_leaf in L3. subst y. destruct Kc as (_ & _ & _ & Kl).
          pose proof (live_lt h _ _ Hw Hst (Kl _ L4)). lia.
        * apply live_leaf in L4. subst y. destruct Kc as (_ & _ & _ & Kl).
          pose proof (live_lt h _ _ Hw Hst (Kl _ L3)). lia.
    - replace (Z.of_nat (length tk) <=? Z.of_nat (d + P))%Z with true
        by (symmetry; apply Z.leb_le; apply nth_error_None in E2; lia).
      destruct (Hold npl npx h9 Hlen G9 A9) as (Cf & Ff & Kc).
      apply (split_done size os pm h root ref (AInner a n) h9 root4 N1 _ _ false Hw Hout Cf Ff S9).
      + intros b c Hin. rewrite Ek1 in Hin. destruct Hin as [E|[]]. injection E as Eb Ec; subst b c.
        destruct Kc as (K1 & K2 & K3 & K4). repeat split; auto.
      + intros b3 c3 b4 c4 y H3 H4 Hn34. rewrite Ek1 in H3, H4. destruct H3 as [E3|[]]. destruct H4 as [E4|[]].
        injection E3 as Eb3 Ec3. injection E4 as Eb4 Ec4. subst b3 b4. contradiction. }
  (* a store into the old node keeps the state of the new one *)
  assert (Skeep : forall hk Nk pmk o, split_st ref a' hk root4 Nk pmk -> split_st ref a' (store hk a o) root4 Nk pmk).
  { intros hk Nk pmk o [W L R A K4' X Z]. constructor; try assumption.
    - apply hwf_store; [exact W|]. lia.
    - rewrite slot_read_store_other; [exact R|]. destruct ref as [| |a0 i0]; cbn [ref_away ref_addr_ne] in *; try exact I.
      intros E. apply Hra. symmetry. exact E.
    - unfold nodeat. rewrite load_store_other by (intros E; apply (Hlt' a); [rewrite Hl; discriminate|symmetry; exact E]). exact A. }
  assert (Hu1 : u32_of_int (Z.of_nat P + 1) = N.of_nat (S P)).
  { replace (Z.of_nat P + 1)%Z with (Z.of_nat (S P)) by lia. apply u32_of_nat. lia. }
  assert (Hsub : subw 32 (N.of_nat p0) (N.of_nat (S P)) = N.of_nat (p0 - S P)).
  { unfold subw. unfold M32 in Hp32. change (2 ^ 32) with 4294967296. lia. }
  assert (Hshd : forall v px, s_prefix px (s_prefixLen v n) = xset_hdr n (N.to_nat v) px).
  { intros v px. rewrite xset_hdr_s_node. unfold s_prefix, s_prefixLen. rewrite xh_s_node, s_node_s_node. reflexivity. }
  cbv zeta. fold p0 pfx. rewrite ES0, EP0.
  destruct (Nat.leb_spec p0 maxPrefixLen) as [Hs|Hb].
  - (* the inline bytes hold the whole path *)
    replace (N.of_nat p0 <=? N.of_nat maxPrefixLen) with true by lia.
    rewrite (Epfx Hs). rewrite idx_bytes_nat, (Epfx Hs).
    set (npl := (p0 - S P)%nat). set (npx := copy_into pfx (skipn (S P) pfx)).
    assert (Hnpx : length npx = maxPrefixLen) by (subst npx; rewrite copy_into_length; exact Hpl).
    destruct (split_add ref a' h6 root4 N0 pm0 (tl os) x (AInner a (xset_hdr n npl npx)) S6 Haw) as (Ead1 & S7 & EX1 & Ek1 & El1);
      [rewrite Hl0z; reflexivity|exact Hx256|rewrite HkN0; reflexivity|].
    cbv zeta in Ead1. cbn [aref] in Ead1. rewrite Ead1. cbv beta iota zeta.
    set (N1 := fst (xadd N0 x (AInner a (xset_hdr n npl npx)) (tl os) (apool pm0))) in *.
    set (pm1 := snd (xadd (xmap strip N0) x (strip (AInner a (xset_hdr n npl npx))) (tl os) pm0)) in *.
    set (h7 := store h6 a' (HNode (xmap aref N1))) in *.
    assert (Aa7 : nodeat h7 a n) by (unfold nodeat; subst h7; rewrite load_store_other by (apply Hlt'; rewrite Hl; discriminate); exact Aa6).
    assert (E9 : h_prefixLen h7 a = N.of_nat p0) by (unfold h_prefixLen; rewrite (h_hdr_at _ _ _ Aa7); reflexivity).
    rewrite E9, Hu1, Hsub. rewrite (set_prefixLen_at h7 a _ _ Aa7).
    set (h8 := store h7 a (HNode (xmap aref (s_prefixLen (N.of_nat (p0 - S P)) n)))).
    assert (Aa8 : nodeat h8 a (s_prefixLen (N.of_nat (p0 - S P)) n)) by apply nodeat_store.
    assert (E10 : h_prefix h8 a = pfx).
    { unfold h_prefix. rewrite (h_hdr_at _ _ _ Aa8). unfold s_prefixLen. rewrite xh_s_node. reflexivity. }
    rewrite E10. replace (Z.of_nat P + 1)%Z with (Z.of_nat (S P)) by lia. rewrite (slice_from_nat pfx (S P)) by lia.
    rewrite (set_prefix_at h8 a _ _ Aa8), Hshd, Nat2N.id, gcopy0_copy_into. fold npl npx.
    set (h9 := store h8 a (HNode (xmap aref (xset_hdr n npl npx)))).
    cbn [strip] in EX1. rewrite xset_hdr_xmap.
    change (snd (xadd (xmap strip N0) x (XInner (xmap strip (xset_hdr n npl npx))) (tl os) pm0)) with pm1.
    rewrite EX1.
    apply (Htail npl npx h9 _ pm1 N1 Hnpx).
    + subst h9 h8. apply Skeep. apply Skeep. exact S7.
    + apply nodeat_store.
    + intros y Hy Hya. subst h9 h8 h7. rewrite !load_store_other by (try exact Hya; subst a'; lia). apply G6. exact Hy.
    + rewrite Ek1, HkN0. reflexivity.
    + rewrite El1, Hl0z. reflexivity.
  - (* the path is longer than the inline bytes: the branch byte and the rest come from the minimum leaf *)
    replace (N.of_nat p0 <=? N.of_nat maxPrefixLen) with false by lia.
    rewrite Elk.
    set (npl := (p0 - (P + 1))%nat). set (npx := copy_into pfx (skipn (d + P + 1) ltk)).
    assert (Hnpx : length npx = maxPrefixLen) by (subst npx; rewrite copy_into_length; exact Hpl).
    rewrite Hu1, Hsub.
    assert (St6 : stored h6 (AInner a n)).
    { apply (stored_frame h); [exact Hst|]. intros y Hy. rewrite G6 by (eapply live_lt; eauto). apply G4; [eapply live_lt; eauto|].
      destruct ref as [| |a0 i0]; cbn [ref_addr_ne slot_out] in *; try exact I. intros ->. contradiction. }
    assert (Hb6 : forall y, live (AInner a n) y -> (y < next h6)%nat).
    { intros y Hy. destruct S6 as [_ L6 _ _ _ _ _]. pose proof (live_lt h _ _ Hw Hst Hy). subst a'. lia. }
    rewrite (h_minimum_set_prefixLen h6 a n _ d St6 Hsep Hb6 Hwf).
    destruct (h_minimum_spec h6 (AInner a n) d St6 Hsep Hb6 Hwf) as (gk' & tk' & v' & Emin & Emin').
    cbn [aref] in Emin. rewrite Emin. rewrite Hmin in Emin'. injection Emin' as <- <- <-.
    cbn [cast_leaf xleaf_tk]. rewrite <- Nat2Z.inj_add, idx_bytes_nat, Elk.
    rewrite (set_prefixLen_at h6 a _ _ Aa6).
    set (h7 := store h6 a (HNode (xmap aref (s_prefixLen (N.of_nat (p0 - S P)) n)))).
    assert (S7 : split_st ref a' h7 root4 N0 pm0) by (apply Skeep; exact S6).
    destruct (split_add ref a' h7 root4 N0 pm0 (tl os) x (AInner a (xset_hdr n npl npx)) S7 Haw) as (Ead1 & S8 & EX1 & Ek1 & El1);
      [rewrite Hl0z; reflexivity|exact Hx256|rewrite HkN0; reflexivity|].
    cbv zeta in Ead1. cbn [aref] in Ead1. rewrite Ead1. cbv beta iota zeta.
    set (N1 := fst (xadd N0 x (AInner a (xset_hdr n npl npx)) (tl os) (apool pm0))) in *.
    set (pm1 := snd (xadd (xmap strip N0) x (strip (AInner a (xset_hdr n npl npx))) (tl os) pm0)) in *.
    set (h8 := store h7 a' (HNode (xmap aref N1))) in *.
    assert (Aa8 : nodeat h8 a (s_prefixLen (N.of_nat (p0 - S P)) n)).
    { unfold nodeat. subst h8 h7. rewrite load_store_other by (apply Hlt'; rewrite Hl; discriminate). apply load_store_same. }
    assert (E10 : h_prefix h8 a = pfx).
    { unfold h_prefix. rewrite (h_hdr_at _ _ _ Aa8). unfold s_prefixLen. rewrite xh_s_node. reflexivity. }
    rewrite E10. replace (Z.of_nat (d + P) + 1)%Z with (Z.of_nat (d + P + 1)) by lia.
    rewrite (slice_from_nat ltk (d + P + 1)) by (assert (d + P < length ltk)%nat by (apply nth_error_Some; rewrite Elk; discriminate); lia).
    rewrite (set_prefix_at h8 a _ _ Aa8), Hshd, Nat2N.id, gcopy0_copy_into.
    replace (p0 - S P)%nat with npl by (subst npl; lia). fold npx.
    set (h9 := store h8 a (HNode (xmap aref (xset_hdr n npl npx)))).
    cbn [strip] in EX1. rewrite xset_hdr_xmap.
    change (snd (xadd (xmap strip N0) x (XInner (xmap strip (xset_hdr n npl npx))) (tl os) pm0)) with pm1.
    rewrite EX1. rewrite ?Nat2Z.inj_add.
    apply (Htail npl npx h9 _ pm1 N1 Hnpx).
    + subst h9. apply Skeep. exact S8.
    + apply nodeat_store.
    + intros y Hy Hya. subst h9 h8 h7. rewrite !load_store_other by (try exact Hya; subst a'; lia). apply G6. exact Hy.
    + rewrite Ek1, HkN0. reflexivity.
    + rewrite El1, Hl0z. reflexivity.
Qed.

(* a step that changed the heap only inside the footprint or above the old next, and did not touch *ref *)
Lemma framed_keep_alloc : forall h root ref cur r0 h1,
  hwf h -> slot_read h root ref = Some r0 -> slot_out ref cur -> (next h <= next h1)%nat ->
  (forall x, (x < next h \/ next h1 <= x)%nat -> ~ live cur x -> load h1 x = load h x) ->
  framed h root h1 root ref cur r0.
Proof.
  intros h root ref cur r0 h1 Hw Hrd Hout Hn Hfr. split; [exact Hn|].
  destruct ref as [| |a0 i0]; cbn [slot_out] in Hout; [contradiction| |].
  - cbn [slot_read] in Hrd. injection Hrd as ->. split; [reflexivity|exact Hfr].
  - destruct (slot_read_inv _ _ _ _ _ Hrd) as (nd & Hl & Hnth & Hlt).
    split; [reflexivity|]. split; [intros x H0 Hx _; apply Hfr; assumption|].
    exists nd. split; [exact Hl|]. split; [exact Hlt|].
    unfold href in *. replace (set_at i0 r0 (xch nd)) with (xch nd) by (symmetry; apply set_at_same; exact Hnth).
    rewrite s_children_id, Hfr; [exact Hl| |exact Hout]. left. apply hwf_lt; [exact Hw|rewrite Hl; discriminate].
Qed.

(* nl.value = val *)
Lemma overwrite_ok : forall size os pm h root ref a gk0 tk0 v0 val,
  hwf h -> stored h (ALeaf a gk0 tk0 v0) -> slot_read h root ref = Some (Some a) -> slot_out ref (ALeaf a gk0 tk0 v0) ->
  zero_pool pm ->
  ins_ok size os pm h root ref (ALeaf a gk0 tk0 v0)
    (MDone (h_set_leaf_value h a val) root size os (map_pool pm) tt) (XIDone (XLeaf gk0 tk0 val) false, os, pm).
Proof.
  intros size os pm h root ref a gk0 tk0 v0 val Hw Hst Hrd Hout Hzp.
  pose proof (stored_load _ _ Hst) as Hl. cbn [aref aobj] in Hl.
  assert (Ha : (a < next h)%nat) by (apply hwf_lt; [exact Hw|rewrite Hl; discriminate]).
  unfold h_set_leaf_value. rewrite Hl. cbn [ins_ok fst snd].
  repeat (split; [reflexivity|]). split; [exact Hzp|]. split; [apply hwf_store; assumption|].
  exists (ALeaf a gk0 tk0 val). split; [reflexivity|]. split; [constructor; apply load_store_same|]. split; [constructor|].
  split; [intros x Hx; apply live_leaf in Hx; subst x; left; apply (live_root (ALeaf a gk0 tk0 v0))|].
  apply framed_keep; [exact Hrd|exact Hout|reflexivity|].
  intros x Hx. apply load_store_other. intros ->. apply Hx. apply (live_root (ALeaf a gk0 tk0 v0)).
Qed.

(* return: nothing stored *)
Lemma unchanged_ok : forall size os pm h root ref cur,
  hwf h -> stored h cur -> sep cur -> slot_read h root ref = Some (Some (aref cur)) -> slot_out ref cur -> zero_pool pm ->
  ins_ok size os pm h root ref cur (MDone h root size os (map_pool pm) tt) (XIDone (strip cur) false, os, pm).
Proof.
  intros size os pm h root ref cur Hw Hst Hsep Hrd Hout Hzp. cbn [ins_ok fst snd].
  repeat (split; [reflexivity|]). split; [exact Hzp|]. split; [exact Hw|].
  exists cur. split; [reflexivity|]. split; [exact Hst|]. split; [exact Hsep|]. split; [auto|].
  apply framed_keep; [exact Hrd|exact Hout|reflexivity|reflexivity].
Qed.

(* ref.addChild(keyS[depth], leafRef) with a new leaf *)
Lemma add_leaf_ok : forall size os pm h root ref a n b gk tk val,
  hwf h -> stored h (AInner a n) -> sep (AInner a n) -> slot_read h root ref = Some (Some a) -> slot_out ref (AInner a n) ->
  zero_pool pm -> b < 256 -> xfind n b = None ->
  let h1 := snd (alloc h (HLeaf gk tk val)) in
  let A := xadd (xmap strip n) b (XLeaf gk tk val) os pm in
  exists h2, h_addChild h1 root ref b (Some (next h)) os (map_pool pm) =
               Some (h2, skipn (xadd_gets (xmap strip n)) os, map_pool (snd A)) /\
    ins_ok size os pm h root ref (AInner a n)
      (MDone h2 root (size + 1) (skipn (xadd_gets (xmap strip n)) os) (map_pool (snd A)) tt)
      (XIDone (XInner (fst A)) true, skipn (xadd_gets (xmap strip n)) os, snd A).
Proof.
  intros size os pm h root ref a n b gk tk val Hw Hst Hsep Hrd Hout Hzp Hb Hf h1 A.
  destruct (stored_inv _ _ _ Hst) as (Hl & Hx & Hk). destruct (sep_inv _ _ Hsep) as (S1 & S2 & S3).
  destruct (alloc_spec h (HLeaf gk tk val)) as (_ & Hla & Hfa & Hna). fold h1 in Hla, Hfa, Hna.
  set (lnew := next h) in *. set (newL := ALeaf lnew gk tk val).
  assert (Ha : (a < next h)%nat) by (apply hwf_lt; [exact Hw|rewrite Hl; discriminate]).
  assert (Hass : assoc b (kids n) = None).
  { unfold kids. rewrite <- nfind_spec by (try apply Hx; exact Hb). rewrite <- xfind_abs by exact Hx. exact Hf. }
  assert (Hrd1 : slot_read h1 root ref = Some (Some a)).
  { destruct ref as [| |a0 i0]; try exact Hrd. cbn [slot_read] in *. destruct (load h a0) as [o0|] eqn:E0; [|discriminate Hrd].
    rewrite Hfa by (intros ->; rewrite (Hw lnew) in E0 by (subst lnew; lia); discriminate). rewrite E0. exact Hrd. }
  assert (At1 : nodeat h1 a n) by (unfold nodeat; rewrite Hfa by (subst lnew; lia); exact Hl).
  pose proof (addChild_step h1 root ref a n b newL os pm Hrd1 At1 Hx Hzp Hb Hass) as Est. cbn [aref newL] in Est.
  destruct (xadd_three n b newL os pm Hx Hzp Hb Hass) as (_ & E2 & Hz & Hx' & Ek). cbn [strip newL] in E2.
  set (N' := fst (xadd n b newL os (apool pm))) in *.
  exists (store h1 a (HNode (xmap aref N'))). split; [exact Est|]. fold A in E2, Hz.
  set (h2 := store h1 a (HNode (xmap aref N'))).
  cbn [ins_ok fst snd]. repeat (split; [reflexivity|]). split; [exact Hz|].
  split; [apply hwf_store; [apply hwf_alloc; exact Hw|rewrite Hna; subst lnew; lia]|].
  assert (Hold : forall y, y <> a -> y <> lnew -> load h2 y = load h y).
  { intros y H1 H2. subst h2. rewrite load_store_other by exact H1. apply Hfa. exact H2. }
  exists (AInner a N'). split; [cbn [strip]; rewrite E2; reflexivity|].
  assert (Hkid : forall b1 c1, In (b1, c1) (kids N') -> (b1 = b /\ c1 = newL) \/ (b1 <> b /\ In (b1, c1) (kids n))).
  { intros b1 c1 H1. rewrite Ek in H1. apply in_ins_sorted in H1. destruct H1 as [E|H1]; [injection E as -> ->; left; auto|].
    right. split; [|exact H1]. intros ->. pose proof (kid_assoc n b c1 Hx H1) as E. rewrite Hass in E. discriminate. }
  assert (Hlt_old : forall y, live (AInner a n) y -> (y < next h)%nat) by (intros y Hy; eapply live_lt; eauto).
  split; [|split; [|split]].
  - constructor; [apply load_store_same|exact Hx'|]. intros b1 c1 H1. destruct (Hkid _ _ H1) as [(-> & ->)|(Hne & Hin1)].
    + constructor. subst h2. rewrite load_store_other by (subst lnew; lia). exact Hla.
    + apply (stored_frame h); [apply (Hk _ _ Hin1)|]. intros y Hy. apply Hold.
      * intros ->. exact (S2 _ _ Hin1 Hy).
      * pose proof (Hlt_old y (live_kid _ _ _ _ _ Hin1 Hy)). subst lnew. lia.
  - constructor.
    + intros b1 c1 H1. destruct (Hkid _ _ H1) as [(-> & ->)|(Hne & Hin1)]; [constructor|apply (S1 _ _ Hin1)].
    + intros b1 c1 H1 Hy. destruct (Hkid _ _ H1) as [(-> & ->)|(Hne & Hin1)].
      * apply live_leaf in Hy. subst lnew. lia.
      * exact (S2 _ _ Hin1 Hy).
    + intros b1 c1 b2 c2 y H1 H2 Hne L1 L2.
      destruct (Hkid _ _ H1) as [(-> & ->)|(Hne1 & Hin1)]; destruct (Hkid _ _ H2) as [(-> & ->)|(Hne2 & Hin2)].
      * contradiction.
      * apply live_leaf in L1. subst y. pose proof (Hlt_old lnew (live_kid _ _ _ _ _ Hin2 L2)). subst lnew. lia.
      * apply live_leaf in L2. subst y. pose proof (Hlt_old lnew (live_kid _ _ _ _ _ Hin1 L1)). subst lnew. lia.
      * exact (S3 b1 c1 b2 c2 y Hin1 Hin2 Hne L1 L2).
  - intros y Hy. destruct (live_inv _ _ Hy) as [->|(a1 & n1 & b1 & c1 & E & H1 & L1)]; [left; apply (live_root (AInner a n))|].
    injection E as <- <-. destruct (Hkid _ _ H1) as [(-> & ->)|(Hne & Hin1)].
    + apply live_leaf in L1. subst y. right. subst lnew. lia.
    + left. eapply live_kid; eauto.
  - cbn [aref]. apply framed_keep_alloc; [exact Hw|exact Hrd|exact Hout|subst h2; rewrite next_store, Hna; subst lnew; lia|].
    intros y Hy Hnl. apply Hold; [intros ->; apply Hnl; apply (live_root (AInner a n))|].
    subst h2. rewrite next_store, Hna in Hy. subst lnew. lia.
Qed.

(* the uint32 field prefixLen holds every path length of the tree *)
Inductive afit32 : atree -> Prop :=
| afit32_leaf : forall a gk tk v, afit32 (ALeaf a gk tk v)
| afit32_inner : forall a n, N.of_nat (xplen (xh n)) < M32 -> (forall b c, In (b, c) (kids n) -> afit32 c) -> afit32 (AInner a n).
Lemma afit32_inv : forall a n, afit32 (AInner a n) ->
  N.of_nat (xplen (xh n)) < M32 /\ (forall b c, In (b, c) (kids n) -> afit32 c).
Proof. intros a n H. inversion H; subst. auto. Qed.

(* what the descent below an inner node needs of the child (as in PoolTreeFacts.xinsert_sim) *)
Lemma descend_facts : forall (nm : xnode xtree) tk d b c,
  xwf nm -> WF d (Inner (nabs nm)) -> shares d tk (leaves (Inner (nabs nm))) -> (d <= length tk)%nat ->
  (xplen (xh nm) = 0%nat \/ (xplen (xh nm) <= prefixMismatch (nabs nm) tk d)%nat) ->
  nth_error tk (d + xplen (xh nm)) = Some b -> In (b, c) (nenum (xabs nm)) ->
  WF (S (d + xplen (xh nm))) (tabs c) /\ shares (S (d + xplen (xh nm))) tk (leaves (tabs c)) /\
  (S (d + xplen (xh nm)) <= length tk)%nat.
Proof.
  intros nm tk d b c Hx Hwf Hsh Hd Hcase Eb Hin.
  destruct (split_facts (nabs nm) tk d Hwf Hsh Hd) as (lm & Hmin & _ & Hdesc).
  rewrite nhdr_nabs in Hdesc. cbn [xabs_hdr prefixLen] in Hdesc. set (p0 := xplen (xh nm)) in *.
  assert (Hall : forall l, In l (leaves (Inner (nabs nm))) -> firstn (d + p0) (ltk l) = firstn (d + p0) tk) by (apply Hdesc; exact Hcase).
  pose proof (in_nenum_nabs nm b c Hin) as Hin'.
  destruct (WF_child d (nabs nm) b (tabs c) Hwf Hin') as [Hwc HFc].
  rewrite nhdr_nabs in Hwc, HFc. cbn [xabs_hdr prefixLen] in Hwc, HFc. fold p0 in Hwc, HFc.
  replace (d + p0 + 1)%nat with (S (d + p0)) in Hwc by lia.
  split; [exact Hwc|]. split.
  - unfold shares. apply Forall_forall. intros l Hl. rewrite Forall_forall in HFc.
    rewrite (firstn_S_snoc _ _ _ (HFc l Hl)), (firstn_S_snoc _ _ _ Eb).
    rewrite (Hall l) by (apply in_leaves_inner; exists b, (tabs c); split; assumption). reflexivity.
  - apply nth_error_Some. congruence.
Qed.

Definition ins_loop_spec (L : nat -> heap -> href -> Z -> list choice -> hpool -> slot -> href -> Z -> mres unit)
                         (gk tk : list N) (val : Z) : Prop :=
  forall fuel h root size os pm ref cur d,
    hwf h -> stored h cur -> sep cur -> slot_read h root ref = Some (Some (aref cur)) -> slot_out ref cur ->
    zero_pool pm -> isbytes tk = true -> WF d (tabs (strip cur)) -> shares d tk (leaves (tabs (strip cur))) ->
    (d <= length tk)%nat -> N.of_nat (length gk) < M32 -> N.of_nat (length tk) < M32 -> afit32 cur ->
    ins_ok size os pm h root ref cur
      (L fuel h root size os (map_pool pm) ref (Some (aref cur)) (Z.of_nat d))
      (xinsert fuel (strip cur) gk tk val d os pm).

Lemma alpha_insert_loop_sim : forall val keyS, ins_loop_spec (fun fuel => g_alpha_insert_loop1 fuel val keyS) keyS keyS val.
Proof.
  intros val keyS. unfold ins_loop_spec.
  induction fuel as [|f IH]; intros h root size os pm ref cur d Hw Hst Hsep Hrd Hout Hzp Hbt Hwf Hsh Hd Hlg Hlt Hfit.
  - cbn [g_alpha_insert_loop1]. rewrite Hrd. reflexivity.
  - destruct cur as [a gk0 tk0 v0|a n].
    + (* a leaf *)
      pose proof (h_tag_stored _ _ Hst) as Ht. cbn [aref atag] in Ht, Hrd |- *.
      destruct (h_cast_leaf_stored _ _ _ _ _ Hst) as (Hc & Hg & _).
      cbn [g_alpha_insert_loop1]. rewrite !Hrd. cbn [href_is_nil negb]. rewrite Ht. cbn [gkind_eqb negb]. rewrite Hc, Hg.
      cbn [strip].
      assert (Hb0 : isbytes tk0 = true) by (cbn [strip tabs] in Hwf; inversion Hwf; assumption).
      destruct (beq keyS gk0) eqn:Eb.
      * cbn [xinsert]. rewrite Eb. apply overwrite_ok; assumption.
      * exact (leaf_split_ok keyS keyS val h root size os pm ref a gk0 tk0 v0 d f Hw Hst Hrd Hout Hzp Hb0 Hbt Hd Hlg Hlt Eb).
    + (* an inner node *)
      destruct (stored_inv _ _ _ Hst) as (Hl & Hx & Hk). destruct (sep_inv _ _ Hsep) as (S1 & S2 & S3).
      destruct (afit32_inv _ _ Hfit) as (F32 & Fk).
      pose proof (h_tag_stored _ _ Hst) as Ht. cbn [aref] in Ht, Hrd |- *.
      cbn [g_alpha_insert_loop1]. rewrite !Hrd. cbn [href_is_nil negb]. rewrite Ht, atag_inner. cbn [negb].
      rewrite (h_ref_node_stored _ _ _ Hst).
      assert (Hb_live : forall y, live (AInner a n) y -> (y < next h)%nat) by (intros; eapply live_lt; eauto).
      assert (EpL : h_prefixLen h a = N.of_nat (xplen (xh n))) by (unfold h_prefixLen; rewrite (h_hdr_stored _ _ _ Hst); reflexivity).
      rewrite !EpL.
      pose proof (Hwf) as Hwf0.
      cbn [strip] in Hwf, Hsh. rewrite tabs_inner in Hwf, Hsh.
      pose proof (xwf_xmap strip n Hx) as Hxm.
      destruct (split_facts (nabs (xmap strip n)) keyS d Hwf Hsh Hd) as (lm & Hmin & Hsplit & _).
      rewrite nhdr_nabs, xh_xmap in Hsplit. cbn [xabs_hdr prefixLen prefix] in Hsplit.
      cbn [strip xinsert]. rewrite tabs_inner, xh_xmap.
      set (p0 := xplen (xh n)) in *. set (P := prefixMismatch (nabs (xmap strip n)) keyS d) in *.
      destruct (Nat.eqb_spec p0 0) as [E0|E0].
      * replace (N.of_nat p0 =? 0) with true by lia. cbn [negb andb].
        replace (d + p0)%nat with d by lia.
        destruct (nth_error keyS (d)) as [b|] eqn:Enth.
        2:{ replace (Z.of_nat (length keyS) <=? Z.of_nat (d))%Z with true
              by (symmetry; apply Z.leb_le; apply nth_error_None in Enth; lia).
            apply (unchanged_ok size os pm h root ref (AInner a n)); assumption. }
        replace (Z.of_nat (length keyS) <=? Z.of_nat (d))%Z with false
          by (symmetry; apply Z.leb_gt; assert (d < length keyS)%nat by (apply nth_error_Some; rewrite Enth; discriminate); lia).
        rewrite !idx_bytes_nat, Enth.
        pose proof (nth_byte _ _ _ Hbt Enth) as Hb.
        pose proof (findChild_stored _ _ _ b Hst Hb) as FC. rewrite xfind_xmap.
        destruct (xfind n b) as [c|] eqn:Ef; cbn [omap].
        -- destruct FC as (i & -> & Hnth & Hrep). cbn [slot_is_nil negb].
           pose proof (kid_of_find _ _ _ Hx Hb Ef) as Hin. pose proof (Hk _ _ Hin) as Hs.
           rewrite (slot_read_cell _ _ _ _ _ _ Hst Hnth).
           replace (Z.of_nat d + 1)%Z with (Z.of_nat (S d)) by lia.
           assert (Hinm : In (b, strip c) (nenum (xabs (xmap strip n)))).
           { rewrite nenum_xabs_xmap. apply in_map_iff. exists (b, c). split; [reflexivity|exact Hin]. }
           destruct (descend_facts (xmap strip n) keyS d b (strip c) Hxm Hwf Hsh Hd) as (Wc & Shc & Lc);
             [rewrite xh_xmap; fold p0 P; left; exact E0|rewrite xh_xmap; fold p0; replace (d + p0)%nat with d by lia; exact Enth|exact Hinm|].
           rewrite xh_xmap in Wc, Shc, Lc. fold p0 in Wc, Shc, Lc. replace (d + p0)%nat with d in Wc, Shc, Lc by lia.
           pose proof (IH h root size os pm (SCell a i) c (S d) Hw Hs (S1 _ _ Hin)
                         (slot_read_cell _ root _ _ _ _ Hst Hnth) (S2 _ _ Hin) Hzp Hbt Wc Shc Lc Hlg Hlt (Fk _ _ Hin)) as R.
           apply (ins_up size os pm h root ref a n b c i _ _ Hw Hst Hsep Hrd Hout Hb Hin Hnth Hrep) in R.
           exact R.
        -- rewrite FC. cbn [slot_is_nil negb]. rewrite (mk_leaf_full keyS keyS val Hlg Hlt).
           rewrite (surjective_pairing (alloc h (HLeaf keyS keyS val))). cbv beta iota zeta.
           destruct (alloc_spec h (HLeaf keyS keyS val)) as (Eal & _). rewrite Eal.
           destruct (add_leaf_ok size os pm h root ref a n b keyS keyS val Hw Hst Hsep Hrd Hout Hzp Hb Ef) as (h2 & Est & Hok).
           rewrite Est. exact Hok.
      * replace (N.of_nat p0 =? 0) with false by lia. cbn [negb andb].
        rewrite (h_prefixMismatch_spec h a n keyS d d Hst Hsep Hb_live Hwf0). fold P.
        replace (Z.of_N (N.of_nat p0) <=? Z.of_nat P)%Z with (negb (P <? p0)%nat)
          by (destruct (Nat.ltb_spec P p0); destruct (Z.leb_spec (Z.of_N (N.of_nat p0)) (Z.of_nat P)); try reflexivity; lia).
        destruct (Nat.ltb_spec P p0) as [HP|HP]; cbn [negb].
        -- (* the compressed-path split *)
           destruct (Hsplit HP) as (x & Hx256 & Elk & Epfx & Hne2).
           destruct lm as [[lgk ltk0] lv]. cbn [to_leaf ltk] in Hmin, Elk.
           rewrite Hmin. cbn [leaf_tk].
           exact (path_split_ok keyS keyS val h root size os pm ref a n d P x lgk ltk0 lv Hw Hst Hsep Hrd Hout Hzp Hbt Hlg Hlt F32 Hwf0 HP Hmin Hx256 Elk Epfx Hne2).
        -- replace (Z.of_nat d + Z.of_N (N.of_nat p0))%Z with (Z.of_nat (d + p0)) by lia.
        destruct (nth_error keyS (d + p0)) as [b|] eqn:Enth.
        2:{ replace (Z.of_nat (length keyS) <=? Z.of_nat (d + p0))%Z with true
              by (symmetry; apply Z.leb_le; apply nth_error_None in Enth; lia).
            apply (unchanged_ok size os pm h root ref (AInner a n)); assumption. }
        replace (Z.of_nat (length keyS) <=? Z.of_nat (d + p0))%Z with false
          by (symmetry; apply Z.leb_gt; assert (d + p0 < length keyS)%nat by (apply nth_error_Some; rewrite Enth; discriminate); lia).
        rewrite !idx_bytes_nat, Enth.
        pose proof (nth_byte _ _ _ Hbt Enth) as Hb.
        pose proof (findChild_stored _ _ _ b Hst Hb) as FC. rewrite xfind_xmap.
        destruct (xfind n b) as [c|] eqn:Ef; cbn [omap].
        ++ destruct FC as (i & -> & Hnth & Hrep). cbn [slot_is_nil negb].
           pose proof (kid_of_find _ _ _ Hx Hb Ef) as Hin. pose proof (Hk _ _ Hin) as Hs.
           rewrite (slot_read_cell _ _ _ _ _ _ Hst Hnth).
           replace (Z.of_nat (d + p0) + 1)%Z with (Z.of_nat (S (d + p0))) by lia.
           assert (Hinm : In (b, strip c) (nenum (xabs (xmap strip n)))).
           { rewrite nenum_xabs_xmap. apply in_map_iff. exists (b, c). split; [reflexivity|exact Hin]. }
           destruct (descend_facts (xmap strip n) keyS d b (strip c) Hxm Hwf Hsh Hd) as (Wc & Shc & Lc);
             [rewrite xh_xmap; fold p0 P; right; exact HP|rewrite xh_xmap; fold p0; exact Enth|exact Hinm|].
           rewrite xh_xmap in Wc, Shc, Lc. fold p0 in Wc, Shc, Lc. 
           pose proof (IH h root size os pm (SCell a i) c (S (d + p0)) Hw Hs (S1 _ _ Hin)
                         (slot_read_cell _ root _ _ _ _ Hst Hnth) (S2 _ _ Hin) Hzp Hbt Wc Shc Lc Hlg Hlt (Fk _ _ Hin)) as R.
           apply (ins_up size os pm h root ref a n b c i _ _ Hw Hst Hsep Hrd Hout Hb Hin Hnth Hrep) in R.
           exact R.
        ++ rewrite FC. cbn [slot_is_nil negb]. rewrite (mk_leaf_full keyS keyS val Hlg Hlt).
           rewrite (surjective_pairing (alloc h (HLeaf keyS keyS val))). cbv beta iota zeta.
           destruct (alloc_spec h (HLeaf keyS keyS val)) as (Eal & _). rewrite Eal.
           destruct (add_leaf_ok size os pm h root ref a n b keyS keyS val Hw Hst Hsep Hrd Hout Hzp Hb Ef) as (h2 & Est & Hok).
           rewrite Est. exact Hok.
Qed.

Lemma collation_insert_loop_sim : forall val keyS colKey, ins_loop_spec (fun fuel => g_collation_insert_loop1 fuel val keyS colKey) keyS colKey val.
Proof.
  intros val keyS colKey. unfold ins_loop_spec.
  induction fuel as [|f IH]; intros h root size os pm ref cur d Hw Hst Hsep Hrd Hout Hzp Hbt Hwf Hsh Hd Hlg Hlt Hfit.
  - cbn [g_collation_insert_loop1]. rewrite Hrd. reflexivity.
  - destruct cur as [a gk0 tk0 v0|a n].
    + (* a leaf *)
      pose proof (h_tag_stored _ _ Hst) as Ht. cbn [aref atag] in Ht, Hrd |- *.
      destruct (h_cast_leaf_stored _ _ _ _ _ Hst) as (Hc & Hg & _).
      cbn [g_collation_insert_loop1]. rewrite !Hrd. cbn [href_is_nil negb]. rewrite Ht. cbn [gkind_eqb negb]. rewrite Hc, Hg.
      cbn [strip].
      assert (Hb0 : isbytes tk0 = true) by (cbn [strip tabs] in Hwf; inversion Hwf; assumption).
      destruct (beq keyS gk0) eqn:Eb.
      * cbn [xinsert]. rewrite Eb. apply overwrite_ok; assumption.
      * exact (leaf_split_ok keyS colKey val h root size os pm ref a gk0 tk0 v0 d f Hw Hst Hrd Hout Hzp Hb0 Hbt Hd Hlg Hlt Eb).
    + (* an inner node *)
      destruct (stored_inv _ _ _ Hst) as (Hl & Hx & Hk). destruct (sep_inv _ _ Hsep) as (S1 & S2 & S3).
      destruct (afit32_inv _ _ Hfit) as (F32 & Fk).
      pose proof (h_tag_stored _ _ Hst) as Ht. cbn [aref] in Ht, Hrd |- *.
      cbn [g_collation_insert_loop1]. rewrite !Hrd. cbn [href_is_nil negb]. rewrite Ht, atag_inner. cbn [negb].
      rewrite (h_ref_node_stored _ _ _ Hst).
      assert (Hb_live : forall y, live (AInner a n) y -> (y < next h)%nat) by (intros; eapply live_lt; eauto).
      assert (EpL : h_prefixLen h a = N.of_nat (xplen (xh n))) by (unfold h_prefixLen; rewrite (h_hdr_stored _ _ _ Hst); reflexivity).
      rewrite !EpL.
      pose proof (Hwf) as Hwf0.
      cbn [strip] in Hwf, Hsh. rewrite tabs_inner in Hwf, Hsh.
      pose proof (xwf_xmap strip n Hx) as Hxm.
      destruct (split_facts (nabs (xmap strip n)) colKey d Hwf Hsh Hd) as (lm & Hmin & Hsplit & _).
      rewrite nhdr_nabs, xh_xmap in Hsplit. cbn [xabs_hdr prefixLen prefix] in Hsplit.
      cbn [strip xinsert]. rewrite tabs_inner, xh_xmap.
      set (p0 := xplen (xh n)) in *. set (P := prefixMismatch (nabs (xmap strip n)) colKey d) in *.
      destruct (Nat.eqb_spec p0 0) as [E0|E0].
      * replace (N.of_nat p0 =? 0) with true by lia. cbn [negb andb].
        replace (d + p0)%nat with d by lia.
        destruct (nth_error colKey (d)) as [b|] eqn:Enth.
        2:{ replace (Z.of_nat (length colKey) <=? Z.of_nat (d))%Z with true
              by (symmetry; apply Z.leb_le; apply nth_error_None in Enth; lia).
            apply (unchanged_ok size os pm h root ref (AInner a n)); assumption. }
        replace (Z.of_nat (length colKey) <=? Z.of_nat (d))%Z with false
          by (symmetry; apply Z.leb_gt; assert (d < length colKey)%nat by (apply nth_error_Some; rewrite Enth; discriminate); lia).
        rewrite !idx_bytes_nat, Enth.
        pose proof (nth_byte _ _ _ Hbt Enth) as Hb.
        pose proof (findChild_stored _ _ _ b Hst Hb) as FC. rewrite xfind_xmap.
        destruct (xfind n b) as [c|] eqn:Ef; cbn [omap].
        -- destruct FC as (i & -> & Hnth & Hrep). cbn [slot_is_nil negb].
           pose proof (kid_of_find _ _ _ Hx Hb Ef) as Hin. pose proof (Hk _ _ Hin) as Hs.
           rewrite (slot_read_cell _ _ _ _ _ _ Hst Hnth).
           replace (Z.of_nat d + 1)%Z with (Z.of_nat (S d)) by lia.
           assert (Hinm : In (b, strip c) (nenum (xabs (xmap strip n)))).
           { rewrite nenum_xabs_xmap. apply in_map_iff. exists (b, c). split; [reflexivity|exact Hin]. }
           destruct (descend_facts (xmap strip n) colKey d b (strip c) Hxm Hwf Hsh Hd) as (Wc & Shc & Lc);
             [rewrite xh_xmap; fold p0 P; left; exact E0|rewrite xh_xmap; fold p0; replace (d + p0)%nat with d by lia; exact Enth|exact Hinm|].
           rewrite xh_xmap in Wc, Shc, Lc. fold p0 in Wc, Shc, Lc. replace (d + p0)%nat with d in Wc, Shc, Lc by lia.
           pose proof (IH h root size os pm (SCell a i) c (S d) Hw Hs (S1 _ _ Hin)
                         (slot_read_cell _ root _ _ _ _ Hst Hnth) (S2 _ _ Hin) Hzp Hbt Wc Shc Lc Hlg Hlt (Fk _ _ Hin)) as R.
           apply (ins_up size os pm h root ref a n b c i _ _ Hw Hst Hsep Hrd Hout Hb Hin Hnth Hrep) in R.
           exact R.
        -- rewrite FC. cbn [slot_is_nil negb]. rewrite (mk_leaf_full keyS colKey val Hlg Hlt).
           rewrite (surjective_pairing (alloc h (HLeaf keyS colKey val))). cbv beta iota zeta.
           destruct (alloc_spec h (HLeaf keyS colKey val)) as (Eal & _). rewrite Eal.
           destruct (add_leaf_ok size os pm h root ref a n b keyS colKey val Hw Hst Hsep Hrd Hout Hzp Hb Ef) as (h2 & Est & Hok).
           rewrite Est. exact Hok.
      * replace (N.of_nat p0 =? 0) with false by lia. cbn [negb andb].
        rewrite (h_prefixMismatch_spec h a n colKey d d Hst Hsep Hb_live Hwf0). fold P.
        replace (Z.of_N (N.of_nat p0) <=? Z.of_nat P)%Z with (negb (P <? p0)%nat)
          by (destruct (Nat.ltb_spec P p0); destruct (Z.leb_spec (Z.of_N (N.of_nat p0)) (Z.of_nat P)); try reflexivity; lia).
        destruct (Nat.ltb_spec P p0) as [HP|HP]; cbn [negb].
        -- (* the compressed-path split *)
           destruct (Hsplit HP) as (x & Hx256 & Elk & Epfx & Hne2).
           destruct lm as [[lgk ltk0] lv]. cbn [to_leaf ltk] in Hmin, Elk.
           rewrite Hmin. cbn [leaf_tk].
           exact (path_split_ok keyS colKey val h root size os pm ref a n d P x lgk ltk0 lv Hw Hst Hsep Hrd Hout Hzp Hbt Hlg Hlt F32 Hwf0 HP Hmin Hx256 Elk Epfx Hne2).
        -- replace (Z.of_nat d + Z.of_N (N.of_nat p0))%Z with (Z.of_nat (d + p0)) by lia.
        destruct (nth_error colKey (d + p0)) as [b|] eqn:Enth.
        2:{ replace (Z.of_nat (length colKey) <=? Z.of_nat (d + p0))%Z with true
              by (symmetry; apply Z.leb_le; apply nth_error_None in Enth; lia).
            apply (unchanged_ok size os pm h root ref (AInner a n)); assumption. }
        replace (Z.of_nat (length colKey) <=? Z.of_nat (d + p0))%Z with false
          by (symmetry; apply Z.leb_gt; assert (d + p0 < length colKey)%nat by (apply nth_error_Some; rewrite Enth; discriminate); lia).
        rewrite !idx_bytes_nat, Enth.
        pose proof (nth_byte _ _ _ Hbt Enth) as Hb.
        pose proof (findChild_stored _ _ _ b Hst Hb) as FC. rewrite xfind_xmap.
        destruct (xfind n b) as [c|] eqn:Ef; cbn [omap].
        ++ destruct FC as (i & -> & Hnth & Hrep). cbn [slot_is_nil negb].
           pose proof (kid_of_find _ _ _ Hx Hb Ef) as Hin. pose proof (Hk _ _ Hin) as Hs.
           rewrite (slot_read_cell _ _ _ _ _ _ Hst Hnth).
           replace (Z.of_nat (d + p0) + 1)%Z with (Z.of_nat (S (d + p0))) by lia.
           assert (Hinm : In (b, strip c) (nenum (xabs (xmap strip n)))).
           { rewrite nenum_xabs_xmap. apply in_map_iff. exists (b, c). split; [reflexivity|exact Hin]. }
           destruct (descend_facts (xmap strip n) colKey d b (strip c) Hxm Hwf Hsh Hd) as (Wc & Shc & Lc);
             [rewrite xh_xmap; fold p0 P; right; exact HP|rewrite xh_xmap; fold p0; exact Enth|exact Hinm|].
           rewrite xh_xmap in Wc, Shc, Lc. fold p0 in Wc, Shc, Lc. 
           pose proof (IH h root size os pm (SCell a i) c (S (d + p0)) Hw Hs (S1 _ _ Hin)
                         (slot_read_cell _ root _ _ _ _ Hst Hnth) (S2 _ _ Hin) Hzp Hbt Wc Shc Lc Hlg Hlt (Fk _ _ Hin)) as R.
           apply (ins_up size os pm h root ref a n b c i _ _ Hw Hst Hsep Hrd Hout Hb Hin Hnth Hrep) in R.
           exact R.
        ++ rewrite FC. cbn [slot_is_nil negb]. rewrite (mk_leaf_full keyS colKey val Hlg Hlt).
           rewrite (surjective_pairing (alloc h (HLeaf keyS colKey val))). cbv beta iota zeta.
           destruct (alloc_spec h (HLeaf keyS colKey val)) as (Eal & _). rewrite Eal.
           destruct (add_leaf_ok size os pm h root ref a n b keyS colKey val Hw Hst Hsep Hrd Hout Hzp Hb Ef) as (h2 & Est & Hok).
           rewrite Est. exact Hok.
Qed.

(* ================= E. Insert at the root ================= *)
(* every compressed-path length of the tree fits the uint32 field *)
Inductive xfit32 : xtree -> Prop :=
| xfit32_leaf : forall gk tk v, xfit32 (XLeaf gk tk v)
| xfit32_inner : forall n, N.of_nat (xplen (xh n)) < M32 -> (forall b c, In (b, c) (nenum (xabs n)) -> xfit32 c) -> xfit32 (XInner n).
Lemma afit32_of_xfit32 : forall h t, stored h t -> xfit32 (strip t) -> afit32 t.
Proof.
  intros h t H. induction H as [a gk tk v Hl|a n Hl Hx Hk IH]; intros Hf; [constructor|].
  cbn [strip] in Hf. inversion Hf as [|n0 H4 Hkf E]; subst n0. rewrite xh_xmap in H4. constructor; [exact H4|].
  intros b c Hin. apply (IH b c Hin). apply (Hkf b). rewrite nenum_xabs_xmap. apply in_map_iff.
  exists (b, c). split; [reflexivity|exact Hin].
Qed.

(* an Insert method: the key preparation, the empty tree, then the loop from &t.root *)
Definition insert_top (L : nat -> heap -> href -> Z -> list choice -> hpool -> slot -> href -> Z -> mres unit)
    (gk tk : list N) (val : Z) (fuel : nat) (h : heap) (root : href) (size : Z) (os : list choice) (p : hpool) : mres unit :=
  if href_is_nil root then
    let '(l, h) := alloc h (h_mk_leaf gk (u32_of_int (Z.of_nat (List.length gk))) tk (u32_of_int (Z.of_nat (List.length tk))) val) in
    MDone h (Some l) (size + 1)%Z os p tt
  else match slot_read h root SRoot with None => MPanic | Some v => L fuel h root size os p SRoot v 0%Z end.

Theorem insert_top_sim : forall L gk tk val, ins_loop_spec L gk tk val ->
  forall h root ot F size os pm,
  repr_root h root ot F -> hwf h -> zero_pool pm -> isbytes tk = true ->
  N.of_nat (length gk) < M32 -> N.of_nat (length tk) < M32 ->
  match ot with Some t => WF 0 (tabs t) /\ xfit32 t | None => True end ->
  let m := xdo_insert (mkXstate ot size) gk tk val os pm in
  match insert_top L gk tk val (key_fuel tk) h root size os (map_pool pm) with
  | MDone h' root' size' os' p' _ =>
      snd (fst m) = OUnit /\ size' = xsize (fst (fst m)) /\ p' = map_pool (snd m) /\ zero_pool (snd m) /\ hwf h' /\
      exists F', repr_root h' root' (xroot (fst (fst m))) F' /\ (forall x, F' x -> F x \/ (next h <= x)%nat) /\
                 (forall x, (x < next h)%nat -> ~ F x -> load h' x = load h x)
  | MPanic => snd (fst m) = OPanic
  | MFuel => snd (fst m) = OFuel
  end.
Proof.
  intros L gk tk val HL h root ot F size os pm (Hr & Hbd) Hw Hzp Hbt Hlg Hlt Hinv m. subst m. unfold insert_top, xdo_insert.
  destruct root as [r|]; destruct ot as [t|]; cbn [repr_root] in Hr; try contradiction; cbn [href_is_nil xroot slot_read].
  2:{ rewrite (mk_leaf_full gk tk val Hlg Hlt), (surjective_pairing (alloc h (HLeaf gk tk val))).
      destruct (alloc_spec h (HLeaf gk tk val)) as (Ea & Hla & Hfa & Hna). rewrite Ea.
      cbn [fst snd xsize xroot]. repeat (split; [reflexivity|]). split; [exact Hzp|]. split; [apply hwf_alloc; exact Hw|].
      exists (fun x => x = next h). split; [split|split].
      - exists (ALeaf (next h) gk tk val). split; [reflexivity|]. split; [reflexivity|]. split; [constructor; exact Hla|].
        split; [constructor|]. intros x. split; [intros ->; apply (live_root (ALeaf (next h) gk tk val))|apply live_leaf].
      - intros x ->. rewrite Hna. lia.
      - intros x ->. right. lia.
      - intros x Hx _. apply Hfa. lia. }
  destruct Hr as (at_ & <- & <- & Hst & Hsep & HF). destruct Hinv as (Hwf & Hf32).
  assert (Hsh : shares 0 tk (leaves (tabs (strip at_)))).
  { unfold shares. apply Forall_forall. intros l _. reflexivity. }
  pose proof (HL (key_fuel tk) h (Some (aref at_)) size os pm SRoot at_ 0%nat Hw Hst Hsep eq_refl I Hzp Hbt Hwf Hsh
                 (Nat.le_0_l _) Hlg Hlt (afit32_of_xfit32 _ _ Hst Hf32)) as R.
  cbn [Z.of_nat] in R. unfold ins_ok in R.
  destruct (L (key_fuel tk) h (Some (aref at_)) size os (map_pool pm) SRoot (Some (aref at_)) 0%Z) as [h' root' size' os' p' u| |];
    destruct (xinsert (key_fuel tk) (strip at_) gk tk val 0 os pm) as [[res osm] pmm];
    cbn [fst snd] in R |- *; destruct res as [t' added| |]; cbn [fst snd xsize xroot]; try contradiction; try discriminate R;
    try reflexivity.
  destruct R as (-> & -> & -> & Hzp' & Hw' & cur' & <- & Hst' & Hsep' & Hsub & Hfr).
  split; [reflexivity|]. split; [destruct added; reflexivity|]. split; [reflexivity|]. split; [exact Hzp'|]. split; [exact Hw'|].
  destruct Hfr as (Hnx & -> & Hframe).
  exists (live cur'). split; [split|split].
  - exists cur'. split; [reflexivity|]. split; [reflexivity|]. split; [exact Hst'|]. split; [exact Hsep'|]. intros x; reflexivity.
  - intros x Hx. eapply live_lt; eauto.
  - intros x Hx. destruct (Hsub _ Hx) as [L1|L1]; [left; apply HF; exact L1|right; exact L1].
  - intros x Hx Hn. apply Hframe; [left; exact Hx|]. intros Hl. apply Hn. apply HF. exact Hl.
Qed.

Theorem gen_alpha_insert_sim : forall h root ot F size keyS val os pm,
  repr_root h root ot F -> hwf h -> zero_pool pm -> isbytes (keyS ++ [0]) = true ->
  N.of_nat (length (keyS ++ [0])) < M32 -> N.of_nat (length (keyS ++ [0])) < M32 ->
  match ot with Some t => WF 0 (tabs t) /\ xfit32 t | None => True end ->
  let m := xdo_insert (mkXstate ot size) (keyS ++ [0]) (keyS ++ [0]) val os pm in
  match g_alpha_insert (key_fuel (keyS ++ [0])) h root size keyS val os (map_pool pm) with
  | MDone h' root' size' os' p' _ =>
      snd (fst m) = OUnit /\ size' = xsize (fst (fst m)) /\ p' = map_pool (snd m) /\ zero_pool (snd m) /\ hwf h' /\
      exists F', repr_root h' root' (xroot (fst (fst m))) F' /\ (forall x, F' x -> F x \/ (next h <= x)%nat) /\
                 (forall x, (x < next h)%nat -> ~ F x -> load h' x = load h x)
  | MPanic => snd (fst m) = OPanic
  | MFuel => snd (fst m) = OFuel
  end.
Proof.
  intros h root ot F size keyS val os pm.
  exact (insert_top_sim _ (keyS ++ [0]) (keyS ++ [0]) val (alpha_insert_loop_sim val (keyS ++ [0])) h root ot F size os pm).
Qed.

(* the five trees of trees.go are instances of one template: the loop of Insert of the other four is, as regenerated
   TEXT, the loop of alphaSortedTree (a syntactic check: an edit of one instance fails here at once) *)
Ltac same_text a b := let a' := eval cbv delta [a] in a in let b' := eval cbv delta [b] in b in constr_eq a' b'.
Lemma unsigned_insert_loop_is_alpha : g_unsigned_insert_loop1 = g_alpha_insert_loop1.
Proof. same_text g_unsigned_insert_loop1 g_alpha_insert_loop1. reflexivity. Qed.
Lemma signed_insert_loop_is_alpha : g_signed_insert_loop1 = g_alpha_insert_loop1.
Proof. same_text g_signed_insert_loop1 g_alpha_insert_loop1. reflexivity. Qed.
Lemma float_insert_loop_is_alpha : g_float_insert_loop1 = g_alpha_insert_loop1.
Proof. same_text g_float_insert_loop1 g_alpha_insert_loop1. reflexivity. Qed.
Lemma compound_insert_loop_is_alpha : g_compound_insert_loop1 = g_alpha_insert_loop1.
Proof. same_text g_compound_insert_loop1 g_alpha_insert_loop1. reflexivity. Qed.

Theorem gen_unsigned_insert_sim : forall h root ot F size keyS val os pm,
  repr_root h root ot F -> hwf h -> zero_pool pm -> isbytes keyS = true ->
  N.of_nat (length keyS) < M32 -> N.of_nat (length keyS) < M32 ->
  match ot with Some t => WF 0 (tabs t) /\ xfit32 t | None => True end ->
  let m := xdo_insert (mkXstate ot size) keyS keyS val os pm in
  match g_unsigned_insert (key_fuel keyS) h root size keyS val os (map_pool pm) with
  | MDone h' root' size' os' p' _ =>
      snd (fst m) = OUnit /\ size' = xsize (fst (fst m)) /\ p' = map_pool (snd m) /\ zero_pool (snd m) /\ hwf h' /\
      exists F', repr_root h' root' (xroot (fst (fst m))) F' /\ (forall x, F' x -> F x \/ (next h <= x)%nat) /\
                 (forall x, (x < next h)%nat -> ~ F x -> load h' x = load h x)
  | MPanic => snd (fst m) = OPanic
  | MFuel => snd (fst m) = OFuel
  end.
Proof.
  intros h root ot F size keyS val os pm. unfold g_unsigned_insert. rewrite unsigned_insert_loop_is_alpha.
  exact (insert_top_sim _ keyS keyS val (alpha_insert_loop_sim val keyS) h root ot F size os pm).
Qed.

Theorem gen_signed_insert_sim : forall h root ot F size keyS val os pm,
  repr_root h root ot F -> hwf h -> zero_pool pm -> isbytes keyS = true ->
  N.of_nat (length keyS) < M32 -> N.of_nat (length keyS) < M32 ->
  match ot with Some t => WF 0 (tabs t) /\ xfit32 t | None => True end ->
  let m := xdo_insert (mkXstate ot size) keyS keyS val os pm in
  match g_signed_insert (key_fuel keyS) h root size keyS val os (map_pool pm) with
  | MDone h' root' size' os' p' _ =>
      snd (fst m) = OUnit /\ size' = xsize (fst (fst m)) /\ p' = map_pool (snd m) /\ zero_pool (snd m) /\ hwf h' /\
      exists F', repr_root h' root' (xroot (fst (fst m))) F' /\ (forall x, F' x -> F x \/ (next h <= x)%nat) /\
                 (forall x, (x < next h)%nat -> ~ F x -> load h' x = load h x)
  | MPanic => snd (fst m) = OPanic
  | MFuel => snd (fst m) = OFuel
  end.
Proof.
  intros h root ot F size keyS val os pm. unfold g_signed_insert. rewrite signed_insert_loop_is_alpha.
  exact (insert_top_sim _ keyS keyS val (alpha_insert_loop_sim val keyS) h root ot F size os pm).
Qed.

Theorem gen_float_insert_sim : forall h root ot F size keyS val os pm,
  repr_root h root ot F -> hwf h -> zero_pool pm -> isbytes keyS = true ->
  N.of_nat (length keyS) < M32 -> N.of_nat (length keyS) < M32 ->
  match ot with Some t => WF 0 (tabs t) /\ xfit32 t | None => True end ->
  let m := xdo_insert (mkXstate ot size) keyS keyS val os pm in
  match g_float_insert (key_fuel keyS) h root size keyS val os (map_pool pm) with
  | MDone h' root' size' os' p' _ =>
      snd (fst m) = OUnit /\ size' = xsize (fst (fst m)) /\ p' = map_pool (snd m) /\ zero_pool (snd m) /\ hwf h' /\
      exists F', repr_root h' root' (xroot (fst (fst m))) F' /\ (forall x, F' x -> F x \/ (next h <= x)%nat) /\
                 (forall x, (x < next h)%nat -> ~ F x -> load h' x = load h x)
  | MPanic => snd (fst m) = OPanic
  | MFuel => snd (fst m) = OFuel
  end.
Proof.
  intros h root ot F size keyS val os pm. unfold g_float_insert. rewrite float_insert_loop_is_alpha.
  exact (insert_top_sim _ keyS keyS val (alpha_insert_loop_sim val keyS) h root ot F size os pm).
Qed.

Theorem gen_compound_insert_sim : forall h root ot F size keyS val os pm,
  repr_root h root ot F -> hwf h -> zero_pool pm -> isbytes keyS = true ->
  N.of_nat (length keyS) < M32 -> N.of_nat (length keyS) < M32 ->
  match ot with Some t => WF 0 (tabs t) /\ xfit32 t | None => True end ->
  let m := xdo_insert (mkXstate ot size) keyS keyS val os pm in
  match g_compound_insert (key_fuel keyS) h root size keyS val os (map_pool pm) with
  | MDone h' root' size' os' p' _ =>
      snd (fst m) = OUnit /\ size' = xsize (fst (fst m)) /\ p' = map_pool (snd m) /\ zero_pool (snd m) /\ hwf h' /\
      exists F', repr_root h' root' (xroot (fst (fst m))) F' /\ (forall x, F' x -> F x \/ (next h <= x)%nat) /\
                 (forall x, (x < next h)%nat -> ~ F x -> load h' x = load h x)
  | MPanic => snd (fst m) = OPanic
  | MFuel => snd (fst m) = OFuel
  end.
Proof.
  intros h root ot F size keyS val os pm. unfold g_compound_insert. rewrite compound_insert_loop_is_alpha.
  exact (insert_top_sim _ keyS keyS val (alpha_insert_loop_sim val keyS) h root ot F size os pm).
Qed.

Theorem gen_collation_insert_sim : forall h root ot F size keyS colKey val os pm,
  repr_root h root ot F -> hwf h -> zero_pool pm -> isbytes colKey = true ->
  N.of_nat (length keyS) < M32 -> N.of_nat (length colKey) < M32 ->
  match ot with Some t => WF 0 (tabs t) /\ xfit32 t | None => True end ->
  let m := xdo_insert (mkXstate ot size) keyS colKey val os pm in
  match g_collation_insert (key_fuel colKey) h root size keyS colKey val os (map_pool pm) with
  | MDone h' root' size' os' p' _ =>
      snd (fst m) = OUnit /\ size' = xsize (fst (fst m)) /\ p' = map_pool (snd m) /\ zero_pool (snd m) /\ hwf h' /\
      exists F', repr_root h' root' (xroot (fst (fst m))) F' /\ (forall x, F' x -> F x \/ (next h <= x)%nat) /\
                 (forall x, (x < next h)%nat -> ~ F x -> load h' x = load h x)
  | MPanic => snd (fst m) = OPanic
  | MFuel => snd (fst m) = OFuel
  end.
Proof.
  intros h root ot F size keyS colKey val os pm.
  exact (insert_top_sim _ keyS colKey val (collation_insert_loop_sim val keyS colKey) h root ot F size os pm).
Qed.

(* t.size after Insert: +1 exactly when the model adds a key *)
Corollary delete_top_hwf : forall L gk tk, del_loop_spec L gk tk -> del_leaf_spec L gk ->
  forall h root ot F size os pm,
  repr_root h root ot F -> hwf h -> zero_pool pm -> isbytes tk = true -> match ot with Some t => xfit t | None => True end ->
  match delete_top L (key_fuel tk) h root size os (map_pool pm) with
  | MDone h' _ _ _ _ _ => hwf h'
  | _ => True
  end.
Proof.
  intros L gk tk HL HLf h root ot F size os pm Hr Hw Hzp Hbt Hfit.
  pose proof (delete_top_sim L gk tk HL HLf h root ot F size os pm Hr Hzp Hbt Hfit) as H. cbv zeta in H.
  destruct (delete_top L (key_fuel tk) h root size os (map_pool pm)) as [h' root' size' os' p' ret| |]; try exact I.
  destruct H as (_ & _ & _ & _ & Hn & F' & _ & _ & Hfr). intros x Hx. rewrite Hn in Hx.
  rewrite Hfr; [apply Hw; exact Hx|]. intros HFx. pose proof (proj2 Hr x HFx). lia.
Qed.

(* the hypotheses of the Insert theorem hold on the three-key heap, and both sides compute the same there *)
Definition ex3_ops : list op := [Insert (AB [97]) 1%Z; Insert (AB [98]) 2%Z; Insert (AB [99]) 3%Z].
Example ex3_is_model : xroot (fst (xalone KAlpha xinit ex3_ops)) = Some (strip ex3_tree).
Proof. vm_compute. reflexivity. Qed.
Example ex3_insert_hyps : hwf ex3_heap /\ WF 0 (tabs (strip ex3_tree)) /\ xfit32 (strip ex3_tree).
Proof.
  split; [|split].
  - intros x Hx. cbn in Hx. unfold load, ex3_heap, alloc. cbn [cells snd next heap0].
    destruct (Nat.eqb_spec x 3); [lia|]. destruct (Nat.eqb_spec x 2); [lia|]. destruct (Nat.eqb_spec x 1); [lia|].
    destruct (Nat.eqb_spec x 0); [lia|]. reflexivity.
  - apply (hyps_reachable KAlpha ex3_ops (strip ex3_tree)); [vm_compute; reflexivity|exact ex3_is_model].
  - destruct ex3_xwf as (_ & Hk). unfold kids in Hk.
    assert (Hks : nenum (xabs (xmap strip ex3_node)) = [(97, strip ex3_l1); (98, strip ex3_l2); (99, strip ex3_l3)])
      by (rewrite nenum_xabs_xmap, Hk; reflexivity).
    cbn [strip ex3_tree]. apply xfit32_inner.
    + rewrite xh_xmap. vm_compute. reflexivity.
    + intros b c Hin. rewrite Hks in Hin. destruct Hin as [E|[E|[E|[]]]]; injection E as _ <-; constructor.
Qed.
Example ex3_insert_thm : True.
Proof.
  destruct ex3_insert_hyps as (H1 & H2 & H3).
  pose proof (gen_alpha_insert_sim ex3_heap (Some 3%nat) (Some (strip ex3_tree)) _ 3 [98; 98] 7 [] []
                ex3_repr H1 (Forall_nil _) eq_refl ltac:(vm_compute; reflexivity) ltac:(vm_compute; reflexivity) (conj H2 H3)) as H.
  exact I.
Qed.
Example ex3_insert_runs :
  match g_alpha_insert (key_fuel [98; 98; 0]) ex3_heap (Some 3%nat) 3 [98; 98] 7 [] [] with
  | MDone h' root' size' _ _ _ =>
      size' = 4%Z /\
      option_map tabs (h_reify h' root') =
        option_map tabs (xroot (fst (fst (xdo_insert (mkXstate (Some (strip ex3_tree)) 3) [98; 98; 0] [98; 98; 0] 7 [] []))))
  | _ => False
  end.
Proof. vm_compute. repeat split. Qed.

(* t.size after Insert is the model's counter (size + 1 exactly when the model stores a new key) *)
Corollary gen_alpha_insert_size : forall h root ot F size keyS val os pm,
  repr_root h root ot F -> hwf h -> zero_pool pm -> isbytes (keyS ++ [0]) = true ->
  N.of_nat (length (keyS ++ [0])) < M32 ->
  match ot with Some t => WF 0 (tabs t) /\ xfit32 t | None => True end ->
  match g_alpha_insert (key_fuel (keyS ++ [0])) h root size keyS val os (map_pool pm) with
  | MDone _ _ size' _ _ _ => size' = xsize (fst (fst (xdo_insert (mkXstate ot size) (keyS ++ [0]) (keyS ++ [0]) val os pm)))
  | _ => True
  end.
Proof.
  intros h root ot F size keyS val os pm Hr Hw Hzp Hbt Hl Hinv.
  pose proof (gen_alpha_insert_sim h root ot F size keyS val os pm Hr Hw Hzp Hbt Hl Hl Hinv) as H. cbv zeta in H.
  destruct (g_alpha_insert _ _ _ _ _ _ _ _); try exact I. apply H.
Qed.
Corollary gen_collation_insert_size : forall h root ot F size keyS colKey val os pm,
  repr_root h root ot F -> hwf h -> zero_pool pm -> isbytes colKey = true ->
  N.of_nat (length keyS) < M32 -> N.of_nat (length colKey) < M32 ->
  match ot with Some t => WF 0 (tabs t) /\ xfit32 t | None => True end ->
  match g_collation_insert (key_fuel colKey) h root size keyS colKey val os (map_pool pm) with
  | MDone _ _ size' _ _ _ => size' = xsize (fst (fst (xdo_insert (mkXstate ot size) keyS colKey val os pm)))
  | _ => True
  end.
Proof.
  intros h root ot F size keyS colKey val os pm Hr Hw Hzp Hbt Hl1 Hl2 Hinv.
  pose proof (gen_collation_insert_sim h root ot F size keyS colKey val os pm Hr Hw Hzp Hbt Hl1 Hl2 Hinv) as H. cbv zeta in H.
  destruct (g_collation_insert _ _ _ _ _ _ _ _ _); try exact I. apply H.
Qed.
