(* The regenerated heap-passing translations of Delete / Insert (Gen/MutGen.v, vocabulary Model/GoHeap.v)
   against the hand-written pool-aware model Model/PoolTree.v.

   Part A (this section): co-simulation BY COMPUTATION.  Histories of Insert / Delete calls are run through the
   regenerated functions (over the explicit heap) and through the model (xstep over raw value trees); after
   EVERY call the two must show the same output, the same t.size, the same pool and the same tree
   (the tree the heap holds below t.root, read back by reify, compared through the abstraction tabs that
   drops stale cells: a stale cell of the heap is a stale POINTER, a stale cell of the model a stale VALUE). *)
From GoArt Require Import Base.Bytes Model.Node4 Model.Node16 Model.Node Model.Tree Model.Iter Model.Api
  Model.Pool Model.PoolTree Model.GoHeap Gen.MutGen.
From Coq Require Import ZifyN ZifyNat ZifyBool.
Ltac Zify.zify_post_hook ::= Z.div_mod_to_equations.
Open Scope N_scope.

(* ================= A. co-simulation by computation ================= *)
(* what a caller of kind k passes: the results of Transform (alpha: before the terminator is appended) *)
Definition call_insert (k : Api.kind) (fuel : nat) (h : heap) (r : href) (s : Z) (a : akey) (v : Z)
                       (os : list choice) (p : hpool) : mres unit :=
  match k, a with
  | KAlpha, AB l => g_alpha_insert fuel h r s l v os p
  | KUnsigned w, AU x => g_unsigned_insert fuel h r s (snd (transform k a)) v os p
  | KSigned w, AS x => g_signed_insert fuel h r s (snd (transform k a)) v os p
  | KFloat w, AF b => g_float_insert fuel h r s (snd (transform k a)) v os p
  | KCollation, AC o c => g_collation_insert fuel h r s o c v os p
  | KCompound sch, AT vs => g_compound_insert fuel h r s (snd (transform k a)) v os p
  | KCodec enc dec, AB u => g_compound_insert fuel h r s (enc u) v os p
  | _, _ => MPanic
  end.
Definition call_delete (k : Api.kind) (fuel : nat) (h : heap) (r : href) (s : Z) (a : akey)
                       (os : list choice) (p : hpool) : mres bool :=
  match k, a with
  | KAlpha, AB l => g_alpha_delete fuel h r s l os p
  | KUnsigned w, AU x => g_unsigned_delete fuel h r s (snd (transform k a)) os p
  | KSigned w, AS x => g_signed_delete fuel h r s (snd (transform k a)) os p
  | KFloat w, AF b => g_float_delete fuel h r s (snd (transform k a)) os p
  | KCollation, AC o c => g_collation_delete fuel h r s o c os p
  | KCompound sch, AT vs => g_compound_delete fuel h r s (snd (transform k a)) os p
  | KCodec enc dec, AB u => g_compound_delete fuel h r s (enc u) os p
  | _, _ => MPanic
  end.

(* what is compared after every call: output, abstract tree, size, pool *)
Definition view : Type := out * option tree * Z * hpool.
Record gstate := mkG { g_heap : heap; g_root : href; g_size : Z; g_pool : hpool }.
Definition g_view (o : out) (g : gstate) : view :=
  (o, option_map tabs (h_reify (g_heap g) (g_root g)), g_size g, g_pool g).
Definition x_view (o : out) (st : xstate) (p : xpool) : view :=
  (o, option_map tabs (xroot st), xsize st, map_pool p).

(* the two regenerated methods of one tree, as the caller of kind k sees them *)
Definition ins_fn : Type := nat -> heap -> href -> Z -> akey -> Z -> list choice -> hpool -> mres unit.
Definition del_fn : Type := nat -> heap -> href -> Z -> akey -> list choice -> hpool -> mres bool.

Definition gf_step (ins : ins_fn) (del : del_fn) (k : Api.kind) (g : gstate) (o : op) (os : list choice) : gstate * out :=
  let fuel := key_fuel (snd (transform k (match o with Insert a _ | Delete a => a | _ => AB [] end))) in
  match o with
  | Insert a v =>
    match ins fuel (g_heap g) (g_root g) (g_size g) a v os (g_pool g) with
    | MDone h r s _ p _ => (mkG h r s p, OUnit)
    | MPanic => (g, OPanic)
    | MFuel => (g, OFuel)
    end
  | Delete a =>
    match del fuel (g_heap g) (g_root g) (g_size g) a os (g_pool g) with
    | MDone h r s _ p b => (mkG h r s p, OBool b)
    | MPanic => (g, OPanic)
    | MFuel => (g, OFuel)
    end
  | _ => (g, ONone)
  end.
Definition g_step (k : Api.kind) := gf_step (call_insert k) (call_delete k) k.

Fixpoint gf_run (ins : ins_fn) (del : del_fn) (k : Api.kind) (g : gstate) (evs : list (op * list choice)) : list view :=
  match evs with
  | [] => []
  | (o, os) :: evs' => let r := gf_step ins del k g o os in g_view (snd r) (fst r) :: gf_run ins del k (fst r) evs'
  end.
Definition g_run (k : Api.kind) := gf_run (call_insert k) (call_delete k) k.
Fixpoint x_run (k : Api.kind) (st : xstate) (p : xpool) (evs : list (op * list choice)) : list view :=
  match evs with
  | [] => []
  | (o, os) :: evs' =>
    let r := xstep k st o os p in x_view (snd (fst r)) (fst (fst r)) (snd r) :: x_run k (fst (fst r)) (snd r) evs'
  end.
Definition g_init : gstate := mkG heap0 None 0 [].
Definition fresh_ops (l : list op) : list (op * list choice) := map (fun o => (o, [])) l.
(* the kind of the root node after a history, to check that the history exercises what it claims *)
Definition g_root_kind (k : Api.kind) (evs : list (op * list choice)) : option gkind :=
  let g := fold_left (fun g e => fst (g_step k g (fst e) (snd e))) evs g_init in h_tag (g_heap g) (g_root g).

(* A1. alpha: overwrite, leaf split, a compressed path of 15 bytes split beyond the inline bytes (the branch
   byte and the rest of the path come from the minimum leaf: node.prefixLen > maxPrefixLen) and inside them
   (node.prefixLen <= maxPrefixLen), descent, node4 -> node16 growth, node16 -> node4 shrink with the released
   node16 REUSED by the next growth, node4 collapse onto an inner child (merged path) and onto a leaf, absent
   keys, deletion of the last key *)
Definition a15 (x : N) : akey := AB [97;97;97;97;97;97;97;97;97;97;97;97;97;97;97;x].
Definition ex_alpha : list (op * list choice) :=
  fresh_ops [Insert (a15 98) 1%Z; Insert (a15 99) 2%Z; Insert (a15 98) 3%Z;
             Insert (AB [97;97;97;97;97;97;97;97;97;97;97;97;81]) 4%Z;     (* split at 12 of 15: leaf bytes *)
             Insert (AB [97;97;97;88]) 5%Z;                                 (* split at 3 of 12 > 10: leaf bytes *)
             Insert (AB [97;90]) 6%Z;                                       (* split at 1 of 3 <= 10: inline *)
             Insert (AB [97]) 7%Z;                                          (* descends one path, adds a child  *)
             Insert (AB [98]) 8%Z; Insert (AB [99]) 9%Z; Insert (AB [100]) 10%Z;
             Insert (AB [101]) 11%Z;                                        (* the root grows to a node16 *)
             Delete (AB [120]); Delete (AB [97;97]);
             Delete (AB [101]); Delete (AB [100])]                          (* the root shrinks to a node4 *)
  ++ [(Insert (AB [102]) 12%Z, []); (Insert (AB [103]) 13%Z, [Reuse 0])]   (* grows again into the released node16 *)
  ++ fresh_ops [Delete (AB [103]); Delete (AB [102]); Delete (AB [99]); Delete (AB [98]);
                Delete (AB [97]);
                Delete (AB [97;90]);                                        (* collapse onto an inner child *)
                Delete (AB [97;97;97;88]);                                  (* collapse: merged path 3+1+8 > 10 *)
                Delete (a15 99);
                Delete (AB [97;97;97;97;97;97;97;97;97;97;97;97;81]);       (* collapse onto a leaf: root leaf *)
                Delete (a15 98); Delete (a15 98); Insert (AB []) 14%Z].
Example ex_alpha_cosim : g_run KAlpha g_init ex_alpha = x_run KAlpha xinit [] ex_alpha.
Proof. vm_compute. reflexivity. Qed.
Example ex_alpha_exercises :
  g_root_kind KAlpha (firstn 11 ex_alpha) = Some Kind16 /\ g_root_kind KAlpha (firstn 15 ex_alpha) = Some Kind4 /\
  g_root_kind KAlpha (firstn 17 ex_alpha) = Some Kind16 /\ g_root_kind KAlpha (firstn 28 ex_alpha) = None /\
  map (fun v : view => fst (fst (fst v))) (x_run KAlpha xinit [] ex_alpha) =
    repeat OUnit 11 ++ [OBool false; OBool false; OBool true; OBool true; OUnit; OUnit] ++ repeat (OBool true) 10 ++
    [OBool false; OUnit].
Proof. vm_compute. repeat split. Qed.

(* A2. alpha: 60 one-byte keys: node4 -> node16 -> node48 -> node256, then down again through every shrink
   threshold (256 -> 48 at 37, 48 -> 16 at 12, 16 -> 4 at 3), every Get answered by the released node when
   there is one *)
Definition ex_wide : list (op * list choice) :=
  map (fun i => (Insert (AB [N.of_nat i]) (Z.of_nat i), [Reuse 0; Reuse 0])) (seq 1 60) ++
  map (fun i => (Delete (AB [N.of_nat i]), [Reuse 0])) (seq 1 60) ++
  map (fun i => (Insert (AB [N.of_nat i; 7]) (Z.of_nat i), [Reuse 0; Reuse 0])) (seq 1 20).
Example ex_wide_cosim : g_run KAlpha g_init ex_wide = x_run KAlpha xinit [] ex_wide.
Proof. vm_compute. reflexivity. Qed.
Example ex_wide_exercises :
  g_root_kind KAlpha (firstn 17 ex_wide) = Some Kind48 /\ g_root_kind KAlpha (firstn 49 ex_wide) = Some Kind256 /\
  g_root_kind KAlpha (firstn 83 ex_wide) = Some Kind48 /\ g_root_kind KAlpha (firstn 108 ex_wide) = Some Kind16 /\
  g_root_kind KAlpha (firstn 117 ex_wide) = Some Kind4 /\ g_root_kind KAlpha (firstn 120 ex_wide) = None.
Proof. vm_compute. repeat split. Qed.

(* A3. the other five trees on one history each (same template, different key preparation; collation has its
   own source text: two keys, the leaf test first) *)
Definition ex_col (o c : list N) : akey := AC o c.
Definition ex_collation : list (op * list choice) :=
  fresh_ops [Insert (ex_col [1] [5;5;5;5;5;5;5;5;5;5;5;5;1]) 1%Z; Insert (ex_col [2] [5;5;5;5;5;5;5;5;5;5;5;5;2]) 2%Z;
             Insert (ex_col [3] [5;5;5;5;5;5;5;5;5;5;5;9]) 3%Z; Insert (ex_col [4] [5;5;7]) 4%Z;
             Insert (ex_col [1] [5;5;5;5;5;5;5;5;5;5;5;5;1]) 5%Z; Insert (ex_col [5] [5;8]) 6%Z;
             Insert (ex_col [6] [6]) 7%Z; Insert (ex_col [7] [7]) 8%Z; Insert (ex_col [8] [8]) 9%Z;
             Insert (ex_col [9] [9]) 10%Z;
             Delete (ex_col [9] [9]); Delete (ex_col [77] [9]); Delete (ex_col [8] [8]); Delete (ex_col [7] [7]);
             Delete (ex_col [6] [6]); Delete (ex_col [5] [5;8]); Delete (ex_col [4] [5;5;7]);
             Delete (ex_col [3] [5;5;5;5;5;5;5;5;5;5;5;9]); Delete (ex_col [2] [5;5;5;5;5;5;5;5;5;5;5;5;2]);
             Delete (ex_col [1] [5;5;5;5;5;5;5;5;5;5;5;5;1]); Delete (ex_col [1] [5;5;5;5;5;5;5;5;5;5;5;5;1])].
Example ex_collation_cosim : g_run KCollation g_init ex_collation = x_run KCollation xinit [] ex_collation.
Proof. vm_compute. reflexivity. Qed.

Definition ex_codec_ops (mk : list N -> akey) : list (op * list choice) :=
  fresh_ops [Insert (mk [1;1;1;1;1;1;1;1;1;1;1;1;1;2]) 1%Z; Insert (mk [1;1;1;1;1;1;1;1;1;1;1;1;1;3]) 2%Z;
             Insert (mk [1;1;1;1;1;1;1;1;1;1;1;1;9;9]) 3%Z; Insert (mk [1;1;1;7;7;7;7;7;7;7;7;7;7;7]) 4%Z;
             Insert (mk [1;4;4;4;4;4;4;4;4;4;4;4;4;4]) 5%Z; Insert (mk [2;0;0;0;0;0;0;0;0;0;0;0;0;0]) 6%Z;
             Insert (mk [3;0;0;0;0;0;0;0;0;0;0;0;0;0]) 7%Z; Insert (mk [4;0;0;0;0;0;0;0;0;0;0;0;0;0]) 8%Z;
             Insert (mk [5;0;0;0;0;0;0;0;0;0;0;0;0;0]) 9%Z; Insert (mk [1;1;1;1;1;1;1;1;1;1;1;1;1;2]) 10%Z;
             Delete (mk [5;0;0;0;0;0;0;0;0;0;0;0;0;0]); Delete (mk [4;0;0;0;0;0;0;0;0;0;0;0;0;0]);
             Delete (mk [3;0;0;0;0;0;0;0;0;0;0;0;0;0]); Delete (mk [2;0;0;0;0;0;0;0;0;0;0;0;0;0]);
             Delete (mk [1;4;4;4;4;4;4;4;4;4;4;4;4;4]); Delete (mk [1;1;1;7;7;7;7;7;7;7;7;7;7;7]);
             Delete (mk [1;1;1;1;1;1;1;1;1;1;1;1;9;9]); Delete (mk [1;1;1;1;1;1;1;1;1;1;1;1;1;3]);
             Delete (mk [9]); Delete (mk [1;1;1;1;1;1;1;1;1;1;1;1;1;2])].
(* the codec-parametric compound tree with the identity codec: the byte strings above are the transform keys *)
Definition k_id : Api.kind := KCodec (fun l => l) (fun l => l).
Example ex_compound_cosim : g_run k_id g_init (ex_codec_ops AB) = x_run k_id xinit [] (ex_codec_ops AB).
Proof. vm_compute. reflexivity. Qed.

(* A4. one byte-level history with pairwise different path bytes, run through EACH of the four other template
   instances (they take the transform key as it is; the model is Api.KCodec with the identity codec).  It
   covers: an inline compressed-path split whose branch byte differs from every byte the shifted path holds
   at that index afterwards (the order "link the old node, then rewrite its header"); a descent through a path
   longer than the inline bytes on which the key agrees with the minimum leaf BEYOND the path (prefixMismatch
   returns more than node.prefixLen); a Delete and an Insert whose key ends exactly at an inner node *)
Definition tkey (l : list N) : akey := AB l.
Definition ex_bytes : list (op * list choice) :=
  fresh_ops [Insert (tkey [1;2;3;4;5;9]) 1%Z; Insert (tkey [1;2;3;4;5;8]) 2%Z;
             Insert (tkey [1;2;7;7;7;7]) 3%Z;                          (* inline split at 2: branch byte 3 *)
             Insert (tkey [1;2;3;4;6;6]) 4%Z;                          (* below: inline split at 1 of [4;5] *)
             Delete (tkey [1;2]); Insert (tkey [1;2]) 5%Z;             (* the key ends at an inner node *)
             Delete (tkey [1;2;3;4]); Delete (tkey [1;2;3;4;5]);
             Insert (tkey [20;21;22;23;24;25;26;27;28;29;30;31;32;33;40;41]) 6%Z;
             Insert (tkey [20;21;22;23;24;25;26;27;28;29;30;31;32;33;50;41]) 7%Z;   (* a path of 14 bytes *)
             Insert (tkey [20;21;22;23;24;25;26;27;28;29;30;31;32;33;40;42]) 8%Z;   (* agrees with the minimum leaf on 15 *)
             Insert (tkey [20;21;22;23;24;25;26;27;28;29;30;31;77;33;40;42]) 9%Z;   (* split at 12 of 14: leaf bytes *)
             Insert (tkey [20;21;22;23;88;25;26;27;28;29;30;31;32;33;40;42]) 10%Z;  (* split at 4 of 12: leaf bytes *)
             Insert (tkey [20;21;99]) 11%Z;                                          (* split at 2 of 4: inline *)
             Delete (tkey [20;21;22;23;24;25;26;27;28;29;30;31;32;33;40;42]);
             Delete (tkey [20;21;22;23;24;25;26;27;28;29;30;31;32;33;50;41]);        (* collapse onto a leaf *)
             Delete (tkey [20;21;22;23;24;25;26;27;28;29;30;31;77;33;40;42]);        (* collapse: merged path *)
             Delete (tkey [20;21;99]); Delete (tkey [20;21;22;23;88;25;26;27;28;29;30;31;32;33;40;42]);
             Delete (tkey [1;2;3;4;5;9]); Delete (tkey [1;2;3;4;5;8]); Delete (tkey [1;2;3;4;6;6]);
             Delete (tkey [1;2;7;7;7;7]); Delete (tkey [20;21;22;23;24;25;26;27;28;29;30;31;32;33;40;41]);
             Delete (tkey [1])].
Definition bytes_ins (f : nat -> heap -> href -> Z -> list N -> Z -> list choice -> hpool -> mres unit) : ins_fn :=
  fun fuel h r s a v os p => match a with AB l => f fuel h r s l v os p | _ => MPanic end.
Definition bytes_del (f : nat -> heap -> href -> Z -> list N -> list choice -> hpool -> mres bool) : del_fn :=
  fun fuel h r s a os p => match a with AB l => f fuel h r s l os p | _ => MPanic end.
Example ex_bytes_outputs : map (fun v : view => fst (fst (fst v))) (x_run k_id xinit [] ex_bytes) =
  repeat OUnit 4 ++ [OBool false; OUnit; OBool false; OBool false] ++ repeat OUnit 6 ++ repeat (OBool true) 10 ++ [OBool false].
Proof. vm_compute. reflexivity. Qed.
Example ex_unsigned_cosim :
  gf_run (bytes_ins g_unsigned_insert) (bytes_del g_unsigned_delete) k_id g_init ex_bytes = x_run k_id xinit [] ex_bytes.
Proof. vm_compute. reflexivity. Qed.
Example ex_signed_cosim :
  gf_run (bytes_ins g_signed_insert) (bytes_del g_signed_delete) k_id g_init ex_bytes = x_run k_id xinit [] ex_bytes.
Proof. vm_compute. reflexivity. Qed.
Example ex_float_cosim :
  gf_run (bytes_ins g_float_insert) (bytes_del g_float_delete) k_id g_init ex_bytes = x_run k_id xinit [] ex_bytes.
Proof. vm_compute. reflexivity. Qed.
Example ex_compound_bytes_cosim :
  gf_run (bytes_ins g_compound_insert) (bytes_del g_compound_delete) k_id g_init ex_bytes = x_run k_id xinit [] ex_bytes.
Proof. vm_compute. reflexivity. Qed.
(* the same history through alpha (the terminator 0 is appended by the method) and through collation
   (transform key = the bytes, original key = the bytes reversed) *)
Example ex_alpha_bytes_cosim : g_run KAlpha g_init ex_bytes = x_run KAlpha xinit [] ex_bytes.
Proof. vm_compute. reflexivity. Qed.
Definition to_col (e : op * list choice) : op * list choice :=
  (match fst e with
   | Insert (AB l) v => Insert (AC (rev l) l) v
   | Delete (AB l) => Delete (AC (rev l) l)
   | o => o
   end, snd e).
Example ex_collation_bytes_cosim :
  g_run KCollation g_init (map to_col ex_bytes) = x_run KCollation xinit [] (map to_col ex_bytes).
Proof. vm_compute. reflexivity. Qed.
